(* C13 (comments part): acceptance alignment between the comments run and the
   plain run (same include_position), and the four-flag corollary.
   - comments run succeeds => plain run succeeds: for EVERY parser tree;
   - plain run succeeds => comments run succeeds: false in general (a key-value
     entry spelled __comments__, and shapes the grammar never produces);
     refuted with concrete witnesses. *)
From MF Require Import Lib.Base Lib.PyDict Lib.PyNum Model.GrammarTypes Model.Lexer Model.LR
  Model.Case Model.Transformer Model.Api Gen.Tokens Gen.Grammar Proofs.C11 Proofs.C13U Proofs.C13U_Comments
  Proofs.C13C_Parse Proofs.C13C_Erase Proofs.C13C Model.SlotDoc Model.SlotCheck.
Open Scope N_scope.

(* ================================================================ the invariant *)
(* a dict that can reach composite() as an attribute is a block result (has
   __type__) or has pairwise distinct keys (every attr() result has) *)
Fixpoint nodupb (l : list str) : bool :=
  match l with
  | [] => true
  | k :: r => negb (mem_str k r) && nodupb r
  end.

Lemma nodupb_NoDup l : nodupb l = true <-> NoDup l.
Proof.
  induction l as [|k r IH]; cbn [nodupb]; [split; [constructor|reflexivity]|].
  rewrite andb_true_iff, negb_true_iff, IH. split.
  - intros [H1 H2]. constructor; [|exact H2]. intros Hin. apply mem_str_In in Hin. congruence.
  - intros H. inversion H as [|? ? Hn Hd]; subst. split; [|exact Hd].
    destruct (mem_str k r) eqn:E; [|reflexivity]. apply mem_str_In in E. contradiction.
Qed.

Definition Vd (items : titems) : bool := typed items || nodupb (keys items).

Fixpoint V (x : tv) : bool :=
  match x with
  | TVal _ => true
  | TTok _ => true
  | TSeq l => forallb V l
  | TDict _ items => Vd items
  end.

Definition Vs (l : list tv) : bool := forallb V l.

Lemma Vs_cons x l : Vs (x :: l) = V x && Vs l.
Proof. reflexivity. Qed.

Lemma Vs_hd x l : Vs (x :: l) = true -> V x = true.
Proof. rewrite Vs_cons. intros H. apply andb_true_iff in H. apply H. Qed.

(* ---------------------------------------------------------------- V is kept by every callback *)
Lemma set_first_V t s x : set_first t s = Ok x -> V x = true.
Proof. unfold set_first. intros H. wcrush H. reflexivity. Qed.
Lemma cb_binary_V t a b c x : cb_binary t a b c = Ok x -> V x = true.
Proof. unfold cb_binary. intros H. wcrush H. eapply set_first_V; eassumption. Qed.
Lemma cb_comparison_V t x : cb_comparison t = Ok x -> V x = true.
Proof. unfold cb_comparison. intros H. wcrush H. eapply set_first_V; eassumption. Qed.
Lemma cb_prefix_V t p b x : cb_prefix t p b = Ok x -> V x = true.
Proof. unfold cb_prefix. intros H. wcrush H; eapply set_first_V; eassumption. Qed.
Lemma cb_expression_V t x : cb_expression t = Ok x -> V x = true.
Proof. unfold cb_expression. intros H. wcrush H; reflexivity. Qed.
Lemma cb_func_call_V t x : cb_func_call t = Ok x -> V x = true.
Proof. unfold cb_func_call. intros H. wcrush H. reflexivity. Qed.
Lemma cb_func_params_V t x : cb_func_params t = Ok x -> V x = true.
Proof. unfold cb_func_params. intros H. wcrush H. reflexivity. Qed.
Lemma cb_attr_bind_V t x : cb_attr_bind t = Ok x -> V x = true.
Proof. unfold cb_attr_bind. intros H. wcrush H. reflexivity. Qed.
Lemma cb_list_V t x : cb_list t = Ok x -> V x = true.
Proof. unfold cb_list. intros H. wcrush H. reflexivity. Qed.
Lemma cb_first_V t x : Vs t = true -> cb_first t = Ok x -> V x = true.
Proof. unfold cb_first. intros HW H. wcrush H. eapply Vs_hd; exact HW. Qed.
Lemma cb_int_V t x : cb_int t = Ok x -> V x = true.
Proof. unfold cb_int. intros H. wcrush H. reflexivity. Qed.
Lemma cb_float_V t x : cb_float t = Ok x -> V x = true.
Proof. unfold cb_float. intros H. wcrush H. reflexivity. Qed.
Lemma cb_bool_V b t x : cb_bool b t = Ok x -> V x = true.
Proof. unfold cb_bool. intros H. wcrush H. reflexivity. Qed.
Lemma cb_hexcolor_V t x : cb_hexcolor t = Ok x -> V x = true.
Proof. unfold cb_hexcolor. intros H. wcrush H. reflexivity. Qed.
Lemma cb_len_V n t x : Vs t = true -> cb_len n t = Ok x -> V x = true.
Proof. unfold cb_len. intros HW H. wcrush H. exact HW. Qed.
Lemma cb_start_V t x : Vs t = true -> cb_start t = Ok x -> V x = true.
Proof.
  unfold cb_start. intros HW H. destruct t as [|a [|b r]]; injection H as <-; try exact HW.
  eapply Vs_hd; exact HW.
Qed.

Lemma Vd_set k v (items : titems) : Vd items = true -> Vd (od_set k v items) = true.
Proof.
  unfold Vd. intros H. apply orb_true_iff in H. destruct H as [H|H].
  - rewrite typed_od_set by exact H. reflexivity.
  - apply orb_true_iff. right. apply nodupb_NoDup. apply NoDup_set. apply nodupb_NoDup. exact H.
Qed.

Lemma Vd_single k (v : tv) : Vd [(k, v)] = true.
Proof. unfold Vd. cbn. apply orb_true_r. Qed.

Lemma attr_body_V key kn vts x : attr_body key kn vts = Ok x -> V x = true.
Proof.
  unfold attr_body. intros H.
  destruct (create_position_dict key (Some vts)) as [pd|e]; cbn [bind] in H; [|discriminate].
  destruct vts as [|a [|b rest]]; [discriminate| |].
  - destruct (tok_of a) as [t|e]; cbn [bind] in H; [|discriminate]. injection H as <-.
    cbn [V]. apply Vd_set, Vd_set, Vd_single.
  - destruct (str_eqb kn s_config).
    + destruct rest; [|discriminate].
      destruct (tok_of a) as [ta|e]; cbn [bind] in H; [|discriminate].
      destruct (tok_of b) as [tb|e]; cbn [bind] in H; [|discriminate].
      destruct (pk_val ta) as [| | | |ka| |]; try discriminate. cbn [bind] in H. injection H as <-.
      cbn [V]. apply Vd_set, Vd_single.
    + destruct (mapM tv_dot_value (a :: b :: rest)) as [vals|e]; cbn [bind] in H; [|discriminate].
      injection H as <-. cbn [V]. apply Vd_set, Vd_set, Vd_single.
Qed.

Lemma cb_attr_V tokens x : cb_attr tokens = Ok x -> V x = true.
Proof.
  rewrite cb_attr_stages. intros H. destruct tokens as [|k0 vt0]; [discriminate|].
  destruct (attr_key k0) as [key|e]; cbn [bind] in H; [|discriminate].
  destruct (key_name key) as [kn|e]; cbn [bind] in H; [|discriminate].
  destruct (attr_vtoks vt0) as [vts|e]; cbn [bind] in H; [|discriminate].
  eapply attr_body_V; exact H.
Qed.

Lemma cb_config_V t x : cb_config t = Ok x -> V x = true.
Proof.
  unfold cb_config. intros H. destruct t as [|k [|a [|b [|c r]]]]; try discriminate.
  destruct (tok_of a) as [ta|e]; cbn [bind] in H; [|discriminate].
  destruct (tok_of b) as [tb|e]; cbn [bind] in H; [|discriminate].
  destruct (tok_str ta) as [ks|e]; cbn [bind] in H; [|discriminate].
  eapply cb_attr_V; exact H.
Qed.

Lemma cb_projection_V t x : cb_projection t = Ok x -> V x = true.
Proof.
  unfold cb_projection. intros H.
  destruct (check_composite_tokens _ t) as [[k0 body]|e]; cbn [bind] in H; [|discriminate].
  destruct (mapM _ body) as [strs|e]; cbn [bind] in H; [|discriminate].
  destruct t as [|k [|v1 r]]; try discriminate.
  destruct (tok_of v1) as [vt|e]; cbn [bind] in H; [|discriminate].
  eapply cb_attr_V; exact H.
Qed.

Lemma process_pair_lists_V name t x : process_pair_lists name t = Ok x -> V x = true.
Proof.
  unfold process_pair_lists. intros H.
  destruct (check_composite_tokens _ t) as [[k0 body]|e]; cbn [bind] in H; [|discriminate].
  destruct (mapM _ body) as [pairs|e]; cbn [bind] in H; [|discriminate].
  destruct t as [|k [|v1 r]]; try discriminate.
  destruct v1 as [v|tk|[|[v|vt|l2|c2 i2] l]|c items]; try discriminate.
  eapply cb_attr_V; exact H.
Qed.

Lemma process_value_pairs_V ip t ty x : process_value_pairs ip t ty = Ok x -> V x = true.
Proof.
  rewrite process_value_pairs_stages. intros H.
  destruct (check_composite_tokens ty t) as [[key body]|e]; cbn [bind] in H; [|discriminate].
  destruct (key_name _) as [kn|e]; cbn [bind] in H; [|discriminate].
  destruct (fold_left pvp_step _ _) as [d|e]; cbn [bind] in H; [|discriminate].
  destruct (pvp_pos ip _ _ d) as [d1|e]; cbn [bind] in H; [|discriminate].
  injection H as <-. cbn [V]. unfold Vd. rewrite typed_ci_set_type. reflexivity.
Qed.

Lemma comp_finish_V ic st x : hk (cs_dict st) = Some s_type -> comp_finish ic st = Ok x -> V x = true.
Proof.
  unfold comp_finish. cbv zeta. intros Hk H.
  destruct (cs_dict st) as [|[k1 v1] r1]; [discriminate|]. cbn [hk] in Hk. injection Hk as ->.
  injection H as <-. cbn [V]. unfold Vd, typed. cbn [od_mem]. rewrite str_eqb_refl. reflexivity.
Qed.

Lemma cb_composite_V ip ic t x : Vs t = true -> cb_composite ip ic t = Ok x -> V x = true.
Proof.
  rewrite cb_composite_stages. intros HW H.
  destruct t as [|a [|b r]]; [discriminate| |].
  - injection H as <-. eapply Vs_hd; exact HW.
  - destruct a as [| |[|[|key| |] l]|]; try discriminate.
    unfold comp_main in H.
    destruct (key_name key) as [kn|e]; cbn [bind] in H; [|discriminate].
    destruct (comp_pd ip key) as [pd|e]; cbn [bind] in H; [|discriminate].
    destruct (comp_fold ic _ _) as [st|e] eqn:F1; cbn [bind] in H; [|discriminate].
    eapply comp_finish_V; [|exact H]. eapply comp_fold_hk; [exact F1|apply comp_init_hk].
Qed.

Lemma callback_V ip ic d t x : Vs t = true -> callback ip ic d t = Ok x -> V x = true.
Proof.
  intros HW H. unfold callback in H.
  repeat match type of H with
         | (if ?c then _ else _) = _ => destruct c
         end.
  all: try discriminate.
  all: first
    [ eapply cb_start_V; eassumption
    | eapply cb_composite_V; eassumption
    | eapply cb_attr_V; eassumption
    | eapply cb_projection_V; eassumption
    | eapply cb_config_V; eassumption
    | eapply process_pair_lists_V; eassumption
    | eapply process_value_pairs_V; eassumption
    | eapply cb_comparison_V; eassumption
    | eapply cb_binary_V; eassumption
    | eapply cb_first_V; eassumption
    | eapply cb_prefix_V; eassumption
    | eapply cb_expression_V; eassumption
    | eapply cb_func_call_V; eassumption
    | eapply cb_func_params_V; eassumption
    | eapply cb_attr_bind_V; eassumption
    | eapply cb_len_V; eassumption
    | eapply cb_bool_V; eassumption
    | eapply cb_int_V; eassumption
    | eapply cb_float_V; eassumption
    | eapply cb_hexcolor_V; eassumption
    | eapply cb_list_V; eassumption
    | (injection H as <-; exact HW) ].
Qed.

Fixpoint gV (g : gtree) : bool :=
  match g with
  | GTok _ => true
  | GVal v => V v
  | GNode d cs m => forallb gV cs
  end.

Lemma tr_list_V_aux ip ic (IH : forall g x, gV g = true -> tr_main ip ic g = Ok x -> V x = true) cs :
  forall xs, forallb gV cs = true -> tr_list ip ic cs = Ok xs -> Vs xs = true.
Proof.
  induction cs as [|c cs IHcs]; intros xs HG L.
  - cbn in L. injection L as <-. reflexivity.
  - cbn [forallb] in HG. apply andb_true_iff in HG. destruct HG as [Hc HG]. cbn [tr_list] in L.
    destruct (tr_main ip ic c) as [x1|e] eqn:T1; cbn [bind] in L; [|discriminate].
    fold (tr_list ip ic cs) in L.
    destruct (tr_list ip ic cs) as [xs1|e]; cbn [bind] in L; [|discriminate].
    injection L as <-. rewrite Vs_cons, (IH c x1 Hc T1). apply IHcs; [exact HG|reflexivity].
Qed.

Theorem tr_main_V ip ic : forall g x, gV g = true -> tr_main ip ic g = Ok x -> V x = true.
Proof.
  fix IH 1. intros g x HG H. destruct g as [t|d cs m|v].
  - cbn in H. injection H as <-. reflexivity.
  - rewrite tr_main_node in H. cbn [gV] in HG.
    destruct (tr_list ip ic cs) as [xs|e] eqn:L; cbn [bind] in H; [|discriminate].
    eapply callback_V; [|exact H]. clear H. revert xs L.
    induction cs as [|c cs IHcs]; intros xs L.
    + cbn in L. injection L as <-. reflexivity.
    + cbn [forallb] in HG. apply andb_true_iff in HG. destruct HG as [Hc HG].
      cbn [tr_list] in L.
      destruct (tr_main ip ic c) as [x1|e] eqn:T1; cbn [bind] in L; [|discriminate].
      fold (tr_list ip ic cs) in L.
      destruct (tr_list ip ic cs) as [xs1|e] eqn:L1; cbn [bind] in L; [|discriminate].
      injection L as <-. rewrite Vs_cons. rewrite (IH c x1 Hc T1). apply IHcs; [exact HG|reflexivity].
  - cbn in H. injection H as <-. exact HG.
Qed.

Lemma tr_list_V ip ic cs xs : forallb gV cs = true -> tr_list ip ic cs = Ok xs -> Vs xs = true.
Proof. apply tr_list_V_aux. apply tr_main_V. Qed.

Lemma gV_gtree_of : forall t, gV (gtree_of t) = true.
Proof.
  fix IH 1. intros [tk|d cs m]; [reflexivity|].
  cbn [gtree_of gV]. induction cs as [|c cs IHcs]; [reflexivity|].
  cbn [map forallb]. rewrite IH, IHcs. reflexivity.
Qed.

Lemma gV_canonize g : gV g = true -> gV (canonize g) = true.
Proof.
  intros H. destruct g as [t|d cs m|v]; try exact H. cbn [canonize].
  destruct (d =? CB_symbolset); [|exact H]. cbn [gV forallb] in *. exact H.
Qed.

(* ================================================================ composite_item fails on both sides or on none *)
Lemma ends_s_noncm (X : str) : is_cm (X ++ [115]) = false.
Proof.
  unfold is_cm. destruct (str_eqb_spec (X ++ [115]) s_comments) as [Heq|]; [exfalso|reflexivity].
  apply (f_equal (@rev N)) in Heq. rewrite rev_app_distr in Heq. cbn [rev app] in Heq.
  vm_compute in Heq. discriminate Heq.
Qed.

Lemma lower_plural_noncm k : is_cm (lower (plural k)) = false.
Proof.
  assert (H : plural k = k ++ Str "es" \/ plural k = k ++ Str "s").
  { unfold plural. destruct (last_opt k) as [c|]; [|right; reflexivity].
    destruct c as [|p]; [right; reflexivity|].
    repeat (first [left; reflexivity | right; reflexivity | destruct p as [p|p|]]). }
  destruct H as [-> | ->]; rewrite lower_app.
  - change (lower (Str "es")) with ([101] ++ [115]). rewrite app_assoc. apply ends_s_noncm.
  - change (lower (Str "s")) with [115]. apply ends_s_noncm.
Qed.

Lemma repeated_noncm kn : mem_str kn REPEATED_KEYS = true -> is_cm (lower kn) = false.
Proof.
  intros H. apply mem_str_In in H. unfold REPEATED_KEYS in H. cbn [In] in H.
  repeat (destruct H as [<-|H]; [vm_compute; reflexivity|]). contradiction.
Qed.

Lemma tv_list_append_alignC x x' e e' r :
  C x x' -> C e e' -> tv_list_append x e = Ok r -> exists r', tv_list_append x' e' = Ok r'.
Proof.
  intros Hx He H. pose proof (tv_list_append_C _ _ _ _ Hx He) as HR. rewrite H in HR.
  destruct (tv_list_append x' e') as [r'|]; [eexists; reflexivity|contradiction].
Qed.

Lemma append_under_alignC k (d d' : titems) v v' r :
  is_cm (lower k) = false -> SC d = SC d' -> C v v' ->
  tv_list_append (match ci_get k d with Some x => x | None => TSeq [] end) v = Ok r ->
  exists r', tv_list_append (match ci_get k d' with Some x => x | None => TSeq [] end) v' = Ok r'.
Proof.
  intros Hk Hd Hv H. eapply tv_list_append_alignC; [|exact Hv|exact H]. apply ci_get_C; assumption.
Qed.

Lemma ci_typed_alignC st st' d d' ty ty' s :
  SRc st st' -> C d d' -> C ty ty' -> ci_typed st d ty = Ok s -> exists s', ci_typed st' d' ty' = Ok s'.
Proof.
  intros [Hd Hc] He Ht H. unfold ci_typed in *.
  destruct ty as [[| | | |k| |]| | |]; try discriminate. cinv. cbn [bind] in *.
  destruct (mem_str k SINGLETON_COMPOSITE_NAMES); [eexists; reflexivity|]. cbv zeta in *.
  destruct (tv_list_append _ d) as [c1|e] eqn:A1; cbn [bind] in H; [|discriminate].
  destruct (append_under_alignC (plural k) _ _ _ _ _ (lower_plural_noncm k) Hd He A1) as [r' ->].
  cbn [bind]. eexists; reflexivity.
Qed.

Lemma process_config_alignC st st' a a' pos s :
  SRc st st' -> SC a = SC a' ->
  process_config st a pos = Ok s -> exists s', process_config st' a' pos = Ok s'.
Proof.
  intros [Hd Hp] Ha H. apply process_config_inv2 in H. destruct H as (c & cfg & p1 & A1 & P1 & _).
  pose proof (SC_assoc_C s_config a a' is_cm_config Ha) as Hx. rewrite A1 in Hx.
  destruct (assoc s_config a') as [x'|] eqn:A2; cbn [optC] in Hx; [|contradiction].
  apply C_val_l in Hx. subst x'.
  unfold process_config. rewrite A2. fold (cfg_pos (cs_pos st') cfg pos). rewrite <- Hp, P1. cbn [bind].
  eexists; reflexivity.
Qed.

Lemma points_new_alignC d d' nv r : SC d = SC d' -> points_new d nv = Ok r -> exists r', points_new d' nv = Ok r'.
Proof.
  intros H H1. unfold points_new, ci_get in *. rewrite lower_points in *.
  pose proof (SC_assoc_C s_points d d' is_cm_points H) as Ha.
  destruct (assoc s_points d) as [x|], (assoc s_points d') as [x'|]; cbn [optC] in Ha; try contradiction.
  - destruct x as [ex| | |]; try discriminate. cinv.
    destruct (calculate_depth ex) as [dep|e]; cbn [bind] in *; [|discriminate].
    destruct (if (dep =? 2)%Z then VList [ex] else ex); try discriminate. eexists; reflexivity.
  - eexists; reflexivity.
Qed.

Lemma process_points_alignC st st' a a' pos s :
  SRc st st' -> SC a = SC a' ->
  process_points st a pos = Ok s -> exists s', process_points st' a' pos = Ok s'.
Proof.
  intros [Hd Hc] Ha H. apply process_points_inv2 in H. destruct H as (nv & d1 & A1 & D1 & _).
  pose proof (SC_assoc_C s_points a a' is_cm_points Ha) as Hx. rewrite A1 in Hx.
  destruct (assoc s_points a') as [x'|] eqn:A2; cbn [optC] in Hx; [|contradiction].
  apply C_val_l in Hx. subst x'.
  destruct (points_new_alignC _ _ _ _ Hd D1) as [r' Hr].
  unfold process_points. rewrite A2. fold (points_new (cs_dict st') nv). rewrite Hr. cbn [bind].
  eexists; reflexivity.
Qed.

Definition nocm_keys (l : titems) : bool := forallb (fun kv => negb (is_cm (fst kv))) l.

Lemma nocm_single (l : titems) k sv :
  nocm_keys l = true -> SC l = [(k, sv)] -> exists v, l = [(k, v)] /\ strip_cm_tv v = sv.
Proof.
  intros Hn H. destruct l as [|[k1 v1] [|[k2 v2] r]]; cbn [nocm_keys forallb fst] in Hn.
  - discriminate.
  - rewrite andb_true_r in Hn. apply negb_true_iff in Hn. rewrite SC_cons_noncm in H by exact Hn.
    injection H as -> <-. eexists; split; reflexivity.
  - apply andb_true_iff in Hn. destruct Hn as [H1 Hn]. apply andb_true_iff in Hn. destruct Hn as [H2 _].
    apply negb_true_iff in H1, H2. rewrite !SC_cons_noncm in H by assumption. discriminate.
Qed.

Lemma notin_nocm (l : titems) : ~ In s_comments (keys l) -> nocm_keys l = true.
Proof.
  unfold nocm_keys. induction l as [|[k v] l IH]; [reflexivity|]. cbn [keys map fst In forallb]. intros H.
  rewrite IH by (unfold keys; tauto). rewrite andb_true_r. apply negb_true_iff.
  unfold is_cm. apply str_eqb_neq. intros ->. tauto.
Qed.

(* with distinct keys, deleting __comments__ leaves no __comments__ key *)
Lemma items2_nocm items : NoDup (keys items) -> nocm_keys (items2_of items) = true.
Proof.
  intros H. apply notin_nocm. unfold items2_of.
  assert (Hn : NoDup (keys (items1_of items))) by (unfold items1_of; apply NoDup_del, NoDup_del; exact H).
  apply assoc_None_notin. apply get_del_same. exact Hn.
Qed.

Lemma ci_untyped_alignC ic ic' st st' pos cm cm' i2 i2' s :
  SRc st st' -> SC i2 = SC i2' -> nocm_keys i2 = true -> nocm_keys i2' = true ->
  ci_untyped ic st pos cm i2 = Ok s -> exists s', ci_untyped ic' st' pos cm' i2' = Ok s'.
Proof.
  intros HSR Hi Hn Hn' H.
  destruct i2 as [|[kn v] [|? ?]]; try discriminate.
  assert (Hk : is_cm kn = false).
  { cbn [nocm_keys forallb fst] in Hn. rewrite andb_true_r in Hn. apply negb_true_iff in Hn. exact Hn. }
  rewrite SC_cons_noncm in Hi by exact Hk. symmetry in Hi.
  destruct (nocm_single _ _ _ Hn' Hi) as (v' & -> & Hv). symmetry in Hv. change (C v v') in Hv.
  assert (Hi2 : SC [(kn, v)] = SC [(kn, v')]).
  { rewrite !SC_cons_noncm by exact Hk. rewrite Hv. reflexivity. }
  unfold ci_untyped in *.
  destruct (str_eqb kn s_config); [eapply process_config_alignC; eassumption|].
  destruct (str_eqb kn s_points); [eapply process_points_alignC; eassumption|].
  destruct (mem_str kn REPEATED_KEYS) eqn:Er; [|eexists; reflexivity].
  cbv zeta in *. destruct HSR as [Hd _].
  destruct (tv_list_append _ v) as [c1|e] eqn:A1; cbn [bind] in H; [|discriminate].
  destruct (append_under_alignC kn _ _ _ _ _ (repeated_noncm kn Er) Hd Hv A1) as [r' ->].
  cbn [bind]. eexists; reflexivity.
Qed.

Lemma composite_item_alignC ic ic' st st' d d' s :
  SRc st st' -> C d d' -> V d = true -> V d' = true ->
  composite_item ic st d = Ok s -> exists s', composite_item ic' st' d' = Ok s'.
Proof.
  intros HSR He HW HW' H. rewrite composite_item_stages in *.
  destruct d as [| | |c items]; try discriminate. cinv.
  pose proof (SC_assoc_C s_type items items' is_cm_type HS) as Ht.
  destruct (assoc s_type items) as [ty|] eqn:T1, (assoc s_type items') as [ty'|] eqn:T2; cbn [optC] in Ht;
    try contradiction.
  - eapply ci_typed_alignC; [exact HSR|apply C_dict; exact HS|exact Ht|exact H].
  - cbn [V] in HW, HW'. unfold Vd, typed in HW, HW'. rewrite od_mem_assoc in HW, HW'.
    rewrite T1 in HW. rewrite T2 in HW'. cbn [orb] in HW, HW'. apply nodupb_NoDup in HW, HW'.
    pose proof (SC_assoc_C s_position items items' is_cm_position HS) as Hp.
    destruct (assoc s_position items) as [[p| | |]|]; try discriminate.
    destruct (assoc s_position items') as [x'|]; cbn [optC] in Hp; [|contradiction].
    apply C_val_l in Hp. subst x'. cbn [bind] in *.
    eapply ci_untyped_alignC; [exact HSR|apply SC_items2; exact HS| | |exact H].
    + apply items2_nocm. exact HW.
    + apply items2_nocm. exact HW'.
Qed.

Lemma comp_fold_alignC ic ic' l l' : Forall2 C l l' -> Vs l = true -> Vs l' = true -> forall st st' s,
  SRc st st' -> comp_fold ic l (Ok st) = Ok s -> exists s', comp_fold ic' l' (Ok st') = Ok s'.
Proof.
  induction 1 as [|d d' l l' Hd _ IH]; intros HW HW' st st' s HSR H.
  - eexists; reflexivity.
  - rewrite Vs_cons in HW, HW'. apply andb_true_iff in HW, HW'. destruct HW as [W1 W2], HW' as [W1' W2'].
    cbn [comp_fold fold_left comp_step bind] in *.
    destruct (composite_item ic st d) as [s1|e] eqn:E1;
      [|fold (comp_fold ic l (Err e)) in H; rewrite comp_fold_err in H; discriminate].
    destruct (composite_item_alignC ic ic' st st' d d' s1 HSR Hd W1 W1' E1) as [s1' E2]. rewrite E2.
    eapply IH; [exact W2|exact W2'| |exact H]. eapply composite_item_C; eassumption.
Qed.

Lemma attrs_of_V x : V x = true -> Vs (attrs_of x) = true.
Proof. destruct x; cbn [attrs_of Vs forallb V]; intros H; rewrite ?H; auto. Qed.

Lemma comp_main_alignC ip ic ic' key second second' x :
  C second second' -> V second = true -> V second' = true ->
  comp_main ip ic key second = Ok x -> exists y, comp_main ip ic' key second' = Ok y.
Proof.
  intros Hs HW HW' H. unfold comp_main in *.
  destruct (key_name key) as [kn|e]; cbn [bind] in *; [|discriminate].
  destruct (comp_pd ip key) as [pd|e]; cbn [bind] in *; [|discriminate].
  destruct (comp_fold ic (attrs_of second) _) as [st|e] eqn:F1; cbn [bind] in H; [|discriminate].
  destruct (comp_fold_alignC ic ic' _ _ (attrs_of_C _ _ Hs) (attrs_of_V _ HW) (attrs_of_V _ HW')
              (comp_init kn pd) (comp_init kn pd) st) as [st' F2]; [split; reflexivity|exact F1|].
  rewrite F2. cbn [bind].
  pose proof (comp_fold_hk ic' _ s_type _ _ F2 (comp_init_hk kn pd)) as K.
  unfold comp_finish. cbv zeta. destruct (cs_dict st'); [discriminate|]. eexists; reflexivity.
Qed.

Lemma cb_composite_alignC ip ic ic' xs ys x :
  Forall2 C xs ys -> Vs xs = true -> Vs ys = true ->
  cb_composite ip ic xs = Ok x -> exists y, cb_composite ip ic' ys = Ok y.
Proof.
  intros H HW HW' H1. rewrite cb_composite_stages in *.
  destruct H as [|a a' xs ys Ha H]; [discriminate|].
  destruct H as [|b b' xs ys Hb H]; [eexists; reflexivity|].
  destruct a as [| |l|]; try discriminate. cinv.
  destruct l as [|k l]; [discriminate|]. cinv. destruct k as [|key| |]; try discriminate. cinv.
  rewrite !Vs_cons in HW, HW'. apply andb_true_iff in HW, HW'. destruct HW as [_ HW], HW' as [_ HW'].
  apply andb_true_iff in HW, HW'. destruct HW as [HW _], HW' as [HW' _].
  eapply comp_main_alignC; eassumption.
Qed.

(* every callback: the flag include_comments never decides between success and failure *)
Lemma callback_alignC ip ic ic' d xs ys x :
  Forall2 C xs ys -> Vs xs = true -> Vs ys = true ->
  callback ip ic d xs = Ok x -> exists y, callback ip ic' d ys = Ok y.
Proof.
  intros H HW HW' H1.
  assert (G : forall f, CR (f xs) (f ys) -> f xs = Ok x -> exists y, f ys = Ok y).
  { intros f HR A. rewrite A in HR. destruct (f ys); [eexists; reflexivity|contradiction]. }
  assert (G2 : forall f, f ys = f xs -> f xs = Ok x -> exists y, f ys = Ok y).
  { intros f HR A. rewrite HR, A. eexists; reflexivity. }
  unfold callback in *.
  repeat match type of H1 with
         | (if ?c then _ else _) = _ => destruct c
         end.
  all: try discriminate.
  all: try (eapply cb_composite_alignC; eassumption).
  all: try (revert H1; first
    [ apply (G cb_start), cb_start_C, H
    | apply (G cb_attr), cb_attr_C, H
    | apply (G cb_projection), cb_projection_C, H
    | apply (G cb_config), cb_config_C, H
    | apply (G (process_pair_lists _)), process_pair_lists_C, H
    | apply (G (fun t => process_value_pairs ip t _)), process_value_pairs_C, H
    | apply (G cb_first), cb_first_C, H
    | apply (G (cb_len _)), cb_len_C, H
    | apply (G2 cb_comparison), cb_comparison_C, H
    | apply (G2 (fun t => cb_binary t _ _ _)), cb_binary_C, H
    | apply (G2 (fun t => cb_prefix t _ _)), cb_prefix_C, H
    | apply (G2 cb_expression), cb_expression_C, H
    | apply (G2 cb_func_call), cb_func_call_C, H
    | apply (G2 cb_func_params), cb_func_params_C, H
    | apply (G2 cb_attr_bind), cb_attr_bind_C, H
    | apply (G2 (cb_bool _)), cb_bool_C, H
    | apply (G2 cb_int), cb_int_C, H
    | apply (G2 cb_float), cb_float_C, H
    | apply (G2 cb_hexcolor), cb_hexcolor_C, H
    | apply (G2 cb_list), cb_list_C, H ]).
  all: eexists; reflexivity.
Qed.

(* ================================================================ the two runs, with existence *)
Fixpoint Ga (ip : bool) (h g : gtree) {struct h} : Prop :=
  match h with
  | GTok t => g = GTok t
  | GVal v => V v = true /\ exists y, tr_main ip false g = Ok y /\ C v y
  | GNode d cs _ =>
      match g with
      | GNode d' cs' _ =>
          d = d' /\
          (fix go (l l' : list gtree) {struct l} : Prop :=
             match l, l' with
             | [], [] => True
             | c :: l1, c' :: l1' => Ga ip c c' /\ go l1 l1'
             | _, _ => False
             end) cs cs'
      | _ => False
      end
  end.

Definition Ga_list (ip : bool) : list gtree -> list gtree -> Prop :=
  fix go (l l' : list gtree) {struct l} : Prop :=
    match l, l' with
    | [], [] => True
    | c :: l1, c' :: l1' => Ga ip c c' /\ go l1 l1'
    | _, _ => False
    end.

Lemma Ga_node ip d cs m d' cs' m' :
  Ga ip (GNode d cs m) (GNode d' cs' m') = (d = d' /\ Ga_list ip cs cs').
Proof. reflexivity. Qed.

Lemma Ga_node_inv ip d cs m g :
  Ga ip (GNode d cs m) g -> exists cs' m', g = GNode d cs' m' /\ Ga_list ip cs cs'.
Proof.
  destruct g as [t|d' cs' m'|v]; try contradiction. rewrite Ga_node. intros [-> H]. eauto.
Qed.

Lemma Ga_Gc ip : forall h g, Ga ip h g -> Gc ip h g.
Proof.
  fix IH 1. intros h g H. destruct h as [t|d cs m|v].
  - exact H.
  - destruct (Ga_node_inv ip d cs m g H) as (cs' & m' & -> & HL). rewrite Gc_node. split; [reflexivity|].
    clear H. revert cs' HL. induction cs as [|c cs IHcs]; intros [|c' cs'] HL; try contradiction; [exact I|].
    destruct HL as [H1 H2]. split; [apply IH; exact H1|apply IHcs; exact H2].
  - cbn [Ga Gc] in *. destruct H as (_ & y & Hy & Hc). intros y' Hy'. rewrite Hy in Hy'. injection Hy' as <-. exact Hc.
Qed.

Lemma Ga_list_Gc ip cs : forall cs', Ga_list ip cs cs' -> Gc_list ip cs cs'.
Proof.
  induction cs as [|c cs IH]; intros [|c' cs'] H; try contradiction; [exact I|].
  destruct H as [H1 H2]. split; [apply Ga_Gc; exact H1|apply IH; exact H2].
Qed.

Lemma Ga_gV ip : forall h g, Ga ip h g -> gV h = true.
Proof.
  fix IH 1. intros h g H. destruct h as [t|d cs m|v]; [reflexivity| |apply H].
  destruct (Ga_node_inv ip d cs m g H) as (cs' & m' & -> & HL). cbn [gV]. clear H.
  revert cs' HL. induction cs as [|c cs IHcs]; intros [|c' cs'] HL; try contradiction; [reflexivity|].
  destruct HL as [H1 H2]. cbn [forallb]. rewrite (IH c c' H1). eapply IHcs; exact H2.
Qed.

Lemma Ga_list_gV ip cs : forall cs', Ga_list ip cs cs' -> forallb gV cs = true.
Proof.
  induction cs as [|c cs IH]; intros [|c' cs'] H; try contradiction; [reflexivity|].
  destruct H as [H1 H2]. cbn [forallb]. rewrite (Ga_gV ip c c' H1). eapply IH; exact H2.
Qed.

Lemma tr_list_C ip cs : forall cs' xs ys,
  Gc_list ip cs cs' -> tr_list ip true cs = Ok xs -> tr_list ip false cs' = Ok ys -> Forall2 C xs ys.
Proof.
  induction cs as [|c cs IH]; intros [|c' cs'] xs ys HL L1 L2; try contradiction.
  - cbn in L1, L2. injection L1 as <-. injection L2 as <-. constructor.
  - destruct HL as [Hc HL]. cbn [tr_list] in L1, L2.
    destruct (tr_main ip true c) as [x1|e] eqn:T1; cbn [bind] in L1; [|discriminate].
    destruct (tr_main ip false c') as [y1|e] eqn:T2; cbn [bind] in L2; [|discriminate].
    fold (tr_list ip true cs) in L1. fold (tr_list ip false cs') in L2.
    destruct (tr_list ip true cs) as [xs1|e]; cbn [bind] in L1; [|discriminate].
    destruct (tr_list ip false cs') as [ys1|e] eqn:L2'; cbn [bind] in L2; [|discriminate].
    injection L1 as <-. injection L2 as <-. constructor; [|eapply IH; [exact HL|reflexivity|exact L2']].
    exact (tr_main_C ip c c' x1 y1 Hc T1 T2).
Qed.

(* the comments-mode pass succeeds => the plain pass succeeds *)
Theorem tr_main_alignC ip : forall h g x,
  Ga ip h g -> gV g = true -> tr_main ip true h = Ok x -> exists y, tr_main ip false g = Ok y.
Proof.
  fix IH 1. intros h g x HA HG H. destruct h as [t|d cs m|v].
  - cbn in HA. subst g. eexists; reflexivity.
  - destruct (Ga_node_inv ip d cs m g HA) as (cs' & m' & -> & HL). clear HA.
    rewrite tr_main_node in *. cbn [gV] in HG.
    destruct (tr_list ip true cs) as [xs|e] eqn:L1; cbn [bind] in H; [|discriminate].
    assert (HLs : exists ys, tr_list ip false cs' = Ok ys).
    { clear H. revert cs' xs HL HG L1.
      induction cs as [|c cs IHcs]; intros [|c' cs'] xs HL HG L1; try contradiction; [eexists; reflexivity|].
      destruct HL as [Hc HL]. cbn [forallb] in HG. apply andb_true_iff in HG. destruct HG as [Gc' HG].
      cbn [tr_list] in *.
      destruct (tr_main ip true c) as [x1|e] eqn:T1; cbn [bind] in L1; [|discriminate].
      destruct (IH c c' x1 Hc Gc' T1) as [y1 ->]. cbn [bind].
      fold (tr_list ip true cs) in L1. fold (tr_list ip false cs').
      destruct (tr_list ip true cs) as [xs1|e] eqn:L1'; cbn [bind] in L1; [|discriminate].
      destruct (IHcs cs' xs1 HL HG eq_refl) as [ys1 ->]. cbn [bind]. eexists; reflexivity. }
    destruct HLs as [ys L2]. rewrite L2. cbn [bind].
    eapply callback_alignC; [| | |exact H].
    + exact (tr_list_C ip cs cs' xs ys (Ga_list_Gc ip cs cs' HL) L1 L2).
    + exact (tr_list_V ip true cs xs (Ga_list_gV ip cs cs' HL) L1).
    + exact (tr_list_V ip false cs' ys HG L2).
  - destruct HA as (_ & y & Hy & _). eexists; exact Hy.
Qed.

(* the comments callbacks keep the invariant *)
Lemma V_dict_set c k v items : V (TDict c items) = true -> V (TDict c (od_set k v items)) = true.
Proof. cbn [V]. apply Vd_set. Qed.

Lemma cc_attr_CV m r h : V r = true -> cc_attr m r = Ok h -> exists v, h = GVal v /\ C v r /\ V v = true.
Proof.
  intros HV H. destruct (cc_attr_C m r h H) as (v & -> & Hc). exists v. split; [reflexivity|]. split; [exact Hc|].
  destruct r as [| | |c items]; try discriminate. cbn [cc_attr] in H. injection H as Hv; rewrite <- Hv. apply V_dict_set. exact HV.
Qed.

Lemma cc_projection_CV m r h : V r = true -> cc_projection m r = Ok h -> exists v, h = GVal v /\ C v r /\ V v = true.
Proof.
  intros HV H. destruct (cc_projection_C m r h H) as (v & -> & Hc). exists v. split; [reflexivity|]. split; [exact Hc|].
  destruct r as [| | |c items]; try discriminate. cbn [cc_projection] in H.
  destruct (has_comments m); injection H as Hv; rewrite <- Hv; [apply V_dict_set|]; exact HV.
Qed.

Lemma cc_composite_CV cs m r h : V r = true -> cc_composite cs m r = Ok h -> exists v, h = GVal v /\ C v r /\ V v = true.
Proof.
  intros HV H. destruct (cc_composite_C cs m r h H) as (v & -> & Hc). exists v. split; [reflexivity|]. split; [exact Hc|].
  destruct r as [| | |c items]; try discriminate. cbn [cc_composite] in H.
  destruct (cc_dictlike _).
  - unfold cc_dict in H. cbv zeta in H. destruct (cc_cm2 _ _ _) as [cm2|e]; cbn [bind] in H; [|discriminate].
    injection H as Hv; rewrite <- Hv. destruct c; cbn [cc_setk]; unfold ci_set; apply V_dict_set; exact HV.
  - apply cc_nondict_inv in H. injection H as ->. exact HV.
Qed.

Lemma comments_callback_Ga ip h g h2 :
  Ga ip h g -> gV g = true -> comments_callback ip h = Ok h2 -> Ga ip h2 g.
Proof.
  intros HA HG H. rewrite comments_callback_stages in H.
  destruct h as [t|d cs m|v]; try (injection H as <-; exact HA).
  assert (K : forall r v, tr_main ip true (GNode d cs m) = Ok r -> C v r -> V v = true -> Ga ip (GVal v) g).
  { intros r v T Hv HVv. cbn [Ga]. split; [exact HVv|].
    destruct (tr_main_alignC ip _ g r HA HG T) as [y Hy]. exists y. split; [exact Hy|].
    eapply C_trans; [exact Hv|]. eapply tr_main_C; [apply Ga_Gc; exact HA|exact T|exact Hy]. }
  assert (KV : forall r, tr_main ip true (GNode d cs m) = Ok r -> V r = true).
  { intros r T. eapply tr_main_V; [|exact T]. eapply Ga_gV; exact HA. }
  destruct (d =? CB_attr).
  { destruct (tr_main ip true _) as [r|e] eqn:T1; cbn [bind] in H; [|discriminate].
    destruct (cc_attr_CV m r h2 (KV r eq_refl) H) as (v & -> & Hv & HVv). eapply K; [reflexivity|exact Hv|exact HVv]. }
  destruct (d =? CB_projection).
  { destruct (tr_main ip true _) as [r|e] eqn:T1; cbn [bind] in H; [|discriminate].
    destruct (cc_projection_CV m r h2 (KV r eq_refl) H) as (v & -> & Hv & HVv). eapply K; [reflexivity|exact Hv|exact HVv]. }
  destruct (d =? CB_composite); [|injection H as <-; exact HA].
  destruct (tr_main ip true _) as [r|e] eqn:T1; cbn [bind] in H; [|discriminate].
  destruct (cc_composite_CV cs m r h2 (KV r eq_refl) H) as (v & -> & Hv & HVv). eapply K; [reflexivity|exact Hv|exact HVv].
Qed.

Theorem ctr_Ga ip : forall h0 g h, Ga ip h0 g -> gV g = true -> ctr ip h0 = Ok h -> Ga ip h g.
Proof.
  fix IH 1. intros h0 g h HA HG H. destruct h0 as [t|d cs m|v]; try (cbn in H; injection H as <-; exact HA).
  destruct (Ga_node_inv ip d cs m g HA) as (cs' & m' & -> & HL). clear HA. cbn [gV] in HG.
  rewrite ctr_node in H. destruct (ctr_list ip cs) as [xs|e] eqn:L; cbn [bind] in H; [|discriminate].
  injection H as <-. rewrite Ga_node. split; [reflexivity|].
  revert cs' xs HL HG L. induction cs as [|c cs IHcs]; intros [|c' cs'] xs HL HG L; try contradiction.
  - cbn in L. injection L as <-. exact I.
  - destruct HL as [Hc HL]. cbn [forallb] in HG. apply andb_true_iff in HG. destruct HG as [Gc' HG].
    destruct (ctr_list_cons ip c cs xs L) as (c1 & c2 & r' & T1 & K1 & L' & ->). split.
    + eapply comments_callback_Ga; [|exact Gc'|exact K1]. eapply IH; eassumption.
    + eapply IHcs; [exact HL|exact HG|exact L'].
Qed.

Lemma Ga_gtree_of ip : forall t' t, same_shape t' t -> Ga ip (gtree_of t') (gtree_of t).
Proof.
  fix IH 1. intros [a|d cs m] [b|d' cs' m'] H; try contradiction.
  - cbn in H. subst b. reflexivity.
  - rewrite same_shape_node in H. destruct H as [-> H]. cbn [gtree_of]. rewrite Ga_node. split; [reflexivity|].
    revert cs' H. induction cs as [|c cs IHcs]; intros [|c' cs'] H; try contradiction; [exact I|].
    destruct H as [H1 H2]. cbn [map]. split; [apply IH; exact H1|apply IHcs; exact H2].
Qed.

Lemma Ga_start ip t' t : same_shape t' t -> Ga ip (canonize (gtree_of t')) (canonize (gtree_of t)).
Proof.
  intros H. pose proof (Ga_gtree_of ip t' t H) as HA.
  destruct t' as [a|d cs m], t as [b|d' cs' m']; try contradiction; [exact HA|].
  rewrite same_shape_node in H. destruct H as [<- _]. cbn [gtree_of canonize] in *.
  destruct (d =? CB_symbolset); [|exact HA].
  rewrite Ga_node in *. destruct HA as [_ HL]. split; [reflexivity|].
  split; [|exact HL]. rewrite Ga_node. split; [reflexivity|]. split; [reflexivity|exact I].
Qed.

(* ================================================================ (d) comments run accepts => plain run accepts *)
Theorem comments_alignment_transform_on_to_off :
  forall ip t' t x, same_shape t' t ->
  transform ip true t' = Ok x -> exists y, transform ip false t = Ok y.
Proof.
  intros ip t' t x HS H. unfold transform in *.
  pose proof (Ga_start ip t' t HS) as HA.
  assert (HG : gV (canonize (gtree_of t)) = true) by (apply gV_canonize, gV_gtree_of).
  destruct (ctr ip _) as [g1|e] eqn:C1; cbn [bind] in H; [|discriminate].
  destruct (comments_callback ip g1) as [g2|e] eqn:K1; cbn [bind] in H; [|discriminate].
  eapply tr_main_alignC; [|exact HG|exact H].
  eapply comments_callback_Ga; [|exact HG|exact K1]. eapply ctr_Ga; eassumption.
Qed.

Theorem comments_alignment_loads_on_to_off :
  forall ip text v, loads ip true text = Ok v -> exists w, loads ip false text = Ok w.
Proof.
  intros ip text v H. unfold loads in *.
  pose proof (parse_tree_comments_shape text) as HP.
  destruct (parse_tree true text) as [t'|e]; cbn [bind] in H; [|discriminate].
  destruct (parse_tree false text) as [t|e]; cbn [res_shape] in HP; [|contradiction]. cbn [bind].
  destruct (transform ip true t') as [x|e] eqn:T1; cbn [bind] in H; [|discriminate].
  destruct (comments_alignment_transform_on_to_off ip t' t x HP T1) as [y ->]. cbn [bind].
  apply tv_to_value_total.
Qed.

(* (d), other direction: FALSE.  The plain run accepts a key-value entry
   spelled __comments__; the comments run then finds a string where it wants to
   store its comment lists and fails (as the implementation does) *)
Definition cex_comments_text : str := Str "MAP METADATA ""__comments__"" ""x"" ""a"" ""b"" END END".

Theorem comments_alignment_loads_off_to_on_refuted :
  exists text, forall ip, (exists w, loads ip false text = Ok w) /\ loads ip true text = Err LarkVisitError.
Proof.
  exists cex_comments_text. intros [|]; (split; [eexists; vm_compute; reflexivity|vm_compute; reflexivity]).
Qed.

(* ================================================================ all four flag combinations *)
Definition strip_hidden (v : value) : value := strip_cm (strip_pos v).

Lemma strip_cm_pos_comm : forall v, strip_cm (strip_pos v) = strip_pos (strip_cm v).
Proof.
  induction v as [| | | | |l IH|c items IH] using value_ind'; try reflexivity.
  - cbn [strip_pos strip_cm]. f_equal. rewrite !map_map.
    induction IH as [|y l Hy _ IHl]; [reflexivity|]. cbn [map]. rewrite Hy, IHl. reflexivity.
  - cbn [strip_pos strip_cm]. f_equal.
    induction IH as [|[k y] l Hy _ IHl]; [reflexivity|]. cbn [snd] in Hy.
    cbn [strip_with strip_cmw].
    destruct (is_pos k) eqn:Ep, (is_cm k) eqn:Ec; cbn [strip_with strip_cmw]; rewrite ?Ep, ?Ec; try exact IHl.
    rewrite Hy, IHl. reflexivity.
Qed.

(* the same function as the one used by the finite checks (Model/SlotCheck.v) *)
Lemma strip_bk_hidden : forall v, strip_bk v = strip_hidden v.
Proof.
  unfold strip_hidden.
  induction v as [| | | | |l IH|c items IH] using value_ind'; try reflexivity.
  - cbn [strip_bk strip_pos strip_cm]. f_equal. rewrite map_map.
    induction IH as [|y l Hy _ IHl]; [reflexivity|]. cbn [map]. rewrite Hy, IHl. reflexivity.
  - cbn [strip_bk strip_pos strip_cm]. f_equal.
    induction IH as [|[k y] l Hy _ IHl]; [reflexivity|]. cbn [snd] in Hy.
    cbn [strip_with]. change (bk_key k) with (is_pos k || is_cm k).
    destruct (is_pos k) eqn:Ep; cbn [orb]; [exact IHl|].
    cbn [strip_cmw]. destruct (is_cm k) eqn:Ec; [exact IHl|]. rewrite Hy, IHl. reflexivity.
Qed.

(* whatever the flags, a text that loads also loads plainly *)
Theorem plain_load_succeeds :
  forall ip ic text v, loads ip ic text = Ok v -> exists w, loads false false text = Ok w.
Proof.
  intros ip ic text v H.
  assert (H1 : exists u, loads ip false text = Ok u).
  { destruct ic; [eapply comments_alignment_loads_on_to_off; exact H|eexists; exact H]. }
  destruct H1 as [u Hu]. destruct ip; [|eexists; exact Hu].
  eapply position_alignment_loads_on_to_off_partial; exact Hu.
Qed.

Theorem bookkeeping_transparent_loads :
  forall ip ic text v w, loads ip ic text = Ok v -> loads false false text = Ok w ->
  strip_hidden v = strip_hidden w.
Proof.
  intros ip ic text v w H1 H2. unfold strip_hidden.
  assert (HA : exists u, loads ip false text = Ok u /\ strip_cm v = strip_cm u).
  { destruct ic.
    - destruct (comments_alignment_loads_on_to_off ip text v H1) as [u Hu]. exists u. split; [exact Hu|].
      eapply comments_transparent_loads; eassumption.
    - exists v. split; [exact H1|reflexivity]. }
  destruct HA as (u & Hu & Hvu).
  assert (HB : strip_pos u = strip_pos w).
  { destruct ip; [eapply position_transparent_loads; eassumption|]. congruence. }
  rewrite strip_cm_pos_comm, Hvu, <- strip_cm_pos_comm, HB. reflexivity.
Qed.

(* any two flag combinations *)
Corollary bookkeeping_transparent_loads_any :
  forall ip ic ip' ic' text v v', loads ip ic text = Ok v -> loads ip' ic' text = Ok v' ->
  strip_hidden v = strip_hidden v'.
Proof.
  intros ip ic ip' ic' text v v' H1 H2.
  destruct (plain_load_succeeds ip ic text v H1) as [w Hw].
  rewrite (bookkeeping_transparent_loads ip ic text v w H1 Hw).
  rewrite (bookkeeping_transparent_loads ip' ic' text v' w H2 Hw). reflexivity.
Qed.

Corollary bookkeeping_transparent_loads_strip_bk :
  forall ip ic text v w, loads ip ic text = Ok v -> loads false false text = Ok w -> strip_bk v = strip_bk w.
Proof. intros. rewrite !strip_bk_hidden. eapply bookkeeping_transparent_loads; eassumption. Qed.
