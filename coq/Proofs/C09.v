(* C09: version-aware validation.  Lemmas; the property theorems are in Props/C09.v. *)
From MF Require Import Lib.Base Lib.Json Lib.PyDict Gen.Schemas Model.SchemaStore Model.Schema
  Model.Validator Spec.Versioned.
Open Scope Z_scope.

(* ------------------------------------------------------------------ order *)
Lemma pow10_pos k : 0 <= k -> 0 < 10 ^ k.
Proof. intros H. apply Z.pow_pos_nonneg; lia. Qed.

(* comparing at any common exponent below both gives the same answer *)
Lemma ncmp_scale (a b : num) k :
  k <= snd a -> k <= snd b ->
  ncmp a b = (fst a * 10 ^ (snd a - k) ?= fst b * 10 ^ (snd b - k)).
Proof.
  intros Ha Hb. unfold ncmp.
  set (k0 := Z.min (snd a) (snd b)).
  assert (Hk0 : k <= k0) by (unfold k0; lia).
  assert (Ea : snd a - k = (snd a - k0) + (k0 - k)) by lia.
  assert (Eb : snd b - k = (snd b - k0) + (k0 - k)) by lia.
  rewrite Ea, Eb.
  rewrite !Z.pow_add_r by (unfold k0; lia).
  rewrite !Z.mul_assoc.
  apply Zmult_compare_compat_r. apply Z.lt_gt. apply pow10_pos. lia.
Qed.

Lemma ncmp_antisym a b : ncmp b a = CompOpp (ncmp a b).
Proof.
  unfold ncmp. rewrite (Z.min_comm (snd b) (snd a)). apply Z.compare_antisym.
Qed.

Lemma ncmp_refl a : ncmp a a = Eq.
Proof. unfold ncmp. apply Z.compare_refl. Qed.

Definition min3 (a b c : num) : Z := Z.min (snd a) (Z.min (snd b) (snd c)).

Lemma ncmp_lt_trans a b c : ncmp a b = Lt -> ncmp b c = Lt -> ncmp a c = Lt.
Proof.
  intros H1 H2.
  rewrite (ncmp_scale a b (min3 a b c)) in H1 by (unfold min3; lia).
  rewrite (ncmp_scale b c (min3 a b c)) in H2 by (unfold min3; lia).
  rewrite (ncmp_scale a c (min3 a b c)) by (unfold min3; lia).
  rewrite Z.compare_lt_iff in *. lia.
Qed.

Lemma ncmp_eq_lt a b c : ncmp a b = Eq -> ncmp b c = Lt -> ncmp a c = Lt.
Proof.
  intros H1 H2.
  rewrite (ncmp_scale a b (min3 a b c)) in H1 by (unfold min3; lia).
  rewrite (ncmp_scale b c (min3 a b c)) in H2 by (unfold min3; lia).
  rewrite (ncmp_scale a c (min3 a b c)) by (unfold min3; lia).
  rewrite Z.compare_eq_iff in H1. rewrite Z.compare_lt_iff in *. lia.
Qed.

Lemma ncmp_lt_eq a b c : ncmp a b = Lt -> ncmp b c = Eq -> ncmp a c = Lt.
Proof.
  intros H1 H2.
  rewrite (ncmp_scale a b (min3 a b c)) in H1 by (unfold min3; lia).
  rewrite (ncmp_scale b c (min3 a b c)) in H2 by (unfold min3; lia).
  rewrite (ncmp_scale a c (min3 a b c)) by (unfold min3; lia).
  rewrite Z.compare_eq_iff in H2. rewrite Z.compare_lt_iff in *. lia.
Qed.

Lemma ncmp_eq_trans a b c : ncmp a b = Eq -> ncmp b c = Eq -> ncmp a c = Eq.
Proof.
  intros H1 H2.
  rewrite (ncmp_scale a b (min3 a b c)) in H1 by (unfold min3; lia).
  rewrite (ncmp_scale b c (min3 a b c)) in H2 by (unfold min3; lia).
  rewrite (ncmp_scale a c (min3 a b c)) by (unfold min3; lia).
  rewrite Z.compare_eq_iff in *. lia.
Qed.

Lemma ncmp_gt_lt a b : ncmp a b = Gt <-> ncmp b a = Lt.
Proof. rewrite (ncmp_antisym a b). destruct (ncmp a b); cbn; split; congruence. Qed.

Lemma ncmp_eq_sym a b : ncmp a b = Eq -> ncmp b a = Eq.
Proof. intros H. rewrite ncmp_antisym, H. reflexivity. Qed.

(* the model's order is the specification's order *)
Lemma nleb_dle a b : nleb a b = dle a b.
Proof.
  unfold nleb, dle, ncmp.
  destruct (Z.compare_spec (fst a * 10 ^ (snd a - Z.min (snd a) (snd b)))
                           (fst b * 10 ^ (snd b - Z.min (snd a) (snd b)))) as [E|E|E];
    symmetry; [apply Z.leb_le; lia|apply Z.leb_le; lia|apply Z.leb_gt; lia].
Qed.

Lemma nltb_nleb a b : nltb a b = negb (nleb b a).
Proof.
  unfold nltb, nleb. rewrite (ncmp_antisym a b). destruct (ncmp a b); reflexivity.
Qed.

(* ------------------------------------------------------------------ range test *)
Lemma version_lt_num v x n : jnum x = Some n -> version_lt v x = Ok (nltb v n).
Proof. destruct x; cbn; try discriminate; intros [= <-]; reflexivity. Qed.

Lemma version_gt_num v x n : jnum x = Some n -> version_gt v x = Ok (nltb n v).
Proof. destruct x; cbn; try discriminate; intros [= <-]; reflexivity. Qed.

Lemma json_dnum_jnum x : json_dnum x = jnum x.
Proof. destruct x; reflexivity. Qed.

Definition numeric_bounds (md : list (str * json)) : Prop :=
  (forall x, assoc K_minVersion md = Some x -> jnum x <> None) /\
  (forall x, assoc K_maxVersion md = Some x -> jnum x <> None).

Lemma bound_lt v md key dflt dj :
  jnum dj = Some dflt ->
  (forall x, assoc key md = Some x -> jnum x <> None) ->
  version_lt v (match assoc key md with Some x => x | None => dj end)
  = Ok (nltb v (bound_or md key dflt)).
Proof.
  intros Hd Hn. unfold bound_or. destruct (assoc key md) as [x|] eqn:E.
  - specialize (Hn x eq_refl). rewrite json_dnum_jnum.
    destruct (jnum x) as [n|] eqn:En; [|congruence]. apply version_lt_num. exact En.
  - apply version_lt_num. exact Hd.
Qed.

Lemma bound_gt v md key dflt dj :
  jnum dj = Some dflt ->
  (forall x, assoc key md = Some x -> jnum x <> None) ->
  version_gt v (match assoc key md with Some x => x | None => dj end)
  = Ok (nltb (bound_or md key dflt) v).
Proof.
  intros Hd Hn. unfold bound_or. destruct (assoc key md) as [x|] eqn:E.
  - specialize (Hn x eq_refl). rewrite json_dnum_jnum.
    destruct (jnum x) as [n|] eqn:En; [|congruence]. apply version_gt_num. exact En.
  - apply version_gt_num. exact Hd.
Qed.

Lemma range_test_lemma st d v md0 md :
  jget K_metadata (subject st d) = Some md0 -> subject st md0 = JObj md -> numeric_bounds md ->
  is_valid_for_version st d v
  = Ok (dle (bound_or md K_minVersion (0, 0)) v && dle v (bound_or md K_maxVersion (1, 3))).
Proof.
  intros H1 H2 [Hlo Hhi]. unfold is_valid_for_version. rewrite H1, H2.
  rewrite (bound_lt v md K_minVersion (0, 0) default_min eq_refl Hlo). cbn [bind].
  rewrite <- !nleb_dle, nltb_nleb.
  destruct (nleb (bound_or md K_minVersion (0, 0)) v); cbn [negb andb]; [|reflexivity].
  rewrite (bound_gt v md K_maxVersion (1, 3) default_max eq_refl Hhi). cbn [bind].
  rewrite nltb_nleb, negb_involutive. reflexivity.
Qed.

Lemma unannotated_valid st d v :
  jget K_metadata (subject st d) = None -> is_valid_for_version st d v = Ok true.
Proof. intros H. unfold is_valid_for_version. rewrite H. reflexivity. Qed.

(* ------------------------------------------------------------------ parametricity in the version *)
(* two versions that compare alike with every number of B *)
Definition vsame (B : list num) (v1 v2 : num) : Prop := forall b, In b B -> ncmp v1 b = ncmp v2 b.

Definition num_eqb (a b : num) : bool := Z.eqb (fst a) (fst b) && Z.eqb (snd a) (snd b).
Lemma num_eqb_eq a b : num_eqb a b = true -> a = b.
Proof.
  destruct a, b. unfold num_eqb. cbn. rewrite andb_true_iff, !Z.eqb_eq. intros [-> ->]. reflexivity.
Qed.
Definition mem_num (B : list num) (a : num) : bool := existsb (num_eqb a) B.
Lemma mem_num_In B a : mem_num B a = true -> In a B.
Proof.
  unfold mem_num. rewrite existsb_exists. intros (b & Hin & E). apply num_eqb_eq in E. subst. exact Hin.
Qed.

(* the numbers a bound value is compared as *)
Definition bound_nums (x : json) : list num :=
  match x with
  | JInt z => [(z, 0)]
  | JFloat m e => [(m, e)]
  | JBool b => [((if b then 1 else 0), 0)]
  | _ => []
  end.

Definition is_bound_key (k : str) : bool := str_eqb k K_minVersion || str_eqb k K_maxVersion.
Definition kv_ok (B : list num) (kv : str * json) : bool :=
  if is_bound_key (fst kv) then forallb (mem_num B) (bound_nums (snd kv)) else true.
Definition node_ok (B : list num) (j : json) : bool :=
  match j with JObj items => forallb (kv_ok B) items | _ => true end.

Fixpoint jall (p : json -> bool) (j : json) : bool :=
  p j &&
  match j with
  | JArr l => (fix go (l : list json) : bool :=
                 match l with [] => true | x :: l' => jall p x && go l' end) l
  | JObj l => (fix go (l : list (str * json)) : bool :=
                 match l with [] => true | (_, x) :: l' => jall p x && go l' end) l
  | _ => true
  end.

Lemma jall_arr p l : jall p (JArr l) = p (JArr l) && forallb (jall p) l.
Proof.
  reflexivity.
Qed.

Lemma jall_obj p l : jall p (JObj l) = p (JObj l) && forallb (fun kv => jall p (snd kv)) l.
Proof.
  cbn [jall]. f_equal. induction l as [|[k x] l IH]; [reflexivity|]. cbn [forallb snd]. rewrite <- IH. reflexivity.
Qed.

Lemma jall_here p j : jall p j = true -> p j = true.
Proof. destruct j; cbn [jall]; rewrite ?andb_true_iff; tauto. Qed.

Definition bounded (B : list num) (j : json) : bool := jall (node_ok B) j.
Definition bounded_store (B : list num) (st : store) : bool := forallb (fun kv => bounded B (snd kv)) st.

Lemma bounded_assoc B (st : store) f c : bounded_store B st = true -> assoc f st = Some c -> bounded B c = true.
Proof.
  intros H E. apply assoc_Some_in in E. unfold bounded_store in H. rewrite forallb_forall in H.
  exact (H _ E).
Qed.

Lemma bounded_jget B k x y : bounded B x = true -> jget k x = Some y -> bounded B y = true.
Proof.
  unfold jget. destruct x; try discriminate. intros H E. apply assoc_Some_in in E.
  unfold bounded in H. rewrite jall_obj, andb_true_iff in H. destruct H as [_ H].
  rewrite forallb_forall in H. exact (H _ E).
Qed.

Lemma bounded_subject_n B st n x :
  bounded_store B st = true -> bounded B x = true -> bounded B (subject_n n st x) = true.
Proof.
  intros Hst. revert x. induction n as [|n IH]; intros x Hx; cbn [subject_n]; [exact Hx|].
  destruct (ref_target x) as [f|]; [|exact Hx].
  destruct (assoc f st) as [t|] eqn:E; [|exact Hx].
  apply IH. eapply bounded_assoc; eassumption.
Qed.

Lemma bounded_subject B st x :
  bounded_store B st = true -> bounded B x = true -> bounded B (subject st x) = true.
Proof. apply bounded_subject_n. Qed.

Lemma bounded_obj_items B l :
  bounded B (JObj l) = true <->
  forallb (kv_ok B) l = true /\ forallb (fun kv => bounded B (snd kv)) l = true.
Proof. unfold bounded. rewrite jall_obj, andb_true_iff. cbn [node_ok]. tauto. Qed.

Lemma bounded_arr_items B l : bounded B (JArr l) = true <-> forallb (bounded B) l = true.
Proof. unfold bounded. rewrite jall_arr. cbn [node_ok andb]. tauto. Qed.

Lemma nltb_param_l B v1 v2 n : vsame B v1 v2 -> In n B -> nltb v1 n = nltb v2 n.
Proof. intros H Hin. unfold nltb. rewrite (H n Hin). reflexivity. Qed.

Lemma nltb_param_r B v1 v2 n : vsame B v1 v2 -> In n B -> nltb n v1 = nltb n v2.
Proof.
  intros H Hin. unfold nltb. rewrite (ncmp_antisym v1 n), (ncmp_antisym v2 n), (H n Hin). reflexivity.
Qed.

Lemma version_lt_param B v1 v2 x :
  vsame B v1 v2 -> forallb (mem_num B) (bound_nums x) = true -> version_lt v1 x = version_lt v2 x.
Proof.
  intros H Hb. destruct x; cbn in *; try reflexivity; rewrite andb_true_r in Hb;
    apply mem_num_In in Hb; f_equal; eapply nltb_param_l; eassumption.
Qed.

Lemma version_gt_param B v1 v2 x :
  vsame B v1 v2 -> forallb (mem_num B) (bound_nums x) = true -> version_gt v1 x = version_gt v2 x.
Proof.
  intros H Hb. destruct x; cbn in *; try reflexivity; rewrite andb_true_r in Hb;
    apply mem_num_In in Hb; f_equal; eapply nltb_param_r; eassumption.
Qed.

(* B contains the two defaults *)
Definition has_defaults (B : list num) : Prop := In (0, 0) B /\ In (1, 3) B.

Lemma bound_value_ok B md key dflt :
  forallb (kv_ok B) md = true -> is_bound_key key = true ->
  forallb (mem_num B) (bound_nums dflt) = true ->
  forallb (mem_num B) (bound_nums (match assoc key md with Some x => x | None => dflt end)) = true.
Proof.
  intros Hmd Hk Hd. destruct (assoc key md) as [x|] eqn:E; [|exact Hd].
  apply assoc_Some_in in E. rewrite forallb_forall in Hmd. specialize (Hmd _ E).
  unfold kv_ok in Hmd. cbn [fst snd] in Hmd. rewrite Hk in Hmd. exact Hmd.
Qed.

Lemma In_mem_num B a : In a B -> mem_num B a = true.
Proof.
  intros H. unfold mem_num. apply existsb_exists. exists a. split; [exact H|].
  unfold num_eqb. rewrite !Z.eqb_refl. reflexivity.
Qed.

Lemma valid_param B st d v1 v2 :
  has_defaults B -> vsame B v1 v2 -> bounded_store B st = true -> bounded B d = true ->
  is_valid_for_version st d v1 = is_valid_for_version st d v2.
Proof.
  intros [D0 D1] Hv Hst Hd. unfold is_valid_for_version.
  destruct (jget K_metadata (subject st d)) as [md0|] eqn:E; [|reflexivity].
  assert (Hmd0 : bounded B md0 = true).
  { eapply bounded_jget; [|exact E]. apply bounded_subject; assumption. }
  assert (Hmd : bounded B (subject st md0) = true) by (apply bounded_subject; assumption).
  destruct (subject st md0) as [| | | | | |md]; try reflexivity.
  apply (proj1 (bounded_obj_items _ _)) in Hmd. destruct Hmd as [Hkv _].
  assert (Hlo : forallb (mem_num B) (bound_nums (match assoc K_minVersion md with Some x => x | None => default_min end)) = true).
  { apply bound_value_ok; [exact Hkv|reflexivity|]. cbn. rewrite (In_mem_num _ _ D0). reflexivity. }
  assert (Hhi : forallb (mem_num B) (bound_nums (match assoc K_maxVersion md with Some x => x | None => default_max end)) = true).
  { apply bound_value_ok; [exact Hkv|reflexivity|]. cbn. rewrite (In_mem_num _ _ D1). reflexivity. }
  rewrite (version_lt_param B v1 v2 _ Hv Hlo).
  destruct (version_lt v2 _) as [lt|]; cbn [bind]; [|reflexivity].
  destruct lt; [reflexivity|].
  rewrite (version_gt_param B v1 v2 _ Hv Hhi). reflexivity.
Qed.

Lemma filter_valid_param B st v1 v2 l :
  has_defaults B -> vsame B v1 v2 -> bounded_store B st = true -> forallb (bounded B) l = true ->
  filter_valid st v1 l = filter_valid st v2 l.
Proof.
  intros HD Hv Hst. induction l as [|p l IH]; intros Hl; cbn [filter_valid]; [reflexivity|].
  cbn [forallb] in Hl. rewrite andb_true_iff in Hl. destruct Hl as [Hp Hl].
  rewrite (IH Hl).
  destruct (subject st p); try reflexivity.
  rewrite (valid_param B st p v1 v2 HD Hv Hst Hp). reflexivity.
Qed.

Lemma filter_valid_sub st v l l' :
  filter_valid st v l = Ok l' -> forall x, In x l' -> In x l.
Proof.
  revert l'. induction l as [|p l IH]; intros l' H x Hx; cbn [filter_valid] in H.
  - injection H as <-. exact Hx.
  - destruct (match subject st p with JObj _ => is_valid_for_version st p v | _ => Ok true end) as [keep|]; [|discriminate].
    cbn [bind] in H. destruct (filter_valid st v l) as [rest|]; [|discriminate]. cbn [bind] in H.
    injection H as <-. destruct keep.
    + destruct Hx as [<-|Hx]; [left; reflexivity|right; eapply IH; [reflexivity|exact Hx]].
    + right. eapply IH; [reflexivity|exact Hx].
Qed.

(* what a recursive call must guarantee *)
Definition rec_preserves (B : list num) (rec : store -> json -> res (json * store)) : Prop :=
  forall st x x' st', bounded_store B st = true -> bounded B x = true -> rec st x = Ok (x', st') ->
    bounded B x' = true /\ bounded_store B st' = true /\ is_obj x' = true.

Lemma bound_nums_obj x : is_obj x = true -> bound_nums x = [].
Proof. destruct x; cbn; try discriminate; reflexivity. Qed.

Lemma kv_ok_nil_nums B k x : bound_nums x = [] -> kv_ok B (k, x) = true.
Proof. intros H. unfold kv_ok. cbn [fst snd]. rewrite H. destruct (is_bound_key k); reflexivity. Qed.

Lemma gvp_items_preserves B rec v l :
  rec_preserves B rec ->
  forall st l' st', bounded_store B st = true ->
    forallb (kv_ok B) l = true -> forallb (fun kv => bounded B (snd kv)) l = true ->
    gvp_items rec v l st = Ok (l', st') ->
    forallb (kv_ok B) l' = true /\ forallb (fun kv => bounded B (snd kv)) l' = true /\ bounded_store B st' = true.
Proof.
  intros Hrec. induction l as [|[key x] l IH]; intros st l' st' Hst Hkv Hb H; cbn [gvp_items] in H.
  - injection H as <- <-. auto.
  - cbn [forallb snd] in Hkv, Hb. rewrite andb_true_iff in Hkv, Hb.
    destruct Hkv as [Hkv1 Hkv], Hb as [Hb1 Hb].
    destruct (subject st x) eqn:Es.
    1-5: (destruct (gvp_items rec v l st) as [[rest st2]|] eqn:Er; [|discriminate]; cbn [bind] in H;
          injection H as <- <-; destruct (IH _ _ _ Hst Hkv Hb Er) as (A1 & A2 & A3);
          cbn [forallb snd]; rewrite Hkv1, Hb1, A1, A2; auto).
    + (* list *)
      destruct (filter_valid st v l0) as [vl|] eqn:Ef; [|discriminate]. cbn [bind] in H.
      destruct (gvp_items rec v l st) as [[rest st2]|] eqn:Er; [|discriminate]. cbn [bind] in H.
      injection H as <- <-. destruct (IH _ _ _ Hst Hkv Hb Er) as (A1 & A2 & A3).
      cbn [forallb snd]. rewrite A1, A2. split; [|split; [|exact A3]].
      * rewrite kv_ok_nil_nums; reflexivity.
      * rewrite andb_true_r. apply (proj2 (bounded_arr_items _ _)). apply forallb_forall. intros y Hy.
        assert (Hsub : bounded B (subject st x) = true) by (apply bounded_subject; assumption).
        rewrite Es in Hsub. apply (proj1 (bounded_arr_items _ _)) in Hsub. rewrite forallb_forall in Hsub.
        apply Hsub. eapply filter_valid_sub; eassumption.
    + (* dict *)
      destruct (is_valid_for_version st x v) as [ok|]; [|discriminate]. cbn [bind] in H.
      destruct (rec st x) as [[x' st1]|] eqn:Erec; [|discriminate]. cbn [bind] in H.
      destruct (Hrec _ _ _ _ Hst Hb1 Erec) as (B1 & B2 & B3).
      destruct (gvp_items rec v l st1) as [[rest st2]|] eqn:Er; [|discriminate]. cbn [bind] in H.
      injection H as <- <-. destruct (IH _ _ _ B2 Hkv Hb Er) as (A1 & A2 & A3).
      destruct ok; [|auto].
      cbn [forallb snd]. rewrite A1, A2, B1. rewrite kv_ok_nil_nums by (apply bound_nums_obj; exact B3). auto.
Qed.

Lemma bounded_store_set B st f c :
  bounded_store B st = true -> bounded B c = true -> bounded_store B (od_set f c st) = true.
Proof.
  intros Hst Hc. unfold od_set. destruct (od_mem f st).
  - induction st as [|[k x] st IH]; cbn [od_replace]; [reflexivity|].
    cbn [bounded_store forallb snd] in Hst. rewrite andb_true_iff in Hst. destruct Hst as [H1 H2].
    destruct (str_eqb f k); cbn [bounded_store forallb snd].
    + rewrite Hc. exact H2.
    + rewrite H1. apply IH. exact H2.
  - unfold bounded_store. rewrite forallb_app. cbn [forallb snd]. unfold bounded_store in Hst.
    rewrite Hst, Hc. reflexivity.
Qed.

Lemma ref_target_is_obj x f : ref_target x = Some f -> is_obj x = true.
Proof. unfold ref_target, jget. destruct x; try discriminate. reflexivity. Qed.

Lemma gvp_preserves B fuel v : rec_preserves B (get_versioned_properties fuel v).
Proof.
  induction fuel as [|fuel IH]; intros st x x' st' Hst Hx H; cbn [get_versioned_properties] in H; [discriminate|].
  destruct (ref_target x) as [f|] eqn:Er.
  - destruct (assoc f st) as [c|] eqn:Ea; [|discriminate].
    destruct (get_versioned_properties fuel v st c) as [[c' st1]|] eqn:E; [|discriminate]. cbn [bind] in H.
    injection H as <- <-.
    destruct (IH _ _ _ _ Hst (bounded_assoc _ _ _ _ Hst Ea) E) as (A1 & A2 & _).
    split; [exact Hx|]. split; [apply bounded_store_set; assumption|eapply ref_target_is_obj; exact Er].
  - destruct x as [| | | | | |items]; try discriminate.
    destruct (gvp_items (get_versioned_properties fuel v) v items st) as [[items' st1]|] eqn:E; [|discriminate].
    cbn [bind] in H. injection H as <- <-.
    apply (proj1 (bounded_obj_items _ _)) in Hx. destruct Hx as [Hkv Hb].
    destruct (gvp_items_preserves B _ v items IH _ _ _ Hst Hkv Hb E) as (A1 & A2 & A3).
    split; [apply (proj2 (bounded_obj_items _ _)); auto|]. split; [exact A3|reflexivity].
Qed.

Lemma gvp_items_param B rec1 rec2 v1 v2 l :
  has_defaults B -> vsame B v1 v2 -> rec_preserves B rec1 ->
  (forall st x, bounded_store B st = true -> bounded B x = true -> rec1 st x = rec2 st x) ->
  forall st, bounded_store B st = true ->
    forallb (kv_ok B) l = true -> forallb (fun kv => bounded B (snd kv)) l = true ->
    gvp_items rec1 v1 l st = gvp_items rec2 v2 l st.
Proof.
  intros HD Hv Hpres Hrec. induction l as [|[key x] l IH]; intros st Hst Hkv Hb; cbn [gvp_items]; [reflexivity|].
  cbn [forallb snd] in Hkv, Hb. rewrite andb_true_iff in Hkv, Hb.
  destruct Hkv as [Hkv1 Hkv], Hb as [Hb1 Hb].
  assert (Hsub : bounded B (subject st x) = true) by (apply bounded_subject; assumption).
  destruct (subject st x) eqn:Es; try (rewrite (IH st Hst Hkv Hb); reflexivity).
  - apply (proj1 (bounded_arr_items _ _)) in Hsub.
    rewrite (filter_valid_param B st v1 v2 _ HD Hv Hst Hsub).
    rewrite (IH st Hst Hkv Hb). reflexivity.
  - rewrite (valid_param B st x v1 v2 HD Hv Hst Hb1).
    destruct (is_valid_for_version st x v2) as [ok|]; [|reflexivity]. cbn [bind].
    rewrite <- (Hrec st x Hst Hb1).
    destruct (rec1 st x) as [[x' st1]|] eqn:E; [|reflexivity]. cbn [bind].
    destruct (Hpres _ _ _ _ Hst Hb1 E) as (_ & B2 & _).
    rewrite (IH st1 B2 Hkv Hb). reflexivity.
Qed.

Lemma gvp_param B fuel v1 v2 :
  has_defaults B -> vsame B v1 v2 ->
  forall st x, bounded_store B st = true -> bounded B x = true ->
    get_versioned_properties fuel v1 st x = get_versioned_properties fuel v2 st x.
Proof.
  intros HD Hv. induction fuel as [|fuel IH]; intros st x Hst Hx; cbn [get_versioned_properties]; [reflexivity|].
  destruct (ref_target x) as [f|].
  - destruct (assoc f st) as [c|] eqn:Ea; [|reflexivity].
    rewrite (IH st c Hst (bounded_assoc _ _ _ _ Hst Ea)). reflexivity.
  - destruct x as [| | | | | |items]; try reflexivity.
    apply (proj1 (bounded_obj_items _ _)) in Hx. destruct Hx as [Hkv Hb].
    rewrite (gvp_items_param B _ (get_versioned_properties fuel v2) v1 v2 items HD Hv (gvp_preserves B fuel v1) IH st Hst Hkv Hb).
    reflexivity.
Qed.

(* ------------------------------------------------------------------ pruning one load *)
Lemma forallb_od_set {A} (p : str * A -> bool) k x (l : list (str * A)) :
  forallb p l = true -> (forall k', p (k', x) = true) -> forallb p (od_set k x l) = true.
Proof.
  intros Hl Hx. unfold od_set. destruct (od_mem k l).
  - induction l as [|[k' y] l IH]; cbn [od_replace]; [reflexivity|].
    cbn [forallb] in Hl. rewrite andb_true_iff in Hl. destruct Hl as [H1 H2].
    destruct (str_eqb k k'); cbn [forallb]; [rewrite Hx; exact H2|rewrite H1; apply IH; exact H2].
  - rewrite forallb_app. cbn [forallb]. rewrite Hl, Hx. reflexivity.
Qed.

Definition entry_bounded (B : list num) (e : entry) : Prop :=
  bounded B (e_root e) = true /\ bounded_store B (e_store e) = true.

Lemma prune_entry_param B v1 v2 e :
  has_defaults B -> vsame B v1 v2 -> entry_bounded B e -> prune_entry v1 e = prune_entry v2 e.
Proof.
  intros HD Hv [Hr Hs]. unfold prune_entry.
  destruct (e_root e) as [| | | | | |root_items] eqn:Er; try reflexivity.
  destruct (ref_target (JObj root_items)); [reflexivity|].
  destruct (assoc Validator.K_properties root_items) as [properties|] eqn:Ep; [|reflexivity].
  assert (Hp : bounded B properties = true) by (eapply (bounded_jget B _ (JObj root_items)); [exact Hr|exact Ep]).
  destruct (subject (e_store e) properties); try reflexivity.
  rewrite (gvp_param B _ v1 v2 HD Hv _ _ Hs Hp). reflexivity.
Qed.

Lemma prune_entry_bounded B v e e' :
  entry_bounded B e -> prune_entry v e = Ok e' -> entry_bounded B e'.
Proof.
  intros [Hr Hs] H. unfold prune_entry in H.
  destruct (e_root e) as [| | | | | |root_items] eqn:Er; try discriminate.
  destruct (ref_target (JObj root_items)); [discriminate|].
  destruct (assoc Validator.K_properties root_items) as [properties|] eqn:Ep; [|discriminate].
  assert (Hp : bounded B properties = true) by (eapply (bounded_jget B _ (JObj root_items)); [exact Hr|exact Ep]).
  destruct (subject (e_store e) properties); try discriminate.
  destruct (get_versioned_properties (prune_fuel e) v (e_store e) properties) as [[p' st']|] eqn:E; [|discriminate].
  cbn [bind] in H. injection H as <-.
  destruct (gvp_preserves B _ v _ _ _ _ Hs Hp E) as (A1 & A2 & A3).
  split; cbn [e_root e_store]; [|exact A2].
  apply (proj1 (bounded_obj_items _ _)) in Hr. destruct Hr as [Hkv Hb].
  apply (proj2 (bounded_obj_items _ _)). split.
  - apply forallb_od_set; [exact Hkv|]. intros k'. apply kv_ok_nil_nums, bound_nums_obj, A3.
  - apply forallb_od_set; [exact Hb|]. intros k'. exact A1.
Qed.

(* ------------------------------------------------------------------ the declarative pruning *)
Lemma nleb_param_l B v1 v2 n : vsame B v1 v2 -> In n B -> nleb v1 n = nleb v2 n.
Proof. intros H Hin. unfold nleb. rewrite (H n Hin). reflexivity. Qed.

Lemma nleb_param_r B v1 v2 n : vsame B v1 v2 -> In n B -> nleb n v1 = nleb n v2.
Proof.
  intros H Hin. unfold nleb. rewrite (ncmp_antisym v1 n), (ncmp_antisym v2 n), (H n Hin). reflexivity.
Qed.

Lemma bound_or_in B md key dflt :
  forallb (kv_ok B) md = true -> is_bound_key key = true -> In dflt B -> In (bound_or md key dflt) B.
Proof.
  intros Hmd Hk Hd. unfold bound_or. destruct (assoc key md) as [x|] eqn:E; [|exact Hd].
  apply assoc_Some_in in E. rewrite forallb_forall in Hmd. specialize (Hmd _ E).
  unfold kv_ok in Hmd. cbn [fst snd] in Hmd. rewrite Hk in Hmd.
  destruct x; cbn [json_dnum]; try exact Hd; cbn [bound_nums forallb] in Hmd;
    rewrite andb_true_r in Hmd; apply mem_num_In; exact Hmd.
Qed.

Lemma in_range_param B v1 v2 x :
  has_defaults B -> vsame B v1 v2 -> bounded B x = true -> in_range v1 x = in_range v2 x.
Proof.
  intros [D0 D1] Hv Hx. unfold in_range.
  destruct (jget (Str "metadata") x) as [md0|] eqn:E; [|reflexivity].
  assert (Hmd : bounded B md0 = true) by (eapply bounded_jget; eassumption).
  destruct md0 as [| | | | | |md]; try reflexivity.
  apply (proj1 (bounded_obj_items _ _)) in Hmd. destruct Hmd as [Hkv _].
  change (Str "minVersion") with K_minVersion. change (Str "maxVersion") with K_maxVersion.
  rewrite <- (nleb_dle (bound_or md K_minVersion (0, 0)) v1), <- (nleb_dle (bound_or md K_minVersion (0, 0)) v2),
    <- (nleb_dle v1 (bound_or md K_maxVersion (1, 3))), <- (nleb_dle v2 (bound_or md K_maxVersion (1, 3))).
  rewrite (nleb_param_r B v1 v2 _ Hv (bound_or_in B md K_minVersion (0, 0) Hkv eq_refl D0)).
  rewrite (nleb_param_l B v1 v2 _ Hv (bound_or_in B md K_maxVersion (1, 3) Hkv eq_refl D1)).
  reflexivity.
Qed.

Lemma tprune_param B v1 v2 :
  has_defaults B -> vsame B v1 v2 -> forall j, bounded B j = true -> tprune v1 j = tprune v2 j.
Proof.
  intros HD Hv j. induction j as [| | | | |l IH|l IH] using json_ind'; intros Hb; try reflexivity.
  - apply (proj1 (bounded_arr_items _ _)) in Hb. cbn [tprune]. f_equal.
    induction IH as [|x l Hx _ IHl]; [reflexivity|].
    cbn [forallb] in Hb. rewrite andb_true_iff in Hb. destruct Hb as [Hb1 Hb2].
    rewrite (in_range_param B v1 v2 x HD Hv Hb1), (Hx Hb1), (IHl Hb2). reflexivity.
  - apply (proj1 (bounded_obj_items _ _)) in Hb. destruct Hb as [_ Hb]. cbn [tprune]. f_equal.
    induction IH as [|[k x] l Hx _ IHl]; [reflexivity|].
    cbn [forallb snd] in Hb, Hx. rewrite andb_true_iff in Hb. destruct Hb as [Hb1 Hb2].
    rewrite (in_range_param B v1 v2 x HD Hv Hb1), (Hx Hb1), (IHl Hb2). reflexivity.
Qed.

(* ------------------------------------------------------------------ representatives *)
(* g0 < b1 < g1 < b2 < g2 < ... *)
Fixpoint chain (g0 : num) (bs : list (num * num)) : bool :=
  match bs with
  | [] => true
  | (b, g) :: bs' => nltb g0 b && nltb b g && chain g bs'
  end.

Fixpoint rep (v : num) (g0 : num) (bs : list (num * num)) : num :=
  match bs with
  | [] => g0
  | (b, g) :: bs' =>
      match ncmp v b with
      | Lt => g0
      | Eq => b
      | Gt => rep v g bs'
      end
  end.

Definition reps (g0 : num) (bs : list (num * num)) : list num :=
  g0 :: flat_map (fun bg => [fst bg; snd bg]) bs.

Lemma nltb_lt a b : nltb a b = true <-> ncmp a b = Lt.
Proof. unfold nltb. destruct (ncmp a b); split; congruence. Qed.

Lemma chain_lt g bs : chain g bs = true ->
  forall x, In x (map fst bs) \/ In x (map snd bs) -> ncmp g x = Lt.
Proof.
  revert g. induction bs as [|[b g1] bs IH]; intros g H x Hx; cbn [map In] in Hx; [tauto|].
  cbn [chain] in H. rewrite !andb_true_iff, !nltb_lt in H. destruct H as [[H1 H2] H3].
  cbn [fst snd] in Hx.
  assert (Hg1 : ncmp g g1 = Lt) by (eapply ncmp_lt_trans; eassumption).
  destruct Hx as [[<-|Hx]|[<-|Hx]]; try assumption.
  - eapply ncmp_lt_trans; [exact Hg1|]. apply (IH g1 H3). left. exact Hx.
  - eapply ncmp_lt_trans; [exact Hg1|]. apply (IH g1 H3). right. exact Hx.
Qed.

Lemma rep_ge v g bs : chain g bs = true -> rep v g bs = g \/ ncmp g (rep v g bs) = Lt.
Proof.
  revert g. induction bs as [|[b g1] bs IH]; intros g H; cbn [rep]; [left; reflexivity|].
  cbn [chain] in H. rewrite !andb_true_iff, !nltb_lt in H. destruct H as [[H1 H2] H3].
  destruct (ncmp v b); [right; exact H1|left; reflexivity|].
  right. assert (Hg1 : ncmp g g1 = Lt) by (eapply ncmp_lt_trans; eassumption).
  destruct (IH g1 H3) as [->|Hlt]; [exact Hg1|eapply ncmp_lt_trans; eassumption].
Qed.

Lemma rep_same v g bs : chain g bs = true -> vsame (map fst bs) v (rep v g bs).
Proof.
  revert g. induction bs as [|[b g1] bs IH]; intros g H x Hx; cbn [map In] in Hx; [tauto|].
  pose proof (chain_lt g _ H) as Hall.
  cbn [chain] in H. rewrite !andb_true_iff, !nltb_lt in H. destruct H as [[H1 H2] H3].
  cbn [fst] in Hx. cbn [rep].
  assert (Hbx : x = b \/ ncmp b x = Lt).
  { destruct Hx as [<-|Hx]; [left; reflexivity|right].
    eapply ncmp_lt_trans; [exact H2|]. apply (chain_lt g1 bs H3). left. exact Hx. }
  destruct (ncmp v b) eqn:Evb.
  - (* v = b *)
    destruct Hbx as [->|Hbx]; [rewrite Evb, ncmp_refl; reflexivity|].
    rewrite Hbx. eapply ncmp_eq_lt; eassumption.
  - (* v < b *)
    assert (Hvx : ncmp v x = Lt).
    { destruct Hbx as [->|Hbx]; [exact Evb|eapply ncmp_lt_trans; eassumption]. }
    rewrite Hvx. symmetry. apply Hall. left. cbn [map fst In]. destruct Hx as [<-|Hx]; auto.
  - (* v > b *)
    destruct Hx as [<-|Hx].
    + rewrite Evb. symmetry. apply ncmp_gt_lt.
      destruct (rep_ge v g1 bs H3) as [->|Hlt]; [exact H2|eapply ncmp_lt_trans; eassumption].
    + apply (IH g1 H3). exact Hx.
Qed.

Lemma rep_in v g bs : In (rep v g bs) (reps g bs).
Proof.
  unfold reps. revert g. induction bs as [|[b g1] bs IH]; intros g; cbn [rep flat_map]; [left; reflexivity|].
  cbn [fst snd app]. destruct (ncmp v b).
  - right. left. reflexivity.
  - left. reflexivity.
  - right. right. destruct (IH g1) as [E|Hin]; [left; exact E|right; exact Hin].
Qed.

(* equality test of Lib.Json is sound *)
Lemma json_eqb_eq a : forall a', json_eqb a a' = true -> a = a'.
Proof.
  induction a as [| | | | |l IH|l IH] using json_ind'; intros a' H; destruct a'; cbn [json_eqb] in H; try discriminate.
  - reflexivity.
  - apply Bool.eqb_prop in H. congruence.
  - apply Z.eqb_eq in H. congruence.
  - rewrite andb_true_iff, !Z.eqb_eq in H. destruct H; congruence.
  - apply str_eqb_eq in H. congruence.
  - f_equal. revert l0 H. induction IH as [|x l Hx _ IHl]; intros [|y l0] H; try discriminate; [reflexivity|].
    rewrite andb_true_iff in H. destruct H as [H1 H2]. f_equal; [apply Hx; exact H1|apply IHl; exact H2].
  - f_equal. revert l0 H. induction IH as [|[k x] l Hx _ IHl]; intros [|[k' y] l0] H; try discriminate; [reflexivity|].
    rewrite !andb_true_iff in H. destruct H as [[H0 H1] H2]. apply str_eqb_eq in H0. cbn [snd] in Hx.
    f_equal; [f_equal; [exact H0|apply Hx; exact H1]|apply IHl; exact H2].
Qed.


(* ------------------------------------------------------------------ cache coherence *)
Section Coherence.
  Variable files : list (str * json).
  (* pruning a load that was already pruned for the same version changes nothing *)
  Hypothesis Hidem : forall name root v e1,
    assoc (schema_file_name name) files = Some root ->
    prune_entry v (mk_entry root files) = Ok e1 -> prune_entry v e1 = Ok e1.

  Notation pair := (str * option vnum)%type.
  Definition call_pair (c : call) : pair :=
    match c with CValidate _ n v => (n, v) | CVersioned v n => (n, v) | CExpanded n v => (n, v) end.
  Definition key_of (p : pair) : str := cache_key (fst p) (snd p).

  (* the side condition: the cache keys schema_name + str(version) of the calls do not collide *)
  Definition collision_free (ps : list pair) : Prop :=
    forall p q, In p ps -> In q ps -> key_of p = key_of q -> p = q.

  Definition load (name : str) : option entry :=
    match assoc (schema_file_name name) files with
    | Some root => Some (mk_entry root files)
    | None => None
    end.

  Definition entry_ok (p : pair) (e : entry) : Prop :=
    exists e0, load (fst p) = Some e0 /\
      (e = e0 \/ exists v, snd p = Some v /\ vtruthy (snd p) = true /\ prune_entry (vnum_num v) e0 = Ok e).

  Definition Inv (P : list pair) (s : vstate) : Prop :=
    (forall key e, assoc key (expanded_schemas s) = Some e -> exists p, In p P /\ key = key_of p /\ entry_ok p e) /\
    (forall n j, assoc n (schemas s) = Some j -> assoc (schema_file_name n) files = Some j).

  Lemma Inv_init P : Inv P init_state.
  Proof. split; cbn; intros; discriminate. Qed.

  Lemma Inv_weaken p P s : Inv P s -> Inv (p :: P) s.
  Proof.
    intros [H1 H2]. split; [|exact H2]. intros key e H. destruct (H1 key e H) as (q & Hq & Hk & Ho).
    exists q. split; [right; exact Hq|auto].
  Qed.

  Lemma Inv_set p P s e :
    Inv P s -> In p P -> entry_ok p e ->
    Inv P (mk_vstate (schemas s) (od_set (key_of p) e (expanded_schemas s))).
  Proof.
    intros [H1 H2] Hp Ho. split; [|exact H2]. cbn [expanded_schemas]. intros key e' H.
    destruct (str_eqb_spec key (key_of p)) as [->|Hne].
    - rewrite get_set_same in H. injection H as <-. exists p. auto.
    - rewrite get_set_other in H by exact Hne. exact (H1 key e' H).
  Qed.

  Lemma get_schema_file_load name :
    get_schema_file files name =
    match load name with Some _ => Ok (schema_file_name name) | None => Err PyIOError end.
  Proof. unfold get_schema_file, load. destruct (assoc (schema_file_name name) files); reflexivity. Qed.

  (* get_expanded_schema on any reachable state *)
  Lemma ges_inv P s name ver :
    Inv P s -> (forall q, In q P -> key_of q = key_of (name, ver) -> q = (name, ver)) ->
    match get_expanded_schema files name ver s with
    | Ok (e, s') => entry_ok (name, ver) e /\ Inv ((name, ver) :: P) s' /\ schemas s' = schemas s /\
                    (ver = None -> load name = Some e) /\
                    (vtruthy ver = false -> load name = Some e)
    | Err x => load name = None /\ x = PyIOError
    end.
  Proof.
    intros HI Hfree. unfold get_expanded_schema.
    change (cache_key name ver) with (key_of (name, ver)).
    destruct (assoc (key_of (name, ver)) (expanded_schemas s)) as [e|] eqn:E.
    - destruct HI as [H1 H2]. destruct (H1 _ _ E) as (q & Hq & Hk & Ho).
      assert (q = (name, ver)) by (apply Hfree; [exact Hq|symmetry; exact Hk]). subst q.
      split; [exact Ho|]. split; [apply Inv_weaken; split; assumption|]. split; [reflexivity|].
      destruct Ho as (e0 & Hl & [->|(v & Hv & Ht & Hp)]); cbn [fst snd] in *.
      + auto.
      + split; intros Hx; [congruence|]. rewrite Hx in Ht. discriminate.
    - rewrite get_schema_file_load. unfold load.
      destruct (assoc (schema_file_name name) files) as [root|] eqn:Er; cbn [bind].
      + rewrite Er. assert (Ho : entry_ok (name, ver) (mk_entry root files)).
        { exists (mk_entry root files). cbn [fst]. unfold load. rewrite Er. auto. }
        split; [exact Ho|]. split; [|auto].
        apply (Inv_set (name, ver)); [apply Inv_weaken; exact HI|left; reflexivity|exact Ho].
      + auto.
  Qed.

  (* the answer of get_versioned_schema on a fresh Validator *)
  Definition fresh_gvs (name : str) (ver : option vnum) : res entry :=
    match load name with
    | None => Err PyIOError
    | Some e0 =>
        match ver with
        | Some v => if vtruthy ver then prune_entry (vnum_num v) e0 else Ok e0
        | None => Ok e0
        end
    end.

  Lemma gvs_inv P s name ver :
    Inv P s -> (forall q, In q P -> key_of q = key_of (name, ver) -> q = (name, ver)) ->
    fst (get_versioned_schema files ver name s) = fresh_gvs name ver /\
    Inv ((name, ver) :: P) (snd (get_versioned_schema files ver name s)) /\
    schemas (snd (get_versioned_schema files ver name s)) = schemas s.
  Proof.
    intros HI Hfree. pose proof (ges_inv P s name ver HI Hfree) as G.
    unfold get_versioned_schema, fresh_gvs.
    destruct (get_expanded_schema files name ver s) as [[e s1]|x].
    - destruct G as (Ho & HI1 & Hs & Hnone & Hfalsy).
      destruct ver as [v|]; [|cbn [fst snd]; rewrite (Hnone eq_refl); auto].
      destruct (vtruthy (Some v)) eqn:Et; [|cbn [fst snd]; rewrite (Hfalsy eq_refl); auto].
      destruct Ho as (e0 & Hl & He). cbn [fst snd] in Hl, He. rewrite Hl.
      assert (Hp : prune_entry (vnum_num v) e = prune_entry (vnum_num v) e0 \/
                   (prune_entry (vnum_num v) e = Ok e /\ prune_entry (vnum_num v) e0 = Ok e)).
      { destruct He as [->|(v' & Hv & _ & Hp)]; [left; reflexivity|right].
        injection Hv as <-. split; [|exact Hp].
        unfold load in Hl. destruct (assoc (schema_file_name name) files) as [root|] eqn:Er; [|discriminate].
        injection Hl as <-. eapply Hidem; eassumption. }
      assert (Hres : prune_entry (vnum_num v) e = prune_entry (vnum_num v) e0).
      { destruct Hp as [Hp|[Hp1 Hp2]]; congruence. }
      rewrite Hres.
      destruct (prune_entry (vnum_num v) e0) as [e'|x] eqn:Ep; cbn [fst snd]; [|auto].
      split; [reflexivity|]. split; [|cbn [schemas]; exact Hs].
      change (cache_key name (Some v)) with (key_of (name, Some v)).
      apply (Inv_set (name, Some v)); [exact HI1|left; reflexivity|].
      exists e0. cbn [fst snd]. split; [exact Hl|]. right. exists v. auto.
    - destruct G as [Hl ->]. rewrite Hl. cbn [fst snd]. split; [reflexivity|]. split; [apply Inv_weaken; exact HI|reflexivity].
  Qed.

  Lemma gjf_inv P s name :
    Inv P s ->
    match get_json_from_file files name s with
    | Ok (j, s') => assoc (schema_file_name name) files = Some j /\ Inv P s'
    | Err x => assoc (schema_file_name name) files = None /\ x = PyIOError
    end.
  Proof.
    intros [H1 H2]. unfold get_json_from_file.
    destruct (assoc name (schemas s)) as [j|] eqn:E.
    - split; [exact (H2 _ _ E)|split; assumption].
    - unfold get_schema_file. destruct (assoc (schema_file_name name) files) as [j|] eqn:Er; cbn [bind].
      + rewrite Er. split; [reflexivity|]. split; [exact H1|]. cbn [schemas]. intros n j' H.
        destruct (str_eqb_spec n name) as [->|Hne].
        * rewrite get_set_same in H. congruence.
        * rewrite get_set_other in H by exact Hne. exact (H2 _ _ H).
      + auto.
  Qed.

  (* the tree validation runs on, on a fresh Validator *)
  Definition fresh_tree (name : str) (ver : option vnum) : res json :=
    if vtruthy ver then
      match fresh_gvs name ver with Ok e => Ok (entry_tree e) | Err x => Err x end
    else
      match assoc (schema_file_name name) files with
      | Some root => Ok (expand files root)
      | None => Err PyIOError
      end.

  Lemma vtree_inv P s name ver :
    Inv P s -> (forall q, In q P -> key_of q = key_of (name, ver) -> q = (name, ver)) ->
    fst (validator_tree files name ver s) = fresh_tree name ver /\
    Inv ((name, ver) :: P) (snd (validator_tree files name ver s)).
  Proof.
    intros HI Hfree. unfold validator_tree, fresh_tree.
    destruct (vtruthy ver).
    - destruct (gvs_inv P s name ver HI Hfree) as (A1 & A2 & _).
      destruct (get_versioned_schema files ver name s) as [[e|x] s1]; cbn [fst snd] in *; rewrite <- A1; auto.
    - pose proof (gjf_inv P s name HI) as G.
      destruct (get_json_from_file files name s) as [[j s1]|x].
      + destruct G as [Hj HI1]. rewrite Hj. cbn [fst snd]. split; [reflexivity|apply Inv_weaken; exact HI1].
      + destruct G as [Hj ->]. rewrite Hj. cbn [fst snd]. split; [reflexivity|apply Inv_weaken; exact HI].
  Qed.

  (* the answer of a call on a brand-new Validator *)
  Definition fresh (c : call) : answer := fst (step files init_state c).

  Lemma no_keys_init (q : pair) : In q [] -> forall p, key_of q = key_of p -> q = p.
  Proof. intros []. Qed.

  Lemma fresh_validate d name ver :
    fresh (CValidate d name ver) =
    AMsgs (match fresh_tree name ver with Ok t => run_validator t d | Err x => Err x end).
  Proof.
    unfold fresh, step, validate.
    destruct (vtree_inv [] init_state name ver (Inv_init []) (fun q H => match H with end)) as [A _].
    destruct (validator_tree files name ver init_state) as [[t|x] s1]; cbn [fst] in A; rewrite <- A; reflexivity.
  Qed.

  Lemma fresh_versioned ver name :
    fresh (CVersioned ver name) =
    ASchema (match fresh_gvs name ver with Ok e => Ok (entry_tree e) | Err x => Err x end).
  Proof.
    unfold fresh, step.
    destruct (gvs_inv [] init_state name ver (Inv_init []) (fun q H => match H with end)) as (A & _ & _).
    destruct (get_versioned_schema files ver name init_state) as [[e|x] s1]; cbn [fst] in A; rewrite <- A; reflexivity.
  Qed.

  Lemma fresh_expanded name ver :
    fresh (CExpanded name ver) =
    ASchema (match load name with Some e0 => Ok (entry_tree e0) | None => Err PyIOError end).
  Proof.
    unfold fresh, step, get_expanded_schema. cbn [expanded_schemas init_state assoc].
    rewrite get_schema_file_load. unfold load.
    destruct (assoc (schema_file_name name) files) as [root|] eqn:Er; cbn [bind]; [rewrite Er|]; reflexivity.
  Qed.

  (* what coherence means per call: the fresh answer; for get_expanded_schema
     WITH a version (the per-version cache object itself, not an observation
     point of the property) the fresh answer or the versioned schema *)
  Definition coherent (c : call) (a : answer) : Prop :=
    match c with
    | CExpanded name (Some v) => a = fresh c \/ a = fresh (CVersioned (Some v) name)
    | _ => a = fresh c
    end.

  Lemma step_inv P s c :
    Inv P s -> (forall q, In q P -> key_of q = key_of (call_pair c) -> q = call_pair c) ->
    coherent c (fst (step files s c)) /\ Inv (call_pair c :: P) (snd (step files s c)).
  Proof.
    intros HI Hfree. destruct c as [d name ver|ver name|name ver]; cbn [call_pair] in *.
    - (* validate *)
      cbn [coherent]. rewrite fresh_validate. unfold step, validate.
      destruct (vtree_inv P s name ver HI Hfree) as [A1 A2].
      destruct (validator_tree files name ver s) as [[t|x] s1]; cbn [fst snd] in *; rewrite <- A1; auto.
    - (* get_versioned_schema *)
      cbn [coherent]. rewrite fresh_versioned. unfold step.
      destruct (gvs_inv P s name ver HI Hfree) as (A1 & A2 & _).
      destruct (get_versioned_schema files ver name s) as [[e|x] s1]; cbn [fst snd] in *; rewrite <- A1; auto.
    - (* get_expanded_schema *)
      unfold step. pose proof (ges_inv P s name ver HI Hfree) as G.
      destruct (get_expanded_schema files name ver s) as [[e s1]|x].
      + destruct G as (Ho & HI1 & _ & Hnone & _). cbn [fst snd]. split; [|exact HI1].
        destruct Ho as (e0 & Hl & He). cbn [fst snd] in Hl, He.
        destruct ver as [v|]; cbn [coherent].
        * rewrite fresh_expanded, fresh_versioned. unfold fresh_gvs. rewrite Hl.
          destruct He as [->|(v' & Hv & Ht & Hp)]; [left; reflexivity|right].
          injection Hv as <-. rewrite Ht, Hp. reflexivity.
        * rewrite fresh_expanded, (Hnone eq_refl). reflexivity.
      + destruct G as [Hl ->]. cbn [fst snd]. split; [|apply Inv_weaken; exact HI].
        destruct ver as [v|]; cbn [coherent]; [left|]; rewrite fresh_expanded, Hl; reflexivity.
  Qed.

  Lemma run_coherent_from P s cs :
    Inv P s -> collision_free (map call_pair cs ++ P) ->
    Forall2 coherent cs (run files s cs).
  Proof.
    revert P s. induction cs as [|c cs IH]; intros P s HI Hfree; cbn [run]; [constructor|].
    assert (Hc : forall q, In q P -> key_of q = key_of (call_pair c) -> q = call_pair c).
    { intros q Hq Hk. apply Hfree; [apply in_or_app; right; exact Hq|left; reflexivity|exact Hk]. }
    destruct (step_inv P s c HI Hc) as [A1 A2].
    destruct (step files s c) as [a s1]. cbn [fst snd] in *.
    constructor; [exact A1|].
    apply (IH (call_pair c :: P) s1 A2).
    intros p q Hp Hq. apply Hfree.
    - cbn [map app]. apply in_app_or in Hp. destruct Hp as [Hp|[<-|Hp]];
        [right; apply in_or_app; left; exact Hp|left; reflexivity|right; apply in_or_app; right; exact Hp].
    - cbn [map app]. apply in_app_or in Hq. destruct Hq as [Hq|[<-|Hq]];
        [right; apply in_or_app; left; exact Hq|left; reflexivity|right; apply in_or_app; right; exact Hq].
  Qed.

  Theorem cache_coherent_lemma cs :
    collision_free (map call_pair cs) -> Forall2 coherent cs (run files init_state cs).
  Proof.
    intros H. apply (run_coherent_from [] init_state cs (Inv_init [])). rewrite app_nil_r. exact H.
  Qed.
End Coherence.

(* ------------------------------------------------------------------ the per-file reading of Spec/Versioned.v *)
Lemma target_of_bounded B files x :
  bounded_store B files = true -> bounded B x = true -> bounded B (target_of files x) = true.
Proof.
  intros Hf Hx. unfold target_of. destruct (ref_of x) as [f|]; [|exact Hx].
  destruct (assoc f files) as [c|] eqn:E; [eapply bounded_assoc; eassumption|exact Hx].
Qed.

Lemma available_param B files v1 v2 x :
  has_defaults B -> vsame B v1 v2 -> bounded_store B files = true -> bounded B x = true ->
  available files v1 x = available files v2 x.
Proof.
  intros HD Hv Hf Hx. unfold available. apply (in_range_param B v1 v2 _ HD Hv).
  apply target_of_bounded; assumption.
Qed.

Lemma lprune_param B files v1 v2 :
  has_defaults B -> vsame B v1 v2 -> bounded_store B files = true ->
  forall j, bounded B j = true -> lprune files v1 j = lprune files v2 j.
Proof.
  intros HD Hv Hf j. induction j as [| | | | |l IH|l IH] using json_ind'; intros Hb; try reflexivity.
  cbn [lprune]. destruct (ref_of (JObj l)); [reflexivity|]. f_equal.
  apply (proj1 (bounded_obj_items _ _)) in Hb. destruct Hb as [_ Hb].
  induction IH as [|[k x] l' Hx _ IHl]; [reflexivity|].
  cbn [forallb snd] in Hb, Hx. rewrite andb_true_iff in Hb. destruct Hb as [Hb1 Hb2].
  pose proof (target_of_bounded B files x Hf Hb1) as Ht.
  rewrite (IHl Hb2).
  destruct (target_of files x) as [| | | | |ms|o] eqn:Et; try reflexivity.
  - f_equal. f_equal. f_equal. apply filter_ext_in. intros m Hm. f_equal.
    apply (proj1 (bounded_arr_items _ _)) in Ht. rewrite forallb_forall in Ht.
    apply (available_param B files v1 v2 m HD Hv Hf (Ht m Hm)).
  - rewrite (available_param B files v1 v2 x HD Hv Hf Hb1), (Hx Hb1). reflexivity.
Qed.

Lemma pruned_store_param B files v1 v2 props fuel :
  has_defaults B -> vsame B v1 v2 -> bounded_store B files = true ->
  pruned_store files v1 props fuel = pruned_store files v2 props fuel.
Proof.
  intros HD Hv Hf. unfold pruned_store. apply map_ext_in. intros [f c] Hin. cbn [fst snd].
  destruct (mem_str f (reach files fuel (dict_refs props) [])); [|reflexivity].
  f_equal. apply (lprune_param B files v1 v2 HD Hv Hf).
  unfold bounded_store in Hf. rewrite forallb_forall in Hf. exact (Hf _ Hin).
Qed.
