(* Completeness of the MsExpr reader on printed precedence-ladder trees:
   for every flat tree [t] whose shape respects the operator table (and where
   an open NOT only occurs at the right edge of a phrase), reading the operand
   / operator list of [t] gives back [t].  Used by Proofs/C10.v for both the
   source and the stored token list. *)
From MF Require Import Lib.Base Spec.MsExpr.

(* ------------------------------------------------------------------ flat trees *)
Inductive ftree :=
| FAtom (a : aexpr)
| FNot (x : ftree)
| FNeg (x : ftree)
| FPos (x : ftree)
| FBin (o : mop) (l r : ftree).

Definition flv (t : ftree) : nat :=
  match t with
  | FBin o _ _ => prec o
  | FNeg _ | FPos _ => 6
  | FAtom _ | FNot _ => 7
  end.

Fixpoint fends_not (t : ftree) : bool :=
  match t with
  | FNot _ => true
  | FNeg x | FPos x => fends_not x
  | FBin _ _ r => fends_not r
  | FAtom _ => false
  end.

Fixpoint fnf (t : ftree) : bool :=
  match t with
  | FAtom _ => true
  | FNot _ => false
  | FNeg x | FPos x => fnf x
  | FBin _ l r => fnf l && fnf r
  end.

Fixpoint fwf (t : ftree) : bool :=
  match t with
  | FAtom _ => true
  | FNot x => fwf x && (3 <=? flv x)%nat
  | FNeg x | FPos x => fwf x && (6 <=? flv x)%nat
  | FBin o l r =>
      fwf l && fwf r && binop_ok o && (prec o <=? flv l)%nat && (prec o <? flv r)%nat
      && ((prec o <? 3)%nat || negb (fends_not l))
  end.

(* operand / operator list before and after marking *)
Fixpoint fflat (t : ftree) : list ritem :=
  match t with
  | FAtom a => [RDone a]
  | FNot x => ROp ONot :: fflat x
  | FNeg x => ROp OSub :: fflat x
  | FPos x => ROp OAdd :: fflat x
  | FBin o l r => fflat l ++ ROp o :: fflat r
  end.

Fixpoint fmark (t : ftree) : list ritem :=
  match t with
  | FAtom a => [RDone a]
  | FNot x => ROp ONot :: fmark x
  | FNeg x => ROp ONeg :: fmark x
  | FPos x => ROp OPos :: fmark x
  | FBin o l r => fmark l ++ ROp o :: fmark r
  end.

Fixpoint fabs (t : ftree) : aexpr :=
  match t with
  | FAtom a => a
  | FNot x => ANot (fabs x)
  | FNeg x => ANeg (fabs x)
  | FPos x => fabs x
  | FBin o l r => ABin o (fabs l) (fabs r)
  end.

Fixpoint fsize (t : ftree) : nat :=
  match t with
  | FAtom _ => 1
  | FNot x | FNeg x | FPos x => S (fsize x)
  | FBin _ l r => S (fsize l + fsize r)
  end.

(* ------------------------------------------------------------------ booleans *)
(* destructuring of the well-formedness conjunctions *)
Ltac wf_un H Wx Wlv := rewrite andb_true_iff in H; destruct H as [Wx Wlv]; apply Nat.leb_le in Wlv.
Ltac wf_bin H Wl Wr Wb Wpl Wpr Wn :=
  rewrite !andb_true_iff in H; destruct H as [[[[[Wl Wr] Wb] Wpl] Wpr] Wn];
  apply Nat.leb_le in Wpl; apply Nat.ltb_lt in Wpr.
Ltac b2 H A B := rewrite andb_true_iff in H; destruct H as [A B].

Lemma leb_le' a b : (a <=? b)%nat = true -> (a <= b)%nat.
Proof. apply Nat.leb_le. Qed.
Lemma ltb_lt' a b : (a <? b)%nat = true -> (a < b)%nat.
Proof. apply Nat.ltb_lt. Qed.

Lemma binop_prec o : binop_ok o = true -> (prec o <= 5 /\ prec o <> 2)%nat.
Proof. destruct o; cbn; intros H; try discriminate; lia. Qed.

(* ------------------------------------------------------------------ marking *)
Lemma mark_fflat t : forall k, fwf t = true -> mark true (fflat t ++ k) = fmark t ++ mark false k.
Proof.
  induction t as [a|x IH|x IH|x IH|o l IHl r IHr]; intros k Hw; cbn [fflat fmark fwf] in *.
  - reflexivity.
  - wf_un Hw Wx Wlv. cbn. rewrite IH by assumption. reflexivity.
  - wf_un Hw Wx Wlv. cbn. rewrite IH by assumption. reflexivity.
  - wf_un Hw Wx Wlv. cbn. rewrite IH by assumption. reflexivity.
  - wf_bin Hw Wl Wr Wb Wpl Wpr Wn. rewrite <- !app_assoc. rewrite IHl by assumption.
    f_equal. cbn [app].
    assert (E : mark false (ROp o :: fflat r ++ k) = ROp o :: mark true (fflat r ++ k)).
    { destruct o; cbn in *; try reflexivity; discriminate. }
    rewrite E, IHr by assumption. reflexivity.
Qed.

Lemma mark_fflat_nil t : fwf t = true -> mark true (fflat t) = fmark t.
Proof.
  intros H. rewrite <- (app_nil_r (fflat t)). rewrite mark_fflat by assumption.
  cbn. apply app_nil_r.
Qed.

(* ------------------------------------------------------------------ segs / chain *)
Definition free (p : mop -> bool) (l : list ritem) : bool :=
  forallb (fun x => match x with ROp o => negb (p o) | RDone _ => true end) l.

Lemma free_app p a b : free p (a ++ b) = free p a && free p b.
Proof. apply forallb_app. Qed.

Lemma free_cons_op p o l : free p (ROp o :: l) = negb (p o) && free p l.
Proof. reflexivity. Qed.

Lemma segs_free p l : free p l = true -> segs p l = (l, []).
Proof.
  induction l as [|x l IH]; cbn [segs]; [reflexivity|]. intros H.
  cbn [free forallb] in H. b2 H Hx Hl. fold (free p l) in Hl.
  rewrite IH by assumption. destruct x as [a|o]; [reflexivity|].
  destruct (p o); [discriminate|reflexivity].
Qed.

Lemma segs_snoc p o l1 l2 :
  p o = true -> free p l2 = true ->
  segs p (l1 ++ ROp o :: l2) = (fst (segs p l1), snd (segs p l1) ++ [(o, l2)]).
Proof.
  intros Hp Hf. induction l1 as [|x l1 IH]; cbn [app segs].
  - rewrite (segs_free _ _ Hf), Hp. reflexivity.
  - rewrite IH. destruct (segs p l1) as [s0 rest]. cbn [fst snd].
    destruct x as [a|o']; [reflexivity|]. destruct (p o'); reflexivity.
Qed.

Lemma chain_free p sub l : free p l = true -> chain p sub l = sub l.
Proof. intros H. unfold chain. rewrite segs_free by assumption. reflexivity. Qed.

Lemma chain_snoc p sub o l1 l2 :
  p o = true -> free p l2 = true ->
  chain p sub (l1 ++ ROp o :: l2) = ABin o (chain p sub l1) (sub l2).
Proof.
  intros Hp Hf. unfold chain. rewrite segs_snoc by assumption.
  destruct (segs p l1) as [s0 rest]. cbn [fst snd].
  rewrite fold_left_app. reflexivity.
Qed.

(* ------------------------------------------------------------------ which operators occur *)
Lemma at_level_neq k o : prec o <> k -> at_level k o = false.
Proof. intros H. unfold at_level. apply Nat.eqb_neq. assumption. Qed.

(* below the level of the tree no binary operator of level k occurs; for
   k < 2 this holds although NOT operands may occur, for the other levels the
   tree must be NOT-free *)
Lemma free_below k : forall t m,
  fwf t = true -> (m <= flv t)%nat -> (k < m)%nat -> k <> 2%nat ->
  ((k < 2)%nat \/ fnf t = true) ->
  free (at_level k) (fmark t) = true.
Proof.
  induction t as [a|x IH|x IH|x IH|o l IHl r IHr]; intros m Hw Hm Hk Hk2 Hq;
    cbn [fmark fwf flv fnf] in *.
  - reflexivity.
  - wf_un Hw Wx Wlv. destruct Hq as [Hq|Hq]; [|discriminate].
    rewrite free_cons_op, at_level_neq by (cbn; lia). cbn [negb andb].
    apply (IH 3%nat); auto; lia.
  - wf_un Hw Wx Wlv.
    rewrite free_cons_op, at_level_neq by (cbn; lia). cbn [negb andb].
    apply (IH m); auto; lia.
  - wf_un Hw Wx Wlv.
    rewrite free_cons_op, at_level_neq by (cbn; lia). cbn [negb andb].
    apply (IH m); auto; lia.
  - wf_bin Hw Wl Wr Wb Wpl Wpr Wn.
    rewrite free_app, free_cons_op, at_level_neq by lia. cbn [negb andb].
    assert (Hq' : ((k < 2)%nat \/ fnf l = true) /\ ((k < 2)%nat \/ fnf r = true)).
    { destruct Hq as [Hq|Hq]; [auto|]. b2 Hq Hq1 Hq2. auto. }
    destruct Hq' as [Hql Hqr].
    rewrite (IHl m), (IHr m); auto; lia.
Qed.

Lemma free_not t : fnf t = true -> fwf t = true -> free (at_level 2) (fmark t) = true.
Proof.
  induction t as [a|x IH|x IH|x IH|o l IHl r IHr]; intros Hn Hw; cbn [fmark fwf fnf] in *.
  - reflexivity.
  - discriminate.
  - wf_un Hw Wx Wlv. rewrite free_cons_op. cbn [at_level prec Nat.eqb negb andb]. apply IH; assumption.
  - wf_un Hw Wx Wlv. rewrite free_cons_op. cbn [at_level prec Nat.eqb negb andb]. apply IH; assumption.
  - wf_bin Hw Wl Wr Wb Wpl Wpr Wn. b2 Hn Hn1 Hn2. rewrite free_app, free_cons_op.
    destruct (binop_prec o Wb) as [_ Hne]. rewrite at_level_neq by assumption. cbn [negb andb].
    rewrite IHl, IHr by assumption. reflexivity.
Qed.

(* ------------------------------------------------------------------ one level of the ladder *)
Definition Q (k : nat) (t : ftree) : Prop := (k < 2)%nat \/ fnf t = true.

Lemma Q_bin k o l r : Q k (FBin o l r) -> Q k l /\ Q k r.
Proof.
  intros [H|H]; [split; left; assumption|]. cbn in H. b2 H H1 H2. split; right; assumption.
Qed.

Lemma level_step k sub :
  k <> 2%nat -> (k <= 5)%nat ->
  (forall t, fwf t = true -> Q k t -> (S k <= flv t)%nat -> sub (fmark t) = fabs t) ->
  forall t, fwf t = true -> Q k t -> (k <= flv t)%nat -> chain (at_level k) sub (fmark t) = fabs t.
Proof.
  intros Hk2 Hk5 Hsub.
  assert (Hup : forall t, fwf t = true -> Q k t -> (S k <= flv t)%nat ->
                          chain (at_level k) sub (fmark t) = fabs t).
  { intros t Hw Hq Hl. rewrite chain_free; [apply Hsub; assumption|].
    apply (free_below k t (S k)); auto. }
  induction t as [a|x IH|x IH|x IH|o l IHl r IHr]; intros Hw Hq Hl.
  - apply Hup; auto. cbn. lia.
  - apply Hup; auto. cbn. lia.
  - apply Hup; auto. cbn. lia.
  - apply Hup; auto. cbn. lia.
  - cbn [flv] in Hl. destruct (Nat.eq_dec (prec o) k) as [E|E].
    + cbn [fmark fabs]. assert (Hw' := Hw). cbn [fwf] in Hw'.
      wf_bin Hw' Wl Wr Wb Wpl Wpr Wn.
      destruct (Q_bin _ _ _ _ Hq) as [Hql Hqr].
      rewrite chain_snoc.
      * rewrite IHl by (auto; lia). rewrite Hsub by (auto; lia). reflexivity.
      * unfold at_level. apply Nat.eqb_eq. assumption.
      * apply (free_below k r (S k)); auto; lia.
    + apply Hup; auto. cbn [flv]. lia.
Qed.

(* ------------------------------------------------------------------ levels 6 .. 3 on NOT-free trees *)
Lemma un_complete t : fwf t = true -> fnf t = true -> (6 <= flv t)%nat -> read_un (fmark t) = fabs t.
Proof.
  induction t as [a|x IH|x IH|x IH|o l IHl r IHr]; intros Hw Hn Hl; cbn [fmark fabs fwf fnf flv] in *.
  - reflexivity.
  - discriminate.
  - wf_un Hw Wx Wlv. cbn [read_un]. rewrite IH by assumption. reflexivity.
  - wf_un Hw Wx Wlv. cbn [read_un]. apply IH; assumption.
  - wf_bin Hw Wl Wr Wb Wpl Wpr Wn. destruct (binop_prec o Wb). lia.
Qed.

Lemma nf_Q k t : fnf t = true -> Q k t.
Proof. intros H. right. assumption. Qed.

Lemma Q_nf k t : (2 < k)%nat -> Q k t -> fnf t = true.
Proof. intros Hk [H|H]; [lia|assumption]. Qed.

Lemma prod_complete t : fwf t = true -> Q 5 t -> (5 <= flv t)%nat -> read_prod (fmark t) = fabs t.
Proof.
  apply level_step; [lia|lia|]. intros u Hw Hq Hl. apply un_complete; auto.
  apply (Q_nf 5); [lia|assumption].
Qed.

Lemma sum_complete t : fwf t = true -> Q 4 t -> (4 <= flv t)%nat -> read_sum (fmark t) = fabs t.
Proof.
  apply level_step; [lia|lia|]. intros u Hw Hq Hl. apply prod_complete; auto.
  apply nf_Q. apply (Q_nf 4); [lia|assumption].
Qed.

Lemma cmp_complete t : fwf t = true -> fnf t = true -> (3 <= flv t)%nat -> read_cmp (fmark t) = fabs t.
Proof.
  intros Hw Hn Hl.
  apply (level_step 3 read_sum); [lia|lia| |assumption|apply nf_Q; assumption|assumption].
  intros u Hw' Hq Hl'. apply sum_complete; auto.
  apply nf_Q. apply (Q_nf 3); [lia|assumption].
Qed.

(* ------------------------------------------------------------------ level 2: NOT *)
Lemma read_not_free : forall l acc,
  free (at_level 2) l = true -> read_not l acc = read_cmp (rev acc ++ l).
Proof.
  induction l as [|x l IH]; intros acc Hf.
  - cbn. rewrite app_nil_r. reflexivity.
  - cbn [free forallb] in Hf. b2 Hf Hx Hl. fold (free (at_level 2) l) in Hl.
    assert (E : read_not (x :: l) acc = read_not l (x :: acc)).
    { destruct x as [a|o]; [reflexivity|]. destruct o; try reflexivity. discriminate. }
    rewrite E, IH by assumption. cbn [rev]. rewrite <- app_assoc. reflexivity.
Qed.

Lemma read_not_first : forall pre acc post,
  free (at_level 2) pre = true ->
  read_not (pre ++ ROp ONot :: post) acc
  = read_cmp (rev acc ++ pre ++ [RDone (ANot (read_not post []))]).
Proof.
  induction pre as [|x pre IH]; intros acc post Hf.
  - reflexivity.
  - cbn [free forallb] in Hf. b2 Hf Hx Hl. fold (free (at_level 2) pre) in Hl.
    assert (E : read_not ((x :: pre) ++ ROp ONot :: post) acc
                = read_not (pre ++ ROp ONot :: post) (x :: acc)).
    { destruct x as [a|o]; [reflexivity|]. destruct o; try reflexivity. discriminate. }
    rewrite E, IH by assumption. cbn [rev app]. rewrite <- !app_assoc. reflexivity.
Qed.

(* the right spine down to the open NOT *)
Fixpoint spre (t : ftree) : list ritem :=
  match t with
  | FNot _ => []
  | FNeg x => ROp ONeg :: spre x
  | FPos x => ROp OPos :: spre x
  | FBin o l r => fmark l ++ ROp o :: spre r
  | FAtom _ => []
  end.

Fixpoint sarg (t : ftree) : ftree :=
  match t with
  | FNot x => x
  | FNeg x | FPos x => sarg x
  | FBin _ _ r => sarg r
  | FAtom _ => t
  end.

Fixpoint seal (t : ftree) (a : aexpr) : ftree :=
  match t with
  | FNot _ => FAtom a
  | FNeg x => FNeg (seal x a)
  | FPos x => FPos (seal x a)
  | FBin o l r => FBin o l (seal r a)
  | FAtom _ => t
  end.

Lemma spine_split t : fends_not t = true -> fmark t = spre t ++ ROp ONot :: fmark (sarg t).
Proof.
  induction t as [a|x IH|x IH|x IH|o l IHl r IHr]; cbn [fends_not fmark spre sarg]; intros H.
  - discriminate.
  - reflexivity.
  - rewrite IH by assumption. reflexivity.
  - rewrite IH by assumption. reflexivity.
  - rewrite IHr by assumption. rewrite <- app_assoc. reflexivity.
Qed.

Lemma spine_seal t a : fends_not t = true -> fmark (seal t a) = spre t ++ [RDone a].
Proof.
  induction t as [b|x IH|x IH|x IH|o l IHl r IHr]; cbn [fends_not fmark spre seal]; intros H.
  - discriminate.
  - reflexivity.
  - rewrite IH by assumption. reflexivity.
  - rewrite IH by assumption. reflexivity.
  - rewrite IHr by assumption. rewrite <- app_assoc. reflexivity.
Qed.

Lemma seal_flv t a : flv (seal t a) = flv t.
Proof. destruct t; reflexivity. Qed.

(* a well-formed phrase of comparison level or above without open NOT at its
   right edge contains no NOT at all *)
Lemma closed_nf t : fwf t = true -> (3 <= flv t)%nat -> fends_not t = false -> fnf t = true.
Proof.
  induction t as [a|x IH|x IH|x IH|o l IHl r IHr]; cbn [fwf flv fends_not fnf]; intros Hw Hl He.
  - reflexivity.
  - discriminate.
  - wf_un Hw Wx Wlv. apply IH; auto; lia.
  - wf_un Hw Wx Wlv. apply IH; auto; lia.
  - wf_bin Hw Wl Wr Wb Wpl Wpr Wn.
    apply orb_true_iff in Wn. destruct Wn as [Wn|Wn]; [apply Nat.ltb_lt in Wn; lia|].
    apply negb_true_iff in Wn.
    rewrite IHl, IHr; auto; lia.
Qed.

Lemma spine_facts t : forall a,
  fwf t = true -> (3 <= flv t)%nat -> fends_not t = true ->
  free (at_level 2) (spre t) = true
  /\ fwf (seal t a) = true /\ fnf (seal t a) = true
  /\ fwf (sarg t) = true /\ (3 <= flv (sarg t))%nat /\ (fsize (sarg t) < fsize t)%nat
  /\ fabs (seal t (ANot (fabs (sarg t)))) = fabs t.
Proof.
  induction t as [b|x IH|x IH|x IH|o l IHl r IHr]; intros a;
    cbn [fwf flv fends_not spre seal sarg fnf fsize fabs]; intros Hw Hl He.
  - discriminate.
  - wf_un Hw Wx Wlv. repeat split; auto; lia.
  - wf_un Hw Wx Wlv.
    destruct (IH a Wx ltac:(lia) He) as (F1 & F2 & F3 & F5 & F6 & F7 & F8).
    repeat split; auto; try lia.
    + rewrite F2, seal_flv. cbn [andb]. apply Nat.leb_le. assumption.
    + rewrite F8. reflexivity.
  - wf_un Hw Wx Wlv.
    destruct (IH a Wx ltac:(lia) He) as (F1 & F2 & F3 & F5 & F6 & F7 & F8).
    repeat split; auto; try lia.
    rewrite F2, seal_flv. cbn [andb]. apply Nat.leb_le. assumption.
  - wf_bin Hw Wl Wr Wb Wpl Wpr Wn.
    apply orb_true_iff in Wn. destruct Wn as [Wn|Wn]; [apply Nat.ltb_lt in Wn; lia|].
    assert (Hnl : fnf l = true) by (apply closed_nf; auto; [lia|apply negb_true_iff; assumption]).
    destruct (IHr a Wr ltac:(lia) He) as (F1 & F2 & F3 & F5 & F6 & F7 & F8).
    repeat split; auto; try lia.
    + rewrite free_app, free_cons_op.
      destruct (binop_prec o Wb) as [_ Hne]. rewrite at_level_neq by assumption. cbn [negb andb].
      rewrite F1, (free_not l) by assumption. reflexivity.
    + rewrite Wl, F2, Wb, seal_flv. cbn [andb].
      rewrite (proj2 (Nat.leb_le _ _) Wpl), (proj2 (Nat.ltb_lt _ _) Wpr), Wn.
      cbn. apply orb_true_r.
    + rewrite Hnl, F3. reflexivity.
    + rewrite F8. reflexivity.
Qed.

Lemma not_complete : forall n t,
  (fsize t <= n)%nat -> fwf t = true -> (3 <= flv t)%nat -> read_not (fmark t) [] = fabs t.
Proof.
  induction n as [|n IH]; intros t Hn Hw Hl.
  - destruct t; cbn in Hn; lia.
  - destruct (fends_not t) eqn:He.
    + destruct (spine_facts t (ANot (fabs (sarg t))) Hw Hl He)
        as (F1 & F2 & F3 & F5 & F6 & F7 & F8).
      rewrite (spine_split t He). rewrite read_not_first by assumption. cbn [rev app].
      rewrite (IH (sarg t)) by (auto; lia).
      rewrite <- (spine_seal t _ He).
      rewrite cmp_complete; auto. rewrite seal_flv. assumption.
    + assert (Hnf : fnf t = true) by (apply closed_nf; assumption).
      rewrite read_not_free by (apply free_not; assumption). cbn [rev app].
      apply cmp_complete; assumption.
Qed.

Lemma flv_not_2 t : fwf t = true -> (2 <= flv t)%nat -> (3 <= flv t)%nat.
Proof.
  destruct t as [a|x|x|x|o l r]; cbn [flv fwf]; intros Hw Hl; try lia.
  wf_bin Hw Wl Wr Wb Wpl Wpr Wn. destruct (binop_prec o Wb). lia.
Qed.

Lemma and_complete t : fwf t = true -> (1 <= flv t)%nat -> read_and (fmark t) = fabs t.
Proof.
  intros Hw Hl.
  apply (level_step 1 (fun l => read_not l [])); [lia|lia| |assumption|left; lia|assumption].
  intros u Hw' _ Hl'. apply (not_complete (fsize u)); auto. apply flv_not_2; assumption.
Qed.

Lemma or_complete t : fwf t = true -> read_or (fmark t) = fabs t.
Proof.
  intros Hw.
  apply (level_step 0 read_and); [lia|lia| |assumption|left; lia|lia].
  intros u Hw' _ Hl'. apply and_complete; assumption.
Qed.

(* the reader inverts the printing of every well-formed flat tree *)
Theorem read_flat_complete t : fwf t = true -> read_flat (fflat t) = fabs t.
Proof.
  intros Hw. unfold read_flat. rewrite mark_fflat_nil by assumption. apply or_complete. assumption.
Qed.
