(* C08 (transformer half), part 3 (partial): the positions an attribute records
   belong to the tokens of THAT attribute.

   1. subtree_PR / attr_record_local: the value computed from ANY subtree s
      mentions only positions of tokens of s.  For an attribute node this says:
      its record {line, column, values} holds the position of a token of the
      attribute named like its key, and every [line, column] pair in values is
      the position of a token of the attribute.
   2. composite_records_from_children: every record in the position dict that
      composite() builds is the __position__ entry of one of the attribute
      dicts it was given (nothing is invented or mixed).
   3. block_records_local: the two combined for a composite node of the tree:
      every record of its position dict is made of positions of tokens of ONE
      child of its body.
   Not proved: that values are in source order (the parser development shows
   which tokens the tree holds, not that leaves are in text order), and the
   combined statement 3 for the include_comments=True pipeline (1 and 2 hold
   for every tree and both flags of tr_main). *)
From MF Require Import Lib.Base Lib.PyDict Lib.Regex Model.GrammarTypes Model.Lexer Model.LR
  Model.Case Model.Transformer Model.Api Gen.Tokens Gen.Grammar
  Proofs.LexFacts Proofs.ParseFacts Proofs.C13U Proofs.C08U.
Open Scope N_scope.

(* ================================================================ 1. locality *)
Theorem subtree_PR ic s x :
  TKb s = true -> tr_main true ic (gtree_of s) = Ok x ->
  PR (pos_named (leaves s) false) (TPi (leaves s) false) x.
Proof.
  intros Hk H.
  eapply (tr_main_PR (pos_named (leaves s) false) (TPi (leaves s) false) NMi
            (TPi_set (leaves s) false) (TPi_SP_named (leaves s) false) (TPi_named (leaves s) false));
    [|exact H].
  apply GR_gtree_of; [right; exact KN_raw|right; exact Hk|].
  apply Forall_forall. intros tk Htk. apply TPi_leaf. exact Htk.
Qed.

(* the value computed from any subtree mentions only its own tokens *)
Theorem subtree_positions_local ic s x :
  TKb s = true -> tr_main true ic (gtree_of s) = Ok x ->
  positions_named (leaves s) false (tvv x).
Proof. intros Hk H. unfold positions_named. eapply PR_positions_ok. eapply subtree_PR; eassumption. Qed.

(* an attribute node: the dict attr() returns has one real key kn besides the
   bookkeeping keys, and its record is made from a token of the node named kn
   and from positions of tokens of the node *)
Theorem attr_record_local ic s c items p :
  TKb s = true -> tr_main true ic (gtree_of s) = Ok (TDict c items) ->
  assoc s_type items = None -> assoc s_position items = Some p ->
  exists kn,
    (forall k, In k (keys items) -> k = kn \/ k = s_position \/ k = s_tokens \/ k = s_comments) /\
    (kn = s_position \/ exists pd, p = TVal pd /\ is_rec (pos_named (leaves s) false) kn pd).
Proof.
  intros Hk H Ht Hp. pose proof (subtree_PR ic s _ Hk H) as HP.
  apply PR_dict in HP. destruct HP as (_ & _ & Ha).
  destruct (Ha Ht) as (_ & kn & _ & Hkeys & Hpos). exists kn. split; [exact Hkeys|apply Hpos; exact Hp].
Qed.

Lemma TKb_child d cs m c : TKb (Node d cs m) = true -> In c cs -> TKb c = true.
Proof.
  cbn [TKb]. intros H Hin. apply andb_true_iff in H. destruct H as [_ H].
  rewrite forallb_forall in H. apply H. exact Hin.
Qed.

(* ================================================================ 2. composite() copies records *)
(* the records stored under key k of a block position dict *)
Definition recs_in (k : str) (v : value) : list value :=
  if str_eqb k s_config then match v with VDict _ x => map snd x | _ => [] end
  else match v with VList l => l | _ => [v] end.

(* the __position__ entry of an attribute dict handed to composite() *)
Definition child_pos (d : tv) : list value :=
  match d with
  | TDict _ di =>
      match assoc s_type di, assoc s_position di, items2_of di with
      | None, Some (TVal pos), [_] => [pos]
      | _, _, _ => []
      end
  | _ => []
  end.

Definition is_vd (v : value) : Prop := exists c i, v = VDict c i.
Definition notlist (v : value) : Prop := match v with VList _ => False | _ => True end.

Definition pinv (L C : value) (seen : list value) (p : list (str * value)) : Prop :=
  forall k v r, In (k, v) p -> In r (recs_in k v) -> r = L \/ r = C \/ In r seen.

Lemma In_od_replace {A} k (v : A) l x : In x (od_replace k v l) -> x = (k, v) \/ In x l.
Proof.
  induction l as [|[k' v'] l IH]; cbn [od_replace]; [tauto|].
  destruct (str_eqb_spec k k') as [<-|Hne]; cbn [In].
  - intros [H|H]; [left; symmetry; exact H|right; right; exact H].
  - intros [H|H]; [right; left; exact H|]. destruct (IH H) as [H'|H']; [left; exact H'|right; right; exact H'].
Qed.

Lemma In_od_set {A} k (v : A) l x : In x (od_set k v l) -> x = (k, v) \/ In x l.
Proof.
  unfold od_set. destruct (od_mem k l); [apply In_od_replace|].
  intros H. apply in_app_or in H. destruct H as [H|[H|[]]]; [right; exact H|left; symmetry; exact H].
Qed.

Lemma pinv_set L C seen seen' k newv p :
  pinv L C seen p -> incl seen seen' ->
  (forall r, In r (recs_in k newv) -> r = L \/ r = C \/ In r seen') ->
  pinv L C seen' (od_set k newv p).
Proof.
  intros Hp Hi Hn k0 v0 r Hin Hr. destruct (In_od_set _ _ _ _ Hin) as [[= -> ->]|Hold]; [apply Hn; exact Hr|].
  destruct (Hp k0 v0 r Hold Hr) as [H|[H|H]]; [tauto|tauto|right; right; apply Hi; exact H].
Qed.

Lemma pinv_weaken L C seen seen' p : pinv L C seen p -> incl seen seen' -> pinv L C seen' p.
Proof.
  intros Hp Hi k v r Hin Hr. destruct (Hp k v r Hin Hr) as [H|[H|H]]; [tauto|tauto|right; right; apply Hi; exact H].
Qed.

Lemma recs_in_vd k pos : str_eqb k s_config = false -> is_vd pos -> recs_in k pos = [pos].
Proof. intros Hk (c & i & ->). unfold recs_in. rewrite Hk. reflexivity. Qed.

Lemma pinv_get L C seen p k v r :
  pinv L C seen p -> assoc k p = Some v -> In r (recs_in k v) -> r = L \/ r = C \/ In r seen.
Proof. intros Hp Ha Hr. eapply Hp; [apply assoc_Some_in; exact Ha|exact Hr]. Qed.

Lemma ci_typed_pos st d ty s : ci_typed st d ty = Ok s -> cs_pos s = cs_pos st.
Proof.
  unfold ci_typed. intros H. destruct ty as [[| | | |k| |]| | |]; try discriminate. cbn [bind] in H.
  destruct (mem_str k SINGLETON_COMPOSITE_NAMES); [injection H as <-; reflexivity|].
  cbv zeta in H. destruct (tv_list_append _ d); cbn [bind] in H; [|discriminate]. injection H as <-. reflexivity.
Qed.

Lemma ci_untyped_pinv L C seen ic st pos cm i2 s p :
  is_vd pos -> cs_pos st = Some p -> pinv L C seen p ->
  ci_untyped ic st pos cm i2 = Ok s ->
  exists p', cs_pos s = Some p' /\ pinv L C (seen ++ [pos]) p'.
Proof.
  intros Hvd Ep Hp H. unfold ci_untyped in H.
  assert (Hi : incl seen (seen ++ [pos])) by (apply incl_appl, incl_refl).
  assert (Hpos : In pos (seen ++ [pos])) by (apply in_or_app; right; left; reflexivity).
  destruct i2 as [|[kn v] [|? ?]]; try discriminate.
  destruct (str_eqb kn s_config) eqn:Ec.
  { unfold process_config in H.
    destruct (assoc s_config _) as [[[| | | | | |c cfg]| | |]|]; try discriminate.
    rewrite Ep in H. destruct cfg as [|[sub sv] [|? ?]]; try discriminate. cbn [bind] in H. injection H as <-.
    eexists. split; [reflexivity|]. eapply pinv_set; [exact Hp|exact Hi|].
    intros r Hr. unfold recs_in in Hr. rewrite str_eqb_refl in Hr.
    apply in_map_iff in Hr. destruct Hr as ([k1 r1] & <- & Hin). cbn [snd].
    destruct (In_od_set _ _ _ _ Hin) as [[= _ ->]|Hold]; [right; right; exact Hpos|].
    destruct (assoc s_config p) as [[| | | | | |c' x]|] eqn:Ea; try contradiction.
    assert (Hr : In r1 (recs_in s_config (VDict c' x))).
    { unfold recs_in. rewrite str_eqb_refl. apply in_map_iff. exists (k1, r1). split; [reflexivity|exact Hold]. }
    destruct (pinv_get _ _ _ _ _ _ _ Hp Ea Hr) as [E|[E|E]]; [tauto|tauto|right; right; apply Hi; exact E]. }
  destruct (str_eqb kn s_points) eqn:Ept.
  { unfold process_points in H. destruct (assoc s_points _) as [[newv| | |]|]; try discriminate.
    match type of H with bind ?r _ = _ => destruct r as [d'|e] end; cbn [bind] in H; [|discriminate].
    injection H as <-. cbn [cs_pos]. rewrite Ep.
    assert (Hpc : str_eqb s_points s_config = false) by reflexivity.
    destruct (assoc s_points p) as [ex|] eqn:Ea.
    - destruct ex as [| | | | |l|c x]; try (eexists; split; [reflexivity|eapply pinv_weaken; eassumption]).
      + eexists. split; [reflexivity|]. eapply pinv_set; [exact Hp|exact Hi|].
        intros r Hr. unfold recs_in in Hr. rewrite Hpc in Hr. apply in_app_or in Hr.
        destruct Hr as [Hr|[<-|[]]]; [|right; right; exact Hpos].
        assert (Hr' : In r (recs_in s_points (VList l))) by (unfold recs_in; rewrite Hpc; exact Hr).
        destruct (pinv_get _ _ _ _ _ _ _ Hp Ea Hr') as [E|[E|E]]; [tauto|tauto|right; right; apply Hi; exact E].
      + eexists. split; [reflexivity|]. eapply pinv_set; [exact Hp|exact Hi|].
        intros r Hr. unfold recs_in in Hr. rewrite Hpc in Hr.
        destruct Hr as [<-|[<-|[]]]; [|right; right; exact Hpos].
        assert (Hr' : In (VDict c x) (recs_in s_points (VDict c x))) by (unfold recs_in; rewrite Hpc; left; reflexivity).
        destruct (pinv_get _ _ _ _ _ _ _ Hp Ea Hr') as [E|[E|E]]; [tauto|tauto|right; right; apply Hi; exact E].
    - eexists. split; [reflexivity|]. eapply pinv_set; [exact Hp|exact Hi|].
      intros r Hr. rewrite (recs_in_vd _ _ Hpc Hvd) in Hr. destruct Hr as [<-|[]]. right; right; exact Hpos. }
  destruct (mem_str kn REPEATED_KEYS).
  - cbv zeta in H. destruct (tv_list_append _ v); cbn [bind] in H; [|discriminate]. injection H as <-.
    cbn [cs_pos]. rewrite Ep. eexists. split; [reflexivity|]. eapply pinv_set; [exact Hp|exact Hi|].
    intros r Hr. unfold recs_in in Hr. rewrite Ec in Hr. apply in_app_or in Hr.
    destruct Hr as [Hr|[<-|[]]]; [|right; right; exact Hpos].
    destruct (assoc kn p) as [[| | | | |l|]|] eqn:Ea; try contradiction.
    assert (Hr' : In r (recs_in kn (VList l))) by (unfold recs_in; rewrite Ec; exact Hr).
    destruct (pinv_get _ _ _ _ _ _ _ Hp Ea Hr') as [E|[E|E]]; [tauto|tauto|right; right; apply Hi; exact E].
  - cbv zeta in H. injection H as <-. cbn [cs_pos]. rewrite Ep. eexists. split; [reflexivity|].
    eapply pinv_set; [exact Hp|exact Hi|].
    intros r Hr. rewrite (recs_in_vd _ _ Ec Hvd) in Hr. destruct Hr as [<-|[]]. right; right; exact Hpos.
Qed.

Lemma composite_item_pinv L C seen ic st d s p :
  (forall pos, In pos (child_pos d) -> is_vd pos) ->
  cs_pos st = Some p -> pinv L C seen p ->
  composite_item ic st d = Ok s ->
  exists p', cs_pos s = Some p' /\ pinv L C (seen ++ child_pos d) p'.
Proof.
  intros Hvd Ep Hp H. rewrite composite_item_stages in H.
  destruct d as [| | |c items]; try discriminate. cbn [child_pos] in *.
  destruct (assoc s_type items) as [ty|].
  - rewrite app_nil_r. exists p. split; [|exact Hp]. rewrite (ci_typed_pos _ _ _ _ H). exact Ep.
  - destruct (assoc s_position items) as [[pos| | |]|]; try discriminate. cbn [bind] in H.
    destruct (items2_of items) as [|kv [|kv2 rest]];
      [unfold ci_untyped in H; discriminate H| |unfold ci_untyped in H; destruct kv; discriminate H].
    eapply ci_untyped_pinv; [|exact Ep|exact Hp|exact H]. apply Hvd. left. reflexivity.
Qed.

Lemma comp_fold_pinv L C ic l : forall seen st s p,
  (forall d pos, In d l -> In pos (child_pos d) -> is_vd pos) ->
  cs_pos st = Some p -> pinv L C seen p ->
  comp_fold ic l (Ok st) = Ok s ->
  exists p', cs_pos s = Some p' /\ pinv L C (seen ++ flat_map child_pos l) p'.
Proof.
  induction l as [|d l IH]; intros seen st s p Hvd Ep Hp H; cbn [comp_fold fold_left] in H.
  - injection H as <-. exists p. cbn [flat_map]. rewrite app_nil_r. split; assumption.
  - unfold comp_step at 2 in H. cbn [bind] in H.
    destruct (composite_item ic st d) as [st1|e] eqn:E1.
    + destruct (composite_item_pinv L C seen ic st d st1 p) as (p1 & Ep1 & Hp1); try assumption.
      { intros pos Hpos. eapply Hvd; [left; reflexivity|exact Hpos]. }
      destruct (IH (seen ++ child_pos d) st1 s p1) as (p' & Ep' & Hp'); try assumption.
      { intros d' pos Hd' Hpos. eapply Hvd; [right; exact Hd'|exact Hpos]. }
      exists p'. split; [exact Ep'|]. cbn [flat_map]. rewrite app_assoc. exact Hp'.
    + fold (comp_fold ic l (Err e)) in H. rewrite comp_fold_err in H. discriminate.
Qed.

(* every record of the position dict composite() returns is the __position__
   entry of one of the attribute dicts it was given; the two remaining entries
   are the key token's own line and column *)
Theorem composite_records_from_children ic key second x :
  notlist (pk_line key) -> notlist (pk_col key) ->
  (forall d pos, In d (attrs_of second) -> In pos (child_pos d) -> is_vd pos) ->
  comp_main true ic key second = Ok x ->
  exists c items p,
    x = TDict c items /\ assoc s_position items = Some (TVal (VDict DPlain p)) /\
    pinv (pk_line key) (pk_col key) (flat_map child_pos (attrs_of second)) p.
Proof.
  intros HL HC Hvd H. unfold comp_main in H.
  destruct (key_name key) as [kn|e]; cbn [bind] in H; [|discriminate].
  cbn [comp_pd create_position_dict bind] in H.
  destruct (comp_fold ic _ _) as [st|e] eqn:F1; cbn [bind] in H; [|discriminate].
  destruct (comp_fold_pinv (pk_line key) (pk_col key) ic (attrs_of second) []
              (comp_init kn (Some (VDict DPlain [(s_line, pk_line key); (s_column, pk_col key)]))) st
              [(s_line, pk_line key); (s_column, pk_col key)] Hvd eq_refl) as (p & Ep & Hp); [|exact F1|].
  { intros k v r [[= <- <-]|[[= <- <-]|[]]] Hr; unfold recs_in in Hr; cbn [str_eqb N.eqb andb] in Hr.
    - change (str_eqb s_line s_config) with false in Hr. cbv iota in Hr.
      destruct (pk_line key); try contradiction; destruct Hr as [<-|[]]; left; reflexivity.
    - change (str_eqb s_column s_config) with false in Hr. cbv iota in Hr.
      destruct (pk_col key); try contradiction; destruct Hr as [<-|[]]; right; left; reflexivity. }
  pose proof (comp_fold_hk ic _ s_type _ _ F1 (comp_init_hk kn _)) as Hk.
  unfold comp_finish in H. cbv zeta in H. rewrite Ep in H.
  destruct (cs_dict st) as [|[k1 v1] r1]; [discriminate|]. cbn [hk] in Hk. injection Hk as ->.
  injection H as <-. eexists _, _, p. split; [reflexivity|]. split; [reflexivity|exact Hp].
Qed.

(* ================================================================ 3. a composite node of the tree *)
Lemma callback_composite_body ip ic t : callback ip ic CB_composite_body t = Ok (TSeq t).
Proof. reflexivity. Qed.

Lemma callback_composite ip ic t : callback ip ic CB_composite t = cb_composite ip ic t.
Proof. reflexivity. Qed.

Lemma tr_list_Forall2 ip ic cs : forall ys,
  tr_list ip ic (map gtree_of cs) = Ok ys ->
  Forall2 (fun c y => tr_main ip ic (gtree_of c) = Ok y) cs ys.
Proof.
  induction cs as [|c cs IH]; intros ys H; cbn [map tr_list] in H.
  - injection H as <-. constructor.
  - destruct (tr_main ip ic (gtree_of c)) as [y|e] eqn:Ey; cbn [bind] in H; [|discriminate].
    fold (tr_list ip ic (map gtree_of cs)) in H.
    destruct (tr_list ip ic (map gtree_of cs)) as [ys1|e] eqn:El; cbn [bind] in H; [|discriminate].
    injection H as <-. constructor; [exact Ey|apply IH; reflexivity].
Qed.

Lemma Forall2_In_r {A B} (R : A -> B -> Prop) l l' y :
  Forall2 R l l' -> In y l' -> exists x, In x l /\ R x y.
Proof.
  induction 1 as [|a b l l' Hab _ IH]; cbn [In]; [tauto|].
  intros [<-|Hin]; [exists a; auto|]. destruct (IH Hin) as (x & Hx & Hr). exists x. auto.
Qed.

(* an attribute dict computed from a subtree: its record, as composite() will
   read it, is made of positions of tokens of that subtree *)
Lemma child_pos_local ic ci y r :
  TKb ci = true -> tr_main true ic (gtree_of ci) = Ok y -> In r (child_pos y) ->
  exists kn, is_rec (pos_named (leaves ci) false) kn r.
Proof.
  intros Hk Hy Hr. pose proof (subtree_PR ic ci y Hk Hy) as HP.
  destruct y as [| | |c di]; try contradiction. cbn [child_pos] in Hr.
  destruct (assoc s_type di) eqn:Et; [contradiction|].
  destruct (assoc s_position di) as [[pos| | |]|] eqn:Ep; try contradiction.
  destruct (items2_of di) as [|[kn v] [|? ?]] eqn:E2; try contradiction.
  destruct Hr as [<-|[]].
  apply PR_dict in HP. destruct HP as (_ & _ & Ha).
  destruct (Ha Et) as (Hnd & kn0 & _ & Hkeys & Hpos).
  destruct (items2_single di kn v Hnd E2) as [Hin Hnr].
  assert (Hkn : kn = kn0).
  { destruct (Hkeys kn (In_keys _ _ _ Hin)) as [H1|Hres]; [exact H1|contradiction]. }
  subst kn0. destruct (Hpos _ Ep) as [ -> | (pd & [= <-] & Hrec)].
  - exfalso. apply Hnr. left. reflexivity.
  - exists kn. exact Hrec.
Qed.

Theorem block_records_local ic ty cs m2 m c items p :
  TKb (Node CB_composite [ty; Node CB_composite_body cs m2] m) = true ->
  tr_main true ic (gtree_of (Node CB_composite [ty; Node CB_composite_body cs m2] m)) = Ok (TDict c items) ->
  assoc s_position items = Some (TVal (VDict DPlain p)) ->
  exists L C, notlist L /\ notlist C /\
    forall k v r, In (k, v) p -> In r (recs_in k v) ->
      r = L \/ r = C \/
      exists ci kn, In ci cs /\ is_rec (pos_named (leaves ci) false) kn r.
Proof.
  intros Hk H Hp. cbn [gtree_of map] in H. rewrite tr_main_node in H.
  cbn [tr_list] in H.
  destruct (tr_main true ic (gtree_of ty)) as [xty|e] eqn:Ety; cbn [bind] in H; [|discriminate].
  rewrite tr_main_node in H.
  fold (tr_list true ic (map gtree_of cs)) in H.
  destruct (tr_list true ic (map gtree_of cs)) as [ys|e] eqn:Eys; cbn [bind] in H; [|discriminate].
  rewrite callback_composite_body in H. cbn [bind] in H.
  rewrite callback_composite in H. rewrite cb_composite_stages in H.
  destruct xty as [| |[|[|key| |] l]|]; try discriminate.
  assert (Hkty : TKb ty = true) by (eapply TKb_child; [exact Hk|left; reflexivity]).
  assert (Hkb : TKb (Node CB_composite_body cs m2) = true) by (eapply TKb_child; [exact Hk|right; left; reflexivity]).
  pose proof (subtree_PR ic ty _ Hkty Ety) as HPty. apply PR_seq in HPty.
  pose proof (Forall_inv HPty) as [[(t0 & _ & HL & HC & _)|(Hf & _)] _]; [|discriminate Hf].
  destruct (composite_records_from_children ic key (TSeq ys) (TDict c items)) as (c' & items' & p' & Hx & Ha & Hinv);
    [| | |exact H|].
  - rewrite HL. exact I.
  - rewrite HC. exact I.
  - cbn [attrs_of]. intros d pos Hd Hpos.
    destruct (Forall2_In_r _ _ _ _ (tr_list_Forall2 _ _ _ _ Eys) Hd) as (ci & Hci & Hy).
    destruct (child_pos_local ic ci d pos (TKb_child _ _ _ _ Hkb Hci) Hy Hpos) as (kn & Hrec).
    destruct (is_rec_dict _ _ _ Hrec) as (i & ->). eexists _, _. reflexivity.
  - injection Hx as <- <-. rewrite Ha in Hp. injection Hp as <-.
    exists (pk_line key), (pk_col key). split; [rewrite HL; exact I|]. split; [rewrite HC; exact I|].
    intros k v r Hin Hr. destruct (Hinv k v r Hin Hr) as [E|[E|E]]; [tauto|tauto|right; right].
    cbn [attrs_of] in E. apply in_flat_map in E. destruct E as (d & Hd & Hpos).
    destruct (Forall2_In_r _ _ _ _ (tr_list_Forall2 _ _ _ _ Eys) Hd) as (ci & Hci & Hy).
    destruct (child_pos_local ic ci d r (TKb_child _ _ _ _ Hkb Hci) Hy Hpos) as (kn & Hrec).
    exists ci, kn. split; assumption.
Qed.

(* non-vacuity: composite nodes of parsed trees have the shape of block_records_local *)
Example block_records_local_inhabited :
  exists po ty cs m2 m m0,
    parse_text the_grammar the_hook false (Str "MAP NAME 'x' LAYER TYPE POINT END END") = Ok po /\
    po_tree po = Node CB_start [Node CB_composite [ty; Node CB_composite_body cs m2] m] m0 /\
    length cs = 2%nat.
Proof. eexists _, _, _, _, _, _. split; [vm_compute; reflexivity|]. split; reflexivity. Qed.
