(* C02 clause lemmas on the transformer callbacks. *)
From MF Require Import Lib.Base Lib.PyDict Model.GrammarTypes Model.Case Model.Transformer Gen.Tokens.
Open Scope N_scope.

Lemma typed_values :
  (forall t s z, pk_val t = VStr s -> parse_int s = Some z ->
     cb_int [TTok t] = Ok (TTok (set_val t (VInt z)))) /\
  (forall t s m e, pk_val t = VStr s -> parse_float s = Some (m, e) ->
     cb_float [TTok t] = Ok (TTok (set_val t (VFloat m e)))) /\
  (forall t, cb_bool true [TTok t] = Ok (TTok (set_val t (VBool true)))) /\
  (forall t, cb_bool false [TTok t] = Ok (TTok (set_val t (VBool false)))) /\
  (forall t s, pk_val t = VStr s ->
     cb_hexcolor [TTok t] = Ok (TTok (set_val t (VStr (lower (clean_string_s s)))))).
Proof.
  repeat split.
  - intros t s z Hv Hp. unfold cb_int, first_tok, tok_str. cbn [bind]. rewrite Hv. cbn [bind]. rewrite Hp. reflexivity.
  - intros t s m e Hv Hp. unfold cb_float, first_tok, tok_str. cbn [bind]. rewrite Hv. cbn [bind]. rewrite Hp. reflexivity.
  - intros t s Hv. unfold cb_hexcolor, first_tok, tok_str. cbn [bind]. rewrite Hv. reflexivity.
Qed.

Lemma last_opt_snoc {A} (l : list A) x : last_opt (l ++ [x]) = Some x.
Proof.
  induction l as [|y l IH]; [reflexivity|]. cbn [app last_opt].
  destruct (l ++ [x]) eqn:E; [destruct l; discriminate|]. exact IH.
Qed.

Lemma removelast_snoc {A} (l : list A) x : removelast (l ++ [x]) = l.
Proof. apply removelast_last. Qed.

Lemma clean_quoted q body : (q = 34 \/ q = 39) -> clean_string_s (q :: body ++ [q]) = body.
Proof.
  intros Hq. unfold clean_string_s, in_quotes, in_quotes_ch, strip_ends.
  change (q :: body ++ [q]) with ((q :: body) ++ [q]). rewrite last_opt_snoc.
  cbn [app tl]. rewrite removelast_snoc.
  destruct Hq as [-> | ->]; cbn; reflexivity.
Qed.

Lemma clean_unquoted s : in_quotes s = false -> clean_string_s s = s.
Proof. intros H. unfold clean_string_s. rewrite H. reflexivity. Qed.

Lemma block_placement ic st c items k :
  assoc s_type items = Some (TVal (VStr k)) ->
  composite_item ic st (TDict c items) =
    if mem_str k SINGLETON_COMPOSITE_NAMES
    then Ok (mk_cs (ci_set k (TDict c items) (cs_dict st)) (cs_pos st) (cs_comments st))
    else match tv_list_append (match ci_get (plural k) (cs_dict st) with Some x => x | None => TSeq [] end)
                              (TDict c items) with
         | Ok cur' => Ok (mk_cs (ci_set (plural k) cur' (cs_dict st)) (cs_pos st) (cs_comments st))
         | Err e => Err e
         end.
Proof.
  intros H. unfold composite_item. rewrite H. cbn [bind].
  destruct (mem_str k SINGLETON_COMPOSITE_NAMES); [reflexivity|].
  destruct (tv_list_append _ _); reflexivity.
Qed.
