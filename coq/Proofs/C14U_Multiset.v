(* C14U: multiset inclusion [sub] and flat_map over ordered-dict updates
   (generic lemmas shared by the transformer and the printer halves). *)
From Coq Require Import Permutation.
From MF Require Import Lib.Base Lib.PyDict.

(* ================================================================ multiset inclusion *)
Definition sub {A} (a b : list A) : Prop := exists r, Permutation (a ++ r) b.

Lemma sub_refl {A} (a : list A) : sub a a.
Proof. exists []. rewrite app_nil_r. reflexivity. Qed.

Lemma sub_nil_l {A} (b : list A) : sub [] b.
Proof. exists b. reflexivity. Qed.

Lemma sub_perm {A} (a b : list A) : Permutation a b -> sub a b.
Proof. intros H. exists []. rewrite app_nil_r. exact H. Qed.

Lemma sub_trans {A} (a b c : list A) : sub a b -> sub b c -> sub a c.
Proof.
  intros [r Hr] [s Hs]. exists (r ++ s). rewrite app_assoc.
  eapply perm_trans; [apply Permutation_app_tail; exact Hr|exact Hs].
Qed.

Lemma sub_app {A} (a b c d : list A) : sub a b -> sub c d -> sub (a ++ c) (b ++ d).
Proof.
  intros [r Hr] [s Hs]. exists (r ++ s).
  eapply perm_trans; [|apply Permutation_app; [exact Hr|exact Hs]].
  rewrite <- !app_assoc. apply Permutation_app_head.
  rewrite !app_assoc. apply Permutation_app_tail. apply Permutation_app_comm.
Qed.

Lemma sub_app_l {A} (a b : list A) : sub a (a ++ b).
Proof. exists b. reflexivity. Qed.

Lemma sub_app_r {A} (a b : list A) : sub b (a ++ b).
Proof. exists a. apply Permutation_app_comm. Qed.

Lemma sub_nil_r {A} (a : list A) : sub a [] -> a = [].
Proof.
  intros [r Hr]. apply Permutation_sym, Permutation_nil in Hr.
  apply app_eq_nil in Hr. apply Hr.
Qed.

Lemma sub_In {A} (a b : list A) x : sub a b -> In x a -> In x b.
Proof.
  intros [r Hr] Hin. eapply Permutation_in; [exact Hr|]. apply in_or_app. left. exact Hin.
Qed.

Lemma sub_app_swap {A} (a b c : list A) : sub ((a ++ b) ++ c) ((a ++ c) ++ b).
Proof.
  apply sub_perm. rewrite <- !app_assoc. apply Permutation_app_head. apply Permutation_app_comm.
Qed.

Lemma sub_flat_map {A B} (f g : A -> list B) (l : list A) :
  Forall (fun x => sub (f x) (g x)) l -> sub (flat_map f l) (flat_map g l).
Proof.
  induction 1 as [|x l Hx _ IH]; [apply sub_refl|]. cbn [flat_map]. apply sub_app; assumption.
Qed.

Lemma sub_l_nil {A} (a b : list A) : a = [] -> sub a b.
Proof. intros ->. apply sub_nil_l. Qed.

(* sub a (b ++ []) etc. *)
Lemma sub_app_nil_r {A} (a b : list A) : sub a b -> sub a (b ++ []).
Proof. rewrite app_nil_r. auto. Qed.

(* ================================================================ flat_map over ordered-dict updates *)
Section FM.
  Context {A B : Type} (f : str * A -> list B).

  Lemma fm_replace_sub k v (l : list (str * A)) extra :
    od_mem k l = true ->
    (forall old, assoc k l = Some old -> sub (f (k, v)) (f (k, old) ++ extra)) ->
    sub (flat_map f (od_replace k v l)) (flat_map f l ++ extra).
  Proof.
    induction l as [|[k' v'] l IH]; cbn [od_mem od_replace assoc flat_map]; [discriminate|].
    destruct (str_eqb_spec k k') as [->|Hne]; cbn [orb flat_map]; intros Hm Hold.
    - specialize (Hold v' eq_refl).
      eapply sub_trans; [apply sub_app; [exact Hold|apply sub_refl]|].
      apply sub_app_swap.
    - specialize (IH Hm Hold). rewrite <- app_assoc. apply sub_app; [apply sub_refl|exact IH].
  Qed.

  (* the general update: what the new entry adds beyond the entry it replaces *)
  Lemma fm_set_sub k v (l : list (str * A)) extra :
    (forall old, assoc k l = Some old -> sub (f (k, v)) (f (k, old) ++ extra)) ->
    (assoc k l = None -> sub (f (k, v)) extra) ->
    sub (flat_map f (od_set k v l)) (flat_map f l ++ extra).
  Proof.
    intros Hold Hnew. unfold od_set. destruct (od_mem k l) eqn:Em.
    - apply fm_replace_sub; assumption.
    - rewrite flat_map_app. cbn [flat_map]. rewrite app_nil_r. apply sub_app; [apply sub_refl|].
      apply Hnew. rewrite od_mem_assoc in Em. destruct (assoc k l); [discriminate|reflexivity].
  Qed.

  (* the replaced entry is simply dropped *)
  Lemma fm_set_add k v (l : list (str * A)) : sub (flat_map f (od_set k v l)) (flat_map f l ++ f (k, v)).
  Proof.
    apply fm_set_sub; intros; [apply sub_app_r|apply sub_refl].
  Qed.

  Lemma fm_set_nil k v (l : list (str * A)) : f (k, v) = [] -> sub (flat_map f (od_set k v l)) (flat_map f l).
  Proof.
    intros H. eapply sub_trans; [apply fm_set_add|]. rewrite H, app_nil_r. apply sub_refl.
  Qed.

  Lemma fm_nil_Forall (l : list (str * A)) : flat_map f l = [] <-> Forall (fun x => f x = []) l.
  Proof.
    induction l as [|x l IH]; cbn [flat_map]; [split; [constructor|reflexivity]|].
    split.
    - intros H. apply app_eq_nil in H. destruct H as [H1 H2]. constructor; [exact H1|apply IH; exact H2].
    - intros H. inversion H as [|? ? H1 H2]; subst. rewrite H1. apply IH. exact H2.
  Qed.
End FM.

Lemma Forall_od_replace {A} (P : str * A -> Prop) k v (l : list (str * A)) :
  Forall P l -> P (k, v) -> Forall P (od_replace k v l).
Proof.
  intros HF Hv. induction HF as [|[k' v'] l Hx HF IH]; cbn [od_replace]; [constructor|].
  destruct (str_eqb_spec k k') as [->|Hne]; constructor; assumption.
Qed.

Lemma Forall_od_set {A} (P : str * A -> Prop) k v (l : list (str * A)) :
  Forall P l -> P (k, v) -> Forall P (od_set k v l).
Proof.
  intros HF Hv. unfold od_set. destruct (od_mem k l).
  - apply Forall_od_replace; assumption.
  - apply Forall_app. split; [exact HF|constructor; [exact Hv|constructor]].
Qed.

Lemma fm_nil_od_set {A B} (f : str * A -> list B) k v (l : list (str * A)) :
  flat_map f l = [] -> f (k, v) = [] -> flat_map f (od_set k v l) = [].
Proof.
  intros H1 H2. apply fm_nil_Forall. apply Forall_od_set; [apply fm_nil_Forall; exact H1|exact H2].
Qed.

Lemma In_od_del {A} k (l : list (str * A)) x : In x (od_del k l) -> In x l.
Proof.
  induction l as [|[k' v'] l IH]; cbn [od_del]; [tauto|].
  destruct (str_eqb k k'); cbn [In]; tauto.
Qed.

Lemma assoc_In_key {A} k (v : A) l : assoc k l = Some v -> In (k, v) l.
Proof. apply assoc_Some_in. Qed.

Lemma fm_nil_assoc {A B} (f : str * A -> list B) k v (l : list (str * A)) :
  flat_map f l = [] -> assoc k l = Some v -> f (k, v) = [].
Proof.
  intros H Ha. apply fm_nil_Forall in H. rewrite Forall_forall in H. apply H. apply assoc_Some_in. exact Ha.
Qed.


Lemma flat_map_map {A B C} (f : B -> list C) (g : A -> B) l : flat_map f (map g l) = flat_map (fun x => f (g x)) l.
Proof. induction l as [|x l IH]; [reflexivity|]. cbn [map flat_map]. rewrite IH. reflexivity. Qed.
