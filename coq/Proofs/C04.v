(* C04: idempotence lemmas of the printer's normalisations. *)
From MF Require Import Lib.Base Model.Quoter.
Open Scope N_scope.

Lemma unescape_escape q x : q <> c_bs -> unescape_q q (escape_q q x) = x.
Proof.
  intros Hq. induction x as [|c x IH]; [reflexivity|].
  cbn [escape_q]. destruct (N.eqb_spec c q) as [->|Hc].
  - cbn [unescape_q]. rewrite !N.eqb_refl. cbn [andb]. rewrite IH. reflexivity.
  - destruct x as [|c2 x2].
    + reflexivity.
    + cbn [escape_q] in *. destruct (N.eqb_spec c2 q) as [->|Hc2].
      * cbn [unescape_q] in *.
        assert (E : (c_bs =? q) = false) by (apply N.eqb_neq; congruence).
        rewrite E, andb_false_r. rewrite N.eqb_refl in IH. cbn [andb] in IH.
        rewrite N.eqb_refl. cbn [andb]. f_equal.
        rewrite N.eqb_refl in *. cbn [andb] in *. exact IH.
      * cbn [unescape_q] in *.
        assert (E : (c2 =? q) = false) by (apply N.eqb_neq; exact Hc2).
        rewrite E, andb_false_r. f_equal. exact IH.
Qed.

Lemma startswith_cons q l : startswith (q :: l) [q] = true.
Proof. cbn. rewrite N.eqb_refl. destruct l; reflexivity. Qed.

Lemma endswith_snoc (l : str) q : endswith (l ++ [q]) [q] = true.
Proof. unfold endswith. rewrite rev_app_distr. cbn. rewrite N.eqb_refl. destruct (rev l); reflexivity. Qed.

Lemma in_quotes_wrapped q (m : str) : _in_quotes (q :: m ++ [q]) q = true.
Proof.
  unfold _in_quotes. rewrite startswith_cons. change (q :: m ++ [q]) with ((q :: m) ++ [q]).
  rewrite endswith_snoc. reflexivity.
Qed.

Lemma strip_ends_wrapped q (m : str) : strip_ends (q :: m ++ [q]) = m.
Proof. unfold strip_ends. cbn [tl]. apply removelast_last. Qed.

Theorem escape_quotes_idem q s : q <> c_bs ->
  escape_quotes_s q (escape_quotes_s q s) = escape_quotes_s q s.
Proof.
  intros Hq. unfold escape_quotes_s. destruct (_in_quotes s q) eqn:E.
  - set (X := escape_q q (unescape_q q (remove_quotes_s q s))).
    unfold add_quotes, _add_quotes. rewrite in_quotes_wrapped.
    unfold remove_quotes_s at 1. unfold in_quotes. rewrite in_quotes_wrapped. cbn [orb].
    rewrite strip_ends_wrapped. subst X. rewrite unescape_escape by exact Hq. reflexivity.
  - rewrite E. reflexivity.
Qed.
