(* C13 (comments part), lexer / parser level: Parser.parse with
   include_comments on and off reads the same token stream, accepts the same
   texts with the same errors, and builds trees of the same shape (same node
   names, same tokens; only Lark's meta and the side list of comment tokens
   differ).  assign_comments only touches metas. *)
From MF Require Import Lib.Base Lib.Regex Model.GrammarTypes Model.Lexer Model.LR Model.Case
  Model.Transformer Model.Api Gen.Tokens Gen.Grammar.
Open Scope N_scope.

(* ================================================================ trees of the same shape *)
Fixpoint same_shape (t t' : tree) {struct t} : Prop :=
  match t, t' with
  | Tok a, Tok b => a = b
  | Node d cs _, Node d' cs' _ =>
      d = d' /\
      (fix go (l l' : list tree) {struct l} : Prop :=
         match l, l' with
         | [], [] => True
         | c :: l1, c' :: l1' => same_shape c c' /\ go l1 l1'
         | _, _ => False
         end) cs cs'
  | _, _ => False
  end.

Definition same_shape_l : list tree -> list tree -> Prop :=
  fix go (l l' : list tree) {struct l} : Prop :=
    match l, l' with
    | [], [] => True
    | c :: l1, c' :: l1' => same_shape c c' /\ go l1 l1'
    | _, _ => False
    end.

Lemma same_shape_node d cs m d' cs' m' :
  same_shape (Node d cs m) (Node d' cs' m') = (d = d' /\ same_shape_l cs cs').
Proof. reflexivity. Qed.

Lemma same_shape_refl : forall t, same_shape t t.
Proof.
  fix IH 1. intros [a|d cs m]; [reflexivity|]. rewrite same_shape_node. split; [reflexivity|].
  induction cs as [|c cs IHcs]; [exact I|]. split; [apply IH|exact IHcs].
Qed.

Lemma same_shape_l_refl l : same_shape_l l l.
Proof. induction l as [|c l IH]; [exact I|]. split; [apply same_shape_refl|exact IH]. Qed.

Lemma same_shape_sym : forall t t', same_shape t t' -> same_shape t' t.
Proof.
  fix IH 1. intros [a|d cs m] [b|d' cs' m'] H; try contradiction.
  - cbn in *. congruence.
  - rewrite same_shape_node in *. destruct H as [-> H]. split; [reflexivity|].
    revert cs' H. induction cs as [|c cs IHcs]; intros [|c' cs'] H; try contradiction; [exact I|].
    destruct H as [H1 H2]. split; [apply IH; exact H1|apply IHcs; exact H2].
Qed.

Lemma same_shape_trans : forall t t' t'', same_shape t t' -> same_shape t' t'' -> same_shape t t''.
Proof.
  fix IH 1. intros [a|d cs m] [b|d' cs' m'] [c|d'' cs'' m''] H1 H2; try contradiction.
  - cbn in *. congruence.
  - rewrite same_shape_node in *. destruct H1 as [-> H1], H2 as [-> H2]. split; [reflexivity|].
    revert cs' cs'' H1 H2.
    induction cs as [|x cs IHcs]; intros [|x' cs'] [|x'' cs''] H1 H2; try contradiction; [exact I|].
    destruct H1 as [A1 A2], H2 as [B1 B2]. split; [eapply IH; eassumption|eapply IHcs; eassumption].
Qed.

Lemma same_shape_l_app a a' b b' : same_shape_l a a' -> same_shape_l b b' -> same_shape_l (a ++ b) (a' ++ b').
Proof.
  revert a'. induction a as [|x a IH]; intros [|x' a'] Ha Hb; try contradiction; [exact Hb|].
  destruct Ha as [H1 H2]. split; [exact H1|apply IH; assumption].
Qed.

Lemma same_shape_l_rev a a' : same_shape_l a a' -> same_shape_l (rev a) (rev a').
Proof.
  revert a'. induction a as [|x a IH]; intros [|x' a'] Ha; try contradiction; [exact I|].
  destruct Ha as [H1 H2]. cbn [rev]. apply same_shape_l_app; [apply IH; exact H2|]. split; [exact H1|exact I].
Qed.

Lemma same_shape_l_nth a a' i :
  same_shape_l a a' ->
  match nth_error a i, nth_error a' i with
  | Some c, Some c' => same_shape c c'
  | None, None => True
  | _, _ => False
  end.
Proof.
  revert a' i. induction a as [|x a IH]; intros [|x' a'] [|i] Ha; try contradiction; cbn [nth_error]; auto.
  - apply Ha.
  - apply IH. apply Ha.
Qed.

Lemma same_shape_l_length a a' : same_shape_l a a' -> length a = length a'.
Proof.
  revert a'. induction a as [|x a IH]; intros [|x' a'] Ha; try contradiction; [reflexivity|].
  cbn [length]. f_equal. apply IH. apply Ha.
Qed.

(* ================================================================ the lexer *)
(* lexer states equal but for the recorded comment tokens *)
Definition ls_eq (s s' : lexstate) : Prop :=
  ls_lc s = ls_lc s' /\ ls_rest s = ls_rest s' /\ ls_last s = ls_last s'.

Definition lexres_eq (r r' : lexres) : Prop :=
  match r, r' with
  | LTok t s, LTok t' s' => t = t' /\ ls_eq s s'
  | LEof s, LEof s' => ls_eq s s'
  | LBad s, LBad s' => ls_eq s s'
  | _, _ => False
  end.

Lemma next_token_wc g wc wc' lx : forall fuel st st',
  ls_eq st st' -> lexres_eq (next_token g wc lx fuel st) (next_token g wc' lx fuel st').
Proof.
  induction fuel as [|fuel IH]; intros st st' Hs; pose proof Hs as (H1 & H2 & H3); cbn [next_token].
  - exact Hs.
  - rewrite <- H1, <- H2, <- H3.
    destruct (ls_rest st) as [|c0 rest0] eqn:Er; [exact Hs|].
    match goal with |- context [scan ?a ?b ?c] => destruct (scan a b c) as [[ty [endpos rest']]|] end;
      [|exact Hs].
    cbv zeta. destruct (memN ty (lx_ignore lx)).
    + apply IH. repeat split; reflexivity.
    + cbn [lexres_eq]. split; [reflexivity|]. repeat split; reflexivity.
Qed.

Definition ctxres_eq (r r' : ctxres) : Prop :=
  match r, r' with
  | CTok t s, CTok t' s' => t = t' /\ ls_eq s s'
  | CEof s, CEof s' => ls_eq s s'
  | CErrChars l c, CErrChars l' c' => l = l' /\ c = c'
  | CErrToken t, CErrToken t' => t = t'
  | _, _ => False
  end.

Lemma ctx_next_wc g wc wc' state fuel st st' :
  ls_eq st st' -> ctxres_eq (ctx_next g wc state fuel st) (ctx_next g wc' state fuel st').
Proof.
  intros H. unfold ctx_next.
  destruct (nth_N (g_lexer_of_state g) state) as [li|]; [|split; reflexivity].
  destruct (nth_N (g_lexers g) li) as [lx|]; [|split; reflexivity].
  pose proof (next_token_wc g wc wc' lx fuel st st' H) as Hn.
  destruct (next_token g wc lx fuel st) as [t s|s|s], (next_token g wc' lx fuel st') as [t' s'|s'|s'];
    cbn [lexres_eq] in Hn; try contradiction; try exact Hn.
  pose proof (next_token_wc g wc wc' (g_root_lexer g) fuel s s' Hn) as Hr.
  destruct Hn as (L1 & _ & _).
  destruct (next_token g wc (g_root_lexer g) fuel s) as [t r|r|r],
           (next_token g wc' (g_root_lexer g) fuel s') as [t' r'|r'|r'];
    cbn [lexres_eq] in Hr; try contradiction; cbn [ctxres_eq]; rewrite ?L1; try (split; reflexivity).
  apply Hr.
Qed.

(* ================================================================ the tree builder *)
Definition res_shape (r r' : res tree) : Prop :=
  match r, r' with
  | Ok t, Ok t' => same_shape t t'
  | Err e, Err e' => e = e'
  | _, _ => False
  end.

Definition res_shape_l (r r' : res (list tree)) : Prop :=
  match r, r' with
  | Ok t, Ok t' => same_shape_l t t'
  | Err e, Err e' => e = e'
  | _, _ => False
  end.

Lemma apply_filter_shape cs cs' : same_shape_l cs cs' -> forall inc,
  res_shape_l (apply_filter inc cs) (apply_filter inc cs').
Proof.
  intros H. induction inc as [|[i ex] inc IH]; cbn [apply_filter]; [exact I|].
  pose proof (same_shape_l_nth cs cs' i H) as Hn.
  destruct (nth_error cs i) as [c|], (nth_error cs' i) as [c'|]; try contradiction; [|reflexivity].
  destruct (apply_filter inc cs) as [rest|e], (apply_filter inc cs') as [rest'|e'];
    cbn [res_shape_l] in IH; try contradiction; cbn [bind]; [|exact IH].
  destruct ex.
  - destruct c as [a|d k m], c' as [a'|d' k' m']; try contradiction; [reflexivity|].
    rewrite same_shape_node in Hn. cbn [res_shape_l]. apply same_shape_l_app; [apply Hn|exact IH].
  - cbn [res_shape_l]. split; assumption.
Qed.

Lemma propagate_shape cs t : same_shape (propagate cs t) t.
Proof.
  destruct t as [a|d k m]; [reflexivity|]. cbn [propagate]. rewrite same_shape_node.
  split; [reflexivity|apply same_shape_l_refl].
Qed.

Lemma build_shape pp pp' r cs cs' :
  same_shape_l cs cs' -> res_shape (build pp r cs) (build pp' r cs').
Proof.
  intros H. unfold build.
  assert (Hf : res_shape_l (match r_filter r with Some inc => apply_filter inc cs | None => Ok cs end)
                           (match r_filter r with Some inc => apply_filter inc cs' | None => Ok cs' end)).
  { destruct (r_filter r); [apply apply_filter_shape; exact H|exact H]. }
  destruct (match r_filter r with Some inc => apply_filter inc cs | None => Ok cs end) as [f|e],
           (match r_filter r with Some inc => apply_filter inc cs' | None => Ok cs' end) as [f'|e'];
    cbn [res_shape_l] in Hf; try contradiction; cbn [bind]; [|exact Hf].
  cbn [res_shape].
  assert (Hn : same_shape (match r_expand1 r, f with true, [c] => c | _, _ => Node (r_name r) f meta0 end)
                          (match r_expand1 r, f' with true, [c] => c | _, _ => Node (r_name r) f' meta0 end)).
  { destruct (r_expand1 r).
    - destruct f as [|c [|c2 f]], f' as [|c' [|c2' f']]; cbn [same_shape_l] in Hf; try tauto;
        try (rewrite same_shape_node; split; [reflexivity|exact Hf]).
    - rewrite same_shape_node. split; [reflexivity|exact Hf]. }
  destruct pp, pp'.
  - eapply same_shape_trans; [apply propagate_shape|].
    eapply same_shape_trans; [exact Hn|]. apply same_shape_sym, propagate_shape.
  - eapply same_shape_trans; [apply propagate_shape|exact Hn].
  - eapply same_shape_trans; [exact Hn|]. apply same_shape_sym, propagate_shape.
  - exact Hn.
Qed.

Lemma pop_n_shape n : forall vs vs', same_shape_l vs vs' ->
  match pop_n n vs, pop_n n vs' with
  | Some (p, r), Some (p', r') => same_shape_l p p' /\ same_shape_l r r'
  | None, None => True
  | _, _ => False
  end.
Proof.
  induction n as [|n IH]; intros vs vs' H; cbn [pop_n]; [split; [exact I|exact H]|].
  destruct vs as [|x vs], vs' as [|x' vs']; try contradiction; [exact I|].
  destruct H as [H1 H2]. specialize (IH vs vs' H2).
  destruct (pop_n n vs) as [[p r]|], (pop_n n vs') as [[p' r']|]; try contradiction; [|exact I].
  destruct IH as [A B]. split; [split; assumption|exact B].
Qed.

Definition feedres_shape (r r' : feedres) : Prop :=
  match r, r' with
  | FShift ss vs, FShift ss' vs' => ss = ss' /\ same_shape_l vs vs'
  | FDone v, FDone v' => same_shape v v'
  | FErr e, FErr e' => e = e'
  | _, _ => False
  end.

Lemma feed_shape g pp pp' tok is_end : forall fuel ss vs vs',
  same_shape_l vs vs' -> feedres_shape (feed g pp fuel tok is_end ss vs) (feed g pp' fuel tok is_end ss vs').
Proof.
  induction fuel as [|fuel IH]; intros ss vs vs' H; cbn [feed]; [reflexivity|].
  destruct ss as [|state ss0]; [reflexivity|].
  destruct (lookup_action g state (ttype tok)) as [[ns|ri]|]; [| |reflexivity].
  - destruct is_end; [reflexivity|]. cbn [feedres_shape]. split; [reflexivity|]. split; [reflexivity|exact H].
  - destruct (nth_N (g_rules g) ri) as [r|]; [|reflexivity].
    destruct (pop_n (length (r_expansion r)) (state :: ss0)) as [[p1 ss1]|].
    2:{ destruct (pop_n (length (r_expansion r)) vs), (pop_n (length (r_expansion r)) vs'); reflexivity. }
    pose proof (pop_n_shape (length (r_expansion r)) vs vs' H) as Hp.
    destruct (pop_n (length (r_expansion r)) vs) as [[popped vs1]|],
             (pop_n (length (r_expansion r)) vs') as [[popped' vs1']|]; try contradiction; [|reflexivity].
    destruct Hp as [Hp Hr].
    pose proof (build_shape pp pp' r (rev popped) (rev popped') (same_shape_l_rev _ _ Hp)) as Hb.
    destruct (build pp r (rev popped)) as [v|e], (build pp' r (rev popped')) as [v'|e'];
      cbn [res_shape] in Hb; try contradiction; [|exact Hb].
    destruct ss1 as [|top ss1']; [reflexivity|].
    destruct (lookup_action g top (r_origin r)) as [[ns|?]|]; try reflexivity.
    destruct (is_end && (ns =? g_end g)); [exact Hb|].
    apply IH. split; assumption.
Qed.

Lemma hook_shape h t vs vs' : same_shape_l vs vs' -> hook h t vs' = hook h t vs.
Proof.
  intros H. unfold hook.
  assert (Ht : forall s, top_is (h_upper h) vs' s = top_is (h_upper h) vs s).
  { intros s. destruct vs as [|[a|d k m] vs], vs' as [|[a'|d' k' m'] vs']; try contradiction; try reflexivity;
      destruct H as [H _]; try contradiction. cbn in H. subst a'. reflexivity. }
  rewrite !Ht. reflexivity.
Qed.

(* ================================================================ the parse loop *)
Definition pout_shape (r r' : res parse_out) : Prop :=
  match r, r' with
  | Ok p, Ok p' => same_shape (po_tree p) (po_tree p')
  | Err e, Err e' => e = e'
  | _, _ => False
  end.

Theorem parse_loop_wc g h wc wc' : forall fuel st st' ss vs vs' acc,
  ls_eq st st' -> same_shape_l vs vs' ->
  fst (parse_loop g h wc fuel st ss vs acc) = fst (parse_loop g h wc' fuel st' ss vs' acc) /\
  pout_shape (snd (parse_loop g h wc fuel st ss vs acc)) (snd (parse_loop g h wc' fuel st' ss vs' acc)).
Proof.
  induction fuel as [|fuel IH]; intros st st' ss vs vs' acc Hs Hv; cbn [parse_loop]; [split; reflexivity|].
  destruct ss as [|state ss0]; [split; reflexivity|].
  pose proof (ctx_next_wc g wc wc' state (S fuel) st st' Hs) as Hc.
  destruct (ctx_next g wc state (S fuel) st) as [t s|s|l c|t],
           (ctx_next g wc' state (S fuel) st') as [t' s'|s'|l' c'|t']; cbn [ctxres_eq] in Hc; try contradiction.
  - destruct Hc as [<- Hs']. rewrite (hook_shape h t vs vs' Hv).
    destruct (hook h t vs) as [t2|e]; [|split; reflexivity].
    pose proof (feed_shape g wc wc' t2 false (reduce_fuel g (state :: ss0)) (state :: ss0) vs vs' Hv) as Hf.
    destruct (feed g wc _ t2 false (state :: ss0) vs) as [ss2 vs2|v|e],
             (feed g wc' _ t2 false (state :: ss0) vs') as [ss2' vs2'|v'|e'];
      cbn [feedres_shape] in Hf; try contradiction.
    + destruct Hf as [<- Hf]. apply IH; assumption.
    + split; reflexivity.
    + subst e'. split; reflexivity.
  - destruct Hc as (_ & _ & L3). rewrite <- L3.
    match goal with |- context [feed g wc ?F ?T true ?SS vs] =>
      pose proof (feed_shape g wc wc' T true F SS vs vs' Hv) as Hf;
      destruct (feed g wc F T true SS vs) as [ss2 vs2|v|e],
               (feed g wc' F T true SS vs') as [ss2' vs2'|v'|e'] end;
      cbn [feedres_shape] in Hf; try contradiction.
    + split; reflexivity.
    + split; [reflexivity|exact Hf].
    + subst e'. split; reflexivity.
  - destruct Hc as [<- <-]. split; reflexivity.
  - subst t'. split; reflexivity.
Qed.

(* ================================================================ assign_comments *)
Lemma assign_children_shape : forall fuel cd cs, same_shape_l (snd (assign_children fuel cd cs)) cs.
Proof.
  induction fuel as [|fuel IH]; intros cd cs; cbn [assign_children]; [apply same_shape_l_refl|].
  destruct cs as [|[t|d kids m] cs']; [exact I| |].
  - specialize (IH cd cs'). destruct (assign_children fuel cd cs') as [cd' r]. cbn [snd] in *.
    split; [reflexivity|exact IH].
  - destruct (m_line m) as [line0|].
    + match goal with |- context [let '(cd1, m1) := ?X in _] => destruct X as [cd1 m1] end.
      pose proof (IH cd1 kids) as H1. destruct (assign_children fuel cd1 kids) as [cd2 kids'].
      pose proof (IH cd2 cs') as H2. destruct (assign_children fuel cd2 cs') as [cd3 r]. cbn [snd] in *.
      split; [|exact H2]. rewrite same_shape_node. split; [reflexivity|exact H1].
    + specialize (IH cd cs'). destruct (assign_children fuel cd cs') as [cd' r]. cbn [snd] in *.
      split; [apply same_shape_refl|exact IH].
Qed.

Lemma assign_comments_shape cs t : same_shape (assign_comments cs t) t.
Proof.
  destruct t as [a|d k m]; [reflexivity|]. cbn [assign_comments]. rewrite same_shape_node.
  split; [reflexivity|apply assign_children_shape].
Qed.

(* ================================================================ parse_tree *)
Definition tree_outcome (r r' : res tree) : Prop := res_shape r r'.

(* (a): with and without comments the parser accepts the same texts, fails
   with the same error, and returns trees of the same shape *)
Theorem parse_tree_comments_shape :
  forall text, res_shape (parse_tree true text) (parse_tree false text).
Proof.
  intros text. unfold parse_tree, parse_text, parse_text_tr.
  destruct (parse_loop_wc the_grammar the_hook true false (S (length text)) (ls0 text) (ls0 text)
              [g_start the_grammar] [] [] []) as [_ H].
  { repeat split; reflexivity. }
  { exact I. }
  destruct (snd (parse_loop the_grammar the_hook true _ _ _ _ _)) as [p|e],
           (snd (parse_loop the_grammar the_hook false _ _ _ _ _)) as [p'|e'];
    cbn [pout_shape] in H; try contradiction; cbn [bind res_shape]; [|exact H].
  eapply same_shape_trans; [apply assign_comments_shape|exact H].
Qed.

(* the token stream fed to the parser is the same as well *)
Theorem parse_tokens_comments_same :
  forall text, fst (parse_text_tr the_grammar the_hook true text) = fst (parse_text_tr the_grammar the_hook false text).
Proof.
  intros text. unfold parse_text_tr.
  apply (parse_loop_wc the_grammar the_hook true false (S (length text)) (ls0 text) (ls0 text)
           [g_start the_grammar] [] [] []); [repeat split; reflexivity|exact I].
Qed.

Corollary parse_tree_comments_ok_iff text :
  (exists t, parse_tree true text = Ok t) <-> (exists t, parse_tree false text = Ok t).
Proof.
  pose proof (parse_tree_comments_shape text) as H.
  destruct (parse_tree true text), (parse_tree false text); cbn in H; try contradiction;
    split; intros [t Ht]; try discriminate; eexists; reflexivity.
Qed.
