(* Facts about the generated case tables, by reflection over their finitely
   many entries plus the ASCII range. *)
From MF Require Import Lib.Base Gen.Unicode Model.Case.
Open Scope N_scope.

Definition ascii_range : list N := map N.of_nat (seq 0 128).

Lemma in_ascii_range c : c <? 128 = true -> In c ascii_range.
Proof.
  intros H. apply N.ltb_lt in H. unfold ascii_range. apply in_map_iff.
  exists (N.to_nat c). split; [apply N2Nat.id|]. apply in_seq. lia.
Qed.

Lemma lookup_cp_In c t img : lookup_cp c t = Some img -> In (c, img) t.
Proof.
  induction t as [|[c' i'] t IH]; cbn [lookup_cp In]; [discriminate|].
  destruct (N.eqb_spec c c') as [->|Hne]; [intros [= ->]; auto|auto].
Qed.

(* the generated tables agree with the arithmetic ASCII rule *)
Definition ascii_ok (tbl : list (N * list N)) (f : N -> list N) : bool :=
  forallb (fun c => match lookup_cp c tbl with
                    | Some img => str_eqb img (f c)
                    | None => str_eqb [c] (f c)
                    end) ascii_range.

Lemma lower_table_ascii_ok : ascii_ok lower_table lower_ascii = true.
Proof. vm_compute. reflexivity. Qed.

Lemma upper_table_ascii_ok : ascii_ok upper_table upper_ascii = true.
Proof. vm_compute. reflexivity. Qed.

(* idempotence, code point by code point *)
Definition idem_on (f : N -> list N) (l : list N) : bool :=
  forallb (fun c => str_eqb (flat_map f (f c)) (f c)) l.

Lemma idem_on_In f l c : idem_on f l = true -> In c l -> flat_map f (f c) = f c.
Proof.
  unfold idem_on. rewrite forallb_forall. intros H Hin. apply str_eqb_eq. apply H. exact Hin.
Qed.

Section Generic.
  Variable af : N -> list N.
  Variable tbl : list (N * list N).
  Hypothesis H_ascii : idem_on (case_cp af tbl) ascii_range = true.
  Hypothesis H_tbl : idem_on (case_cp af tbl) (map fst tbl) = true.

  Lemma case_cp_idem c : flat_map (case_cp af tbl) (case_cp af tbl c) = case_cp af tbl c.
  Proof.
    destruct (c <? 128) eqn:E.
    - apply (idem_on_In _ _ c H_ascii). apply in_ascii_range. exact E.
    - destruct (lookup_cp c tbl) as [img|] eqn:L.
      + apply (idem_on_In _ _ c H_tbl).
        apply in_map_iff. exists (c, img). split; [reflexivity|]. apply lookup_cp_In. exact L.
      + assert (Hc : case_cp af tbl c = [c]) by (unfold case_cp; rewrite E, L; reflexivity).
        rewrite Hc. cbn [flat_map]. rewrite Hc. reflexivity.
  Qed.

  Lemma case_idem s :
    flat_map (case_cp af tbl) (flat_map (case_cp af tbl) s) = flat_map (case_cp af tbl) s.
  Proof.
    induction s as [|c s IH]; [reflexivity|].
    cbn [flat_map]. rewrite flat_map_app, IH, case_cp_idem. reflexivity.
  Qed.
End Generic.

Lemma lower_idem_ascii : idem_on (case_cp lower_ascii lower_table) ascii_range = true.
Proof. vm_compute. reflexivity. Qed.

Lemma lower_idem_table : idem_on (case_cp lower_ascii lower_table) (map fst lower_table) = true.
Proof. vm_compute. reflexivity. Qed.

Theorem lower_idem s : lower (lower s) = lower s.
Proof. exact (case_idem lower_ascii lower_table lower_idem_ascii lower_idem_table s). Qed.

Lemma upper_idem_ascii : idem_on (case_cp upper_ascii upper_table) ascii_range = true.
Proof. vm_compute. reflexivity. Qed.

Lemma upper_idem_table : idem_on (case_cp upper_ascii upper_table) (map fst upper_table) = true.
Proof. vm_compute. reflexivity. Qed.

Theorem upper_idem s : upper (upper s) = upper s.
Proof. exact (case_idem upper_ascii upper_table upper_idem_ascii upper_idem_table s). Qed.
