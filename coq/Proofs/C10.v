(* C10: expression rewriting preserves structure. Lemmas and theorems. *)
From MF Require Import Lib.Base Lib.Json Model.Expr Model.ObsExpr Spec.MsExpr Proofs.MsExprFacts.

(* ================================================================ A. strings *)
Lemma join_one sep s : join sep [s] = s.
Proof. reflexivity. Qed.

Lemma flat_app a b : flat (a ++ b) = flat a ++ flat b.
Proof. unfold flat. apply flat_map_app. Qed.

Lemma flat_cons p l : flat (p :: l) = piece_str p ++ flat l.
Proof. reflexivity. Qed.

Lemma b_expression_one s :
  b_expression [s] = if in_parenthesis s then s else LP ++ s ++ RP.
Proof. reflexivity. Qed.

Lemma flat_params ps : flat (params_pieces ps) = b_func_params (map leaf_str ps).
Proof.
  unfold params_pieces, b_func_params. destruct ps as [|p ps]; [reflexivity|].
  cbn [params_toks map]. rewrite flat_cons. cbn [piece_str tok_norm].
  revert p. induction ps as [|q ps IH]; intros p.
  - cbn. apply app_nil_r.
  - cbn [flat_map map app]. rewrite !flat_cons. cbn [piece_str tok_norm tok_src].
    rewrite (IH q). cbn [join map]. destruct (map leaf_str ps); reflexivity.
Qed.

(* the stored string is exactly its tokens and single spaces *)
Lemma norm_flat t : norm t = flat (norm_pieces t).
Proof.
  induction t as [l|n ps|x IH|sp x IH|x IH|x IH|o l IHl r IHr|op l IHl r IHr|sp l IHl r IHr|sp l IHl r IHr];
    cbn [norm norm_pieces].
  - cbn. rewrite app_nil_r. reflexivity.
  - rewrite !flat_cons, flat_app, flat_params. cbn [piece_str tok_norm tok_src flat flat_map].
    unfold b_func_call. rewrite app_nil_r. reflexivity.
  - rewrite b_expression_one. destruct (in_parenthesis (norm x)); [assumption|].
    rewrite flat_cons, flat_app, <- IH. reflexivity.
  - rewrite !flat_cons, <- IH. reflexivity.
  - rewrite flat_cons, <- IH. reflexivity.
  - assumption.
  - rewrite flat_app, !flat_cons, <- IHl, <- IHr. destruct o; cbn; rewrite <- ?app_assoc; reflexivity.
  - rewrite !flat_cons, flat_app, !flat_cons, flat_app, <- IHl, <- IHr.
    cbn [piece_str tok_norm tok_src flat flat_map]. unfold b_comparison. cbn [join].
    rewrite <- !app_assoc. reflexivity.
  - rewrite !flat_cons, flat_app, !flat_cons, flat_app, <- IHl, <- IHr.
    cbn [piece_str tok_norm tok_src flat flat_map]. unfold b_and. reflexivity.
  - rewrite !flat_cons, flat_app, !flat_cons, flat_app, <- IHl, <- IHr.
    cbn [piece_str tok_norm tok_src flat flat_map]. unfold b_or. reflexivity.
Qed.

(* ---- in_parenthesis of a string that was wrapped *)
Lemma lstrip_nonspace c s : is_space c = false -> lstrip (c :: s) = c :: s.
Proof. intros H. cbn. rewrite H. reflexivity. Qed.

Lemma strip_wrapped m : strip (LP ++ m ++ RP) = LP ++ m ++ RP.
Proof.
  unfold strip. change (LP ++ m ++ RP) with (40 :: (m ++ [41])).
  rewrite lstrip_nonspace by reflexivity.
  change (40 :: m ++ [41]) with ([40] ++ m ++ [41]).
  rewrite !rev_app_distr. cbn [rev app]. rewrite lstrip_nonspace by reflexivity.
  change (41 :: rev m ++ [40]) with ([41] ++ rev m ++ [40]).
  rewrite !rev_app_distr, rev_involutive. reflexivity.
Qed.

Lemma startswith_nil s : startswith s [] = true.
Proof. destruct s; reflexivity. Qed.

Lemma in_parenthesis_wrapped m : in_parenthesis (LP ++ m ++ RP) = true.
Proof.
  unfold in_parenthesis. rewrite strip_wrapped. unfold endswith.
  change (LP ++ m ++ RP) with ([40] ++ m ++ [41]).
  rewrite !rev_app_distr. cbn. rewrite !startswith_nil. reflexivity.
Qed.

Lemma in_par_comparison a op b : in_parenthesis (b_comparison a op b) = true.
Proof.
  unfold b_comparison. cbn [join].
  replace (Str "( " ++ (a ++ SP ++ op ++ SP ++ b) ++ Str " )")
    with (LP ++ (SP ++ a ++ SP ++ op ++ SP ++ b ++ SP) ++ RP)
    by (rewrite <- !app_assoc; reflexivity).
  apply in_parenthesis_wrapped.
Qed.

Lemma in_par_and a b : in_parenthesis (b_and a b) = true.
Proof.
  unfold b_and.
  replace (Str "( " ++ a ++ Str " AND " ++ b ++ Str " )")
    with (LP ++ (SP ++ a ++ Str " AND " ++ b ++ SP) ++ RP)
    by (rewrite <- !app_assoc; reflexivity).
  apply in_parenthesis_wrapped.
Qed.

Lemma in_par_or a b : in_parenthesis (b_or a b) = true.
Proof.
  unfold b_or.
  replace (Str "( " ++ a ++ Str " OR " ++ b ++ Str " )")
    with (LP ++ (SP ++ a ++ Str " OR " ++ b ++ SP) ++ RP)
    by (rewrite <- !app_assoc; reflexivity).
  apply in_parenthesis_wrapped.
Qed.

Lemma in_par_func n p : in_parenthesis (b_func_call n p) = true.
Proof.
  unfold b_func_call.
  replace (LP ++ n ++ LP ++ p ++ RP ++ RP) with (LP ++ (n ++ LP ++ p ++ RP) ++ RP)
    by (rewrite <- !app_assoc; reflexivity).
  apply in_parenthesis_wrapped.
Qed.

(* ================================================================ B. tokens *)
Lemma toks_of_app a b : toks_of (a ++ b) = toks_of a ++ toks_of b.
Proof.
  induction a as [|p a IH]; [reflexivity|]. destruct p; cbn; rewrite IH; reflexivity.
Qed.

Lemma toks_of_map_PT l : toks_of (map PT l) = l.
Proof. induction l as [|t l IH]; [reflexivity|]. cbn. rewrite IH. reflexivity. Qed.

Definition is_paren (t : tok) : bool := match t with TLP | TRP => true | _ => false end.
Definition is_pos (t : tok) : bool := match t with TPos => true | _ => false end.

(* the operand / operator sequence: parentheses dropped *)
Definition unparen (l : list tok) : list tok := filter (fun t => negb (is_paren t)) l.
Definition drop_pos (l : list tok) : list tok := filter (fun t => negb (is_pos t)) l.

Lemma unparen_app a b : unparen (a ++ b) = unparen a ++ unparen b.
Proof. apply filter_app. Qed.
Lemma drop_pos_app a b : drop_pos (a ++ b) = drop_pos a ++ drop_pos b.
Proof. apply filter_app. Qed.

Lemma params_no_paren ps : unparen (params_toks ps) = params_toks ps /\ drop_pos (params_toks ps) = params_toks ps.
Proof.
  destruct ps as [|p ps]; [split; reflexivity|]. cbn [params_toks].
  split.
  - cbn. f_equal. induction ps as [|q ps IH]; [reflexivity|]. cbn. rewrite IH. reflexivity.
  - cbn. f_equal. induction ps as [|q ps IH]; [reflexivity|]. cbn. rewrite IH. reflexivity.
Qed.

Lemma unparen_LP l : unparen (TLP :: l) = unparen l.
Proof. reflexivity. Qed.
Lemma unparen_RP l : unparen (TRP :: l) = unparen l.
Proof. reflexivity. Qed.
Lemma unparen_snoc_RP l : unparen (l ++ [TRP]) = unparen l.
Proof. rewrite unparen_app. cbn. apply app_nil_r. Qed.
Lemma unparen_cons t l : is_paren t = false -> unparen (t :: l) = t :: unparen l.
Proof. intros H. unfold unparen. cbn [filter]. rewrite H. reflexivity. Qed.
Lemma drop_pos_cons t l : is_pos t = false -> drop_pos (t :: l) = t :: drop_pos l.
Proof. intros H. unfold drop_pos. cbn [filter]. rewrite H. reflexivity. Qed.
Lemma drop_pos_Pos l : drop_pos (TPos :: l) = drop_pos l.
Proof. reflexivity. Qed.

(* operands and operators of the stored string are those of the source, in
   order; unary plus (the identity) is dropped *)
Lemma seq_preserved t : unparen (norm_toks t) = drop_pos (unparen (src_toks t)).
Proof.
  unfold norm_toks.
  induction t as [l|n ps|x IH|sp x IH|x IH|x IH|o l IHl r IHr|op l IHl r IHr|sp l IHl r IHr|sp l IHl r IHr];
    cbn [norm_pieces src_toks].
  - reflexivity.
  - unfold params_pieces. cbn [toks_of]. rewrite toks_of_app, toks_of_map_PT. cbn [toks_of].
    destruct (params_no_paren ps) as [E1 E2].
    rewrite unparen_LP, (unparen_cons (TName n)), unparen_LP by reflexivity.
    rewrite (unparen_app _ [TRP; TRP]), E1.
    rewrite (unparen_cons (TName n)), unparen_LP, unparen_snoc_RP, E1 by reflexivity.
    rewrite !drop_pos_cons by reflexivity. rewrite E2. cbn. rewrite app_nil_r. reflexivity.
  - rewrite unparen_LP, unparen_snoc_RP. destruct (in_parenthesis (norm x)); [assumption|].
    cbn [toks_of]. rewrite toks_of_app. cbn [toks_of]. rewrite unparen_LP, unparen_snoc_RP. assumption.
  - cbn [toks_of]. rewrite !unparen_cons by reflexivity. rewrite !drop_pos_cons by reflexivity.
    rewrite IH. reflexivity.
  - cbn [toks_of]. rewrite !unparen_cons by reflexivity. rewrite !drop_pos_cons by reflexivity.
    rewrite IH. reflexivity.
  - rewrite unparen_cons by reflexivity. rewrite drop_pos_Pos. assumption.
  - rewrite toks_of_app. cbn [toks_of]. rewrite !unparen_app, !unparen_cons by reflexivity.
    rewrite drop_pos_app, drop_pos_cons by reflexivity. rewrite IHl, IHr. reflexivity.
  - cbn [toks_of]. rewrite toks_of_app. cbn [toks_of]. rewrite toks_of_app. cbn [toks_of].
    rewrite unparen_LP, !unparen_app, !unparen_cons by reflexivity. rewrite !unparen_app.
    change (unparen [TRP]) with (@nil tok). rewrite app_nil_r.
    rewrite drop_pos_app, drop_pos_cons by reflexivity. rewrite IHl, IHr. reflexivity.
  - cbn [toks_of]. rewrite toks_of_app. cbn [toks_of]. rewrite toks_of_app. cbn [toks_of].
    rewrite unparen_LP, !unparen_app, !unparen_cons by reflexivity. rewrite !unparen_app.
    change (unparen [TRP]) with (@nil tok). rewrite app_nil_r.
    rewrite drop_pos_app, drop_pos_cons by reflexivity. rewrite IHl, IHr. reflexivity.
  - cbn [toks_of]. rewrite toks_of_app. cbn [toks_of]. rewrite toks_of_app. cbn [toks_of].
    rewrite unparen_LP, !unparen_app, !unparen_cons by reflexivity. rewrite !unparen_app.
    change (unparen [TRP]) with (@nil tok). rewrite app_nil_r.
    rewrite drop_pos_app, drop_pos_cons by reflexivity. rewrite IHl, IHr. reflexivity.
Qed.

(* how a token is spelled in the stored string, relative to its source spelling *)
Definition leaf_value_eq (a b : leaf) : Prop :=
  match a, b with
  | LInt _ x, LInt _ y => x = y
  | LFloat _ m e, LFloat _ m' e' => m = m' /\ e = e'
  | LBool _ x, LBool _ y => x = y
  | LList x, LList y => map lelem_str x = map lelem_str y
  | _, _ => a = b
  end.

Definition spelling_ok (t : tok) : Prop :=
  match t with
  | TAnd _ => tok_norm t = Str "AND"
  | TOr _ => tok_norm t = Str "OR"
  | TNot _ => tok_norm t = Str "NOT"
  | TLeaf l =>
      (leaf_verbatim l = true -> tok_norm t = tok_src t)
      /\ tok_norm t = tok_src (TLeaf (canon_leaf l)) /\ leaf_value_eq (canon_leaf l) l
  | _ => tok_norm t = tok_src t          (* comparison and arithmetic operators, names, commas: verbatim *)
  end.

Lemma lelems_verbatim es : forallb lelem_verbatim es = true -> map lelem_str es = map lelem_src es.
Proof.
  induction es as [|e es IH]; [reflexivity|]. cbn. intros H.
  apply andb_true_iff in H. destruct H as [He Hes]. rewrite IH by assumption.
  destruct e; [reflexivity|discriminate].
Qed.

Lemma canon_lelems es : map lelem_src (map canon_lelem es) = map lelem_str es.
Proof. induction es as [|e es IH]; [reflexivity|]. cbn. rewrite IH. reflexivity. Qed.

Lemma leaf_src_canon l : leaf_src (canon_leaf l) = leaf_str l.
Proof. destruct l; cbn; try reflexivity. rewrite canon_lelems. reflexivity. Qed.

Lemma canon_lelems_str es : map lelem_str (map canon_lelem es) = map lelem_str es.
Proof. induction es as [|e es IH]; [reflexivity|]. cbn. rewrite IH. reflexivity. Qed.

Lemma leaf_str_canon l : leaf_str (canon_leaf l) = leaf_str l.
Proof. destruct l; cbn; try reflexivity. rewrite canon_lelems_str. reflexivity. Qed.

Lemma spelling_all t : spelling_ok t.
Proof.
  destruct t as [| | |s|l|sp|sp|sp|sp|o| |]; cbn; try reflexivity.
  split; [|split].
  - destruct l; cbn; try discriminate; try reflexivity.
    intros H. rewrite lelems_verbatim by assumption. reflexivity.
  - symmetry. apply leaf_src_canon.
  - destruct l; cbn; auto. apply canon_lelems_str.
Qed.

(* ================================================================ C. reading with MsExpr *)
(* Items of a token sequence: parenthesised groups nested, a function call one
   operand, operands named by their stored (canonical) text so that numerals
   are compared by value. *)
Fixpoint isrc (t : etree) : list item :=
  match t with
  | ELeaf l => [IVal (leaf_str l)]
  | EFunc n ps => [IFun n (map leaf_str ps)]
  | EGroup x => [IGrp (isrc x)]
  | ENot sp x => ISym sp :: isrc x
  | ENeg x => ISym (Str "-") :: isrc x
  | EPos x => ISym (Str "+") :: isrc x
  | EArith o l r => isrc l ++ ISym (aop_sym o) :: isrc r
  | ECmp op l r => isrc l ++ ISym op :: isrc r
  | EAnd sp l r => isrc l ++ ISym sp :: isrc r
  | EOr sp l r => isrc l ++ ISym sp :: isrc r
  end.

(* the same for the stored string, following norm_pieces *)
Fixpoint inorm (t : etree) : list item :=
  match t with
  | ELeaf l => [IVal (leaf_str l)]
  | EFunc n ps => [IGrp [IFun n (map leaf_str ps)]]
  | EGroup x => if in_parenthesis (norm x) then inorm x else [IGrp (inorm x)]
  | ENot _ x => ISym (Str "NOT") :: inorm x
  | ENeg x => ISym (Str "-") :: inorm x
  | EPos x => inorm x
  | EArith o l r => inorm l ++ ISym (aop_sym o) :: inorm r
  | ECmp op l r => [IGrp (inorm l ++ ISym op :: inorm r)]
  | EAnd _ l r => [IGrp (inorm l ++ ISym (Str "AND") :: inorm r)]
  | EOr _ l r => [IGrp (inorm l ++ ISym (Str "OR") :: inorm r)]
  end.

(* the token texts of an item list: what ties items to token sequences *)
Fixpoint args_texts (a : list str) : list str :=
  match a with
  | [] => []
  | [x] => [x]
  | x :: a' => x :: Str "," :: args_texts a'
  end.

Fixpoint item_texts (x : item) : list str :=
  match x with
  | IVal s => [s]
  | IFun n a => n :: LP :: args_texts a ++ [RP]
  | IGrp g => LP :: flat_map item_texts g ++ [RP]
  | ISym s => [s]
  end.
Definition items_texts (l : list item) : list str := flat_map item_texts l.

(* source tokens with operands in their stored spelling *)
Definition tok_read (t : tok) : str := match t with TLeaf l => leaf_str l | _ => tok_src t end.

Lemma items_texts_app a b : items_texts (a ++ b) = items_texts a ++ items_texts b.
Proof. apply flat_map_app. Qed.

Lemma args_texts_params ps : args_texts (map leaf_str ps) = map tok_read (params_toks ps).
Proof.
  destruct ps as [|p ps]; [reflexivity|]. revert p.
  induction ps as [|q ps IH]; intros p; [reflexivity|].
  cbn [map args_texts params_toks flat_map app] in *. rewrite (IH q). reflexivity.
Qed.

Lemma args_texts_params_norm ps : args_texts (map leaf_str ps) = map tok_norm (params_toks ps).
Proof.
  destruct ps as [|p ps]; [reflexivity|]. revert p.
  induction ps as [|q ps IH]; intros p; [reflexivity|].
  cbn [map args_texts params_toks flat_map app] in *. rewrite (IH q). reflexivity.
Qed.

Lemma isrc_texts t : items_texts (isrc t) = map tok_read (src_toks t).
Proof.
  induction t as [l|n ps|x IH|sp x IH|x IH|x IH|o l IHl r IHr|op l IHl r IHr|sp l IHl r IHr|sp l IHl r IHr];
    cbn [isrc src_toks].
  - reflexivity.
  - unfold items_texts. cbn [flat_map item_texts]. rewrite app_nil_r, args_texts_params.
    cbn [map]. rewrite map_app. reflexivity.
  - unfold items_texts in *. cbn [flat_map item_texts]. rewrite app_nil_r, IH.
    cbn [map]. rewrite map_app. reflexivity.
  - unfold items_texts in *. cbn [flat_map item_texts map app]. rewrite IH. reflexivity.
  - unfold items_texts in *. cbn [flat_map item_texts map app]. rewrite IH. reflexivity.
  - unfold items_texts in *. cbn [flat_map item_texts map app]. rewrite IH. reflexivity.
  - rewrite items_texts_app, map_app, IHl. unfold items_texts in *. cbn [flat_map item_texts map app].
    rewrite IHr. reflexivity.
  - rewrite items_texts_app, map_app, IHl. unfold items_texts in *. cbn [flat_map item_texts map app].
    rewrite IHr. reflexivity.
  - rewrite items_texts_app, map_app, IHl. unfold items_texts in *. cbn [flat_map item_texts map app].
    rewrite IHr. reflexivity.
  - rewrite items_texts_app, map_app, IHl. unfold items_texts in *. cbn [flat_map item_texts map app].
    rewrite IHr. reflexivity.
Qed.

Lemma inorm_texts t : items_texts (inorm t) = map tok_norm (norm_toks t).
Proof.
  unfold norm_toks.
  induction t as [l|n ps|x IH|sp x IH|x IH|x IH|o l IHl r IHr|op l IHl r IHr|sp l IHl r IHr|sp l IHl r IHr];
    cbn [inorm norm_pieces].
  - reflexivity.
  - unfold items_texts, params_pieces. cbn [flat_map item_texts toks_of].
    rewrite toks_of_app, toks_of_map_PT, !app_nil_r, args_texts_params_norm.
    cbn [map toks_of]. rewrite map_app. cbn [app]. rewrite <- app_assoc. reflexivity.
  - destruct (in_parenthesis (norm x)); [assumption|].
    unfold items_texts in *. cbn [flat_map item_texts toks_of]. rewrite app_nil_r, IH, toks_of_app.
    cbn [map toks_of]. rewrite map_app. reflexivity.
  - unfold items_texts in *. cbn [flat_map item_texts toks_of map app]. rewrite IH. reflexivity.
  - unfold items_texts in *. cbn [flat_map item_texts toks_of map app]. rewrite IH. reflexivity.
  - assumption.
  - rewrite items_texts_app, toks_of_app, map_app, IHl. unfold items_texts in *.
    cbn [flat_map item_texts toks_of map app]. rewrite IHr. destruct o; reflexivity.
  - unfold items_texts in *. cbn [flat_map item_texts toks_of]. rewrite app_nil_r.
    rewrite flat_map_app, IHl. cbn [flat_map item_texts app]. rewrite IHr.
    rewrite toks_of_app. cbn [toks_of]. rewrite toks_of_app. cbn [toks_of map].
    repeat (progress (rewrite ?map_app, <- ?app_assoc; cbn [map app])). reflexivity.
  - unfold items_texts in *. cbn [flat_map item_texts toks_of]. rewrite app_nil_r.
    rewrite flat_map_app, IHl. cbn [flat_map item_texts app]. rewrite IHr.
    rewrite toks_of_app. cbn [toks_of]. rewrite toks_of_app. cbn [toks_of map].
    repeat (progress (rewrite ?map_app, <- ?app_assoc; cbn [map app])). reflexivity.
  - unfold items_texts in *. cbn [flat_map item_texts toks_of]. rewrite app_nil_r.
    rewrite flat_map_app, IHl. cbn [flat_map item_texts app]. rewrite IHr.
    rewrite toks_of_app. cbn [toks_of]. rewrite toks_of_app. cbn [toks_of map].
    repeat (progress (rewrite ?map_app, <- ?app_assoc; cbn [map app])). reflexivity.
Qed.

(* ---- the abstract expression a tree denotes *)
Definition mop_of (o : aop) : mop :=
  match o with Add => OAdd | Sub => OSub | Mul => OMul | Div => ODiv | Pow => OPow end.

Fixpoint abs (t : etree) : aexpr :=
  match t with
  | ELeaf l => AVal (leaf_str l)
  | EFunc n ps => AFun n (map leaf_str ps)
  | EGroup x => abs x
  | ENot _ x => ANot (abs x)
  | ENeg x => ANeg (abs x)
  | EPos x => abs x
  | EArith o l r => ABin (mop_of o) (abs l) (abs r)
  | ECmp op l r => ABin (OCmp op) (abs l) (abs r)
  | EAnd _ l r => ABin OAnd (abs l) (abs r)
  | EOr _ l r => ABin OOr (abs l) (abs r)
  end.

(* every operator spelling of the tree is the one MapServer's table gives it:
   in particular "%" is NOT accepted as a comparison operator *)
Fixpoint spell_ok (t : etree) : bool :=
  match t with
  | ELeaf _ | EFunc _ _ => true
  | EGroup x | ENeg x | EPos x => spell_ok x
  | ENot sp x => (match classify sp with ONot => true | _ => false end) && spell_ok x
  | EArith _ l r => spell_ok l && spell_ok r
  | ECmp op l r =>
      (match classify op with OCmp s => str_eqb s op | _ => false end) && spell_ok l && spell_ok r
  | EAnd sp l r => (match classify sp with OAnd => true | _ => false end) && spell_ok l && spell_ok r
  | EOr sp l r => (match classify sp with OOr => true | _ => false end) && spell_ok l && spell_ok r
  end.

Lemma classify_aop o : classify (aop_sym o) = mop_of o.
Proof. destruct o; reflexivity. Qed.

(* ---- the flat tree behind an expression tree: groups are operands *)
Fixpoint to_f (t : etree) : ftree :=
  match t with
  | ELeaf l => FAtom (AVal (leaf_str l))
  | EFunc n ps => FAtom (AFun n (map leaf_str ps))
  | EGroup x => FAtom (abs x)
  | ENot _ x => FNot (to_f x)
  | ENeg x => FNeg (to_f x)
  | EPos x => FPos (to_f x)
  | EArith o l r => FBin (mop_of o) (to_f l) (to_f r)
  | ECmp op l r => FBin (OCmp op) (to_f l) (to_f r)
  | EAnd _ l r => FBin OAnd (to_f l) (to_f r)
  | EOr _ l r => FBin OOr (to_f l) (to_f r)
  end.

Definition lvmap (n : nat) : nat := if (n <=? 1)%nat then n else S n.

Lemma to_f_flv t : flv (to_f t) = lvmap (level t).
Proof. destruct t as [| | | | | |o| | |]; try reflexivity. destruct o; reflexivity. Qed.

Lemma to_f_ends t : fends_not (to_f t) = ends_not t.
Proof. induction t; cbn; auto. Qed.

Lemma to_f_abs t : fabs (to_f t) = abs t.
Proof. induction t; cbn; congruence. Qed.

Lemma lvmap_le a b : (a <= b)%nat -> (lvmap a <= lvmap b)%nat.
Proof.
  unfold lvmap. intros H.
  destruct (a <=? 1)%nat eqn:Ea, (b <=? 1)%nat eqn:Eb;
    try apply Nat.leb_le in Ea; try apply Nat.leb_le in Eb;
    try apply Nat.leb_gt in Ea; try apply Nat.leb_gt in Eb; lia.
Qed.
Lemma lvmap_lt a b : (a < b)%nat -> (lvmap a < lvmap b)%nat.
Proof.
  unfold lvmap. intros H.
  destruct (a <=? 1)%nat eqn:Ea, (b <=? 1)%nat eqn:Eb;
    try apply Nat.leb_le in Ea; try apply Nat.leb_le in Eb;
    try apply Nat.leb_gt in Ea; try apply Nat.leb_gt in Eb; lia.
Qed.

Lemma bin_ok_f lv o l r :
  prec o = lvmap lv -> binop_ok o = true -> bin_ok lv l r = true ->
  fwf (to_f l) = true -> fwf (to_f r) = true ->
  fwf (FBin o (to_f l) (to_f r)) = true.
Proof.
  intros Hp Hb Hok Hl Hr. unfold bin_ok in Hok.
  rewrite !andb_true_iff in Hok. destruct Hok as [[H1 H2] H3].
  apply Nat.leb_le in H1. apply Nat.ltb_lt in H2.
  cbn [fwf]. rewrite Hl, Hr, Hb, !to_f_flv, to_f_ends, Hp. cbn [andb].
  rewrite (proj2 (Nat.leb_le _ _) (lvmap_le _ _ H1)), (proj2 (Nat.ltb_lt _ _) (lvmap_lt _ _ H2)).
  cbn [andb]. apply orb_true_iff in H3. apply orb_true_iff. destruct H3 as [H3|H3]; [left|right; assumption].
  apply Nat.ltb_lt in H3. apply Nat.ltb_lt. unfold lvmap.
  destruct (lv <=? 1)%nat eqn:E; [apply Nat.leb_le in E|apply Nat.leb_gt in E]; lia.
Qed.

Lemma to_f_wf t : wf t = true -> fwf (to_f t) = true.
Proof.
  induction t as [l|n ps|x IH|sp x IH|x IH|x IH|o l IHl r IHr|op l IHl r IHr|sp l IHl r IHr|sp l IHl r IHr];
    cbn [wf to_f]; intros H; try reflexivity.
  - apply andb_true_iff in H. destruct H as [H1 H2]. apply Nat.leb_le in H2.
    cbn [fwf]. rewrite IH, to_f_flv by assumption. cbn [andb]. apply Nat.leb_le.
    change 3%nat with (lvmap 2). apply lvmap_le. assumption.
  - apply andb_true_iff in H. destruct H as [H1 H2]. apply Nat.leb_le in H2.
    cbn [fwf]. rewrite IH, to_f_flv by assumption. cbn [andb]. apply Nat.leb_le.
    change 6%nat with (lvmap 5). apply lvmap_le. assumption.
  - apply andb_true_iff in H. destruct H as [H1 H2]. apply Nat.leb_le in H2.
    cbn [fwf]. rewrite IH, to_f_flv by assumption. cbn [andb]. apply Nat.leb_le.
    change 6%nat with (lvmap 5). apply lvmap_le. assumption.
  - rewrite !andb_true_iff in H. destruct H as [[H1 H2] H3].
    apply (bin_ok_f (aop_level o)); auto; destruct o; reflexivity.
  - rewrite !andb_true_iff in H. destruct H as [[H1 H2] H3].
    apply (bin_ok_f 2); auto.
  - rewrite !andb_true_iff in H. destruct H as [[H1 H2] H3].
    apply (bin_ok_f 1); auto.
  - rewrite !andb_true_iff in H. destruct H as [[H1 H2] H3].
    apply (bin_ok_f 0); auto.
Qed.

(* reading the source items of a well-formed tree gives the tree back *)
Lemma isrc_flat t :
  wf t = true -> spell_ok t = true -> map ev (isrc t) = fflat (to_f t).
Proof.
  induction t as [l|n ps|x IH|sp x IH|x IH|x IH|o l IHl r IHr|op l IHl r IHr|sp l IHl r IHr|sp l IHl r IHr];
    cbn [wf spell_ok isrc to_f fflat]; intros Hw Hs; try reflexivity.
  - cbn [map ev]. rewrite IH by assumption.
    rewrite read_flat_complete by (apply to_f_wf; assumption). rewrite to_f_abs. reflexivity.
  - apply andb_true_iff in Hw. destruct Hw as [Hw _].
    apply andb_true_iff in Hs. destruct Hs as [Hc Hs].
    cbn [map ev]. rewrite IH by assumption. destruct (classify sp); try discriminate. reflexivity.
  - apply andb_true_iff in Hw. destruct Hw as [Hw _].
    cbn [map ev]. rewrite IH by assumption. reflexivity.
  - apply andb_true_iff in Hw. destruct Hw as [Hw _].
    cbn [map ev]. rewrite IH by assumption. reflexivity.
  - rewrite !andb_true_iff in Hw. destruct Hw as [[H1 H2] _].
    apply andb_true_iff in Hs. destruct Hs as [Hs1 Hs2].
    rewrite map_app. cbn [map ev]. rewrite IHl, IHr, classify_aop by assumption. reflexivity.
  - rewrite !andb_true_iff in Hw. destruct Hw as [[H1 H2] _].
    rewrite !andb_true_iff in Hs. destruct Hs as [[Hc Hs1] Hs2].
    rewrite map_app. cbn [map ev]. rewrite IHl, IHr by assumption.
    destruct (classify op); try discriminate. apply str_eqb_eq in Hc. subst. reflexivity.
  - rewrite !andb_true_iff in Hw. destruct Hw as [[H1 H2] _].
    rewrite !andb_true_iff in Hs. destruct Hs as [[Hc Hs1] Hs2].
    rewrite map_app. cbn [map ev]. rewrite IHl, IHr by assumption.
    destruct (classify sp); try discriminate. reflexivity.
  - rewrite !andb_true_iff in Hw. destruct Hw as [[H1 H2] _].
    rewrite !andb_true_iff in Hs. destruct Hs as [[Hc Hs1] Hs2].
    rewrite map_app. cbn [map ev]. rewrite IHl, IHr by assumption.
    destruct (classify sp); try discriminate. reflexivity.
Qed.

Theorem read_source t : wf t = true -> spell_ok t = true -> read (isrc t) = abs t.
Proof.
  intros Hw Hs. unfold read. rewrite isrc_flat by assumption.
  rewrite read_flat_complete by (apply to_f_wf; assumption). apply to_f_abs.
Qed.

Lemma abs_ok t : spell_ok t = true -> aexpr_ok (abs t) = true.
Proof.
  induction t as [l|n ps|x IH|sp x IH|x IH|x IH|o l IHl r IHr|op l IHl r IHr|sp l IHl r IHr|sp l IHl r IHr];
    cbn [spell_ok abs aexpr_ok]; intros H; try reflexivity; auto.
  - apply andb_true_iff in H. destruct H. auto.
  - apply andb_true_iff in H. destruct H as [H1 H2]. rewrite IHl, IHr by assumption. destruct o; reflexivity.
  - rewrite !andb_true_iff in H. destruct H as [[H0 H1] H2]. rewrite IHl, IHr by assumption. reflexivity.
  - rewrite !andb_true_iff in H. destruct H as [[H0 H1] H2]. rewrite IHl, IHr by assumption. reflexivity.
  - rewrite !andb_true_iff in H. destruct H as [[H0 H1] H2]. rewrite IHl, IHr by assumption. reflexivity.
Qed.

(* ================================================================ D. the tree of the stored string *)
Lemma map_leaf_str_canon ps : map leaf_str (map canon_leaf ps) = map leaf_str ps.
Proof. induction ps as [|p ps IH]; [reflexivity|]. cbn. rewrite leaf_str_canon, IH. reflexivity. Qed.

Lemma inorm_renorm t : inorm t = isrc (renorm t).
Proof.
  induction t as [l|n ps|x IH|sp x IH|x IH|x IH|o l IHl r IHr|op l IHl r IHr|sp l IHl r IHr|sp l IHl r IHr];
    cbn [inorm renorm isrc].
  - rewrite leaf_str_canon. reflexivity.
  - rewrite map_leaf_str_canon. reflexivity.
  - destruct (in_parenthesis (norm x)); cbn [isrc]; congruence.
  - congruence.
  - congruence.
  - assumption.
  - congruence.
  - congruence.
  - congruence.
  - congruence.
Qed.

Lemma abs_renorm t : abs (renorm t) = abs t.
Proof.
  induction t as [l|n ps|x IH|sp x IH|x IH|x IH|o l IHl r IHr|op l IHl r IHr|sp l IHl r IHr|sp l IHl r IHr];
    cbn [renorm abs]; try congruence.
  - rewrite leaf_str_canon. reflexivity.
  - rewrite map_leaf_str_canon. reflexivity.
  - destruct (in_parenthesis (norm x)); cbn [abs]; assumption.
Qed.

Lemma spell_ok_renorm t : spell_ok t = true -> spell_ok (renorm t) = true.
Proof.
  induction t as [l|n ps|x IH|sp x IH|x IH|x IH|o l IHl r IHr|op l IHl r IHr|sp l IHl r IHr|sp l IHl r IHr];
    cbn [renorm spell_ok]; intros H; auto.
  - destruct (in_parenthesis (norm x)); cbn [spell_ok]; auto.
  - apply andb_true_iff in H. destruct H as [_ H]. cbn. auto.
  - apply andb_true_iff in H. destruct H as [H1 H2]. rewrite IHl, IHr by assumption. reflexivity.
  - rewrite !andb_true_iff in H. destruct H as [[H0 H1] H2].
    rewrite H0, IHl, IHr by assumption. reflexivity.
  - rewrite !andb_true_iff in H. destruct H as [[H0 H1] H2]. cbn.
    rewrite IHl, IHr by assumption. reflexivity.
  - rewrite !andb_true_iff in H. destruct H as [[H0 H1] H2]. cbn.
    rewrite IHl, IHr by assumption. reflexivity.
Qed.

(* the stored string of the stored string's tree is the stored string *)
Lemma norm_renorm t : norm (renorm t) = norm t.
Proof.
  induction t as [l|n ps|x IH|sp x IH|x IH|x IH|o l IHl r IHr|op l IHl r IHr|sp l IHl r IHr|sp l IHl r IHr];
    cbn [renorm norm].
  - apply leaf_str_canon.
  - rewrite b_expression_one. cbn [norm]. rewrite map_leaf_str_canon, in_par_func. reflexivity.
  - rewrite b_expression_one. destruct (in_parenthesis (norm x)) eqn:E.
    + assumption.
    + cbn [norm]. rewrite b_expression_one, IH, E. reflexivity.
  - rewrite IH. reflexivity.
  - rewrite IH. reflexivity.
  - assumption.
  - rewrite IHl, IHr. reflexivity.
  - rewrite b_expression_one. cbn [norm]. rewrite in_par_comparison, IHl, IHr. reflexivity.
  - rewrite b_expression_one. cbn [norm]. rewrite in_par_and, IHl, IHr. reflexivity.
  - rewrite b_expression_one. cbn [norm]. rewrite in_par_or, IHl, IHr. reflexivity.
Qed.

(* its source tokens are the stored string's tokens *)
Definition canon_tok (t : tok) : tok :=
  match t with
  | TLeaf l => TLeaf (canon_leaf l)
  | TNot _ => TNot (Str "NOT")
  | TAnd _ => TAnd (Str "AND")
  | TOr _ => TOr (Str "OR")
  | _ => t
  end.

Lemma canon_tok_text t : tok_src (canon_tok t) = tok_norm t.
Proof. destruct t; cbn; try reflexivity. apply leaf_src_canon. Qed.

Lemma params_toks_canon ps : params_toks (map canon_leaf ps) = map canon_tok (params_toks ps).
Proof.
  destruct ps as [|p ps]; [reflexivity|]. cbn [map params_toks]. f_equal.
  induction ps as [|q ps IH]; [reflexivity|]. cbn. rewrite IH. reflexivity.
Qed.

Lemma src_toks_renorm t : src_toks (renorm t) = map canon_tok (norm_toks t).
Proof.
  unfold norm_toks.
  induction t as [l|n ps|x IH|sp x IH|x IH|x IH|o l IHl r IHr|op l IHl r IHr|sp l IHl r IHr|sp l IHl r IHr];
    cbn [renorm src_toks norm_pieces].
  - reflexivity.
  - unfold params_pieces. cbn [toks_of]. rewrite toks_of_app, toks_of_map_PT, params_toks_canon.
    cbn [toks_of map]. rewrite map_app. cbn [map app]. rewrite <- app_assoc. reflexivity.
  - destruct (in_parenthesis (norm x)); [assumption|].
    cbn [src_toks toks_of]. rewrite toks_of_app, IH. cbn [toks_of map]. rewrite map_app. reflexivity.
  - cbn [toks_of map]. rewrite IH. reflexivity.
  - cbn [toks_of map]. rewrite IH. reflexivity.
  - assumption.
  - rewrite toks_of_app. cbn [toks_of]. rewrite map_app. cbn [map]. rewrite IHl, IHr. reflexivity.
  - cbn [toks_of]. rewrite toks_of_app. cbn [toks_of]. rewrite toks_of_app. cbn [toks_of].
    rewrite IHl, IHr.
    repeat (progress (rewrite ?map_app, <- ?app_assoc; cbn [map app])). reflexivity.
  - cbn [toks_of]. rewrite toks_of_app. cbn [toks_of]. rewrite toks_of_app. cbn [toks_of].
    rewrite IHl, IHr.
    repeat (progress (rewrite ?map_app, <- ?app_assoc; cbn [map app])). reflexivity.
  - cbn [toks_of]. rewrite toks_of_app. cbn [toks_of]. rewrite toks_of_app. cbn [toks_of].
    rewrite IHl, IHr.
    repeat (progress (rewrite ?map_app, <- ?app_assoc; cbn [map app])). reflexivity.
Qed.

(* ---- well-formedness of the stored string's tree needs the guard *)
Definition is_group (t : etree) : bool := match t with EGroup _ => true | _ => false end.

Lemma enclosed_renorm_group t :
  paren_safe t = true -> enclosed t = true -> is_group (renorm t) = true.
Proof.
  induction t as [l|n ps|x IH|sp x IH|x IH|x IH|o l IHl r IHr|op l IHl r IHr|sp l IHl r IHr|sp l IHl r IHr];
    cbn [enclosed paren_safe renorm]; intros Hp He; try discriminate; try reflexivity.
  destruct (in_parenthesis (norm x)) eqn:E; [|reflexivity].
  apply andb_true_iff in Hp. destruct Hp as [Hp Hq].
  rewrite orb_true_iff in Hq. destruct Hq as [Hq|Hq]; [|discriminate].
  apply IH; assumption.
Qed.

Lemma enclosed_renorm_level t :
  paren_safe t = true -> enclosed t = true -> level (renorm t) = 6%nat /\ ends_not (renorm t) = false.
Proof.
  induction t as [l|n ps|x IH|sp x IH|x IH|x IH|o l IHl r IHr|op l IHl r IHr|sp l IHl r IHr|sp l IHl r IHr];
    cbn [enclosed paren_safe renorm]; intros Hp He; try discriminate; try (split; reflexivity).
  destruct (in_parenthesis (norm x)) eqn:E; [|split; reflexivity].
  apply andb_true_iff in Hp. destruct Hp as [Hp Hq].
  rewrite orb_true_iff in Hq. destruct Hq as [Hq|Hq]; [|discriminate].
  apply IH; assumption.
Qed.

Lemma renorm_level t : wf t = true -> paren_safe t = true -> (level t <= level (renorm t))%nat.
Proof.
  induction t as [l|n ps|x IH|sp x IH|x IH|x IH|o l IHl r IHr|op l IHl r IHr|sp l IHl r IHr|sp l IHl r IHr];
    cbn [wf paren_safe renorm level]; intros Hw Hp; try lia.
  - destruct (in_parenthesis (norm x)) eqn:E; [|cbn; lia].
    apply andb_true_iff in Hp. destruct Hp as [Hp Hq].
    rewrite orb_true_iff in Hq. destruct Hq as [Hq|Hq]; [|discriminate].
    destruct (enclosed_renorm_level x Hp Hq) as [-> _]. lia.
  - apply andb_true_iff in Hw. destruct Hw as [Hw Hl]. apply Nat.leb_le in Hl.
    pose proof (IH Hw Hp). lia.
Qed.

Lemma renorm_ends t : paren_safe t = true -> ends_not (renorm t) = true -> ends_not t = true.
Proof.
  induction t as [l|n ps|x IH|sp x IH|x IH|x IH|o l IHl r IHr|op l IHl r IHr|sp l IHl r IHr|sp l IHl r IHr];
    cbn [paren_safe renorm ends_not]; intros Hp He; try discriminate; auto.
  - destruct (in_parenthesis (norm x)) eqn:E; [|discriminate].
    apply andb_true_iff in Hp. destruct Hp as [Hp Hq].
    rewrite orb_true_iff in Hq. destruct Hq as [Hq|Hq]; [|discriminate].
    destruct (enclosed_renorm_level x Hp Hq) as [_ F]. congruence.
  - apply andb_true_iff in Hp. destruct Hp as [_ Hp]. auto.
Qed.

Lemma bin_ok_renorm lv l r :
  wf l = true -> wf r = true -> paren_safe l = true -> paren_safe r = true ->
  bin_ok lv l r = true -> bin_ok lv (renorm l) (renorm r) = true.
Proof.
  intros Wl Wr Hl Hr H. unfold bin_ok in *. rewrite !andb_true_iff in H. destruct H as [[H1 H2] H3].
  apply Nat.leb_le in H1. apply Nat.ltb_lt in H2.
  pose proof (renorm_level l Wl Hl). pose proof (renorm_level r Wr Hr).
  rewrite (proj2 (Nat.leb_le _ _)) by lia. rewrite (proj2 (Nat.ltb_lt _ _)) by lia. cbn [andb].
  apply orb_true_iff in H3. apply orb_true_iff. destruct H3 as [H3|H3]; [left; assumption|right].
  apply negb_true_iff in H3. apply negb_true_iff.
  destruct (ends_not (renorm l)) eqn:E; [|reflexivity].
  apply renorm_ends in E; [congruence|assumption].
Qed.

Lemma wf_renorm t : wf t = true -> paren_safe t = true -> wf (renorm t) = true.
Proof.
  induction t as [l|n ps|x IH|sp x IH|x IH|x IH|o l IHl r IHr|op l IHl r IHr|sp l IHl r IHr|sp l IHl r IHr];
    cbn [wf paren_safe renorm]; intros Hw Hp.
  - reflexivity.
  - cbn [wf]. rewrite map_length. assumption.
  - apply andb_true_iff in Hp. destruct Hp as [Hp _].
    destruct (in_parenthesis (norm x)); cbn [wf]; auto.
  - apply andb_true_iff in Hw. destruct Hw as [Hw Hl]. apply Nat.leb_le in Hl.
    cbn [wf]. rewrite IH by assumption. cbn [andb]. apply Nat.leb_le.
    pose proof (renorm_level x Hw Hp). lia.
  - apply andb_true_iff in Hw. destruct Hw as [Hw Hl]. apply Nat.leb_le in Hl.
    cbn [wf]. rewrite IH by assumption. cbn [andb]. apply Nat.leb_le.
    pose proof (renorm_level x Hw Hp). lia.
  - apply andb_true_iff in Hw. destruct Hw as [Hw _]. auto.
  - rewrite !andb_true_iff in Hw. destruct Hw as [[H1 H2] H3].
    apply andb_true_iff in Hp. destruct Hp as [P1 P2].
    cbn [wf]. rewrite IHl, IHr, bin_ok_renorm by assumption. reflexivity.
  - rewrite !andb_true_iff in Hw. destruct Hw as [[H1 H2] H3].
    apply andb_true_iff in Hp. destruct Hp as [P1 P2].
    cbn [wf]. rewrite IHl, IHr, bin_ok_renorm by assumption. reflexivity.
  - rewrite !andb_true_iff in Hw. destruct Hw as [[H1 H2] H3].
    apply andb_true_iff in Hp. destruct Hp as [P1 P2].
    cbn [wf]. rewrite IHl, IHr, bin_ok_renorm by assumption. reflexivity.
  - rewrite !andb_true_iff in Hw. destruct Hw as [[H1 H2] H3].
    apply andb_true_iff in Hp. destruct Hp as [P1 P2].
    cbn [wf]. rewrite IHl, IHr, bin_ok_renorm by assumption. reflexivity.
Qed.

(* ================================================================ E. the theorems *)
(* reading the stored string gives the abstract tree of the source *)
Theorem read_stored t :
  wf t = true -> spell_ok t = true -> paren_safe t = true -> read (inorm t) = abs t.
Proof.
  intros Hw Hs Hp. rewrite inorm_renorm.
  rewrite read_source by (auto using wf_renorm, spell_ok_renorm). apply abs_renorm.
Qed.

Theorem no_regrouping_lemma t :
  wf t = true -> spell_ok t = true -> paren_safe t = true ->
  read (inorm t) = read (isrc t) /\ aexpr_ok (read (isrc t)) = true.
Proof.
  intros Hw Hs Hp. rewrite read_stored, read_source by assumption. split; [reflexivity|].
  apply abs_ok. assumption.
Qed.

(* ---- re-parsing at grammar level *)
(* a token list that is one parenthesised group: opens, never returns to depth
   0 before its last token, which closes it *)
Fixpoint grp_scan (d : nat) (l : list tok) : bool :=
  match l with
  | [] => false
  | TLP :: m => grp_scan (S d) m
  | TRP :: m => match d with
                | O => false
                | S O => match m with [] => true | _ => false end
                | S d' => grp_scan d' m
                end
  | _ :: m => grp_scan d m
  end.

Definition one_group (l : list tok) : bool :=
  match l with TLP :: m => grp_scan 1 m | _ => false end.

Lemma grp_scan_params ps d k : grp_scan d (params_toks ps ++ k) = grp_scan d k.
Proof.
  destruct ps as [|p ps]; [reflexivity|]. cbn [params_toks app grp_scan].
  induction ps as [|q ps IH]; [reflexivity|]. cbn [flat_map app grp_scan]. assumption.
Qed.

(* the source tokens of any tree are balanced and never dip below their start *)
Lemma grp_scan_src t : forall d k, k <> [] -> grp_scan (S d) (src_toks t ++ k) = grp_scan (S d) k.
Proof.
  induction t as [l|n ps|x IH|sp x IH|x IH|x IH|o l IHl r IHr|op l IHl r IHr|sp l IHl r IHr|sp l IHl r IHr];
    intros d k Hk; cbn [src_toks].
  - reflexivity.
  - cbn [app grp_scan]. rewrite <- app_assoc, grp_scan_params. cbn [app grp_scan].
    destruct k; [congruence|reflexivity].
  - cbn [app grp_scan]. rewrite <- app_assoc, IH by discriminate. cbn [app grp_scan].
    destruct k; [congruence|reflexivity].
  - cbn [app grp_scan]. apply IH; assumption.
  - cbn [app grp_scan]. apply IH; assumption.
  - cbn [app grp_scan]. apply IH; assumption.
  - rewrite <- app_assoc, IHl by discriminate. cbn [app grp_scan]. apply IHr; assumption.
  - rewrite <- app_assoc, IHl by discriminate. cbn [app grp_scan]. apply IHr; assumption.
  - rewrite <- app_assoc, IHl by discriminate. cbn [app grp_scan]. apply IHr; assumption.
  - rewrite <- app_assoc, IHl by discriminate. cbn [app grp_scan]. apply IHr; assumption.
Qed.

Lemma one_group_src x : one_group (src_toks (EGroup x)) = true.
Proof.
  cbn [src_toks one_group]. rewrite grp_scan_src by discriminate. reflexivity.
Qed.

(* a group whose stored string is the stored string of a group again *)
Lemma renorm_group t :
  is_group t = true -> paren_safe t = true -> is_group (renorm t) = true.
Proof.
  destruct t as [l|n ps|x|sp x|x|x|o l r|op l r|sp l r|sp l r]; try discriminate.
  intros _ Hp. cbn [paren_safe] in Hp. cbn [renorm].
  destruct (in_parenthesis (norm x)) eqn:E; [|reflexivity].
  apply andb_true_iff in Hp. destruct Hp as [Hp Hq].
  rewrite orb_true_iff in Hq. destruct Hq as [Hq|Hq]; [|discriminate].
  apply enclosed_renorm_group; assumption.
Qed.

Theorem reparse_lemma t :
  wf t = true -> paren_safe t = true ->
  exists t', src_toks t' = map canon_tok (norm_toks t)
             /\ map tok_src (src_toks t') = map tok_norm (norm_toks t)
             /\ wf t' = true /\ norm t' = norm t
             /\ (is_group t = true -> is_group t' = true).
Proof.
  intros Hw Hp. exists (renorm t). split; [apply src_toks_renorm|]. split.
  - rewrite src_toks_renorm, map_map. apply map_ext. apply canon_tok_text.
  - split; [apply wf_renorm; assumption|]. split; [apply norm_renorm|].
    intros Hg. apply renorm_group; assumption.
Qed.

(* without the guard: the witness of DESIGN.md 1.4 *)
Definition bnd (s : String.string) : etree := ELeaf (LBind (Str s)).
Arguments bnd s%string.
Definition int_ (s : String.string) (z : Z) : etree := ELeaf (LInt (Str s) z).
Arguments int_ s%string z%Z.

Definition W_textual : etree :=
  EGroup (EArith Mul (EGroup (EArith Add (bnd "a") (int_ "1" 1)))
                     (EGroup (EArith Add (bnd "b") (int_ "2" 2)))).

Theorem reparse_refuted_lemma :
  exists t, wf t = true /\ is_group t = true
            /\ norm t = Str "([a] + 1) * ([b] + 2)"
            /\ forall t', is_group t' = true -> src_toks t' <> map canon_tok (norm_toks t).
Proof.
  exists W_textual. split; [reflexivity|]. split; [reflexivity|]. split; [vm_compute; reflexivity|].
  intros t' Hg E. destruct t' as [l|n ps|x|sp x|x|x|o l r|op l r|sp l r|sp l r]; try discriminate.
  pose proof (one_group_src x) as H. rewrite E in H. vm_compute in H. discriminate.
Qed.

(* the same defect regroups when the group is an operand *)
Definition W_textual_regroup : etree :=
  EGroup (EArith Div (int_ "2" 2)
            (EGroup (EArith Mul (EGroup (EArith Add (bnd "a") (int_ "1" 1)))
                                (EGroup (EArith Add (bnd "b") (int_ "2" 2)))))).

Definition W_percent : etree :=
  EGroup (ECmp (Str "%") (ECmp (Str "=") (bnd "a") (int_ "1" 1)) (int_ "2" 2)).

Theorem no_regrouping_refuted_percent :
  wf W_percent = true /\ paren_safe W_percent = true
  /\ source W_percent = Str "( [a] = 1 % 2 )"
  /\ norm W_percent = Str "( ( [a] = 1 ) % 2 )"
  /\ read (inorm W_percent) <> read (isrc W_percent).
Proof. repeat split; try (vm_compute; reflexivity). vm_compute. discriminate. Qed.

Theorem no_regrouping_refuted_textual :
  wf W_textual_regroup = true /\ spell_ok W_textual_regroup = true
  /\ source W_textual_regroup = Str "( 2 / ( ( [a] + 1 ) * ( [b] + 2 ) ) )"
  /\ norm W_textual_regroup = Str "(2 / ([a] + 1) * ([b] + 2))"
  /\ read (inorm W_textual_regroup) <> read (isrc W_textual_regroup).
Proof. repeat split; try (vm_compute; reflexivity). vm_compute. discriminate. Qed.

(* "-" glued to its operand: the stored string of a double negation contains
   the single bare word "--..." where the tokens are "-" "-" *)
Theorem neg_glued_refuted :
  exists t, wf t = true /\ paren_safe t = true /\ spell_ok t = true /\ neg_safe t = false
            /\ norm t = Str "(--[a])" /\ map tok_norm (norm_toks t) = [LP; Str "-"; Str "-"; Str "[a]"; RP].
Proof. exists (EGroup (ENeg (ENeg (bnd "a")))). repeat split; vm_compute; reflexivity. Qed.

(* list elements: bindings lose their brackets *)
Theorem list_verbatim_refuted :
  exists l, leaf_src l = Str "{[a],[b]}" /\ leaf_str l = Str "{a,b}".
Proof. exists (LList [LEBind (Str "a"); LEBind (Str "b")]). split; vm_compute; reflexivity. Qed.

(* ---- leaves preserved, packaged *)
Theorem leaves_preserved_lemma t :
  norm t = flat (norm_pieces t)
  /\ unparen (norm_toks t) = drop_pos (unparen (src_toks t))
  /\ (forall k, spelling_ok k).
Proof. split; [apply norm_flat|]. split; [apply seq_preserved|apply spelling_all]. Qed.

(* under lists_ok every list operand is verbatim *)
Lemma lists_ok_leaf l : leaf_list_ok l = true -> (match l with LList _ => leaf_verbatim l = true | _ => True end).
Proof. destruct l; cbn; auto. Qed.

(* ================================================================ F. the printer *)
Section Printer.
  Variable lower upper : str -> str.

  Lemma escape_quotes_paren v : in_parenthesis v = true -> escape_quotes v = v.
  Proof.
    intros H. unfold escape_quotes.
    destruct (q_in_quotes v DQ) eqn:E; [|reflexivity]. exfalso.
    unfold in_parenthesis in H. unfold q_in_quotes in E.
    apply andb_true_iff in E. destruct E as [E _].
    apply andb_true_iff in H. destruct H as [H _].
    destruct v as [|c v]; [discriminate|]. cbn in E. apply andb_true_iff in E. destruct E as [E _].
    apply N.eqb_eq in E. subst c. unfold strip in H.
    rewrite lstrip_nonspace in H by reflexivity.
    (* the stripped string still starts with the quote *)
    assert (G : forall s, startswith (rev (lstrip (rev (34 :: s)))) LP = false).
    { intros s. cbn [rev].
      assert (K : forall a, exists b, rev (lstrip (a ++ [34])) = 34 :: b).
      { induction a as [|x a IH]; [exists []; reflexivity|].
        cbn [app lstrip]. destruct (is_space x); [apply IH|].
        exists (rev a ++ [x])%list. cbn [rev]. rewrite rev_app_distr. reflexivity. }
      destruct (K (rev s)) as [b Hb]. rewrite Hb. reflexivity. }
    rewrite G in H. discriminate.
  Qed.

  (* format_value leaves a parenthesised string unchanged in every slot whose
     schema entry is a oneOf / anyOf (or anything else that is neither an enum
     nor a plain string type) *)
  Theorem printer_lemma attr props v :
    jhas (Str "enum") props = false ->
    (match jget (Str "type") props with Some (JStr t) => str_eqb t (Str "string") | _ => false end) = false ->
    in_parenthesis v = true ->
    format_value_str lower upper attr props v = v.
  Proof.
    intros He Ht Hv. unfold format_value_str. rewrite He, Ht.
    destruct (jget (Str "oneOf") props) as [[]|]; try rewrite Hv; try (apply escape_quotes_paren; assumption).
    destruct (jget (Str "anyOf") props) as [[]|]; try rewrite Hv; apply escape_quotes_paren; assumption.
  Qed.
End Printer.

(* ================================================================ G. guards *)
Lemma spell_ok_percent_free t : spell_ok t = true -> percent_free t = true.
Proof.
  induction t as [l|n ps|x IH|sp x IH|x IH|x IH|o l IHl r IHr|op l IHl r IHr|sp l IHl r IHr|sp l IHl r IHr];
    cbn [spell_ok percent_free]; intros H; auto.
  - apply andb_true_iff in H. destruct H. auto.
  - apply andb_true_iff in H. destruct H as [H1 H2]. rewrite IHl, IHr by assumption. reflexivity.
  - rewrite !andb_true_iff in H. destruct H as [[H0 H1] H2]. rewrite IHl, IHr by assumption.
    destruct (str_eqb op PERCENT) eqn:E; [|reflexivity].
    apply str_eqb_eq in E. subst op. vm_compute in H0. discriminate.
  - rewrite !andb_true_iff in H. destruct H as [[H0 H1] H2]. rewrite IHl, IHr by assumption. reflexivity.
  - rewrite !andb_true_iff in H. destruct H as [[H0 H1] H2]. rewrite IHl, IHr by assumption. reflexivity.
Qed.

(* every spelling of the property's quantifier except "%" is accepted *)
Definition quantifier_cmp_spellings : list str :=
  [Str "="; Str "=="; Str "!="; Str "<"; Str "<="; Str ">"; Str ">="; Str "~"; Str "~*"; Str "=*";
   Str "IN"; Str "EQ"; Str "NE"; Str "LT"; Str "LE"; Str "GT"; Str "GE"; Str "LIKE";
   Str "in"; Str "eq"; Str "ne"; Str "lt"; Str "le"; Str "gt"; Str "ge"; Str "like"; Str "Like"].

Lemma quantifier_spellings_ok :
  forallb (fun op => spell_ok (ECmp op (bnd "a") (bnd "b"))) quantifier_cmp_spellings = true
  /\ forallb (fun sp => spell_ok (EAnd sp (bnd "a") (bnd "b"))) [Str "AND"; Str "and"; Str "And"; Str "&&"] = true
  /\ forallb (fun sp => spell_ok (EOr sp (bnd "a") (bnd "b"))) [Str "OR"; Str "or"; Str "||"] = true
  /\ forallb (fun sp => spell_ok (ENot sp (bnd "a"))) [Str "NOT"; Str "not"; Str "!"] = true.
Proof. repeat split; vm_compute; reflexivity. Qed.

(* ================================================================ H. slots and example *)
Definition expression_slots : list (str * str) :=
  [(Str "class", Str "expression"); (Str "layer", Str "filter"); (Str "class", Str "text");
   (Str "style", Str "geomtransform"); (Str "cluster", Str "group"); (Str "cluster", Str "filter");
   (Str "label", Str "expression"); (Str "label", Str "text"); (Str "layer", Str "geomtransform")].

Definition slot_guard (p : json) : bool :=
  negb (jhas (Str "enum") p)
  && negb (match jget (Str "type") p with Some (JStr t) => str_eqb t (Str "string") | _ => false end).


Lemma printer_guard_lemma lower upper :
  forall (attr : str) (props : json) (v : str),
    slot_guard props = true -> in_parenthesis v = true ->
    format_value_str lower upper attr props v = v.
Proof.
  intros attr props v Hg Hv. unfold slot_guard in Hg.
  apply andb_true_iff in Hg. destruct Hg as [H1 H2].
  apply negb_true_iff in H1. apply negb_true_iff in H2.
  exact (printer_lemma lower upper attr props v H1 H2 Hv).
Qed.

Lemma printer_slots_lemma :
  forallb (fun s => match attribute_properties (fst s) (snd s) with
                    | Some p => slot_guard p
                    | None => false
                    end) expression_slots = true.
Proof. vm_compute. reflexivity. Qed.

Definition ex_tree : etree :=
  EGroup (EOr (Str "||")
            (EAnd (Str "&&")
               (ECmp (Str ">") (bnd "a") (EArith Add (int_ "007" 7) (EArith Mul (int_ "2" 2) (ENeg (bnd "b")))))
               (ENot (Str "!") (ECmp (Str "eq") (EFunc (Str "length") [LBind (Str "n")]) (int_ "3" 3))))
            (EGroup (ECmp (Str "~") (bnd "c") (ELeaf (LVerb (Str "/x/")))))).


(* ================================================================ I. numerals *)
Section Numerals.
Open Scope N_scope.

Lemma nat_of_digits_digit a d s : d < 10 -> nat_of_digits a ((48 + d) :: s) = nat_of_digits (10 * a + d) s.
Proof.
  intros H. cbn [nat_of_digits]. unfold is_digit.
  replace ((48 <=? 48 + d) && (48 + d <=? 57)) with true.
  - f_equal. lia.
  - symmetry. apply andb_true_iff. split; apply N.leb_le; lia.
Qed.

Lemma digits_fuel_S f n acc :
  digits_fuel (S f) n acc
  = if n <? 10 then (48 + n mod 10) :: acc else digits_fuel f (n / 10) ((48 + n mod 10) :: acc).
Proof. reflexivity. Qed.

Lemma digits_fuel_value : forall f n acc,
  n < 2 ^ N.of_nat f -> nat_of_digits 0 (digits_fuel (S f) n acc) = nat_of_digits n acc.
Proof.
  induction f as [|f IH]; intros n acc Hn.
  - cbn in Hn. assert (n = 0) by lia. subst. reflexivity.
  - rewrite digits_fuel_S. destruct (n <? 10) eqn:E.
    + apply N.ltb_lt in E. rewrite nat_of_digits_digit by (apply N.mod_lt; lia).
      rewrite N.mod_small by assumption. f_equal.
    + apply N.ltb_ge in E. rewrite IH.
      * rewrite nat_of_digits_digit by (apply N.mod_lt; lia). f_equal.
        rewrite (N.div_mod n 10) at 3 by lia. reflexivity.
      * rewrite Nat2N.inj_succ, N.pow_succ_r' in Hn.
        apply N.div_lt_upper_bound; lia.
Qed.

Definition digit_head (s : str) : Prop := exists c rest, s = c :: rest /\ 48 <= c /\ c <= 57.

Lemma digits_fuel_head_acc : forall f n d acc,
  48 <= d -> d <= 57 -> digit_head (digits_fuel f n (d :: acc)).
Proof.
  induction f as [|f IH]; intros n d acc H1 H2.
  - exists d, acc. auto.
  - rewrite digits_fuel_S. assert (Hm : n mod 10 < 10) by (apply N.mod_lt; discriminate).
    destruct (n <? 10).
    + exists (48 + n mod 10), (d :: acc). repeat split; try reflexivity; set (m := n mod 10) in *; clearbody m; lia.
    + set (m := n mod 10) in *; clearbody m. apply IH; lia.
Qed.

Lemma digits_of_N_head n : digit_head (digits_of_N n).
Proof.
  unfold digits_of_N. rewrite digits_fuel_S. assert (Hm : n mod 10 < 10) by (apply N.mod_lt; discriminate).
  destruct (n <? 10).
  - exists (48 + n mod 10), []. repeat split; try reflexivity; set (m := n mod 10) in *; clearbody m; lia.
  - set (m := n mod 10) in *; clearbody m. apply digits_fuel_head_acc; lia.
Qed.

Lemma digits_of_N_value n : nat_of_digits 0 (digits_of_N n) = n.
Proof.
  unfold digits_of_N. rewrite digits_fuel_value; [reflexivity|].
  rewrite N2Nat.id. apply N.size_gt.
Qed.

Lemma split_sign_digit s : digit_head s -> split_sign s = (false, s).
Proof.
  intros (c & rest & -> & H1 & H2). unfold split_sign.
  destruct (N.eqb_spec c 45); [lia|]. destruct (N.eqb_spec c 43); [lia|]. reflexivity.
Qed.

(* int(str(z)) = z: the stored numeral denotes the value it was printed from *)
Theorem int_roundtrip z : int_of_lit (py_int_repr z) = z.
Proof.
  destruct z as [|p|p]; [reflexivity| |].
  - unfold int_of_lit, py_int_repr. rewrite split_sign_digit by apply digits_of_N_head.
    rewrite digits_of_N_value. reflexivity.
  - unfold int_of_lit, py_int_repr.
    change (split_sign (Str "-" ++ digits_of_N (N.pos p))) with (true, digits_of_N (N.pos p)).
    cbv beta iota. rewrite digits_of_N_value. reflexivity.
Qed.

Lemma canon_int_lit_ok sp z : leaf_lit_ok (canon_leaf (LInt sp z)) = true.
Proof. cbn. rewrite int_roundtrip. apply Z.eqb_refl. Qed.
End Numerals.
