(* The quote option.  For a dictionary none of whose strings contains a quote
   character (doc_qf: keys, string values, comments; values printed between
   quotes are scalars; coordinate lists are numbers), printing with the other
   quote character prints the abstract document with the two quote characters
   exchanged - so the reader of Spec/Reader.v reads the same tokens, up to the
   quote character inside verbatim groups. *)
From MF Require Import Lib.Base Lib.PyDict Lib.Json Gen.Tokens Gen.Unicode Model.Case Model.SchemaStore
  Model.Quoter Model.PPrint Spec.Layout Spec.Reader Proofs.CaseFacts Proofs.PPrintFacts Proofs.C16 Proofs.C16Breaks
  Proofs.C03 Proofs.PrintU_Pure Proofs.PrintU_Abs Proofs.PrintU_Read Proofs.PrintU_Swap.
Open Scope nat_scope.

(* ------------------------------------------------------------ quote-free strings *)
Notation QF s := (qf s = true).

Lemma qf_app a b : qf (a ++ b) = qf a && qf b.
Proof. apply forallb_app. Qed.

Lemma qf_app_intro a b : QF a -> QF b -> QF (a ++ b).
Proof. intros Ha Hb. rewrite qf_app, Ha, Hb. reflexivity. Qed.

Lemma qf_cons c s : is_quote c = false -> QF s -> QF (c :: s).
Proof. intros Hc Hs. unfold qf. cbn [forallb]. rewrite Hc. exact Hs. Qed.

Lemma qf_repeat s n : QF s -> QF (repeat_str s n).
Proof. intros H. induction n as [|n IH]; [reflexivity|]. cbn [repeat_str]. apply qf_app_intro; assumption. Qed.

Lemma qf_join sep l : QF sep -> Forall (fun s => QF s) l -> QF (join sep l).
Proof.
  intros Hs H. induction H as [|x l Hx Hl IH]; [reflexivity|]. cbn [join].
  destruct l; [exact Hx|]. apply qf_app_intro; [exact Hx|apply qf_app_intro; assumption].
Qed.

Lemma qf_flat_map (f : N -> list N) s :
  (forall c, is_quote c = false -> QF (f c)) -> QF s -> QF (flat_map f s).
Proof.
  intros Hf. induction s as [|c s IH]; [reflexivity|]. unfold qf at 1. cbn [forallb flat_map].
  intros H. apply andb_true_iff in H. destruct H as [Hc Hs]. apply negb_true_iff in Hc.
  apply qf_app_intro; [apply Hf; exact Hc|apply IH; exact Hs].
Qed.

Lemma qf_of_Forall (P : N -> Prop) s :
  (forall c, P c -> is_quote c = false) -> Forall P s -> QF s.
Proof.
  intros HP H. unfold qf. apply forallb_forall. intros c Hc. apply negb_true_iff. apply HP.
  rewrite Forall_forall in H. apply H. exact Hc.
Qed.

Lemma qf_firstn n s : QF s -> QF (firstn n s).
Proof.
  revert n; induction s as [|c s IH]; intros [|n] H; cbn [firstn]; try reflexivity.
  unfold qf in *. cbn [forallb] in *. apply andb_true_iff in H. destruct H as [Hc Hs].
  rewrite Hc. apply IH. exact Hs.
Qed.

Lemma qf_skipn n s : QF s -> QF (skipn n s).
Proof.
  revert n; induction s as [|c s IH]; intros [|n] H; cbn [skipn]; try reflexivity; try exact H.
  unfold qf in H. cbn [forallb] in H. apply andb_true_iff in H. apply IH. tauto.
Qed.

Lemma qf_rev s : QF s -> QF (rev s).
Proof.
  unfold qf. rewrite !forallb_forall. intros H c Hc. apply H. apply in_rev. exact Hc.
Qed.

Lemma qf_lstrip s : QF s -> QF (lstrip s).
Proof.
  induction s as [|c s IH]; [reflexivity|]. intros H. cbn [lstrip]. destruct (is_space c); [|exact H].
  apply IH. unfold qf in H. cbn [forallb] in H. apply andb_true_iff in H. tauto.
Qed.

Lemma qf_py_strip s : QF s -> QF (py_strip s).
Proof. intros H. unfold py_strip. apply qf_rev, qf_lstrip, qf_rev, qf_lstrip. exact H. Qed.

(* upper *)
Definition upper_table_qf : bool := forallb (fun e => qf (snd e)) upper_table.
Lemma upper_table_qf_ok : upper_table_qf = true.
Proof. vm_compute. reflexivity. Qed.

Lemma qf_upper_cp c : is_quote c = false -> QF (upper_cp c).
Proof.
  intros Hc. unfold upper_cp, case_cp. destruct (c <? 128)%N.
  - unfold upper_ascii. destruct ((97 <=? c) && (c <=? 122))%N eqn:E.
    + apply andb_true_iff in E. destruct E as [E1 E2]. apply N.leb_le in E1, E2.
      unfold qf. cbn [forallb]. unfold is_quote.
      destruct (N.eqb_spec (c - 32) 34); [lia|]. destruct (N.eqb_spec (c - 32) 39); [lia|]. reflexivity.
    + unfold qf. cbn [forallb]. rewrite Hc. reflexivity.
  - destruct (lookup_cp c upper_table) as [img|] eqn:L.
    + apply lookup_cp_In in L. pose proof upper_table_qf_ok as H. unfold upper_table_qf in H.
      rewrite forallb_forall in H. apply (H _ L).
    + unfold qf. cbn [forallb]. rewrite Hc. reflexivity.
Qed.

Lemma qf_upper s : QF s -> QF (upper s).
Proof. apply qf_flat_map. exact qf_upper_cp. Qed.

(* numbers *)
Lemma digit_qf c : digit c -> is_quote c = false.
Proof.
  unfold digit, is_quote. intros H.
  destruct (N.eqb_spec c 34); [lia|]. destruct (N.eqb_spec c 39); [lia|]. reflexivity.
Qed.

Lemma qf_digits n : QF (digits_N n).
Proof. apply (qf_of_Forall digit); [exact digit_qf|apply digits_N_digits]. Qed.

Lemma qf_py_str_int z : QF (py_str_int z).
Proof.
  destruct z; cbn [py_str_int]; [reflexivity|apply qf_digits|].
  apply qf_cons; [reflexivity|apply qf_digits].
Qed.

Lemma qf_zeros n : QF (zeros n).
Proof. apply qf_repeat. reflexivity. Qed.

Lemma qf_py_float_repr m e : QF (py_float_repr m e).
Proof.
  unfold py_float_repr.
  pose proof (qf_digits (Z.abs_N m)) as Hd.
  set (ds := digits_N (Z.abs_N m)) in *.
  set (n := Z.of_nat (length ds)). set (decpt := (n + e)%Z).
  set (sign := if (m <? 0)%Z then [45%N] else []).
  assert (Hs : QF sign) by (unfold sign; destruct (m <? 0)%Z; reflexivity).
  destruct (m =? 0)%Z; [reflexivity|].
  destruct ((decpt <=? -4)%Z || (16 <? decpt)%Z)%bool.
  - apply qf_app_intro; [exact Hs|]. apply qf_app_intro.
    + destruct ds as [|d rest]; [reflexivity|].
      unfold qf in Hd. cbn [forallb] in Hd. apply andb_true_iff in Hd. destruct Hd as [H1 H2].
      unfold qf. cbn [forallb]. rewrite H1. destruct rest; [reflexivity|].
      apply (qf_cons 46%N); [reflexivity|exact H2].
    + apply qf_app_intro; [reflexivity|].
      apply qf_app_intro; [destruct (decpt - 1 <? 0)%Z; reflexivity|].
      pose proof (qf_digits (Z.abs_N (decpt - 1))) as Hx.
      destruct (digits_N (Z.abs_N (decpt - 1))) as [|a [|b r]]; exact Hx.
  - destruct (decpt <=? 0)%Z.
    + apply qf_app_intro; [exact Hs|]. apply qf_app_intro; [reflexivity|].
      apply qf_app_intro; [apply qf_zeros|exact Hd].
    + destruct (n <=? decpt)%Z.
      * apply qf_app_intro; [exact Hs|]. apply qf_app_intro; [exact Hd|].
        apply qf_app_intro; [apply qf_zeros|reflexivity].
      * apply qf_app_intro; [exact Hs|]. apply qf_app_intro; [apply qf_firstn; exact Hd|].
        apply qf_app_intro; [reflexivity|apply qf_skipn; exact Hd].
Qed.

(* scalars *)
Definition scalar_qf (v : value) : bool :=
  match v with
  | VNone | VBool _ | VInt _ | VFloat _ _ => true
  | VStr s => qf s
  | _ => false
  end.

Lemma qf_py_str_scalar v : scalar_qf v = true -> QF (py_str v).
Proof.
  destruct v as [|b|z|m e|s|l|c its]; cbn [scalar_qf py_str py_repr]; intros H; try discriminate H.
  - reflexivity.
  - destruct b; reflexivity.
  - apply qf_py_str_int.
  - apply qf_py_float_repr.
  - exact H.
Qed.

(* ------------------------------------------------------------ exchanging the quotes in quoted pieces *)
Lemma sw_quote q : is_quote q = true -> is_quote (sw q) = true.
Proof. rewrite is_quote_sw. tauto. Qed.

Lemma sws_add_quotes q s : QF s -> sws (add_quotes q s) = add_quotes (sw q) s.
Proof.
  intros H. unfold add_quotes, _add_quotes. cbn [sws map]. fold (sws (s ++ [q])).
  rewrite sws_app, (sws_qf s H). reflexivity.
Qed.

Lemma qf_not_q q s : is_quote q = true -> QF s -> forallb (fun c => negb (N.eqb c q)) s = true.
Proof.
  intros Hq H. unfold qf in H. rewrite forallb_forall in *. intros c Hc. specialize (H c Hc).
  apply negb_true_iff in H. apply negb_true_iff. destruct (N.eqb_spec c q) as [->|]; [congruence|reflexivity].
Qed.

Lemma esc_qf q X : is_quote q = true -> QF X -> escape_quotes_s q X = X.
Proof.
  intros Hq H. apply escape_quotes_other. destruct X as [|c X]; [reflexivity|].
  apply not_in_quotes_head. unfold qf in H. cbn [forallb] in H. apply andb_true_iff in H. destruct H as [Hc _].
  apply negb_true_iff in Hc. destruct (N.eqb_spec c q) as [->|]; [congruence|reflexivity].
Qed.

Lemma esc_add q s : is_quote q = true -> QF s -> escape_quotes_s q (add_quotes q s) = add_quotes q s.
Proof. intros Hq H. apply escape_quotes_add. apply qf_not_q; assumption. Qed.

(* a text that is either quote-free and the same for both quotes, or a
   quote-free string between the chosen quotes *)
Definition qtext (q : N) (X X' : str) : Prop :=
  (QF X /\ X' = X) \/ (exists s, QF s /\ X = add_quotes q s /\ X' = add_quotes (sw q) s).

Lemma qtext_sws q X X' : qtext q X X' -> X' = sws X.
Proof.
  intros [[H ->]|(s & Hs & -> & ->)]; [symmetry; apply sws_qf; exact H|].
  symmetry. apply sws_add_quotes. exact Hs.
Qed.

Lemma qtext_esc q X X' :
  is_quote q = true -> qtext q X X' -> escape_quotes_s (sw q) X' = sws (escape_quotes_s q X).
Proof.
  intros Hq [[H ->]|(s & Hs & -> & ->)].
  - rewrite (esc_qf (sw q) X (sw_quote q Hq) H), (esc_qf q X Hq H). symmetry. apply sws_qf. exact H.
  - rewrite (esc_add (sw q) s (sw_quote q Hq) Hs), (esc_add q s Hq Hs). symmetry. apply sws_add_quotes. exact Hs.
Qed.

(* ------------------------------------------------------------ format_value *)
Section FV.
  Variables (q : N) (sct : bool).
  Hypothesis Hq : is_quote q = true.
  Notation q' := (sw q).

  Lemma loop_swap options s :
    QF s ->
    match check_options_loop (oc q sct) options s, check_options_loop (oc q' sct) options s with
    | Some r, Some r' => qtext q r r'
    | None, None => True
    | _, _ => False
    end.
  Proof.
    intros Hs. induction options as [|op rest IH]; [exact I|].
    cbn [check_options_loop]. cbn [quote oc].
    destruct (jhas (Str "enum") (deref op) && jenum_has (deref op) (lower s)).
    - destruct (str_eqb (lower s) (Str "end")).
      + right. exists s. repeat split. exact Hs.
      + left. split; [apply qf_upper; exact Hs|reflexivity].
    - destruct (is_expression (deref op) && ends_ci_flag s); [|exact IH].
      left. split; [exact Hs|reflexivity].
  Qed.

  Lemma oneof_swap attr options s :
    QF s -> qtext q (oneof_text (oc q sct) attr options s) (oneof_text (oc q' sct) attr options s).
  Proof.
    intros Hs. unfold oneof_text.
    destruct (in_parenthesis s); [left; split; [exact Hs|reflexivity]|].
    destruct (str_eqb attr (Str "expression") && in_braces s); [left; split; [exact Hs|reflexivity]|].
    destruct (negb (str_eqb attr (Str "text")) && in_brackets s); [left; split; [exact Hs|reflexivity]|].
    destruct (startswith s (Str "NOT ") && in_parenthesis (skipn 4 s)).
    { left. split; [|reflexivity]. apply qf_app_intro; [reflexivity|apply qf_skipn; exact Hs]. }
    unfold check_options_list. pose proof (loop_swap options s Hs) as HL.
    destruct (check_options_loop (oc q sct) options s) as [r|], (check_options_loop (oc q' sct) options s) as [r'|];
      try contradiction; [exact HL|].
    cbn [quote oc]. destruct (in_slashes s); [left; split; [exact Hs|reflexivity]|].
    right. exists s. repeat split. exact Hs.
  Qed.

  Definition list_shape_ok (props : json) : bool :=
    match pshape_of props with PSOneOf _ | PSFall => true | _ => false end.

  (* values of keyword attributes covered by the theorem *)
  Definition attr_val_ok (props : json) (v : value) : bool :=
    match v with
    | VBool _ | VInt _ | VFloat _ _ => true
    | VStr s => qf s
    | VList l => forallb scalar_qf l && list_shape_ok props
    | _ => false
    end.

  Lemma qle_swap attr v :
    scalar_qf v = true -> quote_list_element (oc q' sct) attr v = sws (quote_list_element (oc q sct) attr v).
  Proof.
    intros Hv. unfold quote_list_element. cbn [quote oc]. pose proof (qf_py_str_scalar v Hv) as Hp.
    destruct (negb (is_number v) && negb (mem_str attr [Str "offset"; Str "polaroffset"])).
    - unfold add_quotes_v. symmetry. apply sws_add_quotes. exact Hp.
    - symmetry. apply sws_qf. exact Hp.
  Qed.

  Lemma fv_text_swap attr props v :
    attr_val_ok props v = true ->
    rmap py_str (format_value (oc q' sct) attr props v)
    = rmap (fun w => sws (py_str w)) (format_value (oc q sct) attr props v).
  Proof.
    intros Hv. destruct v as [|b|z|m e|s|l|c its]; cbn [attr_val_ok] in Hv; try discriminate Hv.
    - rewrite !format_value_bool. cbn [rmap py_str]. destruct b; reflexivity.
    - rewrite !format_value_num by reflexivity. cbn [quote oc].
      pose proof (qf_py_str_scalar (VInt z) eq_refl) as Hp.
      destruct (pshape_of props) as [|[|]|options|]; cbn [rmap py_str]; try reflexivity;
        try (f_equal; symmetry; apply (sws_qf _ Hp)).
      f_equal. symmetry. apply sws_add_quotes. exact Hp.
    - rewrite !format_value_num by reflexivity. cbn [quote oc].
      pose proof (qf_py_str_scalar (VFloat m e) eq_refl) as Hp.
      destruct (pshape_of props) as [|[|]|options|]; cbn [rmap py_str]; try reflexivity;
        try (f_equal; symmetry; apply (sws_qf _ Hp)).
      f_equal. symmetry. apply sws_add_quotes. exact Hp.
    - rewrite !format_value_str. cbn [quote oc].
      destruct (pshape_of props) as [|[|]|options|]; cbn [rmap py_str].
      + destruct (str_eqb attr (Str "compop")); f_equal; symmetry;
          [apply sws_add_quotes; exact Hv|apply sws_qf, qf_upper; exact Hv].
      + destruct (in_slashes s); [cbn [rmap py_str]; f_equal; symmetry; apply sws_qf; exact Hv|].
        destruct (ends_ci_flag s); cbn [rmap py_str]; f_equal; symmetry;
          [apply sws_qf; exact Hv|apply sws_add_quotes; exact Hv].
      + f_equal. symmetry. apply sws_add_quotes. exact Hv.
      + f_equal. apply qtext_esc; [exact Hq|]. apply oneof_swap. exact Hv.
      + f_equal. rewrite (esc_qf q' s (sw_quote q Hq) Hv), (esc_qf q s Hq Hv). symmetry. apply sws_qf. exact Hv.
    - apply andb_true_iff in Hv. destruct Hv as [Hl Hsh]. unfold list_shape_ok in Hsh.
      rewrite !format_value_list.
      destruct (pshape_of props) as [|[|]|options|]; try discriminate Hsh; cbn [rmap py_str]; f_equal;
        (rewrite sws_join; cbn [sws map]; f_equal; rewrite map_map; apply map_ext_in; intros x Hx;
         apply qle_swap; rewrite forallb_forall in Hl; apply Hl; exact Hx).
  Qed.
End FV.

(* ------------------------------------------------------------ comments *)
Definition cvalue_qf (v : value) : bool :=
  match v with
  | VStr s => qf s
  | VList l => forallb (fun x => match x with VStr s => qf s | _ => false end) l
  | VDict (DCI false) [] => true                  (* the auto-created value *)
  | _ => false
  end.

Definition comments_qf (comments : value) : bool :=
  match comments with VDict _ its => forallb (fun kv => cvalue_qf (snd kv)) its | _ => false end.

Lemma getitem_cvalue comments k v :
  comments_qf comments = true -> val_getitem comments k = Ok v -> cvalue_qf v = true.
Proof.
  destruct comments as [| | | | | |c its]; try discriminate. cbn [comments_qf val_getitem]. intros Hc H.
  unfold dict_getitem, dict_getitem_g in H. destruct (assoc (kfold_item c k) its) as [a|] eqn:E.
  - injection H as <-. apply assoc_Some_in in E. rewrite forallb_forall in Hc. apply (Hc _ E).
  - destruct (has_factory c); [|discriminate]. injection H as <-. unfold autocreated.
    destruct (mem_str (kfold_item c k) OBJECT_LIST_KEYS); reflexivity.
Qed.

Definition comment_parts (v : value) : list str :=
  match v with VList l => map py_str l | _ => [py_str v] end.

Lemma comment_parts_qf v : cvalue_qf v = true -> map sws (comment_parts v) = comment_parts v.
Proof.
  intros H. destruct v as [| | | |s|l|c its]; cbn [cvalue_qf] in H; try discriminate H; cbn [comment_parts].
  - cbn [map py_str]. rewrite (sws_qf s H). reflexivity.
  - rewrite map_map. apply map_ext_in. intros x Hx. rewrite forallb_forall in H. specialize (H x Hx).
    destruct x; try discriminate H. cbn [py_str]. apply sws_qf. exact H.
  - destruct c as [|f|f]; try discriminate H. destruct f; [discriminate H|]. destruct its; [|discriminate H].
    reflexivity.
Qed.

Lemma swap_doc_app A B : swap_doc (A ++ B) = swap_doc A ++ swap_doc B.
Proof. apply map_app. Qed.

Lemma swap_doc_concat Ls : swap_doc (concat Ls) = concat (map swap_doc Ls).
Proof. unfold swap_doc. apply concat_map. Qed.

Lemma type_comment_fix level comments tc :
  comments_qf comments = true -> a_type_comment level comments = Ok tc -> swap_doc tc = tc.
Proof.
  intros Hc H. unfold a_type_comment in H.
  destruct (val_contains comments (Str "__type__")) as [present|e]; cbn [bind] in H; [|discriminate].
  destruct present; cbn [negb] in H; [|injection H as <-; reflexivity].
  destruct (val_getitem comments (Str "__type__")) as [v|e] eqn:Ev; cbn [bind] in H; [|discriminate].
  pose proof (comment_parts_qf v (getitem_cvalue comments _ v Hc Ev)) as Hp.
  assert (E : tc = [AComments (level + 0) (comment_parts v)]).
  { destruct v; injection H as <-; reflexivity. }
  subst tc. cbn [swap_doc map swap_aline]. rewrite Hp. reflexivity.
Qed.

Lemma join_values_qf l j :
  forallb (fun x => match x with VStr s => qf s | _ => false end) l = true ->
  join_values [c_sp] l = Ok j -> QF j.
Proof.
  revert j; induction l as [|x l IH]; intros j Hl H; [injection H as <-; reflexivity|].
  cbn [forallb] in Hl. apply andb_true_iff in Hl. destruct Hl as [Hx Hl].
  destruct x as [| | | |s| |]; try discriminate Hx. cbn [join_values] in H.
  destruct l as [|y l]; [injection H as <-; exact Hx|].
  destruct (join_values [c_sp] (y :: l)) as [r|e]; cbn [bind] in H; [|discriminate]. injection H as <-.
  apply qf_app_intro; [exact Hx|]. apply (qf_cons c_sp); [reflexivity|]. apply IH; [exact Hl|reflexivity].
Qed.

Lemma attribute_comment_qf comments k cm :
  comments_qf comments = true -> process_attribute_comment comments k = Ok cm -> QF cm.
Proof.
  intros Hc H. unfold process_attribute_comment in H.
  destruct (val_contains comments k) as [present|e]; cbn [bind] in H; [|discriminate].
  destruct present; cbn [negb] in H; [|injection H as <-; reflexivity].
  destruct (val_getitem comments k) as [v|e] eqn:Ev; cbn [bind] in H; [|discriminate].
  pose proof (getitem_cvalue comments k v Hc Ev) as Hv.
  destruct v as [| | | |s|l|c its]; cbn [cvalue_qf] in Hv; try discriminate Hv.
  - injection H as <-. unfold format_comment. cbn [py_str]. apply qf_app_intro; [reflexivity|exact Hv].
  - destruct (join_values [c_sp] l) as [j|e] eqn:Ej; cbn [bind] in H; [|discriminate]. injection H as <-.
    unfold format_comment. cbn [py_str]. apply qf_app_intro; [reflexivity|]. apply (join_values_qf l j Hv Ej).
  - destruct c as [|f|f]; try discriminate Hv. destruct f; [discriminate Hv|]. destruct its; [|discriminate Hv].
    injection H as <-. reflexivity.
Qed.

(* ------------------------------------------------------------ guards on the blocks *)
Definition kvitems_qf (l : list (str * value)) : bool :=
  forallb (fun kv => is_metadata (fst kv) || (qf (fst kv) && scalar_qf (snd kv))) l.

Definition kvdict_qf (v : value) : bool :=
  match v with
  | VDict c kvs => comments_qf (dict_get c (Str "__comments__") kvs (VDict DPlain [])) && kvitems_qf kvs
  | _ => true
  end.

Definition config_qf (v : value) : bool :=
  match v with
  | VDict _ kvs => forallb (fun kv => qf (fst kv) && scalar_qf (snd kv)) kvs
  | _ => true
  end.

Definition rep_qf (v : value) : bool :=
  match v with VList l => forallb scalar_qf l | _ => false end.

Definition proj_qf (v : value) : bool :=
  match v with VStr s => qf s | VList l => forallb scalar_qf l | _ => false end.

Definition numl (v : value) : bool :=
  match v with VList xs => forallb number_value xs | _ => false end.

Definition pairl (v : value) : bool :=
  match v with VList ps => forallb numl ps | _ => false end.

Definition points_qf (root : value) : bool :=
  match depth root with
  | Ok dp => if dp =? 2 then pairl root
             else match root with VList parts => forallb pairl parts | _ => false end
  | Err _ => true
  end.

Definition attr_ok (type_ attr : str) (v : value) : bool :=
  match get_attribute_properties type_ attr with
  | Ok props => attr_val_ok props v
  | Err _ => true
  end.

Definition item_qf (rec : value -> bool) (type_ attr : str) (v : value) : bool :=
  if is_hidden_container attr v then match v with VList vs => forallb rec vs | _ => true end
  else if str_eqb attr (Str "pattern") then pairl v
  else if mem_str attr key_dict_names then kvdict_qf v
  else if str_eqb attr (Str "projection") then proj_qf v
  else if mem_str attr REPEATED_KEYS then rep_qf v
  else if str_eqb attr (Str "points") then points_qf v
  else if str_eqb attr (Str "config") then config_qf v
  else if is_composite v then rec v
  else attr_ok type_ attr v.

Definition type_of (c : dcls) (its : list (str * value)) : str :=
  match dict_getitem c (Str "__type__") its with Ok (VStr t) => t | _ => [] end.

(* the dictionaries covered by the quote theorem *)
Fixpoint doc_qf (v : value) : bool :=
  match v with
  | VDict c its =>
      comments_qf (dict_get c (Str "__comments__") its (VDict DPlain []))
      && qf (type_of c its)
      && forallb (fun kv => is_metadata (fst kv)
                            || (qf (fst kv) && item_qf doc_qf (type_of c its) (fst kv) (snd kv))) its
  | _ => false
  end.

Definition root_qf (v : value) : bool :=
  match v with
  | VDict c items =>
      match assoc (kfold_item c (Str "__type__")) items with
      | Some (VStr t) => if mem_str t root_keydict_types then qf t && kvdict_qf v else doc_qf v
      | _ => doc_qf v
      end
  | _ => true
  end.

Definition roots_qf (d : value) : bool :=
  match d with VList l => forallb root_qf l | _ => root_qf d end.

(* ------------------------------------------------------------ the printer with the other quote *)
Definition swap2 (r : list aline * value) : list aline * value := (swap_doc (fst r), snd r).

Lemma mapM_rmap {A B} (f g : A -> res B) (h : B -> B) l :
  Forall (fun x => f x = rmap h (g x)) l -> mapM f l = rmap (map h) (mapM g l).
Proof.
  induction 1 as [|x l Hx _ IH]; cbn [mapM]; [reflexivity|].
  rewrite Hx. destruct (g x) as [y|e]; cbn [rmap bind]; [|reflexivity].
  rewrite IH. destruct (mapM g l) as [ys|e]; cbn [rmap bind]; reflexivity.
Qed.

Lemma mapM_fix {A B} (f : A -> res B) (h : B -> B) l ys :
  mapM f l = Ok ys -> Forall (fun x => forall y, f x = Ok y -> h y = y) l -> map h ys = ys.
Proof.
  intros H HF. apply mapM_Ok in H. induction H as [|x y l ys Hx _ IH]; [reflexivity|].
  inversion HF as [|? ? Hh HF']; subst. cbn [map]. rewrite (Hh y Hx), (IH HF'). reflexivity.
Qed.

Lemma concat_swap2 (rs : list (list aline * value)) :
  (concat (map fst (map swap2 rs)), VList (map snd (map swap2 rs)))
  = swap2 (concat (map fst rs), VList (map snd rs)).
Proof.
  unfold swap2 at 3. cbn [fst snd]. rewrite swap_doc_concat, !map_map. reflexivity.
Qed.

Section Sw.
  Variables (q : N) (sct : bool).
  Hypothesis Hq : is_quote q = true.
  Notation q' := (sw q).

  Lemma dict_lines_swap level L comments l :
    comments_qf comments = true -> kvitems_qf l = true ->
    a_process_dict_lines q' level L comments l = rmap swap_doc (a_process_dict_lines q level L comments l).
  Proof.
    intros Hc. induction l as [|[k v] l IH]; intros Hl; [reflexivity|].
    unfold kvitems_qf in Hl. cbn [forallb fst snd] in Hl. apply andb_true_iff in Hl. destruct Hl as [Hkv Hl].
    cbn [a_process_dict_lines]. destruct (is_metadata k) eqn:Em; [apply IH; exact Hl|].
    cbn [orb] in Hkv. apply andb_true_iff in Hkv. destruct Hkv as [Hk Hv].
    destruct (process_attribute_comment comments k) as [cm|e] eqn:Ec; cbn [bind]; [|reflexivity].
    rewrite (IH Hl). destruct (a_process_dict_lines q level L comments l) as [rest|e]; cbn [bind rmap]; [|reflexivity].
    f_equal. cbn [swap_doc map swap_aline]. f_equal. f_equal.
    - symmetry. apply sws_add_quotes. exact Hk.
    - rewrite sws_app. unfold add_quotes_v. rewrite (sws_add_quotes q _ (qf_py_str_scalar v Hv)).
      rewrite (sws_qf cm (attribute_comment_qf comments k cm Hc Ec)). reflexivity.
  Qed.

  Lemma key_dict_swap key d level :
    QF key -> kvdict_qf d = true ->
    a_process_key_dict q' key d level = rmap swap_doc (a_process_key_dict q key d level).
  Proof.
    intros Hk Hd. unfold a_process_key_dict. destruct d as [| | | | | |c items]; try reflexivity.
    cbn [kvdict_qf] in Hd. apply andb_true_iff in Hd. destruct Hd as [Hc Hl].
    destruct (a_type_comment level (dict_get c (Str "__comments__") items (VDict DPlain []))) as [tc|e] eqn:Etc;
      cbn [bind]; [|reflexivity].
    rewrite (dict_lines_swap level _ _ items Hc Hl).
    destruct (a_process_dict_lines q level (Some (compute_max_key_length items + 2))
                (dict_get c (Str "__comments__") items (VDict DPlain [])) items) as [body|e];
      cbn [bind rmap]; [|reflexivity].
    f_equal. rewrite !swap_doc_app, (type_comment_fix level _ tc Hc Etc). cbn [swap_doc map swap_aline].
    rewrite (sws_qf _ (qf_upper key Hk)). reflexivity.
  Qed.

  Lemma config_swap d level :
    config_qf d = true -> a_process_config_dict q' d level = rmap swap_doc (a_process_config_dict q d level).
  Proof.
    intros Hd. unfold a_process_config_dict. destruct d as [| | | | | |c items]; try reflexivity.
    cbn [rmap config_qf] in *. f_equal. unfold swap_doc. rewrite map_map. apply map_ext_in. intros [k v] Hin.
    rewrite forallb_forall in Hd. specialize (Hd _ Hin). cbn [fst snd] in *. apply andb_true_iff in Hd.
    destruct Hd as [Hk Hv]. cbn [swap_aline]. f_equal.
    - rewrite sws_app. rewrite (sws_add_quotes q _ (qf_upper k Hk)). reflexivity.
    - unfold add_quotes_v. symmetry. apply sws_add_quotes. apply qf_py_str_scalar. exact Hv.
  Qed.

  Lemma repeated_swap key lst level L :
    QF key -> rep_qf lst = true ->
    a_process_repeated_list q' key lst level L = rmap swap_doc (a_process_repeated_list q key lst level L).
  Proof.
    intros Hk Hl. unfold a_process_repeated_list. destruct lst as [| | | | |l|]; try discriminate Hl.
    cbn [py_iter bind rmap rep_qf] in *. f_equal. unfold swap_doc. rewrite map_map. apply map_ext_in. intros v Hin.
    rewrite forallb_forall in Hl. specialize (Hl v Hin). cbn [swap_aline]. f_equal.
    - symmetry. apply sws_qf, qf_upper. exact Hk.
    - unfold add_quotes_v. symmetry. apply sws_add_quotes. apply qf_py_str_scalar. exact Hl.
  Qed.

  Lemma projection_swap key lst level pc :
    QF key -> QF pc -> proj_qf lst = true ->
    a_process_projection q' key lst level pc = rmap swap_doc (a_process_projection q key lst level pc).
  Proof.
    intros Hk Hpc Hl. unfold a_process_projection.
    set (head := [ALine (level + 1) (upper key)]
                 ++ match pc with [] => [] | _ => [ALine (level + 2) (py_strip pc)] end).
    assert (Hh : swap_doc head = head).
    { unfold head. rewrite swap_doc_app. cbn [swap_doc map swap_aline]. rewrite (sws_qf _ (qf_upper key Hk)).
      destruct pc as [|c0 pc0]; [reflexivity|]. cbn [swap_doc map swap_aline].
      rewrite (sws_qf _ (qf_py_strip _ Hpc)). reflexivity. }
    assert (Fin : forall body body', body' = swap_doc body ->
              Ok (head ++ body' ++ [AEnd (level + 1) (upper key)])
              = rmap swap_doc (Ok (head ++ body ++ [AEnd (level + 1) (upper key)]))).
    { intros body body' ->. cbn [rmap]. f_equal. rewrite !swap_doc_app, Hh. cbn [swap_doc map swap_aline].
      rewrite (sws_qf _ (qf_upper key Hk)). reflexivity. }
    destruct lst as [| | | |s|l|]; try discriminate Hl; cbn [proj_qf] in Hl.
    - cbn [bind]. apply Fin. cbn [swap_doc map swap_aline]. rewrite (sws_add_quotes q s Hl). reflexivity.
    - cbn [py_len bind].
      destruct (if length l =? 1
                then do x <- py_index (VList l) 0;
                     match x with VStr s => Ok (str_eqb (upper s) (Str "AUTO")) | _ => Err PyAttributeError end
                else Ok false) as [is_auto|e]; cbn [bind]; [|reflexivity].
      destruct is_auto; [apply Fin; reflexivity|].
      cbn [py_iter bind]. apply Fin. unfold swap_doc. rewrite map_map. apply map_ext_in. intros v Hin.
      rewrite forallb_forall in Hl. specialize (Hl v Hin). cbn [swap_aline]. f_equal.
      unfold add_quotes_v. symmetry. apply sws_add_quotes. apply qf_py_str_scalar. exact Hl.
  Qed.

  (* coordinate lists: no quote at all *)
  Lemma number_qf v : number_value v = true -> QF (py_str v).
  Proof. intros H. apply qf_py_str_scalar. destruct v; try discriminate H; reflexivity. Qed.

  Lemma index_number xs n a : forallb number_value xs = true -> py_index (VList xs) n = Ok a -> number_value a = true.
  Proof.
    intros Hx H. cbn [py_index] in H. destruct (nth_error xs n) as [x|] eqn:E; [|discriminate]. injection H as <-.
    rewrite forallb_forall in Hx. apply Hx. eapply nth_error_In. exact E.
  Qed.

  Lemma format_pair_fix level p al : numl p = true -> a_format_pair level p = Ok al -> swap_aline al = al.
  Proof.
    intros Hp H. destruct p as [| | | | |xs|]; try discriminate Hp. cbn [numl] in Hp. unfold a_format_pair in H.
    destruct (py_index (VList xs) 0) as [a|e] eqn:Ea; cbn [bind] in H; [|discriminate].
    destruct (py_index (VList xs) 1) as [b|e] eqn:Eb; cbn [bind] in H; [|discriminate].
    injection H as <-. cbn [swap_aline]. f_equal. apply sws_qf.
    apply qf_app_intro; [apply number_qf, (index_number xs 0 a Hp Ea)|].
    apply (qf_cons c_sp); [reflexivity|apply number_qf, (index_number xs 1 b Hp Eb)].
  Qed.

  Lemma pair_list_fix key pl level A :
    QF key -> pairl pl = true -> a_format_pair_list key pl level = Ok A -> swap_doc A = A.
  Proof.
    intros Hk Hp H. destruct pl as [| | | | |ps|]; try discriminate Hp. cbn [pairl] in Hp.
    unfold a_format_pair_list in H. cbn [py_iter bind] in H.
    destruct (mapM (a_format_pair level) ps) as [pairs|e] eqn:Em; cbn [bind] in H; [|discriminate].
    injection H as <-. unfold swap_doc. cbn [app map swap_aline]. rewrite map_app. cbn [map swap_aline].
    rewrite (sws_qf _ (qf_upper key Hk)).
    f_equal. f_equal. apply (mapM_fix _ swap_aline ps pairs Em). apply Forall_forall. intros p Hin al Hal.
    rewrite forallb_forall in Hp. apply (format_pair_fix level p al (Hp p Hin) Hal).
  Qed.

  Lemma repeated_pair_list_fix key root level A :
    QF key -> points_qf root = true -> a_format_repeated_pair_list key root level = Ok A -> swap_doc A = A.
  Proof.
    intros Hk Hp H. unfold a_format_repeated_pair_list in H. unfold points_qf in Hp.
    destruct (depth root) as [dp|e]; cbn [bind] in H; [|discriminate].
    destruct (if dp =? 2 then Ok [root] else py_iter root) as [parts|e] eqn:Ep; cbn [bind] in H; [|discriminate].
    destruct (mapM (fun pl => a_format_pair_list key pl level) parts) as [ls|e] eqn:Em; cbn [bind] in H; [|discriminate].
    injection H as <-. rewrite swap_doc_concat. f_equal.
    apply (mapM_fix _ swap_doc parts ls Em). apply Forall_forall. intros pl Hin A Hpl.
    apply (pair_list_fix key pl level A Hk); [|exact Hpl].
    destruct (dp =? 2).
    - injection Ep as <-. destruct Hin as [<-|[]]. exact Hp.
    - destruct root as [| | | | |rs|]; try discriminate Hp. cbn [py_iter] in Ep. injection Ep as <-.
      rewrite forallb_forall in Hp. apply Hp. exact Hin.
  Qed.

  Lemma fix_to_rmap (r : res (list aline)) :
    (forall A, r = Ok A -> swap_doc A = A) -> r = rmap swap_doc r.
  Proof. intros H. destruct r as [A|e]; [|reflexivity]. cbn [rmap]. rewrite (H A eq_refl). reflexivity. Qed.

  Lemma attribute_swap type_ attr v level L :
    QF attr -> attr_ok type_ attr v = true ->
    a_process_attribute q' sct type_ attr v level L = rmap swap_aline (a_process_attribute q sct type_ attr v level L).
  Proof.
    intros Hk Hv. unfold a_process_attribute, attr_ok in *.
    destruct (get_attribute_properties type_ attr) as [props|e]; cbn [bind]; [|reflexivity].
    pose proof (fv_text_swap q sct Hq attr props v Hv) as H.
    destruct (format_value (oc q' sct) attr props v) as [w'|e'], (format_value (oc q sct) attr props v) as [w|e];
      cbn [rmap] in H; try discriminate H; cbn [bind rmap].
    - injection H as H. cbn [swap_aline]. rewrite H, (sws_qf _ (qf_upper attr Hk)). reflexivity.
    - injection H as ->. reflexivity.
  Qed.

  Lemma header_type c items comments level type_ ahead :
    a_format_header c items comments level = Ok (type_, ahead) ->
    (type_ = [] /\ ahead = []) \/ type_ = type_of c items.
  Proof.
    unfold a_format_header, type_of. destruct (dict_in c (Str "__type__") items); [|intros [= <- <-]; left; tauto].
    destruct (dict_getitem c (Str "__type__") items) as [t|e]; cbn [bind]; [|discriminate].
    destruct t as [| | | |t| |]; try discriminate. destruct (mem_str t all_composite_names); [|discriminate].
    destruct (a_type_comment level comments) as [tc|e]; cbn [bind]; [|discriminate]. intros [= <- _]. right. reflexivity.
  Qed.

  Lemma header_fix c items comments level type_ ahead :
    comments_qf comments = true -> QF type_ ->
    a_format_header c items comments level = Ok (type_, ahead) -> swap_doc ahead = ahead.
  Proof.
    intros Hc Ht. unfold a_format_header. destruct (dict_in c (Str "__type__") items); [|intros [= _ <-]; reflexivity].
    destruct (dict_getitem c (Str "__type__") items) as [t|e]; cbn [bind]; [|discriminate].
    destruct t as [| | | |t| |]; try discriminate. destruct (mem_str t all_composite_names); [|discriminate].
    destruct (a_type_comment level comments) as [tc|e] eqn:Etc; cbn [bind]; [|discriminate]. intros [= -> <-].
    rewrite swap_doc_app, (type_comment_fix level comments tc Hc Etc). cbn [swap_doc map swap_aline].
    rewrite (sws_qf _ (qf_upper type_ Ht)). reflexivity.
  Qed.

  Lemma bind_pair_swap (r r' : res (list aline)) (v : value) :
    r' = rmap swap_doc r ->
    (do ls <- r'; Ok (ls, v)) = rmap swap2 (do ls <- r; Ok (ls, v)).
  Proof. intros ->. destruct r; reflexivity. Qed.

  Lemma item_swap (arec arec' : value -> res (list aline * value)) (rec : value -> bool)
        type_ type_g comments level L attr v :
    (rec v = true -> arec' v = rmap swap2 (arec v)) ->
    (forall vs, v = VList vs -> Forall (fun x => rec x = true -> arec' x = rmap swap2 (arec x)) vs) ->
    comments_qf comments = true ->
    (type_ = [] \/ type_ = type_g) ->
    (is_metadata attr = false -> QF attr /\ item_qf rec type_g attr v = true) ->
    a_format_item q' sct arec' type_ comments level L attr v
    = rmap swap2 (a_format_item q sct arec type_ comments level L attr v).
  Proof.
    intros Hc Hl Hcm Ht Hg. unfold a_format_item.
    destruct (is_metadata attr); [reflexivity|]. destruct (Hg eq_refl) as [Hk Hi]. clear Hg. unfold item_qf in Hi.
    destruct (is_hidden_container attr v).
    { destruct v as [| | | | |vs|]; try reflexivity.
      assert (HF : Forall (fun x => arec' x = rmap swap2 (arec x)) vs).
      { specialize (Hl vs eq_refl). rewrite Forall_forall in *. intros x Hx. apply (Hl x Hx).
        rewrite forallb_forall in Hi. apply Hi. exact Hx. }
      rewrite (mapM_rmap arec' arec swap2 vs HF).
      destruct (mapM arec vs) as [rs|e]; cbn [rmap bind]; [|reflexivity].
      rewrite concat_swap2. reflexivity. }
    destruct (str_eqb attr (Str "pattern")).
    { apply bind_pair_swap. apply fix_to_rmap. intros A HA. apply (pair_list_fix attr v level A Hk Hi HA). }
    destruct (mem_str attr key_dict_names).
    { apply bind_pair_swap. apply key_dict_swap; assumption. }
    destruct (str_eqb attr (Str "projection")).
    { destruct (process_attribute_comment comments attr) as [pc|e] eqn:Epc; cbn [bind]; [|reflexivity].
      apply bind_pair_swap. apply projection_swap; [exact Hk| |exact Hi].
      apply (attribute_comment_qf comments attr pc Hcm Epc). }
    destruct (mem_str attr REPEATED_KEYS).
    { apply bind_pair_swap. apply repeated_swap; assumption. }
    destruct (str_eqb attr (Str "points")).
    { apply bind_pair_swap. apply fix_to_rmap. intros A HA. apply (repeated_pair_list_fix attr v level A Hk Hi HA). }
    destruct (str_eqb attr (Str "config")).
    { apply bind_pair_swap. apply config_swap. exact Hi. }
    destruct (is_composite v); [apply Hc; exact Hi|].
    destruct type_ as [|t0 type_]; [reflexivity|]. destruct Ht as [Ht|Ht]; [discriminate Ht|]. subst type_g.
    rewrite (attribute_swap (t0 :: type_) attr v level L Hk Hi).
    destruct (a_process_attribute q sct (t0 :: type_) attr v level L) as [al|e] eqn:E; cbn [rmap bind]; [|reflexivity].
    destruct (process_attribute_comment comments attr) as [cm|e] eqn:Ecm; cbn [bind rmap]; [|reflexivity].
    destruct (a_process_attribute_shape (oc q sct) _ _ _ _ _ _ E) as (val & ->).
    unfold swap2. cbn [fst snd swap_doc map swap_aline]. rewrite sws_app.
    rewrite (sws_qf cm (attribute_comment_qf comments attr cm Hcm Ecm)). reflexivity.
  Qed.

  Definition swap_result (a : value * res (list aline * value)) : value * res (list aline * value) :=
    (fst a, rmap swap2 (snd a)).

  Lemma collect_swap l : a_collect_items (mapv swap_result l) = rmap (fun r => (swap_doc (fst r), snd r)) (a_collect_items l).
  Proof.
    induction l as [|[k [v r]] l IH]; [reflexivity|].
    cbn [mapv map fst snd swap_result a_collect_items]. fold (mapv swap_result l).
    destruct r as [[A v']|e]; cbn [rmap bind swap2 fst snd]; [|reflexivity].
    rewrite IH. destruct (a_collect_items l) as [[A2 its]|e]; cbn [rmap bind fst snd]; [|reflexivity].
    rewrite swap_doc_app. reflexivity.
  Qed.

  Lemma format_swap v :
    (forall level, doc_qf v = true -> a_format q' sct level v = rmap swap2 (a_format q sct level v))
    /\ match v with
       | VList l => Forall (fun x => forall level, doc_qf x = true ->
                                                   a_format q' sct level x = rmap swap2 (a_format q sct level x)) l
       | _ => True
       end.
  Proof.
    induction v as [| | | | |l IH|c items IH] using value_ind'; try (split; [reflexivity|exact I]).
    - split; [reflexivity|]. eapply Forall_impl; [|exact IH]. intros x Hx. apply Hx.
    - split; [|exact I]. intros level Hg. cbn [doc_qf] in Hg.
      apply andb_true_iff in Hg. destruct Hg as [Hg Hits]. apply andb_true_iff in Hg. destruct Hg as [Hcm Hty].
      cbn [a_format].
      set (comments := dict_get c (Str "__comments__") items (VDict DPlain [])) in *.
      destruct (a_format_header c items comments level) as [[type_ ahead]|e] eqn:Eh; cbn [bind fst snd]; [|reflexivity].
      set (L := compute_max_key_length items).
      set (results := map (fun kv => (fst kv, (snd kv, a_format_item q sct (fun x => a_format q sct (S level) x)
                                                            type_ comments level L (fst kv) (snd kv)))) items).
      pose proof (header_type c items comments level type_ ahead Eh) as Hty2.
      assert (Hres : map (fun kv => (fst kv, (snd kv, a_format_item q' sct (fun x => a_format q' sct (S level) x)
                                                            type_ comments level L (fst kv) (snd kv)))) items
                     = mapv swap_result results).
      { unfold results, mapv. rewrite map_map. cbn [fst snd]. unfold swap_result. cbn [fst snd].
        clear results Eh. clearbody L comments.
        assert (Ht : type_ = [] \/ type_ = type_of c items) by (destruct Hty2 as [[-> _]| ->]; tauto).
        clear Hty2. generalize dependent (type_of c items). intros tg Hty Hits Ht.
        induction IH as [|[k v] items [HQ HL] _ IHl]; [reflexivity|].
        cbn [forallb fst snd] in Hits. apply andb_true_iff in Hits. destruct Hits as [Hkv Hits].
        cbn [map fst snd]. rewrite (IHl Hits). f_equal. f_equal. f_equal.
        apply (item_swap _ _ doc_qf type_ tg comments level L k v).
        - intros Hd. apply HQ. exact Hd.
        - intros vs ->. eapply Forall_impl; [|exact HL]. intros x Hx Hd. apply Hx. exact Hd.
        - exact Hcm.
        - exact Ht.
        - intros Em. rewrite Em in Hkv. cbn [orb] in Hkv. apply andb_true_iff in Hkv. exact Hkv. }
      rewrite Hres.
      rewrite (separate_complex_g_mapv (oc q' sct) swap_result (fun a => fst a)).
      change (fun a : value * res (list aline * value) => fst (swap_result a)) with (fun a : value * res (list aline * value) => fst a).
      rewrite (separate_complex_g_sct (oc q' sct) (oc q sct)) by reflexivity.
      destruct (separate_complex_g (oc q sct) (fun a : value * res (list aline * value) => fst a) c level results)
        as [sorted|e]; cbn [rmap bind]; [|reflexivity].
      rewrite collect_swap.
      destruct (a_collect_items sorted) as [[A its]|e]; cbn [rmap bind fst snd]; [|reflexivity].
      destruct type_ as [|t0 type_]; [reflexivity|]. cbn [rmap]. unfold swap2. cbn [fst snd]. f_equal. f_equal.
      destruct Hty2 as [[Hn _]|Hty2]; [discriminate Hn|]. rewrite <- Hty2 in Hty.
      rewrite !swap_doc_app, (header_fix c items comments level _ ahead Hcm Hty Eh). cbn [swap_doc map swap_aline].
      rewrite (sws_qf _ (qf_upper _ Hty)). reflexivity.
  Qed.

  Lemma one_swap v : root_qf v = true -> a_pprint_one q' sct v = rmap swap2 (a_pprint_one q sct v).
  Proof.
    intros Hg. unfold a_pprint_one. destruct v as [| | | | | |c items]; try reflexivity. cbn [root_qf] in Hg.
    destruct (assoc (kfold_item c (Str "__type__")) items) as [t|]; [|destruct (has_factory c); reflexivity].
    destruct t as [| | | |type_| |]; try (apply (proj1 (format_swap _)); exact Hg).
    change (mem_str type_ [Str "metadata"; Str "validation"; Str "connectionoptions"])
      with (mem_str type_ root_keydict_types).
    destruct (mem_str type_ root_keydict_types).
    - apply andb_true_iff in Hg. destruct Hg as [Ht Hd]. apply bind_pair_swap. apply key_dict_swap; assumption.
    - apply (proj1 (format_swap _)). exact Hg.
  Qed.

  Lemma quote_check_swap : (N.eqb q' c_sq || N.eqb q' c_dq) = (N.eqb q c_sq || N.eqb q c_dq).
  Proof.
    unfold is_quote in Hq. apply orb_true_iff in Hq. destruct Hq as [H|H]; apply N.eqb_eq in H; subst q; reflexivity.
  Qed.

  Lemma pprint_swap d : roots_qf d = true -> a_pprint q' sct d = rmap swap2 (a_pprint q sct d).
  Proof.
    intros Hg. unfold a_pprint. rewrite quote_check_swap.
    destruct (negb (N.eqb q c_sq || N.eqb q c_dq)); [reflexivity|].
    assert (G : forall v, root_qf v = true ->
               (if truthy v then do r <- a_pprint_one q' sct v; Ok r
                else match v with VStr _ | VDict _ _ => Ok ([], v) | _ => Err PyTypeError end)
               = rmap swap2 (if truthy v then do r <- a_pprint_one q sct v; Ok r
                             else match v with VStr _ | VDict _ _ => Ok ([], v) | _ => Err PyTypeError end)).
    { intros v Hv. destruct (truthy v).
      - rewrite (one_swap v Hv). destruct (a_pprint_one q sct v) as [[A x]|e]; reflexivity.
      - destruct v; reflexivity. }
    destruct d as [| | | | |l|]; try (apply G; exact Hg).
    cbn [roots_qf] in Hg.
    rewrite (mapM_rmap (a_pprint_one q' sct) (a_pprint_one q sct) swap2 l).
    - destruct (mapM (a_pprint_one q sct) l) as [rs|e]; cbn [rmap bind]; [|reflexivity].
      rewrite concat_swap2. reflexivity.
    - apply Forall_forall. intros x Hx. apply one_swap. rewrite forallb_forall in Hg. apply Hg. exact Hx.
  Qed.
End Sw.

(* ------------------------------------------------------------ the theorem *)
Lemma a_pprint_quote_ok q sct d r : a_pprint q sct d = Ok r -> is_quote q = true.
Proof.
  unfold a_pprint, is_quote. intros H. rewrite orb_comm.
  destruct (N.eqb q c_sq || N.eqb q c_dq) eqn:E; [exact E|discriminate H].
Qed.

(* token texts without a quote character are not affected by the exchange *)
Lemma swt_qf toks : Forall (fun t => QF (snd t)) toks -> map swt toks = toks.
Proof.
  induction 1 as [|[c s] toks Hs _ IH]; [reflexivity|]. cbn [map]. rewrite IH. unfold swt. cbn [fst snd] in *.
  rewrite (sws_qf s Hs). reflexivity.
Qed.

(* C06, the quote option: printing with the other quote character succeeds as
   well, leaves the same dictionary behind, and the text reads back as the same
   tokens with the two quote characters exchanged inside the token texts (so: the
   same tokens when no token text contains a quote character) *)
Theorem quote_option_preserves_content :
  forall o o' d s d1,
    quote o' = sw (quote o) -> separate_complex_types o' = separate_complex_types o ->
    layout_ok o = true -> layout_ok o' = true ->
    roots_qf d = true ->
    content_closed (quote o) (separate_complex_types o) d = true ->
    pprint o d = Ok (s, d1) ->
    exists s', pprint o' d = Ok (s', d1)
               /\ tokenize s' = option_map (map swt) (tokenize s)
               /\ (forall toks, tokenize s = Some toks -> Forall (fun t => QF (snd t)) toks -> tokenize s' = Some toks).
Proof.
  intros o o' d s d1 Hq Hs Hl Hl' Hg Hc H.
  rewrite pprint_factors in H. rewrite (pprint_factors o'), Hq, Hs.
  unfold content_closed in Hc.
  destruct (a_pprint (quote o) (separate_complex_types o) d) as [[A x]|e] eqn:EA; [|discriminate].
  injection H as <- <-.
  rewrite (pprint_swap (quote o) (separate_complex_types o) (a_pprint_quote_ok _ _ _ _ EA) d Hg), EA.
  cbn [rmap swap2 fst snd]. exists (render o' (swap_doc A)).
  assert (E : tokenize (render o' (swap_doc A)) = option_map (map swt) (tokenize (render o A))).
  { rewrite (render_swap o' Hl' A), tokenize_swap_quotes.
    rewrite (render_tokens o' Hl' A Hc), (render_tokens o Hl A Hc). reflexivity. }
  split; [reflexivity|]. split; [exact E|].
  intros toks Ht HF. rewrite E, Ht. cbn [option_map]. rewrite (swt_qf toks HF). reflexivity.
Qed.
