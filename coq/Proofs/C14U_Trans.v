(* C14 (transformer half), universal: the comment strings stored in the loaded
   dictionary are a SUB-MULTISET of the comment strings attached to the tree
   nodes by parser._assign_comments - the transformer never invents a comment
   and never copies a node's comment list into two places.

   Method (as Proofs/C13U.v, C08U.v): a measure [ms] of the comment strings a
   transformer value carries and a well-formedness predicate [WF], kept by
   every one of the 48 callbacks of Model/Transformer.v and by the comments
   pass (ctr / comments_callback), for EVERY tree whose leaves are lexer
   tokens.  No guard on the shape of the tree is needed.

     cstored v    the comment strings stored in a final value: in every dict, at
                  every depth, the string elements of the list values (and the
                  string values) of a dict-valued __comments__ entry (multiset, as a list)
     sub a b      multiset inclusion: exists r, Permutation (a ++ r) b
     attached t   (Proofs/C14.v) the comment strings in the metas of a tree

   Main statements:
     transform_linear     transform ip true t = Ok x -> sub (cstored (tvv x)) (attached t)
     loads_linear         (in Proofs/C14U.v) the same for Api.loads *)
From Coq Require Import Permutation.
From MF Require Import Lib.Base Lib.PyDict Lib.PyNum Model.GrammarTypes Model.Lexer Model.LR
  Model.Case Model.Transformer Model.Api Gen.Tokens Gen.Grammar
  Proofs.CaseFacts Proofs.C13U Proofs.C14.
From MF Require Export Proofs.C14U_Multiset.
Open Scope N_scope.

(* ================================================================ the comment strings of a final value *)
Definition strs_of (l : list value) : list str :=
  flat_map (fun e => match e with VStr s => [s] | _ => [] end) l.

(* one entry of a comments dict: a list of strings (what the transformer
   stores), or a single string (printed as such by the printer) *)
Definition cl (v : value) : list str :=
  match v with VList l => strs_of l | VStr s => [s] | _ => [] end.

(* a comments dict: key -> comment list *)
Definition cdm (cm : list (str * value)) : list str := flat_map (fun kv => cl (snd kv)) cm.

(* the value of a __comments__ entry *)
Definition centry (v : value) : list str := match v with VDict _ cm => cdm cm | _ => [] end.

Fixpoint cstored (v : value) : list str :=
  match v with
  | VList l => flat_map cstored l
  | VDict _ items =>
      flat_map (fun kv => if str_eqb (fst kv) s_comments then centry (snd kv) else cstored (snd kv)) items
  | _ => []
  end.

Definition emeasv (k : str) (v : value) : list str :=
  if str_eqb k s_comments then centry v else cstored v.

Lemma cstored_dict c items : cstored (VDict c items) = flat_map (fun kv => emeasv (fst kv) (snd kv)) items.
Proof. reflexivity. Qed.

Lemma strs_of_map_VStr c : strs_of (map VStr c) = c.
Proof. induction c as [|s c IH]; [reflexivity|]. cbn. f_equal. exact IH. Qed.

Lemma strs_of_app a b : strs_of (a ++ b) = strs_of a ++ strs_of b.
Proof. unfold strs_of. apply flat_map_app. Qed.

(* values without any dict inside *)
Fixpoint nd (v : value) : bool :=
  match v with
  | VDict _ _ => false
  | VList l => forallb nd l
  | _ => true
  end.

(* a value that carries no comment wherever it is stored *)
Definition inert (v : value) : Prop := cstored v = [] /\ centry v = [].

Lemma nd_cstored : forall v, nd v = true -> cstored v = [].
Proof.
  induction v as [| | | | |l IH|c items IH] using value_ind'; try reflexivity; [|discriminate].
  cbn [nd cstored]. intros H. induction IH as [|x l Hx _ IHl]; [reflexivity|].
  cbn [forallb] in H. apply andb_true_iff in H. destruct H as [H1 H2].
  cbn [flat_map]. rewrite (Hx H1), (IHl H2). reflexivity.
Qed.

Lemma nd_inert v : nd v = true -> inert v.
Proof. intros H. split; [apply nd_cstored; exact H|]. destruct v; try reflexivity. discriminate. Qed.

Lemma inert_emeasv k v : inert v -> emeasv k v = [].
Proof. intros [H1 H2]. unfold emeasv. destruct (str_eqb k s_comments); assumption. Qed.

Lemma nd_clean_top v : nd (clean_top v) = nd v.
Proof. destruct v; reflexivity. Qed.

Lemma nd_clean_string : forall v, nd (clean_string v) = nd v.
Proof.
  induction v as [| | | | |l IH|c items IH] using value_ind'; try reflexivity.
  cbn [clean_string nd]. induction IH as [|x l Hx _ IHl]; [reflexivity|].
  cbn [map forallb]. rewrite Hx, IHl. reflexivity.
Qed.

Definition posval (v : value) : bool := match v with VInt _ | VNone => true | _ => false end.

Lemma posval_nd v : posval v = true -> nd v = true.
Proof. destruct v; try discriminate; reflexivity. Qed.

Lemma posval_cstored v : posval v = true -> cstored v = [].
Proof. destruct v; try discriminate; reflexivity. Qed.

Lemma posval_cl v : posval v = true -> cl v = [].
Proof. destruct v; try discriminate; reflexivity. Qed.

(* ================================================================ the measure on transformer values *)

(* what the entries of a dict contribute to the final value *)
Definition dmeas (items : titems) : list str :=
  flat_map (fun kv => emeasv (fst kv) (tvv (snd kv))) items.

Lemma cstored_tvv_dict c items : cstored (tvv (TDict c items)) = dmeas items.
Proof. cbn [tvv]. rewrite cstored_dict, flat_map_map. reflexivity. Qed.

(* an attr() result (a dict without __type__) additionally carries the comment
   list composite() will hoist out of it: exactly what composite_item reads *)
Definition ams (items : titems) : list str :=
  match items2_of items with
  | [_] => match assoc s_comments (items1_of items) with Some (TVal v) => cl v | _ => [] end
  | _ => []
  end.

Fixpoint ms (x : tv) : list str :=
  match x with
  | TVal v => cstored v
  | TTok _ => []
  | TSeq l => flat_map ms l
  | TDict c items => dmeas items ++ (if typed items then [] else ams items)
  end.

Lemma cstored_tvv_sub : forall x, sub (cstored (tvv x)) (ms x).
Proof.
  induction x as [v|t|l IH|c items IH] using tv_ind'.
  - apply sub_refl.
  - apply sub_nil_l.
  - cbn [tvv cstored ms]. rewrite flat_map_map. apply sub_flat_map. exact IH.
  - rewrite cstored_tvv_dict. cbn [ms]. apply sub_app_l.
Qed.

(* ================================================================ well-formed transformer values *)
Definition tokOK (t : ptok) : Prop :=
  nd (pk_val t) = true /\ posval (pk_line t) = true /\ posval (pk_col t) = true.

Definition cfgok (y : tv) : Prop :=
  forall c cfg, y = TVal (VDict c cfg) -> Forall (fun kv => nd (snd kv) = true) cfg.

(* an entry of an attr() result *)
Definition uentry (k : str) (y : tv) : Prop :=
  lower k = k /\ if str_eqb k s_config then cfgok y else inert (tvv y).

Fixpoint WF (x : tv) : Prop :=
  match x with
  | TVal _ => True
  | TTok t => tokOK t
  | TSeq l => (fix go (l : list tv) : Prop := match l with [] => True | y :: l' => WF y /\ go l' end) l
  | TDict c items =>
      (fix go (l : titems) : Prop := match l with [] => True | (k, y) :: l' => WF y /\ go l' end) items
      /\ (typed items = true \/ Forall (fun kv => uentry (fst kv) (snd kv)) items)
  end.

Lemma WF_seq l : WF (TSeq l) <-> Forall WF l.
Proof.
  cbn [WF]. induction l as [|y l IH]; [split; [constructor|exact (fun _ => I)]|].
  rewrite IH. split; [intros [H1 H2]; constructor; assumption|intros H; inversion H; subst; tauto].
Qed.

Definition WFe (items : titems) : Prop := Forall (fun kv => WF (snd kv)) items.
Definition WFu (items : titems) : Prop := Forall (fun kv => uentry (fst kv) (snd kv)) items.

Lemma WF_dict c items : WF (TDict c items) <-> WFe items /\ (typed items = true \/ WFu items).
Proof.
  cbn [WF]. unfold WFe, WFu.
  assert (H : (fix go (l : titems) : Prop := match l with [] => True | (k, y) :: l' => WF y /\ go l' end) items
              <-> Forall (fun kv => WF (snd kv)) items).
  { induction items as [|[k y] l IH]; [split; [constructor|exact (fun _ => I)]|].
    rewrite IH. split; [intros [H1 H2]; constructor; assumption|intros H; inversion H; subst; tauto]. }
  rewrite H. tauto.
Qed.

Lemma tokOK_set a v : tokOK a -> nd v = true -> tokOK (set_val a v).
Proof. intros (_ & H2 & H3) Hv. repeat split; assumption. Qed.

Lemma WF_set a v : WF (TTok a) -> nd v = true -> WF (TTok (set_val a v)).
Proof. cbn [WF]. apply tokOK_set. Qed.

Lemma WFe_get k v items : WFe items -> assoc k items = Some v -> WF v.
Proof.
  intros HF Ha. unfold WFe in HF. rewrite Forall_forall in HF. exact (HF (k, v) (assoc_Some_in _ _ _ Ha)).
Qed.

Lemma WFe_set k v items : WF v -> WFe items -> WFe (od_set k v items).
Proof. intros Hv HF. apply Forall_od_set; assumption. Qed.

Lemma typed_set k v items : typed items = true -> typed (od_set k v items) = true.
Proof. unfold typed. intros H. rewrite od_mem_set, H. apply orb_true_r. Qed.

Lemma typed_assoc items : typed items = match assoc s_type items with Some _ => true | None => false end.
Proof. unfold typed. apply od_mem_assoc. Qed.

(* ================================================================ token callbacks *)
(* J t x: x is well formed and carries no more than the arguments *)
Definition J (t : list tv) (x : tv) : Prop := WF x /\ sub (ms x) (flat_map ms t).

Lemma J_tok (t : list tv) a : tokOK a -> J t (TTok a).
Proof. intros H. split; [exact H|apply sub_nil_l]. Qed.

Lemma J_head x t : Forall WF (x :: t) -> J (x :: t) x.
Proof. intros H. split; [exact (Forall_inv H)|cbn [flat_map]; apply sub_app_l]. Qed.

Lemma first_tok_WF t a : Forall WF t -> first_tok t = Ok a -> tokOK a.
Proof.
  intros HF H. destruct t as [|[| | |] ?]; try discriminate. injection H as <-. exact (Forall_inv HF).
Qed.

Lemma set_first_J t s x : Forall WF t -> set_first t s = Ok x -> J t x.
Proof.
  intros HF H. destruct t as [|[| | |] ?]; try discriminate. injection H as <-.
  apply J_tok. apply tokOK_set; [exact (Forall_inv HF)|reflexivity].
Qed.

Lemma cb_binary_J t a b c x : Forall WF t -> cb_binary t a b c = Ok x -> J t x.
Proof. unfold cb_binary. intros HF H. wcrush H. eapply set_first_J; eassumption. Qed.

Lemma cb_comparison_J t x : Forall WF t -> cb_comparison t = Ok x -> J t x.
Proof. unfold cb_comparison. intros HF H. wcrush H. eapply set_first_J; eassumption. Qed.

Lemma cb_prefix_J t p b x : Forall WF t -> cb_prefix t p b = Ok x -> J t x.
Proof. unfold cb_prefix. intros HF H. wcrush H; eapply set_first_J; eassumption. Qed.

Lemma cb_expression_J t x : Forall WF t -> cb_expression t = Ok x -> J t x.
Proof.
  unfold cb_expression. intros HF H. wcrush H.
  - apply J_tok. exact (Forall_inv HF).
  - apply J_tok. apply tokOK_set; [exact (Forall_inv HF)|reflexivity].
Qed.

Lemma cb_func_call_J t x : Forall WF t -> cb_func_call t = Ok x -> J t x.
Proof.
  unfold cb_func_call. intros HF H. wcrush H. apply J_tok. apply tokOK_set; [exact (Forall_inv HF)|reflexivity].
Qed.

Lemma cb_func_params_J t x : cb_func_params t = Ok x -> J t x.
Proof. unfold cb_func_params. intros H. wcrush H. split; [exact I|apply sub_nil_l]. Qed.

Lemma cb_attr_bind_J t x : Forall WF t -> cb_attr_bind t = Ok x -> J t x.
Proof.
  unfold cb_attr_bind. intros HF H. wcrush H. apply J_tok. apply tokOK_set; [exact (Forall_inv HF)|reflexivity].
Qed.

Lemma cb_list_J t x : Forall WF t -> cb_list t = Ok x -> J t x.
Proof.
  unfold cb_list. intros HF H. wcrush H. apply J_tok. apply tokOK_set; [exact (Forall_inv HF)|reflexivity].
Qed.

Lemma cb_first_J t x : Forall WF t -> cb_first t = Ok x -> J t x.
Proof. unfold cb_first. intros HF H. wcrush H. apply J_head. exact HF. Qed.

Lemma cb_int_J t x : Forall WF t -> cb_int t = Ok x -> J t x.
Proof.
  unfold cb_int. intros HF H. destruct (first_tok t) as [a|e] eqn:Ea; cbn [bind] in H; [|discriminate].
  pose proof (first_tok_WF _ _ HF Ea) as Ha. wcrush H. apply J_tok. apply tokOK_set; [exact Ha|reflexivity].
Qed.

Lemma cb_float_J t x : Forall WF t -> cb_float t = Ok x -> J t x.
Proof.
  unfold cb_float. intros HF H. destruct (first_tok t) as [a|e] eqn:Ea; cbn [bind] in H; [|discriminate].
  pose proof (first_tok_WF _ _ HF Ea) as Ha. wcrush H. apply J_tok. apply tokOK_set; [exact Ha|reflexivity].
Qed.

Lemma cb_bool_J b t x : Forall WF t -> cb_bool b t = Ok x -> J t x.
Proof.
  unfold cb_bool. intros HF H. destruct (first_tok t) as [a|e] eqn:Ea; cbn [bind] in H; [|discriminate].
  pose proof (first_tok_WF _ _ HF Ea) as Ha. wcrush H. apply J_tok. apply tokOK_set; [exact Ha|reflexivity].
Qed.

Lemma cb_hexcolor_J t x : Forall WF t -> cb_hexcolor t = Ok x -> J t x.
Proof.
  unfold cb_hexcolor. intros HF H. destruct (first_tok t) as [a|e] eqn:Ea; cbn [bind] in H; [|discriminate].
  pose proof (first_tok_WF _ _ HF Ea) as Ha. wcrush H. apply J_tok. apply tokOK_set; [exact Ha|reflexivity].
Qed.

Lemma J_seq t : Forall WF t -> J t (TSeq t).
Proof. intros HF. split; [apply WF_seq; exact HF|apply sub_refl]. Qed.

Lemma cb_len_J n t x : Forall WF t -> cb_len n t = Ok x -> J t x.
Proof. unfold cb_len. intros HF H. wcrush H. apply J_seq. exact HF. Qed.

Lemma cb_start_J t x : Forall WF t -> cb_start t = Ok x -> J t x.
Proof.
  unfold cb_start. intros HF H. destruct t as [|a [|b r]]; injection H as <-; try (apply J_seq; exact HF).
  apply J_head. exact HF.
Qed.

(* ================================================================ create_position_dict *)
Lemma flatten_WF vs : forall flat, Forall WF vs -> flatten vs = Ok flat -> Forall WF flat.
Proof.
  induction vs as [|v vs IH]; intros flat HF H; cbn [flatten] in H.
  - injection H as <-. constructor.
  - destruct (flatten vs) as [rest|e]; cbn [bind] in H; [|discriminate].
    pose proof (Forall_inv HF) as Hv. pose proof (IH rest (Forall_inv_tail HF) eq_refl) as Hr.
    destruct v as [w|t|l|c items]; try discriminate.
    + injection H as <-. constructor; assumption.
    + injection H as <-. apply Forall_app. split; [apply WF_seq; exact Hv|exact Hr].
    + destruct (assoc s_tokens items) as [[| |l|]|] eqn:Ea; try discriminate. injection H as <-.
      apply Forall_app. split; [|exact Hr]. apply WF_seq.
      apply WF_dict in Hv. destruct Hv as [Hk _]. exact (WFe_get _ _ _ Hk Ea).
Qed.

Definition ppair (p : value) : Prop := exists L C, p = VList [L; C] /\ posval L = true /\ posval C = true.

Lemma mapM_pos_pair_WF flat : forall ps, Forall WF flat -> mapM pos_pair flat = Ok ps -> Forall ppair ps.
Proof.
  induction flat as [|x flat IH]; intros ps HF H; cbn [mapM] in H.
  - injection H as <-. constructor.
  - destruct (pos_pair x) as [p|e] eqn:Ep; cbn [bind] in H; [|discriminate].
    destruct (mapM pos_pair flat) as [ps'|e]; cbn [bind] in H; [|discriminate].
    injection H as <-. constructor; [|apply IH; [exact (Forall_inv_tail HF)|reflexivity]].
    destruct x as [|t| |]; try discriminate. injection Ep as <-.
    destruct (Forall_inv HF) as (_ & H2 & H3). exists (pk_line t), (pk_col t). auto.
Qed.

Lemma ppairs_inert ps : Forall ppair ps -> flat_map cstored ps = [] /\ strs_of ps = [].
Proof.
  induction 1 as [|p ps (L & C & -> & HL & HC) _ [IH1 IH2]]; [split; reflexivity|].
  split.
  - cbn [flat_map cstored]. rewrite (posval_cstored L HL), (posval_cstored C HC), IH1. reflexivity.
  - cbn [strs_of flat_map]. exact IH2.
Qed.

Lemma E_line : str_eqb s_line s_comments = false. Proof. reflexivity. Qed.
Lemma E_column : str_eqb s_column s_comments = false. Proof. reflexivity. Qed.
Lemma E_values : str_eqb s_values s_comments = false. Proof. reflexivity. Qed.
Lemma E_position : str_eqb s_position s_comments = false. Proof. reflexivity. Qed.
Lemma E_tokens : str_eqb s_tokens s_comments = false. Proof. reflexivity. Qed.
Lemma E_type : str_eqb s_type s_comments = false. Proof. reflexivity. Qed.
Lemma E_config : str_eqb s_config s_comments = false. Proof. reflexivity. Qed.
Lemma E_points : str_eqb s_points s_comments = false. Proof. reflexivity. Qed.
Lemma E_comments : str_eqb s_comments s_comments = true. Proof. reflexivity. Qed.

Lemma posrec_inert L C : posval L = true -> posval C = true -> inert (VDict DPlain [(s_line, L); (s_column, C)]).
Proof.
  intros HL HC. split.
  - rewrite cstored_dict. cbn [flat_map fst snd]. unfold emeasv. rewrite E_line, E_column.
    rewrite (posval_cstored L HL), (posval_cstored C HC). reflexivity.
  - cbn [centry cdm flat_map fst snd]. rewrite (posval_cl L HL), (posval_cl C HC). reflexivity.
Qed.

Lemma posrec_values_inert L C ps :
  posval L = true -> posval C = true -> Forall ppair ps ->
  inert (VDict DPlain ([(s_line, L); (s_column, C)] ++ [(s_values, VList ps)])).
Proof.
  intros HL HC Hp. destruct (ppairs_inert ps Hp) as [P1 P2]. split.
  - rewrite cstored_dict. cbn [app flat_map fst snd]. unfold emeasv. rewrite E_line, E_column, E_values.
    rewrite (posval_cstored L HL), (posval_cstored C HC). cbn [cstored]. rewrite P1. reflexivity.
  - cbn [app centry cdm flat_map fst snd]. rewrite (posval_cl L HL), (posval_cl C HC). cbn [cl]. rewrite P2. reflexivity.
Qed.

Lemma cpd_some_inert key vs pd :
  tokOK key -> Forall WF vs -> create_position_dict key (Some vs) = Ok pd -> inert pd.
Proof.
  intros (_ & HL & HC) HF H. unfold create_position_dict in H.
  destruct vs as [|v vs]; [injection H as <-; apply posrec_inert; assumption|].
  destruct (flatten (v :: vs)) as [flat|e] eqn:Ef; cbn [bind] in H; [|discriminate].
  destruct (mapM pos_pair flat) as [ps|e] eqn:Em; cbn [bind] in H; [|discriminate].
  injection H as <-. apply posrec_values_inert; try assumption.
  eapply mapM_pos_pair_WF; [|exact Em]. eapply flatten_WF; [exact HF|exact Ef].
Qed.

Lemma cpd_none_inert key pd : tokOK key -> create_position_dict key None = Ok pd -> inert pd.
Proof. intros (_ & HL & HC) H. injection H as <-. apply posrec_inert; assumption. Qed.

(* ================================================================ attr *)
Lemma lower_tokens : lower s_tokens = s_tokens. Proof. vm_compute. reflexivity. Qed.

Lemma key_name_lower t kn : key_name t = Ok kn -> lower kn = kn.
Proof.
  unfold key_name. destruct (tok_str t) as [s|e]; cbn [bind]; [|discriminate].
  intros [= <-]. apply lower_idem.
Qed.

Definition all_toks (l : list tv) : Prop := Forall (fun e => exists t, e = TTok t) l.

Lemma all_toks_nd l : all_toks l -> nd (VList (map tvv l)) = true.
Proof.
  cbn [nd]. induction 1 as [|x l [t ->] _ IH]; [reflexivity|]. cbn [map forallb tvv nd]. exact IH.
Qed.

Lemma mapM_dot_value vts : forall vals,
  Forall WF vts -> mapM tv_dot_value vts = Ok vals -> all_toks vts /\ forallb nd vals = true.
Proof.
  induction vts as [|x vts IH]; intros vals HF H; cbn [mapM] in H.
  - injection H as <-. split; [constructor|reflexivity].
  - destruct (tv_dot_value x) as [v|e] eqn:Ev; cbn [bind] in H; [|discriminate].
    destruct (mapM tv_dot_value vts) as [vs|e]; cbn [bind] in H; [|discriminate].
    injection H as <-. destruct (IH vs (Forall_inv_tail HF) eq_refl) as [I1 I2].
    destruct x as [|t| |]; try discriminate. injection Ev as <-.
    split; [constructor; [eexists; reflexivity|exact I1]|].
    cbn [forallb]. rewrite I2. destruct (Forall_inv HF) as (Hn & _). rewrite Hn. reflexivity.
Qed.

(* the two bases of attr(): [__position__] and [__position__; __tokens__] *)
Definition base1 (pd : value) : titems := [(s_position, TVal pd)].
Definition base2 (pd : value) (X : tv) : titems := [(s_position, TVal pd); (s_tokens, X)].

Lemma ams_attr1 kn V pd : ams (od_set kn V (base1 pd)) = [].
Proof.
  destruct (str_eqb_spec kn s_comments) as [->|Hne].
  - reflexivity.
  - unfold ams.
    assert (Ha : assoc s_comments (items1_of (od_set kn V (base1 pd))) = None).
    { unfold items1_of. rewrite !get_del_other by discriminate.
      rewrite get_set_other by congruence. reflexivity. }
    rewrite Ha. destruct (items2_of _) as [|? [|? ?]]; reflexivity.
Qed.

Lemma ams_attr2 kn V pd X : ams (od_set kn V (base2 pd X)) = [].
Proof.
  destruct (str_eqb_spec kn s_comments) as [->|Hne].
  - reflexivity.
  - unfold ams.
    assert (Ha : assoc s_comments (items1_of (od_set kn V (base2 pd X))) = None).
    { unfold items1_of. rewrite !get_del_other by discriminate.
      rewrite get_set_other by congruence. reflexivity. }
    rewrite Ha. destruct (items2_of _) as [|? [|? ?]]; reflexivity.
Qed.

Lemma uentry_position pd : inert pd -> uentry s_position (TVal pd).
Proof. intros H. split; [apply lower_position|exact H]. Qed.

Lemma uentry_tokens l : all_toks l -> uentry s_tokens (TSeq l).
Proof. intros H. split; [apply lower_tokens|]. cbn [tvv]. apply nd_inert. apply all_toks_nd. exact H. Qed.

Lemma uentry_nd kn V : lower kn = kn -> nd V = true -> uentry kn (TVal V).
Proof.
  intros Hl Hn. split; [exact Hl|]. destruct (str_eqb kn s_config).
  - intros c cfg E. injection E as ->. discriminate Hn.
  - apply nd_inert. exact Hn.
Qed.

Lemma dmeas_base1 pd : inert pd -> dmeas (base1 pd) = [].
Proof. intros [H _]. unfold dmeas, base1. cbn [flat_map fst snd tvv]. unfold emeasv. rewrite E_position, H. reflexivity. Qed.

Lemma dmeas_base2 pd l : inert pd -> all_toks l -> dmeas (base2 pd (TSeq l)) = [].
Proof.
  intros [H _] Hl. unfold dmeas, base2. cbn [flat_map fst snd]. unfold emeasv. rewrite E_position, E_tokens.
  cbn [tvv]. rewrite H. rewrite (nd_cstored _ (all_toks_nd l Hl)). reflexivity.
Qed.

(* the dict attr() builds from a base whose entries carry nothing *)
Lemma attr_dict_J kn V (base : titems) c :
  WFe base -> WFu base -> dmeas base = [] -> uentry kn (TVal V) -> emeasv kn V = [] ->
  ams (od_set kn (TVal V) base) = [] ->
  WF (TDict c (od_set kn (TVal V) base)) /\ ms (TDict c (od_set kn (TVal V) base)) = [].
Proof.
  intros He Hu Hd Hk Hm Ha. split.
  - apply WF_dict. split; [apply WFe_set; [exact I|exact He]|right]. apply Forall_od_set; assumption.
  - cbn [ms]. unfold dmeas. rewrite fm_nil_od_set; [|exact Hd|exact Hm]. rewrite Ha.
    destruct (typed _); reflexivity.
Qed.

Lemma attr_body_J key kn vts x :
  tokOK key -> lower kn = kn -> Forall WF vts -> attr_body key kn vts = Ok x -> WF x /\ ms x = [].
Proof.
  intros Hk Hl HF H. unfold attr_body in H.
  destruct (create_position_dict key (Some vts)) as [pd|e] eqn:Ep; cbn [bind] in H; [|discriminate].
  pose proof (cpd_some_inert key vts pd Hk HF Ep) as Hpd.
  destruct vts as [|a [|b rest]]; [discriminate| |].
  - destruct a as [v|t|l|c items]; try discriminate. cbn [tok_of bind] in H. injection H as <-.
    assert (Ht : tokOK t) by exact (Forall_inv HF). destruct Ht as (Hn & _).
    assert (Hat : all_toks [TTok key; TTok t]) by (repeat constructor; eexists; reflexivity).
    change (od_set s_tokens (TSeq [TTok key; TTok t]) [(s_position, TVal pd)])
      with (base2 pd (TSeq [TTok key; TTok t])).
    apply attr_dict_J.
    + constructor; [exact I|]. constructor; [|constructor]. cbn [snd]. apply WF_seq.
      constructor; [exact Hk|]. constructor; [exact (Forall_inv HF)|constructor].
    + constructor; [apply uentry_position; exact Hpd|]. constructor; [|constructor].
      apply uentry_tokens. exact Hat.
    + apply dmeas_base2; assumption.
    + apply uentry_nd; [exact Hl|]. rewrite nd_clean_top. exact Hn.
    + apply inert_emeasv, nd_inert. rewrite nd_clean_top. exact Hn.
    + apply ams_attr2.
  - destruct (str_eqb kn s_config) eqn:Ec.
    + destruct rest; [|discriminate].
      destruct (tok_of a) as [ta|e] eqn:Ea; cbn [bind] in H; [|discriminate].
      destruct (tok_of b) as [tb|e] eqn:Eb; cbn [bind] in H; [|discriminate].
      destruct (pk_val ta) as [| | | |ka| |]; try discriminate. cbn [bind] in H. injection H as <-.
      destruct b as [|tb'| |]; try discriminate. injection Eb as ->.
      assert (Htb : tokOK tb) by exact (Forall_inv (Forall_inv_tail HF)). destruct Htb as (Hn & _).
      change [(s_position, TVal pd)] with (base1 pd).
      apply attr_dict_J.
      * constructor; [exact I|constructor].
      * constructor; [apply uentry_position; exact Hpd|constructor].
      * apply dmeas_base1; exact Hpd.
      * split; [exact Hl|]. rewrite Ec. intros c cfg E. injection E as _ <-.
        constructor; [exact Hn|constructor].
      * apply str_eqb_eq in Ec. subst kn. unfold emeasv. rewrite E_config, cstored_dict.
        cbn [flat_map fst snd]. rewrite (inert_emeasv ka _ (nd_inert _ Hn)). reflexivity.
      * apply ams_attr1.
    + destruct (mapM tv_dot_value (a :: b :: rest)) as [vals|e] eqn:Em; cbn [bind] in H; [|discriminate].
      injection H as <-. destruct (mapM_dot_value _ _ HF Em) as [Hat Hnv].
      assert (Hat' : all_toks (TTok key :: a :: b :: rest)) by (constructor; [eexists; reflexivity|exact Hat]).
      change (od_set s_tokens (TSeq (TTok key :: a :: b :: rest)) [(s_position, TVal pd)])
        with (base2 pd (TSeq (TTok key :: a :: b :: rest))).
      apply attr_dict_J.
      * constructor; [exact I|]. constructor; [|constructor]. cbn [snd]. apply WF_seq.
        constructor; [exact Hk|exact HF].
      * constructor; [apply uentry_position; exact Hpd|]. constructor; [|constructor].
        apply uentry_tokens. exact Hat'.
      * apply dmeas_base2; assumption.
      * apply uentry_nd; [exact Hl|exact Hnv].
      * apply inert_emeasv, nd_inert. exact Hnv.
      * apply ams_attr2.
Qed.

Lemma attr_key_WF k0 key : WF k0 -> attr_key k0 = Ok key -> tokOK key.
Proof.
  intros Hp H. destruct k0 as [v|t|l|c items]; try discriminate.
  - injection H as <-. exact Hp.
  - destruct l as [|[|t| |] l]; try discriminate. cbn [attr_key] in H.
    destruct (key_name t) as [kn|e]; cbn [bind] in H; [|discriminate].
    destruct (_ || _); [|discriminate]. injection H as <-.
    apply WF_seq in Hp. exact (Forall_inv Hp).
Qed.

Lemma attr_vtoks_WF vt0 vts : Forall WF vt0 -> attr_vtoks vt0 = Ok vts -> Forall WF vts.
Proof.
  unfold attr_vtoks. intros HF H. destruct vt0 as [|a r]; [discriminate|].
  destruct a as [v|t|l|c items]; try (injection H as <-; exact HF).
  destruct r; [|discriminate]. injection H as <-. apply WF_seq. exact (Forall_inv HF).
Qed.

Lemma cb_attr_J0 tokens x : Forall WF tokens -> cb_attr tokens = Ok x -> WF x /\ ms x = [].
Proof.
  rewrite cb_attr_stages. intros HF H. destruct tokens as [|k0 vt0]; [discriminate|].
  destruct (attr_key k0) as [key|e] eqn:Ek; cbn [bind] in H; [|discriminate].
  destruct (key_name key) as [kn|e] eqn:En; cbn [bind] in H; [|discriminate].
  destruct (attr_vtoks vt0) as [vts|e] eqn:Ev; cbn [bind] in H; [|discriminate].
  eapply attr_body_J; [| | |exact H].
  - eapply attr_key_WF; [exact (Forall_inv HF)|exact Ek].
  - eapply key_name_lower; exact En.
  - eapply attr_vtoks_WF; [exact (Forall_inv_tail HF)|exact Ev].
Qed.

Lemma J_of_nil (t : list tv) x : WF x /\ ms x = [] -> J t x.
Proof. intros [H1 H2]. split; [exact H1|rewrite H2; apply sub_nil_l]. Qed.

Lemma cb_attr_J tokens x : Forall WF tokens -> cb_attr tokens = Ok x -> J tokens x.
Proof. intros HF H. apply J_of_nil. eapply cb_attr_J0; eassumption. Qed.

Lemma tok_of_WF x t : WF x -> tok_of x = Ok t -> tokOK t.
Proof. destruct x; try discriminate. intros H [= <-]. exact H. Qed.

Lemma cb_config_J t x : Forall WF t -> cb_config t = Ok x -> J t x.
Proof.
  unfold cb_config. intros HF H. destruct t as [|k [|a [|b [|? ?]]]]; try discriminate.
  destruct (tok_of a) as [ta|e] eqn:Ea; cbn [bind] in H; [|discriminate].
  destruct (tok_of b) as [tb|e] eqn:Eb; cbn [bind] in H; [|discriminate].
  destruct (tok_str ta) as [ks|e]; cbn [bind] in H; [|discriminate].
  pose proof (Forall_inv HF) as Hk.
  pose proof (tok_of_WF _ _ (Forall_inv (Forall_inv_tail HF)) Ea) as Hta.
  pose proof (tok_of_WF _ _ (Forall_inv (Forall_inv_tail (Forall_inv_tail HF))) Eb) as Htb.
  apply J_of_nil. eapply cb_attr_J0; [|exact H].
  constructor; [exact Hk|]. constructor; [apply tokOK_set; [exact Hta|reflexivity]|].
  constructor; [|constructor]. apply tokOK_set; [exact Htb|]. rewrite nd_clean_top. apply Htb.
Qed.

(* check_composite_tokens hands back well-formed pieces *)
Lemma cct_WF name tokens key body :
  Forall WF tokens -> check_composite_tokens name tokens = Ok (key, body) -> tokOK key /\ Forall WF body.
Proof.
  intros HF H. unfold check_composite_tokens in H.
  destruct tokens as [|k [|r0 rest]]; try discriminate.
  destruct (tok_of k) as [key0|e] eqn:Ek; cbn [bind] in H; [|discriminate].
  destruct (tok_str key0) as [ks|e]; cbn [bind] in H; [|discriminate].
  destruct (match last_opt (r0 :: rest) with Some x => tok_of x | None => vfail end) as [lastt|e];
    cbn [bind] in H; [|discriminate].
  destruct (tok_str lastt) as [ls|e]; cbn [bind] in H; [|discriminate].
  destruct (_ && _); [|discriminate].
  match type of H with bind (mapM ?f ?l) _ = _ => destruct (mapM f l) as [bt|e] eqn:Em end;
    cbn [bind] in H; [|discriminate].
  injection H as <- <-. split; [exact (tok_of_WF _ _ (Forall_inv HF) Ek)|].
  assert (HR : Forall WF (removelast (r0 :: rest))).
  { pose proof (Forall_inv_tail HF) as HT. clear -HT. revert HT. generalize (r0 :: rest) as l.
    induction l as [|a l IH]; intros HT; [constructor|].
    destruct l as [|b l]; [constructor|].
    change (Forall WF (a :: removelast (b :: l))). constructor; [exact (Forall_inv HT)|].
    apply IH. exact (Forall_inv_tail HT). }
  clear -HR Em. revert bt Em. induction HR as [|x l Hx _ IH]; intros bt Em; cbn [mapM] in Em.
  - injection Em as <-. constructor.
  - match type of Em with bind ?r _ = _ => destruct r as [y|e] eqn:Ey end; cbn [bind] in Em; [|discriminate].
    destruct (mapM _ l) as [ys|e]; cbn [bind] in Em; [|discriminate]. injection Em as <-.
    constructor; [|apply IH; reflexivity].
    destruct x as [| | |c items]; try (injection Ey as <-; exact Hx).
    destruct (assoc s_tokens items) as [x0|] eqn:Ea; [|discriminate]. injection Ey as <-.
    apply WF_dict in Hx. exact (WFe_get _ _ _ (proj1 Hx) Ea).
Qed.

Lemma mapM_nd {A} (f : A -> res value) (P : A -> Prop) l : forall out,
  (forall v y, P v -> f v = Ok y -> nd y = true) ->
  Forall P l -> mapM f l = Ok out -> forallb nd out = true.
Proof.
  induction l as [|x l IH]; intros out Hf HF H; cbn [mapM] in H.
  - injection H as <-. reflexivity.
  - destruct (f x) as [y|e] eqn:Ey; cbn [bind] in H; [|discriminate].
    destruct (mapM f l) as [ys|e]; cbn [bind] in H; [|discriminate]. injection H as <-.
    cbn [forallb]. rewrite (Hf x y (Forall_inv HF) Ey). apply (IH ys Hf (Forall_inv_tail HF) eq_refl).
Qed.

Lemma tv_dot_value_nd x v : WF x -> tv_dot_value x = Ok v -> nd v = true.
Proof. destruct x; try discriminate. intros H [= <-]. apply H. Qed.

Lemma cb_projection_J t x : Forall WF t -> cb_projection t = Ok x -> J t x.
Proof.
  unfold cb_projection. intros HF H.
  destruct (check_composite_tokens (Str "projection") t) as [[key body]|e] eqn:Ec; cbn [bind] in H; [|discriminate].
  destruct (cct_WF _ _ _ _ HF Ec) as [_ Hb].
  match type of H with bind (mapM ?f ?l) _ = _ => destruct (mapM f l) as [strs|e] eqn:Em end;
    cbn [bind] in H; [|discriminate].
  destruct t as [|k [|v1 rest]]; try discriminate.
  destruct (tok_of v1) as [vt|e] eqn:Ev; cbn [bind] in H; [|discriminate].
  apply J_of_nil. eapply cb_attr_J0; [|exact H].
  constructor; [exact (Forall_inv HF)|]. constructor; [|constructor].
  apply tokOK_set; [exact (tok_of_WF _ _ (Forall_inv (Forall_inv_tail HF)) Ev)|].
  cbn [nd]. eapply (mapM_nd _ WF); [|exact Hb|exact Em].
  intros v y Hv Hy. cbn beta in Hy. destruct (tv_dot_value v) as [w|e] eqn:Ew; cbn [bind] in Hy; [|discriminate].
  injection Hy as <-. rewrite nd_clean_string. eapply tv_dot_value_nd; eassumption.
Qed.

Lemma seq_item_value_nd x i v : WF x -> seq_item_value x i = Ok v -> nd v = true.
Proof.
  destruct x as [| |l|]; try discriminate. intros Hx H. cbn [seq_item_value] in H. unfold nth_tv in H.
  destruct (nth_error l i) as [e|] eqn:En; cbn [bind] in H; [|discriminate].
  apply WF_seq in Hx. rewrite Forall_forall in Hx. eapply tv_dot_value_nd; [|exact H].
  apply Hx. eapply nth_error_In. exact En.
Qed.

Lemma process_pair_lists_J name t x : Forall WF t -> process_pair_lists name t = Ok x -> J t x.
Proof.
  unfold process_pair_lists. intros HF H.
  destruct (check_composite_tokens name t) as [[key body]|e] eqn:Ec; cbn [bind] in H; [|discriminate].
  destruct (cct_WF _ _ _ _ HF Ec) as [_ Hb].
  match type of H with bind (mapM ?f ?l) _ = _ => destruct (mapM f l) as [pairs|e] eqn:Em end;
    cbn [bind] in H; [|discriminate].
  destruct t as [|k [|[| |[|[|vt| |] l0]|] rest]]; try discriminate.
  apply J_of_nil. eapply cb_attr_J0; [|exact H].
  constructor; [exact (Forall_inv HF)|]. constructor; [|constructor].
  pose proof (Forall_inv (Forall_inv_tail HF)) as Hs. apply WF_seq in Hs.
  apply tokOK_set; [exact (Forall_inv Hs)|].
  cbn [nd]. eapply (mapM_nd _ WF); [|exact Hb|exact Em].
  intros v y Hv Hy. cbn beta in Hy.
  destruct (seq_item_value v 0) as [a|e] eqn:Ea; cbn [bind] in Hy; [|discriminate].
  destruct (seq_item_value v 1) as [b|e] eqn:Eb; cbn [bind] in Hy; [|discriminate].
  injection Hy as <-. cbn [nd forallb].
  rewrite (seq_item_value_nd _ _ _ Hv Ea), (seq_item_value_nd _ _ _ Hv Eb). reflexivity.
Qed.

(* ================================================================ composite: the running state *)
Definition pinert (po : option (list (str * value))) : Prop :=
  forall p, po = Some p -> cstored (VDict DPlain p) = [].

Definition STI (st : cstate) : Prop := WFe (cs_dict st) /\ pinert (cs_pos st).

Definition stm (st : cstate) : list str := dmeas (cs_dict st) ++ cdm (cs_comments st).

Lemma stm_step (d' d : titems) (cm : list (str * value)) X :
  sub (dmeas d') (dmeas d ++ X) -> sub (dmeas d' ++ cdm cm) ((dmeas d ++ cdm cm) ++ X).
Proof.
  intros H. eapply sub_trans; [apply sub_app; [exact H|apply sub_refl]|]. apply sub_app_swap.
Qed.

Lemma emeasv_append k l a : sub (emeasv k (VList (l ++ [a]))) (emeasv k (VList l) ++ cstored a).
Proof.
  unfold emeasv. destruct (str_eqb k s_comments); [apply sub_nil_l|].
  cbn [cstored]. rewrite flat_map_app. cbn [flat_map]. rewrite app_nil_r. apply sub_refl.
Qed.

Lemma emeasv_nil_list k : emeasv k (VList []) = [].
Proof. unfold emeasv. destruct (str_eqb k s_comments); reflexivity. Qed.

Lemma tla_tvv cur e cur' :
  tv_list_append cur e = Ok cur' -> exists l, tvv cur = VList l /\ tvv cur' = VList (l ++ [tvv e]).
Proof.
  unfold tv_list_append. intros H. destruct cur as [[| | | | |l|]| |l|]; try discriminate.
  - destruct e as [v| | |]; injection H as <-.
    + exists l. split; reflexivity.
    + exists l. split; [reflexivity|]. cbn [tvv]. rewrite map_app, map_map. cbn [tvv map]. rewrite map_id. reflexivity.
    + exists l. split; [reflexivity|]. cbn [tvv]. rewrite map_app, map_map. cbn [tvv map]. rewrite map_id. reflexivity.
    + exists l. split; [reflexivity|]. cbn [tvv]. rewrite map_app, map_map. cbn [tvv map]. rewrite map_id. reflexivity.
  - injection H as <-. exists (map tvv l). split; [reflexivity|]. cbn [tvv]. rewrite map_app. reflexivity.
Qed.

Lemma tla_WF cur e cur' : WF cur -> WF e -> tv_list_append cur e = Ok cur' -> WF cur'.
Proof.
  unfold tv_list_append. intros Hc He H. destruct cur as [[| | | | |l|]| |l|]; try discriminate.
  - destruct e as [v| | |]; injection H as <-; try exact I;
      (apply WF_seq; apply Forall_app; split; [apply Forall_forall; intros x Hx; apply in_map_iff in Hx;
                                                 destruct Hx as (v0 & <- & _); exact I
                                              |constructor; [exact He|constructor]]).
  - injection H as <-. apply WF_seq. apply Forall_app. split; [apply WF_seq; exact Hc|constructor; [exact He|constructor]].
Qed.

(* appending under a key: the entry grows by what the new element carries *)
Lemma append_under_J k (dict : titems) e cur' :
  WFe dict -> WF e ->
  tv_list_append (match assoc k dict with Some x => x | None => TSeq [] end) e = Ok cur' ->
  WFe (od_set k cur' dict) /\ sub (dmeas (od_set k cur' dict)) (dmeas dict ++ cstored (tvv e)).
Proof.
  intros Hd He H. split.
  - apply WFe_set; [|exact Hd]. eapply tla_WF; [|exact He|exact H].
    destruct (assoc k dict) as [x|] eqn:Ea; [exact (WFe_get _ _ _ Hd Ea)|exact I].
  - destruct (tla_tvv _ _ _ H) as (l & E1 & E2). unfold dmeas.
    apply fm_set_sub; cbn [fst snd].
    + intros old Ha. rewrite Ha in E1. rewrite E1, E2. apply emeasv_append.
    + intros Ha. rewrite Ha in E1. cbn [tvv map] in E1. injection E1 as <-. rewrite E2.
      eapply sub_trans; [apply emeasv_append|]. rewrite emeasv_nil_list. apply sub_refl.
Qed.

Lemma singleton_not_comments :
  forallb (fun k => negb (str_eqb (lower k) s_comments)) SINGLETON_COMPOSITE_NAMES = true.
Proof. vm_compute. reflexivity. Qed.

Lemma ci_typed_J st d ty st' :
  STI st -> WF d -> ci_typed st d ty = Ok st' -> STI st' /\ sub (stm st') (stm st ++ ms d).
Proof.
  intros [Hd Hp] Hw H. unfold ci_typed in H.
  destruct ty as [[| | | |k| |]| | |]; try discriminate. cbn [bind] in H.
  destruct (mem_str k SINGLETON_COMPOSITE_NAMES) eqn:Es.
  - injection H as <-. split; [split; [apply WFe_set; assumption|exact Hp]|].
    unfold stm. cbn [cs_dict cs_comments]. apply stm_step. unfold ci_set, dmeas.
    eapply sub_trans; [apply fm_set_add|]. apply sub_app; [apply sub_refl|]. cbn [fst snd].
    pose proof singleton_not_comments as Hs. rewrite forallb_forall in Hs.
    specialize (Hs k (proj1 (mem_str_In _ _) Es)). apply negb_true_iff in Hs.
    unfold emeasv. rewrite Hs. apply cstored_tvv_sub.
  - unfold ci_get in H.
    destruct (tv_list_append _ d) as [cur'|e] eqn:Ea; cbn [bind] in H; [|discriminate].
    injection H as <-. destruct (append_under_J _ _ _ _ Hd Hw Ea) as [A1 A2].
    split; [split; [exact A1|exact Hp]|].
    unfold stm. cbn [cs_dict cs_comments]. apply stm_step. unfold ci_set.
    eapply sub_trans; [exact A2|]. apply sub_app; [apply sub_refl|apply cstored_tvv_sub].
Qed.

(* ---------------------------------------------------------------- config *)
Lemma cfg_fold_J cfg : Forall (fun kv => nd (snd kv) = true) cfg -> forall cur,
  WFe cur -> (typed cur = true \/ WFu cur) ->
  WFe (cfg_fold cfg cur) /\ (typed (cfg_fold cfg cur) = true \/ WFu (cfg_fold cfg cur))
  /\ sub (dmeas (cfg_fold cfg cur)) (dmeas cur).
Proof.
  induction 1 as [|[k v] cfg Hv _ IH]; intros cur He Hu; [split; [exact He|split; [exact Hu|apply sub_refl]]|].
  cbn [snd] in Hv. unfold cfg_fold. cbn [fold_left fst snd]. fold (cfg_fold cfg (ci_set k (TVal v) cur)).
  destruct (IH (ci_set k (TVal v) cur)) as (I1 & I2 & I3).
  - apply WFe_set; [exact I|exact He].
  - destruct Hu as [Hu|Hu]; [left; apply typed_set; exact Hu|right].
    apply Forall_od_set; [exact Hu|]. apply uentry_nd; [apply lower_idem|exact Hv].
  - split; [exact I1|split; [exact I2|]]. eapply sub_trans; [exact I3|].
    unfold ci_set, dmeas. apply fm_set_nil. cbn [fst snd tvv]. apply inert_emeasv, nd_inert. exact Hv.
Qed.

Lemma cfg_cur_WF dict : WFe dict -> WFe (cfg_cur dict) /\ (typed (cfg_cur dict) = true \/ WFu (cfg_cur dict)).
Proof.
  intros Hd. unfold cfg_cur, ci_get.
  destruct (assoc (lower s_config) dict) as [[| | |c items]|] eqn:Ea;
    try (split; [constructor|right; constructor]).
  pose proof (WFe_get _ _ _ Hd Ea) as Hw. apply WF_dict in Hw. exact Hw.
Qed.

Lemma process_config_J st v pos st' :
  STI st -> inert pos -> cfgok v ->
  process_config st [(s_config, v)] pos = Ok st' -> STI st' /\ sub (stm st') (stm st).
Proof.
  intros [Hd Hp] Hpos Hc H. unfold process_config in H.
  destruct (assoc s_config [(s_config, v)]) as [a|] eqn:Ea; [|discriminate].
  cbn [assoc] in Ea. rewrite str_eqb_refl in Ea. injection Ea as <-.
  destruct v as [[| | | | | |c cfg]| | |]; try discriminate.
  specialize (Hc c cfg eq_refl).
  match type of H with bind ?r _ = _ => destruct r as [p'|e] eqn:Epp end; cbn [bind] in H; [|discriminate].
  injection H as <-.
  change (match ci_get s_config (cs_dict st) with Some (TDict _ items) => items | _ => [] end)
    with (cfg_cur (cs_dict st)).
  change (fold_left (fun (d : titems) (kv : str * value) => ci_set (fst kv) (TVal (snd kv)) d) cfg (cfg_cur (cs_dict st)))
    with (cfg_fold cfg (cfg_cur (cs_dict st))).
  destruct (cfg_cur_WF _ Hd) as [C1 C2].
  destruct (cfg_fold_J cfg Hc _ C1 C2) as (F1 & F2 & F3).
  split; [split|]; cbn [cs_dict cs_pos cs_comments].
  - apply WFe_set; [|exact Hd]. apply WF_dict. split; assumption.
  - (* positions *)
    intros p Ep. subst p'. destruct (cs_pos st) as [pitems|] eqn:Eps; [|discriminate].
    destruct cfg as [|[sb ?] [|? ?]]; try discriminate. injection Epp as <-.
    rewrite cstored_dict. apply fm_nil_od_set.
    + rewrite <- (cstored_dict DPlain). apply Hp. reflexivity.
    + cbn [fst snd]. unfold emeasv. rewrite E_config, cstored_dict. apply fm_nil_od_set.
      * destruct (assoc s_config pitems) as [[| | | | | |c0 x]|] eqn:Eo; try reflexivity.
        pose proof (Hp pitems eq_refl) as Hpi. rewrite cstored_dict in Hpi.
        pose proof (fm_nil_assoc _ _ _ _ Hpi Eo) as Ho. cbn [fst snd] in Ho.
        unfold emeasv in Ho. rewrite E_config in Ho. rewrite cstored_dict in Ho. exact Ho.
      * cbn [fst snd]. apply inert_emeasv. exact Hpos.
  - unfold stm. cbn [cs_dict cs_comments]. rewrite <- (app_nil_r (dmeas (cs_dict st) ++ _)).
    apply stm_step. unfold ci_set. rewrite lower_config. unfold dmeas at 1 2.
    assert (Hnew : emeasv s_config (tvv (TDict (DCI true) (cfg_fold cfg (cfg_cur (cs_dict st)))))
                   = dmeas (cfg_fold cfg (cfg_cur (cs_dict st)))).
    { unfold emeasv. rewrite E_config. apply cstored_tvv_dict. }
    apply fm_set_sub; cbn [fst snd]; rewrite Hnew.
    + intros old Ho. rewrite app_nil_r. eapply sub_trans; [exact F3|].
      unfold cfg_cur, ci_get. rewrite lower_config, Ho.
      destruct old as [| | |c0 its]; try apply sub_nil_l.
      unfold emeasv. rewrite E_config, cstored_tvv_dict. apply sub_refl.
    + intros Ho. eapply sub_trans; [exact F3|]. unfold cfg_cur, ci_get. rewrite lower_config, Ho. apply sub_refl.
Qed.

(* ---------------------------------------------------------------- points *)
Lemma points_new_J dict newv dict' :
  WFe dict -> inert newv -> points_new dict newv = Ok dict' -> WFe dict' /\ sub (dmeas dict') (dmeas dict).
Proof.
  intros Hd Hn H. unfold points_new, ci_get in H. rewrite lower_points in H.
  destruct (assoc s_points dict) as [[existing| | |]|] eqn:Ea; try discriminate.
  - destruct (calculate_depth existing) as [dep|e]; cbn [bind] in H; [|discriminate].
    assert (G : forall l, flat_map cstored l = cstored existing ->
                Ok (ci_set s_points (TVal (VList (l ++ [newv]))) dict) = Ok dict' ->
                WFe dict' /\ sub (dmeas dict') (dmeas dict)).
    { intros l Hl Hr. injection Hr as <-. split; [apply WFe_set; [exact I|exact Hd]|].
      unfold ci_set. rewrite lower_points. rewrite <- (app_nil_r (dmeas dict)). unfold dmeas.
      apply fm_set_sub; cbn [fst snd tvv].
      - intros old Ho. rewrite Ea in Ho. injection Ho as <-. cbn [tvv]. rewrite app_nil_r.
        unfold emeasv. rewrite E_points. cbn [cstored]. rewrite flat_map_app. cbn [flat_map].
        rewrite (proj1 Hn), !app_nil_r, Hl. apply sub_refl.
      - intros Ho. rewrite Ea in Ho. discriminate. }
    destruct (dep =? 2)%Z.
    + apply (G [existing]); [cbn [flat_map]; apply app_nil_r|exact H].
    + destruct existing as [| | | | |l|]; try discriminate. apply (G l); [reflexivity|exact H].
  - injection H as <-. split; [apply WFe_set; [exact I|exact Hd]|].
    unfold ci_set, dmeas. apply fm_set_nil. cbn [fst snd tvv]. apply inert_emeasv. exact Hn.
Qed.

Lemma process_points_J st v pos st' :
  STI st -> inert pos -> inert (tvv v) ->
  process_points st [(s_points, v)] pos = Ok st' -> STI st' /\ sub (stm st') (stm st).
Proof.
  intros [Hd Hp] Hpos Hv H. unfold process_points in H.
  destruct (assoc s_points [(s_points, v)]) as [a|] eqn:Ea; [|discriminate].
  cbn [assoc] in Ea. rewrite str_eqb_refl in Ea. injection Ea as <-.
  destruct v as [newv| | |]; try discriminate. cbn [tvv] in Hv.
  fold (points_new (cs_dict st) newv) in H.
  destruct (points_new (cs_dict st) newv) as [d'|e] eqn:En; cbn [bind] in H; [|discriminate].
  injection H as <-. destruct (points_new_J _ _ _ Hd Hv En) as [P1 P2].
  split; [split|]; cbn [cs_dict cs_pos cs_comments].
  - exact P1.
  - intros p Ep. destruct (cs_pos st) as [pitems|] eqn:Eps; [|discriminate].
    pose proof (Hp pitems eq_refl) as Hpi. rewrite cstored_dict in Hpi.
    destruct (assoc s_points pitems) as [old|] eqn:Eo.
    + pose proof (fm_nil_assoc _ _ _ _ Hpi Eo) as Ho. cbn [fst snd] in Ho.
      unfold emeasv in Ho. rewrite E_points in Ho.
      destruct old as [| | | | |l|c x]; injection Ep as <-; try (rewrite cstored_dict; exact Hpi).
      * rewrite cstored_dict. apply fm_nil_od_set; [exact Hpi|]. cbn [fst snd]. unfold emeasv. rewrite E_points.
        cbn [cstored] in *. rewrite flat_map_app. cbn [flat_map]. rewrite Ho, (proj1 Hpos). reflexivity.
      * rewrite cstored_dict. apply fm_nil_od_set; [exact Hpi|]. cbn [fst snd]. unfold emeasv. rewrite E_points.
        change (cstored (VList [VDict c x; pos])) with (cstored (VDict c x) ++ cstored pos ++ []).
        rewrite Ho, (proj1 Hpos). reflexivity.
    + injection Ep as <-. rewrite cstored_dict. apply fm_nil_od_set; [exact Hpi|].
      cbn [fst snd]. apply inert_emeasv. exact Hpos.
  - unfold stm. cbn [cs_dict cs_comments]. apply sub_app; [exact P2|apply sub_refl].
Qed.

(* ---------------------------------------------------------------- the untyped branch *)
Definition hoisted (comments : option tv) : list str :=
  match comments with Some (TVal v) => cl v | _ => [] end.

Lemma cm_new_sub ic comments kn cm : sub (cdm (cm_new ic comments kn cm)) (cdm cm ++ hoisted comments).
Proof.
  unfold cm_new, hoisted.
  destruct comments as [[[| | | | |[|c0 l]|]| | |]|]; try apply sub_app_l.
  destruct ic; [|apply sub_app_l]. unfold cdm. apply (fm_set_add (fun kv : str * value => cl (snd kv))).
Qed.

Lemma ci_untyped_J ic st pos comments kn v st' :
  STI st -> inert pos -> uentry kn v -> WF v ->
  ci_untyped ic st pos comments [(kn, v)] = Ok st' ->
  STI st' /\ sub (stm st') (stm st ++ hoisted comments).
Proof.
  intros HS Hpos [Hl Hu] Hw H. unfold ci_untyped in H.
  destruct (str_eqb kn s_config) eqn:Ec.
  { apply str_eqb_eq in Ec. subst kn.
    destruct (process_config_J _ _ _ _ HS Hpos Hu H) as [A B]. split; [exact A|].
    eapply sub_trans; [exact B|apply sub_app_l]. }
  destruct (str_eqb kn s_points) eqn:Ept.
  { apply str_eqb_eq in Ept. subst kn.
    destruct (process_points_J _ _ _ _ HS Hpos Hu H) as [A B]. split; [exact A|].
    eapply sub_trans; [exact B|apply sub_app_l]. }
  destruct HS as [Hd Hp].
  destruct (mem_str kn REPEATED_KEYS).
  - unfold ci_get in H. rewrite Hl in H.
    destruct (tv_list_append _ v) as [cur'|e] eqn:Ea; cbn [bind] in H; [|discriminate].
    injection H as <-. destruct (append_under_J _ _ _ _ Hd Hw Ea) as [A1 A2].
    split; [split|]; cbn [cs_dict cs_pos cs_comments].
    + unfold ci_set. rewrite Hl. exact A1.
    + intros p Ep. destruct (cs_pos st) as [pitems|] eqn:Eps; [|discriminate]. injection Ep as <-.
      pose proof (Hp pitems eq_refl) as Hpi. rewrite cstored_dict in Hpi.
      rewrite cstored_dict. apply fm_nil_od_set; [exact Hpi|]. cbn [fst snd].
      unfold emeasv. destruct (str_eqb kn s_comments) eqn:Ek; [reflexivity|].
      cbn [cstored]. rewrite flat_map_app. cbn [flat_map]. rewrite (proj1 Hpos), !app_nil_r.
      destruct (assoc kn pitems) as [[| | | | |l|]|] eqn:Eo; try reflexivity.
      pose proof (fm_nil_assoc _ _ _ _ Hpi Eo) as Ho. cbn [fst snd] in Ho.
      unfold emeasv in Ho. rewrite Ek in Ho. exact Ho.
    + unfold stm. cbn [cs_dict cs_comments]. eapply sub_trans; [|apply sub_app_l].
      rewrite <- (app_nil_r (dmeas (cs_dict st) ++ _)). apply stm_step. unfold ci_set. rewrite Hl.
      rewrite <- (proj1 Hu). exact A2.
  - injection H as <-. split; [split|]; cbn [cs_dict cs_pos cs_comments].
    + apply WFe_set; assumption.
    + intros p Ep. destruct (cs_pos st) as [pitems|] eqn:Eps; [|discriminate]. injection Ep as <-.
      pose proof (Hp pitems eq_refl) as Hpi. rewrite cstored_dict in Hpi.
      rewrite cstored_dict. apply fm_nil_od_set; [exact Hpi|]. cbn [fst snd]. apply inert_emeasv. exact Hpos.
    + unfold stm. cbn [cs_dict cs_comments]. rewrite <- app_assoc. apply sub_app; [|apply cm_new_sub].
      unfold ci_set, dmeas. apply fm_set_nil. cbn [fst snd]. apply inert_emeasv. exact Hu.
Qed.

Lemma composite_item_J ic st d st' :
  STI st -> WF d -> composite_item ic st d = Ok st' -> STI st' /\ sub (stm st') (stm st ++ ms d).
Proof.
  intros HS Hw H. rewrite composite_item_stages in H. destruct d as [| | |c items]; try discriminate.
  destruct (assoc s_type items) as [ty|] eqn:Et.
  - eapply ci_typed_J; eassumption.
  - apply WF_dict in Hw. destruct Hw as [He [Hty|Hu]]; [rewrite typed_assoc, Et in Hty; discriminate|].
    destruct (assoc s_position items) as [[p| | |]|] eqn:Ep; try discriminate. cbn [bind] in H.
    assert (Hpos : inert p).
    { unfold WFu in Hu. rewrite Forall_forall in Hu. destruct (Hu _ (assoc_Some_in _ _ _ Ep)) as [_ Hx].
      cbn [fst snd] in Hx. exact Hx. }
    cbn [ms]. rewrite typed_assoc, Et. unfold ams.
    destruct (items2_of items) as [|[kn v] [|? ?]] eqn:E2; try discriminate.
    assert (Hin : In (kn, v) items).
    { assert (Hi : In (kn, v) (items2_of items)) by (rewrite E2; left; reflexivity).
      unfold items2_of, items1_of in Hi. repeat apply In_od_del in Hi. exact Hi. }
    unfold WFu in Hu. rewrite Forall_forall in Hu. unfold WFe in He. rewrite Forall_forall in He.
    destruct (ci_untyped_J ic st p _ kn v st' HS Hpos (Hu _ Hin) (He _ Hin) H) as [A B].
    split; [exact A|]. eapply sub_trans; [exact B|]. apply sub_app; [apply sub_refl|]. apply sub_app_r.
Qed.

(* ================================================================ composite *)
Lemma comp_fold_J ic l : Forall WF l -> forall st s,
  STI st -> comp_fold ic l (Ok st) = Ok s -> STI s /\ sub (stm s) (stm st ++ flat_map ms l).
Proof.
  induction 1 as [|d l Hd _ IH]; intros st s HS H.
  - cbn in H. injection H as <-. split; [exact HS|]. cbn [flat_map]. rewrite app_nil_r. apply sub_refl.
  - cbn [comp_fold fold_left comp_step bind] in H.
    destruct (composite_item ic st d) as [s1|e] eqn:E1;
      [|fold (comp_fold ic l (Err e)) in H; rewrite comp_fold_err in H; discriminate].
    destruct (composite_item_J ic st d s1 HS Hd E1) as [A1 A2].
    destruct (IH s1 s A1 H) as [B1 B2]. split; [exact B1|].
    eapply sub_trans; [exact B2|]. cbn [flat_map]. rewrite app_assoc. apply sub_app; [exact A2|apply sub_refl].
Qed.

Lemma emeasv_str k s : emeasv k (VStr s) = [].
Proof. unfold emeasv. destruct (str_eqb k s_comments); reflexivity. Qed.

Lemma comp_finish_J ic st x :
  STI st -> hk (cs_dict st) = Some s_type -> comp_finish ic st = Ok x -> WF x /\ sub (ms x) (stm st).
Proof.
  intros [Hd Hp] Hk H. unfold comp_finish in H. cbv zeta in H. unfold stm.
  destruct (cs_dict st) as [|[k1 v1] r1]; [discriminate|]. cbn [hk] in Hk. injection Hk as ->.
  injection H as <-.
  assert (Hty : typed ((s_type, v1)
      :: match cs_pos st with Some p => [(s_position, TVal (VDict DPlain p))] | None => [] end
         ++ (if ic then [(s_comments, TVal (VDict DPlain (cs_comments st)))] else []) ++ r1) = true).
  { unfold typed. cbn [od_mem]. rewrite str_eqb_refl. reflexivity. }
  split.
  - apply WF_dict. split; [|left; exact Hty].
    unfold WFe in *. constructor; [exact (Forall_inv Hd)|]. apply Forall_app. split.
    + destruct (cs_pos st); constructor; [exact I|constructor].
    + apply Forall_app. split; [|exact (Forall_inv_tail Hd)].
      destruct ic; constructor; [exact I|constructor].
  - cbn [ms]. rewrite Hty, app_nil_r. unfold dmeas. cbn [flat_map]. rewrite !flat_map_app.
    assert (P0 : flat_map (fun kv : str * tv => emeasv (fst kv) (tvv (snd kv)))
                   match cs_pos st with Some p => [(s_position, TVal (VDict DPlain p))] | None => [] end = []).
    { destruct (cs_pos st) as [p|] eqn:Eps; [|reflexivity]. cbn [flat_map fst snd tvv].
      unfold emeasv. rewrite E_position, (Hp p eq_refl). reflexivity. }
    rewrite P0. cbn [app]. rewrite <- app_assoc. apply sub_app; [apply sub_refl|].
    destruct ic.
    + cbn [flat_map fst snd tvv]. unfold emeasv. rewrite E_comments. cbn [centry]. rewrite app_nil_r.
      apply sub_perm. apply Permutation_app_comm.
    + cbn [flat_map app]. apply sub_app_l.
Qed.

Lemma attrs_of_WF x : WF x -> Forall WF (attrs_of x).
Proof. destruct x; cbn [attrs_of]; intros H; try (constructor; [exact H|constructor]). apply WF_seq. exact H. Qed.

Lemma attrs_of_ms x : sub (flat_map ms (attrs_of x)) (ms x).
Proof. destruct x; cbn [attrs_of flat_map]; rewrite ?app_nil_r; apply sub_refl. Qed.

Lemma comp_init_STI ip key kn pd : tokOK key -> comp_pd ip key = Ok pd -> STI (comp_init kn pd).
Proof.
  intros Hk H. split; cbn [comp_init cs_dict cs_pos].
  - unfold ci_set. cbn. constructor; [exact I|constructor].
  - intros p Ep. unfold comp_pd in H. destruct ip; [|injection H as <-; discriminate].
    destruct (create_position_dict key None) as [p0|e] eqn:Ec; cbn [bind] in H; [|discriminate].
    injection H as <-. pose proof (cpd_none_inert key p0 Hk Ec) as [Hi _].
    injection Ec as <-. cbn [pos_get] in Ep. injection Ep as <-. exact Hi.
Qed.

Lemma comp_init_stm kn pd : stm (comp_init kn pd) = [].
Proof.
  unfold stm, comp_init, ci_set. cbn [cs_dict cs_comments cdm flat_map]. rewrite lower_type.
  unfold dmeas. cbn [od_set od_mem app flat_map fst snd tvv]. rewrite emeasv_str. reflexivity.
Qed.

Lemma cb_composite_J ip ic t x : Forall WF t -> cb_composite ip ic t = Ok x -> J t x.
Proof.
  rewrite cb_composite_stages. intros HF H.
  destruct t as [|a [|b r]]; [discriminate| |].
  - injection H as <-. apply J_head. exact HF.
  - destruct a as [| |[|[|key| |] l]|]; try discriminate.
    pose proof (Forall_inv HF) as Ha. apply WF_seq in Ha. pose proof (Forall_inv Ha) as Hkey.
    pose proof (Forall_inv (Forall_inv_tail HF)) as Hb.
    unfold comp_main in H.
    destruct (key_name key) as [kn|e]; cbn [bind] in H; [|discriminate].
    destruct (comp_pd ip key) as [pd|e] eqn:Epd; cbn [bind] in H; [|discriminate].
    destruct (comp_fold ic _ _) as [st|e] eqn:F1; cbn [bind] in H; [|discriminate].
    destruct (comp_fold_J ic _ (attrs_of_WF b Hb) _ _ (comp_init_STI ip key kn pd Hkey Epd) F1) as [S1 S2].
    destruct (comp_finish_J ic st x S1 (comp_fold_hk ic _ _ _ _ F1 (comp_init_hk kn pd)) H) as [W1 W2].
    split; [exact W1|]. eapply sub_trans; [exact W2|]. eapply sub_trans; [exact S2|].
    rewrite comp_init_stm. cbn [app]. eapply sub_trans; [apply attrs_of_ms|].
    cbn [flat_map]. eapply sub_trans; [apply sub_app_l|apply sub_app_r].
Qed.

(* ================================================================ key-value blocks *)
Lemma pvp_fold_J body : Forall WF body -> forall d0 d,
  WFe d0 -> dmeas d0 = [] -> fold_left pvp_step body (Ok d0) = Ok d -> WFe d /\ dmeas d = [].
Proof.
  induction 1 as [|t body Ht _ IH]; intros d0 d He Hm H.
  - cbn in H. injection H as <-. auto.
  - cbn [fold_left] in H. unfold pvp_step at 2 in H. cbn [bind] in H.
    destruct (seq_item_value t 0) as [kv|e] eqn:E0; cbn [bind] in H; [|rewrite pvp_fold_err in H; discriminate].
    destruct (seq_item_value t 1) as [vv|e] eqn:E1; cbn [bind] in H; [|rewrite pvp_fold_err in H; discriminate].
    destruct (value_as_str (clean_top kv)) as [ks|e]; cbn [bind] in H; [|rewrite pvp_fold_err in H; discriminate].
    apply (IH _ _) in H; [exact H| |].
    + apply WFe_set; [exact I|exact He].
    + unfold ci_set, dmeas. apply fm_nil_od_set; [exact Hm|]. cbn [fst snd tvv].
      apply inert_emeasv, nd_inert. rewrite nd_clean_top. eapply seq_item_value_nd; eassumption.
Qed.

Lemma process_value_pairs_J ip t ty x : Forall WF t -> process_value_pairs ip t ty = Ok x -> J t x.
Proof.
  rewrite process_value_pairs_stages. intros HF H.
  destruct (check_composite_tokens ty t) as [[key body]|e] eqn:Ec; cbn [bind fst snd] in H; [|discriminate].
  destruct (cct_WF _ _ _ _ HF Ec) as [Hkey Hb].
  destruct (key_name key) as [kn|e]; cbn [bind] in H; [|discriminate].
  destruct (fold_left pvp_step body (Ok [])) as [d|e] eqn:Ef; cbn [bind] in H; [|discriminate].
  destruct (pvp_fold_J body Hb [] d (Forall_nil _) eq_refl Ef) as [D1 D2].
  destruct (pvp_pos ip key body d) as [d1|e] eqn:Ep; cbn [bind] in H; [|discriminate].
  injection H as <-.
  assert (D : WFe d1 /\ dmeas d1 = []).
  { unfold pvp_pos in Ep. destruct ip; [|injection Ep as <-; auto].
    destruct (create_position_dict key (Some body)) as [pd|e] eqn:Epd; cbn [bind] in Ep; [|discriminate].
    injection Ep as <-. split; [apply WFe_set; [exact I|exact D1]|].
    unfold ci_set, dmeas. apply fm_nil_od_set; [exact D2|]. cbn [fst snd tvv].
    apply inert_emeasv. eapply cpd_some_inert; eassumption. }
  destruct D as [D3 D4]. apply J_of_nil. split.
  - apply WF_dict. split; [apply WFe_set; [exact I|exact D3]|left; apply typed_ci_set_type].
  - cbn [ms]. rewrite typed_ci_set_type, app_nil_r. unfold ci_set, dmeas.
    apply fm_nil_od_set; [exact D4|]. cbn [fst snd tvv]. apply emeasv_str.
Qed.

(* ================================================================ every callback *)
Lemma callback_J ip ic d t x : Forall WF t -> callback ip ic d t = Ok x -> J t x.
Proof.
  intros HW H. unfold callback in H.
  repeat match type of H with
         | (if ?c then _ else _) = _ => destruct c
         end.
  all: try discriminate.
  all: first
    [ eapply cb_start_J; eassumption
    | eapply cb_composite_J; eassumption
    | eapply cb_attr_J; eassumption
    | eapply cb_projection_J; eassumption
    | eapply cb_config_J; eassumption
    | eapply process_pair_lists_J; eassumption
    | eapply process_value_pairs_J; eassumption
    | eapply cb_comparison_J; eassumption
    | eapply cb_binary_J; eassumption
    | eapply cb_first_J; eassumption
    | eapply cb_prefix_J; eassumption
    | eapply cb_expression_J; eassumption
    | eapply cb_func_call_J; eassumption
    | eapply cb_func_params_J; eassumption
    | eapply cb_attr_bind_J; eassumption
    | eapply cb_len_J; eassumption
    | eapply cb_bool_J; eassumption
    | eapply cb_int_J; eassumption
    | eapply cb_float_J; eassumption
    | eapply cb_hexcolor_J; eassumption
    | eapply cb_list_J; eassumption
    | (injection H as <-; apply J_seq; exact HW) ].
Qed.

(* ================================================================ trees *)
Definition mc (m : meta) : list str := match m_comments m with Some c => c | None => [] end.

(* comments still sitting in the metas of a (partly transformed) tree *)
Fixpoint gmeta (g : gtree) : list str :=
  match g with GNode _ cs m => mc m ++ flat_map gmeta cs | _ => [] end.

(* comments carried by the values already computed *)
Fixpoint gvals (g : gtree) : list str :=
  match g with GVal x => ms x | GNode _ cs _ => flat_map gvals cs | GTok _ => [] end.

Fixpoint GWF (g : gtree) : Prop :=
  match g with
  | GTok t => tokOK t
  | GVal x => WF x
  | GNode _ cs _ => (fix go (l : list gtree) : Prop := match l with [] => True | c :: l' => GWF c /\ go l' end) cs
  end.

Lemma GWF_node d cs m : GWF (GNode d cs m) <-> Forall GWF cs.
Proof.
  cbn [GWF]. induction cs as [|c cs IH]; [split; [constructor|exact (fun _ => I)]|].
  rewrite IH. split; [intros [H1 H2]; constructor; assumption|intros H; inversion H; subst; tauto].
Qed.

Theorem tr_main_J ip ic : forall g x, GWF g -> tr_main ip ic g = Ok x -> WF x /\ sub (ms x) (gvals g).
Proof.
  fix IH 1. intros g x HG H. destruct g as [t|d cs m|v].
  - cbn in H. injection H as <-. split; [exact HG|apply sub_nil_l].
  - rewrite tr_main_node in H. apply GWF_node in HG.
    destruct (tr_list ip ic cs) as [xs|e] eqn:L; cbn [bind] in H; [|discriminate].
    assert (HL : Forall WF xs /\ sub (flat_map ms xs) (flat_map gvals cs)).
    { clear H. revert xs L. induction cs as [|c cs IHcs]; intros xs L.
      - cbn in L. injection L as <-. split; [constructor|apply sub_refl].
      - cbn [tr_list] in L.
        destruct (tr_main ip ic c) as [x1|e] eqn:T1; cbn [bind] in L; [|discriminate].
        fold (tr_list ip ic cs) in L.
        destruct (tr_list ip ic cs) as [xs1|e] eqn:L1; cbn [bind] in L; [|discriminate].
        injection L as <-. destruct (IH c x1 (Forall_inv HG) T1) as [A1 A2].
        destruct (IHcs (Forall_inv_tail HG) xs1 eq_refl) as [B1 B2].
        split; [constructor; assumption|]. cbn [flat_map]. apply sub_app; assumption. }
    destruct HL as [L1 L2]. destruct (callback_J ip ic d xs x L1 H) as [C1 C2].
    split; [exact C1|]. cbn [gvals]. eapply sub_trans; eassumption.
  - cbn in H. injection H as <-. split; [exact HG|apply sub_refl].
Qed.

(* ================================================================ the comments pass *)
Lemma get_comments_mc m : get_comments m = VList (map VStr (mc m)).
Proof. reflexivity. Qed.

Lemma E_comments_config : str_eqb s_comments s_config = false. Proof. reflexivity. Qed.
Lemma E_type_comments : str_eqb s_type s_comments = false. Proof. reflexivity. Qed.

Lemma typed_set_comments v items : typed (od_set s_comments v items) = typed items.
Proof. unfold typed. rewrite od_mem_set, E_type_comments. reflexivity. Qed.

Lemma nd_strs C : nd (VList (map VStr C)) = true.
Proof. cbn [nd]. induction C as [|s C IH]; [reflexivity|exact IH]. Qed.

(* attaching a node's comment list to the dict made from that node *)
Lemma set_comments_J c items C :
  WF (TDict c items) ->
  WF (TDict c (od_set s_comments (TVal (VList (map VStr C))) items))
  /\ sub (ms (TDict c (od_set s_comments (TVal (VList (map VStr C))) items))) (ms (TDict c items) ++ C).
Proof.
  intros Hw. apply WF_dict in Hw. destruct Hw as [He Hu]. split.
  - apply WF_dict. split; [apply WFe_set; [exact I|exact He]|].
    destruct Hu as [Hu|Hu]; [left; rewrite typed_set_comments; exact Hu|right].
    apply Forall_od_set; [exact Hu|]. split; [apply lower_comments|]. cbn [fst snd].
    rewrite E_comments_config. cbn [tvv]. apply nd_inert, nd_strs.
  - cbn [ms]. rewrite typed_set_comments.
    assert (Hd : sub (dmeas (od_set s_comments (TVal (VList (map VStr C))) items)) (dmeas items)).
    { unfold dmeas. apply fm_set_nil. cbn [fst snd tvv]. unfold emeasv. rewrite E_comments. reflexivity. }
    destruct (typed items).
    + rewrite !app_nil_r. eapply sub_trans; [exact Hd|apply sub_app_l].
    + apply sub_app; [eapply sub_trans; [exact Hd|apply sub_app_l]|].
      unfold ams.
      assert (Ha : assoc s_comments (items1_of (od_set s_comments (TVal (VList (map VStr C))) items))
                   = Some (TVal (VList (map VStr C)))).
      { unfold items1_of. rewrite !get_del_other by discriminate. apply get_set_same. }
      rewrite Ha. cbn [cl]. rewrite strs_of_map_VStr.
      destruct (items2_of _) as [|? [|? ?]]; try apply sub_nil_l. apply sub_refl.
Qed.

Lemma cc_attr_J m r h :
  WF r -> cc_attr m r = Ok h -> GWF h /\ gmeta h = [] /\ sub (gvals h) (ms r ++ mc m).
Proof.
  unfold cc_attr. intros Hw H. destruct r as [| | |c items]; try discriminate. injection H as <-.
  rewrite get_comments_mc. destruct (set_comments_J c items (mc m) Hw) as [A B].
  split; [exact A|split; [reflexivity|exact B]].
Qed.

Lemma cc_projection_J m r h :
  WF r -> cc_projection m r = Ok h -> GWF h /\ gmeta h = [] /\ sub (gvals h) (ms r ++ mc m).
Proof.
  unfold cc_projection. intros Hw H. destruct r as [| | |c items]; try discriminate.
  destruct (has_comments m); injection H as <-.
  - rewrite get_comments_mc. destruct (set_comments_J c items (mc m) Hw) as [A B].
    split; [exact A|split; [reflexivity|exact B]].
  - split; [exact Hw|split; [reflexivity|apply sub_app_l]].
Qed.

Lemma mck_meta sp key m' : metadata_comment_key sp = Ok (key, m') -> exists d cs, sp = GNode d cs m'.
Proof.
  unfold metadata_comment_key. intros H.
  destruct sp as [|d cs m|]; try discriminate. destruct cs as [|[t|d2 cs2 m2|] cs]; try discriminate.
  - destruct (pk_type t =? T_UNQUOTED_STRING); [|discriminate].
    destruct (tok_str t); cbn [bind] in H; [|discriminate]. injection H as _ <-. eauto.
  - destruct cs2 as [|[t| |] cs2]; try discriminate.
    destruct (tok_str t); cbn [bind] in H; [|discriminate]. injection H as _ <-. eauto.
Qed.

Lemma cdm_set k v cm : sub (cdm (od_set k v cm)) (cdm cm ++ cl v).
Proof. unfold cdm. apply (fm_set_add (fun kv : str * value => cl (snd kv))). Qed.

Lemma cl_get_comments m : cl (get_comments m) = mc m.
Proof. rewrite get_comments_mc. cbn [cl]. apply strs_of_map_VStr. Qed.

Lemma amc_fold_J items l : forall c r,
  fold_left (amc_step items) l (Ok c) = Ok r -> sub (cdm r) (cdm c ++ flat_map gmeta l).
Proof.
  induction l as [|sp l IH]; intros c r H.
  - cbn in H. injection H as <-. cbn [flat_map]. rewrite app_nil_r. apply sub_refl.
  - cbn [fold_left] in H. unfold amc_step at 2 in H. cbn [bind] in H.
    destruct (metadata_comment_key sp) as [[key m']|e] eqn:Ek; cbn [bind] in H;
      [|rewrite amc_fold_err in H; discriminate].
    destruct (assoc key items); [|unfold vfail in H; rewrite amc_fold_err in H; discriminate].
    apply IH in H. eapply sub_trans; [exact H|]. cbn [flat_map]. rewrite app_assoc.
    apply sub_app; [|apply sub_refl].
    eapply sub_trans; [apply cdm_set|]. apply sub_app; [apply sub_refl|].
    rewrite cl_get_comments. destruct (mck_meta _ _ _ Ek) as (d & cs & ->). cbn [gmeta]. apply sub_app_l.
Qed.

Lemma fm_removelast {A B} (f : A -> list B) l : sub (flat_map f (removelast l)) (flat_map f l).
Proof.
  induction l as [|a l IH]; [apply sub_refl|]. destruct l as [|b l]; [apply sub_nil_l|].
  change (removelast (a :: b :: l)) with (a :: removelast (b :: l)). cbn [flat_map] in *.
  apply sub_app; [apply sub_refl|exact IH].
Qed.

Lemma add_metadata_comments_J items cm md r :
  add_metadata_comments items cm md = Ok r -> sub (cdm r) (cdm cm ++ flat_map gmeta md).
Proof.
  rewrite add_metadata_comments_stages. intros H.
  destruct md as [|a [|b [|c0 l]]]; try (injection H as <-; apply sub_app_l).
  apply amc_fold_J in H. eapply sub_trans; [exact H|]. apply sub_app; [apply sub_refl|].
  eapply sub_trans; [apply fm_removelast|]. cbn [flat_map]. apply sub_app_r.
Qed.

Lemma cc_setk_eq c v items : cc_setk c s_comments v items = od_set s_comments v items.
Proof. destruct c; cbn [cc_setk]; unfold ci_set; rewrite ?lower_comments; reflexivity. Qed.

Lemma cc_cm0_eq c items :
  cc_cm0 c items = match assoc s_comments items with Some (TVal (VDict _ x)) => x | _ => [] end.
Proof. unfold cc_cm0, ci_get. rewrite lower_comments. destruct c; reflexivity. Qed.

Lemma cc_dict_J cs m c items h :
  WF (TDict c items) -> cc_dict cs m c items = Ok h ->
  GWF h /\ gmeta h = [] /\ sub (gvals h) (ms (TDict c items) ++ (mc m ++ flat_map gmeta cs)).
Proof.
  intros Hw H. unfold cc_dict in H. cbv zeta in H.
  set (cm1 := if has_comments m then od_set s_type (get_comments m) (cc_cm0 c items) else cc_cm0 c items) in H.
  destruct (cc_cm2 cs items cm1) as [cm2|e] eqn:E2; cbn [bind] in H; [|discriminate].
  injection H as <-. rewrite cc_setk_eq.
  assert (Hty : typed items = true).
  { unfold cc_cm2 in E2. rewrite typed_assoc. destruct (assoc s_type items); [reflexivity|discriminate]. }
  assert (H1 : sub (cdm cm1) (cdm (cc_cm0 c items) ++ mc m)).
  { unfold cm1. destruct (has_comments m); [|apply sub_app_l].
    eapply sub_trans; [apply cdm_set|]. rewrite cl_get_comments. apply sub_refl. }
  assert (H2 : sub (cdm cm2) (cdm cm1 ++ flat_map gmeta cs)).
  { unfold cc_cm2 in E2. destruct (assoc s_type items) as [[[| | | |ty| |]| | |]|]; try discriminate.
    destruct (str_eqb ty s_metadata); [|injection E2 as <-; apply sub_app_l].
    destruct cs as [|[|d0 mdkids m0|] cs]; try discriminate.
    eapply sub_trans; [eapply add_metadata_comments_J; exact E2|].
    apply sub_app; [apply sub_refl|]. cbn [flat_map gmeta].
    eapply sub_trans; [|apply sub_app_l]. apply sub_app_r. }
  apply WF_dict in Hw. destruct Hw as [He _].
  split; [|split; [reflexivity|]].
  - apply WF_dict. split; [apply WFe_set; [exact I|exact He]|left; rewrite typed_set_comments; exact Hty].
  - cbn [gvals ms]. rewrite typed_set_comments, Hty, !app_nil_r. unfold dmeas.
    assert (Hnew : sub (cdm cm2) (cdm (cc_cm0 c items) ++ (mc m ++ flat_map gmeta cs))).
    { eapply sub_trans; [exact H2|]. rewrite app_assoc. apply sub_app; [exact H1|apply sub_refl]. }
    rewrite cc_cm0_eq in Hnew.
    apply fm_set_sub; cbn [fst snd tvv]; unfold emeasv; rewrite E_comments; cbn [centry].
    + intros old Ho. rewrite Ho in Hnew.
      destruct old as [[| | | | | |c0 x]| | |]; try (eapply sub_trans; [exact Hnew|apply sub_app_r]).
      exact Hnew.
    + intros Ho. rewrite Ho in Hnew. exact Hnew.
Qed.

Lemma cc_composite_J cs m r h :
  WF r -> cc_composite cs m r = Ok h ->
  GWF h /\ gmeta h = [] /\ sub (gvals h) (ms r ++ (mc m ++ flat_map gmeta cs)).
Proof.
  unfold cc_composite. intros Hw H. destruct r as [| | |c items]; try discriminate.
  destruct (cc_dictlike _).
  - eapply cc_dict_J; eassumption.
  - apply cc_nondict_inv in H. subst h. split; [exact Hw|split; [reflexivity|apply sub_app_l]].
Qed.

Lemma comments_callback_J ip g h :
  GWF g -> comments_callback ip g = Ok h -> GWF h /\ sub (gvals h ++ gmeta h) (gvals g ++ gmeta g).
Proof.
  intros HG H. rewrite comments_callback_stages in H.
  destruct g as [t|d cs m|v]; try (injection H as <-; split; [exact HG|apply sub_refl]).
  assert (G : forall r, tr_main ip true (GNode d cs m) = Ok r ->
              forall X, (GWF h /\ gmeta h = [] /\ sub (gvals h) (ms r ++ X)) ->
              sub X (gmeta (GNode d cs m)) ->
              GWF h /\ sub (gvals h ++ gmeta h) (gvals (GNode d cs m) ++ gmeta (GNode d cs m))).
  { intros r T X (A & B & C) HX. destruct (tr_main_J ip true _ r HG T) as [_ R2].
    split; [exact A|]. rewrite B, app_nil_r. eapply sub_trans; [exact C|]. apply sub_app; assumption. }
  destruct (d =? CB_attr).
  { destruct (tr_main ip true _) as [r|e] eqn:T; cbn [bind] in H; [|discriminate].
    eapply (G r eq_refl (mc m)); [eapply cc_attr_J; [|exact H]; eapply tr_main_J; eassumption|].
    cbn [gmeta]. apply sub_app_l. }
  destruct (d =? CB_projection).
  { destruct (tr_main ip true _) as [r|e] eqn:T; cbn [bind] in H; [|discriminate].
    eapply (G r eq_refl (mc m)); [eapply cc_projection_J; [|exact H]; eapply tr_main_J; eassumption|].
    cbn [gmeta]. apply sub_app_l. }
  destruct (d =? CB_composite); [|injection H as <-; split; [exact HG|apply sub_refl]].
  destruct (tr_main ip true _) as [r|e] eqn:T; cbn [bind] in H; [|discriminate].
  eapply (G r eq_refl (mc m ++ flat_map gmeta cs)); [eapply cc_composite_J; [|exact H]; eapply tr_main_J; eassumption|].
  apply sub_refl.
Qed.

Lemma perm_interleave {A} (a x b y : list A) : Permutation ((a ++ x) ++ (b ++ y)) ((a ++ b) ++ (x ++ y)).
Proof.
  rewrite <- !app_assoc. apply Permutation_app_head. apply Permutation_app_swap_app.
Qed.

Lemma sub_interleave {A} (a x b y a0 x0 b0 y0 : list A) :
  sub (a ++ b) (a0 ++ b0) -> sub (x ++ y) (x0 ++ y0) -> sub ((a ++ x) ++ (b ++ y)) ((a0 ++ x0) ++ (b0 ++ y0)).
Proof.
  intros H1 H2. eapply sub_trans; [apply sub_perm, perm_interleave|].
  eapply sub_trans; [apply sub_app; [exact H1|exact H2]|]. apply sub_perm, Permutation_sym, perm_interleave.
Qed.

Lemma sub_under {A} (a' b' a b c : list A) : sub (a' ++ b') (a ++ b) -> sub (a' ++ (c ++ b')) (a ++ (c ++ b)).
Proof.
  intros H. eapply sub_trans; [apply sub_perm, Permutation_app_swap_app|].
  eapply sub_trans; [apply sub_app; [apply sub_refl|exact H]|]. apply sub_perm, Permutation_app_swap_app.
Qed.

Theorem ctr_J ip : forall g h, GWF g -> ctr ip g = Ok h -> GWF h /\ sub (gvals h ++ gmeta h) (gvals g ++ gmeta g).
Proof.
  fix IH 1. intros g h HG H. destruct g as [t|d cs m|v]; try (cbn in H; injection H as <-; split; [exact HG|apply sub_refl]).
  rewrite ctr_node in H. destruct (ctr_list ip cs) as [cs'|e] eqn:L; cbn [bind] in H; [|discriminate].
  injection H as <-. apply GWF_node in HG.
  assert (HL : Forall GWF cs' /\ sub (flat_map gvals cs' ++ flat_map gmeta cs') (flat_map gvals cs ++ flat_map gmeta cs)).
  { revert cs' L. induction cs as [|c cs IHcs]; intros cs' L.
    - cbn in L. injection L as <-. split; [constructor|apply sub_refl].
    - cbn [ctr_list] in L.
      destruct (ctr ip c) as [c1|e] eqn:T1; cbn [bind] in L; [|discriminate].
      destruct (comments_callback ip c1) as [c2|e] eqn:K1; cbn [bind] in L; [|discriminate].
      fold (ctr_list ip cs) in L. destruct (ctr_list ip cs) as [r|e]; cbn [bind] in L; [|discriminate].
      injection L as <-. destruct (IH c c1 (Forall_inv HG) T1) as [A1 A2].
      destruct (comments_callback_J ip c1 c2 A1 K1) as [B1 B2].
      destruct (IHcs (Forall_inv_tail HG) r eq_refl) as [C1 C2].
      split; [constructor; assumption|]. cbn [flat_map]. apply sub_interleave; [|exact C2].
      eapply sub_trans; eassumption. }
  destruct HL as [L1 L2]. split; [apply GWF_node; exact L1|]. cbn [gvals gmeta]. apply sub_under. exact L2.
Qed.

(* ================================================================ parse trees *)
Lemma gtree_of_facts : forall t,
  GWF (gtree_of t) /\ gvals (gtree_of t) = [] /\ gmeta (gtree_of t) = attached t.
Proof.
  fix IH 1. intros [tk|d cs m].
  - cbn. repeat split; reflexivity.
  - cbn [gtree_of]. rewrite GWF_node. cbn [gvals gmeta attached]. rewrite !flat_map_map.
    assert (H : Forall GWF (map gtree_of cs) /\ flat_map (fun x => gvals (gtree_of x)) cs = []
                /\ flat_map (fun x => gmeta (gtree_of x)) cs = flat_map attached cs).
    { induction cs as [|c cs IHcs]; [repeat split; constructor|].
      destruct (IH c) as (A1 & A2 & A3). destruct IHcs as (B1 & B2 & B3).
      cbn [map flat_map]. rewrite A2, A3, B2, B3. repeat split. constructor; assumption. }
    destruct H as (H1 & H2 & H3). rewrite H2, H3. repeat split. exact H1.
Qed.

Lemma canonize_facts g : GWF g -> GWF (canonize g) /\ gvals (canonize g) = gvals g /\ gmeta (canonize g) = gmeta g.
Proof.
  intros HG. destruct g as [t|d cs m|v]; try (split; [exact HG|split; reflexivity]). cbn [canonize].
  destruct (d =? CB_symbolset); [|split; [exact HG|split; reflexivity]].
  apply GWF_node in HG. split; [|split; reflexivity].
  apply GWF_node. constructor; [|exact HG]. apply GWF_node. constructor; [|constructor].
  cbn [GWF]. repeat split; reflexivity.
Qed.

(* the comments stored by the transformer are a sub-multiset of the comments attached to the tree *)
Theorem transform_linear ip t x : transform ip true t = Ok x -> sub (cstored (tvv x)) (attached t).
Proof.
  unfold transform. intros H.
  destruct (gtree_of_facts t) as (G1 & G2 & G3).
  destruct (canonize_facts _ G1) as (K1 & K2 & K3).
  set (g := canonize (gtree_of t)) in *.
  destruct (ctr ip g) as [g1|e] eqn:C1; cbn [bind] in H; [|discriminate].
  destruct (comments_callback ip g1) as [g2|e] eqn:C2; cbn [bind] in H; [|discriminate].
  destruct (ctr_J ip g g1 K1 C1) as [A1 A2].
  destruct (comments_callback_J ip g1 g2 A1 C2) as [B1 B2].
  destruct (tr_main_J ip true g2 x B1 H) as [_ T2].
  eapply sub_trans; [apply cstored_tvv_sub|]. eapply sub_trans; [exact T2|].
  eapply sub_trans; [apply sub_app_l|]. eapply sub_trans; [exact B2|]. eapply sub_trans; [exact A2|].
  rewrite K2, K3, G2, G3. apply sub_refl.
Qed.
