(* C07, universal: the dictionaries Api.loads returns have the shape the
   "validate never raises" theorem of Proofs/C07Paths.v assumes ([root_ok]).

   [root_ok d] = [shaped d && typed d && is_dict d]; [shaped] asks of every dict, at every depth:
     (1) keys stored lower-case, (2) keys pairwise distinct, (3) NO __position__ key,
   and of every list: each member is shaped and, when it is a dict, carries a string __type__.

   Split: [shaped v = true <-> shapedS v = true /\ nopos v = true] (shaped_split / shaped_parts), where
     shapedS   (1), (2) and the list clause, not looking below __position__ keys;
     nopos     (3): no dict of the value has a __position__ key.
   A loaded value is one dict or the list of the file's root dicts (C02U_Top.loads_root):
   [root_ok_any v] is [root_ok v = true], resp. [forallb root_ok l = true] for [v = VList l].

   Part A (universal: every text, EVERY include_position / include_comments):
       loads_root_okS : loads ip ic text = Ok v -> root_okS_any v
     by a logical predicate ([PA] / [PV]) kept by all 48 callbacks of Model/Transformer.v, the comments
     pass and transform, organised like Proofs/C02U_Weak.v; distinct keys come from od_set / ci_set,
     the only dict constructors, plus the fact that composite() never files an entry under
     __type__ / __position__ / __comments__ (free_key) where it later splices those in.
   Part B (include_position=False): (3) is FALSE for some texts -
       loads_root_ok_refuted_type_attribute      MAP __type__ x END
       loads_root_ok_refuted_metadata_key        MAP METADATA "__position__" "x" END END
       loads_root_ok_refuted_config_key          MAP CONFIG "__position__" "x" END
       loads_root_ok_refuted_metadata_key_comments   (the second text with include_comments)
     so the guard [nopos_any v = true], a boolean function of the VALUE, is needed:
       loads_root_ok : loads false ic text = Ok v -> nopos_any v = true -> root_ok_any v
       validate_loaded_never_raises : wf_schema tree = true -> nopos_any v = true ->
                                      loads false ic text = Ok v -> exists msgs, run_validator tree v = Ok msgs
     On the refuting values run_validator (generated map schema) nevertheless returns Ok
     (witness_*_validator_ok), also when the error is located AT the dict carrying the leaked record
     (MAP __type__ layer END); for SOME well-formed (artificial) tree it does raise on such values
     (validate_loaded_never_raises_unguarded_refuted_metadata_key / _type_attribute), so the guard cannot be dropped while the
     tree is universally quantified.  loads_root_ok_iff: for a loaded value the guard is equivalent
     to root_ok_any, i.e. it is the weakest guard.
   Part C (dictionaries WITH position records, every include_position):
       validate_never_raises_positions_lemma : wf_schema tree = true -> avoid_pos tree = true ->
                                               root_okP d = true -> exists msgs, run_validator tree d = Ok msgs
       validate_loaded_never_raises_positions : wf_schema tree = true -> avoid_pos tree = true ->
           posok_any v = true -> loads ip ic text = Ok v -> exists msgs, run_validator tree v = Ok msgs
       validate_loaded_never_raises_positions_map : the same for the generated map schema (no tree hypothesis)
     [avoid_pos tree]: the schema does not look BELOW __position__ entries (boolean function of the tree,
     true of every shipped schema: shipped_avoid_pos; ierr_paths_avoid_position: then no error path goes
     below a __position__ key).  [posok_any v]: for every dict of v that has a __position__ entry and every
     key the message can be named after, the record create_message reads line / column from is a dict or
     a non-empty list of dicts (boolean function of the value, stated with the model's own lookups).
     Both guards are needed (five _refuted theorems with artificial trees); posok is PARTIAL with respect
     to loads: that loaded values satisfy it is not proved (it is false exactly on the reserved-key quirks:
     a key-value block key spelled line / column / values, a CONFIG key spelled __position__, a __type__
     attribute whose value is spelled line / column / values, METADATA "__position__" with comments) -
     what loads contributes is Part A.  nopos_posok: the guard of Part B implies this one. *)
From MF Require Import Lib.Base Lib.Json Lib.PyDict Lib.PyNum Model.GrammarTypes Model.Lexer Model.LR
  Model.Case Model.Transformer Model.Api Model.SchemaStore Model.Schema Model.Validator
  Gen.Tokens Gen.Grammar Gen.Schemas
  Proofs.CaseFacts Proofs.C11 Proofs.C13U Proofs.C08U Proofs.C02U_Spec Proofs.C02U_Rel Proofs.C02U_Weak
  Proofs.C02U_Top Proofs.C09 Proofs.C07 Proofs.C07Paths Proofs.C07F.
Open Scope N_scope.

(* ================================================================ specification: the two halves of [shaped] *)
Fixpoint shapedS (d : value) : bool :=
  match d with
  | VDict _ items =>
      forallb (fun k => str_eqb (lower k) k) (keys items) && nodupb (keys items)
      && (fix go (l : list (str * value)) : bool :=
            match l with [] => true | (k, v) :: l' => (str_eqb k K_dposition || shapedS v) && go l' end) items
  | VList l => (fix go (l : list value) : bool :=
                  match l with [] => true | x :: l' => shapedS x && typed x && go l' end) l
  | _ => true
  end.

Fixpoint nopos (d : value) : bool :=
  match d with
  | VDict _ items =>
      negb (od_mem K_dposition items)
      && (fix go (l : list (str * value)) : bool :=
            match l with [] => true | (_, v) :: l' => nopos v && go l' end) items
  | VList l => (fix go (l : list value) : bool :=
                  match l with [] => true | x :: l' => nopos x && go l' end) l
  | _ => true
  end.

Definition root_okS (d : value) : bool := shapedS d && typed d && is_dict d.

Definition any_root (f : value -> bool) (v : value) : bool :=
  match v with
  | VList l => forallb f l
  | _ => f v
  end.

Definition root_ok_any (v : value) : Prop := any_root root_ok v = true.
Definition root_okS_any (v : value) : Prop := any_root root_okS v = true.
Definition nopos_any (v : value) : bool := nopos v.

Lemma shapedS_dict c items :
  shapedS (VDict c items) =
  forallb (fun k => str_eqb (lower k) k) (keys items) && nodupb (keys items)
  && forallb (fun kv => str_eqb (fst kv) K_dposition || shapedS (snd kv)) items.
Proof.
  cbn [shapedS]. f_equal. induction items as [|[k v] items IH]; [reflexivity|]. cbn [forallb fst snd]. rewrite IH. reflexivity.
Qed.

Lemma shapedS_list l : shapedS (VList l) = forallb (fun x => shapedS x && typed x) l.
Proof. cbn [shapedS]. induction l as [|x l IH]; [reflexivity|]. cbn [forallb]. rewrite IH. reflexivity. Qed.

Lemma nopos_dict c items :
  nopos (VDict c items) = negb (od_mem K_dposition items) && forallb (fun kv => nopos (snd kv)) items.
Proof.
  cbn [nopos]. f_equal. induction items as [|[k v] items IH]; [reflexivity|]. cbn [forallb snd]. rewrite IH. reflexivity.
Qed.

Lemma nopos_list l : nopos (VList l) = forallb nopos l.
Proof. cbn [nopos]. induction l as [|x l IH]; [reflexivity|]. cbn [forallb]. rewrite IH. reflexivity. Qed.

Lemma od_mem_false_In {A} k (l : list (str * A)) kv : od_mem k l = false -> In kv l -> str_eqb (fst kv) k = false.
Proof.
  intros Hm Hin. destruct (str_eqb_spec (fst kv) k) as [E|]; [|reflexivity]. exfalso.
  assert (Hk : od_mem k l = true) by (apply od_mem_In; rewrite <- E; destruct kv; eapply In_keys; exact Hin).
  congruence.
Qed.

(* shaped = shapedS && nopos, as two implications *)
Theorem shaped_split : forall v, shapedS v = true -> nopos v = true -> shaped v = true.
Proof.
  induction v as [| | | | |l IH|c items IH] using value_ind'; try reflexivity.
  - rewrite shapedS_list, nopos_list, shaped_list. intros Hs Hn.
    rewrite forallb_forall in *. rewrite Forall_forall in IH. intros x Hx.
    specialize (Hs x Hx). apply andb_true_iff in Hs. destruct Hs as [H1 H2].
    rewrite (IH x Hx H1 (Hn x Hx)), H2. reflexivity.
  - rewrite shapedS_dict, nopos_dict, shaped_dict. intros Hs Hn.
    apply andb_true_iff in Hs. destruct Hs as [Hs H3]. apply andb_true_iff in Hn. destruct Hn as [Hp Hn].
    rewrite Hs, Hp. cbn [andb]. rewrite forallb_forall in *. rewrite Forall_forall in IH. intros kv Hkv.
    apply IH; [exact Hkv| |exact (Hn kv Hkv)].
    specialize (H3 kv Hkv). apply negb_true_iff in Hp.
    rewrite (od_mem_false_In _ _ _ Hp Hkv) in H3. exact H3.
Qed.

Theorem shaped_parts : forall v, shaped v = true -> shapedS v = true /\ nopos v = true.
Proof.
  induction v as [| | | | |l IH|c items IH] using value_ind'; try (split; reflexivity).
  - rewrite shapedS_list, nopos_list, shaped_list. intros Hs. rewrite forallb_forall in Hs. rewrite Forall_forall in IH.
    split; apply forallb_forall; intros x Hx; specialize (Hs x Hx); apply andb_true_iff in Hs; destruct Hs as [H1 H2];
      destruct (IH x Hx H1) as [A B]; [rewrite A, H2; reflexivity|exact B].
  - rewrite shapedS_dict, nopos_dict, shaped_dict. intros Hs.
    apply andb_true_iff in Hs. destruct Hs as [Hs H4]. apply andb_true_iff in Hs. destruct Hs as [Hs H3].
    rewrite Hs, H3. cbn [andb]. rewrite forallb_forall in H4. rewrite Forall_forall in IH.
    split; apply forallb_forall; intros kv Hkv; destruct (IH kv Hkv (H4 kv Hkv)) as [A B];
      [rewrite A; apply orb_true_r|exact B].
Qed.

Lemma root_ok_split d : root_okS d = true -> nopos d = true -> root_ok d = true.
Proof.
  unfold root_okS, root_ok. intros H Hn. apply andb_true_iff in H. destruct H as [H H3].
  apply andb_true_iff in H. destruct H as [H1 H2]. rewrite (shaped_split d H1 Hn), H2, H3. reflexivity.
Qed.

Lemma root_ok_any_split v : root_okS_any v -> nopos_any v = true -> root_ok_any v.
Proof.
  unfold root_okS_any, root_ok_any, nopos_any. destruct v as [| | | | |l|c items]; cbn [any_root];
    try (apply root_ok_split).
  rewrite nopos_list. intros H Hn. rewrite forallb_forall in *. intros x Hx. apply root_ok_split; auto.
Qed.

(* ---------------------------------------------------------------- shapedS as propositions *)
Definition dictS (items : list (str * value)) : Prop :=
  Forall (fun kv => fst kv = s_position \/ shapedS (snd kv) = true) items /\
  NoDup (keys items) /\ Forall lower_key (keys items).

Lemma NoDup_nodupb l : NoDup l -> nodupb l = true.
Proof.
  induction 1 as [|x l Hn _ IH]; [reflexivity|]. cbn [nodupb]. rewrite IH, andb_true_r. apply negb_true_iff.
  destruct (mem_str x l) eqn:E; [|reflexivity]. apply mem_str_In in E. contradiction.
Qed.

Lemma shapedS_dictS c items : shapedS (VDict c items) = true <-> dictS items.
Proof.
  rewrite shapedS_dict. unfold dictS. split.
  - intros H. apply andb_true_iff in H. destruct H as [H H3]. apply andb_true_iff in H. destruct H as [H1 H2].
    split; [|split].
    + apply Forall_forall. intros kv Hkv. rewrite forallb_forall in H3. specialize (H3 kv Hkv).
      apply orb_true_iff in H3. destruct H3 as [H3|H3]; [left; apply str_eqb_eq; exact H3|right; exact H3].
    + apply nodupb_NoDup. exact H2.
    + apply Forall_forall. intros k Hk. rewrite forallb_forall in H1. apply str_eqb_eq. apply H1. exact Hk.
  - intros (H3 & H2 & H1). apply andb_true_iff. split; [apply andb_true_iff; split|].
    + apply forallb_forall. intros k Hk. rewrite Forall_forall in H1. apply str_eqb_eq. apply H1. exact Hk.
    + apply NoDup_nodupb. exact H2.
    + apply forallb_forall. intros kv Hkv. rewrite Forall_forall in H3. apply orb_true_iff.
      destruct (H3 kv Hkv) as [E|E]; [left; apply str_eqb_eq; exact E|right; exact E].
Qed.

Lemma dictS_nil : dictS [].
Proof. split; [constructor|split; constructor]. Qed.

Lemma dictS_set k v items :
  lower k = k -> k = s_position \/ shapedS v = true -> dictS items -> dictS (od_set k v items).
Proof.
  intros Hl Hv (H1 & H2 & H3). split; [|split].
  - apply Forall_od_set; assumption.
  - apply NoDup_set. exact H2.
  - apply Forall_keys_set; assumption.
Qed.

Lemma sv_shapedS : forall v, sv v = true -> shapedS v = true /\ typed v = true.
Proof.
  induction v as [| | | | |l IH|c items IH] using value_ind'; try (intros; split; reflexivity); try discriminate.
  cbn [sv]. intros H. split; [|reflexivity]. rewrite shapedS_list. rewrite forallb_forall in *.
  rewrite Forall_forall in IH. intros x Hx. destruct (IH x Hx (H x Hx)) as [A B]. rewrite A, B. reflexivity.
Qed.

Lemma sv_S v : sv v = true -> shapedS v = true.
Proof. intros H. apply sv_shapedS. exact H. Qed.

Lemma sv_typed v : sv v = true -> typed v = true.
Proof. intros H. apply sv_shapedS. exact H. Qed.

Lemma sv_get_comments m : sv (get_comments m) = true.
Proof.
  unfold get_comments. cbn [sv]. apply forallb_forall. intros x Hx. apply in_map_iff in Hx.
  destruct Hx as (s & <- & _). reflexivity.
Qed.

Lemma shapedS_snoc l w :
  shapedS (VList l) = true -> shapedS w = true -> typed w = true -> shapedS (VList (l ++ [w])) = true.
Proof.
  rewrite !shapedS_list. intros Hl Hw Ht. apply forallb_app_true; [exact Hl|]. cbn [forallb]. rewrite Hw, Ht. reflexivity.
Qed.

(* ================================================================ the logical predicate *)
(* plain data never holds a dict below a list, and a dict-valued datum (a per-keyword position record,
   a comments dict, the one-entry dict of a CONFIG attribute) is flat: its values are dict-free *)
Definition dictF (items : list (str * value)) : Prop :=
  Forall (fun kv => fst kv = s_position \/ sv (snd kv) = true) items /\
  NoDup (keys items) /\ Forall lower_key (keys items).

Definition flat (v : value) : Prop :=
  sv v = true \/ match v with VDict _ items => dictF items | _ => False end.

Lemma flat_dict c items : flat (VDict c items) <-> dictF items.
Proof. unfold flat. cbn [sv]. split; [intros [H|H]; [discriminate H|exact H]|intros H; right; exact H]. Qed.

Lemma flat_list l : flat (VList l) -> sv (VList l) = true.
Proof. intros [H|[]]. exact H. Qed.

Lemma flat_shapedS v : flat v -> shapedS v = true.
Proof.
  intros [H|H]; [exact (sv_S _ H)|]. destruct v as [| | | | | |c items]; try contradiction.
  apply shapedS_dictS. destruct H as (H1 & H2 & H3). split; [|split; assumption].
  eapply Forall_impl; [|exact H1]. intros kv [E|E]; [left; exact E|right; exact (sv_S _ E)].
Qed.

Lemma dictF_nil : dictF [].
Proof. split; [constructor|split; constructor]. Qed.

Lemma dictF_set k v items :
  lower k = k -> k = s_position \/ sv v = true -> dictF items -> dictF (od_set k v items).
Proof.
  intros Hl Hv (H1 & H2 & H3). split; [|split].
  - apply Forall_od_set; assumption.
  - apply NoDup_set. exact H2.
  - apply Forall_keys_set; assumption.
Qed.

(* what a member of a stored list, or the value under an ordinary key, must be *)
Definition std (y : tv) : Prop :=
  match y with
  | TDict _ items => exists ty, assoc s_type items = Some (TVal (VStr ty))
  | TVal v => sv v = true
  | _ => True
  end.

(* [PV]: final quality - the image [tvv x] satisfies shapedS *)
Fixpoint PV (x : tv) : Prop :=
  match x with
  | TVal v => flat v
  | TTok t => sv (pk_val t) = true
  | TSeq l => (fix go (l : list tv) : Prop := match l with [] => True | y :: l' => (PV y /\ std y) /\ go l' end) l
  | TDict c items =>
      (fix go (l : list (str * tv)) : Prop :=
         match l with
         | [] => True
         | (k, y) :: l' => (k = s_position \/ (PV y /\ (k = s_comments \/ k = s_config \/ std y))) /\ go l'
         end) items
      /\ NoDup (keys items) /\ Forall lower_key (keys items)
  end.

Definition okv (k : str) (v : tv) : Prop :=
  k = s_position \/ (PV v /\ (k = s_comments \/ k = s_config \/ std v)).

Definition entV (kv : str * tv) : Prop := okv (fst kv) (snd kv).

Lemma PV_seq l : PV (TSeq l) <-> Forall (fun y => PV y /\ std y) l.
Proof.
  cbn [PV]. induction l as [|y l IH]; [split; [constructor|exact (fun _ => I)]|].
  rewrite IH. split; [intros [H1 H2]; constructor; assumption|intros H; inversion H; subst; tauto].
Qed.

Lemma PV_dict c items :
  PV (TDict c items) <-> Forall entV items /\ NoDup (keys items) /\ Forall lower_key (keys items).
Proof.
  cbn [PV]. unfold entV, okv.
  assert (H : (fix go (l : list (str * tv)) : Prop :=
                 match l with
                 | [] => True
                 | (k, y) :: l' => (k = s_position \/ (PV y /\ (k = s_comments \/ k = s_config \/ std y))) /\ go l'
                 end) items <->
              Forall (fun kv => fst kv = s_position \/
                                (PV (snd kv) /\ (fst kv = s_comments \/ fst kv = s_config \/ std (snd kv)))) items).
  { induction items as [|[k y] l IH]; [split; [constructor|exact (fun _ => I)]|].
    rewrite IH. split; [intros [H1 H2]; constructor; assumption|intros H; inversion H; subst; tauto]. }
  rewrite H. tauto.
Qed.

Lemma okv_sv k v : sv v = true -> okv k (TVal v).
Proof. intros H. right. split; [left; exact H|right; right; exact H]. Qed.

(* the attribute dict of a two-token CONFIG: {__position__, config: {key: value}}; its inner dict is
   consumed by process_config, which lower-cases the key *)
Definition cfgok (v : tv) : Prop :=
  match v with
  | TVal (VDict _ cfg) => Forall (fun kv => lower (fst kv) = s_position \/ sv (snd kv) = true) cfg
  | _ => True
  end.

Definition entC (kv : str * tv) : Prop :=
  fst kv = s_position \/ (fst kv = s_config /\ cfgok (snd kv)) \/ entV kv.

Definition cfgattr (items : titems) : Prop :=
  od_mem s_type items = false /\ Forall entC items /\ NoDup (keys items) /\ Forall lower_key (keys items).

(* [PA]: what flows between callbacks *)
Fixpoint PA (x : tv) : Prop :=
  match x with
  | TVal v => flat v
  | TTok t => sv (pk_val t) = true
  | TSeq l => (fix go (l : list tv) : Prop := match l with [] => True | y :: l' => PA y /\ go l' end) l
  | TDict c items => PV (TDict c items) \/ cfgattr items
  end.

Lemma PA_seq l : PA (TSeq l) <-> Forall PA l.
Proof.
  cbn [PA]. induction l as [|y l IH]; [split; [constructor|exact (fun _ => I)]|].
  rewrite IH. split; [intros [H1 H2]; constructor; assumption|intros H; inversion H; subst; tauto].
Qed.

Lemma PV_PA : forall x, PV x -> PA x.
Proof.
  induction x as [v|t|l IH|c items IH] using tv_ind'; intros H; try exact H.
  - apply PA_seq. apply PV_seq in H. rewrite Forall_forall in *. intros y Hy. apply IH; [exact Hy|]. apply H. exact Hy.
  - left. exact H.
Qed.

Lemma PV_cfgok v : PV v -> cfgok v.
Proof.
  destruct v as [w| | |]; try (intros; exact I). destruct w as [| | | | | |c cfg]; try (intros; exact I).
  cbn [PV cfgok]. intros H. apply flat_dict in H. destruct H as (H1 & _ & _).
  eapply Forall_impl; [|exact H1]. intros kv [E|E]; [left; rewrite E; apply lower_position|right; exact E].
Qed.

(* what every attribute-like dict gives to composite() *)
Lemma PA_dict_inv c items :
  PA (TDict c items) -> Forall entC items /\ NoDup (keys items) /\ Forall lower_key (keys items).
Proof.
  intros [H|(_ & H1 & H2 & H3)].
  - apply PV_dict in H. destruct H as (H1 & H2 & H3). split; [|split; assumption].
    eapply Forall_impl; [|exact H1]. intros kv E. right. right. exact E.
  - split; [|split]; assumption.
Qed.

Lemma PA_typed_PV c items ty : PA (TDict c items) -> assoc s_type items = Some ty -> PV (TDict c items).
Proof.
  intros [H|(Hm & _)] Ha; [exact H|]. rewrite od_mem_assoc, Ha in Hm. discriminate Hm.
Qed.

(* ---------------------------------------------------------------- token callbacks *)
Lemma PA_tok_sv t : sv (pk_val t) = true -> PA (TTok t).
Proof. intros H. exact H. Qed.

Lemma set_first_PA t s x : set_first t s = Ok x -> PA x.
Proof. unfold set_first. intros H. wcrush H. reflexivity. Qed.

Lemma cb_binary_PA t a b c x : cb_binary t a b c = Ok x -> PA x.
Proof. unfold cb_binary. intros H. wcrush H. eapply set_first_PA; eassumption. Qed.

Lemma cb_comparison_PA t x : cb_comparison t = Ok x -> PA x.
Proof. unfold cb_comparison. intros H. wcrush H. eapply set_first_PA; eassumption. Qed.

Lemma cb_prefix_PA t p b x : cb_prefix t p b = Ok x -> PA x.
Proof. unfold cb_prefix. intros H. wcrush H; eapply set_first_PA; eassumption. Qed.

Lemma cb_expression_PA t x : Forall PA t -> cb_expression t = Ok x -> PA x.
Proof.
  unfold cb_expression. intros HF H. wcrush H.
  - exact (Forall_inv HF).
  - reflexivity.
Qed.

Lemma cb_func_call_PA t x : cb_func_call t = Ok x -> PA x.
Proof. unfold cb_func_call. intros H. wcrush H. reflexivity. Qed.

Lemma cb_func_params_PA t x : cb_func_params t = Ok x -> PA x.
Proof. unfold cb_func_params. intros H. wcrush H. left. reflexivity. Qed.

Lemma cb_attr_bind_PA t x : cb_attr_bind t = Ok x -> PA x.
Proof. unfold cb_attr_bind. intros H. wcrush H. reflexivity. Qed.

Lemma cb_list_PA t x : cb_list t = Ok x -> PA x.
Proof. unfold cb_list. intros H. wcrush H. reflexivity. Qed.

Lemma cb_first_PA t x : Forall PA t -> cb_first t = Ok x -> PA x.
Proof. unfold cb_first. intros HF H. wcrush H. exact (Forall_inv HF). Qed.

Lemma cb_int_PA t x : cb_int t = Ok x -> PA x.
Proof. unfold cb_int, first_tok. intros H. wcrush H. reflexivity. Qed.
Lemma cb_float_PA t x : cb_float t = Ok x -> PA x.
Proof. unfold cb_float, first_tok. intros H. wcrush H. reflexivity. Qed.
Lemma cb_bool_PA b t x : cb_bool b t = Ok x -> PA x.
Proof. unfold cb_bool, first_tok. intros H. wcrush H. reflexivity. Qed.
Lemma cb_hexcolor_PA t x : cb_hexcolor t = Ok x -> PA x.
Proof. unfold cb_hexcolor, first_tok. intros H. wcrush H. reflexivity. Qed.

Lemma cb_len_PA n t x : Forall PA t -> cb_len n t = Ok x -> PA x.
Proof. unfold cb_len. intros HF H. wcrush H. apply PA_seq. exact HF. Qed.

Lemma cb_start_PA t x : Forall PA t -> cb_start t = Ok x -> PA x.
Proof.
  unfold cb_start. intros HF H. destruct t as [|a [|b r]]; injection H as <-; try (apply PA_seq; exact HF).
  exact (Forall_inv HF).
Qed.

(* ---------------------------------------------------------------- attr *)
Lemma tok_of_PA x t : PA x -> tok_of x = Ok t -> sv (pk_val t) = true.
Proof. destruct x; try discriminate. intros H [= <-]. exact H. Qed.

Lemma tv_dot_value_PA x v : PA x -> tv_dot_value x = Ok v -> sv v = true.
Proof. destruct x; try discriminate. intros H [= <-]. exact H. Qed.

Lemma tv_dot_value_tok x v : tv_dot_value x = Ok v -> exists t, x = TTok t.
Proof. destruct x; try discriminate. intros _. eexists. reflexivity. Qed.

Lemma mapM_dot_value_PA l : forall vals, Forall PA l -> mapM tv_dot_value l = Ok vals -> forallb sv vals = true.
Proof.
  induction l as [|x l IH]; intros vals HF H; cbn [mapM] in H.
  - injection H as <-. reflexivity.
  - destruct (tv_dot_value x) as [v|e] eqn:Ev; cbn [bind] in H; [|discriminate].
    destruct (mapM tv_dot_value l) as [vs|e]; cbn [bind] in H; [|discriminate].
    injection H as <-. cbn [forallb]. rewrite (tv_dot_value_PA _ _ (Forall_inv HF) Ev).
    apply IH; [exact (Forall_inv_tail HF)|reflexivity].
Qed.

(* the value tokens of a multi-token attribute are all tokens *)
Lemma mapM_dot_value_toks l : forall vals, Forall PA l -> mapM tv_dot_value l = Ok vals ->
  Forall (fun y => PV y /\ std y) l.
Proof.
  induction l as [|x l IH]; intros vals HF H; cbn [mapM] in H; [constructor|].
  destruct (tv_dot_value x) as [v|e] eqn:Ev; cbn [bind] in H; [|discriminate].
  destruct (mapM tv_dot_value l) as [vs|e]; cbn [bind] in H; [|discriminate].
  constructor; [|eapply IH; [exact (Forall_inv_tail HF)|reflexivity]].
  destruct (tv_dot_value_tok _ _ Ev) as (t & ->). split; [exact (Forall_inv HF)|exact I].
Qed.

Lemma attr_vtoks_PA vt0 vts : Forall PA vt0 -> attr_vtoks vt0 = Ok vts -> Forall PA vts.
Proof.
  unfold attr_vtoks. intros HF H. destruct vt0 as [|a r]; [discriminate|].
  destruct a as [v|t|l|c items]; try (injection H as <-; exact HF).
  destruct r; [|discriminate]. injection H as <-. apply PA_seq. exact (Forall_inv HF).
Qed.

Lemma attr_key_PA k0 key : PA k0 -> attr_key k0 = Ok key -> sv (pk_val key) = true.
Proof.
  intros Hp H. destruct k0 as [v|t|l|c items]; try discriminate.
  - injection H as <-. exact Hp.
  - destruct l as [|[|t| |] l]; try discriminate. cbn [attr_key] in H.
    destruct (key_name t) as [kn|e]; cbn [bind] in H; [|discriminate].
    destruct (_ || _); [|discriminate]. injection H as <-. apply PA_seq in Hp. exact (Forall_inv Hp).
Qed.

Lemma lower_tokens : lower s_tokens = s_tokens.
Proof. vm_compute. reflexivity. Qed.

Lemma NoDup_keys_set_one k (v : tv) k0 (v0 : tv) : NoDup (keys (od_set k v [(k0, v0)])).
Proof. apply NoDup_set. cbn [keys map fst]. constructor; [intros []|constructor]. Qed.

(* the two forms of dict attr() returns *)
Lemma attr_dict_PA key kn vts x :
  sv (pk_val key) = true -> lower kn = kn -> Forall PA vts -> attr_body key kn vts = Ok x -> PA x.
Proof.
  unfold attr_body. intros Hkey Hlow HF H.
  destruct (create_position_dict key (Some vts)) as [pd|e]; cbn [bind] in H; [|discriminate].
  assert (Hbase2 : forall toks, Forall (fun y => PV y /\ std y) toks ->
            forall V, sv V = true ->
            PA (TDict DPlain (od_set kn (TVal V) (od_set s_tokens (TSeq (TTok key :: toks)) [(s_position, TVal pd)])))).
  { intros toks Htoks V HV. left. apply PV_dict. split; [|split].
    - apply Forall_od_set.
      + apply okv_sv. exact HV.
      + apply Forall_od_set.
        * right. cbn [fst snd]. split; [|right; right; exact I].
          apply PV_seq. constructor; [split; [exact Hkey|exact I]|exact Htoks].
        * constructor; [left; reflexivity|constructor].
    - apply NoDup_set. apply NoDup_keys_set_one.
    - apply Forall_keys_set; [exact Hlow|]. apply Forall_keys_set; [exact lower_tokens|].
      cbn [keys map fst]. constructor; [exact lower_position|constructor]. }
  destruct vts as [|a [|b rest]]; [discriminate| |].
  - destruct (tok_of a) as [t|e] eqn:Et; cbn [bind] in H; [|discriminate]. injection H as <-.
    destruct a; try discriminate. injection Et as ->.
    apply (Hbase2 [TTok t]).
    + constructor; [split; [exact (Forall_inv HF)|exact I]|constructor].
    + rewrite sv_clean_top. exact (Forall_inv HF).
  - destruct (str_eqb_spec kn s_config) as [->|Hnc].
    + destruct rest; [|discriminate].
      destruct (tok_of a) as [ta|e] eqn:Ea; cbn [bind] in H; [|discriminate].
      destruct (tok_of b) as [tb|e] eqn:Eb; cbn [bind] in H; [|discriminate].
      destruct (pk_val ta) as [| | | |ka| |] eqn:Ev; try discriminate. cbn [bind] in H. injection H as <-.
      right. split; [reflexivity|]. split; [|split].
      * apply Forall_od_set.
        -- right. left. split; [reflexivity|]. cbn [snd cfgok]. constructor; [|constructor]. right. cbn [snd].
           eapply tok_of_PA; [|exact Eb]. exact (Forall_inv (Forall_inv_tail HF)).
        -- constructor; [left; reflexivity|constructor].
      * apply NoDup_keys_set_one.
      * apply Forall_keys_set; [exact lower_config|]. cbn [keys map fst]. constructor; [exact lower_position|constructor].
    + destruct (mapM tv_dot_value (a :: b :: rest)) as [vals|e] eqn:Em; cbn [bind] in H; [|discriminate].
      injection H as <-. apply Hbase2.
      * eapply mapM_dot_value_toks; eassumption.
      * cbn [sv]. eapply mapM_dot_value_PA; eassumption.
Qed.

Lemma cb_attr_PA tokens x : Forall PA tokens -> cb_attr tokens = Ok x -> PA x.
Proof.
  rewrite cb_attr_stages. intros HF H. destruct tokens as [|k0 vt0]; [discriminate|].
  destruct (attr_key k0) as [key|e] eqn:Ek; cbn [bind] in H; [|discriminate].
  destruct (key_name key) as [kn|e] eqn:En; cbn [bind] in H; [|discriminate].
  destruct (attr_vtoks vt0) as [vts|e] eqn:Ev; cbn [bind] in H; [|discriminate].
  eapply attr_dict_PA; [| | |exact H].
  - exact (attr_key_PA _ _ (Forall_inv HF) Ek).
  - exact (key_name_lower _ _ En).
  - exact (attr_vtoks_PA _ _ (Forall_inv_tail HF) Ev).
Qed.

Lemma cb_config_PA t x : Forall PA t -> cb_config t = Ok x -> PA x.
Proof.
  unfold cb_config. intros HF H. destruct t as [|k [|a [|b [|c r]]]]; try discriminate.
  destruct (tok_of a) as [ta|e] eqn:Ea; cbn [bind] in H; [|discriminate].
  destruct (tok_of b) as [tb|e] eqn:Eb; cbn [bind] in H; [|discriminate].
  destruct (tok_str ta) as [ks|e]; cbn [bind] in H; [|discriminate].
  inversion HF as [|? ? Pk HF1]; subst. inversion HF1 as [|? ? Pa HF2]; subst. inversion HF2 as [|? ? Pb _]; subst.
  refine (cb_attr_PA _ x _ H).
  repeat apply Forall_cons; try apply Forall_nil; [exact Pk|reflexivity|].
  cbn [PA set_val pk_val]. rewrite sv_clean_top. exact (tok_of_PA _ _ Pb Eb).
Qed.

(* ---------------------------------------------------------------- check_composite_tokens and its users *)
Lemma cct_PA name tokens key body :
  Forall PA tokens -> check_composite_tokens name tokens = Ok (key, body) -> Forall PA body.
Proof.
  intros HF H. destruct (cct_inv _ _ _ _ H) as (rest & -> & _ & _ & Eb).
  pose proof (Forall_removelast _ _ (Forall_inv_tail HF)) as Hr. clear H. revert body Eb.
  induction (removelast rest) as [|t l IH]; intros body Eb; cbn [mapM] in Eb.
  - injection Eb as <-. constructor.
  - destruct (cctf t) as [y|e] eqn:Ey; cbn [bind] in Eb; [|discriminate].
    destruct (mapM cctf l) as [ys|e] eqn:Eys; cbn [bind] in Eb; [|discriminate].
    injection Eb as <-. constructor; [|apply IH; [exact (Forall_inv_tail Hr)|reflexivity]].
    pose proof (Forall_inv Hr) as Ht.
    destruct t as [v|tk|s|c items]; try (injection Ey as <-; exact Ht).
    cbn [cctf] in Ey. destruct (assoc s_tokens items) as [z|] eqn:Ea; [|discriminate]. injection Ey as <-.
    destruct (PA_dict_inv _ _ Ht) as (Hk & _ & _).
    pose proof (assoc_Forall' (fun k v => k = s_position \/ (k = s_config /\ cfgok v) \/ okv k v) _ _ _ Hk Ea) as Hz.
    cbv beta in Hz. destruct Hz as [E|[[E _]|[E|[Hz _]]]]; try discriminate E. apply PV_PA. exact Hz.
Qed.

Lemma cb_projection_PA t x : Forall PA t -> cb_projection t = Ok x -> PA x.
Proof.
  unfold cb_projection. intros HF H.
  destruct (check_composite_tokens _ t) as [[k0 body]|e] eqn:Ec; cbn [bind] in H; [|discriminate].
  pose proof (cct_PA _ _ _ _ HF Ec) as Hb.
  match type of H with bind ?r _ = _ => destruct r as [strs|e] eqn:Es end; cbn [bind] in H; [|discriminate].
  assert (Hs : forallb sv strs = true).
  { clear H Ec. revert strs Es. induction body as [|b body IH]; intros strs Es; cbn [mapM] in Es.
    - injection Es as <-. reflexivity.
    - destruct (tv_dot_value b) as [v|e] eqn:Ev; cbn [bind] in Es; [|discriminate].
      match type of Es with bind ?r _ = _ => destruct r as [ss|e] eqn:Ess end; cbn [bind] in Es; [|discriminate].
      injection Es as <-. cbn [forallb]. rewrite sv_clean_string.
      rewrite (tv_dot_value_PA _ _ (Forall_inv Hb) Ev). apply IH; [exact (Forall_inv_tail Hb)|reflexivity]. }
  destruct t as [|k [|v1 r]]; try discriminate.
  destruct (tok_of v1) as [vt|e] eqn:Ev; cbn [bind] in H; [|discriminate].
  refine (cb_attr_PA _ x _ H). constructor; [exact (Forall_inv HF)|]. constructor; [|constructor]. exact Hs.
Qed.

Lemma seq_item_value_PA x i v : PA x -> seq_item_value x i = Ok v -> sv v = true.
Proof.
  intros Hp H. destruct x as [|t|l|]; try discriminate. cbn [seq_item_value] in H.
  unfold nth_tv in H. destruct (nth_error l i) as [e|] eqn:En; cbn [bind] in H; [|discriminate].
  apply PA_seq in Hp. rewrite Forall_forall in Hp.
  eapply tv_dot_value_PA; [|exact H]. apply Hp. eapply nth_error_In. exact En.
Qed.

Lemma process_pair_lists_PA name t x : Forall PA t -> process_pair_lists name t = Ok x -> PA x.
Proof.
  unfold process_pair_lists. intros HF H.
  destruct (check_composite_tokens _ t) as [[k0 body]|e] eqn:Ec; cbn [bind] in H; [|discriminate].
  pose proof (cct_PA _ _ _ _ HF Ec) as Hb.
  match type of H with bind ?r _ = _ => destruct r as [pairs|e] eqn:Es end; cbn [bind] in H; [|discriminate].
  assert (Hs : forallb sv pairs = true).
  { clear H Ec. revert pairs Es. induction body as [|b body IH]; intros pairs Es; cbn [mapM] in Es.
    - injection Es as <-. reflexivity.
    - destruct (seq_item_value b 0) as [va|e] eqn:Ea; cbn [bind] in Es; [|discriminate].
      destruct (seq_item_value b 1) as [vb|e] eqn:Eb; cbn [bind] in Es; [|discriminate].
      match type of Es with bind ?r _ = _ => destruct r as [ss|e] eqn:Ess end; cbn [bind] in Es; [|discriminate].
      injection Es as <-. cbn [forallb sv].
      rewrite (seq_item_value_PA _ _ _ (Forall_inv Hb) Ea), (seq_item_value_PA _ _ _ (Forall_inv Hb) Eb).
      cbn [andb]. apply IH; [exact (Forall_inv_tail Hb)|reflexivity]. }
  destruct t as [|k [|v1 r]]; try discriminate.
  destruct v1 as [v|tk|[|[v|vt|l2|c2 i2] l]|c items]; try discriminate.
  refine (cb_attr_PA _ x _ H). constructor; [exact (Forall_inv HF)|]. constructor; [|constructor]. exact Hs.
Qed.

(* ---------------------------------------------------------------- key-value blocks *)
(* the items of a block-class dict under construction *)
Definition blkS (d : titems) : Prop :=
  Forall entV d /\ NoDup (keys d) /\ Forall lower_key (keys d).

Lemma blkS_ci_set k v d : okv (lower k) v -> blkS d -> blkS (ci_set k v d).
Proof.
  intros Hv (H1 & H2 & H3). unfold ci_set. split; [|split].
  - apply Forall_od_set; [exact Hv|exact H1].
  - apply NoDup_set. exact H2.
  - apply Forall_keys_set; [apply lower_idem|exact H3].
Qed.

Lemma blkS_PV c d : blkS d -> PV (TDict c d).
Proof. intros H. apply PV_dict. exact H. Qed.

Lemma blkS_nil : blkS [].
Proof. split; [constructor|split; constructor]. Qed.

Lemma blkS_get k v (d : titems) : blkS d -> assoc k d = Some v -> okv k v.
Proof. intros (H1 & _) Ha. exact (assoc_Forall' okv k v d H1 Ha). Qed.

Lemma pvp_fold_S body : forall acc d, Forall PA body -> blkS acc ->
  fold_left pvp_step body (Ok acc) = Ok d -> blkS d.
Proof.
  induction body as [|t body IH]; intros acc d HF Hacc H; cbn [fold_left] in H.
  - injection H as <-. exact Hacc.
  - destruct (pvp_step (Ok acc) t) as [acc'|e] eqn:Es; [|rewrite pvp_fold_err in H; discriminate].
    eapply IH; [exact (Forall_inv_tail HF)| |exact H].
    unfold pvp_step in Es. cbn [bind] in Es.
    destruct (seq_item_value t 0) as [kv|e]; cbn [bind] in Es; [|discriminate].
    destruct (seq_item_value t 1) as [vv|e] eqn:Ev; cbn [bind] in Es; [|discriminate].
    destruct (value_as_str _) as [ks|e]; cbn [bind] in Es; [|discriminate].
    injection Es as <-. apply blkS_ci_set; [|exact Hacc]. apply okv_sv.
    rewrite sv_clean_top. eapply seq_item_value_PA; [exact (Forall_inv HF)|exact Ev].
Qed.

Lemma process_value_pairs_PA ip t ty x : Forall PA t -> process_value_pairs ip t ty = Ok x -> PA x.
Proof.
  rewrite process_value_pairs_stages. intros HF H.
  destruct (check_composite_tokens ty t) as [[key body]|e] eqn:Ec; cbn [bind fst snd] in H; [|discriminate].
  pose proof (cct_PA _ _ _ _ HF Ec) as Hb.
  destruct (key_name key) as [kn|e] eqn:En; cbn [bind] in H; [|discriminate].
  destruct (fold_left pvp_step body (Ok [])) as [d|e] eqn:Ef; cbn [bind] in H; [|discriminate].
  assert (Hd : blkS d) by (apply (pvp_fold_S body [] d Hb); [exact blkS_nil|exact Ef]).
  destruct (pvp_pos ip key body d) as [d1|e] eqn:Ep; cbn [bind] in H; [|discriminate]. injection H as <-.
  assert (Hd1 : blkS d1).
  { unfold pvp_pos in Ep. destruct ip; [|injection Ep as <-; exact Hd].
    destruct (create_position_dict key (Some body)) as [pd|e]; cbn [bind] in Ep; [|discriminate].
    injection Ep as <-. apply blkS_ci_set; [|exact Hd]. left. exact lower_position. }
  left. apply blkS_PV. apply blkS_ci_set; [apply okv_sv; reflexivity|exact Hd1].
Qed.

(* ---------------------------------------------------------------- composite *)
(* keys composite() files entries under are never the bookkeeping keys *)
Definition free_key (k : str) : Prop := s_type <> k /\ s_position <> k /\ s_comments <> k.

Lemma singleton_free k : mem_str k SINGLETON_COMPOSITE_NAMES = true -> free_key (lower k).
Proof.
  intros H. apply mem_str_In in H. unfold SINGLETON_COMPOSITE_NAMES in H. cbn [In] in H.
  repeat (destruct H as [<-|H]; [vm_compute; repeat split; discriminate|]). contradiction.
Qed.

Lemma ends_s_free (X : str) : free_key (X ++ [115]).
Proof.
  repeat split; intros Heq; apply (f_equal (@rev N)) in Heq; rewrite rev_app_distr in Heq; cbn [rev app] in Heq;
    vm_compute in Heq; discriminate Heq.
Qed.

Lemma plural_free k : free_key (lower (plural k)).
Proof.
  assert (H : plural k = k ++ Str "es" \/ plural k = k ++ Str "s").
  { unfold plural. destruct (last_opt k) as [c|]; [|right; reflexivity].
    destruct c as [|p]; [right; reflexivity|].
    repeat (first [left; reflexivity | right; reflexivity | destruct p as [p|p|]]). }
  destruct H as [-> | ->]; rewrite lower_app.
  - change (lower (Str "es")) with ([101] ++ [115]). rewrite app_assoc. apply ends_s_free.
  - change (lower (Str "s")) with [115]. apply ends_s_free.
Qed.

Lemma config_free : free_key (lower s_config).
Proof. vm_compute. repeat split; discriminate. Qed.

Lemma points_free : free_key (lower s_points).
Proof. vm_compute. repeat split; discriminate. Qed.

Definition stS (st : cstate) : Prop :=
  blkS (cs_dict st) /\
  od_mem s_position (cs_dict st) = false /\ od_mem s_comments (cs_dict st) = false /\
  (exists ty, assoc s_type (cs_dict st) = Some (TVal (VStr ty))) /\
  dictF (cs_comments st).

Lemma str_eqb_false a b : a <> b -> str_eqb a b = false.
Proof. intros H. apply str_eqb_neq. exact H. Qed.

Lemma stS_ci_set st k v p cm :
  stS st -> free_key (lower k) -> okv (lower k) v -> dictF cm ->
  stS (mk_cs (ci_set k v (cs_dict st)) p cm).
Proof.
  intros (H1 & H2 & H3 & (ty & H4) & _) (F1 & F2 & F3) Hv Hcm. unfold stS. cbn [cs_dict cs_comments].
  split; [apply blkS_ci_set; assumption|].
  unfold ci_set. rewrite !od_mem_set, H2, H3, (str_eqb_false _ _ F2), (str_eqb_false _ _ F3).
  split; [reflexivity|]. split; [reflexivity|]. split; [|exact Hcm].
  exists ty. rewrite get_set_other by exact F1. exact H4.
Qed.

Lemma sv_snoc l w : sv (VList l) = true -> sv w = true -> sv (VList (l ++ [w])) = true.
Proof. cbn [sv]. intros Hl Hw. apply forallb_app_true; [exact Hl|]. cbn [forallb]. rewrite Hw. reflexivity. Qed.

Lemma tv_list_append_PV cur e r : PV cur -> PV e -> std e -> tv_list_append cur e = Ok r -> PV r /\ std r.
Proof.
  intros Hc He Ht H. destruct cur as [v|t|l|c items]; try discriminate.
  - destruct v as [| | | | |l|]; try discriminate. cbn [PV] in Hc. apply flat_list in Hc.
    assert (Hl : Forall (fun y => PV y /\ std y) (map TVal l)).
    { apply Forall_forall. intros y Hy. apply in_map_iff in Hy. destruct Hy as (w & <- & Hw).
      cbn [sv] in Hc. rewrite forallb_forall in Hc. specialize (Hc w Hw). split; [left; exact Hc|exact Hc]. }
    destruct e as [w|t|l2|c2 i2]; injection H as <-.
    + cbn [std] in Ht. pose proof (sv_snoc _ _ Hc Ht) as Hs. split; [left; exact Hs|exact Hs].
    + split; [|exact I]. apply PV_seq. apply Forall_app. split; [exact Hl|constructor; [split; assumption|constructor]].
    + split; [|exact I]. apply PV_seq. apply Forall_app. split; [exact Hl|constructor; [split; assumption|constructor]].
    + split; [|exact I]. apply PV_seq. apply Forall_app. split; [exact Hl|constructor; [split; assumption|constructor]].
  - injection H as <-. split; [|exact I]. apply PV_seq. apply Forall_app.
    split; [apply PV_seq; exact Hc|constructor; [split; assumption|constructor]].
Qed.

Lemma append_under_PV k (d : titems) v r :
  blkS d -> s_position <> lower k -> PV v -> std v ->
  tv_list_append (match ci_get k d with Some x => x | None => TSeq [] end) v = Ok r ->
  okv (lower k) r.
Proof.
  intros Hd Hk Hv Ht H. right.
  assert (Hc : PV (match ci_get k d with Some x => x | None => TSeq [] end)).
  { unfold ci_get. destruct (assoc (lower k) d) as [x|] eqn:Eg; [|exact I].
    destruct (blkS_get _ _ _ Hd Eg) as [E|[E _]]; [congruence|exact E]. }
  destruct (tv_list_append_PV _ _ _ Hc Hv Ht H) as [Hr Hs]. split; [exact Hr|right; right; exact Hs].
Qed.

Lemma ci_typed_S st c items ty s :
  stS st -> PA (TDict c items) -> assoc s_type items = Some ty ->
  ci_typed st (TDict c items) ty = Ok s -> stS s.
Proof.
  intros HI Hpa Et H. pose proof (PA_typed_PV _ _ _ Hpa Et) as Hpd. unfold ci_typed in H.
  destruct ty as [[| | | |k| |]| | |]; try discriminate. cbn [bind] in H.
  assert (Htyd : std (TDict c items)) by (exists k; exact Et).
  destruct (mem_str k SINGLETON_COMPOSITE_NAMES) eqn:Es.
  - injection H as <-. apply stS_ci_set; [exact HI|apply singleton_free; exact Es| |apply HI].
    right. split; [exact Hpd|right; right; exact Htyd].
  - cbv zeta in H. destruct (tv_list_append _ _) as [c1|e] eqn:A1; cbn [bind] in H; [|discriminate].
    injection H as <-. apply stS_ci_set; [exact HI|apply plural_free| |apply HI].
    eapply append_under_PV; [apply HI|apply plural_free|exact Hpd|exact Htyd|exact A1].
Qed.

Lemma points_new_inv d nv r :
  points_new d nv = Ok r ->
  exists V, r = ci_set s_points (TVal V) d /\ (blkS d -> sv nv = true -> sv V = true).
Proof.
  unfold points_new. intros H.
  destruct (ci_get s_points d) as [[ex| | |]|] eqn:Eg; try discriminate.
  - destruct (calculate_depth ex) as [dep|e] eqn:Ed; cbn [bind] in H; [|discriminate].
    destruct (if (dep =? 2)%Z then VList [ex] else ex) as [| | | | |l|] eqn:Eb; try discriminate.
    injection H as <-. eexists. split; [reflexivity|]. intros Hd Hn.
    unfold ci_get in Eg. destruct (blkS_get _ _ _ Hd Eg) as [E|[_ Hx]]; [rewrite lower_points in E; discriminate E|].
    destruct Hx as [E|[E|Hx]]; try (rewrite lower_points in E; discriminate E). cbn [std] in Hx.
    apply sv_snoc; [|exact Hn].
    destruct (dep =? 2)%Z.
    + injection Eb as <-. cbn [sv forallb]. rewrite Hx. reflexivity.
    + subst ex. exact Hx.
  - injection H as <-. eexists. split; [reflexivity|]. intros _ Hn. exact Hn.
Qed.

Lemma cfg_cur_S d : blkS d -> blkS (cfg_cur d).
Proof.
  intros Hd. unfold cfg_cur, ci_get. destruct (assoc (lower s_config) d) as [[| | |c items]|] eqn:Eg; try exact blkS_nil.
  destruct (blkS_get _ _ _ Hd Eg) as [E|[E _]]; [rewrite lower_config in E; discriminate E|].
  apply PV_dict in E. exact E.
Qed.

Lemma cfg_fold_S cfg : forall cur,
  Forall (fun kv => lower (fst kv) = s_position \/ sv (snd kv) = true) cfg -> blkS cur -> blkS (cfg_fold cfg cur).
Proof.
  induction cfg as [|[k v] cfg IH]; intros cur HF Hc; cbn [cfg_fold fold_left]; [exact Hc|].
  apply IH; [exact (Forall_inv_tail HF)|]. cbn [fst snd]. apply blkS_ci_set; [|exact Hc].
  destruct (Forall_inv HF) as [E|E]; cbn [fst snd] in E; [left; exact E|apply okv_sv; exact E].
Qed.

Lemma NoDup_del_neq {A} k k' (v : A) l : NoDup (keys l) -> In (k', v) (od_del k l) -> k' <> k.
Proof.
  induction l as [|[k1 v1] l IH]; cbn [od_del keys map fst]; [intros _ []|].
  intros Hn. inversion Hn as [|? ? Hnot Hn']; subst.
  destruct (str_eqb_spec k k1) as [->|Hne].
  - intros Hin E. subst k'. apply Hnot. eapply In_keys. exact Hin.
  - intros [[= <- <-]|Hin]; [congruence|]. apply IH; assumption.
Qed.

Lemma cm_new_F ic comments kn cm :
  dictF cm -> lower kn = kn ->
  (forall cv, comments = Some (TVal cv) -> flat cv) ->
  dictF (cm_new ic comments kn cm).
Proof.
  intros Hcm Hl Hc. unfold cm_new. destruct comments as [[[| | | | |[|c0 l]|]| | |]|]; try exact Hcm.
  destruct ic; [|exact Hcm]. apply dictF_set; [exact Hl| |exact Hcm]. right. apply flat_list. apply Hc. reflexivity.
Qed.

Lemma ci_untyped_S ic st pos cm kn v s :
  stS st -> lower kn = kn -> free_key kn ->
  (kn = s_config /\ cfgok v) \/ okv kn v ->
  (forall cv, cm = Some (TVal cv) -> flat cv) ->
  ci_untyped ic st pos cm [(kn, v)] = Ok s -> stS s.
Proof.
  intros HI Hlow Hfree Hv Hcm H. unfold ci_untyped in H.
  destruct (str_eqb_spec kn s_config) as [->|Hnc].
  { apply process_config_inv in H. destruct H as (c & cfg & Ha & D & Cm).
    cbn [assoc] in Ha. rewrite str_eqb_refl in Ha. injection Ha as ->.
    assert (Hcfg : cfgok (TVal (VDict c cfg))).
    { destruct Hv as [[_ Hv]|[E|[Hv _]]]; [exact Hv|discriminate E|apply PV_cfgok; exact Hv]. }
    cbn [cfgok] in Hcfg.
    pose proof (stS_ci_set st s_config (TDict (DCI true) (cfg_fold cfg (cfg_cur (cs_dict st)))) (cs_pos s) (cs_comments st)
                  HI config_free) as Hs.
    destruct s as [sd sp sc]. cbn [cs_dict cs_comments cs_pos] in *. subst sd sc. apply Hs; [|apply HI].
    right. split; [|right; left; exact lower_config]. apply blkS_PV. apply cfg_fold_S; [exact Hcfg|].
    apply cfg_cur_S. apply HI. }
  assert (Hokv : okv kn v) by (destruct Hv as [[E _]|Hv]; [contradiction|exact Hv]).
  destruct (str_eqb_spec kn s_points) as [->|Hnp].
  { apply process_points_inv in H. destruct H as (nv & Ha & Hn & Cm).
    cbn [assoc] in Ha. rewrite str_eqb_refl in Ha. injection Ha as ->.
    destruct (points_new_inv _ _ _ Hn) as (V & Er & HV).
    assert (Hnv : sv nv = true).
    { destruct Hokv as [E|[_ [E|[E|E]]]]; try discriminate E. exact E. }
    pose proof (stS_ci_set st s_points (TVal V) (cs_pos s) (cs_comments st) HI points_free) as Hs.
    destruct s as [sd sp sc]. cbn [cs_dict cs_comments cs_pos] in *. subst sd sc. apply Hs; [|apply HI].
    apply okv_sv. apply HV; [apply HI|exact Hnv]. }
  destruct Hfree as (F1 & F2 & F3).
  assert (Hpv : PV v /\ std v).
  { destruct Hokv as [E|[Hp [E|[E|Hs]]]]; try congruence. split; assumption. }
  assert (Hfree' : free_key (lower kn)) by (rewrite Hlow; repeat split; assumption).
  destruct (mem_str kn REPEATED_KEYS) eqn:Er.
  - cbv zeta in H. destruct (tv_list_append _ v) as [c1|e] eqn:A1; cbn [bind] in H; [|discriminate].
    injection H as <-. apply stS_ci_set; [exact HI|exact Hfree'| |apply HI].
    eapply append_under_PV; [apply HI|apply Hfree'|apply Hpv|apply Hpv|exact A1].
  - cbv zeta in H. injection H as <-. apply stS_ci_set; [exact HI|exact Hfree'| |].
    + rewrite Hlow. exact Hokv.
    + apply cm_new_F; [apply HI|exact Hlow|exact Hcm].
Qed.

Lemma composite_item_S ic st d s : stS st -> PA d -> composite_item ic st d = Ok s -> stS s.
Proof.
  intros HI Hd H. rewrite composite_item_stages in H.
  destruct d as [| | |c items]; try discriminate.
  destruct (assoc s_type items) as [ty|] eqn:Et; [eapply ci_typed_S; eassumption|].
  destruct (assoc s_position items) as [[p| | |]|] eqn:Ep; try discriminate. cbn [bind] in H.
  destruct (PA_dict_inv _ _ Hd) as (Hk & Hnd & Hkeys).
  destruct (items2_of items) as [|[kn v] [|? ?]] eqn:E2; try discriminate.
  assert (Hin2 : In (kn, v) (items2_of items)) by (rewrite E2; left; reflexivity).
  unfold items2_of, items1_of in Hin2.
  pose proof (NoDup_del s_position items Hnd) as Hnd1.
  pose proof (NoDup_del s_tokens _ Hnd1) as Hnd2.
  pose proof (NoDup_del_neq _ _ _ _ Hnd2 Hin2) as N3. apply In_od_del in Hin2.
  apply In_od_del in Hin2.
  pose proof (NoDup_del_neq _ _ _ _ Hnd Hin2) as N1. apply In_od_del in Hin2.
  assert (Hent : entC (kn, v)) by (rewrite Forall_forall in Hk; exact (Hk _ Hin2)).
  eapply ci_untyped_S; [exact HI| | | | |exact H].
  - rewrite Forall_forall in Hkeys. apply Hkeys. eapply In_keys. exact Hin2.
  - split; [|split]; [|congruence|congruence]. intros <-. apply (In_assoc_not_None _ _ _ Hin2). exact Et.
  - destruct Hent as [E|[E|E]]; [cbn [fst] in E; congruence|left; exact E|right; exact E].
  - intros cv Hcv. apply assoc_Some_in in Hcv. unfold items1_of in Hcv. do 2 apply In_od_del in Hcv.
    rewrite Forall_forall in Hk. destruct (Hk _ Hcv) as [E|[[E _]|[E|[Hp _]]]]; try discriminate E. exact Hp.
Qed.

Lemma comp_fold_S ic l : forall st s, Forall PA l -> stS st -> comp_fold ic l (Ok st) = Ok s -> stS s.
Proof.
  induction l as [|d l IH]; intros st s HF HI H; cbn [comp_fold fold_left] in H.
  - injection H as <-. exact HI.
  - unfold comp_step at 2 in H. cbn [bind] in H.
    destruct (composite_item ic st d) as [st1|e] eqn:E1.
    + eapply IH; [exact (Forall_inv_tail HF)| |exact H].
      eapply composite_item_S; [exact HI|exact (Forall_inv HF)|exact E1].
    + fold (comp_fold ic l (Err e)) in H. rewrite comp_fold_err in H. discriminate.
Qed.

Lemma NoDup_app_intro {A} (a b : list A) :
  NoDup a -> NoDup b -> (forall k, In k a -> In k b -> False) -> NoDup (a ++ b).
Proof.
  induction 1 as [|x a Hx _ IH]; intros Hb Hd; [exact Hb|]. cbn [app]. constructor.
  - intros Hin. apply in_app_or in Hin. destruct Hin as [Hin|Hin]; [contradiction|].
    exact (Hd x (or_introl eq_refl) Hin).
  - apply IH; [exact Hb|]. intros k Hk. apply Hd. right. exact Hk.
Qed.

Lemma not_od_mem_notin {A} k (l : list (str * A)) : od_mem k l = false -> ~ In k (keys l).
Proof. intros H Hin. apply od_mem_In in Hin. congruence. Qed.

Lemma comp_finish_PA ic st x : stS st -> hk (cs_dict st) = Some s_type -> comp_finish ic st = Ok x -> PA x /\ std x.
Proof.
  unfold comp_finish. cbv zeta. intros ((Hd & Hnd & Hkeys) & Hp & Hc & (ty & Hty) & Hcm) Hk H.
  destruct (cs_dict st) as [|[k1 v1] r1]; [discriminate|]. cbn [hk] in Hk. injection Hk as ->.
  injection H as <-. inversion Hd as [|? ? Hv1 Hr1]; subst.
  cbn [keys map fst] in Hkeys, Hnd. inversion Hkeys as [|? ? L1 Lr]; subst. inversion Hnd as [|? ? Nn Nr]; subst.
  cbn [od_mem] in Hp, Hc. apply orb_false_iff in Hp. destruct Hp as [_ Hp]. apply orb_false_iff in Hc. destruct Hc as [_ Hc].
  apply not_od_mem_notin in Hp. apply not_od_mem_notin in Hc.
  cbn [assoc] in Hty. rewrite str_eqb_refl in Hty.
  split; [|exists ty; cbn [assoc]; rewrite str_eqb_refl; exact Hty].
  left. apply PV_dict. split; [|split].
  - constructor; [exact Hv1|]. apply Forall_app. split; [destruct (cs_pos st); repeat constructor|].
    apply Forall_app. split; [|exact Hr1]. destruct ic; [|constructor]. constructor; [|constructor].
    right. cbn [fst snd]. split; [|left; reflexivity]. cbn [PV]. apply flat_dict. exact Hcm.
  - unfold keys. cbn [map fst]. rewrite !map_app. fold (keys r1).
    set (kp := map fst (match cs_pos st with Some p => [(s_position, TVal (VDict DPlain p))] | None => [] end)).
    set (kc := map fst (if ic then [(s_comments, TVal (VDict DPlain (cs_comments st)))] else [])).
    assert (Hkp : forall k, In k kp -> k = s_position) by (subst kp; destruct (cs_pos st); cbn [map fst In]; intros k Hin; [destruct Hin as [E|[]]; auto|destruct Hin]).
    assert (Hkc : forall k, In k kc -> k = s_comments) by (subst kc; destruct ic; cbn [map fst In]; intros k Hin; [destruct Hin as [E|[]]; auto|destruct Hin]).
    assert (Ndp : NoDup kp) by (subst kp; destruct (cs_pos st); cbn [map fst]; repeat constructor; intros []).
    assert (Ndc : NoDup kc) by (subst kc; destruct ic; cbn [map fst]; repeat constructor; intros []).
    constructor.
    + intros Hin. apply in_app_or in Hin. destruct Hin as [Hin|Hin]; [apply Hkp in Hin; discriminate Hin|].
      apply in_app_or in Hin. destruct Hin as [Hin|Hin]; [apply Hkc in Hin; discriminate Hin|contradiction].
    + apply NoDup_app_intro; [exact Ndp| |].
      * apply NoDup_app_intro; [exact Ndc|exact Nr|]. intros k Hk1 Hk2. apply Hkc in Hk1. subst k. contradiction.
      * intros k Hk1 Hk2. apply Hkp in Hk1. subst k. apply in_app_or in Hk2.
        destruct Hk2 as [Hk2|Hk2]; [apply Hkc in Hk2; discriminate Hk2|contradiction].
  - unfold keys. cbn [map fst]. constructor; [exact L1|]. rewrite !map_app. apply Forall_app.
    split; [destruct (cs_pos st); repeat constructor; exact lower_position|].
    apply Forall_app. split; [destruct ic; repeat constructor; exact lower_comments|exact Lr].
Qed.

Lemma comp_init_S kn pd : stS (comp_init kn pd).
Proof.
  unfold stS, comp_init. cbn [cs_dict cs_comments]. unfold ci_set. rewrite lower_type. cbn [od_set od_mem app].
  split; [|split; [reflexivity|split; [reflexivity|split; [|exact dictF_nil]]]].
  - split; [|split].
    + constructor; [apply okv_sv; reflexivity|constructor].
    + cbn [keys map fst]. constructor; [intros []|constructor].
    + cbn [keys map fst]. constructor; [exact lower_type|constructor].
  - exists kn. cbn [assoc]. rewrite str_eqb_refl. reflexivity.
Qed.

Lemma attrs_of_PA x : PA x -> Forall PA (attrs_of x).
Proof. intros H. unfold attrs_of. destruct x; try (constructor; [exact H|constructor]). apply PA_seq. exact H. Qed.

Lemma cb_composite_PA ip ic t x : Forall PA t -> cb_composite ip ic t = Ok x -> PA x.
Proof.
  rewrite cb_composite_stages. intros HF H.
  destruct t as [|a [|b r]]; [discriminate| |].
  - injection H as <-. exact (Forall_inv HF).
  - destruct a as [| |[|[|key| |] l]|]; try discriminate. unfold comp_main in H.
    destruct (key_name key) as [kn|e] eqn:En; cbn [bind] in H; [|discriminate].
    destruct (comp_pd ip key) as [pd|e]; cbn [bind] in H; [|discriminate].
    destruct (comp_fold ic _ _) as [st|e] eqn:F1; cbn [bind] in H; [|discriminate].
    eapply comp_finish_PA; [| |exact H].
    + eapply comp_fold_S; [| |exact F1].
      * apply attrs_of_PA. exact (Forall_inv (Forall_inv_tail HF)).
      * apply comp_init_S.
    + eapply comp_fold_hk; [exact F1|apply comp_init_hk].
Qed.

(* ---------------------------------------------------------------- every callback *)
Lemma callback_PA ip ic d t x : Forall PA t -> callback ip ic d t = Ok x -> PA x.
Proof.
  intros HF H. unfold callback in H.
  repeat match type of H with
         | (if ?c then _ else _) = _ => destruct c
         end.
  all: try discriminate.
  all: first
    [ eapply cb_start_PA; eassumption
    | eapply cb_composite_PA; eassumption
    | eapply cb_attr_PA; eassumption
    | eapply cb_projection_PA; eassumption
    | eapply cb_config_PA; eassumption
    | eapply process_pair_lists_PA; eassumption
    | eapply process_value_pairs_PA; eassumption
    | eapply cb_comparison_PA; eassumption
    | eapply cb_binary_PA; eassumption
    | eapply cb_first_PA; eassumption
    | eapply cb_prefix_PA; eassumption
    | eapply cb_expression_PA; eassumption
    | eapply cb_func_call_PA; eassumption
    | eapply cb_func_params_PA; eassumption
    | eapply cb_attr_bind_PA; eassumption
    | eapply cb_len_PA; eassumption
    | eapply cb_bool_PA; eassumption
    | eapply cb_int_PA; eassumption
    | eapply cb_float_PA; eassumption
    | eapply cb_hexcolor_PA; eassumption
    | eapply cb_list_PA; eassumption
    | (injection H as <-; apply PA_seq; exact HF) ].
Qed.

(* ================================================================ trees *)
Fixpoint GA (g : gtree) : Prop :=
  match g with
  | GTok t => PA (TTok t)
  | GVal x => PA x
  | GNode d cs m => (fix go (l : list gtree) : Prop := match l with [] => True | c :: l' => GA c /\ go l' end) cs
  end.

Lemma GA_node d cs m : GA (GNode d cs m) <-> Forall GA cs.
Proof.
  cbn [GA]. induction cs as [|c l IH]; [split; [constructor|exact (fun _ => I)]|].
  rewrite IH. split; [intros [H1 H2]; constructor; assumption|intros H; inversion H; subst; tauto].
Qed.

Theorem tr_main_PA ip ic : forall g x, GA g -> tr_main ip ic g = Ok x -> PA x.
Proof.
  fix IH 1. intros g x HG H. destruct g as [t|d cs m|v].
  - cbn in H. injection H as <-. exact HG.
  - rewrite tr_main_node in H. apply GA_node in HG.
    destruct (tr_list ip ic cs) as [xs|e] eqn:L; cbn [bind] in H; [|discriminate].
    eapply callback_PA; [|exact H]. clear H. revert xs L.
    induction cs as [|c cs IHcs]; intros xs L.
    + cbn in L. injection L as <-. constructor.
    + cbn [tr_list] in L.
      destruct (tr_main ip ic c) as [x1|e] eqn:T1; cbn [bind] in L; [|discriminate].
      fold (tr_list ip ic cs) in L.
      destruct (tr_list ip ic cs) as [xs1|e] eqn:L1; cbn [bind] in L; [|discriminate].
      injection L as <-. constructor.
      * exact (IH c x1 (Forall_inv HG) T1).
      * apply IHcs; [exact (Forall_inv_tail HG)|reflexivity].
  - cbn in H. injection H as <-. exact HG.
Qed.

(* ---------------------------------------------------------------- the comments pass *)
Lemma PV_set_comments c items v :
  flat v -> PV (TDict c items) -> PV (TDict c (od_set s_comments (TVal v) items)).
Proof.
  intros Hv H. apply PV_dict in H. destruct H as (H1 & H2 & H3). apply PV_dict. split; [|split].
  - apply Forall_od_set; [|exact H1]. right. split; [exact Hv|left; reflexivity].
  - apply NoDup_set. exact H2.
  - apply Forall_keys_set; [exact lower_comments|exact H3].
Qed.

Lemma PA_set_comments c items v :
  flat v -> PA (TDict c items) -> PA (TDict c (od_set s_comments (TVal v) items)).
Proof.
  intros Hv [H|(Hm & H1 & H2 & H3)]; [left; apply PV_set_comments; assumption|right].
  split; [|split; [|split]].
  - rewrite od_mem_set, Hm. reflexivity.
  - apply Forall_od_set; [|exact H1]. right. right. right. split; [exact Hv|left; reflexivity].
  - apply NoDup_set. exact H2.
  - apply Forall_keys_set; [exact lower_comments|exact H3].
Qed.

Lemma metadata_comment_key_lower sp key m : metadata_comment_key sp = Ok (key, m) -> lower key = key.
Proof.
  unfold metadata_comment_key. intros H.
  destruct sp as [|d cs m0|]; try discriminate. destruct cs as [|[t|d1 cs1 m1|] cs]; try discriminate.
  - destruct (pk_type t =? T_UNQUOTED_STRING); [|discriminate].
    destruct (tok_str t) as [s|e]; cbn [bind] in H; [|discriminate]. injection H as <- _. apply lower_idem.
  - destruct cs1 as [|[t| |] cs1]; try discriminate.
    destruct (tok_str t) as [s|e]; cbn [bind] in H; [|discriminate]. injection H as <- _. apply lower_idem.
Qed.

Lemma amc_fold_F items l : forall cm r, dictF cm -> fold_left (amc_step items) l (Ok cm) = Ok r -> dictF r.
Proof.
  induction l as [|sp l IH]; intros cm r Hcm H; cbn [fold_left] in H.
  - injection H as <-. exact Hcm.
  - destruct (amc_step items (Ok cm) sp) as [cm1|e] eqn:Es; [|rewrite amc_fold_err in H; discriminate].
    eapply IH; [|exact H]. unfold amc_step in Es. cbn [bind] in Es.
    destruct (metadata_comment_key sp) as [[key m]|e] eqn:Ek; cbn [bind] in Es; [|discriminate].
    destruct (assoc key items); [|discriminate]. injection Es as <-.
    apply dictF_set; [eapply metadata_comment_key_lower; exact Ek|right; apply sv_get_comments|exact Hcm].
Qed.

Lemma cc_cm2_F cs items cm1 cm2 : dictF cm1 -> cc_cm2 cs items cm1 = Ok cm2 -> dictF cm2.
Proof.
  unfold cc_cm2. intros Hcm H.
  destruct (assoc s_type items) as [[[| | | |ty| |]| | |]|]; try discriminate.
  destruct (str_eqb ty s_metadata); [|injection H as <-; exact Hcm].
  destruct cs as [|[|d mdkids m|] cs]; try discriminate.
  rewrite add_metadata_comments_stages in H.
  destruct mdkids as [|k0 [|k1 [|k2 rest]]]; try (injection H as <-; exact Hcm).
  eapply amc_fold_F; eassumption.
Qed.

Lemma cc_cm0_F c items : PV (TDict c items) -> dictF (cc_cm0 c items).
Proof.
  intros H. apply PV_dict in H. destruct H as (H1 & _ & _). unfold cc_cm0.
  assert (Hg : forall k y, k <> s_position -> assoc k items = Some (TVal y) -> flat y).
  { intros k y Hk Ha. destruct (assoc_Forall' okv k _ items H1 Ha) as [E|[E _]]; [contradiction|exact E]. }
  assert (Hne : s_comments <> s_position) by discriminate.
  destruct c.
  - destruct (assoc s_comments items) as [[[| | | | | |c' x]| | |]|] eqn:Ea; try exact dictF_nil.
    apply (flat_dict c'). eapply Hg; [exact Hne|exact Ea].
  - unfold ci_get. rewrite lower_comments.
    destruct (assoc s_comments items) as [[[| | | | | |c' x]| | |]|] eqn:Ea; try exact dictF_nil.
    apply (flat_dict c'). eapply Hg; [exact Hne|exact Ea].
  - unfold ci_get. rewrite lower_comments.
    destruct (assoc s_comments items) as [[[| | | | | |c' x]| | |]|] eqn:Ea; try exact dictF_nil.
    apply (flat_dict c'). eapply Hg; [exact Hne|exact Ea].
Qed.

Lemma cc_dict_PA cs m c items h : PA (TDict c items) -> cc_dict cs m c items = Ok h -> exists r, h = GVal r /\ PA r.
Proof.
  intros Hpa H. unfold cc_dict in H. cbv zeta in H.
  destruct (cc_cm2 _ _ _) as [cm2|e] eqn:E2; cbn [bind] in H; [|discriminate].
  injection H as <-. eexists. split; [reflexivity|]. rewrite cc_setk_comments.
  destruct Hpa as [Hpv|(Hm & _)].
  - left. apply PV_set_comments; [|exact Hpv]. apply flat_dict.
    eapply cc_cm2_F; [|exact E2]. pose proof (cc_cm0_F _ _ Hpv) as H0.
    destruct (has_comments m); [|exact H0].
    apply dictF_set; [exact lower_type|right; apply sv_get_comments|exact H0].
  - exfalso. unfold cc_cm2 in E2. rewrite od_mem_assoc in Hm.
    destruct (assoc s_type items); [discriminate Hm|discriminate E2].
Qed.

Lemma comments_callback_GA ip g h : GA g -> comments_callback ip g = Ok h -> GA h.
Proof.
  intros HG H. rewrite comments_callback_stages in H.
  destruct g as [t|d cs m|v]; try (injection H as <-; exact HG).
  destruct (d =? CB_attr).
  { destruct (tr_main ip true _) as [r|e] eqn:T1; cbn [bind] in H; [|discriminate].
    pose proof (tr_main_PA ip true _ _ HG T1) as Hr.
    destruct r as [| | |c items]; try discriminate. injection H as <-. cbn [GA].
    apply PA_set_comments; [left; apply sv_get_comments|exact Hr]. }
  destruct (d =? CB_projection).
  { destruct (tr_main ip true _) as [r|e] eqn:T1; cbn [bind] in H; [|discriminate].
    pose proof (tr_main_PA ip true _ _ HG T1) as Hr.
    destruct r as [| | |c items]; try discriminate. cbn [cc_projection] in H.
    destruct (has_comments m); injection H as <-; cbn [GA]; [apply PA_set_comments; [left; apply sv_get_comments|]|]; exact Hr. }
  destruct (d =? CB_composite).
  { destruct (tr_main ip true _) as [r|e] eqn:T1; cbn [bind] in H; [|discriminate].
    pose proof (tr_main_PA ip true _ _ HG T1) as Hr.
    destruct r as [| | |c items]; try discriminate. cbn [cc_composite] in H.
    destruct (cc_dictlike _).
    - destruct (cc_dict_PA _ _ _ _ _ Hr H) as (r' & -> & Hr'). exact Hr'.
    - apply cc_nondict_inv in H. subst h. exact Hr. }
  injection H as <-. exact HG.
Qed.

Theorem ctr_GA ip : forall g h, GA g -> ctr ip g = Ok h -> GA h.
Proof.
  fix IH 1. intros g h HG H.
  destruct g as [t|d cs m|v]; try (cbn in H; injection H as <-; exact HG).
  rewrite ctr_node in H. apply GA_node in HG.
  destruct (ctr_list ip cs) as [xs|e] eqn:L; cbn [bind] in H; [|discriminate].
  injection H as <-. apply GA_node.
  revert xs L. induction cs as [|c cs IHcs]; intros xs L.
  - cbn in L. injection L as <-. constructor.
  - cbn [ctr_list] in L.
    destruct (ctr ip c) as [c1|e] eqn:T1; cbn [bind] in L; [|discriminate].
    destruct (comments_callback ip c1) as [c2|e] eqn:K1; cbn [bind] in L; [|discriminate].
    fold (ctr_list ip cs) in L.
    destruct (ctr_list ip cs) as [xs1|e] eqn:L1; cbn [bind] in L; [|discriminate].
    injection L as <-. constructor.
    + eapply comments_callback_GA; [|exact K1]. eapply IH; [exact (Forall_inv HG)|exact T1].
    + apply IHcs; [exact (Forall_inv_tail HG)|reflexivity].
Qed.

Lemma GA_gtree_of : forall t, GA (gtree_of t).
Proof.
  fix IH 1. intros t. destruct t as [tk|d cs m]; [reflexivity|].
  cbn [gtree_of]. apply GA_node. induction cs as [|c cs IHcs]; [constructor|].
  cbn [map]. constructor; [apply IH|exact IHcs].
Qed.

Lemma GA_canonize g : GA g -> GA (canonize g).
Proof.
  intros HG. destruct g as [t|d cs m|v]; try exact HG. cbn [canonize].
  destruct (d =? CB_symbolset); [|exact HG]. apply GA_node in HG. apply GA_node.
  constructor; [|exact HG]. apply GA_node. constructor; [reflexivity|constructor].
Qed.

Theorem transform_PA ip ic t x : transform ip ic t = Ok x -> PA x.
Proof.
  intros H. unfold transform in H.
  pose proof (GA_canonize _ (GA_gtree_of t)) as HG.
  destruct ic; [|eapply tr_main_PA; eassumption].
  destruct (ctr ip _) as [g1|e] eqn:C1; cbn [bind] in H; [|discriminate].
  destruct (comments_callback ip g1) as [g2|e] eqn:K1; cbn [bind] in H; [|discriminate].
  eapply tr_main_PA; [|exact H]. eapply comments_callback_GA; [|exact K1]. eapply ctr_GA; [exact HG|exact C1].
Qed.

(* ================================================================ final data *)
Lemma std_typed y : std y -> typed (tvv y) = true.
Proof.
  destruct y as [v|t|l|c items]; cbn [std tvv typed]; try reflexivity.
  - apply sv_typed.
  - intros (ty & Hty). fold (tvi items). change K_dtype with s_type. rewrite assoc_tvi, Hty. reflexivity.
Qed.

Theorem PV_shapedS : forall x, PV x -> shapedS (tvv x) = true.
Proof.
  induction x as [v|t|l IH|c items IH] using tv_ind'.
  - cbn [PV tvv]. apply flat_shapedS.
  - intros _. reflexivity.
  - intros H. apply PV_seq in H. cbn [tvv]. rewrite shapedS_list. apply forallb_forall.
    intros v Hv. apply in_map_iff in Hv. destruct Hv as (y & <- & Hy). rewrite Forall_forall in IH, H.
    destruct (H y Hy) as [H1 H2]. rewrite (IH y Hy H1), (std_typed y H2). reflexivity.
  - intros H. apply PV_dict in H. destruct H as (H1 & H2 & H3). cbn [tvv]. fold (tvi items).
    apply shapedS_dictS. split; [|split].
    + apply Forall_forall. intros kv Hkv. unfold tvi in Hkv. apply in_map_iff in Hkv.
      destruct Hkv as (w & <- & Hw). cbn [fst snd]. rewrite Forall_forall in IH, H1.
      destruct (H1 w Hw) as [E|[E _]]; [left; exact E|right; apply IH; assumption].
    + rewrite keys_tvi. exact H2.
    + rewrite keys_tvi. exact H3.
Qed.

Lemma WS_block_typed c items : WS (VDict (DCI true) items) -> typed (VDict c items) = true.
Proof.
  intros H. apply WS_dict in H. destruct H as (_ & _ & Ht). destruct (Ht eq_refl) as (ty & Hty & _).
  cbn [typed]. change K_dtype with s_type. rewrite Hty. reflexivity.
Qed.

Lemma block_root_okS items :
  PA (TDict (DCI true) items) -> WS (tvv (TDict (DCI true) items)) -> root_okS (tvv (TDict (DCI true) items)) = true.
Proof.
  intros Hpa Hws. unfold root_okS. cbn [tvv] in Hws |- *. rewrite (WS_block_typed (DCI true) _ Hws). cbn [is_dict].
  rewrite andb_true_r, andb_true_r. change (shapedS (tvv (TDict (DCI true) items)) = true).
  destruct Hpa as [Hpv|(Hm & H1 & H2 & H3)]; [exact (PV_shapedS _ Hpv)|].
  (* a block-class dict is typed, so it is not a CONFIG attribute dict *)
  exfalso. apply WS_dict in Hws. destruct Hws as (_ & _ & Ht). destruct (Ht eq_refl) as (ty & Hty & _).
  fold (tvi items) in Hty. rewrite assoc_tvi in Hty. rewrite od_mem_assoc in Hm.
  destruct (assoc s_type items); [discriminate Hm|discriminate Hty].
Qed.

(* ================================================================ Part A: loads, every text, every flag *)
Theorem loads_root_okS : forall ip ic text v, loads ip ic text = Ok v -> root_okS_any v.
Proof.
  intros ip ic text v H. pose proof (loads_WS ip ic text v H) as Hws. unfold loads in H.
  destruct (parse_tree ic text) as [t|e] eqn:Et; cbn [bind] in H; [|discriminate].
  destruct (transform ip ic t) as [x|e] eqn:Ex; cbn [bind] in H; [|discriminate].
  rewrite tv_to_value_tvv in H. injection H as <-.
  pose proof (transform_PA ip ic t x Ex) as Hpa.
  destruct (transform_top ip ic text t x Et Ex) as [(items & ->)|(l & -> & Hl)].
  - unfold root_okS_any. cbn [tvv any_root]. apply (block_root_okS items Hpa Hws).
  - unfold root_okS_any. cbn [tvv any_root]. apply forallb_forall. intros v Hv.
    apply in_map_iff in Hv. destruct Hv as (y & <- & Hy).
    apply PA_seq in Hpa. cbn [tvv] in Hws. apply WS_list in Hws. rewrite Forall_forall in Hpa, Hws, Hl.
    destruct (Hl y Hy) as (items & ->). apply block_root_okS; [apply Hpa; exact Hy|].
    apply Hws. apply in_map_iff. eexists. split; [reflexivity|exact Hy].
Qed.

(* ================================================================ Part B: include_position=False *)
(* the assumption of C07_validate_never_raises_partial, discharged for loaded dictionaries under the
   value guard "no dict of the value has a __position__ key" *)
Theorem loads_root_ok : forall ic text v, loads false ic text = Ok v -> nopos_any v = true -> root_ok_any v.
Proof. intros ic text v H Hn. apply root_ok_any_split; [eapply loads_root_okS; exact H|exact Hn]. Qed.

(* the guard is the weakest possible: for a loaded value it is equivalent to root_ok *)
Lemma root_ok_any_nopos v : root_ok_any v -> nopos_any v = true.
Proof.
  unfold root_ok_any, nopos_any. destruct v as [| | | | |l|c items]; cbn [any_root]; try (intros; reflexivity).
  - rewrite nopos_list. intros H. rewrite forallb_forall in *. intros x Hx. specialize (H x Hx).
    unfold root_ok in H. apply andb_true_iff in H. destruct H as [H _]. apply andb_true_iff in H. destruct H as [H _].
    apply shaped_parts. exact H.
  - intros H. unfold root_ok in H. apply andb_true_iff in H. destruct H as [H _]. apply andb_true_iff in H.
    destruct H as [H _]. apply shaped_parts. exact H.
Qed.

Theorem loads_root_ok_iff : forall ic text v, loads false ic text = Ok v -> (root_ok_any v <-> nopos_any v = true).
Proof. intros ic text v H. split; [apply root_ok_any_nopos|apply (loads_root_ok ic text v H)]. Qed.

Theorem validate_loaded_never_raises :
  forall tree ic text v, wf_schema tree = true -> nopos_any v = true -> loads false ic text = Ok v ->
    exists msgs, run_validator tree v = Ok msgs.
Proof.
  intros tree ic text v Hwf Hn H. pose proof (loads_root_ok ic text v H Hn) as Hr.
  unfold root_ok_any in Hr. destruct v as [| | | | |l|c items]; cbn [any_root] in Hr;
    try (apply validate_never_raises_lemma; assumption).
  apply validate_list_never_raises_lemma; assumption.
Qed.

(* ================================================================ the guard is needed: refuted without it *)
Definition map_tree : json := expand schema_files schema_map.

(* what is observed of one text: does it load, is the value root_ok, does it meet the guard, and
   does validate (generated map schema) return *)
Definition observe (ip ic : bool) (text : str) : option (bool * bool * bool) :=
  match loads ip ic text with
  | Ok v => Some (any_root root_ok v, nopos_any v,
                  match run_validator map_tree v with Ok _ => true | Err _ => false end)
  | Err _ => None
  end.

Lemma triple_inj {A B C} (a r : A) (b g : B) (c k : C) :
  Some (a, b, c) = Some (r, g, k) -> a = r /\ b = g /\ c = k.
Proof. intros [= -> -> ->]. auto. Qed.

Lemma observe_spec ip ic text r g k :
  observe ip ic text = Some (r, g, k) ->
  exists v, loads ip ic text = Ok v /\ any_root root_ok v = r /\ nopos_any v = g /\
            ((exists msgs, run_validator map_tree v = Ok msgs) <-> k = true).
Proof.
  unfold observe. destruct (loads ip ic text) as [v|e]; [|discriminate]. intros H.
  apply triple_inj in H. destruct H as (Hr & Hg & Hk).
  exists v. split; [reflexivity|]. split; [exact Hr|]. split; [exact Hg|]. rewrite <- Hk.
  destruct (run_validator map_tree v) as [msgs|e]; split.
  - reflexivity.
  - intros _. eexists. reflexivity.
  - intros (msgs & Hm). discriminate Hm.
  - discriminate.
Qed.

(* 1. an attribute spelled __type__ is filed as a block: its plain attribute dict, with the
      __position__ record and the __tokens__ list attr() made, becomes a member of the list "xs" *)
Definition w_type_text : str := Str "MAP __type__ x END".
(* 2. METADATA keys are free text: a STRING is stored under __position__ *)
Definition w_meta_text : str := Str "MAP METADATA ""__position__"" ""x"" END END".
(* 3. so are CONFIG keys *)
Definition w_config_text : str := Str "MAP CONFIG ""__position__"" ""x"" END".
(* 4. a __type__ attribute naming a real block type: the schema of LAYER is applied to the leaked
      attribute dict, the error (TYPE is required) is located AT the dict carrying the record *)
Definition w_layer_text : str := Str "MAP __type__ layer END".

Lemma w_type_observed : observe false false w_type_text = Some (false, false, true).
Proof. vm_compute. reflexivity. Qed.
Lemma w_meta_observed : observe false false w_meta_text = Some (false, false, true).
Proof. vm_compute. reflexivity. Qed.
Lemma w_config_observed : observe false false w_config_text = Some (false, false, true).
Proof. vm_compute. reflexivity. Qed.
Lemma w_layer_observed : observe false false w_layer_text = Some (false, false, true).
Proof. vm_compute. reflexivity. Qed.
Lemma w_meta_observed_comments : observe false true w_meta_text = Some (false, false, true).
Proof. vm_compute. reflexivity. Qed.

Lemma refuted_of_observed ic text k :
  observe false ic text = Some (false, false, k) ->
  exists v, loads false ic text = Ok v /\ ~ root_ok_any v /\ nopos_any v = false.
Proof.
  intros H. destruct (observe_spec _ _ _ _ _ _ H) as (v & Hl & Hr & Hg & _). exists v.
  split; [exact Hl|]. split; [|exact Hg]. unfold root_ok_any. rewrite Hr. discriminate.
Qed.

(* loads_root_ok without its guard is false *)
Theorem loads_root_ok_refuted_type_attribute :
  exists text v, loads false false text = Ok v /\ ~ root_ok_any v /\ nopos_any v = false.
Proof. exists w_type_text. exact (refuted_of_observed _ _ _ w_type_observed). Qed.

Theorem loads_root_ok_refuted_metadata_key :
  exists text v, loads false false text = Ok v /\ ~ root_ok_any v /\ nopos_any v = false.
Proof. exists w_meta_text. exact (refuted_of_observed _ _ _ w_meta_observed). Qed.

Theorem loads_root_ok_refuted_config_key :
  exists text v, loads false false text = Ok v /\ ~ root_ok_any v /\ nopos_any v = false.
Proof. exists w_config_text. exact (refuted_of_observed _ _ _ w_config_observed). Qed.

Theorem loads_root_ok_refuted_metadata_key_comments :
  exists text v, loads false true text = Ok v /\ ~ root_ok_any v /\ nopos_any v = false.
Proof. exists w_meta_text. exact (refuted_of_observed _ _ _ w_meta_observed_comments). Qed.

(* ... but on each refuting value validate (generated map schema) still returns messages; on the
   fourth one the message is built from the leaked record (line / column of the attribute) *)
Lemma validator_ok_of_observed ip ic text r g :
  observe ip ic text = Some (r, g, true) ->
  exists v msgs, loads ip ic text = Ok v /\ run_validator map_tree v = Ok msgs.
Proof.
  intros H. destruct (observe_spec _ _ _ _ _ _ H) as (v & Hl & _ & _ & Hk).
  destruct (proj2 Hk eq_refl) as (msgs & Hm). exists v, msgs. split; assumption.
Qed.

Theorem witness_type_attribute_validator_ok :
  exists v msgs, loads false false w_type_text = Ok v /\ run_validator map_tree v = Ok msgs.
Proof. exact (validator_ok_of_observed _ _ _ _ _ w_type_observed). Qed.
Theorem witness_metadata_key_validator_ok :
  exists v msgs, loads false false w_meta_text = Ok v /\ run_validator map_tree v = Ok msgs.
Proof. exact (validator_ok_of_observed _ _ _ _ _ w_meta_observed). Qed.
Theorem witness_config_key_validator_ok :
  exists v msgs, loads false false w_config_text = Ok v /\ run_validator map_tree v = Ok msgs.
Proof. exact (validator_ok_of_observed _ _ _ _ _ w_config_observed). Qed.
Theorem witness_type_layer_validator_ok :
  exists v msgs, loads false false w_layer_text = Ok v /\ run_validator map_tree v = Ok msgs.
Proof. exact (validator_ok_of_observed _ _ _ _ _ w_layer_observed). Qed.

(* ... whereas for SOME well-formed schema tree validate does raise on such values: the guard of
   validate_loaded_never_raises cannot be dropped while the tree is universally quantified.
   (Artificial trees: one that types a METADATA key, one that gives "lines" an items schema.  In the first
   case d["__position__"] is the user's string "x" and create_message evaluates key in "x" and then
   "x".get("line"); in the second the leaked record is indexed with the dict's own __type__ "line" and
   .get is called on the line number.) *)
Definition art_tree_meta : json :=
  JObj [(Str "properties", JObj [(Str "metadata",
     JObj [(Str "properties", JObj [(Str "k", JObj [(Str "type", JStr (Str "integer"))])])])])].
Definition art_text_meta : str := Str "MAP METADATA ""__position__"" ""x"" ""k"" ""v"" END END".
Definition art_tree_line : json :=
  JObj [(Str "properties", JObj [(Str "lines",
     JObj [(Str "items", JObj [(Str "required", JArr [JStr (Str "zzz")])])])])].
Definition art_text_line : str := Str "MAP __type__ line END".

Lemma art_trees_wf : wf_schema art_tree_meta = true /\ wf_schema art_tree_line = true.
Proof. split; vm_compute; reflexivity. Qed.

Definition validated_with (tree : json) (ip ic : bool) (text : str) : option (res (list value)) :=
  match loads ip ic text with Ok v => Some (run_validator tree v) | Err _ => None end.

Lemma validated_with_spec tree ip ic text r :
  validated_with tree ip ic text = Some r -> exists v, loads ip ic text = Ok v /\ run_validator tree v = r.
Proof.
  unfold validated_with. destruct (loads ip ic text) as [v|e]; [|discriminate]. intros H.
  exists v. split; [reflexivity|]. congruence.
Qed.

Lemma art_meta_validated : validated_with art_tree_meta false false art_text_meta = Some (Err PyAttributeError).
Proof. vm_compute. reflexivity. Qed.
Lemma art_line_validated : validated_with art_tree_line false false art_text_line = Some (Err PyAttributeError).
Proof. vm_compute. reflexivity. Qed.

Theorem validate_loaded_never_raises_unguarded_refuted_metadata_key :
  exists tree text v, wf_schema tree = true /\ loads false false text = Ok v /\
                      run_validator tree v = Err PyAttributeError.
Proof.
  exists art_tree_meta, art_text_meta. destruct (validated_with_spec _ _ _ _ _ art_meta_validated) as (v & H1 & H2).
  exists v. split; [exact (proj1 art_trees_wf)|split; assumption].
Qed.

Theorem validate_loaded_never_raises_unguarded_refuted_type_attribute :
  exists tree text v, wf_schema tree = true /\ loads false false text = Ok v /\
                      run_validator tree v = Err PyAttributeError.
Proof.
  exists art_tree_line, art_text_line. destruct (validated_with_spec _ _ _ _ _ art_line_validated) as (v & H1 & H2).
  exists v. split; [exact (proj2 art_trees_wf)|split; assumption].
Qed.

(* non-vacuity: the guard holds, the value is root_ok and validate returns on an ordinary document,
   with and without comments *)
Definition sample_text : str := Str "MAP
  NAME 'x'  # c1
  CONFIG 'a' 'b'
  EXTENT 1 2 3 4.5
  SIZE 10.5 20
  WEB METADATA 'k' 'v' END END
  PROJECTION 'init=epsg:4326' END
  LAYER PROCESSING 'p=1' PROCESSING 'q=2' TYPE POINT FEATURE POINTS 1 2 END POINTS 3 4 END END
    CLASS EXPRESSION ([a] > 5) STYLE COLOR 1 2 3 NOSUCH 1 END END
    VALIDATION 'a' 'b' END
  END
END".

Lemma sample_observed : observe false false sample_text = Some (true, true, true).
Proof. vm_compute. reflexivity. Qed.
Lemma sample_observed_comments : observe false true sample_text = Some (true, true, true).
Proof. vm_compute. reflexivity. Qed.

Example loads_root_ok_inhabited :
  (exists v, loads false false sample_text = Ok v /\ nopos_any v = true /\ root_ok_any v) /\
  (exists v, loads false true sample_text = Ok v /\ nopos_any v = true /\ root_ok_any v).
Proof.
  split.
  - destruct (observe_spec _ _ _ _ _ _ sample_observed) as (v & Hl & Hr & Hg & _). exists v. auto.
  - destruct (observe_spec _ _ _ _ _ _ sample_observed_comments) as (v & Hl & Hr & Hg & _). exists v. auto.
Qed.

(* ================================================================ Part C: include_position=True *)
(* History: before the fix b8dd688 of Validator.create_message, validate raised AttributeError on
   MAP LAYER PROCESSING 5 END END loaded with include_position=True (for a repeatable keyword the block's
   __position__ record holds a LIST of per-occurrence records; pd.get("line") was called on the list).
   The refuted theorem found that defect; the model and the code now pick the record of the occurrence
   the error path names, and the former witnesses return messages: *)
Definition w_pos_text : str := Str "MAP LAYER PROCESSING 5 END END".
Definition w_pos_text2 : str := Str "MAP LAYER TYPE POINT PROCESSING 5 PROCESSING ""a"" END END".

Definition validated : bool -> bool -> str -> option (res (list value)) := validated_with map_tree.

Definition nmsgs (r : option (res (list value))) : option nat :=
  match r with Some (Ok m) => Some (length m) | _ => None end.

Lemma w_pos_validated : nmsgs (validated true false w_pos_text) = Some 2%nat.
Proof. vm_compute. reflexivity. Qed.
Lemma w_pos_validated2 : nmsgs (validated true false w_pos_text2) = Some 1%nat.
Proof. vm_compute. reflexivity. Qed.
Lemma w_pos_validated_comments : nmsgs (validated true true w_pos_text) = Some 2%nat.
Proof. vm_compute. reflexivity. Qed.

Lemma validated_spec ip ic text r :
  validated ip ic text = Some r -> exists v, loads ip ic text = Ok v /\ run_validator map_tree v = r.
Proof. apply validated_with_spec. Qed.

(* with positions, on a document whose faults lie outside repeatable keywords, validate returns *)
Lemma sample_observed_positions : observe true true sample_text = Some (false, false, true).
Proof. vm_compute. reflexivity. Qed.

(* the instance validate judges has pairwise distinct keys in every object, WHATEVER the dictionary
   (convert_lowercase rebuilds every dict with od_set): every error path of every dictionary leads
   to a node of the instance - with or without position records *)
Theorem jnodup_jsn_any : forall d, jnodup (jsn_of d) = true.
Proof.
  induction d as [| | | | |l IH|c items IH] using value_ind'; try reflexivity.
  - rewrite jsn_of_list. unfold jnodup. rewrite jall_arr. cbn [obj_nodup andb].
    apply forallb_forall. intros n Hn. apply in_map_iff in Hn. destruct Hn as (x & <- & Hx).
    rewrite Forall_forall in IH. exact (IH x Hx).
  - unfold jsn_of. rewrite convert_lowercase_dict, to_json_dict. unfold jnodup. rewrite jall_obj.
    cbn [obj_nodup]. rewrite keys_map_snd. apply andb_true_iff. split.
    + apply NoDup_nodupb. rewrite lc_items_setall. apply NoDup_setall. constructor.
    + apply forallb_forall. intros kv Hkv. apply in_map_iff in Hkv. destruct Hkv as ([k v] & <- & Hin).
      cbn [fst snd]. rewrite lc_items_setall in Hin. apply In_setall in Hin. destruct Hin as [Hin|[]].
      apply in_map_iff in Hin. destruct Hin as ([k0 v0] & [= <- <-] & Hin0). cbn [fst snd].
      rewrite Forall_forall in IH. exact (IH (k0, v0) Hin0).
Qed.

Theorem error_paths_valid_any :
  forall tree d e, In e (ierr tree (jsn_of d)) -> valid (jsn_of d) e.
Proof. intros tree d e He. exact (ierr_paths_valid tree (jsn_of d) e (jnodup_jsn_any d) He). Qed.

(* ================================================================ Part C1: schema trees that do not look below __position__ *)
(* An error path goes BELOW a __position__ entry only when the schema names that key: as a property
   with a structured schema, through a pattern property whose schema is not {}, or through an
   additionalProperties schema.  [avoid_pos] is a boolean function of the schema tree excluding the
   three (a property __position__ with a schema of leaf keywords only, like {"type": "object"} in
   layer.json, is allowed: its errors END at the key); the generated schemas satisfy it. *)
Definition pfree (p : list pelem) : bool :=
  forallb (fun x => match x with PKey k => negb (str_eqb k s_position) | PIdx _ => true end) p.

(* the path up to its last step *)
Definition pend (p : list pelem) : bool := pfree (removelast p).

(* a schema all of whose errors are located at the instance itself *)
Definition shallow (s : json) : bool :=
  match s with
  | JObj kws =>
      forallb (fun kv => negb (str_eqb (fst kv) Schema.K_properties) && negb (str_eqb (fst kv) K_patternProperties)
                         && negb (str_eqb (fst kv) K_items) && negb (str_eqb (fst kv) K_allOf)
                         && (negb (str_eqb (fst kv) K_additionalProperties)
                             || match snd kv with JObj _ => false | _ => true end)) kws
  | _ => true
  end.

Definition pos_not_additional (kws : list (str * json)) : bool :=
  let props := match assoc Schema.K_properties kws with Some (JObj p) => p | _ => [] end in
  let pats := match assoc K_patternProperties kws with Some (JObj p) => keys p | _ => [] end in
  od_mem s_position props || existsb (fun p => rx_search p s_position) pats.

Definition kw_avoid (kws : list (str * json)) (kv : str * json) : bool :=
  if str_eqb (fst kv) Schema.K_properties then
    match snd kv with
    | JObj props => forallb (fun ps => negb (str_eqb (fst ps) s_position) || shallow (snd ps)) props
    | _ => true
    end
  else if str_eqb (fst kv) K_patternProperties then
    match snd kv with
    | JObj pps => forallb (fun ps => negb (rx_search (fst ps) s_position) || json_eqb (snd ps) (JObj [])) pps
    | _ => true
    end
  else if str_eqb (fst kv) K_additionalProperties then
    match snd kv with JObj _ => pos_not_additional kws | _ => true end
  else true.

Definition pos_node (n : json) : bool :=
  match n with JObj kws => forallb (kw_avoid kws) kws | _ => true end.

Definition avoid_pos (tree : json) : bool := jall pos_node tree.

Lemma map_tree_avoid_pos : avoid_pos map_tree = true.
Proof. vm_compute. reflexivity. Qed.

Lemma shipped_avoid_pos : forallb (fun kv => avoid_pos (expand schema_files (snd kv))) schema_files = true.
Proof. vm_compute. reflexivity. Qed.

Lemma pend_push k e : str_eqb k s_position = false -> pend (epath e) = true -> pend (epath (push (PKey k) e)) = true.
Proof.
  intros Hk He. unfold pend in *. cbn [push epath]. destruct (epath e) as [|x l]; [reflexivity|].
  change (removelast (PKey k :: x :: l)) with (PKey k :: removelast (x :: l)).
  cbn [pfree forallb]. rewrite Hk. exact He.
Qed.

Lemma pend_push_idx i e : pend (epath e) = true -> pend (epath (push (PIdx i) e)) = true.
Proof.
  intros He. unfold pend in *. cbn [push epath]. destruct (epath e) as [|x l]; [reflexivity|].
  change (removelast (PIdx i :: x :: l)) with (PIdx i :: removelast (x :: l)). exact He.
Qed.

Lemma pend_push_here p e : epath e = [] -> pend (epath (push p e)) = true.
Proof. intros He. unfold pend. cbn [push epath]. rewrite He. reflexivity. Qed.

Lemma shallow_here s x e : shallow s = true -> In e (ierr s x) -> epath e = [].
Proof.
  intros Hs He. destruct s as [| | | | | |kws]; try destruct He.
  rewrite ierr_unfold in He. apply in_flat_map in He. destruct He as ([k v] & Hin & He). cbn [fst snd] in He.
  cbn [shallow] in Hs. rewrite forallb_forall in Hs. specialize (Hs _ Hin). cbn [fst snd] in Hs.
  assert (Hleaf : In e (leaf_errs k v kws x) -> epath e = []).
  { intros Hl. pose proof (leaf_errs_here k v kws x) as Hh. rewrite Forall_forall in Hh. exact (Hh e Hl). }
  assert (Hh1 : forall (c : bool) kw, In e (if c then [] else here kw) -> epath e = [])
    by (intros c kw; destruct c; [intros []|intros [<-|[]]; reflexivity]).
  assert (Hh2 : forall (c : bool) kw, In e (if c then here kw else []) -> epath e = [])
    by (intros c kw; destruct c; [intros [<-|[]]; reflexivity|intros []]).
  unfold kw_errs in He.
  destruct (str_eqb k Schema.K_properties); [discriminate Hs|].
  destruct (str_eqb k K_patternProperties); [discriminate Hs|].
  destruct (str_eqb k K_additionalProperties).
  { cbn [negb andb orb] in Hs. destruct v; try (apply Hleaf; exact He). rewrite andb_false_r in Hs. discriminate Hs. }
  destruct (str_eqb k K_items); [discriminate Hs|].
  destruct (str_eqb k K_allOf); [discriminate Hs|].
  destruct (str_eqb k K_anyOf); [destruct v; try destruct He; eapply Hh1; exact He|].
  destruct (str_eqb k K_oneOf); [destruct v; try destruct He; eapply Hh1; exact He|].
  destruct (str_eqb k K_not); [eapply Hh2; exact He|].
  apply Hleaf. exact He.
Qed.

Lemma json_eqb_empty_obj s : json_eqb s (JObj []) = true -> s = JObj [].
Proof. destruct s as [| | | | | |l]; try discriminate. destruct l as [|[k v] l]; [reflexivity|discriminate]. Qed.

Lemma ierr_empty_schema x : ierr (JObj []) x = [].
Proof. rewrite ierr_unfold. reflexivity. Qed.

Lemma jall_obj_member p k v l : jall p (JObj l) = true -> In (k, v) l -> jall p v = true.
Proof.
  rewrite jall_obj, andb_true_iff. intros [_ H] Hin. rewrite forallb_forall in H. exact (H (k, v) Hin).
Qed.

Lemma jall_arr_member p x l : jall p (JArr l) = true -> In x l -> jall p x = true.
Proof.
  rewrite jall_arr, andb_true_iff. intros [_ H] Hin. rewrite forallb_forall in H. exact (H x Hin).
Qed.

Lemma in_if_here_pfree (c : bool) kw e : In e (if c then [] else here kw) -> pend (epath e) = true.
Proof. destruct c; [intros []|]. intros [<-|[]]. reflexivity. Qed.

Lemma in_if_here_pfree' (c : bool) kw e : In e (if c then here kw else []) -> pend (epath e) = true.
Proof. destruct c; [|intros []]. intros [<-|[]]. reflexivity. Qed.

Lemma in_members_inv_rx (rec : json -> json -> list verr) pat sub inst e :
  In e ((fix mloop (ms : list (str * json)) : list verr :=
           match ms with
           | [] => []
           | (mk, x) :: ms' =>
               (if rx_search pat mk then map (push (PKey mk)) (rec sub x) else []) ++ mloop ms'
           end) inst) ->
  exists mk x e', rx_search pat mk = true /\ In e' (rec sub x) /\ e = push (PKey mk) e'.
Proof.
  induction inst as [|[mk x] inst IH]; intros H; [destruct H|].
  apply in_app_or in H. destruct H as [H|H].
  - destruct (rx_search pat mk) eqn:Er; [|destruct H].
    apply in_map_iff in H. destruct H as (e' & <- & He'). exists mk, x, e'. auto.
  - exact (IH H).
Qed.

Lemma in_pprops_inv_rx (rec : json -> json -> list verr) pps inst e :
  In e (pprops_errs rec pps inst) ->
  exists pat sub mk x e', In (pat, sub) pps /\ rx_search pat mk = true /\ In e' (rec sub x) /\ e = push (PKey mk) e'.
Proof.
  induction pps as [|[pat sub] pps IH]; intros H; [destruct H|].
  cbn [pprops_errs] in H. apply in_app_or in H. destruct H as [H|H].
  - destruct (in_members_inv_rx rec pat sub inst e H) as (mk & x & e' & A & B & C).
    exists pat, sub, mk, x, e'. split; [left; reflexivity|auto].
  - destruct (IH H) as (pat' & sub' & mk & x & e' & A & B & C & D).
    exists pat', sub', mk, x, e'. split; [right; exact A|auto].
Qed.

(* one keyword *)
Lemma kw_pfree k v kws j e :
  In (k, v) kws -> jall pos_node (JObj kws) = true ->
  (forall sub, (jsize sub <= jsize v)%nat -> jall pos_node sub = true ->
               forall x e', In e' (ierr sub x) -> pend (epath e') = true) ->
  In e (kw_errs ierr k v kws j) -> pend (epath e) = true.
Proof.
  intros Hkv Hall IH H.
  assert (Hleaf : In e (leaf_errs k v kws j) -> pend (epath e) = true).
  { intros Hl. pose proof (leaf_errs_here k v kws j) as Hh. rewrite Forall_forall in Hh.
    rewrite (Hh e Hl). reflexivity. }
  pose proof (jall_obj_member _ _ _ _ Hall Hkv) as Hv.
  assert (Hnode : kw_avoid kws (k, v) = true).
  { apply jall_here in Hall. cbn [pos_node] in Hall. rewrite forallb_forall in Hall. exact (Hall _ Hkv). }
  unfold kw_avoid in Hnode. cbn [fst snd] in Hnode.
  assert (IHo : forall l p sub, v = JObj l -> In (p, sub) l ->
                forall x e', In e' (ierr sub x) -> pend (epath e') = true).
  { intros l p sub -> Hin. apply IH; [apply Nat.lt_le_incl; eapply jsize_obj_in; exact Hin|].
    eapply jall_obj_member; eassumption. }
  assert (IHa : forall l sub, v = JArr l -> In sub l ->
                forall x e', In e' (ierr sub x) -> pend (epath e') = true).
  { intros l sub -> Hin. apply IH; [apply Nat.lt_le_incl; eapply jsize_arr_in; exact Hin|].
    eapply jall_arr_member; eassumption. }
  unfold kw_errs in H.
  destruct (str_eqb k Schema.K_properties).
  { destruct v as [| | | | | |props]; try destruct H. destruct j as [| | | | | |inst]; try destruct H.
    destruct (in_props_inv _ _ _ _ H) as (pk & sub & x & e' & A & B & C & ->).
    rewrite forallb_forall in Hnode. specialize (Hnode _ A). cbn [fst snd] in Hnode.
    destruct (str_eqb pk s_position) eqn:Ep.
    - cbn [negb orb] in Hnode. apply pend_push_here. eapply shallow_here; eassumption.
    - apply pend_push; [exact Ep|]. exact (IHo props pk sub eq_refl A x e' C). }
  destruct (str_eqb k K_patternProperties).
  { destruct v as [| | | | | |pps]; try destruct H. destruct j as [| | | | | |inst]; try destruct H.
    destruct (in_pprops_inv_rx _ _ _ _ H) as (pat & sub & mk & x & e' & A & B & C & ->).
    rewrite forallb_forall in Hnode. specialize (Hnode _ A). cbn [fst snd] in Hnode.
    apply pend_push; [|exact (IHo pps pat sub eq_refl A x e' C)].
    destruct (str_eqb_spec mk s_position) as [->|]; [|reflexivity]. exfalso.
    rewrite B in Hnode. cbn [negb orb] in Hnode. apply json_eqb_empty_obj in Hnode. subst sub.
    rewrite ierr_empty_schema in C. destruct C. }
  destruct (str_eqb k K_additionalProperties).
  { destruct v as [| | | | | |sch]; try (apply Hleaf; exact H).
    destruct j as [| | | | | |inst]; try (apply Hleaf; exact H).
    cbv beta in H. destruct (in_addl_inv _ _ _ _ H) as (mk & x & e' & A & C & ->).
    apply pend_push; [|exact (IH (JObj sch) (Nat.le_refl _) Hv x e' C)].
    destruct (str_eqb_spec mk s_position) as [->|]; [|reflexivity]. exfalso.
    unfold find_additional in A. apply filter_In in A. destruct A as [_ A]. cbn [fst] in A.
    unfold pos_not_additional in Hnode. apply orb_true_iff in Hnode. apply andb_true_iff in A. destruct A as [A1 A2].
    destruct Hnode as [Hn|Hn]; [rewrite Hn in A1|rewrite Hn in A2]; discriminate. }
  destruct (str_eqb k K_items).
  { destruct v as [| | | | |subs|sch]; try destruct H.
    - destruct j as [| | | | |xs|]; try destruct H.
      unfold tuple_errs in H. destruct (in_tuple_inv _ _ _ _ _ H) as (sub & i & x & e' & A & B & C & ->).
      apply pend_push_idx. exact (IHa subs sub eq_refl A x e' C).
    - destruct j as [| | | | |xs|]; try destruct H.
      unfold items_errs in H. destruct (in_items_inv _ _ _ _ _ H) as (i & x & e' & B & C & ->).
      apply pend_push_idx. exact (IH (JObj sch) (Nat.le_refl _) Hv x e' C). }
  destruct (str_eqb k K_allOf).
  { destruct v as [| | | | |subs|]; try destruct H.
    destruct (in_allof_inv _ _ _ _ H) as (sub & A & B). exact (IHa subs sub eq_refl A j e B). }
  destruct (str_eqb k K_anyOf).
  { destruct v as [| | | | |subs|]; try destruct H. eapply in_if_here_pfree; exact H. }
  destruct (str_eqb k K_oneOf).
  { destruct v as [| | | | |subs|]; try destruct H. eapply in_if_here_pfree; exact H. }
  destruct (str_eqb k K_not).
  { eapply in_if_here_pfree'; exact H. }
  apply Hleaf. exact H.
Qed.

Lemma ierr_pfree_size n :
  forall s, (jsize s < n)%nat -> jall pos_node s = true -> forall j e, In e (ierr s j) -> pend (epath e) = true.
Proof.
  induction n as [|n IH]; intros s Hs Hall j e He; [lia|].
  destruct s as [| | | | | |kws]; try destruct He.
  rewrite ierr_unfold in He. apply in_flat_map in He. destruct He as ([k v] & Hin & He). cbn [fst snd] in He.
  apply (kw_pfree k v kws j e Hin Hall); [|exact He].
  intros sub Hle. apply IH. pose proof (jsize_obj_in k v kws Hin). lia.
Qed.

(* no error path of such a tree goes below a __position__ key *)
Theorem ierr_paths_avoid_position s j e : avoid_pos s = true -> In e (ierr s j) -> pend (epath e) = true.
Proof. intros Ha He. exact (ierr_pfree_size (S (jsize s)) s (Nat.lt_succ_diag_r _) Ha j e He). Qed.

(* ================================================================ Part C2: dictionaries carrying position records *)
(* what create_message needs of a dict [d] that has a __position__ entry, for every key the message can
   be named after (a key of d, or d's own __type__): the record it ends up reading line / column from is
   a dict, or a non-empty list of dicts.  Stated with the model's own lookups, so that it can be
   evaluated on any value. *)
Definition recordish (pd : value) : bool :=
  match pd with
  | VDict _ _ => true
  | VList l => negb (is_nil l) && forallb is_dict l
  | _ => false
  end.

Definition rget (r : res value) : bool := match r with Ok pd => recordish pd | Err _ => false end.

Definition key_ok (d posd : value) (k : str) : bool :=
  match dict_get d k with
  | Ok child =>
      match (if is_dict child then contains child K_dposition else Ok false) with
      | Ok true => rget (getitem child (PKey K_dposition))
      | Ok false =>
          match contains posd k with
          | Ok true => rget (getitem posd (PKey k))
          | Ok false => recordish posd
          | Err _ => false
          end
      | Err _ => false
      end
  | Err _ => false
  end.

Definition tyname (items : list (str * value)) : list str :=
  match assoc K_dtype items with Some (VStr t) => [t] | _ => [] end.

Definition posok_dict (d : value) : bool :=
  match d with
  | VDict c items =>
      match contains d K_dposition with
      | Ok true =>
          match getitem d (PKey K_dposition) with
          | Ok posd => recordish posd && forallb (key_ok d posd) (keys items ++ tyname items)
          | Err _ => false
          end
      | Ok false => true
      | Err _ => false
      end
  | _ => true
  end.

(* every dict of the value, not looking below __position__ keys *)
Fixpoint posok (d : value) : bool :=
  match d with
  | VDict c items =>
      posok_dict (VDict c items)
      && (fix go (l : list (str * value)) : bool :=
            match l with [] => true | (k, v) :: l' => (str_eqb k K_dposition || posok v) && go l' end) items
  | VList l => (fix go (l : list value) : bool :=
                  match l with [] => true | x :: l' => posok x && go l' end) l
  | _ => true
  end.

Lemma posok_dict_eq c items :
  posok (VDict c items) =
  posok_dict (VDict c items) && forallb (fun kv => str_eqb (fst kv) K_dposition || posok (snd kv)) items.
Proof.
  cbn [posok]. f_equal. induction items as [|[k v] items IH]; [reflexivity|]. cbn [forallb fst snd]. rewrite IH. reflexivity.
Qed.

Lemma posok_list l : posok (VList l) = forallb posok l.
Proof. cbn [posok]. induction l as [|x l IH]; [reflexivity|]. cbn [forallb]. rewrite IH. reflexivity. Qed.

Lemma last_opt_v_In l r : last_opt_v l = Some r -> In r l.
Proof.
  induction l as [|x l IH]; [discriminate|]. cbn [last_opt_v]. destruct l as [|y l'].
  - intros [= ->]. left. reflexivity.
  - intros H. right. apply IH. exact H.
Qed.

Lemma last_opt_v_nonempty l : l <> [] -> exists r, last_opt_v l = Some r.
Proof.
  induction l as [|x l IH]; [congruence|]. intros _. cbn [last_opt_v]. destruct l as [|y l'].
  - eexists. reflexivity.
  - apply IH. discriminate.
Qed.

Lemma recordish_pick key path pd :
  recordish pd = true -> exists c items, pick_record key path pd = Ok (VDict c items).
Proof.
  destruct pd as [| | | | |l|c items]; try discriminate.
  - cbn [recordish pick_record]. intros H. apply andb_true_iff in H. destruct H as [Hne Hd].
    rewrite forallb_forall in Hd.
    assert (Hin : forall r, In r l -> exists c items, r = VDict c items).
    { intros r Hr. specialize (Hd r Hr). destruct r; try discriminate. eexists _, _. reflexivity. }
    cbv zeta. destruct (nth_error l _) as [r|] eqn:En.
    + destruct (Hin r (nth_error_In _ _ En)) as (c & items & ->). eexists _, _. reflexivity.
    + destruct (last_opt_v_nonempty l) as (r & Er); [destruct l; [discriminate Hne|discriminate]|].
      rewrite Er. destruct (Hin r (last_opt_v_In _ _ Er)) as (c & items & ->). eexists _, _. reflexivity.
  - intros _. eexists _, _. reflexivity.
Qed.

Lemma dict_get_dict c items k : exists v, dict_get (VDict c items) k = Ok v.
Proof. destruct c; cbn [dict_get]; eexists; reflexivity. Qed.

Lemma read_record e base key pd :
  recordish pd = true ->
  exists m, (do pd1 <- pick_record key (epath e) pd;
             do line <- dict_get pd1 (Str "line");
             do column <- dict_get pd1 (Str "column");
             Ok (VDict DPlain (base ++ [(Str "line", line); (Str "column", column)]))) = Ok m.
Proof.
  intros H. destruct (recordish_pick key (epath e) pd H) as (c & items & ->). cbn [bind].
  destruct (dict_get_dict c items (Str "line")) as (ln & ->). cbn [bind].
  destruct (dict_get_dict c items (Str "column")) as (cl & ->). cbn [bind]. eexists. reflexivity.
Qed.

(* the tail of create_message succeeds *)
Lemma finish_ok e c items k :
  posok_dict (VDict c items) = true -> In k (keys items ++ tyname items) ->
  exists m, finish_message e (VDict c items) k = Ok m.
Proof.
  intros Hp Hk. unfold finish_message. cbv zeta. unfold posok_dict in Hp.
  destruct (contains (VDict c items) K_dposition) as [[|]|]; try discriminate; cbn [bind];
    [|eexists; reflexivity].
  destruct (getitem (VDict c items) (PKey K_dposition)) as [posd|] eqn:Eg; [|discriminate].
  apply andb_true_iff in Hp. destruct Hp as [Hr Hks]. rewrite forallb_forall in Hks. specialize (Hks k Hk).
  destruct (is_nil (epath e)) eqn:En.
  - cbn [bind is_dict]. apply read_record. exact Hr.
  - unfold key_ok in Hks.
    destruct (dict_get (VDict c items) k) as [child|]; [|discriminate]. cbn [bind].
    destruct (if is_dict child then contains child K_dposition else Ok false) as [[|]|]; try discriminate; cbn [bind].
    + destruct (getitem child (PKey K_dposition)) as [pd|]; [|discriminate]. cbn [bind rget] in *.
      apply read_record. exact Hks.
    + destruct (contains posd k) as [[|]|]; try discriminate; cbn [bind].
      * destruct (getitem posd (PKey k)) as [pd|]; [|discriminate]. cbn [bind rget] in *. apply read_record. exact Hks.
      * apply read_record. exact Hks.
Qed.

(* ---------------------------------------------------------------- navigation (as in C07Paths, for shapedS) *)
Definition notpos (p : pelem) : bool := match p with PKey k => negb (str_eqb k s_position) | PIdx _ => true end.

Lemma step_corrP d p node :
  shapedS d = true -> posok d = true -> notpos p = true -> jstep (jsn_of d) p = Some node ->
  exists d', getitem d p = Ok d' /\ jsn_of d' = node /\ shapedS d' = true /\ posok d' = true /\
             match p with PIdx _ => typed d' = true | PKey _ => True end.
Proof.
  intros Hs Hpo Hnp Hj. destruct d as [| | | | |l|c items]; try (unfold jsn_of in Hj; cbn in Hj; destruct p; discriminate).
  - rewrite jsn_of_list in Hj. destruct p as [k|i]; [discriminate|]. cbn [jstep] in Hj.
    rewrite nth_error_map in Hj. destruct (nth_error l (N.to_nat i)) as [x|] eqn:En; [|discriminate].
    injection Hj as <-. rewrite shapedS_list, forallb_forall in Hs. rewrite posok_list, forallb_forall in Hpo.
    specialize (Hs x (nth_error_In _ _ En)). rewrite andb_true_iff in Hs. destruct Hs as [H1 H2].
    exists x. cbn [getitem]. rewrite En. split; [reflexivity|]. split; [reflexivity|].
    split; [exact H1|]. split; [exact (Hpo x (nth_error_In _ _ En))|exact H2].
  - rewrite shapedS_dict, !andb_true_iff in Hs. destruct Hs as [[Hl Hn] Hv].
    rewrite posok_dict_eq, andb_true_iff in Hpo. destruct Hpo as [_ Hpv].
    rewrite (jsn_of_dict c items Hl Hn) in Hj. destruct p as [k|i]; [|discriminate]. cbn [jstep] in Hj.
    rewrite C07Paths.assoc_map_snd in Hj. destruct (assoc k items) as [v|] eqn:Ea; [|discriminate].
    injection Hj as <-. exists v. split; [apply getitem_present_key; assumption|].
    rewrite forallb_forall in Hv, Hpv. pose proof (assoc_Some_in _ _ _ Ea) as Hin.
    specialize (Hv _ Hin). specialize (Hpv _ Hin). cbn [fst snd] in Hv, Hpv. cbn [notpos] in Hnp.
    apply negb_true_iff in Hnp. change K_dposition with s_position in Hv, Hpv. rewrite Hnp in Hv, Hpv.
    cbn [orb] in Hv, Hpv. auto.
Qed.

Lemma find_corrP p : forall d node,
  shapedS d = true -> posok d = true -> forallb notpos p = true -> jfind (jsn_of d) p = Some node ->
  exists d', findkey d p = Ok d' /\ jsn_of d' = node /\ shapedS d' = true /\ posok d' = true.
Proof.
  induction p as [|x p IH]; intros d node Hs Hpo Hnp Hj.
  - injection Hj as <-. exists d. auto.
  - cbn [jfind] in Hj. destruct (jstep (jsn_of d) x) as [n1|] eqn:E1; [|discriminate].
    cbn [forallb] in Hnp. apply andb_true_iff in Hnp. destruct Hnp as [Hx Hp].
    destruct (step_corrP d x n1 Hs Hpo Hx E1) as (d1 & G1 & J1 & S1 & P1 & _).
    rewrite <- J1 in Hj. destruct (IH d1 node S1 P1 Hp Hj) as (d' & G & J & S & P).
    exists d'. cbn [findkey]. rewrite G1. cbn [bind]. auto.
Qed.

Lemma pfree_notpos p : pfree p = forallb notpos p.
Proof. reflexivity. Qed.

(* a dict whose JSON image has the key has it itself *)
Lemma jstep_key_In c items k node :
  shapedS (VDict c items) = true -> jstep (jsn_of (VDict c items)) (PKey k) = Some node -> In k (keys items).
Proof.
  intros Hs Hj. rewrite shapedS_dict, !andb_true_iff in Hs. destruct Hs as [[Hl Hn] _].
  rewrite (jsn_of_dict c items Hl Hn) in Hj. cbn [jstep] in Hj. rewrite C07Paths.assoc_map_snd in Hj.
  destruct (assoc k items) as [v|] eqn:Ea; [|discriminate]. eapply In_keys. apply assoc_Some_in. exact Ea.
Qed.

Lemma typed_getitem c items :
  shapedS (VDict c items) = true -> typed (VDict c items) = true ->
  exists ty, getitem (VDict c items) (PKey K_dtype) = Ok (VStr ty) /\ In ty (tyname items).
Proof.
  intros Hs Ht. rewrite shapedS_dict, !andb_true_iff in Hs. destruct Hs as [[Hl _] _].
  cbn [typed] in Ht. unfold tyname. destruct (assoc K_dtype items) as [tv|] eqn:Ea; [|discriminate].
  destruct tv as [| | | |ty| |]; try discriminate. exists ty. split; [|left; reflexivity].
  apply getitem_present_key; assumption.
Qed.

Lemma posok_here c items : posok (VDict c items) = true -> posok_dict (VDict c items) = true.
Proof. rewrite posok_dict_eq, andb_true_iff. tauto. Qed.

(* create_message returns, for every error whose path does not go below a __position__ entry *)
Lemma shapedP_message d e :
  shapedS d = true -> posok d = true -> typed d = true -> is_dict d = true ->
  valid (jsn_of d) e -> pend (epath e) = true -> exists m, create_message d e = Ok m.
Proof.
  intros Hs Hpo Ht Hd (node & Hv) Hpe. rewrite create_message_target. unfold target.
  destruct (epath e) as [|p0 ps] eqn:Ep.
  - destruct d as [| | | | | |c items]; try discriminate. cbn [bind fst snd].
    destruct (typed_getitem c items Hs Ht) as (ty & -> & Hin). cbn [bind].
    apply finish_ok; [apply posok_here; exact Hpo|apply in_or_app; right; exact Hin].
  - assert (Hne : p0 :: ps <> []) by discriminate.
    destruct (exists_last Hne) as (pre & x & Epath). rewrite Epath in *.
    unfold pend in Hpe. rewrite removelast_last in Hpe.
    rewrite last_last, removelast_last.
    rewrite jfind_app in Hv. destruct (jfind (jsn_of d) pre) as [nP|] eqn:EP; [|discriminate].
    destruct (find_corrP pre d nP Hs Hpo Hpe EP) as (dP & GP & JP & SP & PP).
    cbn [jfind] in Hv. destruct (jstep nP x) as [nX|] eqn:EX; [|discriminate].
    destruct x as [k|i].
    + rewrite GP. cbn [bind fst snd].
      assert (HdP : is_dict dP = true).
      { destruct nP; try discriminate. eapply jsn_obj_is_dict; exact JP. }
      destruct dP as [| | | | | |c items]; try discriminate.
      apply finish_ok; [apply posok_here; exact PP|]. apply in_or_app. left.
      rewrite <- JP in EX. eapply jstep_key_In; eassumption.
    + rewrite findkey_app, GP. cbn [bind findkey].
      rewrite <- JP in EX. destruct (step_corrP dP (PIdx i) nX SP PP eq_refl EX) as (o & GO & JO & SO & PO & TO).
      rewrite GO. cbn [bind].
      destruct (is_dict o) eqn:Eo.
      * destruct o as [| | | | | |c items]; try discriminate. cbn [bind fst snd].
        destruct (typed_getitem c items SO TO) as (ty & -> & Hin). cbn [bind].
        apply finish_ok; [apply posok_here; exact PO|apply in_or_app; right; exact Hin].
      * destruct (last_key (pre ++ [PIdx i])) as [[kpre k]|] eqn:Elk.
        -- destruct (last_key_split _ _ _ Elk) as (rest & Esplit).
           assert (Hpk : forallb notpos kpre = true).
           { assert (Hall : forallb notpos (pre ++ [PIdx i]) = true)
               by (rewrite forallb_app, <- pfree_notpos, Hpe; reflexivity).
             rewrite Esplit, forallb_app in Hall. apply andb_true_iff in Hall. tauto. }
           assert (Hvk : exists nK nk, jfind (jsn_of d) kpre = Some nK /\ jstep nK (PKey k) = Some nk).
           { assert (Hfull : jfind (jsn_of d) (pre ++ [PIdx i]) = Some nX).
             { rewrite jfind_app, EP. cbn [jfind]. rewrite <- JP, EX. reflexivity. }
             rewrite Esplit, jfind_app in Hfull.
             destruct (jfind (jsn_of d) kpre) as [nK|]; [|discriminate].
             cbn [jfind] in Hfull. destruct (jstep nK (PKey k)) as [nk|] eqn:Ek; [|discriminate].
             exists nK, nk. auto. }
           destruct Hvk as (nK & nk & EK & Ek).
           destruct (find_corrP kpre d nK Hs Hpo Hpk EK) as (dK & GK & JK & SK & PK).
           rewrite GK. cbn [bind fst snd].
           assert (HdK : is_dict dK = true).
           { destruct nK; try discriminate. eapply jsn_obj_is_dict; exact JK. }
           destruct dK as [| | | | | |c items]; try discriminate.
           apply finish_ok; [apply posok_here; exact PK|]. apply in_or_app. left.
           rewrite <- JK in Ek. eapply jstep_key_In; eassumption.
        -- exfalso. rewrite <- Epath in Elk.
           destruct d as [| | | | | |c items]; try discriminate.
           assert (Hfull : jfind (jsn_of (VDict c items)) (p0 :: ps) <> None).
           { rewrite Epath, jfind_app, EP. cbn [jfind]. rewrite <- JP, EX. discriminate. }
           rewrite shapedS_dict, !andb_true_iff in Hs. destruct Hs as [[Hl Hn] _].
           rewrite (jsn_of_dict c items Hl Hn) in Hfull.
           destruct p0 as [k0|i0]; [exact (last_key_first k0 ps Elk)|].
           apply Hfull. reflexivity.
Qed.

Definition root_okP (d : value) : bool := shapedS d && posok d && typed d && is_dict d.

(* C07 "validate never raises" for dictionaries WITH position records: every schema tree the model covers
   that does not look below __position__ entries, every root dictionary satisfying root_okP *)
Theorem validate_never_raises_positions_lemma tree d :
  wf_schema tree = true -> avoid_pos tree = true -> root_okP d = true -> exists msgs, run_validator tree d = Ok msgs.
Proof.
  intros Hwf Hav Hr. unfold root_okP in Hr. rewrite !andb_true_iff in Hr. destruct Hr as [[[Hs Hpo] Ht] Hd].
  unfold run_validator. rewrite Hwf. destruct d as [| | | | | |c items]; try discriminate.
  unfold _get_errors.
  assert (Hall : forall errs, (forall e, In e errs -> exists m, create_message (VDict c items) e = Ok m) ->
                              exists msgs, get_error_messages (VDict c items) errs = Ok msgs).
  { induction errs as [|e errs IH]; intros H; [exists []; reflexivity|].
    destruct (H e (or_introl eq_refl)) as (m & Hm).
    destruct (IH (fun e' He' => H e' (or_intror He'))) as (ms & Hms).
    exists (m :: ms). cbn [get_error_messages]. rewrite Hm, Hms. reflexivity. }
  apply Hall. intros e He. apply shapedP_message; try assumption.
  - exact (error_paths_valid_any tree (VDict c items) e He).
  - exact (ierr_paths_avoid_position tree _ e Hav He).
Qed.

Theorem validate_list_never_raises_positions_lemma tree ds :
  wf_schema tree = true -> avoid_pos tree = true -> forallb root_okP ds = true ->
  exists msgs, run_validator tree (VList ds) = Ok msgs.
Proof.
  intros Hwf Hav Hr. rewrite (list_is_pointwise_lemma tree ds Hwf). apply res_concat_ok.
  apply Forall_forall. intros r Hin. apply in_map_iff in Hin. destruct Hin as (d & <- & Hd).
  rewrite forallb_forall in Hr. specialize (Hr d Hd).
  destruct (validate_never_raises_positions_lemma tree d Hwf Hav Hr) as (m & Hm). exists m.
  unfold root_okP in Hr. rewrite !andb_true_iff in Hr. destruct Hr as [_ Hdict].
  rewrite run_validator_single in Hm by (destruct d; try discriminate; exact I).
  rewrite Hwf in Hm. exact Hm.
Qed.

(* ================================================================ Part C3: loads, every include_position *)
Definition posok_any (v : value) : bool := any_root posok v.

Lemma root_okP_any v : root_okS_any v -> posok_any v = true -> any_root root_okP v = true.
Proof.
  unfold root_okS_any, posok_any. destruct v as [| | | | |l|c items]; cbn [any_root];
    try (unfold root_okS, root_okP; intros H Hp; rewrite !andb_true_iff in *; tauto).
  intros H Hp. rewrite forallb_forall in *. intros x Hx. specialize (H x Hx). specialize (Hp x Hx).
  unfold root_okS, root_okP in *. rewrite !andb_true_iff in *. tauto.
Qed.

(* the positive statement with positions: loads contributes lower-case distinct keys and typed list
   members (Part A); what is left as a guard is [posok_any v], a boolean function of the value that
   only speaks about the dicts carrying a __position__ entry *)
Theorem validate_loaded_never_raises_positions :
  forall tree ip ic text v, wf_schema tree = true -> avoid_pos tree = true -> posok_any v = true ->
    loads ip ic text = Ok v -> exists msgs, run_validator tree v = Ok msgs.
Proof.
  intros tree ip ic text v Hwf Hav Hp H.
  pose proof (root_okP_any v (loads_root_okS ip ic text v H) Hp) as Hr.
  destruct v as [| | | | |l|c items]; cbn [any_root] in Hr;
    try (apply validate_never_raises_positions_lemma; assumption).
  apply validate_list_never_raises_positions_lemma; assumption.
Qed.

(* for the shipped map schema *)
Theorem validate_loaded_never_raises_positions_map :
  forall ip ic text v, posok_any v = true -> loads ip ic text = Ok v ->
    exists msgs, run_validator map_tree v = Ok msgs.
Proof.
  intros ip ic text v Hp H.
  exact (validate_loaded_never_raises_positions map_tree ip ic text v map_tree_wf map_tree_avoid_pos Hp H).
Qed.

(* without positions the guard of Part B implies this one: posok only constrains dicts with a __position__ key *)
Lemma nopos_posok : forall v, nopos v = true -> posok v = true.
Proof.
  induction v as [| | | | |l IH|c items IH] using value_ind'; try reflexivity.
  - rewrite nopos_list, posok_list. intros H. rewrite forallb_forall in *. rewrite Forall_forall in IH.
    intros x Hx. apply IH; [exact Hx|apply H; exact Hx].
  - rewrite nopos_dict, posok_dict_eq. intros H. apply andb_true_iff in H. destruct H as [Hm Hc].
    apply negb_true_iff in Hm. apply andb_true_iff. split.
    + unfold posok_dict. destruct c; cbn [contains]; rewrite ?lower_dposition, Hm; reflexivity.
    + rewrite forallb_forall in *. rewrite Forall_forall in IH. intros kv Hkv.
      rewrite (IH kv Hkv (Hc kv Hkv)). apply orb_true_r.
Qed.

(* ---------------------------------------------------------------- observations *)
Definition observeP (tree : json) (ip ic : bool) (text : str) : option (bool * bool) :=
  match loads ip ic text with
  | Ok v => Some (posok_any v, match run_validator tree v with Ok _ => true | Err _ => false end)
  | Err _ => None
  end.

Lemma observeP_spec tree ip ic text g k :
  observeP tree ip ic text = Some (g, k) ->
  exists v, loads ip ic text = Ok v /\ posok_any v = g /\
            ((exists msgs, run_validator tree v = Ok msgs) <-> k = true).
Proof.
  unfold observeP. destruct (loads ip ic text) as [v|e]; [|discriminate]. intros H.
  assert (Hg : posok_any v = g) by congruence.
  assert (Hk : match run_validator tree v with Ok _ => true | Err _ => false end = k) by congruence.
  exists v. split; [reflexivity|]. split; [exact Hg|]. rewrite <- Hk.
  destruct (run_validator tree v) as [msgs|e]; split.
  - reflexivity.
  - intros _. eexists. reflexivity.
  - intros (msgs & Hm). discriminate Hm.
  - discriminate.
Qed.

(* both hypotheses are needed while the tree is universally quantified (artificial trees; with the
   shipped map schema validate returns on all of these texts, see guard_false_map_tree_returns) *)
Definition prop1 (k : str) (s : json) : json := JObj [(Str "properties", JObj [(k, s)])].
Definition items1 (s : json) : json := JObj [(Str "items", s)].
Definition t_integer : json := JObj [(Str "type", JStr (Str "integer"))].
Definition t_required : json := JObj [(Str "required", JArr [JStr (Str "zzz")])].

(* a key-value block key spelled like an entry of its own position record (line / column / values) *)
Definition gp_tree_line : json := prop1 (Str "web") (prop1 (Str "metadata") (prop1 (Str "line") t_integer)).
Definition gp_text_line : str := Str "MAP WEB METADATA ""line"" ""x"" END END END".
Definition gp_tree_values : json := prop1 (Str "web") (prop1 (Str "metadata") (prop1 (Str "values") t_integer)).
Definition gp_text_values : str := Str "MAP WEB METADATA ""values"" ""x"" END END END".
(* a CONFIG key spelled __position__ *)
Definition gp_tree_config : json := prop1 (Str "config") (prop1 (Str "k") t_integer).
Definition gp_text_config : str := Str "MAP CONFIG ""__position__"" ""x"" CONFIG ""k"" ""v"" END".
(* an attribute spelled __type__ whose value is spelled like an entry of the leaked record *)
Definition gp_text_type : str := Str "MAP __type__ line END".
(* a tree that looks below __position__: an error located at a per-occurrence record, which has no __type__ *)
Definition ap_tree : json :=
  prop1 (Str "layers") (items1 (prop1 (Str "__position__") (prop1 (Str "processing") (items1 t_required)))).
Definition ap_text : str := Str "MAP LAYER PROCESSING ""a"" END END".

Lemma gp_tree_line_ok : wf_schema gp_tree_line = true /\ avoid_pos gp_tree_line = true.
Proof. split; vm_compute; reflexivity. Qed.
Lemma gp_tree_values_ok : wf_schema gp_tree_values = true /\ avoid_pos gp_tree_values = true.
Proof. split; vm_compute; reflexivity. Qed.
Lemma gp_tree_config_ok : wf_schema gp_tree_config = true /\ avoid_pos gp_tree_config = true.
Proof. split; vm_compute; reflexivity. Qed.
Lemma art_tree_line_ok : wf_schema art_tree_line = true /\ avoid_pos art_tree_line = true.
Proof. split; vm_compute; reflexivity. Qed.
Lemma ap_tree_ok : wf_schema ap_tree = true /\ avoid_pos ap_tree = false.
Proof. split; vm_compute; reflexivity. Qed.

Lemma gp_line_observed : observeP gp_tree_line true false gp_text_line = Some (false, false).
Proof. vm_compute. reflexivity. Qed.
Lemma gp_values_observed : observeP gp_tree_values true false gp_text_values = Some (false, false).
Proof. vm_compute. reflexivity. Qed.
Lemma gp_config_observed : observeP gp_tree_config true false gp_text_config = Some (false, false).
Proof. vm_compute. reflexivity. Qed.
Lemma gp_type_observed : observeP art_tree_line true false gp_text_type = Some (false, false).
Proof. vm_compute. reflexivity. Qed.
Lemma ap_observed : observeP ap_tree true false ap_text = Some (true, false).
Proof. vm_compute. reflexivity. Qed.

Lemma raises_of_observed tree ip ic text g :
  observeP tree ip ic text = Some (g, false) ->
  exists v, loads ip ic text = Ok v /\ posok_any v = g /\ ~ exists msgs, run_validator tree v = Ok msgs.
Proof.
  intros H. destruct (observeP_spec _ _ _ _ _ _ H) as (v & Hl & Hg & Hk). exists v.
  split; [exact Hl|]. split; [exact Hg|]. intros Hm. apply Hk in Hm. discriminate Hm.
Qed.

Definition unguarded_raises (tree : json) (text : str) : Prop :=
  wf_schema tree = true /\ avoid_pos tree = true /\
  exists v, loads true false text = Ok v /\ posok_any v = false /\ ~ exists msgs, run_validator tree v = Ok msgs.

Theorem validate_loaded_never_raises_positions_unguarded_refuted_kv_key_line :
  exists tree text, unguarded_raises tree text.
Proof.
  exists gp_tree_line, gp_text_line. destruct gp_tree_line_ok as [A B].
  split; [exact A|split; [exact B|]]. exact (raises_of_observed _ _ _ _ _ gp_line_observed).
Qed.

Theorem validate_loaded_never_raises_positions_unguarded_refuted_kv_key_values :
  exists tree text, unguarded_raises tree text.
Proof.
  exists gp_tree_values, gp_text_values. destruct gp_tree_values_ok as [A B].
  split; [exact A|split; [exact B|]]. exact (raises_of_observed _ _ _ _ _ gp_values_observed).
Qed.

Theorem validate_loaded_never_raises_positions_unguarded_refuted_config_key :
  exists tree text, unguarded_raises tree text.
Proof.
  exists gp_tree_config, gp_text_config. destruct gp_tree_config_ok as [A B].
  split; [exact A|split; [exact B|]]. exact (raises_of_observed _ _ _ _ _ gp_config_observed).
Qed.

Theorem validate_loaded_never_raises_positions_unguarded_refuted_type_attribute :
  exists tree text, unguarded_raises tree text.
Proof.
  exists art_tree_line, gp_text_type. destruct art_tree_line_ok as [A B].
  split; [exact A|split; [exact B|]]. exact (raises_of_observed _ _ _ _ _ gp_type_observed).
Qed.

(* without avoid_pos: the guard on the value holds, validate raises (KeyError: the record has no __type__) *)
Theorem validate_loaded_never_raises_positions_tree_guard_refuted :
  exists tree text v, wf_schema tree = true /\ avoid_pos tree = false /\ loads true false text = Ok v /\
                      posok_any v = true /\ ~ exists msgs, run_validator tree v = Ok msgs.
Proof.
  exists ap_tree, ap_text. destruct (raises_of_observed _ _ _ _ _ ap_observed) as (v & H1 & H2 & H3).
  exists v. destruct ap_tree_ok as [A B]. auto.
Qed.

(* with the shipped map schema validate returns on every text above although the guard is false:
   the map schema gives no sub-schema to METADATA / CONFIG keys nor to unknown list keys *)
Lemma guard_false_map_tree_returns :
  map (observeP map_tree true false) [gp_text_line; gp_text_values; gp_text_config; gp_text_type]
  = [Some (false, true); Some (false, true); Some (false, true); Some (false, true)].
Proof. vm_compute. reflexivity. Qed.

(* non-vacuity: the guard holds, with positions and comments, on documents with repeatable keywords,
   repeated POINTS, faults inside them (the former counterexample), a keyword spelled LINE, and the
   __type__ / METADATA "__position__" quirks of Part B *)
Definition pos_texts : list str :=
  [sample_text; w_pos_text; w_pos_text2;
   Str "MAP LAYER TYPE POINT FEATURE POINTS 1 2 END POINTS 3 4 END END END END";
   Str "MAP LINE 5 END"; w_type_text; w_layer_text].

Lemma pos_texts_observed :
  map (observeP map_tree true true) pos_texts = map (fun _ => Some (true, true)) pos_texts /\
  map (observeP map_tree true false) (w_meta_text :: pos_texts) = map (fun _ => Some (true, true)) (w_meta_text :: pos_texts).
Proof. split; vm_compute; reflexivity. Qed.

Lemma sample_observedP : observeP map_tree true true sample_text = Some (true, true).
Proof. vm_compute. reflexivity. Qed.

Example validate_loaded_never_raises_positions_inhabited :
  exists v, loads true true sample_text = Ok v /\ posok_any v = true /\
            exists msgs, run_validator map_tree v = Ok msgs.
Proof.
  destruct (observeP_spec _ _ _ _ _ _ sample_observedP) as (v & Hl & Hg & Hk). exists v.
  split; [exact Hl|]. split; [exact Hg|]. apply Hk. reflexivity.
Qed.
