(* C08 (transformer half), part 2: the RIGHT token.

   Proofs/C08U.v proves, for every tree, that the recorded positions are
   positions of tokens NAMED like the key they are filed under, provided every
   key-bearing node of the tree starts with its key token (guard TKb).  This
   file discharges the guard for every tree the parser returns, from the
   grammar-conformance theorems of Proofs/LRTyping.v (three small checks on the
   generated grammar, one vm_compute each), and states the result for loads. *)
From MF Require Import Lib.Base Lib.PyDict Lib.Regex Model.GrammarTypes Model.Lexer Model.LR
  Model.Case Model.Transformer Model.Api Gen.Tokens Gen.Grammar
  Proofs.LexFacts Proofs.ParseFacts Proofs.GrammarFacts Proofs.LRFacts Proofs.LRTyping Proofs.C13U Proofs.C08U.
Open Scope N_scope.

(* ================================================================ the guard, from conformance *)
Definition first_shape_ok (s : shape) : bool :=
  match s with STok _ => true | SNode d1 => d1 =? CB_composite_type end.
Definition first_sym_ok (A : tbl) (x : N) : bool := forallb first_shape_ok (get A x).
Definition is_stok (s : shape) : bool := match s with STok _ => true | SNode _ => false end.

(* a rule whose callback files something under its first child's name keeps
   that child first (and un-inlined), and the child is a token or a
   composite_type node - or the rule keeps a single child *)
Definition rule_key_ok (A : tbl) (r : rule_info) : bool :=
  negb (key_bearing (r_name r)) ||
  match r_filter r with
  | Some [(_, false)] => true
  | Some ((i, false) :: _) =>
      match nth_error (r_expansion r) i with Some x => first_sym_ok A x | None => false end
  | Some _ => false
  | None => match r_expansion r with [_] => true | x :: _ => first_sym_ok A x | [] => false end
  end.

Section Guard.
  Variable g : grammar.
  Variables A C : tbl.
  Hypothesis Hclosed : closed g A C = true.
  Hypothesis Hrules : forallb (rule_key_ok A) (g_rules g) = true.
  Hypothesis Hct_tok : forallb is_stok (get C CB_composite_type) = true.
  Hypothesis Hct_arity : fixed_arity g CB_composite_type 1 = true.

  Lemma first_value_ok x v rest : first_sym_ok A x = true -> has_sym g x v -> key_first (v :: rest) = true.
  Proof.
    intros Hx Hs. destruct (has_sym_shaped g A C Hclosed x v Hs) as [Hin Hsh].
    unfold first_sym_ok in Hx. rewrite forallb_forall in Hx. specialize (Hx _ Hin).
    destruct v as [tk|d1 cs1 m1]; [reflexivity|]. cbn [shape_of first_shape_ok] in Hx.
    apply N.eqb_eq in Hx. subst d1.
    pose proof (conforms_arity g CB_composite_type 1 cs1 m1 Hct_arity (has_sym_conforms g x _ Hs)) as Hlen.
    destruct cs1 as [|c1 [|c2 cs1]]; try discriminate Hlen.
    cbn [shaped forallb] in Hsh. apply andb_true_iff in Hsh. destruct Hsh as [Hsh _].
    apply andb_true_iff in Hsh. destruct Hsh as [Hsh _]. apply mem_shape_In in Hsh.
    rewrite forallb_forall in Hct_tok. specialize (Hct_tok _ Hsh).
    destruct c1 as [tk|? ? ?]; [|discriminate Hct_tok]. cbn [key_first]. apply N.eqb_refl.
  Qed.

  Lemma node_key_ok r vals cs :
    In r (g_rules g) -> Forall2 (has_sym g) (r_expansion r) vals -> filtered r vals = Ok cs ->
    negb (key_bearing (r_name r)) || (length cs =? 1)%nat || key_first cs = true.
  Proof.
    intros Hin HF Hf. rewrite forallb_forall in Hrules. specialize (Hrules r Hin).
    unfold rule_key_ok in Hrules. destruct (key_bearing (r_name r)); [|reflexivity].
    cbn [negb orb] in *. unfold filtered in Hf.
    destruct (r_filter r) as [inc|].
    - destruct inc as [|[i ex] inc]; [discriminate Hrules|]. destruct ex; [discriminate Hrules|].
      cbn [apply_filter] in Hf.
      destruct (nth_error vals i) as [c|] eqn:Ec; [|discriminate].
      destruct (apply_filter inc vals) as [rest|e] eqn:Er; cbn [bind] in Hf; [|discriminate].
      injection Hf as <-.
      destruct inc as [|p inc'].
      + cbn [apply_filter] in Er. injection Er as <-. reflexivity.
      + destruct (nth_error (r_expansion r) i) as [x|] eqn:Ex; [|discriminate Hrules].
        apply orb_true_iff. right.
        assert (Hs : has_sym g x c).
        { clear -HF Ex Ec. revert i Ex Ec. induction HF as [|x0 v0 l l' H0 _ IH]; intros [|i] Ex Ec; cbn in Ex, Ec; try discriminate.
          - injection Ex as <-. injection Ec as <-. exact H0.
          - eapply IH; eassumption. }
        eapply first_value_ok; eassumption.
    - injection Hf as <-. destruct HF as [|x v l l' Hxv HF]; [discriminate Hrules|].
      destruct HF as [|x2 v2 l l' Hxv2 HF]; [reflexivity|].
      apply orb_true_iff. right. eapply first_value_ok; eassumption.
  Qed.

  Theorem conforms_TKb : forall t, conforms g t -> TKb t = true.
  Proof.
    fix IH 1. intros t Hc. destruct t as [tk|d cs m]; [reflexivity|].
    inversion Hc as [|r vals cs' m' Hin HF Hf Hcs]; subst.
    cbn [TKb]. apply andb_true_iff. split; [eapply node_key_ok; eassumption|].
    clear Hf Hc. induction cs as [|c cs IHcs]; [reflexivity|].
    cbn [forallb]. apply andb_true_iff. split.
    - apply IH. exact (Forall_inv Hcs).
    - apply IHcs. exact (Forall_inv_tail Hcs).
  Qed.
End Guard.

(* the three checks on the generated grammar *)
Lemma the_grammar_rules_key_ok : forallb (rule_key_ok (fst the_shapes)) (g_rules the_grammar) = true.
Proof. vm_compute. reflexivity. Qed.

Lemma the_grammar_composite_type_tokens : forallb is_stok (get (snd the_shapes) CB_composite_type) = true.
Proof. vm_compute. reflexivity. Qed.

Lemma the_grammar_composite_type_arity : fixed_arity the_grammar CB_composite_type 1 = true.
Proof. vm_compute. reflexivity. Qed.

(* the guard does not read metas *)
Lemma key_first_strip cs : key_first (map LRTyping.strip cs) = key_first cs.
Proof.
  destruct cs as [|[tk|d1 cs1 m1] cs]; try reflexivity.
  destruct cs1 as [|[tk|? ? ?] cs1]; reflexivity.
Qed.

Lemma TKb_strip : forall t, TKb (LRTyping.strip t) = TKb t.
Proof.
  induction t as [tk|d cs m IH] using tree_ind'; [reflexivity|].
  cbn [LRTyping.strip TKb]. rewrite map_length, key_first_strip. f_equal.
  apply forallb_map_ext. exact IH.
Qed.

Theorem parse_tree_TKb ic text t : parse_tree ic text = Ok t -> TKb t = true.
Proof.
  intros H. destruct (parse_tree_conforms ic text t H) as (t0 & _ & Hc & Hst & _).
  rewrite <- TKb_strip, Hst, TKb_strip.
  eapply (conforms_TKb the_grammar (fst the_shapes) (snd the_shapes));
    [exact the_grammar_shapes_closed|exact the_grammar_rules_key_ok
    |exact the_grammar_composite_type_tokens|exact the_grammar_composite_type_arity|exact Hc].
Qed.

(* ================================================================ goal 2: the right token, for every text *)
Theorem recorded_positions_are_named_token_positions :
  forall ic text v po,
    parse_text the_grammar the_hook ic text = Ok po -> loads true ic text = Ok v ->
    positions_named (leaves (po_tree po)) (is_symbolset_root (po_tree po)) v.
Proof.
  intros ic text v po Hp H. unfold positions_named.
  apply (loads_positions_gen _ NMi ic text v po); try assumption.
  - intros t Ht. apply TPi_SP_named. exact Ht.
  - intros t k Ht Hn. apply TPi_named; assumption.
  - right. exact KN_raw.
  - exact KN_synth.
  - intros t Ht. right. eapply parse_tree_TKb. exact Ht.
Qed.

(* combined with ParseFacts.tree_tokens_positions: the token lies in the text
   at the recorded line/column *)
Definition pos_named_in_text (text : str) (synth : bool) (L C : value) (k : str) : Prop :=
  (exists t0, token_at text t0 /\ L = VInt (Z.of_N (tline t0)) /\ C = VInt (Z.of_N (tcol t0)) /\ lower (tval t0) = k)
  \/ (synth = true /\ L = VNone /\ C = VNone /\ k = s_symbolset).

Definition positions_named_in_text (text : str) (synth : bool) : value -> Prop :=
  positions_ok (pos_named_in_text text synth).

Theorem recorded_positions_are_named_text_positions :
  forall ic text v po,
    parse_text the_grammar the_hook ic text = Ok po -> loads true ic text = Ok v ->
    positions_named_in_text text (is_symbolset_root (po_tree po)) v.
Proof.
  intros ic text v po Hp H. unfold positions_named_in_text.
  pose proof (tree_tokens_positions the_grammar the_hook ic text po the_grammar_lexers_ok Hp) as Hat.
  eapply positions_ok_mono; [|eapply recorded_positions_are_named_token_positions; eassumption].
  intros L C k [(t0 & Hin & HL & HC & Hk)|Hs]; [left|right; exact Hs].
  exists t0. rewrite Forall_forall in Hat. split; [apply Hat; exact Hin|tauto].
Qed.

(* ================================================================ reading the predicate *)
(* What the entries of a block's __position__ dict are, key by key. *)
Section Reading.
  Variable SN : value -> value -> str -> Prop.

  (* the block's own line/column: whenever both entries are still numbers (no
     attribute spelled "line" or "column" has overwritten them) they are the
     position of the token that opened the block *)
  Lemma bpos_own_position kown p zl zc :
    bpos SN kown p -> assoc s_line p = Some (VInt zl) -> assoc s_column p = Some (VInt zc) ->
    SN (VInt zl) (VInt zc) kown.
  Proof.
    intros (L & C & Hs & (Hf & _ & _)) Hl Hc.
    pose proof (assoc_Forall' (pentry SN L C) _ _ _ Hf Hl) as H1.
    pose proof (assoc_Forall' (pentry SN L C) _ _ _ Hf Hc) as H2.
    assert (E1 : VInt zl = L).
    { destruct H1 as [[_ H]|[[H _]|[[H _]|[(_ & [H|(l & H & _)])|[H _]]]]]; try discriminate H; [exact H|].
      destruct H as (L' & C' & _ & [H|(ps & H & _)]); discriminate H. }
    assert (E2 : VInt zc = C).
    { destruct H2 as [[H _]|[[_ H]|[[H _]|[(_ & [H|(l & H & _)])|[H _]]]]]; try discriminate H; [exact H|].
      destruct H as (L' & C' & _ & [H|(ps & H & _)]); discriminate H. }
    rewrite E1, E2. exact Hs.
  Qed.

  (* under an ordinary keyword: one record, or a list of records (repeated
     keywords, POINTS), each made from a token named like the keyword *)
  Lemma bpos_keyword kown p k v :
    bpos SN kown p -> assoc k p = Some v ->
    k <> s_line -> k <> s_column -> k <> s_values -> k <> s_config ->
    is_rec SN k v \/ exists l, v = VList l /\ Forall (is_rec SN k) l.
  Proof.
    intros (L & C & _ & (Hf & _ & _)) Ha K1 K2 K3 K4.
    pose proof (assoc_Forall' (pentry SN L C) _ _ _ Hf Ha) as H.
    destruct H as [[H _]|[[H _]|[[H _]|[[_ H]|[H _]]]]]; try contradiction. exact H.
  Qed.

  (* under config: a dict of records, one per CONFIG key, each made from a CONFIG token *)
  Lemma bpos_config kown p v :
    bpos SN kown p -> assoc s_config p = Some v ->
    exists c x, v = VDict c x /\ Forall (fun kv => is_rec SN s_config (snd kv)) x.
  Proof.
    intros (L & C & _ & (Hf & _ & _)) Ha.
    pose proof (assoc_Forall' (pentry SN L C) _ _ _ Hf Ha) as H.
    destruct H as [[H _]|[[H _]|[[H _]|[[H _]|[_ H]]]]]; try discriminate H; [contradiction H; reflexivity|exact H].
  Qed.
End Reading.

(* ================================================================ what is false, with witnesses *)
(* 1. "the block's line/column entries are the opening keyword's" is false
      without the guard of bpos_own_position: an attribute spelled LINE is
      filed under "line" in the same dict and overwrites the block's own line. *)
Definition cex_line_text : str := Str "MAP LINE 5 END".

Lemma cex_line_loads :
  loads true false cex_line_text =
  Ok (VDict (DCI true)
        [(s_type, VStr (Str "map"));
         (s_position, VDict DPlain
            [(s_line, VDict DPlain [(s_line, VInt 1); (s_column, VInt 5); (s_values, VList [VList [VInt 1; VInt 10]])]);
             (s_column, VInt 1)]);
         (s_line, VInt 5)]).
Proof. vm_compute. reflexivity. Qed.

Theorem own_line_is_a_number_refuted :
  exists text c items c' p r,
    loads true false text = Ok (VDict c items) /\
    assoc s_position items = Some (VDict c' p) /\ assoc s_line p = Some (VDict DPlain r).
Proof. eexists _, _, _, _, _, _. split; [exact cex_line_loads|]. split; reflexivity. Qed.

(* 2. "the block's own position is that of a token named like its __type__" is
      false without the alternative kown = __type__ of vdict_pos: an attribute
      spelled __type__ makes composite() file the attribute dict as a block
      whose type is the attribute's VALUE, positioned at the attribute's key. *)
Definition cex_type_text : str := Str "MAP __type__ abc END".

Lemma cex_type_loads :
  loads true false cex_type_text =
  Ok (VDict (DCI true)
        [(s_type, VStr (Str "map"));
         (s_position, VDict DPlain [(s_line, VInt 1); (s_column, VInt 1)]);
         (Str "abcs",
          VList [VDict DPlain
                   [(s_position, VDict DPlain [(s_line, VInt 1); (s_column, VInt 5);
                                               (s_values, VList [VList [VInt 1; VInt 14]])]);
                    (s_tokens, VList [VStr s_type; VStr (Str "abc")]);
                    (s_type, VStr (Str "abc"))]])]).
Proof. vm_compute. reflexivity. Qed.

Lemma cex_type_tokens :
  exists po, parse_text the_grammar the_hook false cex_type_text = Ok po /\
    map (fun t => (tval t, tline t, tcol t)) (leaves (po_tree po)) =
    [(Str "MAP", 1, 1); (s_type, 1, 5); (Str "abc", 1, 14)].
Proof. eexists. split; vm_compute; reflexivity. Qed.

Theorem own_position_named_like_type_refuted :
  exists text po c items c' inner p,
    parse_text the_grammar the_hook false text = Ok po /\
    loads true false text = Ok (VDict c items) /\
    assoc (Str "abcs") items = Some (VList [VDict c' inner]) /\
    assoc s_type inner = Some (VStr (Str "abc")) /\
    assoc s_position inner = Some (VDict DPlain p) /\
    assoc s_line p = Some (VInt 1) /\ assoc s_column p = Some (VInt 5) /\
    forall t0, In t0 (leaves (po_tree po)) -> tline t0 = 1 -> tcol t0 = 5 -> tval t0 = s_type.
Proof.
  destruct cex_type_tokens as (po & Hp & Hl).
  eexists _, po, _, _, _, _, _. split; [exact Hp|]. split; [exact cex_type_loads|].
  repeat (split; [reflexivity|]).
  intros t0 Hin H1 H2.
  assert (Hm : In (tval t0, tline t0, tcol t0) (map (fun t => (tval t, tline t, tcol t)) (leaves (po_tree po)))).
  { apply in_map_iff. exists t0. split; [reflexivity|exact Hin]. }
  rewrite Hl, H1, H2 in Hm. cbn [In] in Hm.
  destruct Hm as [Hm|[Hm|[Hm|[]]]]; try discriminate Hm. injection Hm as <-. reflexivity.
Qed.

(* 3. "every __position__ entry, in every dict at every depth, is a record" is
      false: a CONFIG key spelled __position__ is an ordinary string entry of
      the config dict (hence positions_ok does not look below "config"). *)
Definition cex_config_text : str := Str "MAP CONFIG ""__position__"" ""x"" END".

Lemma cex_config_loads :
  exists c items c' cfg,
    loads true false cex_config_text = Ok (VDict c items) /\
    assoc s_config items = Some (VDict c' cfg) /\ assoc s_position cfg = Some (VStr (Str "x")).
Proof. eexists _, _, _, _. split; [vm_compute; reflexivity|]. split; reflexivity. Qed.

Theorem every_position_entry_is_a_record_refuted :
  exists text c items c' cfg s,
    loads true false text = Ok (VDict c items) /\
    assoc s_config items = Some (VDict c' cfg) /\ assoc s_position cfg = Some (VStr s).
Proof. destruct cex_config_loads as (c & items & c' & cfg & H). exists cex_config_text, c, items, c', cfg, (Str "x"). exact H. Qed.

(* 4. the (None, None) position is real: a SYMBOLSET file's own position *)
Lemma cex_symbolset_loads :
  exists c items rest,
    loads true false (Str "SYMBOLSET SYMBOL NAME 'a' END END") = Ok (VDict c items) /\
    items = (s_type, VStr s_symbolset) :: (s_position, VDict DPlain [(s_line, VNone); (s_column, VNone)]) :: rest.
Proof. eexists _, _, _. split; [vm_compute; reflexivity|reflexivity]. Qed.

(* ================================================================ non-vacuity *)
(* a text with nested blocks, a repeated keyword, CONFIG, POINTS and a
   key-value block loads with include_position, in both comment modes *)
Example loads_with_positions_inhabited :
  (exists v, loads true false (Str "MAP
  NAME 'x'
  CONFIG 'a' 'b'
  WEB METADATA 'k' 'v' END END
  LAYER PROCESSING 'p=1' PROCESSING 'q=2' FEATURE POINTS 1 2 END POINTS 3 4 END END END
END") = Ok v) /\
  (exists v, loads true true (Str "MAP # c
  NAME 'x' # d
END") = Ok v).
Proof. split; eexists; vm_compute; reflexivity. Qed.
