(* Lexer soundness: tokens partition the text and carry the positions given by
   the closed formula  line = 1 + #LF before,  column = 1 + #chars since the
   last LF (C08's position clause), for every text. *)
From MF Require Import Lib.Base Lib.Regex Model.GrammarTypes Model.Lexer Proofs.RegexFacts.
Open Scope N_scope.

(* ---------------------------------------------------------------- the formula *)
Fixpoint count_lf (s : str) : N :=
  match s with [] => 0 | c :: s' => (if c =? 10 then 1 else 0) + count_lf s' end.

Definition has_lf (s : str) : bool := existsb (fun x => x =? 10) s.

Lemma has_lf_cons c s : has_lf (c :: s) = (c =? 10) || has_lf s.
Proof. reflexivity. Qed.

Lemma has_lf_app a b : has_lf (a ++ b) = has_lf a || has_lf b.
Proof. unfold has_lf. apply existsb_app. Qed.

Lemma has_lf_nil : has_lf [] = false.
Proof. reflexivity. Qed.

Global Opaque has_lf.

(* characters after the last line feed (the whole string when there is none) *)
Fixpoint since_lf (s : str) : str :=
  match s with
  | [] => []
  | c :: s' => if has_lf s' then since_lf s'
               else if c =? 10 then s' else c :: s'
  end.

Definition line_of (p : str) : N := 1 + count_lf p.
Definition col_of (p : str) : N := 1 + N.of_nat (length (since_lf p)).
Definition len (s : str) : N := N.of_nat (length s).

Lemma count_lf_app a b : count_lf (a ++ b) = count_lf a + count_lf b.
Proof. induction a as [|c a IH]; cbn [count_lf app]; [reflexivity|]. rewrite IH. lia. Qed.

Lemma since_lf_app_lf a b : has_lf b = true -> since_lf (a ++ b) = since_lf b.
Proof.
  intros Hb. induction a as [|c a IH]; cbn [app since_lf]; [reflexivity|].
  rewrite has_lf_app, Hb, orb_true_r. exact IH.
Qed.

Lemma since_lf_nolf b : has_lf b = false -> since_lf b = b.
Proof.
  induction b as [|c b IHb]; cbn [since_lf]; [reflexivity|].
  rewrite has_lf_cons. intros Hb. apply orb_false_iff in Hb. destruct Hb as [Hc Hb].
  rewrite Hb, Hc. reflexivity.
Qed.

Lemma since_lf_app_nolf a b : has_lf b = false -> since_lf (a ++ b) = since_lf a ++ b.
Proof.
  intros Hb. induction a as [|c a IH]; cbn [app since_lf].
  - apply since_lf_nolf. exact Hb.
  - rewrite has_lf_app, Hb, orb_false_r.
    destruct (has_lf a); [exact IH|]. destruct (c =? 10); reflexivity.
Qed.

Lemma no_lf_count s : has_lf s = false -> count_lf s = 0.
Proof.
  induction s as [|c s IH]; cbn [count_lf]; [reflexivity|].
  rewrite has_lf_cons. intros H. apply orb_false_iff in H. destruct H as [Hc Hs].
  rewrite Hc, (IH Hs). reflexivity.
Qed.

Lemma forallb_not_lf s : forallb not_lf s = true -> has_lf s = false.
Proof.
  induction s as [|c s IH]; cbn [forallb]; [reflexivity|].
  rewrite has_lf_cons. intros H. apply andb_true_iff in H. destruct H as [Hc Hs].
  unfold not_lf in Hc. apply negb_true_iff in Hc. rewrite Hc. exact (IH Hs).
Qed.

(* ---------------------------------------------------------------- nl_scan *)
(* offset just after the last LF of v, counted from i *)
Lemma nl_scan_spec v : forall i cnt last,
  nl_scan v i cnt last =
    (cnt + count_lf v,
     if has_lf v then Some (i + len v - len (since_lf v)) else last).
Proof.
  induction v as [|c v IH]; intros i cnt last; cbn [nl_scan count_lf since_lf].
  - rewrite has_lf_nil. apply f_equal2; [lia|reflexivity].
  - rewrite has_lf_cons. destruct (c =? 10) eqn:E; rewrite IH; cbn [orb].
    + apply f_equal2; [lia|]. destruct (has_lf v) eqn:Hv.
      * f_equal. unfold len. cbn [length]. lia.
      * f_equal. unfold len. cbn [length]. lia.
    + apply f_equal2; [lia|]. destruct (has_lf v) eqn:Hv; [|reflexivity].
      f_equal. unfold len. cbn [length]. lia.
Qed.

(* ---------------------------------------------------------------- LineCounter *)
Definition lc_inv (p : str) (lc : linectr) : Prop :=
  lc_pos lc = len p /\ lc_line lc = line_of p /\ lc_col lc = col_of p /\
  lc_line_start lc = len p - len (since_lf p).

Lemma since_lf_le p : (length (since_lf p) <= length p)%nat.
Proof.
  induction p as [|c p IH]; cbn [since_lf length]; [lia|].
  destruct (has_lf p); [lia|]. destruct (c =? 10); cbn [length]; lia.
Qed.

Lemma lc_inv_init : lc_inv [] lc0.
Proof. repeat split. Qed.

Lemma lc_feed_inv p lc v test :
  lc_inv p lc -> (test = false -> has_lf v = false) ->
  lc_inv (p ++ v) (lc_feed lc v (len v) test).
Proof.
  intros (Hpos & Hline & Hcol & Hls) Hnl.
  pose proof (since_lf_le p) as Lp. pose proof (since_lf_le v) as Lv.
  unfold lc_feed.
  assert (E : (if test
               then match nl_scan v 0 0 None with
                    | (cnt, Some off) => (lc_line lc + cnt, lc_pos lc + off)
                    | (_, None) => (lc_line lc, lc_line_start lc)
                    end
               else (lc_line lc, lc_line_start lc))
              = (line_of (p ++ v), len (p ++ v) - len (since_lf (p ++ v)))).
  { destruct (has_lf v) eqn:Hv.
    - destruct test; [|specialize (Hnl eq_refl); congruence].
      rewrite nl_scan_spec, Hv. f_equal.
      + unfold line_of. rewrite count_lf_app, Hline. unfold line_of. lia.
      + rewrite since_lf_app_lf by exact Hv. unfold len in *. rewrite app_length, Hpos. lia.
    - assert (E0 : (lc_line lc, lc_line_start lc) =
                   (line_of (p ++ v), len (p ++ v) - len (since_lf (p ++ v)))).
      { f_equal.
        - unfold line_of. rewrite count_lf_app, (no_lf_count v Hv), Hline. unfold line_of. lia.
        - rewrite since_lf_app_nolf by exact Hv. unfold len in *. rewrite !app_length, Hls. lia. }
      destruct test; [|exact E0]. rewrite nl_scan_spec, Hv. exact E0. }
  rewrite E. pose proof (since_lf_le (p ++ v)) as Lpv.
  unfold lc_inv; cbn [lc_pos lc_line lc_col lc_line_start].
  unfold len in *. rewrite app_length in *. rewrite Hpos.
  repeat split; unfold col_of; try lia.
Qed.

(* ---------------------------------------------------------------- scanners *)
(* a lexer whose terminals outside its newline set cannot match a line feed *)
Definition newline_ok (lx : lexer_info) : bool :=
  forallb (fun tr => memN (fst tr) (lx_newline lx) || no_lf (snd tr)) (lx_terms lx).

Lemma scan_sound terms fuel s ty s' :
  scan terms fuel s = Some (ty, s') ->
  exists r lex, In (ty, r) terms /\ consumed s s' lex /\ (no_lf r = true -> has_lf lex = false).
Proof.
  induction terms as [|[ty0 r0] terms IH]; cbn [scan]; [discriminate|].
  destruct (rx_match r0 fuel s) as [s1|] eqn:E.
  - intros [= <- <-]. exists r0.
    destruct (no_lf r0) eqn:Hn.
    + apply (rx_match_sound not_lf r0 fuel s s1 (no_lf_only r0 Hn)) in E.
      destruct E as (lex & Hc & Hp). exists lex. split; [left; reflexivity|].
      split; [exact Hc|]. intros _. apply forallb_not_lf. exact Hp.
    + apply rx_match_prefix in E. destruct E as (lex & Hc). exists lex.
      split; [left; reflexivity|]. split; [exact Hc|discriminate].
  - intros H. destruct (IH H) as (r & lex & Hin & Hc & Hl).
    exists r, lex. split; [right; exact Hin|]. split; assumption.
Qed.

(* ---------------------------------------------------------------- next_token *)
Definition lex_inv (text p : str) (st : lexstate) : Prop :=
  text = p ++ ls_rest st /\ lc_inv p (ls_lc st).

Lemma firstn_app_exact {A} (a b : list A) : firstn (length a) (a ++ b) = a.
Proof. induction a as [|x a IH]; cbn; [destruct b; reflexivity|]. rewrite IH. reflexivity. Qed.

Theorem next_token_positions g wc lx :
  newline_ok lx = true ->
  forall fuel text p st t st',
    lex_inv text p st ->
    next_token g wc lx fuel st = LTok t st' ->
    exists q, text = q ++ tval t ++ ls_rest st' /\
              tpos t = len q /\ tline t = line_of q /\ tcol t = col_of q /\
              tend_line t = line_of (q ++ tval t) /\ tend_col t = col_of (q ++ tval t) /\
              lex_inv text (q ++ tval t) st' /\ (exists ign, q = p ++ ign).
Proof.
  intros Hok. induction fuel as [|fuel IH]; intros text p st t st' [Htext Hlc] H;
    cbn [next_token] in H; [discriminate|].
  destruct (ls_rest st) as [|c0 rest0] eqn:Hrest; [discriminate|].
  rewrite <- Hrest in *.
  destruct (scan (lx_terms lx) (S fuel) (lc_pos (ls_lc st), ls_rest st)) as [[ty [endpos rest']]|] eqn:Hs;
    [|discriminate].
  destruct (scan_sound _ _ _ _ _ Hs) as (r & lex & Hin & [Hc1 Hc2] & Hnl).
  cbn [fst snd] in Hc1, Hc2.
  assert (Hlen : endpos - lc_pos (ls_lc st) = len lex) by (unfold len; lia).
  assert (Hval : firstn (N.to_nat (endpos - lc_pos (ls_lc st))) (ls_rest st) = lex).
  { rewrite Hlen, Hc1. unfold len. rewrite Nat2N.id. apply firstn_app_exact. }
  rewrite Hval, Hlen in H.
  assert (Hfeed : lc_inv (p ++ lex) (lc_feed (ls_lc st) lex (len lex) (memN ty (lx_newline lx)))).
  { apply lc_feed_inv; [exact Hlc|]. intros Hm. apply Hnl.
    unfold newline_ok in Hok. rewrite forallb_forall in Hok.
    specialize (Hok _ Hin). cbn [fst snd] in Hok. rewrite Hm in Hok. exact Hok. }
  destruct Hlc as (Hpos & Hline & Hcol & Hls).
  destruct (memN ty (lx_ignore lx)).
  - (* ignored: continue *)
    match type of H with
    | next_token _ _ _ _ ?S = _ =>
        assert (Hinv' : lex_inv text (p ++ lex) S)
    end.
    { split; [|exact Hfeed]. cbn [ls_rest]. rewrite Htext, Hc1, app_assoc. reflexivity. }
    destruct (IH text (p ++ lex) _ t st' Hinv' H) as (q & E1 & E2 & E3 & E4 & E5 & E6 & E7 & (ign & E8)).
    exists q. refine (conj E1 (conj E2 (conj E3 (conj E4 (conj E5 (conj E6 (conj E7 _))))))).
    exists (lex ++ ign). rewrite E8, app_assoc. reflexivity.
  - injection H as Ht Hst. subst t st'. cbn [tval tpos tline tcol tend_line tend_col ls_rest].
    destruct Hfeed as (F1 & F2 & F3 & F4).
    exists p.
    assert (T1 : text = p ++ lex ++ rest') by (rewrite Htext, Hc1; reflexivity).
    refine (conj T1 (conj Hpos (conj Hline (conj Hcol (conj F2 (conj F3 (conj _ _))))))).
    + split; [cbn [ls_rest]; rewrite T1, app_assoc; reflexivity|].
      cbn [ls_lc]. repeat split; assumption.
    + exists []. rewrite app_nil_r. reflexivity.
Qed.
