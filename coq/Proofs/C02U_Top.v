(* C02, universal part 6: the ROOT of a loaded value, without any guard:
   loads returns one block dict (a dict of the block class
   CaseInsensitiveOrderedDict), or the list of the file's root blocks.
   Structural facts only (Proofs/LRTyping.v through Proofs/C02U_Guard.v):
   the root is a start node over composite nodes or a SYMBOLSET node, a
   composite node with a single child wraps a key-value block. *)
From MF Require Import Lib.Base Lib.PyDict Model.GrammarTypes Model.Lexer Model.LR
  Model.Case Model.Transformer Model.Api Gen.Tokens Gen.Grammar
  Proofs.ParseFacts Proofs.LRFacts Proofs.LRTyping Proofs.C13U Proofs.C08U Proofs.C08U_Named
  Proofs.C02U_Spec Proofs.C02U_Rel Proofs.C02U_Guard.
Open Scope N_scope.

Definition blk (x : tv) : Prop := exists items, x = TDict (DCI true) items.

Lemma kv_callback_blk ip ic d t x : is_kv d = true -> callback ip ic d t = Ok x -> blk x.
Proof.
  intros Hk H.
  assert (Hp : exists ty, process_value_pairs ip t ty = Ok x).
  { unfold is_kv in Hk.
    apply orb_true_iff in Hk. destruct Hk as [Hk|Hk]; [|apply N.eqb_eq in Hk; subst d; eexists; exact H].
    apply orb_true_iff in Hk. destruct Hk as [Hk|Hk]; [|apply N.eqb_eq in Hk; subst d; eexists; exact H].
    apply orb_true_iff in Hk. destruct Hk as [Hk|Hk]; apply N.eqb_eq in Hk; subst d; eexists; exact H. }
  destruct Hp as (ty & Hp). rewrite process_value_pairs_stages in Hp.
  destruct (check_composite_tokens ty t) as [kb|e]; cbn [bind] in Hp; [|discriminate].
  destruct (key_name (fst kb)) as [kn|e]; cbn [bind] in Hp; [|discriminate].
  destruct (fold_left pvp_step (snd kb) (Ok [])) as [d0|e]; cbn [bind] in Hp; [|discriminate].
  destruct (pvp_pos ip (fst kb) (snd kb) d0) as [d1|e]; cbn [bind] in Hp; [|discriminate].
  injection Hp as <-. eexists. reflexivity.
Qed.

Lemma cb_composite_blk ip ic t x :
  (length t = 1%nat -> exists y, t = [y] /\ blk y) -> cb_composite ip ic t = Ok x -> blk x.
Proof.
  rewrite cb_composite_stages. intros H1 H. destruct t as [|a [|b r]]; [discriminate| |].
  - injection H as <-. destruct (H1 eq_refl) as (y & [= <-] & Hy). exact Hy.
  - destruct a as [| |[|[|key| |] l]|]; try discriminate. unfold comp_main in H.
    destruct (key_name key) as [kn|e]; cbn [bind] in H; [|discriminate].
    destruct (comp_pd ip key) as [pd|e]; cbn [bind] in H; [|discriminate].
    destruct (comp_fold ic _ _) as [st|e]; cbn [bind] in H; [|discriminate].
    unfold comp_finish in H. cbv zeta in H. destruct (cs_dict st); [discriminate|]. injection H as <-.
    eexists. reflexivity.
Qed.

(* a tree node whose result is a block dict *)
Fixpoint BK (g : gtree) : Prop :=
  match g with
  | GVal x => blk x
  | GTok _ => False
  | GNode d cs _ =>
      is_kv d = true \/
      (d = CB_composite /\
       match cs with
       | [c] => BK c
       | _ => True
       end)
  end.

Lemma callback_composite ip ic t : callback ip ic CB_composite t = cb_composite ip ic t.
Proof. reflexivity. Qed.

Theorem tr_main_BK ip ic : forall g x, BK g -> tr_main ip ic g = Ok x -> blk x.
Proof.
  fix IH 1. intros g x HB H. destruct g as [t|d cs m|v].
  - contradiction.
  - rewrite tr_main_node in H. destruct (tr_list ip ic cs) as [xs|e] eqn:L; cbn [bind] in H; [|discriminate].
    destruct HB as [Hk|(-> & Hc)]; [eapply kv_callback_blk; eassumption|].
    rewrite callback_composite in H. eapply cb_composite_blk; [|exact H].
    intros Hl. rewrite (tr_list_length _ _ _ _ L) in Hl.
    destruct cs as [|c [|c2 cs]]; try discriminate Hl.
    cbn [tr_list] in L. destruct (tr_main ip ic c) as [y|e] eqn:T; cbn [bind] in L; [|discriminate].
    injection L as <-. exists y. split; [reflexivity|]. exact (IH c y Hc T).
  - cbn in H. injection H as <-. exact HB.
Qed.

Lemma not_special_consts d :
  is_kv d = true -> (d =? CB_attr) = false /\ (d =? CB_projection) = false /\ (d =? CB_composite) = false.
Proof.
  unfold is_kv. intros Hk.
  apply orb_true_iff in Hk. destruct Hk as [Hk|Hk]; [|apply N.eqb_eq in Hk; subst d; repeat split; reflexivity].
  apply orb_true_iff in Hk. destruct Hk as [Hk|Hk]; [|apply N.eqb_eq in Hk; subst d; repeat split; reflexivity].
  apply orb_true_iff in Hk. destruct Hk as [Hk|Hk]; apply N.eqb_eq in Hk; subst d; repeat split; reflexivity.
Qed.

Lemma comments_callback_BK ip g h : BK g -> comments_callback ip g = Ok h -> BK h.
Proof.
  intros HB H. rewrite comments_callback_stages in H.
  destruct g as [t|d cs m|v]; try (injection H as <-; exact HB).
  destruct HB as [Hk|(-> & Hc)].
  - destruct (not_special_consts d Hk) as (E1 & E2 & E3). rewrite E1, E2, E3 in H. injection H as <-.
    left. exact Hk.
  - change (CB_composite =? CB_attr) with false in H. change (CB_composite =? CB_projection) with false in H.
    change (CB_composite =? CB_composite) with true in H. cbv iota in H.
    destruct (tr_main ip true _) as [r|e] eqn:T1; cbn [bind] in H; [|discriminate].
    assert (Hr : blk r) by (eapply tr_main_BK; [|exact T1]; right; split; [reflexivity|exact Hc]).
    destruct Hr as (items & ->). cbn [cc_composite] in H.
    destruct (cc_dictlike _).
    + unfold cc_dict in H. cbv zeta in H.
      destruct (cc_cm2 _ _ _) as [cm2|e]; cbn [bind] in H; [|discriminate].
      injection H as <-. cbn [BK]. eexists. reflexivity.
    + apply cc_nondict_inv in H. subst h. cbn [BK]. eexists. reflexivity.
Qed.

Theorem ctr_BK ip : forall g h, BK g -> ctr ip g = Ok h -> BK h.
Proof.
  fix IH 1. intros g h HB H.
  destruct g as [t|d cs m|v]; try (cbn in H; injection H as <-; exact HB).
  rewrite ctr_node in H. destruct (ctr_list ip cs) as [xs|e] eqn:L; cbn [bind] in H; [|discriminate].
  injection H as <-. destruct HB as [Hk|(-> & Hc)]; [left; exact Hk|right]. split; [reflexivity|].
  pose proof (ctr_list_length _ _ _ L) as Hlen.
  destruct cs as [|c [|c2 cs]].
  - destruct xs; [exact I|discriminate Hlen].
  - destruct xs as [|x1 [|x2 xs]]; try discriminate Hlen.
    cbn [ctr_list] in L. destruct (ctr ip c) as [c1|e] eqn:T1; cbn [bind] in L; [|discriminate].
    destruct (comments_callback ip c1) as [c2|e] eqn:K1; cbn [bind] in L; [|discriminate].
    injection L as <-. eapply comments_callback_BK; [|exact K1]. exact (IH c c1 Hc T1).
  - destruct xs as [|x1 [|x2 xs]]; try discriminate Hlen. exact I.
Qed.

(* the root *)
Definition TOPg (g : gtree) : Prop :=
  BK g \/ exists cs m, g = GNode CB_start cs m /\ Forall BK cs.

Definition topv (x : tv) : Prop := blk x \/ exists l, x = TSeq l /\ Forall blk l.

Lemma tr_main_TOP ip ic g x : TOPg g -> tr_main ip ic g = Ok x -> topv x.
Proof.
  intros [HB|(cs & m & -> & HC)] H; [left; eapply tr_main_BK; eassumption|].
  rewrite tr_main_node in H. destruct (tr_list ip ic cs) as [xs|e] eqn:L; cbn [bind] in H; [|discriminate].
  assert (Hx : Forall blk xs).
  { clear H. revert xs L. induction cs as [|c cs IH]; intros xs L.
    - cbn in L. injection L as <-. constructor.
    - cbn [tr_list] in L. destruct (tr_main ip ic c) as [y|e] eqn:T; cbn [bind] in L; [|discriminate].
      fold (tr_list ip ic cs) in L. destruct (tr_list ip ic cs) as [ys|e] eqn:L1; cbn [bind] in L; [|discriminate].
      injection L as <-. constructor; [eapply tr_main_BK; [exact (Forall_inv HC)|exact T]|].
      apply IH; [exact (Forall_inv_tail HC)|reflexivity]. }
  change (callback ip ic CB_start xs) with (cb_start xs) in H. unfold cb_start in H.
  destruct xs as [|a [|b r]]; injection H as <-.
  - right. exists []. split; [reflexivity|constructor].
  - left. exact (Forall_inv Hx).
  - right. eexists. split; [reflexivity|exact Hx].
Qed.

Lemma TOPg_step ip g g1 g2 : TOPg g -> ctr ip g = Ok g1 -> comments_callback ip g1 = Ok g2 -> TOPg g2.
Proof.
  intros [HB|(cs & m & -> & HC)] H1 H2.
  - left. eapply comments_callback_BK; [|exact H2]. eapply ctr_BK; eassumption.
  - rewrite ctr_node in H1. destruct (ctr_list ip cs) as [xs|e] eqn:L; cbn [bind] in H1; [|discriminate].
    injection H1 as <-. rewrite comments_callback_stages in H2.
    change (CB_start =? CB_attr) with false in H2. change (CB_start =? CB_projection) with false in H2.
    change (CB_start =? CB_composite) with false in H2. cbv iota in H2. injection H2 as <-.
    right. exists xs, m. split; [reflexivity|].
    revert xs L. induction cs as [|c cs IH]; intros xs L.
    + cbn in L. injection L as <-. constructor.
    + cbn [ctr_list] in L. destruct (ctr ip c) as [c1|e] eqn:T1; cbn [bind] in L; [|discriminate].
      destruct (comments_callback ip c1) as [c2|e] eqn:K1; cbn [bind] in L; [|discriminate].
      fold (ctr_list ip cs) in L. destruct (ctr_list ip cs) as [ys|e] eqn:L1; cbn [bind] in L; [|discriminate].
      injection L as <-. constructor.
      * eapply comments_callback_BK; [|exact K1]. eapply ctr_BK; [exact (Forall_inv HC)|exact T1].
      * apply IH; [exact (Forall_inv_tail HC)|reflexivity].
Qed.

(* ---------------------------------------------------------------- parse trees *)
Lemma BK_of_composite_node d cs m :
  comp_node_ok d cs = true -> d = CB_composite -> BK (gtree_of (Node d cs m)).
Proof.
  intros Hc Hd. subst d. cbn [gtree_of BK]. right. split; [reflexivity|].
  unfold comp_node_ok in Hc. rewrite N.eqb_refl in Hc. cbn [negb orb] in Hc.
  destruct cs as [|c [|c2 cs]]; cbn [map]; try exact I.
  cbn [length Nat.eqb negb orb] in Hc. destruct c as [tk|d' cs' m']; [discriminate Hc|].
  cbn [gtree_of BK]. left. exact Hc.
Qed.

Theorem parse_tree_TOP ic text t : parse_tree ic text = Ok t -> TOPg (canonize (gtree_of t)).
Proof.
  intros H. destruct (parse_tree_root ic text t H) as (d & cs & m & -> & Hd).
  pose proof (parse_tree_cpb ic text _ H) as Hc. pose proof (parse_tree_shaped ic text _ H) as Hs.
  cbn [cpb] in Hc. apply andb_true_iff in Hc. destruct Hc as [_ Hc].
  cbn [shaped] in Hs. apply andb_true_iff in Hs. destruct Hs as [Hs _].
  destruct Hd as [-> |(-> & Hne)].
  - change (canonize (gtree_of (Node CB_start cs m))) with (gtree_of (Node CB_start cs m)).
    right. cbn [gtree_of]. eexists _, _. split; [reflexivity|].
    apply Forall_forall. intros g Hg. apply in_map_iff in Hg. destruct Hg as (c & <- & Hin).
    rewrite forallb_forall in Hc, Hs. specialize (Hc c Hin). specialize (Hs c Hin).
    apply mem_shape_In in Hs. destruct (shapes_in_In _ _ _ _ S_start Hs) as [[Hf _]|[E|[]]]; [discriminate Hf|].
    destruct c as [tk|d' cs' m']; [discriminate E|]. cbn [shape_of] in E. injection E as <-.
    cbn [cpb] in Hc. apply andb_true_iff in Hc. destruct Hc as [Hc _].
    apply BK_of_composite_node; [exact Hc|reflexivity].
  - left. cbn [gtree_of canonize]. change (CB_symbolset =? CB_symbolset) with true. cbv iota.
    cbn [BK]. right. split; [reflexivity|]. destruct cs as [|c cs]; [contradiction Hne; reflexivity|].
    cbn [map]. exact I.
Qed.

Theorem transform_top ip ic text t x :
  parse_tree ic text = Ok t -> transform ip ic t = Ok x -> topv x.
Proof.
  intros Ht H. pose proof (parse_tree_TOP ic text t Ht) as HT. unfold transform in H.
  destruct ic; [|eapply tr_main_TOP; eassumption].
  destruct (ctr ip _) as [g1|e] eqn:C1; cbn [bind] in H; [|discriminate].
  destruct (comments_callback ip g1) as [g2|e] eqn:K1; cbn [bind] in H; [|discriminate].
  eapply tr_main_TOP; [|exact H]. eapply TOPg_step; eassumption.
Qed.

Theorem loads_root :
  forall ip ic text v, loads ip ic text = Ok v ->
    is_block_dict v \/ exists l, v = VList l /\ Forall is_block_dict l.
Proof.
  intros ip ic text v H. unfold loads in H.
  destruct (parse_tree ic text) as [t|e] eqn:Et; cbn [bind] in H; [|discriminate].
  destruct (transform ip ic t) as [x|e] eqn:Ex; cbn [bind] in H; [|discriminate].
  rewrite tv_to_value_tvv in H. injection H as <-.
  destruct (transform_top ip ic text t x Et Ex) as [(items & ->)|(l & -> & Hl)].
  - left. eexists. reflexivity.
  - right. cbn [tvv]. eexists. split; [reflexivity|]. apply Forall_forall. intros v Hv.
    apply in_map_iff in Hv. destruct Hv as (y & <- & Hy). rewrite Forall_forall in Hl.
    destruct (Hl y Hy) as (items & ->). eexists. reflexivity.
Qed.
