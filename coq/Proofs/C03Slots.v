(* C03: reflection over the schema slots, witnesses of the defects, refusal and hidden keys. *)
From MF Require Import Lib.Base Lib.PyDict Lib.Json Gen.Tokens Gen.Schemas Model.Case Model.SchemaStore
  Model.Quoter Model.PPrint Spec.Layout Spec.Reader Proofs.PPrintFacts Proofs.C16 Proofs.C16Breaks Proofs.C03.
Open Scope nat_scope.

(* ------------------------------------------------------------ reflection over the 349 slots *)
Definition allof_defect_slots : list (str * str) :=
  [(Str "class", Str "backgroundcolor"); (Str "class", Str "color"); (Str "class", Str "debug");
   (Str "class", Str "outlinecolor"); (Str "label", Str "backgroundcolor");
   (Str "label", Str "backgroundshadowcolor"); (Str "label", Str "expression"); (Str "layer", Str "debug");
   (Str "legend", Str "interlace"); (Str "legend", Str "transparent"); (Str "map", Str "debug");
   (Str "map", Str "transparent"); (Str "scalebar", Str "transparent"); (Str "style", Str "backgroundcolor")].

Lemma inconsistent_slots_are_allof : inconsistent_slots = allof_defect_slots.
Proof. vm_compute. reflexivity. Qed.

Lemma slot_count : length all_slots = 349.
Proof. vm_compute. reflexivity. Qed.

Definition pair_eqb (a b : str * str) : bool := str_eqb (fst a) (fst b) && str_eqb (snd a) (snd b).

Lemma consistent_or_listed slot :
  In slot all_slots -> consistent slot = true \/ In (slot_name slot) allof_defect_slots.
Proof.
  intros Hin. destruct (consistent slot) eqn:E; [left; reflexivity|right].
  rewrite <- inconsistent_slots_are_allof. unfold inconsistent_slots. apply in_map.
  apply filter_In. split; [exact Hin|rewrite E; reflexivity].
Qed.

(* the defect slots really are defects: the schema offers a string form, the text is the raw string *)
Definition find_slot (t k : str) : option (str * str * json) :=
  find (fun s => pair_eqb (slot_name s) (t, k)) all_slots.

Definition fv (o : opts) (t k : str) (v : value) : res value :=
  do props <- get_attribute_properties t k; format_value o k props v.

Definition required_for (t k s : str) : option req :=
  option_map (fun slot => required_string k (slot_offers slot) s) (find_slot t k).

Lemma allof_unquoted_witness :
  fv default_opts (Str "label") (Str "expression") (VStr (Str "abc")) = Ok (VStr (Str "abc"))
  /\ required_for (Str "label") (Str "expression") (Str "abc") = Some (RQuoted (Str "abc"))
  /\ fv default_opts (Str "class") (Str "backgroundcolor") (VStr (Str "#ff0000")) = Ok (VStr (Str "#ff0000"))
  /\ required_for (Str "class") (Str "backgroundcolor") (Str "#ff0000") = Some (RQuoted (Str "#ff0000"))
  /\ fv default_opts (Str "layer") (Str "debug") (VStr (Str "on")) = Ok (VStr (Str "on"))
  /\ required_for (Str "layer") (Str "debug") (Str "on") = Some (RWord (Str "ON")).
Proof. repeat split; vm_compute; reflexivity. Qed.

(* ------------------------------------------------------------ numbers, booleans, lists *)
Lemma number_text o attr props v :
  number_value v = true ->
  match pshape_of props with
  | PSString true => True
  | PSString false => format_value o attr props v = Ok (VStr (add_quotes (quote o) (py_str v)))
  | _ => format_value o attr props v = Ok v
  end.
Proof. intros H. rewrite (format_value_num o attr props v H). destruct (pshape_of props) as [|[|]| |]; auto. Qed.

Lemma bool_text o attr props b :
  format_value o attr props (VBool b) = Ok (VStr (if b then Str "TRUE" else Str "FALSE"))
  /\ tokenize (if b then Str "TRUE" else Str "FALSE") = Some [(TWord, if b then Str "TRUE" else Str "FALSE")].
Proof. split; [apply format_value_bool|destruct b; reflexivity]. Qed.

(* a list of numbers under a keyword that is neither enum nor string typed: the
   numbers separated by single spaces *)
Lemma number_list_text o attr props l :
  forallb number_value l = true ->
  match pshape_of props with
  | PSOneOf _ | PSFall => format_value o attr props (VList l) = Ok (VStr (join [c_sp] (map py_str l)))
  | _ => True
  end.
Proof.
  intros H. rewrite format_value_list.
  assert (E : map (quote_list_element o attr) l = map py_str l).
  { apply map_ext_in. intros x Hx. rewrite forallb_forall in H. specialize (H x Hx).
    unfold quote_list_element. destruct x; try discriminate H; reflexivity. }
  destruct (pshape_of props) as [|[|]| |]; try exact I; rewrite E; reflexivity.
Qed.

(* list elements that are bindings: bare only for offset / polaroffset *)
Lemma list_binding_witness :
  fv default_opts (Str "label") (Str "shadowsize") (VList [VStr (Str "[a]"); VStr (Str "[b]")])
    = Ok (VStr (add_quotes 34%N (Str "[a]") ++ Str " " ++ add_quotes 34%N (Str "[b]")))
  /\ fv default_opts (Str "label") (Str "offset") (VList [VStr (Str "[a]"); VStr (Str "[b]")])
    = Ok (VStr (Str "[a] [b]")).
Proof. split; vm_compute; reflexivity. Qed.

(* ------------------------------------------------------------ refusal of values without a Mapfile form *)
Lemma empty_dict_refused_enum o attr props c :
  pshape_of props = PSEnum -> format_value o attr props (VDict c []) = Err PyValueError.
Proof. intros H. rewrite format_value_empty_dict, H. reflexivity. Qed.

Definition enum_slots : list (str * str * json) :=
  filter (fun s => match shape_of_slot s with Some PSEnum => true | _ => false end) all_slots.

Lemma enum_slot_count : length enum_slots = 46.
Proof. vm_compute. reflexivity. Qed.

Lemma empty_dict_refused_slots o slot c :
  In slot enum_slots -> fv o (fst (fst slot)) (snd (fst slot)) (VDict c []) = Err PyValueError.
Proof.
  unfold enum_slots. intros H. apply filter_In in H. destruct H as [_ H].
  unfold shape_of_slot in H. unfold fv.
  destruct (get_attribute_properties (fst (fst slot)) (snd (fst slot))) as [props|e]; [|discriminate].
  cbn [bind]. destruct (pshape_of props) eqn:E; try discriminate. apply empty_dict_refused_enum. exact E.
Qed.

Definition autocreated_layer : value :=
  VDict (DCI true) [(Str "__type__", VStr (Str "layer")); (Str "name", VStr (Str "x")); (Str "group", VDict (DCI false) [])].

(* under a non-enum keyword the empty dict is written as text *)
Lemma empty_dict_printed_witness :
  fv default_opts (Str "layer") (Str "group") (VDict (DCI false) []) = Ok (VStr (add_quotes 34%N (Str "{}")))
  /\ fv default_opts (Str "map") (Str "web") (VDict (DCI false) []) = Ok (VDict (DCI false) [])
  /\ exists text v', pprint default_opts autocreated_layer = Ok (text, v')
                     /\ str_contains (Str "GROUP ""{}""") text = true.
Proof.
  split; [vm_compute; reflexivity|]. split; [vm_compute; reflexivity|].
  eexists _, _. split; vm_compute; reflexivity.
Qed.

(* ------------------------------------------------------------ hidden keys *)
Lemma hidden_item_no_lines o rec type_ comments level aligned k v :
  hidden_key k = true -> format_item o rec type_ comments level aligned k v = Ok ([], v).
Proof. intros H. unfold format_item. change (is_metadata k) with (hidden_key k). rewrite H. reflexivity. Qed.

Lemma hidden_entry_no_line o level aligned comments k v l :
  hidden_key k = true ->
  process_dict_lines o level aligned comments ((k, v) :: l) = process_dict_lines o level aligned comments l.
Proof. intros H. cbn [process_dict_lines]. change (is_metadata k) with (hidden_key k). rewrite H. reflexivity. Qed.

Lemma hidden_key_not_counted k v items :
  hidden_key k = true -> compute_max_key_length ((k, v) :: items) = compute_max_key_length items.
Proof.
  intros H. cbn [compute_max_key_length]. unfold counts_for_alignment. change (is_metadata k) with (hidden_key k).
  rewrite H. reflexivity.
Qed.

(* every line of the body of an object comes from a key that is not hidden *)
Lemma body_lines_from_visible_keys o level c its lines v' :
  _format o level (VDict c its) = Ok (lines, v') ->
  exists type_ head (sorted : list (str * value)) (rs : list (list str * value)),
    lines = head ++ concat (map fst rs) ++ [add_end_line o level 0 type_]
    /\ (forall x, In x sorted <-> In x its)
    /\ Forall2 (fun kv r => hidden_key (fst kv) = true -> fst r = []) sorted rs.
Proof.
  intros H. destruct (_format_inv o level c its lines v' H) as (type_ & head & sorted & rs & _ & _ & Hin & HF & Hl & _).
  exists type_, head, sorted, rs. split; [exact Hl|]. split; [exact Hin|].
  clear Hin Hl. induction HF as [|[k v] r s' rs' Hr _ IH]; constructor; [|exact IH].
  intros Hh. cbn [fst snd] in *.
  rewrite (hidden_item_no_lines _ _ _ _ _ _ k v Hh) in Hr. injection Hr as <-. reflexivity.
Qed.

(* CONFIG blocks are not filtered *)
Lemma hidden_config_witness :
  exists text v',
    pprint default_opts
      (VDict (DCI true) [(Str "__type__", VStr (Str "map"));
                         (Str "config", VDict (DCI true) [(Str "__x__", VStr (Str "y"))])]) = Ok (text, v')
    /\ str_contains (Str "__X__") text = true.
Proof. eexists _, _. split; vm_compute; reflexivity. Qed.
