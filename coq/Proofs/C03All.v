(* C03: the lemmas stated exactly as the theorems of Props/C03.v. *)
From MF Require Import Lib.Base Lib.PyDict Lib.Json Gen.Tokens Model.Case Model.Quoter Model.PPrint
  Spec.Layout Spec.Reader Proofs.PPrintFacts Proofs.C16 Proofs.C03 Proofs.C03Slots.

Lemma c03_lexical_class_strings_lemma :
  forall o slot props s,
    quote_ok o = true -> consistent slot = true ->
    get_attribute_properties (fst (fst slot)) (snd (fst slot)) = Ok props ->
    string_ok (quote o) s = true ->
    exists out, format_value o (snd (fst slot)) props (VStr s) = Ok (VStr out)
                /\ required_met (quote o) (required_string (snd (fst slot)) (slot_offers slot) s) s out.
Proof. intros o slot props s Hq Hc Hp Hs. exact (lexical_class_strings o Hq slot props s Hc Hp Hs). Qed.

Lemma c03_slots_consistent_lemma :
  length all_slots = 349
  /\ inconsistent_slots = allof_defect_slots
  /\ forall slot, In slot all_slots -> consistent slot = true \/ In (slot_name slot) allof_defect_slots.
Proof. split; [exact slot_count|]. split; [exact inconsistent_slots_are_allof|exact consistent_or_listed]. Qed.

Lemma c03_tokens_read_back_lemma :
  (forall q s, is_quote q = true -> string_ok q s = true -> tokenize (add_quotes q s) = Some [(TQuoted, s)])
  /\ (forall w, clean_word w = true -> tokenize w = Some [word_token w])
  /\ (forall z, tokenize (py_str_int z) = Some [(TNumber, py_str_int z)]).
Proof. split; [exact tokenize_quoted|]. split; [exact tokenize_word|exact int_text_is_number]. Qed.
