(* The decimal order of Spec/Versioned.v is the order of the rationals m * 10^e. *)
From Coq Require Import ZArith QArith Qpower Lia.
From MF Require Import Spec.Versioned.
Open Scope Z_scope.

Definition toQ (a : dnum) : Q := (inject_Z (fst a) * (inject_Z 10) ^ (snd a))%Q.

Lemma ten_not_0 : ~ (inject_Z 10 == 0)%Q.
Proof. intros H. unfold Qeq in H. cbn in H. discriminate H. Qed.

Lemma toQ_scale a k :
  k <= snd a -> (toQ a == inject_Z (fst a * 10 ^ (snd a - k)) * (inject_Z 10) ^ k)%Q.
Proof.
  intros H. unfold toQ. rewrite inject_Z_mult, Zpower_Qpower by lia.
  rewrite <- Qmult_assoc, <- Qpower_plus by exact ten_not_0.
  replace (snd a - k + k) with (snd a) by lia. reflexivity.
Qed.

Lemma dle_Qle a b : dle a b = true <-> (toQ a <= toQ b)%Q.
Proof.
  unfold dle. set (k := Z.min (snd a) (snd b)).
  rewrite (toQ_scale a k), (toQ_scale b k) by (unfold k; lia).
  rewrite Qmult_le_r by (apply Qpower_0_lt; reflexivity).
  rewrite <- Zle_Qle. apply Z.leb_le.
Qed.

(* range test and declarative range in terms of the rationals *)
From MF Require Import Lib.Base Lib.Json Model.Schema Model.Validator Proofs.C09.

Lemma range_test_Q st d v md0 md :
  jget K_metadata (subject st d) = Some md0 -> subject st md0 = JObj md -> numeric_bounds md ->
  (is_valid_for_version st d v = Ok true <->
   (toQ (bound_or md K_minVersion (0, 0)%Z) <= toQ v)%Q /\ (toQ v <= toQ (bound_or md K_maxVersion (1, 3)%Z))%Q).
Proof.
  intros H1 H2 H3. rewrite (range_test_lemma st d v md0 md H1 H2 H3).
  rewrite <- !dle_Qle. rewrite <- andb_true_iff.
  split; [intros [= ->]; reflexivity|intros ->; reflexivity].
Qed.

Lemma in_range_Q v node md :
  jget (Str "metadata") node = Some (JObj md) ->
  (in_range v node = true <->
   (toQ (bound_or md (Str "minVersion") (0, 0)%Z) <= toQ v)%Q /\ (toQ v <= toQ (bound_or md (Str "maxVersion") (1, 3)%Z))%Q).
Proof.
  intros H. unfold in_range. rewrite H. rewrite andb_true_iff, !dle_Qle. reflexivity.
Qed.
