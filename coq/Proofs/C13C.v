(* C13 (comments part), universal: loading with include_comments=True returns
   the same content as loading with it off once the hidden __comments__ entries
   are removed at every depth, whatever include_position is.
   Lexer/parser level: Proofs/C13C_Parse.v.  Erasure and its generic facts:
   Proofs/C13C_Erase.v.  Here: composite() with and without comments, the
   two-phase comments run (ctr + comments_callback re-entering tr_main) against
   the single plain pass, transform, loads, and the combination with the
   position theorem of Proofs/C13U.v (four-flag corollaries and the acceptance
   alignment are in Proofs/C13C_Align.v).

   Main statements here (closed under the global context):
     callback_C / cb_composite_C      each callback, comments flag on against off, related inputs
     tr_main_C, ctr_Gc, comments_callback_Gc   the two-phase comments run against the single plain pass
     comments_transparent_transform   transform ip true t' / transform ip false t, trees of the same shape
     comments_transparent_loads       loads ip true / loads ip false: strip_cm v = strip_cm w *)
From MF Require Import Lib.Base Lib.PyDict Lib.PyNum Model.GrammarTypes Model.Lexer Model.LR
  Model.Case Model.Transformer Model.Api Gen.Tokens Gen.Grammar Proofs.C11 Proofs.C13U
  Proofs.C13C_Parse Proofs.C13C_Erase.
Open Scope N_scope.

Lemma is_cm_position : is_cm s_position = false.
Proof. reflexivity. Qed.
Lemma lower_comments' : lower s_comments = s_comments.
Proof. vm_compute. reflexivity. Qed.

(* ================================================================ composite: the fold over attribute dicts *)
(* the state relation: dicts related, position component EQUAL, comments component ignored *)
Definition SRc (st st' : cstate) : Prop :=
  SC (cs_dict st) = SC (cs_dict st') /\ cs_pos st = cs_pos st'.

Definition cfg_pos (p : option (list (str * value))) (cfg : list (str * value)) (pos : value)
  : res (option (list (str * value))) :=
  match p with
  | Some pitems =>
      match cfg with
      | [(sub, _)] =>
          let curp := match assoc s_config pitems with Some (VDict _ x) => x | _ => [] end in
          Ok (Some (od_set s_config (VDict DPlain (od_set sub pos curp)) pitems))
      | _ => vfail
      end
  | None => Ok None
  end.

Lemma process_config_inv2 st a pos s :
  process_config st a pos = Ok s ->
  exists c cfg p', assoc s_config a = Some (TVal (VDict c cfg)) /\
    cfg_pos (cs_pos st) cfg pos = Ok p' /\
    s = mk_cs (ci_set s_config (TDict (DCI true) (cfg_fold cfg (cfg_cur (cs_dict st)))) (cs_dict st)) p' (cs_comments st).
Proof.
  unfold process_config. intros H.
  destruct (assoc s_config a) as [[[| | | | | |c cfg]| | |]|]; try discriminate.
  exists c, cfg. fold (cfg_pos (cs_pos st) cfg pos) in H.
  destruct (cfg_pos (cs_pos st) cfg pos) as [p'|e]; cbn [bind] in H; [|discriminate].
  exists p'. injection H as <-. auto.
Qed.

Lemma process_config_C st st' a a' pos s s' :
  SRc st st' -> SC a = SC a' ->
  process_config st a pos = Ok s -> process_config st' a' pos = Ok s' -> SRc s s'.
Proof.
  intros [Hd Hp] Ha H1 H2.
  apply process_config_inv2 in H1. destruct H1 as (c & cfg & p1 & A1 & P1 & ->).
  apply process_config_inv2 in H2. destruct H2 as (c' & cfg' & p2 & A2 & P2 & ->).
  pose proof (SC_assoc_C s_config a a' is_cm_config Ha) as Hx. rewrite A1, A2 in Hx. cbn [optC] in Hx.
  apply C_val_l in Hx. injection Hx as -> ->.
  split; cbn [cs_dict cs_pos].
  - unfold ci_set. apply SC_od_set_C; [exact Hd|]. apply C_dict. apply cfg_fold_C. apply cfg_cur_C. exact Hd.
  - rewrite Hp in P1. congruence.
Qed.

Definition points_pos (p : option (list (str * value))) (pos : value) : option (list (str * value)) :=
  match p with
  | Some pitems =>
      match assoc s_points pitems with
      | None => Some (od_set s_points pos pitems)
      | Some (VDict c x) => Some (od_set s_points (VList [VDict c x; pos]) pitems)
      | Some (VList l) => Some (od_set s_points (VList (l ++ [pos])) pitems)
      | Some _ => Some pitems
      end
  | None => None
  end.

Lemma process_points_inv2 st a pos s :
  process_points st a pos = Ok s ->
  exists newv d', assoc s_points a = Some (TVal newv) /\ points_new (cs_dict st) newv = Ok d' /\
    s = mk_cs d' (points_pos (cs_pos st) pos) (cs_comments st).
Proof.
  unfold process_points. intros H.
  destruct (assoc s_points a) as [[newv| | |]|]; try discriminate.
  exists newv. fold (points_new (cs_dict st) newv) in H.
  destruct (points_new (cs_dict st) newv) as [d'|e]; cbn [bind] in H; [|discriminate].
  exists d'. injection H as <-. auto.
Qed.

Lemma process_points_C st st' a a' pos s s' :
  SRc st st' -> SC a = SC a' ->
  process_points st a pos = Ok s -> process_points st' a' pos = Ok s' -> SRc s s'.
Proof.
  intros [Hd Hp] Ha H1 H2.
  apply process_points_inv2 in H1. destruct H1 as (nv & d1 & A1 & D1 & ->).
  apply process_points_inv2 in H2. destruct H2 as (nv' & d2 & A2 & D2 & ->).
  pose proof (SC_assoc_C s_points a a' is_cm_points Ha) as Hx. rewrite A1, A2 in Hx. cbn [optC] in Hx.
  apply C_val_l in Hx. injection Hx as ->.
  split; cbn [cs_dict cs_pos]; [eapply points_new_C; [exact Hd|exact D1|exact D2]|rewrite Hp; reflexivity].
Qed.

Lemma SC_items1 items items' : SC items = SC items' -> SC (items1_of items) = SC (items1_of items').
Proof.
  intros H. unfold items1_of. rewrite !(SC_od_del s_tokens) by reflexivity.
  rewrite !(SC_od_del s_position) by reflexivity. rewrite H. reflexivity.
Qed.

Lemma SC_items2 items items' : SC items = SC items' -> SC (items2_of items) = SC (items2_of items').
Proof.
  intros H. unfold items2_of. rewrite !(SC_od_del_cm s_comments) by reflexivity. apply SC_items1. exact H.
Qed.

Lemma ci_get_C k d d' : is_cm (lower k) = false -> SC d = SC d' ->
  C (match ci_get k d with Some x => x | None => TSeq [] end)
    (match ci_get k d' with Some x => x | None => TSeq [] end).
Proof.
  intros Hk H. unfold ci_get. pose proof (SC_assoc_C (lower k) d d' Hk H) as Ha.
  destruct (assoc (lower k) d), (assoc (lower k) d'); cbn [optC] in Ha; try contradiction; [exact Ha|reflexivity].
Qed.

Lemma append_under_C k (d d' : titems) v v' cur1 cur1' :
  SC d = SC d' -> C v v' ->
  tv_list_append (match ci_get k d with Some x => x | None => TSeq [] end) v = Ok cur1 ->
  tv_list_append (match ci_get k d' with Some x => x | None => TSeq [] end) v' = Ok cur1' ->
  SC (ci_set k cur1 d) = SC (ci_set k cur1' d').
Proof.
  intros H Hv H1 H2. unfold ci_set. destruct (is_cm (lower k)) eqn:Ek.
  - apply SC_od_set_cmC; assumption.
  - apply SC_od_set_C; [exact H|].
    pose proof (tv_list_append_C _ _ _ _ (ci_get_C k d d' Ek H) Hv) as Hr.
    rewrite H1, H2 in Hr. exact Hr.
Qed.

Lemma ci_typed_C st st' d d' ty ty' s s' :
  SRc st st' -> C d d' -> C ty ty' ->
  ci_typed st d ty = Ok s -> ci_typed st' d' ty' = Ok s' -> SRc s s'.
Proof.
  intros [Hd Hc] He Ht H1 H2. unfold ci_typed in H1, H2.
  destruct ty as [[| | | |k| |]| | |]; try discriminate. cinv. cbn [bind] in H1, H2.
  destruct (mem_str k SINGLETON_COMPOSITE_NAMES).
  - injection H1 as <-. injection H2 as <-. split; cbn [cs_dict cs_pos]; [|exact Hc].
    unfold ci_set. apply SC_od_set_C; assumption.
  - cbv zeta in H1, H2.
    destruct (tv_list_append _ d) as [c1|e] eqn:A1; cbn [bind] in H1; [|discriminate].
    destruct (tv_list_append _ d') as [c1'|e] eqn:A2; cbn [bind] in H2; [|discriminate].
    injection H1 as <-. injection H2 as <-. split; cbn [cs_dict cs_pos]; [|exact Hc].
    eapply append_under_C; eassumption.
Qed.

(* the two runs differ in the flag and in the comments found on the attribute *)
Lemma ci_untyped_C ic ic' st st' pos cm cm' i2 i2' s s' :
  SRc st st' -> SC i2 = SC i2' ->
  ci_untyped ic st pos cm i2 = Ok s -> ci_untyped ic' st' pos cm' i2' = Ok s' -> SRc s s'.
Proof.
  intros HSR Hi H1 H2.
  destruct i2 as [|[kn v] [|? ?]]; try discriminate.
  destruct i2' as [|[kn' v'] [|? ?]]; try discriminate.
  assert (Hkv : (is_cm kn = true /\ kn' = kn) \/ (is_cm kn = false /\ kn' = kn /\ C v v')).
  { cbn [strip_cmw] in Hi. destruct (is_cm kn) eqn:E1, (is_cm kn') eqn:E2; try discriminate.
    - left. split; [reflexivity|]. apply is_cm_eq in E1, E2. congruence.
    - right. injection Hi as -> Hv. auto. }
  unfold ci_untyped in H1, H2.
  destruct Hkv as [[Ep ->]|[Ep [-> Hv]]].
  - apply is_cm_eq in Ep. subst kn.
    change (str_eqb s_comments s_config) with false in H1, H2.
    change (str_eqb s_comments s_points) with false in H1, H2.
    change (mem_str s_comments REPEATED_KEYS) with false in H1, H2. cbv iota zeta in H1, H2.
    injection H1 as <-. injection H2 as <-. destruct HSR as [Hd Hc].
    split; cbn [cs_dict cs_pos].
    + unfold ci_set. apply SC_od_set_cmC; [rewrite lower_comments'; reflexivity|exact Hd].
    + rewrite Hc. reflexivity.
  - destruct (str_eqb kn s_config); [eapply process_config_C; eassumption|].
    destruct (str_eqb kn s_points); [eapply process_points_C; eassumption|].
    destruct HSR as [Hd Hc].
    destruct (mem_str kn REPEATED_KEYS).
    + cbv zeta in H1, H2.
      destruct (tv_list_append _ v) as [c1|e] eqn:A1; cbn [bind] in H1; [|discriminate].
      destruct (tv_list_append _ v') as [c1'|e] eqn:A2; cbn [bind] in H2; [|discriminate].
      injection H1 as <-. injection H2 as <-. split; cbn [cs_dict cs_pos]; [|rewrite Hc; reflexivity].
      eapply append_under_C; eassumption.
    + cbv zeta in H1, H2. injection H1 as <-. injection H2 as <-. split; cbn [cs_dict cs_pos].
      * unfold ci_set. apply SC_od_set_C; assumption.
      * rewrite Hc. reflexivity.
Qed.

Lemma composite_item_C ic ic' st st' d d' s s' :
  SRc st st' -> C d d' ->
  composite_item ic st d = Ok s -> composite_item ic' st' d' = Ok s' -> SRc s s'.
Proof.
  intros HSR He H1 H2. rewrite composite_item_stages in H1, H2.
  destruct d as [| | |c items]; try discriminate. cinv.
  pose proof (SC_assoc_C s_type items items' is_cm_type HS) as Ht.
  destruct (assoc s_type items) as [ty|], (assoc s_type items') as [ty'|]; cbn [optC] in Ht; try contradiction.
  - eapply ci_typed_C; [exact HSR|apply C_dict; exact HS|exact Ht|exact H1|exact H2].
  - pose proof (SC_assoc_C s_position items items' is_cm_position HS) as Hp.
    destruct (assoc s_position items) as [[p| | |]|]; try discriminate.
    destruct (assoc s_position items') as [[p'| | |]|]; try discriminate. cbn [bind optC] in H1, H2, Hp.
    apply C_val_l in Hp. injection Hp as <-.
    eapply ci_untyped_C; [exact HSR|apply SC_items2; exact HS|exact H1|exact H2].
Qed.

Lemma comp_fold_C ic ic' l l' : Forall2 C l l' -> forall st st' s s',
  SRc st st' -> comp_fold ic l (Ok st) = Ok s -> comp_fold ic' l' (Ok st') = Ok s' -> SRc s s'.
Proof.
  induction 1 as [|d d' l l' Hd _ IH]; intros st st' s s' HSR H1 H2.
  - cbn in H1, H2. injection H1 as <-. injection H2 as <-. exact HSR.
  - cbn [comp_fold fold_left comp_step bind] in H1, H2.
    destruct (composite_item ic st d) as [s1|e] eqn:E1;
      [|fold (comp_fold ic l (Err e)) in H1; rewrite comp_fold_err in H1; discriminate].
    destruct (composite_item ic' st' d') as [s1'|e] eqn:E2;
      [|fold (comp_fold ic' l' (Err e)) in H2; rewrite comp_fold_err in H2; discriminate].
    eapply IH; [|exact H1|exact H2]. eapply composite_item_C; eassumption.
Qed.

Lemma attrs_of_C x y : C x y -> Forall2 C (attrs_of x) (attrs_of y).
Proof.
  intros H. destruct x as [v|t|l|c items]; cinv; cbn [attrs_of]; try assumption.
  - repeat constructor.
  - repeat constructor.
  - constructor; [apply C_dict; assumption|constructor].
Qed.

Lemma comp_finish_C ic ic' st st' x y :
  SRc st st' -> hk (cs_dict st) = Some s_type -> hk (cs_dict st') = Some s_type ->
  comp_finish ic st = Ok x -> comp_finish ic' st' = Ok y -> C x y.
Proof.
  intros [Hd Hc] K1 K2 H1 H2. unfold comp_finish in H1, H2. cbv zeta in H1, H2.
  destruct (cs_dict st) as [|[k1 v1] r1]; [discriminate|].
  destruct (cs_dict st') as [|[k2 v2] r2]; [discriminate|].
  cbn [hk] in K1, K2. injection K1 as ->. injection K2 as ->.
  injection H1 as <-. injection H2 as <-.
  rewrite !SC_cons_noncm in Hd by reflexivity. injection Hd as Hv Hr.
  apply C_dict. rewrite !SC_cons_noncm by reflexivity. rewrite !SC_app, Hv, Hr, Hc.
  assert (P1 : forall (b : bool) cm,
             SC (if b then [(s_comments, TVal (VDict DPlain cm))] else []) = []).
  { intros [|] cm; reflexivity. }
  rewrite !P1. reflexivity.
Qed.

Lemma comp_main_C ip ic ic' key second second' x y :
  C second second' -> comp_main ip ic key second = Ok x -> comp_main ip ic' key second' = Ok y -> C x y.
Proof.
  intros Hs H1 H2. unfold comp_main in H1, H2.
  destruct (key_name key) as [kn|e]; cbn [bind] in H1, H2; [|discriminate].
  destruct (comp_pd ip key) as [pd|e]; cbn [bind] in H1, H2; [|discriminate].
  destruct (comp_fold ic (attrs_of second) _) as [st|e] eqn:F1; cbn [bind] in H1; [|discriminate].
  destruct (comp_fold ic' (attrs_of second') _) as [st'|e] eqn:F2; cbn [bind] in H2; [|discriminate].
  eapply comp_finish_C; [| | |exact H1|exact H2].
  - eapply comp_fold_C; [apply attrs_of_C; exact Hs| |exact F1|exact F2]. split; reflexivity.
  - eapply comp_fold_hk; [exact F1|apply comp_init_hk].
  - eapply comp_fold_hk; [exact F2|apply comp_init_hk].
Qed.

Lemma cb_composite_C ip ic ic' xs ys x y :
  Forall2 C xs ys -> cb_composite ip ic xs = Ok x -> cb_composite ip ic' ys = Ok y -> C x y.
Proof.
  intros H H1 H2. rewrite cb_composite_stages in H1, H2.
  destruct H as [|a a' xs ys Ha H]; [discriminate|].
  destruct H as [|b b' xs ys Hb H].
  - injection H1 as <-. injection H2 as <-. exact Ha.
  - destruct a as [| |l|]; try discriminate. cinv.
    destruct l as [|k l]; [discriminate|]. cinv. destruct k as [|key| |]; try discriminate. cinv.
    eapply comp_main_C; eassumption.
Qed.

(* ================================================================ key-value blocks: same flag on both sides *)
Lemma pvp_fold_C b b' : Forall2 C b b' -> forall acc, fold_left pvp_step b' acc = fold_left pvp_step b acc.
Proof.
  induction 1 as [|t t' b b' Ht _ IH]; intros acc; [reflexivity|].
  cbn [fold_left]. rewrite IH. f_equal. unfold pvp_step. rewrite !(seq_item_value_C _ _ _ Ht). reflexivity.
Qed.

Lemma process_value_pairs_C ip ty xs ys :
  Forall2 C xs ys -> CR (process_value_pairs ip xs ty) (process_value_pairs ip ys ty).
Proof.
  intros H. rewrite !process_value_pairs_stages.
  eapply rrel_bind; [apply check_composite_tokens_C; exact H|].
  intros [k1 b1] [k2 b2] [Hk Hb]. cbn [fst snd] in *. subst k2.
  destruct (key_name k1) as [kn|e]; cbn [bind]; [|reflexivity].
  rewrite (pvp_fold_C _ _ Hb).
  destruct (fold_left pvp_step b1 (Ok [])) as [d|e]; cbn [bind]; [|reflexivity].
  unfold pvp_pos. rewrite (create_position_dict_C k1 b1 b2 Hb). apply CR_refl.
Qed.

(* ================================================================ every callback *)
Lemma callback_C ip ic ic' d xs ys x y :
  Forall2 C xs ys -> callback ip ic d xs = Ok x -> callback ip ic' d ys = Ok y -> C x y.
Proof.
  intros H H1 H2.
  assert (G : forall f, (CR (f xs) (f ys)) -> f xs = Ok x -> f ys = Ok y -> C x y).
  { intros f HR A B. rewrite A, B in HR. exact HR. }
  assert (G2 : forall f, f ys = f xs -> f xs = Ok x -> f ys = Ok y -> C x y).
  { intros f HR A B. rewrite HR, A in B. injection B as <-. reflexivity. }
  unfold callback in H1, H2.
  repeat match type of H1 with
         | (if ?c then _ else _) = _ => destruct c
         end.
  all: try discriminate.
  all: try (eapply cb_composite_C; eassumption).
  all: try (revert H1 H2; first
    [ apply (G cb_start), cb_start_C, H
    | apply (G cb_attr), cb_attr_C, H
    | apply (G cb_projection), cb_projection_C, H
    | apply (G cb_config), cb_config_C, H
    | apply (G (process_pair_lists _)), process_pair_lists_C, H
    | apply (G (fun t => process_value_pairs ip t _)), process_value_pairs_C, H
    | apply (G cb_first), cb_first_C, H
    | apply (G (cb_len _)), cb_len_C, H
    | apply (G2 cb_comparison), cb_comparison_C, H
    | apply (G2 (fun t => cb_binary t _ _ _)), cb_binary_C, H
    | apply (G2 (fun t => cb_prefix t _ _)), cb_prefix_C, H
    | apply (G2 cb_expression), cb_expression_C, H
    | apply (G2 cb_func_call), cb_func_call_C, H
    | apply (G2 cb_func_params), cb_func_params_C, H
    | apply (G2 cb_attr_bind), cb_attr_bind_C, H
    | apply (G2 (cb_bool _)), cb_bool_C, H
    | apply (G2 cb_int), cb_int_C, H
    | apply (G2 cb_float), cb_float_C, H
    | apply (G2 cb_hexcolor), cb_hexcolor_C, H
    | apply (G2 cb_list), cb_list_C, H ]).
  all: injection H1 as <-; injection H2 as <-; apply C_seq; exact H.
Qed.

(* ================================================================ the two runs *)
(* [Gc ip h g]: h is a tree of the comments run (meta filled, some sub-trees
   already replaced by their commented results), g the tree of the plain run:
   same node names, same tokens; a value v that replaced a sub-tree stands for
   the plain result of that sub-tree up to __comments__ entries *)
Fixpoint Gc (ip : bool) (h g : gtree) {struct h} : Prop :=
  match h with
  | GTok t => g = GTok t
  | GVal v => forall y, tr_main ip false g = Ok y -> C v y
  | GNode d cs _ =>
      match g with
      | GNode d' cs' _ =>
          d = d' /\
          (fix go (l l' : list gtree) {struct l} : Prop :=
             match l, l' with
             | [], [] => True
             | c :: l1, c' :: l1' => Gc ip c c' /\ go l1 l1'
             | _, _ => False
             end) cs cs'
      | _ => False
      end
  end.

Definition Gc_list (ip : bool) : list gtree -> list gtree -> Prop :=
  fix go (l l' : list gtree) {struct l} : Prop :=
    match l, l' with
    | [], [] => True
    | c :: l1, c' :: l1' => Gc ip c c' /\ go l1 l1'
    | _, _ => False
    end.

Lemma Gc_node ip d cs m d' cs' m' :
  Gc ip (GNode d cs m) (GNode d' cs' m') = (d = d' /\ Gc_list ip cs cs').
Proof. reflexivity. Qed.

Lemma Gc_node_inv ip d cs m g :
  Gc ip (GNode d cs m) g -> exists cs' m', g = GNode d cs' m' /\ Gc_list ip cs cs'.
Proof.
  destruct g as [t|d' cs' m'|v]; try contradiction. rewrite Gc_node. intros [-> H]. eauto.
Qed.

(* one pass of the comments-mode transformer over a partly evaluated tree
   against the plain pass over the original tree *)
Theorem tr_main_C ip : forall h g x y,
  Gc ip h g -> tr_main ip true h = Ok x -> tr_main ip false g = Ok y -> C x y.
Proof.
  fix IH 1. intros h g x y HG H1 H2. destruct h as [t|d cs m|v].
  - cbn in HG. subst g. cbn in H1, H2. congruence.
  - destruct (Gc_node_inv ip d cs m g HG) as (cs' & m' & -> & HL). clear HG.
    rewrite tr_main_node in H1, H2.
    destruct (tr_list ip true cs) as [xs|e] eqn:L1; cbn [bind] in H1; [|discriminate].
    destruct (tr_list ip false cs') as [ys|e] eqn:L2; cbn [bind] in H2; [|discriminate].
    eapply callback_C; [|exact H1|exact H2].
    clear H1 H2. revert cs' xs ys HL L1 L2.
    induction cs as [|c cs IHcs]; intros [|c' cs'] xs ys HL L1 L2; try contradiction.
    + cbn in L1, L2. injection L1 as <-. injection L2 as <-. constructor.
    + destruct HL as [Hc HL]. cbn [tr_list] in L1, L2.
      destruct (tr_main ip true c) as [x1|e] eqn:T1; cbn [bind] in L1; [|discriminate].
      destruct (tr_main ip false c') as [y1|e] eqn:T2; cbn [bind] in L2; [|discriminate].
      fold (tr_list ip true cs) in L1. fold (tr_list ip false cs') in L2.
      destruct (tr_list ip true cs) as [xs1|e] eqn:L1'; cbn [bind] in L1; [|discriminate].
      destruct (tr_list ip false cs') as [ys1|e] eqn:L2'; cbn [bind] in L2; [|discriminate].
      injection L1 as <-. injection L2 as <-. constructor.
      * eapply IH; eassumption.
      * eapply IHcs; [exact HL|reflexivity|exact L2'].
  - cbn in H1. injection H1 as <-. apply HG. exact H2.
Qed.

(* what the comments callbacks add is erased *)
Lemma cc_attr_C m r h : cc_attr m r = Ok h -> exists v, h = GVal v /\ C v r.
Proof.
  destruct r as [| | |c items]; try discriminate. cbn [cc_attr]. intros [= <-].
  eexists. split; [reflexivity|]. apply C_dict. apply SC_od_set_cm. reflexivity.
Qed.

Lemma cc_projection_C m r h : cc_projection m r = Ok h -> exists v, h = GVal v /\ C v r.
Proof.
  destruct r as [| | |c items]; try discriminate. cbn [cc_projection].
  destruct (has_comments m); intros [= <-]; eexists; (split; [reflexivity|]).
  - apply C_dict. apply SC_od_set_cm. reflexivity.
  - reflexivity.
Qed.

Lemma cc_composite_C cs m r h : cc_composite cs m r = Ok h -> exists v, h = GVal v /\ C v r.
Proof.
  destruct r as [| | |c items]; try discriminate. cbn [cc_composite].
  destruct (cc_dictlike _).
  - unfold cc_dict. cbv zeta. destruct (cc_cm2 _ _ _) as [cm2|e]; cbn [bind]; [|discriminate].
    intros [= <-]. eexists. split; [reflexivity|]. apply C_dict.
    destruct c; cbn [cc_setk]; unfold ci_set; rewrite ?lower_comments'; apply SC_od_set_cm; reflexivity.
  - intros H. apply cc_nondict_inv in H. subst h. eexists. split; reflexivity.
Qed.

Lemma comments_callback_Gc ip h g h2 :
  Gc ip h g -> comments_callback ip h = Ok h2 -> Gc ip h2 g.
Proof.
  intros HG H. rewrite comments_callback_stages in H.
  destruct h as [t|d cs m|v]; try (injection H as <-; exact HG).
  assert (K : forall r v, tr_main ip true (GNode d cs m) = Ok r -> C v r -> Gc ip (GVal v) g).
  { intros r v T Hv. cbn [Gc]. intros y Hy. eapply C_trans; [exact Hv|]. eapply tr_main_C; eassumption. }
  destruct (d =? CB_attr).
  { destruct (tr_main ip true _) as [r|e] eqn:T1; cbn [bind] in H; [|discriminate].
    destruct (cc_attr_C m r h2 H) as (v & -> & Hv). eapply K; [reflexivity|exact Hv]. }
  destruct (d =? CB_projection).
  { destruct (tr_main ip true _) as [r|e] eqn:T1; cbn [bind] in H; [|discriminate].
    destruct (cc_projection_C m r h2 H) as (v & -> & Hv). eapply K; [reflexivity|exact Hv]. }
  destruct (d =? CB_composite); [|injection H as <-; exact HG].
  destruct (tr_main ip true _) as [r|e] eqn:T1; cbn [bind] in H; [|discriminate].
  destruct (cc_composite_C cs m r h2 H) as (v & -> & Hv). eapply K; [reflexivity|exact Hv].
Qed.

Theorem ctr_Gc ip : forall h0 g h, Gc ip h0 g -> ctr ip h0 = Ok h -> Gc ip h g.
Proof.
  fix IH 1. intros h0 g h HG H. destruct h0 as [t|d cs m|v]; try (cbn in H; injection H as <-; exact HG).
  destruct (Gc_node_inv ip d cs m g HG) as (cs' & m' & -> & HL). clear HG.
  rewrite ctr_node in H. destruct (ctr_list ip cs) as [xs|e] eqn:L; cbn [bind] in H; [|discriminate].
  injection H as <-. rewrite Gc_node. split; [reflexivity|].
  revert cs' xs HL L. induction cs as [|c cs IHcs]; intros [|c' cs'] xs HL L; try contradiction.
  - cbn in L. injection L as <-. exact I.
  - destruct HL as [Hc HL]. cbn [ctr_list] in L.
    destruct (ctr ip c) as [c1|e] eqn:T1; cbn [bind] in L; [|discriminate].
    destruct (comments_callback ip c1) as [c2|e] eqn:K1; cbn [bind] in L; [|discriminate].
    fold (ctr_list ip cs) in L. destruct (ctr_list ip cs) as [r|e] eqn:L'; cbn [bind] in L; [|discriminate].
    injection L as <-. split.
    + eapply comments_callback_Gc; [|exact K1]. eapply IH; eassumption.
    + eapply IHcs; [exact HL|reflexivity].
Qed.

(* parser trees of the same shape start related *)
Lemma Gc_gtree_of ip : forall t' t, same_shape t' t -> Gc ip (gtree_of t') (gtree_of t).
Proof.
  fix IH 1. intros [a|d cs m] [b|d' cs' m'] H; try contradiction.
  - cbn in H. subst b. reflexivity.
  - rewrite same_shape_node in H. destruct H as [-> H]. cbn [gtree_of]. rewrite Gc_node. split; [reflexivity|].
    revert cs' H. induction cs as [|c cs IHcs]; intros [|c' cs'] H; try contradiction; [exact I|].
    destruct H as [H1 H2]. cbn [map]. split; [apply IH; exact H1|apply IHcs; exact H2].
Qed.

Lemma Gc_canonize ip h g :
  (exists d cs m cs' m', h = GNode d cs m /\ g = GNode d cs' m') \/ (exists t, h = GTok t) ->
  Gc ip h g -> Gc ip (canonize h) (canonize g).
Proof.
  intros [(d & cs & m & cs' & m' & -> & ->)|[t ->]] HG; [|cbn in HG; subst g; exact eq_refl].
  cbn [canonize]. destruct (d =? CB_symbolset); [|exact HG].
  rewrite Gc_node in *. destruct HG as [_ HL]. split; [reflexivity|].
  split; [|exact HL]. rewrite Gc_node. split; [reflexivity|]. split; [reflexivity|exact I].
Qed.

Lemma Gc_start ip t' t : same_shape t' t -> Gc ip (canonize (gtree_of t')) (canonize (gtree_of t)).
Proof.
  intros H. apply Gc_canonize; [|apply Gc_gtree_of; exact H].
  destruct t' as [a|d cs m], t as [b|d' cs' m']; try contradiction.
  - right. eexists; reflexivity.
  - rewrite same_shape_node in H. destruct H as [-> _]. left. cbn [gtree_of]. repeat eexists.
Qed.

(* ================================================================ transform *)
(* (b): the comments run over a tree with comments attached against the plain
   run over a tree of the same shape *)
Theorem comments_transparent_transform :
  forall ip t' t x y, same_shape t' t ->
  transform ip true t' = Ok x -> transform ip false t = Ok y -> strip_cm_tv x = strip_cm_tv y.
Proof.
  intros ip t' t x y HS H1 H2. unfold transform in H1, H2.
  pose proof (Gc_start ip t' t HS) as HG.
  destruct (ctr ip _) as [g1|e] eqn:C1; cbn [bind] in H1; [|discriminate].
  destruct (comments_callback ip g1) as [g2|e] eqn:K1; cbn [bind] in H1; [|discriminate].
  eapply tr_main_C; [|exact H1|exact H2].
  eapply comments_callback_Gc; [|exact K1]. eapply ctr_Gc; eassumption.
Qed.

(* ================================================================ final data and loads *)
Lemma strip_cm_tvv : forall x, strip_cm (tvv (strip_cm_tv x)) = strip_cm (tvv x).
Proof.
  induction x as [v|t|l IH|c items IH] using tv_ind'; try reflexivity.
  - cbn [strip_cm_tv tvv strip_cm]. f_equal. rewrite !map_map.
    induction IH as [|y l Hy _ IHl]; [reflexivity|]. cbn [map]. rewrite Hy, IHl. reflexivity.
  - cbn [strip_cm_tv tvv strip_cm]. f_equal.
    induction IH as [|[k y] l Hy _ IHl]; [reflexivity|]. cbn [snd] in Hy.
    cbn [strip_cmw map fst snd]. destruct (is_cm k) eqn:Ek.
    + exact IHl.
    + cbn [map fst snd strip_cmw]. rewrite Ek, Hy, IHl. reflexivity.
Qed.

Theorem strip_cm_tv_to_value x y v w :
  strip_cm_tv x = strip_cm_tv y -> tv_to_value x = Ok v -> tv_to_value y = Ok w ->
  strip_cm v = strip_cm w.
Proof.
  intros He H1 H2. rewrite tv_to_value_tvv in H1, H2. injection H1 as <-. injection H2 as <-.
  rewrite <- (strip_cm_tvv x), <- (strip_cm_tvv y), He. reflexivity.
Qed.

(* (c) *)
Theorem comments_transparent_loads :
  forall ip text v w, loads ip true text = Ok v -> loads ip false text = Ok w -> strip_cm v = strip_cm w.
Proof.
  intros ip text v w H1 H2. unfold loads in H1, H2.
  pose proof (parse_tree_comments_shape text) as HP.
  destruct (parse_tree true text) as [t'|e]; cbn [bind] in H1; [|discriminate].
  destruct (parse_tree false text) as [t|e]; cbn [bind] in H2; [|discriminate].
  cbn [res_shape] in HP.
  destruct (transform ip true t') as [x|e] eqn:T1; cbn [bind] in H1; [|discriminate].
  destruct (transform ip false t) as [y|e] eqn:T2; cbn [bind] in H2; [|discriminate].
  eapply strip_cm_tv_to_value; [|exact H1|exact H2].
  eapply comments_transparent_transform; eassumption.
Qed.
