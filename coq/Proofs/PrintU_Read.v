(* Reading a rendered abstract document back with the independent reader of
   Spec/Reader.v.  The reader is run piece by piece: when every piece of the
   abstract document is a complete token sequence on its own ([aline_ok]), the
   tokens of the whole text are the concatenation of the tokens of the pieces,
   whatever indent, spacer (blank characters), newlinechar (a line break
   followed by blanks: LF, CRLF, ...), end_comment and align_values are. *)
From MF Require Import Lib.Base Lib.PyDict Model.Case Model.Quoter Model.PPrint Spec.Reader
  Proofs.PPrintFacts Proofs.PrintU_Abs.
Open Scope nat_scope.

(* ------------------------------------------------------------ the scanner without the end of text *)
Fixpoint run (m : mode) (s : str) : option (list token * mode) :=
  match s with
  | [] => Some ([], m)
  | c :: s' =>
      match step m c with
      | Some (out, m') =>
          match run m' s' with
          | Some (rest, m2) => Some (out ++ rest, m2)
          | None => None
          end
      | None => None
      end
  end.

Lemma scan_run m s :
  scan m s = match run m s with
             | Some (t, m') => match finish m' with Some f => Some (t ++ f) | None => None end
             | None => None
             end.
Proof.
  revert m; induction s as [|c s IH]; intros m; cbn [scan run].
  - destruct (finish m); reflexivity.
  - destruct (step m c) as [[out m']|]; [|reflexivity]. rewrite IH.
    destruct (run m' s) as [[t m2]|]; [|reflexivity].
    destruct (finish m2); [rewrite app_assoc|]; reflexivity.
Qed.

Lemma run_app m a b :
  run m (a ++ b) = match run m a with
                   | Some (t1, m1) =>
                       match run m1 b with Some (t2, m2) => Some (t1 ++ t2, m2) | None => None end
                   | None => None
                   end.
Proof.
  revert m; induction a as [|c a IH]; intros m; cbn [app run].
  - destruct (run m b) as [[t2 m2]|]; reflexivity.
  - destruct (step m c) as [[out m']|]; [|reflexivity]. rewrite IH.
    destruct (run m' a) as [[t1 m1]|]; [|reflexivity].
    destruct (run m1 b) as [[t2 m2]|]; [rewrite app_assoc|]; reflexivity.
Qed.

(* ------------------------------------------------------------ final states *)
Definition fin_eol (m : mode) : bool :=
  match m with
  | MBlank | MLineComment | MAfterQuote _ | MAfterQuoteI _ | MWord _ | MAfterRegex _ => true
  | _ => false
  end.

Definition fin_sp (m : mode) : bool := match m with MLineComment => false | _ => fin_eol m end.

Definition ftoks (m : mode) : list token := match finish m with Some f => f | None => [] end.

Lemma finish_fin m : fin_eol m = true -> finish m = Some (ftoks m).
Proof. destruct m; try discriminate; reflexivity. Qed.

(* reading c in state m is: end the pending token, then start afresh at c *)
Definition sep_ok (m : mode) (c : N) : bool :=
  match m with
  | MBlank => true
  | MLineComment => is_eol c
  | MAfterQuote _ | MAfterRegex _ => negb (N.eqb c 105)
  | MAfterQuoteI _ => is_blank c
  | MWord _ => is_blank c || is_quote c
  | _ => false
  end.

Lemma eol_blank c : is_eol c = true -> is_blank c = true.
Proof.
  unfold is_eol, is_blank. intros H. apply orb_true_iff in H.
  destruct H as [H|H]; apply N.eqb_eq in H; subst c; reflexivity.
Qed.

Lemma blank_not_i c : is_blank c = true -> N.eqb c 105 = false.
Proof. intros H. destruct (N.eqb_spec c 105) as [->|]; [discriminate H|reflexivity]. Qed.

Lemma start_blank c : is_blank c = true -> start c = MBlank.
Proof. intros H. unfold start. rewrite H. reflexivity. Qed.

Lemma start_quote_nb c : is_blank c = false -> is_quote c = true -> start c = MQuote c [].
Proof.
  intros Hb Hq. unfold start. rewrite Hb. unfold is_quote in Hq. apply orb_true_iff in Hq.
  destruct Hq as [H|H]; apply N.eqb_eq in H; subst c; reflexivity.
Qed.

Lemma sep_ok_step m c : sep_ok m c = true -> step m c = Some (ftoks m, start c).
Proof.
  destruct m; cbn [sep_ok]; intros H; try discriminate H; cbn [step ftoks finish].
  - reflexivity.
  - rewrite H. rewrite (start_blank c (eol_blank c H)). reflexivity.
  - apply negb_true_iff in H. rewrite H. reflexivity.
  - rewrite H, (start_blank c H). reflexivity.
  - destruct (is_blank c) eqn:Eb; [rewrite (start_blank c Eb); reflexivity|].
    cbn [orb] in H. rewrite H, (start_quote_nb c Eb H). reflexivity.
  - apply negb_true_iff in H. rewrite H. reflexivity.
Qed.

Lemma sep_ok_blank m c : fin_sp m = true -> is_blank c = true -> sep_ok m c = true.
Proof.
  destruct m; cbn [fin_sp fin_eol sep_ok]; intros Hm Hc; try discriminate Hm; try reflexivity.
  - rewrite (blank_not_i c Hc). reflexivity.
  - exact Hc.
  - rewrite Hc. reflexivity.
  - rewrite (blank_not_i c Hc). reflexivity.
Qed.

Lemma sep_ok_eol m c : fin_eol m = true -> is_eol c = true -> sep_ok m c = true.
Proof.
  intros Hm Hc. destruct m; try discriminate Hm; cbn [sep_ok]; try reflexivity;
    try exact Hc; try (rewrite (blank_not_i c (eol_blank c Hc)); reflexivity).
  - apply eol_blank. exact Hc.
  - rewrite (eol_blank c Hc). reflexivity.
Qed.

Lemma run_sep m c s :
  sep_ok m c = true ->
  run m (c :: s) = match run MBlank (c :: s) with Some (t, m') => Some (ftoks m ++ t, m') | None => None end.
Proof.
  intros H. cbn [run step]. rewrite (sep_ok_step m c H).
  destruct (run (start c) s) as [[t m']|]; reflexivity.
Qed.

(* ------------------------------------------------------------ closed pieces *)
Definition closed_eol (s : str) : bool :=
  match run MBlank s with Some (_, m) => fin_eol m | None => false end.

Definition closed_sp (s : str) : bool :=
  match run MBlank s with Some (_, m) => fin_sp m | None => false end.

(* the tokens of a piece read on its own *)
Definition ltoks (s : str) : list token :=
  match run MBlank s with Some (t, m) => t ++ ftoks m | None => [] end.

Lemma tokenize_closed s : closed_eol s = true -> tokenize s = Some (ltoks s).
Proof.
  unfold closed_eol, ltoks, tokenize. rewrite scan_run.
  destruct (run MBlank s) as [[t m]|]; [|discriminate]. intros H. rewrite (finish_fin m H). reflexivity.
Qed.

Lemma closed_sp_eol s : closed_sp s = true -> closed_eol s = true.
Proof.
  unfold closed_sp, closed_eol. destruct (run MBlank s) as [[t m]|]; [|discriminate].
  destruct m; cbn [fin_sp fin_eol]; congruence.
Qed.

(* b may follow a directly *)
Definition glue_okb (a b : str) : bool :=
  match b with
  | [] => true
  | c :: _ => match run MBlank a with Some (_, ma) => sep_ok ma c | None => false end
  end.

Lemma glue a b :
  closed_eol a = true -> closed_eol b = true -> glue_okb a b = true ->
  closed_eol (a ++ b) = true /\ ltoks (a ++ b) = ltoks a ++ ltoks b.
Proof.
  intros Ha Hb Hg. destruct b as [|c b].
  - rewrite app_nil_r. split; [exact Ha|]. unfold ltoks at 3. cbn [run ftoks finish app]. rewrite app_nil_r. reflexivity.
  - unfold closed_eol, ltoks in *. cbn [glue_okb] in Hg. rewrite run_app.
    destruct (run MBlank a) as [[ta ma]|]; [|discriminate]. rewrite (run_sep ma c b Hg).
    destruct (run MBlank (c :: b)) as [[tb mb]|]; [|discriminate].
    split; [exact Hb|]. rewrite <- !app_assoc. reflexivity.
Qed.

Lemma run_blanks s : forallb is_blank s = true -> run MBlank s = Some ([], MBlank).
Proof.
  induction s as [|c s IH]; [reflexivity|]. cbn [forallb]. intros H. apply andb_true_iff in H.
  destruct H as [Hc Hs]. cbn [run step]. rewrite (start_blank c Hc), (IH Hs). reflexivity.
Qed.

Lemma blank_prefix p s :
  forallb is_blank p = true -> closed_eol s = true ->
  closed_eol (p ++ s) = true /\ ltoks (p ++ s) = ltoks s.
Proof.
  intros Hp Hs.
  assert (Hc : closed_eol p = true) by (unfold closed_eol; rewrite (run_blanks p Hp); reflexivity).
  assert (Hg : glue_okb p s = true).
  { unfold glue_okb. destruct s; [reflexivity|]. rewrite (run_blanks p Hp). reflexivity. }
  destruct (glue p s Hc Hs Hg) as [G1 G2]. split; [exact G1|]. rewrite G2.
  unfold ltoks at 1. rewrite (run_blanks p Hp). reflexivity.
Qed.

Lemma forallb_app' {A} (f : A -> bool) a b : forallb f a = true -> forallb f b = true -> forallb f (a ++ b) = true.
Proof. intros Ha Hb. rewrite forallb_app, Ha, Hb. reflexivity. Qed.

Lemma forallb_repeat_str (f : N -> bool) s n : forallb f s = true -> forallb f (repeat_str s n) = true.
Proof.
  intros H. induction n as [|n IH]; [reflexivity|]. cbn [repeat_str]. apply forallb_app'; assumption.
Qed.

(* a blank-separated second piece *)
Lemma glue_blank a p b :
  closed_sp a = true -> p <> [] -> forallb is_blank p = true -> closed_eol b = true ->
  closed_eol (a ++ p ++ b) = true /\ ltoks (a ++ p ++ b) = ltoks a ++ ltoks b.
Proof.
  intros Ha Hne Hp Hb. destruct (blank_prefix p b Hp Hb) as [C1 C2].
  assert (Hg : glue_okb a (p ++ b) = true).
  { destruct p as [|c p]; [congruence|]. cbn [app glue_okb]. unfold closed_sp in Ha.
    destruct (run MBlank a) as [[ta ma]|]; [|discriminate]. cbn [forallb] in Hp. apply andb_true_iff in Hp.
    apply sep_ok_blank; tauto. }
  destruct (glue a (p ++ b) (closed_sp_eol a Ha) C1 Hg) as [G1 G2]. split; [exact G1|]. rewrite G2, C2. reflexivity.
Qed.

(* ------------------------------------------------------------ lines joined by a line break *)
Definition nl_ok (nl : str) : bool :=
  match nl with c :: r => is_eol c && forallb is_blank r | [] => false end.

Lemma glue_eol a nl b :
  nl_ok nl = true -> closed_eol a = true -> closed_eol b = true ->
  closed_eol (a ++ nl ++ b) = true /\ ltoks (a ++ nl ++ b) = ltoks a ++ ltoks b.
Proof.
  intros Hnl Ha Hb. destruct nl as [|c r]; [discriminate|]. cbn [nl_ok] in Hnl. apply andb_true_iff in Hnl.
  destruct Hnl as [Hc Hr].
  assert (Hp : forallb is_blank (c :: r) = true) by (cbn [forallb]; rewrite (eol_blank c Hc), Hr; reflexivity).
  destruct (blank_prefix (c :: r) b Hp Hb) as [C1 C2].
  assert (Hg : glue_okb a ((c :: r) ++ b) = true).
  { cbn [app glue_okb]. unfold closed_eol in Ha. destruct (run MBlank a) as [[ta ma]|]; [|discriminate].
    apply sep_ok_eol; assumption. }
  destruct (glue a _ Ha C1 Hg) as [G1 G2]. split; [exact G1|]. rewrite G2, C2. reflexivity.
Qed.

Lemma join_closed nl lines :
  nl_ok nl = true -> Forall (fun l => closed_eol l = true) lines ->
  closed_eol (join nl lines) = true /\ ltoks (join nl lines) = concat (map ltoks lines).
Proof.
  intros Hnl HF. induction HF as [|x lines Hx HF IH]; [split; reflexivity|].
  destruct lines as [|y lines].
  - cbn [join map concat]. rewrite app_nil_r. split; [exact Hx|reflexivity].
  - change (join nl (x :: y :: lines)) with (x ++ nl ++ join nl (y :: lines)).
    destruct IH as [I1 I2]. destruct (glue_eol x nl _ Hnl Hx I1) as [G1 G2].
    split; [exact G1|]. rewrite G2, I2. reflexivity.
Qed.

(* ------------------------------------------------------------ abstract lines whose pieces are closed *)
Definition no_eol (s : str) : bool := forallb (fun c => negb (is_eol c)) s.

Definition pad_ok (L : option nat) (k v : str) : bool :=
  match L with
  | None => true
  | Some L => (length k <=? L) || glue_okb k v
  end.

Definition aline_ok (al : aline) : bool :=
  match al with
  | ALine _ body => closed_eol body
  | AKV _ L k v => closed_sp k && closed_eol v && pad_ok L k v
  | AEnd _ name => no_eol name
  | AComments _ parts => forallb closed_eol parts
  end.

Definition end_token : token := (TWord, Str "END").

(* the tokens of an abstract line: no layout option in sight *)
Definition atoks (al : aline) : list token :=
  match al with
  | ALine _ body => ltoks body
  | AKV _ _ k v => ltoks k ++ ltoks v
  | AEnd _ _ => [end_token]
  | AComments _ parts => concat (map ltoks parts)
  end.

Definition doc_tokens (A : list aline) : list token := concat (map atoks A).

Definition layout_ok (o : opts) : bool := forallb is_blank (spacer o) && nl_ok (newlinechar o).

Lemma run_comment s : no_eol s = true -> run MLineComment s = Some ([], MLineComment).
Proof.
  induction s as [|c s IH]; [reflexivity|]. unfold no_eol in *. cbn [forallb]. intros H.
  apply andb_true_iff in H. destruct H as [Hc Hs]. apply negb_true_iff in Hc.
  cbn [run step]. rewrite Hc, (IH Hs). reflexivity.
Qed.

Lemma aligned_past o L : L < compute_aligned_max_indent o L.
Proof.
  unfold compute_aligned_max_indent. set (i := Nat.max 1 (indent o)).
  assert (Hi : 1 <= i) by (unfold i; lia).
  pose proof (Nat.div_mod L i ltac:(lia)) as E. pose proof (Nat.mod_upper_bound L i ltac:(lia)) as B.
  nia.
Qed.

Section Lines.
  Variable o : opts.
  Hypothesis Hlay : layout_ok o = true.

  Lemma spacer_blank : forallb is_blank (spacer o) = true.
  Proof. unfold layout_ok in Hlay. apply andb_true_iff in Hlay. tauto. Qed.

  Lemma newline_ok : nl_ok (newlinechar o) = true.
  Proof. unfold layout_ok in Hlay. apply andb_true_iff in Hlay. tauto. Qed.

  Lemma margin_blank d : forallb is_blank (margin o d) = true.
  Proof. unfold margin, self_spacer. apply forallb_repeat_str, forallb_repeat_str, spacer_blank. Qed.

  Lemma spaces_blank n : forallb is_blank (repeat_str [c_sp] n) = true.
  Proof. apply forallb_repeat_str. reflexivity. Qed.

  Lemma render_line_ok al :
    aline_ok al = true ->
    Forall (fun l => closed_eol l = true) (render_line o al)
    /\ concat (map ltoks (render_line o al)) = atoks al.
  Proof.
    destruct al as [d body|d L k v|d name|d parts]; cbn [aline_ok render_line atoks]; intros H.
    - destruct (blank_prefix (margin o d) body (margin_blank d) H) as [C1 C2].
      split; [constructor; [exact C1|constructor]|]. cbn [map concat]. rewrite app_nil_r. exact C2.
    - apply andb_true_iff in H. destruct H as [H Hpad]. apply andb_true_iff in H. destruct H as [Hk Hv].
      unfold format_line.
      set (n := (if col o L =? 0 then length k + 1 else col o L) - length k).
      assert (Hn : n <> 0 \/ glue_okb k v = true).
      { unfold n, col. destruct L as [L|]; [|left; cbn; lia]. cbn [pad_ok] in Hpad.
        destruct (align_values o); [|left; cbn; lia].
        apply orb_true_iff in Hpad. destruct Hpad as [Hl|Hg]; [|right; exact Hg]. left.
        apply Nat.leb_le in Hl. pose proof (aligned_past o L) as Hp.
        destruct (compute_aligned_max_indent o L =? 0) eqn:E; [apply Nat.eqb_eq in E; lia|lia]. }
      assert (G : closed_eol (k ++ repeat_str [c_sp] n ++ v) = true
                  /\ ltoks (k ++ repeat_str [c_sp] n ++ v) = ltoks k ++ ltoks v).
      { destruct n as [|n'].
        - cbn [repeat_str app]. destruct Hn as [Hn|Hg]; [congruence|].
          apply (glue k v (closed_sp_eol k Hk) Hv Hg).
        - apply glue_blank; [exact Hk|cbn [repeat_str app]; discriminate|apply spaces_blank|exact Hv]. }
      destruct G as [G1 G2].
      destruct (blank_prefix (margin o d) _ (margin_blank d) G1) as [C1 C2].
      split; [constructor; [exact C1|constructor]|]. cbn [map concat]. rewrite app_nil_r, C2. exact G2.
    - assert (G : closed_eol (Str "END" ++ (if end_comment o then Str " # " ++ name else [])) = true
                  /\ ltoks (Str "END" ++ (if end_comment o then Str " # " ++ name else [])) = [end_token]).
      { destruct (end_comment o).
        - change (Str "END" ++ Str " # " ++ name) with (Str "END # " ++ name).
          assert (E : run MBlank (Str "END # " ++ name) = Some ([end_token], MLineComment)).
          { rewrite run_app. change (run MBlank (Str "END # ")) with (Some ([end_token], MLineComment)).
            cbv beta iota. rewrite (run_comment name H). reflexivity. }
          unfold closed_eol, ltoks. rewrite E. split; reflexivity.
        - split; reflexivity. }
      destruct G as [G1 G2].
      destruct (blank_prefix (margin o d) _ (margin_blank d) G1) as [C1 C2].
      split; [constructor; [exact C1|constructor]|]. cbn [map concat]. rewrite app_nil_r, C2. exact G2.
    - assert (HF : Forall (fun l => closed_eol l = true) (map (fun p => margin o d ++ p) parts)
                   /\ concat (map ltoks (map (fun p => margin o d ++ p) parts)) = concat (map ltoks parts)).
      { induction parts as [|p parts IH]; [split; [constructor|reflexivity]|].
        cbn [forallb] in H. apply andb_true_iff in H. destruct H as [Hp Hps].
        destruct (IH Hps) as [I1 I2]. destruct (blank_prefix (margin o d) p (margin_blank d) Hp) as [C1 C2].
        split; [constructor; assumption|]. cbn [map concat]. rewrite C2, I2. reflexivity. }
      destruct HF as [F1 F2]. destruct (join_closed (newlinechar o) _ newline_ok F1) as [J1 J2].
      rewrite F2 in J2.
      destruct (join (newlinechar o) (map (fun p => margin o d ++ p) parts)) as [|c0 rest] eqn:E.
      + split; [constructor|]. rewrite <- J2. reflexivity.
      + split; [constructor; [exact J1|constructor]|]. cbn [map concat]. rewrite app_nil_r. exact J2.
  Qed.

  Lemma render_doc_ok A :
    forallb aline_ok A = true ->
    Forall (fun l => closed_eol l = true) (render_doc o A)
    /\ concat (map ltoks (render_doc o A)) = doc_tokens A.
  Proof.
    induction A as [|al A IH]; [intros _; split; [constructor|reflexivity]|].
    cbn [forallb]. intros H. apply andb_true_iff in H. destruct H as [Hal HA].
    destruct (render_line_ok al Hal) as [L1 L2]. destruct (IH HA) as [I1 I2].
    rewrite render_doc_cons. split.
    - apply Forall_app. split; assumption.
    - rewrite map_app, concat_app, L2, I2. reflexivity.
  Qed.

  (* the reader on a rendered document *)
  Theorem render_tokens A :
    forallb aline_ok A = true -> tokenize (render o A) = Some (doc_tokens A).
  Proof.
    intros H. destruct (render_doc_ok A H) as [R1 R2].
    destruct (join_closed (newlinechar o) _ newline_ok R1) as [J1 J2].
    unfold render. rewrite (tokenize_closed _ J1), J2, R2. reflexivity.
  Qed.
End Lines.

(* ------------------------------------------------------------ the printer *)
(* the guard: every piece the printer writes is a complete token sequence *)
Definition content_closed (q : N) (sct : bool) (d : value) : bool :=
  match a_pprint q sct d with
  | Ok (A, _) => forallb aline_ok A
  | Err _ => true
  end.

(* the content tokens of a dictionary: a function of the quote,
   separate_complex_types and the dictionary only *)
Definition content_tokens (q : N) (sct : bool) (d : value) : option (list token) :=
  match a_pprint q sct d with
  | Ok (A, _) => Some (doc_tokens A)
  | Err _ => None
  end.

Theorem pprint_tokens :
  forall o d s d',
    layout_ok o = true ->
    content_closed (quote o) (separate_complex_types o) d = true ->
    pprint o d = Ok (s, d') ->
    tokenize s = content_tokens (quote o) (separate_complex_types o) d.
Proof.
  intros o d s d' Hlay Hc H. rewrite pprint_factors in H. unfold content_closed, content_tokens in *.
  destruct (a_pprint (quote o) (separate_complex_types o) d) as [[A x]|e]; [|discriminate].
  injection H as <- _. apply render_tokens; assumption.
Qed.

(* C06, layout options: two option sets that differ only in indent, spacer
   (blank characters), newlinechar (a line break then blanks), end_comment and
   align_values succeed together, leave the same dictionary behind and print
   texts with the same content tokens *)
Theorem layout_options_preserve_content :
  forall o o' d s d1,
    same_content_opts o o' -> layout_ok o = true -> layout_ok o' = true ->
    content_closed (quote o) (separate_complex_types o) d = true ->
    pprint o d = Ok (s, d1) ->
    exists s', pprint o' d = Ok (s', d1) /\ tokenize s' = tokenize s
               /\ tokenize s = content_tokens (quote o) (separate_complex_types o) d.
Proof.
  intros o o' d s d1 Hsame Hl Hl' Hc H.
  destruct (pprint_succeed_together o o' d s d1 Hsame H) as (A & HA & -> & H').
  exists (render o' A). split; [exact H'|].
  destruct Hsame as [Hq Hs].
  rewrite (pprint_tokens o d _ d1 Hl Hc H).
  rewrite Hq, Hs in Hc. rewrite (pprint_tokens o' d _ d1 Hl' Hc H'), Hq, Hs. split; reflexivity.
Qed.
