(* Generic facts about the printer model (Model/PPrint.v, Model/Quoter.v):
   inversion of the result monad, of mapM / collect_items / separate_complex,
   unfolding of _format, string-building lemmas.  Used by C16, C03 and
   available to the other printer properties. *)
From MF Require Import Lib.Base Lib.PyDict Lib.Json Gen.Tokens Model.Case Model.Quoter Model.PPrint.
Open Scope nat_scope.

(* ------------------------------------------------------------ result monad *)
Lemma bind_Ok {A B} (r : res A) (f : A -> res B) b :
  bind r f = Ok b -> exists a, r = Ok a /\ f a = Ok b.
Proof. destruct r as [a|e]; cbn [bind]; [eauto|discriminate]. Qed.

Ltac inv_bind H :=
  let a := fresh "a" in let Ha := fresh "Ha" in
  apply bind_Ok in H; destruct H as (a & Ha & H).

Lemma mapM_Ok {A B} (f : A -> res B) l ys :
  mapM f l = Ok ys -> Forall2 (fun x y => f x = Ok y) l ys.
Proof.
  revert ys; induction l as [|x l IH]; intros ys H; cbn [mapM] in H.
  - injection H as <-. constructor.
  - apply bind_Ok in H. destruct H as (y & Hy & H).
    apply bind_Ok in H. destruct H as (ys' & Hys & H).
    injection H as <-. constructor; [exact Hy|apply IH; exact Hys].
Qed.

(* ------------------------------------------------------------ strings *)
Lemma repeat_str_app s n m : repeat_str s (n + m) = repeat_str s n ++ repeat_str s m.
Proof.
  induction n as [|n IH]; cbn [repeat_str Nat.add]; [reflexivity|].
  rewrite IH, app_assoc. reflexivity.
Qed.

Lemma repeat_repeat s n m : repeat_str (repeat_str s n) m = repeat_str s (m * n).
Proof.
  induction m as [|m IH]; cbn [repeat_str Nat.mul]; [reflexivity|].
  rewrite IH, repeat_str_app. reflexivity.
Qed.

Lemma length_repeat_str s n : length (repeat_str s n) = n * length s.
Proof.
  induction n as [|n IH]; cbn [repeat_str Nat.mul]; [reflexivity|].
  rewrite app_length, IH. reflexivity.
Qed.

Lemma startswith_app s p : startswith (p ++ s) p = true.
Proof.
  induction p as [|c p IH]; cbn [startswith app]; [destruct s; reflexivity|].
  rewrite N.eqb_refl, IH. reflexivity.
Qed.

(* a prefix of u ++ r is comparable with u *)
Lemma startswith_app_cases u r p :
  startswith (u ++ r) p = true -> startswith u p = true \/ startswith p u = true.
Proof.
  revert p; induction u as [|c u IH]; intros p H; cbn [app] in H.
  - right. destruct p; reflexivity.
  - destruct p as [|d p]; [left; reflexivity|].
    cbn [startswith] in *. apply andb_true_iff in H. destruct H as [Hc H].
    rewrite Hc. apply N.eqb_eq in Hc. subst d. rewrite N.eqb_refl. cbn [andb].
    destruct (IH p H) as [E|E]; [left|right]; exact E.
Qed.

Lemma startswith_refl s : startswith s s = true.
Proof. induction s as [|c s IH]; cbn [startswith]; [reflexivity|]. rewrite N.eqb_refl, IH. reflexivity. Qed.

(* ------------------------------------------------------------ move_to_end *)
Lemma In_od_del {A} k (l : list (str * A)) x : In x (od_del k l) -> In x l.
Proof.
  induction l as [|[k' v'] l IH]; cbn [od_del In]; [tauto|].
  destruct (str_eqb k k'); cbn [In]; tauto.
Qed.

Lemma move_to_end_In {A} k (l : list (str * A)) x :
  In x (od_move_to_end k l) <-> In x l.
Proof.
  unfold od_move_to_end. destruct (assoc k l) as [v|] eqn:E; [|tauto].
  revert E; induction l as [|[k' v'] l IH]; cbn [assoc od_del]; [discriminate|].
  destruct (str_eqb_spec k k') as [->|Hne].
  - intros [= ->]. rewrite in_app_iff. cbn [In]. tauto.
  - intros E. specialize (IH E). cbn [app In]. rewrite IH. tauto.
Qed.

Section Sep.
  Variable o : opts.
  Context {A : Type} (valof : A -> value).

  Lemma separate_loop_In c level ks (items items' : list (str * A)) :
    separate_loop valof c level ks items = Ok items' ->
    forall x, In x items' <-> In x items.
  Proof.
    revert items; induction ks as [|k ks IH]; intros items H x; cbn [separate_loop] in H.
    - injection H as <-. tauto.
    - apply bind_Ok in H. destruct H as (b & _ & H). destruct b.
      + apply bind_Ok in H. destruct H as (it1 & Hm & H).
        rewrite (IH _ H x). unfold dict_move_to_end in Hm.
        destruct c; [discriminate| |]; destruct (assoc k items); try discriminate;
          injection Hm as <-; apply move_to_end_In.
      + apply (IH _ H x).
  Qed.

  Lemma separate_complex_g_In c level (items items' : list (str * A)) :
    separate_complex_g o valof c level items = Ok items' ->
    forall x, In x items' <-> In x items.
  Proof.
    unfold separate_complex_g. destruct (separate_complex_types o).
    - apply separate_loop_In.
    - intros [= <-] x. tauto.
  Qed.
End Sep.

(* ------------------------------------------------------------ collect_items *)
Lemma collect_items_Ok (l : list (str * (value * res (list str * value)))) ls its :
  collect_items l = Ok (ls, its) ->
  exists rs : list (list str * value),
    Forall2 (fun x r => snd (snd x) = Ok r) l rs
    /\ ls = concat (map fst rs) /\ its = combine (map fst l) (map snd rs).
Proof.
  revert ls its; induction l as [|[k [v r]] l IH]; intros ls its H; cbn [collect_items] in H.
  - injection H as <- <-. exists []. repeat split. constructor.
  - apply bind_Ok in H. destruct H as (lv & Hr & H).
    apply bind_Ok in H. destruct H as ([ls2 its2] & Hrest & H).
    injection H as <- <-. destruct (IH _ _ Hrest) as (rs & HF & -> & ->).
    exists (lv :: rs). repeat split.
    constructor; [exact Hr|exact HF].
Qed.

(* ------------------------------------------------------------ _format *)
Section Fmt.
  Variable o : opts.

  Definition comments_of (c : dcls) (items : list (str * value)) : value :=
    dict_get c (Str "__comments__") items (VDict DPlain []).

  Definition aligned_of (items : list (str * value)) : nat :=
    if align_values o then compute_aligned_max_indent o (compute_max_key_length items) else 0.

  Lemma _format_nondict level v r :
    _format o level v = Ok r -> exists c items, v = VDict c items.
  Proof. destruct v; cbn [_format]; try discriminate. eauto. Qed.

  (* what a successful _format did *)
  Lemma _format_inv level c items lines v' :
    _format o level (VDict c items) = Ok (lines, v') ->
    exists type_ head (sorted : list (str * value)) (rs : list (list str * value)),
      format_header o c items (comments_of c items) level = Ok (type_, head)
      /\ type_ <> []
      /\ (forall x, In x sorted <-> In x items)
      /\ Forall2 (fun kv r => format_item o (fun x => _format o (S level) x) type_ (comments_of c items)
                                          level (aligned_of items) (fst kv) (snd kv) = Ok r) sorted rs
      /\ lines = head ++ concat (map fst rs) ++ [add_end_line o level 0 type_]
      /\ v' = VDict c (combine (map fst sorted) (map snd rs)).
  Proof.
    intros H. cbn [_format] in H.
    apply bind_Ok in H. destruct H as ([type_ head] & Hh & H). cbn [fst snd] in H.
    apply bind_Ok in H. destruct H as (sres & Hs & H).
    apply bind_Ok in H. destruct H as ([ls its] & Hc & H).
    destruct type_ as [|t0 type_]; [discriminate|]. injection H as <- <-. cbn [fst snd].
    destruct (collect_items_Ok _ _ _ Hc) as (rs & HF & -> & ->).
    pose proof (separate_complex_g_In o (fun a : value * res (list str * value) => fst a) c level _ _ Hs) as Hin.
    exists (t0 :: type_), head, (map (fun x => (fst x, fst (snd x))) sres), rs.
    split; [exact Hh|]. split; [discriminate|]. split; [|split; [|split]].
    - intros [k v]. rewrite in_map_iff. split.
      + intros ([k1 [v1 r1]] & E & Hx). cbn [fst snd] in E. injection E as -> ->.
        apply Hin in Hx. apply in_map_iff in Hx. destruct Hx as ([k2 v2] & E & Hx).
        cbn [fst snd] in E. injection E as -> -> _. exact Hx.
      + intros Hx.
        exists (k, (v, format_item o (fun x => _format o (S level) x) (t0 :: type_) (comments_of c items)
                                   level (aligned_of items) k v)).
        split; [reflexivity|]. apply Hin. apply in_map_iff. exists (k, v). split; [reflexivity|exact Hx].
    - assert (Hall : Forall (fun x => snd (snd x) =
                       format_item o (fun x => _format o (S level) x) (t0 :: type_) (comments_of c items)
                                   level (aligned_of items) (fst x) (fst (snd x))) sres).
      { apply Forall_forall. intros x Hx. apply Hin in Hx. apply in_map_iff in Hx.
        destruct Hx as ([k2 v2] & <- & _). reflexivity. }
      clear Hs Hc Hin. revert rs HF Hall. induction sres as [|x sres IH]; intros rs HF Hall.
      + inversion HF; subst. constructor.
      + inversion HF as [|? r ? rs' Hr HF']; subst. inversion Hall as [|? ? Hx Hall']; subst.
        cbn [map]. constructor; [|apply IH; assumption].
        cbn [fst snd]. rewrite <- Hx. exact Hr.
    - reflexivity.
    - rewrite map_map. cbn [fst]. reflexivity.
  Qed.

  (* the header, when the dict has no __comments__ *)
  Lemma format_header_inv c items comments level type_ head :
    format_header o c items comments level = Ok (type_, head) ->
    type_ <> [] ->
    exists tc, dict_getitem c (Str "__type__") items = Ok (VStr type_)
               /\ mem_str type_ all_composite_names = true
               /\ _add_type_comment o level comments = Ok tc
               /\ head = tc ++ [whitespace o level 0 ++ upper type_].
  Proof.
    unfold format_header. destruct (dict_in c (Str "__type__") items).
    - intros H Hne. apply bind_Ok in H. destruct H as (t & Ht & H).
      destruct t as [| | | |s| |]; try discriminate.
      destruct (mem_str s all_composite_names) eqn:Em; [|discriminate].
      apply bind_Ok in H. destruct H as (tc & Htc & H). injection H as <- <-.
      exists tc. repeat split; assumption.
    - intros [= <- <-] Hne. congruence.
  Qed.
End Fmt.
