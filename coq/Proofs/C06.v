(* C06: repeated OrderedDict.move_to_end is a stable partition. *)
From MF Require Import Lib.Base Lib.PyDict.

Section Partition.
  Context {A : Type}.
  Variable moved : str -> bool.
  Notation items := (list (str * A)).

  Definition move_all (ks : list str) (it : items) : items :=
    fold_left (fun acc k => if moved k then od_move_to_end k acc else acc) ks it.

  Definition nm (kv : str * A) : bool := negb (moved (fst kv)).
  Definition mv (kv : str * A) : bool := moved (fst kv).

  Lemma assoc_app_first (a r : items) k v :
    ~ In k (keys a) -> assoc k (a ++ (k, v) :: r) = Some v.
  Proof.
    intros Hn. rewrite assoc_app_notin by (apply assoc_None_notin; exact Hn).
    cbn [assoc]. rewrite str_eqb_refl. reflexivity.
  Qed.

  Lemma del_app_first (a r : items) k v :
    ~ In k (keys a) -> od_del k (a ++ (k, v) :: r) = a ++ r.
  Proof.
    induction a as [|[k' v'] a IH]; cbn [app od_del keys map fst In]; intros Hn.
    - rewrite str_eqb_refl. reflexivity.
    - destruct (str_eqb_spec k k') as [->|Hne]; [tauto|]. f_equal. apply IH. unfold keys in *. tauto.
  Qed.

  Lemma move_app_first (a r : items) k v :
    ~ In k (keys a) -> od_move_to_end k (a ++ (k, v) :: r) = a ++ r ++ [(k, v)].
  Proof.
    intros Hn. unfold od_move_to_end. rewrite (assoc_app_first a r k v Hn), (del_app_first a r k v Hn).
    rewrite app_assoc. reflexivity.
  Qed.

  Lemma keys_filter_incl (f : str * A -> bool) (l : items) k : In k (keys (filter f l)) -> In k (keys l).
  Proof.
    unfold keys. rewrite !in_map_iff. intros ((k', v) & <- & H). apply filter_In in H.
    exists (k', v). split; [reflexivity|tauto].
  Qed.

  Lemma move_all_inv (P Q : items) :
    NoDup (keys (P ++ Q)) ->
    move_all (keys Q) (filter nm P ++ Q ++ filter mv P) = filter nm (P ++ Q) ++ filter mv (P ++ Q).
  Proof.
    revert P; induction Q as [|[k v] Q IH]; intros P Hn.
    - cbn [keys map move_all fold_left]. rewrite !app_nil_r. reflexivity.
    - cbn [keys map fst move_all fold_left].
      assert (HkP : ~ In k (keys P)).
      { unfold keys in Hn. rewrite map_app in Hn. cbn [map fst] in Hn.
        apply NoDup_remove_2 in Hn. intros H. apply Hn. apply in_or_app. left. exact H. }
      assert (Hn' : NoDup (keys ((P ++ [(k, v)]) ++ Q))) by (rewrite <- app_assoc; exact Hn).
      specialize (IH (P ++ [(k, v)]) Hn').
      rewrite <- !app_assoc in IH. cbn [app] in IH.
      fold (move_all (keys Q)). cbn [app].
      destruct (moved k) eqn:Em.
      + assert (F1 : filter nm (P ++ [(k, v)]) = filter nm P).
        { rewrite filter_app. cbn [filter]. unfold nm at 2. cbn [fst]. rewrite Em. cbn [negb]. apply app_nil_r. }
        assert (F2 : filter mv (P ++ [(k, v)]) = filter mv P ++ [(k, v)]).
        { rewrite filter_app. cbn [filter]. unfold mv at 2. cbn [fst]. rewrite Em. reflexivity. }
        rewrite F1, F2 in IH.
        rewrite move_app_first by (intros H; apply HkP; eapply keys_filter_incl; exact H).
        rewrite <- !app_assoc. exact IH.
      + assert (F1 : filter nm (P ++ [(k, v)]) = filter nm P ++ [(k, v)]).
        { rewrite filter_app. cbn [filter]. unfold nm at 2. cbn [fst]. rewrite Em. reflexivity. }
        assert (F2 : filter mv (P ++ [(k, v)]) = filter mv P).
        { rewrite filter_app. cbn [filter]. unfold mv at 2. cbn [fst]. rewrite Em. apply app_nil_r. }
        rewrite F1, F2 in IH. rewrite <- !app_assoc in IH. cbn [app] in IH. exact IH.
  Qed.

  Theorem move_all_partition (it : items) :
    NoDup (keys it) -> move_all (keys it) it = filter nm it ++ filter mv it.
  Proof.
    intros Hn. pose proof (move_all_inv [] it Hn) as H. cbn [filter app] in H.
    rewrite app_nil_r in H. exact H.
  Qed.
End Partition.
