(* C09: reflection over the generated schema files (re-proved on every run
   against the current files).  Everything here is kernel evaluation plus the
   universal lemmas of Proofs/C09.v. *)
From MF Require Import Lib.Base Lib.Json Lib.PyDict Gen.Schemas Model.SchemaStore Model.Schema
  Model.Validator Spec.Versioned Proofs.C09.
Open Scope Z_scope.

(* ------------------------------------------------------------------ the bounds of the shipped schemas *)
Fixpoint jbounds (j : json) : list num :=
  match j with
  | JObj l => (fix go (l : list (str * json)) : list num :=
                 match l with
                 | [] => []
                 | (k, x) :: l' => (if is_bound_key k then bound_nums x else []) ++ jbounds x ++ go l'
                 end) l
  | JArr l => (fix go (l : list json) : list num :=
                 match l with [] => [] | x :: l' => jbounds x ++ go l' end) l
  | _ => []
  end.

Fixpoint insert_num (a : num) (l : list num) : list num :=
  match l with
  | [] => [a]
  | b :: l' => if num_eqb a b then l else if nltb a b then a :: l else b :: insert_num a l'
  end.

(* every number a version is ever compared with: the two defaults and the
   minVersion / maxVersion values of the schema files, in increasing order *)
Definition shipped_bounds : list num :=
  fold_right insert_num [] ((0, 0) :: (1, 3) :: flat_map (fun kv => jbounds (snd kv)) schema_files).

(* a number strictly between two decimals / below / above one *)
Definition mid (a b : num) : num :=
  let k := Z.min (snd a) (snd b) in
  ((fst a * 10 ^ (snd a - k) + fst b * 10 ^ (snd b - k)) * 5, k - 1).
Definition below (a : num) : num := (fst a * 10 - 1, snd a - 1).
Definition above (a : num) : num := (fst a * 10 + 1, snd a - 1).

Fixpoint with_gaps (l : list num) : list (num * num) :=
  match l with
  | [] => []
  | [b] => [(b, above b)]
  | b :: ((b' :: _) as l') => (b, mid b b') :: with_gaps l'
  end.

Definition shipped_g0 : num := match shipped_bounds with b :: _ => below b | [] => (0, 0) end.
Definition shipped_bs : list (num * num) := with_gaps shipped_bounds.
Definition shipped_B : list num := map fst shipped_bs.
Definition shipped_reps : list num := reps shipped_g0 shipped_bs.

Lemma shipped_chain : chain shipped_g0 shipped_bs = true.
Proof. vm_compute. reflexivity. Qed.

Lemma shipped_defaults : has_defaults shipped_B.
Proof. split; apply mem_num_In; vm_compute; reflexivity. Qed.

Lemma shipped_store_bounded : bounded_store shipped_B schema_files = true.
Proof. vm_compute. reflexivity. Qed.

(* every version has a representative among the 2|B|+1 that compares alike *)
Lemma shipped_rep v : exists r, In r shipped_reps /\ vsame shipped_B v r.
Proof.
  exists (rep v shipped_g0 shipped_bs). split; [apply rep_in|].
  apply rep_same. exact shipped_chain.
Qed.

Lemma file_bounded name root :
  assoc name schema_files = Some root -> entry_bounded shipped_B (mk_entry root schema_files).
Proof.
  intros H. split; cbn [e_root e_store]; [|exact shipped_store_bounded].
  eapply bounded_assoc; [exact shipped_store_bounded|exact H].
Qed.

(* ------------------------------------------------------------------ [F] the versioned schema of root map *)
Definition map_entry : entry := mk_entry schema_map schema_files.
Definition map_tree : json := expand schema_files schema_map.

Definition map_check (r : num) : bool :=
  match prune_entry r map_entry with
  | Ok e => json_eqb (entry_tree e) (tprune r map_tree)
  | Err _ => false
  end.

Lemma map_tree_bounded : bounded shipped_B map_tree = true.
Proof. vm_compute. reflexivity. Qed.

Lemma map_check_reps : forallb map_check shipped_reps = true.
Proof. vm_compute. reflexivity. Qed.

Lemma map_file : assoc (schema_file_name (Str "map")) schema_files = Some schema_map.
Proof. vm_compute. reflexivity. Qed.

Lemma map_check_rep (r : num) : In r shipped_reps -> map_check r = true.
Proof.
  intros Hin. pose proof map_check_reps as Hc. rewrite forallb_forall in Hc. exact (Hc r Hin).
Qed.

Lemma map_check_sound (r : num) :
  map_check r = true -> exists e, prune_entry r map_entry = Ok e /\ entry_tree e = tprune r map_tree.
Proof.
  unfold map_check. intros Hc.
  destruct (prune_entry r map_entry) as [e|]; [|discriminate].
  exists e. split; [reflexivity|]. apply json_eqb_eq. exact Hc.
Qed.

Lemma map_prune_param (v r : num) : vsame shipped_B v r -> prune_entry v map_entry = prune_entry r map_entry.
Proof.
  intros Hs. apply (prune_entry_param shipped_B v r map_entry shipped_defaults Hs).
  exact (file_bounded _ _ map_file).
Qed.

Lemma map_tprune_param (v r : num) : vsame shipped_B v r -> tprune v map_tree = tprune r map_tree.
Proof.
  intros Hs. exact (tprune_param shipped_B v r shipped_defaults Hs map_tree map_tree_bounded).
Qed.

Lemma map_pruned_tree (v : num) :
  exists e, prune_entry v map_entry = Ok e /\ entry_tree e = tprune v map_tree.
Proof.
  destruct (shipped_rep v) as (r & Hin & Hs).
  destruct (map_check_sound r (map_check_rep r Hin)) as (e & He & Ht).
  exists e. split.
  - rewrite (map_prune_param v r Hs). exact He.
  - rewrite (map_tprune_param v r Hs). exact Ht.
Qed.
