(* C09: reflection over the generated schema files (re-proved on every run
   against the current files).  Everything here is kernel evaluation plus the
   universal lemmas of Proofs/C09.v. *)
From MF Require Import Lib.Base Lib.Json Lib.PyDict Gen.Schemas Model.SchemaStore Model.Schema
  Model.Validator Spec.Versioned Proofs.C09.
Open Scope Z_scope.

(* ------------------------------------------------------------------ the bounds of the shipped schemas *)
Fixpoint jbounds (j : json) : list num :=
  match j with
  | JObj l => (fix go (l : list (str * json)) : list num :=
                 match l with
                 | [] => []
                 | (k, x) :: l' => (if is_bound_key k then bound_nums x else []) ++ jbounds x ++ go l'
                 end) l
  | JArr l => (fix go (l : list json) : list num :=
                 match l with [] => [] | x :: l' => jbounds x ++ go l' end) l
  | _ => []
  end.

Fixpoint insert_num (a : num) (l : list num) : list num :=
  match l with
  | [] => [a]
  | b :: l' => if num_eqb a b then l else if nltb a b then a :: l else b :: insert_num a l'
  end.

(* every number a version is ever compared with: the two defaults and the
   minVersion / maxVersion values of the schema files, in increasing order *)
Definition shipped_bounds : list num :=
  fold_right insert_num [] ((0, 0) :: (1, 3) :: flat_map (fun kv => jbounds (snd kv)) schema_files).

(* a number strictly between two decimals / below / above one *)
Definition mid (a b : num) : num :=
  let k := Z.min (snd a) (snd b) in
  ((fst a * 10 ^ (snd a - k) + fst b * 10 ^ (snd b - k)) * 5, k - 1).
Definition below (a : num) : num := (fst a * 10 - 1, snd a - 1).
Definition above (a : num) : num := (fst a * 10 + 1, snd a - 1).

Fixpoint with_gaps (l : list num) : list (num * num) :=
  match l with
  | [] => []
  | [b] => [(b, above b)]
  | b :: ((b' :: _) as l') => (b, mid b b') :: with_gaps l'
  end.

Definition shipped_g0 : num := match shipped_bounds with b :: _ => below b | [] => (0, 0) end.
Definition shipped_bs : list (num * num) := with_gaps shipped_bounds.
Definition shipped_B : list num := map fst shipped_bs.
Definition shipped_reps : list num := reps shipped_g0 shipped_bs.

Lemma shipped_chain : chain shipped_g0 shipped_bs = true.
Proof. vm_compute. reflexivity. Qed.

Lemma shipped_defaults : has_defaults shipped_B.
Proof. split; apply mem_num_In; vm_compute; reflexivity. Qed.

Lemma shipped_store_bounded : bounded_store shipped_B schema_files = true.
Proof. vm_compute. reflexivity. Qed.

(* every version has a representative among the 2|B|+1 that compares alike *)
Lemma shipped_rep v : exists r, In r shipped_reps /\ vsame shipped_B v r.
Proof.
  exists (rep v shipped_g0 shipped_bs). split; [apply rep_in|].
  apply rep_same. exact shipped_chain.
Qed.

Lemma file_bounded name root :
  assoc name schema_files = Some root -> entry_bounded shipped_B (mk_entry root schema_files).
Proof.
  intros H. split; cbn [e_root e_store]; [|exact shipped_store_bounded].
  eapply bounded_assoc; [exact shipped_store_bounded|exact H].
Qed.

(* ------------------------------------------------------------------ [F] the versioned schema of root map *)
Definition map_entry : entry := mk_entry schema_map schema_files.
Definition map_tree : json := expand schema_files schema_map.

Definition map_check (r : num) : bool :=
  match prune_entry r map_entry with
  | Ok e => json_eqb (entry_tree e) (tprune r map_tree)
  | Err _ => false
  end.

Lemma map_tree_bounded : bounded shipped_B map_tree = true.
Proof. vm_compute. reflexivity. Qed.

Lemma map_check_reps : forallb map_check shipped_reps = true.
Proof. vm_compute. reflexivity. Qed.

Lemma map_file : assoc (schema_file_name (Str "map")) schema_files = Some schema_map.
Proof. vm_compute. reflexivity. Qed.

Lemma map_check_rep (r : num) : In r shipped_reps -> map_check r = true.
Proof.
  intros Hin. pose proof map_check_reps as Hc. rewrite forallb_forall in Hc. exact (Hc r Hin).
Qed.

Lemma map_check_sound (r : num) :
  map_check r = true -> exists e, prune_entry r map_entry = Ok e /\ entry_tree e = tprune r map_tree.
Proof.
  unfold map_check. intros Hc.
  destruct (prune_entry r map_entry) as [e|]; [|discriminate].
  exists e. split; [reflexivity|]. apply json_eqb_eq. exact Hc.
Qed.

Lemma map_prune_param (v r : num) : vsame shipped_B v r -> prune_entry v map_entry = prune_entry r map_entry.
Proof.
  intros Hs. apply (prune_entry_param shipped_B v r map_entry shipped_defaults Hs).
  exact (file_bounded _ _ map_file).
Qed.

Lemma map_tprune_param (v r : num) : vsame shipped_B v r -> tprune v map_tree = tprune r map_tree.
Proof.
  intros Hs. exact (tprune_param shipped_B v r shipped_defaults Hs map_tree map_tree_bounded).
Qed.

Lemma map_pruned_tree (v : num) :
  exists e, prune_entry v map_entry = Ok e /\ entry_tree e = tprune v map_tree.
Proof.
  destruct (shipped_rep v) as (r & Hin & Hs).
  destruct (map_check_sound r (map_check_rep r Hin)) as (e & He & Ht).
  exists e. split.
  - rewrite (map_prune_param v r Hs). exact He.
  - rewrite (map_tprune_param v r Hs). exact Ht.
Qed.

(* ------------------------------------------------------------------ [F] pruning twice, every schema file *)
Definition entry_eqb (a b : entry) : bool :=
  json_eqb (e_root a) (e_root b) && json_eqb (JObj (e_store a)) (JObj (e_store b)).

Lemma entry_eqb_eq a b : entry_eqb a b = true -> a = b.
Proof.
  unfold entry_eqb. rewrite andb_true_iff. intros [H1 H2].
  apply json_eqb_eq in H1. apply json_eqb_eq in H2. destruct a, b. cbn in *. congruence.
Qed.

(* Err is allowed for the first pruning only (files without "properties": KeyError) *)
Definition idem_check (root : json) (r : num) : bool :=
  match prune_entry r (mk_entry root schema_files) with
  | Ok e1 => match prune_entry r e1 with Ok e2 => entry_eqb e1 e2 | Err _ => false end
  | Err x => match x with PyKeyError => true | _ => false end
  end.

Lemma idem_check_all :
  forallb (fun kv => forallb (idem_check (snd kv)) shipped_reps) schema_files = true.
Proof. vm_compute. reflexivity. Qed.

Lemma idem_check_rep name root r :
  assoc name schema_files = Some root -> In r shipped_reps -> idem_check root r = true.
Proof.
  intros Ha Hr. pose proof idem_check_all as H. rewrite forallb_forall in H.
  specialize (H _ (assoc_Some_in _ _ _ Ha)). cbn [snd] in H. rewrite forallb_forall in H. exact (H r Hr).
Qed.

Lemma idem_check_sound root r e1 :
  idem_check root r = true -> prune_entry r (mk_entry root schema_files) = Ok e1 -> prune_entry r e1 = Ok e1.
Proof.
  unfold idem_check. intros H E. rewrite E in H.
  destruct (prune_entry r e1) as [e2|]; [|discriminate]. apply entry_eqb_eq in H. congruence.
Qed.

Lemma only_key_error root r x :
  idem_check root r = true -> prune_entry r (mk_entry root schema_files) = Err x -> x = PyKeyError.
Proof. unfold idem_check. intros H E. rewrite E in H. destruct x; try discriminate. reflexivity. Qed.

(* for EVERY version and every schema file *)
Lemma prune_idem_shipped name root (v : num) e1 :
  assoc name schema_files = Some root ->
  prune_entry v (mk_entry root schema_files) = Ok e1 -> prune_entry v e1 = Ok e1.
Proof.
  intros Ha E. destruct (shipped_rep v) as (r & Hin & Hs).
  pose proof (file_bounded _ _ Ha) as Hb0.
  rewrite (prune_entry_param shipped_B v r _ shipped_defaults Hs Hb0) in E.
  pose proof (prune_entry_bounded shipped_B r _ _ Hb0 E) as Hb1.
  rewrite (prune_entry_param shipped_B v r e1 shipped_defaults Hs Hb1).
  eapply idem_check_sound; [eapply idem_check_rep; eassumption|exact E].
Qed.

Lemma prune_total_shipped name root (v : num) x :
  assoc name schema_files = Some root ->
  prune_entry v (mk_entry root schema_files) = Err x -> x = PyKeyError.
Proof.
  intros Ha E. destruct (shipped_rep v) as (r & Hin & Hs).
  rewrite (prune_entry_param shipped_B v r _ shipped_defaults Hs (file_bounded _ _ Ha)) in E.
  eapply only_key_error; [eapply idem_check_rep; eassumption|exact E].
Qed.

(* ------------------------------------------------------------------ a fresh Validator *)
Lemma gvs_fresh name (v : vnum) root :
  assoc (schema_file_name name) schema_files = Some root -> vtruthy (Some v) = true ->
  fst (get_versioned_schema schema_files (Some v) name init_state)
  = prune_entry (vnum_num v) (mk_entry root schema_files).
Proof.
  intros Ha Ht.
  destruct (gvs_inv schema_files (fun n r v e1 => prune_idem_shipped _ r v e1) [] init_state name (Some v)
                    (Inv_init schema_files []) (fun q H => match H with end)) as (A & _ & _).
  rewrite A. unfold fresh_gvs, load. rewrite Ha, Ht. reflexivity.
Qed.

(* the cache-key side condition is needed: "hex" + str(2) = "hex2" *)
Definition collision_calls : list call :=
  [CVersioned (Some (NInt 2)) (Str "hex"); CVersioned None (Str "hex2")].

Lemma collision_witness :
  nth_error (run schema_files init_state collision_calls) 1
  <> Some (fresh schema_files (CVersioned None (Str "hex2"))).
Proof. vm_compute. intros H. discriminate H. Qed.

Lemma collision_keys :
  cache_key (Str "hex") (Some (NInt 2)) = cache_key (Str "hex2") None.
Proof. vm_compute. reflexivity. Qed.

(* ------------------------------------------------------------------ statements about a fresh Validator on root map *)
Lemma map_versioned_tree (v : vnum) :
  vtruthy (Some v) = true ->
  exists e, fst (get_versioned_schema schema_files (Some v) (Str "map") init_state) = Ok e /\
            entry_tree e = tprune (vnum_num v) (expand schema_files schema_map).
Proof.
  intros Ht. rewrite (gvs_fresh (Str "map") v schema_map map_file Ht).
  exact (map_pruned_tree (vnum_num v)).
Qed.

Lemma map_validator_tree (v : vnum) :
  vtruthy (Some v) = true ->
  fst (validator_tree schema_files (Str "map") (Some v) init_state)
  = Ok (tprune (vnum_num v) (expand schema_files schema_map)).
Proof.
  intros Ht. destruct (map_versioned_tree v Ht) as (e & He & Htree).
  unfold validator_tree. rewrite Ht.
  destruct (get_versioned_schema schema_files (Some v) (Str "map") init_state) as [[e'|x] s1];
    cbn [fst] in *; [|discriminate]. injection He as ->. rewrite Htree. reflexivity.
Qed.

Lemma map_versionless_tree (ver : option vnum) :
  vtruthy ver = false ->
  fst (validator_tree schema_files (Str "map") ver init_state) = Ok (expand schema_files schema_map).
Proof.
  intros Hf.
  destruct (vtree_inv schema_files (fun n r v e1 => prune_idem_shipped _ r v e1) [] init_state (Str "map") ver
                      (Inv_init schema_files []) (fun q H => match H with end)) as [A _].
  rewrite A. unfold fresh_tree. rewrite Hf, map_file. reflexivity.
Qed.

(* reading lemma for the declarative pruning: an object-valued entry of an
   object stays exactly when its range contains the version *)
Lemma tprune_obj_cons v k x l :
  tprune v (JObj ((k, x) :: l)) =
  match tprune v (JObj l) with
  | JObj l' => if is_obj x && negb (in_range v x) then JObj l' else JObj ((k, tprune v x) :: l')
  | other => other
  end.
Proof. cbn [tprune]. destruct (is_obj x && negb (in_range v x)); reflexivity. Qed.

Lemma tprune_arr_cons v x l :
  tprune v (JArr (x :: l)) =
  match tprune v (JArr l) with
  | JArr l' => if is_obj x && negb (in_range v x) then JArr l' else JArr (tprune v x :: l')
  | other => other
  end.
Proof. cbn [tprune]. destruct (is_obj x && negb (in_range v x)); reflexivity. Qed.

Lemma collision_not_free : ~ collision_free (map call_pair collision_calls).
Proof.
  intros H.
  assert (E : (Str "hex", Some (NInt 2)) = (Str "hex2", @None vnum)).
  { apply H; [left; reflexivity|right; left; reflexivity|]. exact collision_keys. }
  discriminate E.
Qed.

(* ------------------------------------------------------------------ [F] prune_spec on the generated files *)
Definition map_properties : json :=
  match jget Validator.K_properties schema_map with Some p => p | None => JNull end.
Definition reach_fuel : nat := (40 * length schema_files)%nat.
Definition spec_root (v : num) : json :=
  match schema_map with
  | JObj items => JObj (od_set Validator.K_properties (lprune schema_files v map_properties) items)
  | other => other
  end.

Definition spec_check (r : num) : bool :=
  match prune_entry r map_entry with
  | Ok e => json_eqb (JObj (e_store e)) (JObj (pruned_store schema_files r map_properties reach_fuel))
            && json_eqb (e_root e) (spec_root r)
  | Err _ => false
  end.

Lemma spec_check_reps : forallb spec_check shipped_reps = true.
Proof. vm_compute. reflexivity. Qed.

Lemma map_properties_bounded : bounded shipped_B map_properties = true.
Proof. vm_compute. reflexivity. Qed.

Lemma spec_check_rep (r : num) : In r shipped_reps -> spec_check r = true.
Proof.
  intros Hin. pose proof spec_check_reps as Hc. rewrite forallb_forall in Hc. exact (Hc r Hin).
Qed.

Lemma spec_check_sound (r : num) e :
  spec_check r = true -> prune_entry r map_entry = Ok e ->
  e_store e = pruned_store schema_files r map_properties reach_fuel /\ e_root e = spec_root r.
Proof.
  unfold spec_check. intros Hc He. rewrite He in Hc. rewrite andb_true_iff in Hc. destruct Hc as [H1 H2].
  apply json_eqb_eq in H1. apply json_eqb_eq in H2. split; [congruence|exact H2].
Qed.

Lemma spec_root_param (v r : num) : vsame shipped_B v r -> spec_root v = spec_root r.
Proof.
  intros Hs. unfold spec_root.
  rewrite (lprune_param shipped_B schema_files v r shipped_defaults Hs shipped_store_bounded _ map_properties_bounded).
  reflexivity.
Qed.

(* for EVERY version: which files the traversal prunes and what it does to each *)
Lemma prune_spec_shipped (v : num) e :
  prune_entry v map_entry = Ok e ->
  e_store e = pruned_store schema_files v map_properties reach_fuel /\ e_root e = spec_root v.
Proof.
  intros He. destruct (shipped_rep v) as (r & Hin & Hs).
  rewrite (map_prune_param v r Hs) in He.
  destruct (spec_check_sound r e (spec_check_rep r Hin) He) as [H1 H2].
  rewrite (pruned_store_param shipped_B schema_files v r _ _ shipped_defaults Hs shipped_store_bounded).
  rewrite (spec_root_param v r Hs). auto.
Qed.

(* the files reached through object values only from map's "properties", and
   the block files left alone (none of them carries an annotation that matters:
   see map_check_reps, which compares with the everywhere-pruned tree) *)
Definition map_reached : list str := reach schema_files reach_fuel (dict_refs map_properties) [].

(* every file of the map schema that carries an annotation inside is reached through
   object values only (so it is pruned although some referrers sit in lists) *)
Fixpoint all_refs (j : json) : list str :=
  match j with
  | JObj l =>
      match ref_of j with
      | Some f => [f]
      | None => (fix go (l : list (str * json)) : list str :=
                   match l with [] => [] | (_, x) :: l' => all_refs x ++ go l' end) l
      end
  | JArr l => (fix go (l : list json) : list str :=
                 match l with [] => [] | x :: l' => all_refs x ++ go l' end) l
  | _ => []
  end.

Fixpoint reach_all (n : nat) (todo seen : list str) : list str :=
  match n with
  | O => seen
  | S n' =>
      match todo with
      | [] => seen
      | f :: todo' =>
          if mem_str f seen then reach_all n' todo' seen
          else match assoc f schema_files with
               | Some c => reach_all n' (all_refs c ++ todo') (f :: seen)
               | None => reach_all n' todo' seen
               end
      end
  end.

Definition map_reached_all : list str := reach_all reach_fuel (all_refs schema_map) [].
(* an annotation below the file's own root (the root's own metadata is judged
   where the file is referred to, not inside it) *)
Definition inner_bounds (c : json) : list num :=
  match c with
  | JObj l => flat_map (fun kv => if str_eqb (fst kv) K_metadata then [] else jbounds (snd kv)) l
  | _ => []
  end.
Definition file_annotated (f : str) : bool :=
  match assoc f schema_files with Some c => negb (is_nil (inner_bounds c)) | None => false end.

Lemma all_blocks_dict_reachable :
  forallb (fun f => negb (file_annotated f) || mem_str f map_reached) map_reached_all = true /\
  existsb file_annotated map_reached_all = true.
Proof. split; vm_compute; reflexivity. Qed.
