(* C07: validation verdict equals the schema's verdict.  Lemmas; the property
   theorems are in Props/C07.v. *)
From MF Require Import Lib.Base Lib.Json Lib.PyDict Gen.Tokens Model.Case Model.OrderedDict
  Model.SchemaStore Model.Schema Model.Validator Spec.Versioned Spec.Draft4.
Open Scope Z_scope.

(* ------------------------------------------------------------------ list facts *)
Lemma is_nil_app {A} (a b : list A) : is_nil (a ++ b) = is_nil a && is_nil b.
Proof. destruct a; reflexivity. Qed.

Lemma is_nil_map {A B} (f : A -> B) l : is_nil (map f l) = is_nil l.
Proof. destruct l; reflexivity. Qed.

Lemma is_nil_flat_map {A B} (f : A -> list B) l : is_nil (flat_map f l) = forallb (fun x => is_nil (f x)) l.
Proof. induction l as [|x l IH]; [reflexivity|]. cbn [flat_map forallb]. rewrite is_nil_app, IH. reflexivity. Qed.

Lemma is_nil_if {A} (c : bool) (l : list A) : is_nil (if c then [] else l) = c || is_nil l.
Proof. destruct c; reflexivity. Qed.

Lemma is_nil_here kw : is_nil (here kw) = false.
Proof. reflexivity. Qed.

Lemma loop_pairs {A B C} (E : A -> B -> list C) (l : list (A * B)) :
  (fix loop (l : list (A * B)) : list C :=
     match l with [] => [] | (k, v) :: l' => E k v ++ loop l' end) l
  = flat_map (fun p => E (fst p) (snd p)) l.
Proof. induction l as [|[k v] l IH]; [reflexivity|]. cbn [flat_map fst snd]. rewrite <- IH. reflexivity. Qed.

Lemma loop_pairs_and {A B} (E : A -> B -> bool) (l : list (A * B)) :
  (fix loop (l : list (A * B)) : bool :=
     match l with [] => true | (k, v) :: l' => E k v && loop l' end) l
  = forallb (fun p => E (fst p) (snd p)) l.
Proof. induction l as [|[k v] l IH]; [reflexivity|]. cbn [forallb fst snd]. rewrite <- IH. reflexivity. Qed.

(* ------------------------------------------------------------------ unfolding *)
Lemma ierr_unfold kws j :
  ierr (JObj kws) j = flat_map (fun p => kw_errs ierr (fst p) (snd p) kws j) kws.
Proof. exact (loop_pairs (fun k v => kw_errs ierr k v kws j) kws). Qed.

Lemma wf_unfold kws :
  wf_schema (JObj kws) = forallb (fun p => kw_wf wf_schema (fst p) (snd p) kws) kws.
Proof. exact (loop_pairs_and (fun k v => kw_wf wf_schema k v kws) kws). Qed.

(* the body of Spec.Draft4.conforms, with the recursive occurrences abstracted *)
Section Holds.
  Variable matches : str -> str -> bool.
  Variable rec : json -> json -> bool.
  Definition kw_holds (k : str) (v : json) (schema : list (str * json)) (j : json) : bool :=
                 if str_eqb k (Str "type") then
                   match v with
                   | JStr t => has_type t j
                   | JArr ts => existsb (fun t => match t with JStr t => has_type t j | _ => false end) ts
                   | _ => true
                   end
                 else if str_eqb k (Str "enum") then
                   match v with JArr ms => existsb (fun m => same_scalar m j) ms | _ => true end
                 else if str_eqb k (Str "minimum") then
                   match json_dnum j, json_dnum v with
                   | Some x, Some m =>
                       if is_true (assoc (Str "exclusiveMinimum") schema) then negb (dle x m) else dle m x
                   | _, _ => true
                   end
                 else if str_eqb k (Str "maximum") then
                   match json_dnum j, json_dnum v with
                   | Some x, Some m =>
                       if is_true (assoc (Str "exclusiveMaximum") schema) then negb (dle m x) else dle x m
                   | _, _ => true
                   end
                 else if str_eqb k (Str "minItems") then
                   match j, v with JArr xs, JInt n => n <=? Z.of_nat (length xs) | _, _ => true end
                 else if str_eqb k (Str "maxItems") then
                   match j, v with JArr xs, JInt n => Z.of_nat (length xs) <=? n | _, _ => true end
                 else if str_eqb k (Str "minLength") then
                   match j, v with JStr cs, JInt n => n <=? Z.of_nat (length cs) | _, _ => true end
                 else if str_eqb k (Str "maxLength") then
                   match j, v with JStr cs, JInt n => Z.of_nat (length cs) <=? n | _, _ => true end
                 else if str_eqb k (Str "pattern") then
                   match j, v with JStr cs, JStr p => matches p cs | _, _ => true end
                 else if str_eqb k (Str "required") then
                   match j, v with
                   | JObj obj, JArr names =>
                       forallb (fun n => match n with JStr n => member n obj | _ => true end) names
                   | _, _ => true
                   end
                 else if str_eqb k (Str "properties") then
                   match j, v with
                   | JObj obj, JObj props =>
                       forallb (fun ps => match ps with
                                          | (p, sub) => match assoc p obj with
                                                        | Some x => rec sub x
                                                        | None => true
                                                        end
                                          end) props
                   | _, _ => true
                   end
                 else if str_eqb k (Str "patternProperties") then
                   match j, v with
                   | JObj obj, JObj pps =>
                       forallb (fun ps => match ps with
                                          | (p, sub) =>
                                              forallb (fun m => negb (matches p (fst m)) || rec sub (snd m)) obj
                                          end) pps
                   | _, _ => true
                   end
                 else if str_eqb k (Str "additionalProperties") then
                   match j with
                   | JObj obj =>
                       match v with
                       | JBool false => match additional_members matches schema obj with [] => true | _ => false end
                       | JObj _ => forallb (fun m => rec v (snd m)) (additional_members matches schema obj)
                       | _ => true
                       end
                   | _ => true
                   end
                 else if str_eqb k (Str "items") then
                   match j with
                   | JArr xs =>
                       match v with
                       | JObj _ => forallb (fun x => rec v x) xs
                       | JArr subs =>
                           (fix positional (subs : list json) (xs : list json) : bool :=
                              match subs, xs with
                              | sub :: subs', x :: xs' => rec sub x && positional subs' xs'
                              | _, _ => true
                              end) subs xs
                       | _ => true
                       end
                   | _ => true
                   end
                 else if str_eqb k (Str "allOf") then
                   match v with JArr subs => forallb (fun sub => rec sub j) subs | _ => true end
                 else if str_eqb k (Str "anyOf") then
                   match v with JArr subs => existsb (fun sub => rec sub j) subs | _ => true end
                 else if str_eqb k (Str "oneOf") then
                   match v with
                   | JArr subs => Nat.eqb (count_true (map (fun sub => rec sub j) subs)) 1
                   | _ => true
                   end
                 else if str_eqb k (Str "not") then negb (rec v j)
                 else true.
End Holds.

Lemma conforms_unfold m schema j :
  conforms m (JObj schema) j
  = forallb (fun kv => match kv with (k, v) => kw_holds m (conforms m) k v schema j end) schema.
Proof. reflexivity. Qed.

(* ------------------------------------------------------------------ sizes (for the induction) *)
Lemma jsize_obj_in k v l : In (k, v) l -> (jsize v < jsize (JObj l))%nat.
Proof.
  intros H. cbn [jsize]. induction l as [|[k' x] l IH]; [destruct H|].
  destruct H as [[= -> ->]|H]; [lia|]. specialize (IH H). lia.
Qed.

Lemma jsize_arr_in x l : In x l -> (jsize x < jsize (JArr l))%nat.
Proof.
  intros H. cbn [jsize]. induction l as [|y l IH]; [destruct H|].
  destruct H as [->|H]; [lia|]. specialize (IH H). lia.
Qed.

(* ------------------------------------------------------------------ keyword by keyword *)
Section Equiv.
  Notation E := ierr.
  Notation C := (conforms rx_search).

  Definition agrees (sub : json) : Prop :=
    wf_schema sub = true -> forall x, is_nil (E sub x) = C sub x.

  Lemma L_props props inst :
    props_wf wf_schema props = true -> (forall p sub, In (p, sub) props -> agrees sub) ->
    is_nil (props_errs E props inst)
    = forallb (fun ps => match ps with
                         | (p, sub) => match assoc p inst with Some x => C sub x | None => true end
                         end) props.
  Proof.
    induction props as [|[p sub] props IH]; intros Hwf H; [reflexivity|].
    cbn [props_wf] in Hwf. rewrite andb_true_iff in Hwf. destruct Hwf as [Hw1 Hw2].
    cbn [props_errs forallb]. rewrite is_nil_app.
    change ((fix ploop (ps : list (str * json)) : list verr :=
               match ps with
               | [] => []
               | (pk, sub0) :: ps' =>
                   match assoc pk inst with
                   | Some x => map (push (PKey pk)) (E sub0 x)
                   | None => []
                   end ++ ploop ps'
               end) props) with (props_errs E props inst).
    rewrite (IH Hw2 (fun p' s' Hin => H p' s' (or_intror Hin))).
    destruct (assoc p inst) as [x|]; [|reflexivity].
    rewrite is_nil_map, (H p sub (or_introl eq_refl) Hw1). reflexivity.
  Qed.

  Lemma L_members pat sub inst :
    agrees sub -> wf_schema sub = true ->
    is_nil ((fix mloop (ms : list (str * json)) : list verr :=
               match ms with
               | [] => []
               | (mk, x) :: ms' =>
                   (if rx_search pat mk then map (push (PKey mk)) (E sub x) else []) ++ mloop ms'
               end) inst)
    = forallb (fun m => negb (rx_search pat (fst m)) || C sub (snd m)) inst.
  Proof.
    intros H Hw. induction inst as [|[mk x] inst IH]; [reflexivity|].
    cbn [forallb fst snd]. rewrite is_nil_app, IH.
    destruct (rx_search pat mk); cbn [negb orb]; [|reflexivity].
    rewrite is_nil_map, (H Hw). reflexivity.
  Qed.

  Lemma L_pprops pps inst :
    pprops_wf wf_schema pps = true -> (forall p sub, In (p, sub) pps -> agrees sub) ->
    is_nil (pprops_errs E pps inst)
    = forallb (fun ps => match ps with
                         | (p, sub) => forallb (fun m => negb (rx_search p (fst m)) || C sub (snd m)) inst
                         end) pps.
  Proof.
    induction pps as [|[p sub] pps IH]; intros Hwf H; [reflexivity|].
    cbn [pprops_wf] in Hwf. rewrite !andb_true_iff in Hwf. destruct Hwf as [[_ Hw1] Hw2].
    cbn [pprops_errs forallb]. rewrite is_nil_app.
    rewrite (L_members p sub inst (H p sub (or_introl eq_refl)) Hw1).
    f_equal. apply (IH Hw2 (fun p' s' Hin => H p' s' (or_intror Hin))).
  Qed.

  Lemma L_addl v extras :
    (forall x, is_nil (E v x) = C v x) ->
    is_nil (addl_errs E v extras) = forallb (fun m => C v (snd m)) extras.
  Proof.
    intros H. induction extras as [|[mk x] extras IH]; [reflexivity|].
    cbn [addl_errs forallb snd]. rewrite is_nil_app, is_nil_map, H. f_equal. exact IH.
  Qed.

  Lemma L_items_from v xs i :
    (forall x, is_nil (E v x) = C v x) ->
    is_nil ((fix iloop (xs : list json) (i : N) : list verr :=
               match xs with
               | [] => []
               | x :: xs' => map (push (PIdx i)) (E v x) ++ iloop xs' (N.succ i)
               end) xs i)
    = forallb (fun x => C v x) xs.
  Proof.
    intros H. revert i. induction xs as [|x xs IH]; intros i; [reflexivity|].
    cbn [forallb]. rewrite is_nil_app, is_nil_map, H, IH. reflexivity.
  Qed.

  Lemma L_tuple_from subs xs i :
    all_wf wf_schema subs = true -> (forall sub, In sub subs -> agrees sub) ->
    is_nil ((fix zloop (subs : list json) (xs : list json) (i : N) : list verr :=
               match subs, xs with
               | sub :: subs', x :: xs' => map (push (PIdx i)) (E sub x) ++ zloop subs' xs' (N.succ i)
               | _, _ => []
               end) subs xs i)
    = (fix positional (subs : list json) (xs : list json) : bool :=
         match subs, xs with
         | sub :: subs', x :: xs' => C sub x && positional subs' xs'
         | _, _ => true
         end) subs xs.
  Proof.
    revert xs i. induction subs as [|sub subs IH]; intros xs i Hwf H; [reflexivity|].
    cbn [all_wf] in Hwf. rewrite andb_true_iff in Hwf. destruct Hwf as [Hw1 Hw2].
    destruct xs as [|x xs]; [reflexivity|].
    rewrite is_nil_app, is_nil_map, (H sub (or_introl eq_refl) Hw1).
    f_equal. apply (IH xs (N.succ i) Hw2 (fun s' Hin => H s' (or_intror Hin))).
  Qed.

  Lemma L_allof subs j :
    all_wf wf_schema subs = true -> (forall sub, In sub subs -> agrees sub) ->
    is_nil (allof_errs E subs j) = forallb (fun sub => C sub j) subs.
  Proof.
    induction subs as [|sub subs IH]; intros Hwf H; [reflexivity|].
    cbn [all_wf] in Hwf. rewrite andb_true_iff in Hwf. destruct Hwf as [Hw1 Hw2].
    cbn [allof_errs forallb]. rewrite is_nil_app, (H sub (or_introl eq_refl) Hw1).
    f_equal. apply (IH Hw2 (fun s' Hin => H s' (or_intror Hin))).
  Qed.

  Lemma L_any subs j :
    all_wf wf_schema subs = true -> (forall sub, In sub subs -> agrees sub) ->
    any_valid E subs j = existsb (fun sub => C sub j) subs.
  Proof.
    induction subs as [|sub subs IH]; intros Hwf H; [reflexivity|].
    cbn [all_wf] in Hwf. rewrite andb_true_iff in Hwf. destruct Hwf as [Hw1 Hw2].
    cbn [any_valid existsb]. rewrite (H sub (or_introl eq_refl) Hw1).
    destruct (C sub j); cbn [orb]; [reflexivity|].
    apply (IH Hw2 (fun s' Hin => H s' (or_intror Hin))).
  Qed.

  Lemma L_flags subs j :
    all_wf wf_schema subs = true -> (forall sub, In sub subs -> agrees sub) ->
    valid_flags E subs j = map (fun sub => C sub j) subs.
  Proof.
    induction subs as [|sub subs IH]; intros Hwf H; [reflexivity|].
    cbn [all_wf] in Hwf. rewrite andb_true_iff in Hwf. destruct Hwf as [Hw1 Hw2].
    cbn [valid_flags map]. rewrite (H sub (or_introl eq_refl) Hw1).
    f_equal. apply (IH Hw2 (fun s' Hin => H s' (or_intror Hin))).
  Qed.

  (* jsonschema's oneOf loop accepts exactly when one alternative is valid *)
  Lemma count_true_0 l : Nat.eqb (count_true l) 0 = negb (existsb (fun b => b) l).
  Proof.
    induction l as [|b l IH]; [reflexivity|]. cbn [count_true existsb].
    destruct b; cbn [orb negb]; [reflexivity|exact IH].
  Qed.

  Lemma oneof_count l : oneof_ok l = Nat.eqb (count_true l) 1.
  Proof.
    induction l as [|b l IH]; [reflexivity|]. cbn [oneof_ok count_true].
    destruct b; [|exact IH]. rewrite <- count_true_0. reflexivity.
  Qed.

  Lemma od_mem_mem_str {A} k (l : list (str * A)) : od_mem k l = mem_str k (map fst l).
  Proof.
    induction l as [|[k' v] l IH]; [reflexivity|]. cbn [od_mem mem_str map fst]. rewrite IH. reflexivity.
  Qed.

  Lemma find_additional_spec kws inst : find_additional kws inst = additional_members rx_search kws inst.
  Proof.
    unfold find_additional, additional_members.
    unfold Schema.K_properties, Schema.K_patternProperties.
    apply filter_ext. intros [mk x]. cbn [fst].
    f_equal. f_equal. destruct (assoc (Str "properties") kws) as [[| | | | | |p]|]; try reflexivity.
    apply od_mem_mem_str.
  Qed.
End Equiv.

(* ------------------------------------------------------------------ leaf keywords *)
From MF Require Import Proofs.C09.

Lemma is_nil_if_here {A} (c : bool) (l : list A) : l <> [] -> is_nil (if c then l else []) = negb c.
Proof. destruct c, l; cbn; congruence. Qed.

Lemma is_nil_if_else (c : bool) kw : is_nil (if c then [] else here kw) = c.
Proof. destruct c; reflexivity. Qed.

Lemma is_type_has_type t j : is_type t j = has_type t j.
Proof.
  unfold is_type.
  destruct (str_eqb t (Str "array")) eqn:E1; [apply str_eqb_eq in E1; subst; destruct j; reflexivity|].
  destruct (str_eqb t (Str "boolean")) eqn:E2; [apply str_eqb_eq in E2; subst; destruct j; reflexivity|].
  destruct (str_eqb t (Str "integer")) eqn:E3; [apply str_eqb_eq in E3; subst; destruct j; reflexivity|].
  destruct (str_eqb t (Str "null")) eqn:E4; [apply str_eqb_eq in E4; subst; destruct j; reflexivity|].
  destruct (str_eqb t (Str "number")) eqn:E5; [apply str_eqb_eq in E5; subst; destruct j; reflexivity|].
  destruct (str_eqb t (Str "object")) eqn:E6; [apply str_eqb_eq in E6; subst; destruct j; reflexivity|].
  destruct (str_eqb t (Str "string")) eqn:E7; [apply str_eqb_eq in E7; subst; destruct j; reflexivity|].
  destruct j; cbn [has_type]; rewrite ?E1, ?E2, ?E3, ?E4, ?E5, ?E6, ?E7; reflexivity.
Qed.

Lemma type_list_exists l j :
  existsb (fun t => is_type t j) (flat_map (fun x => match x with JStr t => [t] | _ => [] end) l)
  = existsb (fun t => match t with JStr t => has_type t j | _ => false end) l.
Proof.
  induction l as [|x l IH]; [reflexivity|]. cbn [flat_map existsb]. rewrite existsb_app, IH.
  destruct x; cbn [existsb orb]; try reflexivity. rewrite is_type_has_type, orb_false_r. reflexivity.
Qed.

Lemma neqb_dle a b : neqb a b = dle a b && dle b a.
Proof.
  unfold neqb, dle, ncmp. rewrite (Z.min_comm (snd b) (snd a)).
  set (x := fst a * 10 ^ (snd a - Z.min (snd a) (snd b))).
  set (y := fst b * 10 ^ (snd b - Z.min (snd a) (snd b))).
  destruct (Z.compare_spec x y) as [H|H|H]; symmetry.
  - rewrite andb_true_iff, !Z.leb_le. lia.
  - rewrite andb_false_iff, !Z.leb_gt. lia.
  - rewrite andb_false_iff, !Z.leb_gt. lia.
Qed.

Lemma jequal_same m j : jequal m j = same_scalar m j.
Proof.
  destruct m, j; try reflexivity; cbn [jequal same_scalar json_dnum jnum]; apply neqb_dle.
Qed.

Lemma existsb_ext' {A} (f g : A -> bool) l : (forall x, f x = g x) -> existsb f l = existsb g l.
Proof. intros H. induction l as [|x l IH]; [reflexivity|]. cbn [existsb]. rewrite H, IH. reflexivity. Qed.

Lemma forallb_ext' {A} (f g : A -> bool) l : (forall x, f x = g x) -> forallb f l = forallb g l.
Proof. intros H. induction l as [|x l IH]; [reflexivity|]. cbn [forallb]. rewrite H, IH. reflexivity. Qed.

Lemma member_od_mem k (l : list (str * json)) : od_mem k l = member k l.
Proof. unfold member. apply od_mem_assoc. Qed.

(* evaluate the comparisons between two literal keyword names *)
Ltac ev_goal :=
  repeat match goal with
         | |- context [str_eqb ?a ?b] =>
             let r := eval vm_compute in (str_eqb a b) in
             lazymatch r with
             | true => change (str_eqb a b) with true
             | false => change (str_eqb a b) with false
             end
         end.
Ltac ev_in H :=
  repeat match type of H with
         | context [str_eqb ?a ?b] =>
             let r := eval vm_compute in (str_eqb a b) in
             lazymatch r with
             | true => change (str_eqb a b) with true in H
             | false => change (str_eqb a b) with false in H
             end
         end.

Ltac unfold_keys :=
  unfold Schema.K_type, K_enum, K_items, K_minimum, K_maximum, K_exclusiveMinimum, K_exclusiveMaximum,
    K_minItems, K_maxItems, K_minLength, K_maxLength, K_pattern, Schema.K_properties, K_patternProperties,
    K_additionalProperties, K_required, K_oneOf, K_anyOf, K_allOf, K_not in *.

Section Dispatch.
  Notation E := ierr.
  Notation C := (conforms rx_search).

  Lemma kw_equiv k v kws j :
    kw_wf wf_schema k v kws = true ->
    (forall sub, (jsize sub <= jsize v)%nat -> agrees sub) ->
    is_nil (kw_errs E k v kws j) = kw_holds rx_search C k v kws j.
  Proof.
    intros Hwf IH.
    assert (IHv : wf_schema v = true -> forall x, is_nil (E v x) = C v x) by (apply IH; lia).
    assert (IHo : forall l p sub, v = JObj l -> In (p, sub) l -> agrees sub).
    { intros l p sub -> Hin. apply IH. apply Nat.lt_le_incl. eapply jsize_obj_in; exact Hin. }
    assert (IHa : forall l sub, v = JArr l -> In sub l -> agrees sub).
    { intros l sub -> Hin. apply IH. apply Nat.lt_le_incl. eapply jsize_arr_in; exact Hin. }
    unfold kw_errs, kw_holds, kw_wf, leaf_errs, leaf_wf in *. unfold_keys.
    destruct (str_eqb k (Str "properties")) eqn:K1.
    { apply str_eqb_eq in K1. subst k. ev_goal. cbn [orb].
      destruct v as [| | | | | |props]; try discriminate. destruct j as [| | | | | |inst]; try reflexivity.
      apply L_props; [exact Hwf|]. intros p sub Hin. exact (IHo props p sub eq_refl Hin). }
    destruct (str_eqb k (Str "patternProperties")) eqn:K2.
    { apply str_eqb_eq in K2. subst k. ev_goal.
      destruct v as [| | | | | |pps]; try discriminate. destruct j as [| | | | | |inst]; try reflexivity.
      apply L_pprops; [exact Hwf|]. intros p sub Hin. exact (IHo pps p sub eq_refl Hin). }
    destruct (str_eqb k (Str "additionalProperties")) eqn:K3.
    { apply str_eqb_eq in K3. subst k. ev_goal.
      destruct v as [|b| | | | |sch]; try discriminate.
      - destruct j as [| | | | | |inst]; try reflexivity.
        destruct b; [reflexivity|].
        rewrite is_nil_if_else, find_additional_spec.
        destruct (additional_members rx_search kws inst); reflexivity.
      - destruct j as [| | | | | |inst]; try reflexivity.
        cbv beta. rewrite find_additional_spec. apply L_addl. exact (IHv Hwf). }
    destruct (str_eqb k (Str "items")) eqn:K4.
    { apply str_eqb_eq in K4. subst k. ev_goal.
      destruct v as [| | | | |subs|sch]; try discriminate.
      - destruct j as [| | | | |xs|]; try reflexivity.
        apply L_tuple_from; [exact Hwf|]. intros sub Hin. exact (IHa subs sub eq_refl Hin).
      - destruct j as [| | | | |xs|]; try reflexivity.
        apply L_items_from. exact (IHv Hwf). }
    destruct (str_eqb k (Str "allOf")) eqn:K5.
    { apply str_eqb_eq in K5. subst k. ev_goal. cbn [orb] in Hwf.
      destruct v as [| | | | |subs|]; try discriminate.
      apply L_allof; [exact Hwf|]. intros sub Hin. exact (IHa subs sub eq_refl Hin). }
    destruct (str_eqb k (Str "anyOf")) eqn:K6.
    { apply str_eqb_eq in K6. subst k. ev_goal. cbn [orb] in Hwf.
      destruct v as [| | | | |subs|]; try discriminate.
      rewrite is_nil_if_else. apply L_any; [exact Hwf|]. intros sub Hin. exact (IHa subs sub eq_refl Hin). }
    destruct (str_eqb k (Str "oneOf")) eqn:K7.
    { apply str_eqb_eq in K7. subst k. ev_goal. cbn [orb] in Hwf.
      destruct v as [| | | | |subs|]; try discriminate.
      rewrite is_nil_if_else, oneof_count. f_equal. f_equal.
      apply L_flags; [exact Hwf|]. intros sub Hin. exact (IHa subs sub eq_refl Hin). }
    cbn [orb] in Hwf.
    destruct (str_eqb k (Str "not")) eqn:K8.
    { apply str_eqb_eq in K8. subst k. ev_goal.
      rewrite (IHv Hwf j). destruct (C v j); reflexivity. }
    destruct (str_eqb k (Str "type")) eqn:K9.
    { apply str_eqb_eq in K9. subst k. ev_goal. rewrite is_nil_if_else.
      destruct v as [| | | |t|l|]; try discriminate.
      - cbn [type_list existsb]. rewrite is_type_has_type, orb_false_r. reflexivity.
      - cbn [type_list]. apply type_list_exists. }
    destruct (str_eqb k (Str "enum")) eqn:K10.
    { apply str_eqb_eq in K10. subst k. ev_goal.
      destruct v as [| | | | |ms|]; try discriminate.
      rewrite is_nil_if_else. apply existsb_ext'. intros m. apply jequal_same. }
    destruct (str_eqb k (Str "minimum")) eqn:K11.
    { apply str_eqb_eq in K11. subst k. ev_goal.
      change (json_dnum j) with (jnum j). change (json_dnum v) with (jnum v). rewrite andb_true_iff in Hwf. destruct Hwf as [_ Hx].
      destruct (jnum j) as [x|]; [|reflexivity]. destruct (jnum v) as [m|]; [|reflexivity].
      destruct (assoc (Str "exclusiveMinimum") kws) as [e|]; cbn [is_true].
      - destruct e as [|b| | | | |]; try discriminate. cbn [truthy]. destruct b.
        + rewrite is_nil_if_here by discriminate. rewrite nleb_dle. reflexivity.
        + rewrite is_nil_if_here by discriminate. rewrite nltb_nleb, negb_involutive, nleb_dle. reflexivity.
      - rewrite is_nil_if_here by discriminate. rewrite nltb_nleb, negb_involutive, nleb_dle. reflexivity. }
    destruct (str_eqb k (Str "maximum")) eqn:K12.
    { apply str_eqb_eq in K12. subst k. ev_goal.
      change (json_dnum j) with (jnum j). change (json_dnum v) with (jnum v). rewrite andb_true_iff in Hwf. destruct Hwf as [_ Hx].
      destruct (jnum j) as [x|]; [|reflexivity]. destruct (jnum v) as [m|]; [|reflexivity].
      destruct (assoc (Str "exclusiveMaximum") kws) as [e|]; cbn [is_true].
      - destruct e as [|b| | | | |]; try discriminate. cbn [truthy]. destruct b.
        + rewrite is_nil_if_here by discriminate. rewrite nleb_dle. reflexivity.
        + rewrite is_nil_if_here by discriminate. rewrite nltb_nleb, negb_involutive, nleb_dle. reflexivity.
      - rewrite is_nil_if_here by discriminate. rewrite nltb_nleb, negb_involutive, nleb_dle. reflexivity. }
    destruct (str_eqb k (Str "minItems")) eqn:K13.
    { apply str_eqb_eq in K13. subst k. ev_goal.
      destruct j as [| | | | |xs|]; try reflexivity. destruct v as [| |n| | | |]; try reflexivity.
      rewrite is_nil_if_here by discriminate. symmetry. apply Z.leb_antisym. }
    destruct (str_eqb k (Str "maxItems")) eqn:K14.
    { apply str_eqb_eq in K14. subst k. ev_goal.
      destruct j as [| | | | |xs|]; try reflexivity. destruct v as [| |n| | | |]; try reflexivity.
      rewrite is_nil_if_here by discriminate. symmetry. apply Z.leb_antisym. }
    destruct (str_eqb k (Str "minLength")) eqn:K15.
    { apply str_eqb_eq in K15. subst k. ev_goal.
      destruct j as [| | | |cs| |]; try reflexivity. destruct v as [| |n| | | |]; try reflexivity.
      rewrite is_nil_if_here by discriminate. symmetry. apply Z.leb_antisym. }
    destruct (str_eqb k (Str "maxLength")) eqn:K16.
    { apply str_eqb_eq in K16. subst k. ev_goal.
      destruct j as [| | | |cs| |]; try reflexivity. destruct v as [| |n| | | |]; try reflexivity.
      rewrite is_nil_if_here by discriminate. symmetry. apply Z.leb_antisym. }
    destruct (str_eqb k (Str "pattern")) eqn:K17.
    { apply str_eqb_eq in K17. subst k. ev_goal.
      destruct j as [| | | |cs| |]; try reflexivity. destruct v as [| | | |p| |]; try reflexivity.
      apply is_nil_if_else. }
    destruct (str_eqb k (Str "required")) eqn:K18.
    { apply str_eqb_eq in K18. subst k. ev_goal.
      destruct j as [| | | | | |obj]; try reflexivity. destruct v as [| | | | |names|]; try reflexivity.
      rewrite is_nil_flat_map. apply forallb_ext'. intros r. destruct r; try reflexivity.
      rewrite is_nil_if_else. apply member_od_mem. }
    reflexivity.
  Qed.
End Dispatch.

(* ------------------------------------------------------------------ iter_errors_complete *)
Lemma forallb_ext_in {A} (f g : A -> bool) l : (forall x, In x l -> f x = g x) -> forallb f l = forallb g l.
Proof.
  induction l as [|x l IH]; intros H; [reflexivity|]. cbn [forallb].
  rewrite (H x (or_introl eq_refl)), (IH (fun y Hy => H y (or_intror Hy))). reflexivity.
Qed.

Lemma ierr_conforms_size n : forall s, (jsize s < n)%nat -> agrees s.
Proof.
  induction n as [|n IH]; intros s Hs; [lia|].
  intros Hwf j. destruct s as [| | | | | |kws]; try discriminate Hwf.
  rewrite ierr_unfold, is_nil_flat_map, conforms_unfold.
  rewrite wf_unfold in Hwf. rewrite forallb_forall in Hwf.
  apply forallb_ext_in. intros [k v] Hin. cbn [fst snd].
  apply kw_equiv; [exact (Hwf _ Hin)|].
  intros sub Hle. apply IH. pose proof (jsize_obj_in k v kws Hin). lia.
Qed.

Lemma ierr_conforms s j : wf_schema s = true -> is_nil (ierr s j) = conforms rx_search s j.
Proof. intros H. exact (ierr_conforms_size (S (jsize s)) s (Nat.lt_succ_diag_r _) H j). Qed.

Lemma is_nil_true {A} (l : list A) : is_nil l = true <-> l = [].
Proof. destruct l; cbn; split; congruence. Qed.

Theorem iter_errors_complete_lemma s j :
  wf_schema s = true -> (ierr s j = [] <-> conforms rx_search s j = true).
Proof. intros H. rewrite <- (ierr_conforms s j H). symmetry. apply is_nil_true. Qed.

(* the model's view through the jsonref proxies is the specification's inlining *)
Lemma expand_inline n st : forall j, expand_n n st j = inline n st j.
Proof.
  induction n as [|n IHn]; [reflexivity|].
  intros j. induction j as [| | | | |l IH|l IH] using json_ind'; try reflexivity.
  - cbn [expand_n inline]. f_equal.
    induction IH as [|x l Hx _ IHl]; [reflexivity|]. cbn [map]. f_equal; [exact Hx|exact IHl].
  - cbn [expand_n inline]. unfold ref_target, jget, ref_key.
    destruct (assoc (Str "$ref") l) as [r|] eqn:Er.
    + destruct r as [| | | |f| |].
      5: { destruct (assoc f st) as [t|]; [apply IHn|reflexivity]. }
      all: (clear Er; f_equal; induction IH as [|[k x] l' Hx _ IHl]; [reflexivity|]; cbn [map fst snd] in *; f_equal; [f_equal; exact Hx|exact IHl]).
    + clear Er. f_equal. induction IH as [|[k x] l' Hx _ IHl]; [reflexivity|]. cbn [map fst snd] in *. f_equal; [f_equal; exact Hx|exact IHl].
Qed.

Theorem iter_errors_store_lemma st root j errs :
  iter_errors st root j = Ok errs ->
  (errs = [] <-> conforms rx_search (inline (S (length st)) st root) j = true).
Proof.
  unfold iter_errors, expand. rewrite expand_inline.
  destruct (wf_schema (inline (S (length st)) st root)) eqn:Hwf; [|discriminate].
  intros [= <-]. apply iter_errors_complete_lemma. exact Hwf.
Qed.

(* ------------------------------------------------------------------ verdict of validate *)
Lemma get_error_messages_nil d errs : get_error_messages d errs = Ok [] <-> errs = [].
Proof.
  split; [|intros ->; reflexivity].
  destruct errs as [|e errs]; [reflexivity|]. cbn [get_error_messages].
  destruct (create_message d e); cbn [bind]; [|discriminate].
  destruct (get_error_messages d errs); cbn [bind]; discriminate.
Qed.

Definition not_list (d : value) : Prop := match d with VList _ => False | _ => True end.

Theorem validate_verdict_lemma tree d :
  wf_schema tree = true -> not_list d ->
  (run_validator tree d = Ok [] <-> conforms rx_search tree (to_json (convert_lowercase d)) = true).
Proof.
  intros Hwf Hd. unfold run_validator. rewrite Hwf.
  rewrite <- (iter_errors_complete_lemma tree _ Hwf).
  destruct d; try (destruct Hd); apply get_error_messages_nil.
Qed.

(* ------------------------------------------------------------------ a list is validated pointwise *)
Fixpoint res_concat {A} (l : list (res (list A))) : res (list A) :=
  match l with
  | [] => Ok []
  | r :: l' => do m <- r; do rest <- res_concat l'; Ok (m ++ rest)
  end.

Theorem list_is_pointwise_lemma tree ds :
  wf_schema tree = true ->
  run_validator tree (VList ds) = res_concat (map (_get_errors tree) ds).
Proof.
  intros Hwf. unfold run_validator. rewrite Hwf.
  induction ds as [|d ds IH]; [reflexivity|]. cbn [get_errors_list map res_concat]. rewrite IH. reflexivity.
Qed.

(* ------------------------------------------------------------------ messages *)
Definition msg_field (m : value) (k : str) : option value :=
  match m with VDict _ items => assoc k items | _ => None end.

(* the dictionary a message is about and, when the message is named after a
   key of the error path, that key: the last element if it is a key; for a path
   ending in a list index, the object it points to, or - when it points to a
   non-object, i.e. an item of a list-valued keyword - the last key of the path
   and the dictionary holding that keyword *)
Definition target (d : value) (e : verr) : res (value * option str) :=
  match epath e with
  | [] => Ok (d, None)
  | _ =>
      match last (epath e) (PIdx 0) with
      | PIdx _ =>
          do o <- findkey d (epath e);
          if is_dict o then Ok (o, None)
          else match last_key (epath e) with
               | Some (pre, k) => do o' <- findkey d pre; Ok (o', Some k)
               | None => Err PyValueError
               end
      | PKey k => do o <- findkey d (removelast (epath e)); Ok (o, Some k)
      end
  end.

(* the name a message carries *)
Definition named (d : value) (e : verr) (key : str) : Prop :=
  exists o ok, target d e = Ok (o, ok) /\
    match ok with
    | Some k => key = k
    | None => getitem o (PKey K_dtype) = Ok (VStr key)
    end.

(* the record create_message reads line / column from: a repeatable keyword (or repeated POINTS) has a
   LIST of records, one per occurrence; the occurrence the error path names is used *)
Definition pick_record (key : str) (path : list pelem) (pd : value) : res value :=
  match pd with
  | VList l =>
      let occ := match occurrence_after key path with Some i => N.to_nat i | None => O end in
      match nth_error l occ with
      | Some r => Ok r
      | None => match last_opt_v l with Some r => Ok r | None => Err PyIndexError end
      end
  | _ => Ok pd
  end.

(* the tail of create_message, once the dictionary and the key are known *)
Definition finish_message (e : verr) (o : value) (key : str) : res value :=
  let path := epath e in
  let base := [(Str "path", VList (map pelem_value path)); (Str "validator", VStr (ekw e));
               (Str "message", VStr (msg_prefix ++ upper key))] in
  do haspos <- contains o K_dposition;
  if haspos then
    do child <- (if is_nil path then Ok VNone else dict_get o key);
    do child_pos <- (if is_dict child then contains child K_dposition else Ok false);
    do pd <- (if child_pos then getitem child (PKey K_dposition)
              else
                do posd <- getitem o (PKey K_dposition);
                if is_nil path then Ok posd
                else do has <- contains posd key;
                     if has then getitem posd (PKey key) else Ok posd);
    do pd <- pick_record key path pd;
    do line <- dict_get pd (Str "line");
    do column <- dict_get pd (Str "column");
    Ok (VDict DPlain (base ++ [(Str "line", line); (Str "column", column)]))
  else Ok (VDict DPlain base).

Lemma finish_message_fields e o key m :
  finish_message e o key = Ok m ->
  msg_field m (Str "message") = Some (VStr (msg_prefix ++ upper key)) /\
  msg_field m (Str "path") = Some (VList (map pelem_value (epath e))) /\
  msg_field m (Str "validator") = Some (VStr (ekw e)).
Proof.
  unfold finish_message. intros H.
  destruct (contains o K_dposition) as [hp|]; [|discriminate]. cbn [bind] in H.
  destruct hp; [|injection H as <-; cbn; auto].
  destruct (if is_nil (epath e) then Ok VNone else dict_get o key) as [child|]; [|discriminate]. cbn [bind] in H.
  destruct (if is_dict child then contains child K_dposition else Ok false) as [cp|]; [|discriminate]. cbn [bind] in H.
  match type of H with (do pd <- ?X; _) = _ => destruct X as [pd0|]; [|discriminate] end. cbn [bind] in H.
  destruct (pick_record key (epath e) pd0) as [pd|]; [|discriminate]. cbn [bind] in H.
  destruct (dict_get pd (Str "line")) as [ln|]; [|discriminate]. cbn [bind] in H.
  destruct (dict_get pd (Str "column")) as [cl|]; [|discriminate]. cbn [bind] in H.
  injection H as <-. cbn. auto.
Qed.

(* create_message = find the target, then finish *)
Lemma create_message_target d e :
  create_message d e =
  do t <- target d e;
  match snd t with
  | Some k => finish_message e (fst t) k
  | None => do kv <- getitem (fst t) (PKey K_dtype);
            match kv with VStr key => finish_message e (fst t) key | _ => Err PyAttributeError end
  end.
Proof.
  unfold create_message, target, finish_message, pick_record.
  destruct (epath e) as [|p0 ps] eqn:Ep.
  - cbn [bind fst snd]. destruct (getitem d (PKey K_dtype)) as [kv|]; reflexivity.
  - destruct (last (p0 :: ps) (PIdx 0)) as [k|i].
    + destruct (findkey d (removelast (p0 :: ps))) as [o|]; reflexivity.
    + destruct (findkey d (p0 :: ps)) as [o|]; [|reflexivity]. cbn [bind].
      destruct (is_dict o).
      * cbn [bind fst snd]. destruct (getitem o (PKey K_dtype)) as [kv|]; reflexivity.
      * destruct (last_key (p0 :: ps)) as [[pre k]|]; [|reflexivity].
        destruct (findkey d pre) as [o'|]; reflexivity.
Qed.

Lemma create_message_names d e m :
  create_message d e = Ok m ->
  exists key, named d e key /\
    msg_field m (Str "message") = Some (VStr (msg_prefix ++ upper key)) /\
    msg_field m (Str "path") = Some (VList (map pelem_value (epath e))) /\
    msg_field m (Str "validator") = Some (VStr (ekw e)).
Proof.
  rewrite create_message_target. intros H. unfold named.
  destruct (target d e) as [[o ok]|] eqn:Et; [|discriminate]. cbn [bind fst snd] in H.
  destruct ok as [k|].
  - exists k. split; [exists o, (Some k); auto|]. exact (finish_message_fields e o k m H).
  - destruct (getitem o (PKey K_dtype)) as [kv|] eqn:Eg; [|discriminate]. cbn [bind] in H.
    destruct kv as [| | | |key| |]; try discriminate.
    exists key. split; [exists o, None; auto|]. exact (finish_message_fields e o key m H).
Qed.

Definition message_for (d : value) (e : verr) (m : value) : Prop :=
  exists key, named d e key /\
    msg_field m (Str "message") = Some (VStr (msg_prefix ++ upper key)) /\
    msg_field m (Str "path") = Some (VList (map pelem_value (epath e))) /\
    msg_field m (Str "validator") = Some (VStr (ekw e)).

(* one message per error, in order, each naming its keyword / object *)
Theorem messages_cover_lemma d errs msgs :
  get_error_messages d errs = Ok msgs -> Forall2 (message_for d) errs msgs.
Proof.
  revert msgs. induction errs as [|e errs IH]; intros msgs H; cbn [get_error_messages] in H.
  - injection H as <-. constructor.
  - destruct (create_message d e) as [m|] eqn:Em; [|discriminate]. cbn [bind] in H.
    destruct (get_error_messages d errs) as [rest|]; [|discriminate]. cbn [bind] in H.
    injection H as <-. constructor; [exact (create_message_names d e m Em)|apply IH; reflexivity].
Qed.

(* ------------------------------------------------------------------ where errors are reported *)
Lemma in_props_errs (rec : json -> json -> list verr) props inst pk sub x e' :
  In (pk, sub) props -> assoc pk inst = Some x -> In e' (rec sub x) ->
  In (push (PKey pk) e') (props_errs rec props inst).
Proof.
  intros Hin Hx He. induction props as [|[p s] props IH]; [destruct Hin|].
  cbn [props_errs]. apply in_or_app. destruct Hin as [[= -> ->]|Hin].
  - left. rewrite Hx. apply in_map. exact He.
  - right. apply IH. exact Hin.
Qed.

(* a keyword whose value violates its schema yields errors located at (or below) that keyword *)
Theorem violating_property_reported kws props inst pk sub x e' :
  In (Schema.K_properties, JObj props) kws -> In (pk, sub) props -> assoc pk inst = Some x ->
  In e' (ierr sub x) ->
  In (push (PKey pk) e') (ierr (JObj kws) (JObj inst)).
Proof.
  intros Hk Hp Hx He. rewrite ierr_unfold. apply in_flat_map.
  exists (Schema.K_properties, JObj props). split; [exact Hk|]. cbn [fst snd].
  unfold kw_errs. unfold_keys. ev_goal. eapply in_props_errs; eassumption.
Qed.

Lemma in_items_loop (rec : json -> json -> list verr) v xs i0 i x e' :
  nth_error xs i = Some x -> In e' (rec v x) ->
  In (push (PIdx (i0 + N.of_nat i)) e')
     ((fix iloop (xs : list json) (i : N) : list verr :=
         match xs with
         | [] => []
         | x :: xs' => map (push (PIdx i)) (rec v x) ++ iloop xs' (N.succ i)
         end) xs i0).
Proof.
  revert i0 i. induction xs as [|y xs IH]; intros i0 i Hn He; [destruct i; discriminate|].
  apply in_or_app. destruct i as [|i]; cbn [nth_error] in Hn.
  - injection Hn as ->. left. replace (i0 + N.of_nat 0)%N with i0 by lia. apply in_map. exact He.
  - right. replace (i0 + N.of_nat (S i))%N with (N.succ i0 + N.of_nat i)%N by lia. apply IH; assumption.
Qed.

(* an element of a list of objects that violates the item schema yields errors located at its index *)
Theorem violating_item_reported kws sch xs i x e' :
  In (K_items, JObj sch) kws -> nth_error xs i = Some x -> In e' (ierr (JObj sch) x) ->
  In (push (PIdx (N.of_nat i)) e') (ierr (JObj kws) (JArr xs)).
Proof.
  intros Hk Hn He. rewrite ierr_unfold. apply in_flat_map.
  exists (K_items, JObj sch). split; [exact Hk|]. cbn [fst snd].
  unfold kw_errs. unfold_keys. ev_goal. unfold items_errs.
  exact (in_items_loop ierr (JObj sch) xs 0%N i x e' Hn He).
Qed.

(* object-level faults are reported at the object itself *)
Theorem unknown_keyword_reported kws inst :
  In (K_additionalProperties, JBool false) kws -> find_additional kws inst <> [] ->
  In (mk_verr [] K_additionalProperties) (ierr (JObj kws) (JObj inst)).
Proof.
  intros Hk Hx. rewrite ierr_unfold. apply in_flat_map.
  exists (K_additionalProperties, JBool false). split; [exact Hk|]. cbn [fst snd].
  unfold kw_errs, leaf_errs. unfold_keys. ev_goal.
  destruct (find_additional kws inst); [congruence|]. left. reflexivity.
Qed.

Theorem missing_required_reported kws req inst p :
  In (K_required, JArr req) kws -> In (JStr p) req -> od_mem p inst = false ->
  In (mk_verr [] K_required) (ierr (JObj kws) (JObj inst)).
Proof.
  intros Hk Hp Hm. rewrite ierr_unfold. apply in_flat_map.
  exists (K_required, JArr req). split; [exact Hk|]. cbn [fst snd].
  unfold kw_errs, leaf_errs. unfold_keys. ev_goal.
  apply in_flat_map. exists (JStr p). split; [exact Hp|]. rewrite Hm. left. reflexivity.
Qed.

(* a keyword without sub-schemas reports at the instance it is applied to *)
Lemma all_here_flat_map {A} (f : A -> list verr) l :
  (forall x, Forall (fun e => epath e = []) (f x)) -> Forall (fun e => epath e = []) (flat_map f l).
Proof.
  intros H. induction l as [|x l IH]; [constructor|]. cbn [flat_map]. apply Forall_app. auto.
Qed.

Lemma leaf_errs_here k v kws j : Forall (fun e => epath e = []) (leaf_errs k v kws j).
Proof.
  assert (Hh : forall kw, Forall (fun e => epath e = []) (here kw)) by (intros kw; repeat constructor).
  assert (Hn : Forall (fun e : verr => epath e = []) []) by constructor.
  unfold leaf_errs.
  repeat match goal with
         | |- Forall _ (if ?c then _ else _) => destruct c
         | |- Forall _ (match ?x with _ => _ end) => destruct x
         | |- Forall _ (let _ := _ in _) => cbv zeta
         end; auto.
  all: apply all_here_flat_map; intros r; destruct r; auto; destruct (od_mem _ _); auto.
Qed.

(* ------------------------------------------------------------------ never raises: the guarded statement *)
(* the target of the error is a dictionary [o] that names itself when the
   message is not named after a key, and carries no position record *)
Definition guard (d : value) (e : verr) : Prop :=
  exists c items ok,
    target d e = Ok (VDict c items, ok) /\
    contains (VDict c items) K_dposition = Ok false /\
    (ok = None -> exists key, getitem (VDict c items) (PKey K_dtype) = Ok (VStr key)).

Lemma create_message_guarded d e : guard d e -> exists m, create_message d e = Ok m.
Proof.
  intros (c & items & ok & Ht & Hp & Hk). rewrite create_message_target, Ht. cbn [bind fst snd].
  destruct ok as [k|].
  - unfold finish_message. rewrite Hp. cbn [bind]. eexists. reflexivity.
  - destruct (Hk eq_refl) as (key & Hg). rewrite Hg. cbn [bind].
    unfold finish_message. rewrite Hp. cbn [bind]. eexists. reflexivity.
Qed.

Lemma get_error_messages_guarded d errs :
  (forall e, In e errs -> guard d e) -> exists msgs, get_error_messages d errs = Ok msgs.
Proof.
  induction errs as [|e errs IH]; intros H; [exists []; reflexivity|].
  destruct (create_message_guarded d e (H e (or_introl eq_refl))) as (m & Hm).
  destruct (IH (fun e' He' => H e' (or_intror He'))) as (ms & Hms).
  exists (m :: ms). cbn [get_error_messages]. rewrite Hm, Hms. reflexivity.
Qed.

Theorem validate_never_raises_guarded_lemma tree d :
  wf_schema tree = true -> not_list d ->
  (forall e, In e (ierr tree (to_json (convert_lowercase d))) -> guard d e) ->
  exists msgs, run_validator tree d = Ok msgs.
Proof.
  intros Hwf Hd H. unfold run_validator. rewrite Hwf.
  destruct d; try (destruct Hd); apply get_error_messages_guarded; exact H.
Qed.

(* ------------------------------------------------------------------ letter case *)
From MF Require Import Proofs.CaseFacts Proofs.C17.

Definition lc_items (l acc : list (str * value)) : list (str * value) :=
  (fix go (l : list (str * value)) (acc : list (str * value)) : list (str * value) :=
     match l with
     | [] => acc
     | (k, v) :: l' => go l' (od_set (lower k) (convert_lowercase v) acc)
     end) l acc.

Lemma convert_lowercase_dict c items :
  convert_lowercase (VDict c items) = VDict DPlain (lc_items items []).
Proof. reflexivity. Qed.

Lemma lc_items_setall l acc :
  lc_items l acc = od_setall (map (fun kv => (lower (fst kv), convert_lowercase (snd kv))) l) acc.
Proof.
  revert acc. induction l as [|[k v] l IH]; intros acc; [reflexivity|].
  cbn [map fst snd]. unfold od_setall. cbn [fold_left fst snd]. apply IH.
Qed.

Lemma In_setall {A} (e d : list (str * A)) kv :
  In kv (od_setall e d) -> In kv e \/ In kv d.
Proof.
  revert d. induction e as [|[k v] e IH]; intros d H; [right; exact H|].
  unfold od_setall in H. cbn [fold_left fst snd] in H. apply IH in H.
  destruct H as [H|H]; [left; right; exact H|].
  unfold od_set in H. destruct (od_mem k d).
  - clear IH. induction d as [|[k' v'] d IHd]; [destruct H|]. cbn [od_replace] in H.
    destruct (str_eqb_spec k k') as [->|Hne].
    + destruct H as [<-|H]; [left; left; reflexivity|right; right; exact H].
    + destruct H as [<-|H]; [right; left; reflexivity|].
      destruct (IHd H) as [H'|H']; [left; exact H'|right; right; exact H'].
  - apply in_app_or in H. destruct H as [H|[<-|[]]]; [right; exact H|left; left; reflexivity].
Qed.

Theorem convert_lowercase_idem d : convert_lowercase (convert_lowercase d) = convert_lowercase d.
Proof.
  induction d as [| | | | |l IH|c items IH] using value_ind'; try reflexivity.
  - cbn [convert_lowercase]. rewrite lower_idem. reflexivity.
  - cbn [convert_lowercase]. f_equal. rewrite map_map.
    induction IH as [|x l Hx _ IHl]; [reflexivity|]. cbn [map]. rewrite Hx, IHl. reflexivity.
  - rewrite !convert_lowercase_dict. f_equal.
    set (X := lc_items items []).
    assert (HX : X = od_setall (map (fun kv => (lower (fst kv), convert_lowercase (snd kv))) items) [])
      by apply lc_items_setall.
    assert (Hnd : NoDup (keys X)) by (rewrite HX; apply NoDup_setall; constructor).
    rewrite lc_items_setall.
    assert (Hmap : map (fun kv => (lower (fst kv), convert_lowercase (snd kv))) X = X).
    { assert (Hin : forall kv, In kv X -> (lower (fst kv), convert_lowercase (snd kv)) = kv).
      { intros [k v] Hkv. rewrite HX in Hkv. apply In_setall in Hkv. destruct Hkv as [Hkv|[]].
        apply in_map_iff in Hkv. destruct Hkv as ([k0 v0] & [= <- <-] & Hin0). cbn [fst snd].
        rewrite lower_idem. f_equal. rewrite Forall_forall in IH. exact (IH _ Hin0). }
      clear HX Hnd. induction X as [|kv X IHX]; [reflexivity|]. cbn [map].
      rewrite (Hin kv (or_introl eq_refl)), (IHX (fun kv' H' => Hin kv' (or_intror H'))). reflexivity. }
    rewrite Hmap. apply setall_self. exact Hnd.
Qed.

Lemma run_validator_single tree d :
  not_list d ->
  run_validator tree d =
  if wf_schema tree then get_error_messages d (ierr tree (to_json (convert_lowercase d))) else Err PyValueError.
Proof. intros Hd. unfold run_validator. destruct d; try (destruct Hd); reflexivity. Qed.

(* the verdict only depends on the lower-cased form *)
Theorem verdict_depends_on_lowercase_lemma tree d d' :
  not_list d -> not_list d' -> convert_lowercase d = convert_lowercase d' ->
  (run_validator tree d = Ok [] <-> run_validator tree d' = Ok []).
Proof.
  intros Hd Hd' Heq. rewrite (run_validator_single tree d Hd), (run_validator_single tree d' Hd').
  destruct (wf_schema tree); [|tauto].
  rewrite !get_error_messages_nil, Heq. tauto.
Qed.

(* changing only the letter case of keys and string values *)
Fixpoint recase (f : str -> str) (d : value) : value :=
  match d with
  | VStr s => VStr (f s)
  | VList l => VList (map (recase f) l)
  | VDict c items =>
      VDict c ((fix go (l : list (str * value)) : list (str * value) :=
                  match l with
                  | [] => []
                  | (k, v) :: l' => (f k, recase f v) :: go l'
                  end) items)
  | _ => d
  end.

Theorem recase_same_lowercase f d :
  (forall s, lower (f s) = lower s) -> convert_lowercase (recase f d) = convert_lowercase d.
Proof.
  intros Hf. induction d as [| | | | |l IH|c items IH] using value_ind'; try reflexivity.
  - cbn [recase convert_lowercase]. rewrite Hf. reflexivity.
  - cbn [recase convert_lowercase]. f_equal. rewrite map_map.
    induction IH as [|x l Hx _ IHl]; [reflexivity|]. cbn [map]. rewrite Hx, IHl. reflexivity.
  - cbn [recase]. rewrite !convert_lowercase_dict. f_equal.
    assert (G : forall acc,
               lc_items ((fix go (l : list (str * value)) : list (str * value) :=
                            match l with
                            | [] => []
                            | (k, v) :: l' => (f k, recase f v) :: go l'
                            end) items) acc = lc_items items acc).
    { induction IH as [|[k v] l Hx _ IHl]; intros acc; [reflexivity|].
      cbn [lc_items]. cbn [snd] in Hx. rewrite Hf, Hx. apply IHl. }
    apply G.
Qed.

(* ------------------------------------------------------------------ hidden keys *)
Definition hidden_pat : str := Str "^__[a-z]+__$".

Lemma rx_hidden k : rx_search hidden_pat k = at_end hidden_key k.
Proof. reflexivity. Qed.

(* a key matched by one of the schema's patternProperties is never "additional" *)
Lemma pattern_key_not_additional kws pps pat inst k x :
  assoc K_patternProperties kws = Some (JObj pps) -> In pat (keys pps) -> rx_search pat k = true ->
  ~ In (k, x) (find_additional kws inst).
Proof.
  intros Hp Hin Hm H. unfold find_additional in H. rewrite Hp in H.
  apply filter_In in H. destruct H as [_ H]. cbn [fst] in H.
  rewrite andb_true_iff in H. destruct H as [_ H].
  assert (E : existsb (fun p => rx_search p k) (keys pps) = true).
  { apply existsb_exists. exists pat. auto. }
  rewrite E in H. discriminate.
Qed.

(* the empty schema {} accepts everything, so a patternProperties entry
   "^__[a-z]+__$": {} contributes no error *)
Lemma empty_schema_no_errors x : ierr (JObj []) x = [].
Proof. reflexivity. Qed.

Lemma empty_pattern_no_errors pat inst : pprops_errs ierr [(pat, JObj [])] inst = [].
Proof.
  cbn [pprops_errs]. rewrite app_nil_r.
  induction inst as [|[mk x] inst IH]; [reflexivity|]. rewrite IH.
  destruct (rx_search pat mk); reflexivity.
Qed.
