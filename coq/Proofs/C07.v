(* C07: validation verdict equals the schema's verdict.  Lemmas; the property
   theorems are in Props/C07.v. *)
From MF Require Import Lib.Base Lib.Json Lib.PyDict Gen.Tokens Model.Case Model.OrderedDict
  Model.SchemaStore Model.Schema Model.Validator Spec.Versioned Spec.Draft4.
Open Scope Z_scope.

(* ------------------------------------------------------------------ list facts *)
Lemma is_nil_app {A} (a b : list A) : is_nil (a ++ b) = is_nil a && is_nil b.
Proof. destruct a; reflexivity. Qed.

Lemma is_nil_map {A B} (f : A -> B) l : is_nil (map f l) = is_nil l.
Proof. destruct l; reflexivity. Qed.

Lemma is_nil_flat_map {A B} (f : A -> list B) l : is_nil (flat_map f l) = forallb (fun x => is_nil (f x)) l.
Proof. induction l as [|x l IH]; [reflexivity|]. cbn [flat_map forallb]. rewrite is_nil_app, IH. reflexivity. Qed.

Lemma is_nil_if {A} (c : bool) (l : list A) : is_nil (if c then [] else l) = c || is_nil l.
Proof. destruct c; reflexivity. Qed.

Lemma is_nil_here kw : is_nil (here kw) = false.
Proof. reflexivity. Qed.

Lemma loop_pairs {A B C} (E : A -> B -> list C) (l : list (A * B)) :
  (fix loop (l : list (A * B)) : list C :=
     match l with [] => [] | (k, v) :: l' => E k v ++ loop l' end) l
  = flat_map (fun p => E (fst p) (snd p)) l.
Proof. induction l as [|[k v] l IH]; [reflexivity|]. cbn [flat_map fst snd]. rewrite <- IH. reflexivity. Qed.

Lemma loop_pairs_and {A B} (E : A -> B -> bool) (l : list (A * B)) :
  (fix loop (l : list (A * B)) : bool :=
     match l with [] => true | (k, v) :: l' => E k v && loop l' end) l
  = forallb (fun p => E (fst p) (snd p)) l.
Proof. induction l as [|[k v] l IH]; [reflexivity|]. cbn [forallb fst snd]. rewrite <- IH. reflexivity. Qed.

(* ------------------------------------------------------------------ unfolding *)
Lemma ierr_unfold kws j :
  ierr (JObj kws) j = flat_map (fun p => kw_errs ierr (fst p) (snd p) kws j) kws.
Proof. exact (loop_pairs (fun k v => kw_errs ierr k v kws j) kws). Qed.

Lemma wf_unfold kws :
  wf_schema (JObj kws) = forallb (fun p => kw_wf wf_schema (fst p) (snd p) kws) kws.
Proof. exact (loop_pairs_and (fun k v => kw_wf wf_schema k v kws) kws). Qed.

(* the body of Spec.Draft4.conforms, with the recursive occurrences abstracted *)
Section Holds.
  Variable matches : str -> str -> bool.
  Variable rec : json -> json -> bool.
  Definition kw_holds (k : str) (v : json) (schema : list (str * json)) (j : json) : bool :=
                 if str_eqb k (Str "type") then
                   match v with
                   | JStr t => has_type t j
                   | JArr ts => existsb (fun t => match t with JStr t => has_type t j | _ => false end) ts
                   | _ => true
                   end
                 else if str_eqb k (Str "enum") then
                   match v with JArr ms => existsb (fun m => same_scalar m j) ms | _ => true end
                 else if str_eqb k (Str "minimum") then
                   match json_dnum j, json_dnum v with
                   | Some x, Some m =>
                       if is_true (assoc (Str "exclusiveMinimum") schema) then negb (dle x m) else dle m x
                   | _, _ => true
                   end
                 else if str_eqb k (Str "maximum") then
                   match json_dnum j, json_dnum v with
                   | Some x, Some m =>
                       if is_true (assoc (Str "exclusiveMaximum") schema) then negb (dle m x) else dle x m
                   | _, _ => true
                   end
                 else if str_eqb k (Str "minItems") then
                   match j, v with JArr xs, JInt n => n <=? Z.of_nat (length xs) | _, _ => true end
                 else if str_eqb k (Str "maxItems") then
                   match j, v with JArr xs, JInt n => Z.of_nat (length xs) <=? n | _, _ => true end
                 else if str_eqb k (Str "minLength") then
                   match j, v with JStr cs, JInt n => n <=? Z.of_nat (length cs) | _, _ => true end
                 else if str_eqb k (Str "maxLength") then
                   match j, v with JStr cs, JInt n => Z.of_nat (length cs) <=? n | _, _ => true end
                 else if str_eqb k (Str "pattern") then
                   match j, v with JStr cs, JStr p => matches p cs | _, _ => true end
                 else if str_eqb k (Str "required") then
                   match j, v with
                   | JObj obj, JArr names =>
                       forallb (fun n => match n with JStr n => member n obj | _ => true end) names
                   | _, _ => true
                   end
                 else if str_eqb k (Str "properties") then
                   match j, v with
                   | JObj obj, JObj props =>
                       forallb (fun ps => match ps with
                                          | (p, sub) => match assoc p obj with
                                                        | Some x => rec sub x
                                                        | None => true
                                                        end
                                          end) props
                   | _, _ => true
                   end
                 else if str_eqb k (Str "patternProperties") then
                   match j, v with
                   | JObj obj, JObj pps =>
                       forallb (fun ps => match ps with
                                          | (p, sub) =>
                                              forallb (fun m => negb (matches p (fst m)) || rec sub (snd m)) obj
                                          end) pps
                   | _, _ => true
                   end
                 else if str_eqb k (Str "additionalProperties") then
                   match j with
                   | JObj obj =>
                       match v with
                       | JBool false => match additional_members matches schema obj with [] => true | _ => false end
                       | JObj _ => forallb (fun m => rec v (snd m)) (additional_members matches schema obj)
                       | _ => true
                       end
                   | _ => true
                   end
                 else if str_eqb k (Str "items") then
                   match j with
                   | JArr xs =>
                       match v with
                       | JObj _ => forallb (fun x => rec v x) xs
                       | JArr subs =>
                           (fix positional (subs : list json) (xs : list json) : bool :=
                              match subs, xs with
                              | sub :: subs', x :: xs' => rec sub x && positional subs' xs'
                              | _, _ => true
                              end) subs xs
                       | _ => true
                       end
                   | _ => true
                   end
                 else if str_eqb k (Str "allOf") then
                   match v with JArr subs => forallb (fun sub => rec sub j) subs | _ => true end
                 else if str_eqb k (Str "anyOf") then
                   match v with JArr subs => existsb (fun sub => rec sub j) subs | _ => true end
                 else if str_eqb k (Str "oneOf") then
                   match v with
                   | JArr subs => Nat.eqb (count_true (map (fun sub => rec sub j) subs)) 1
                   | _ => true
                   end
                 else if str_eqb k (Str "not") then negb (rec v j)
                 else true.
End Holds.

Lemma conforms_unfold m schema j :
  conforms m (JObj schema) j
  = forallb (fun kv => match kv with (k, v) => kw_holds m (conforms m) k v schema j end) schema.
Proof. reflexivity. Qed.

(* ------------------------------------------------------------------ sizes (for the induction) *)
Lemma jsize_obj_in k v l : In (k, v) l -> (jsize v < jsize (JObj l))%nat.
Proof.
  intros H. cbn [jsize]. induction l as [|[k' x] l IH]; [destruct H|].
  destruct H as [[= -> ->]|H]; [lia|]. specialize (IH H). lia.
Qed.

Lemma jsize_arr_in x l : In x l -> (jsize x < jsize (JArr l))%nat.
Proof.
  intros H. cbn [jsize]. induction l as [|y l IH]; [destruct H|].
  destruct H as [->|H]; [lia|]. specialize (IH H). lia.
Qed.

(* ------------------------------------------------------------------ keyword by keyword *)
Section Equiv.
  Notation E := ierr.
  Notation C := (conforms rx_search).

  Definition agrees (sub : json) : Prop :=
    wf_schema sub = true -> forall x, is_nil (E sub x) = C sub x.

  Lemma L_props props inst :
    props_wf wf_schema props = true -> (forall p sub, In (p, sub) props -> agrees sub) ->
    is_nil (props_errs E props inst)
    = forallb (fun ps => match ps with
                         | (p, sub) => match assoc p inst with Some x => C sub x | None => true end
                         end) props.
  Proof.
    induction props as [|[p sub] props IH]; intros Hwf H; [reflexivity|].
    cbn [props_wf] in Hwf. rewrite andb_true_iff in Hwf. destruct Hwf as [Hw1 Hw2].
    cbn [props_errs forallb]. rewrite is_nil_app.
    change ((fix ploop (ps : list (str * json)) : list verr :=
               match ps with
               | [] => []
               | (pk, sub0) :: ps' =>
                   match assoc pk inst with
                   | Some x => map (push (PKey pk)) (E sub0 x)
                   | None => []
                   end ++ ploop ps'
               end) props) with (props_errs E props inst).
    rewrite (IH Hw2 (fun p' s' Hin => H p' s' (or_intror Hin))).
    destruct (assoc p inst) as [x|]; [|reflexivity].
    rewrite is_nil_map, (H p sub (or_introl eq_refl) Hw1). reflexivity.
  Qed.

  Lemma L_members pat sub inst :
    agrees sub -> wf_schema sub = true ->
    is_nil ((fix mloop (ms : list (str * json)) : list verr :=
               match ms with
               | [] => []
               | (mk, x) :: ms' =>
                   (if rx_search pat mk then map (push (PKey mk)) (E sub x) else []) ++ mloop ms'
               end) inst)
    = forallb (fun m => negb (rx_search pat (fst m)) || C sub (snd m)) inst.
  Proof.
    intros H Hw. induction inst as [|[mk x] inst IH]; [reflexivity|].
    cbn [forallb fst snd]. rewrite is_nil_app, IH.
    destruct (rx_search pat mk); cbn [negb orb]; [|reflexivity].
    rewrite is_nil_map, (H Hw). reflexivity.
  Qed.

  Lemma L_pprops pps inst :
    pprops_wf wf_schema pps = true -> (forall p sub, In (p, sub) pps -> agrees sub) ->
    is_nil (pprops_errs E pps inst)
    = forallb (fun ps => match ps with
                         | (p, sub) => forallb (fun m => negb (rx_search p (fst m)) || C sub (snd m)) inst
                         end) pps.
  Proof.
    induction pps as [|[p sub] pps IH]; intros Hwf H; [reflexivity|].
    cbn [pprops_wf] in Hwf. rewrite !andb_true_iff in Hwf. destruct Hwf as [[_ Hw1] Hw2].
    cbn [pprops_errs forallb]. rewrite is_nil_app.
    rewrite (L_members p sub inst (H p sub (or_introl eq_refl)) Hw1).
    f_equal. apply (IH Hw2 (fun p' s' Hin => H p' s' (or_intror Hin))).
  Qed.

  Lemma L_addl v extras :
    (forall x, is_nil (E v x) = C v x) ->
    is_nil (addl_errs E v extras) = forallb (fun m => C v (snd m)) extras.
  Proof.
    intros H. induction extras as [|[mk x] extras IH]; [reflexivity|].
    cbn [addl_errs forallb snd]. rewrite is_nil_app, is_nil_map, H. f_equal. exact IH.
  Qed.

  Lemma L_items_from v xs i :
    (forall x, is_nil (E v x) = C v x) ->
    is_nil ((fix iloop (xs : list json) (i : N) : list verr :=
               match xs with
               | [] => []
               | x :: xs' => map (push (PIdx i)) (E v x) ++ iloop xs' (N.succ i)
               end) xs i)
    = forallb (fun x => C v x) xs.
  Proof.
    intros H. revert i. induction xs as [|x xs IH]; intros i; [reflexivity|].
    cbn [forallb]. rewrite is_nil_app, is_nil_map, H, IH. reflexivity.
  Qed.

  Lemma L_tuple_from subs xs i :
    all_wf wf_schema subs = true -> (forall sub, In sub subs -> agrees sub) ->
    is_nil ((fix zloop (subs : list json) (xs : list json) (i : N) : list verr :=
               match subs, xs with
               | sub :: subs', x :: xs' => map (push (PIdx i)) (E sub x) ++ zloop subs' xs' (N.succ i)
               | _, _ => []
               end) subs xs i)
    = (fix positional (subs : list json) (xs : list json) : bool :=
         match subs, xs with
         | sub :: subs', x :: xs' => C sub x && positional subs' xs'
         | _, _ => true
         end) subs xs.
  Proof.
    revert xs i. induction subs as [|sub subs IH]; intros xs i Hwf H; [reflexivity|].
    cbn [all_wf] in Hwf. rewrite andb_true_iff in Hwf. destruct Hwf as [Hw1 Hw2].
    destruct xs as [|x xs]; [reflexivity|].
    rewrite is_nil_app, is_nil_map, (H sub (or_introl eq_refl) Hw1).
    f_equal. apply (IH xs (N.succ i) Hw2 (fun s' Hin => H s' (or_intror Hin))).
  Qed.

  Lemma L_allof subs j :
    all_wf wf_schema subs = true -> (forall sub, In sub subs -> agrees sub) ->
    is_nil (allof_errs E subs j) = forallb (fun sub => C sub j) subs.
  Proof.
    induction subs as [|sub subs IH]; intros Hwf H; [reflexivity|].
    cbn [all_wf] in Hwf. rewrite andb_true_iff in Hwf. destruct Hwf as [Hw1 Hw2].
    cbn [allof_errs forallb]. rewrite is_nil_app, (H sub (or_introl eq_refl) Hw1).
    f_equal. apply (IH Hw2 (fun s' Hin => H s' (or_intror Hin))).
  Qed.

  Lemma L_any subs j :
    all_wf wf_schema subs = true -> (forall sub, In sub subs -> agrees sub) ->
    any_valid E subs j = existsb (fun sub => C sub j) subs.
  Proof.
    induction subs as [|sub subs IH]; intros Hwf H; [reflexivity|].
    cbn [all_wf] in Hwf. rewrite andb_true_iff in Hwf. destruct Hwf as [Hw1 Hw2].
    cbn [any_valid existsb]. rewrite (H sub (or_introl eq_refl) Hw1).
    destruct (C sub j); cbn [orb]; [reflexivity|].
    apply (IH Hw2 (fun s' Hin => H s' (or_intror Hin))).
  Qed.

  Lemma L_flags subs j :
    all_wf wf_schema subs = true -> (forall sub, In sub subs -> agrees sub) ->
    valid_flags E subs j = map (fun sub => C sub j) subs.
  Proof.
    induction subs as [|sub subs IH]; intros Hwf H; [reflexivity|].
    cbn [all_wf] in Hwf. rewrite andb_true_iff in Hwf. destruct Hwf as [Hw1 Hw2].
    cbn [valid_flags map]. rewrite (H sub (or_introl eq_refl) Hw1).
    f_equal. apply (IH Hw2 (fun s' Hin => H s' (or_intror Hin))).
  Qed.

  (* jsonschema's oneOf loop accepts exactly when one alternative is valid *)
  Lemma count_true_0 l : Nat.eqb (count_true l) 0 = negb (existsb (fun b => b) l).
  Proof.
    induction l as [|b l IH]; [reflexivity|]. cbn [count_true existsb].
    destruct b; cbn [orb negb]; [reflexivity|exact IH].
  Qed.

  Lemma oneof_count l : oneof_ok l = Nat.eqb (count_true l) 1.
  Proof.
    induction l as [|b l IH]; [reflexivity|]. cbn [oneof_ok count_true].
    destruct b; [|exact IH]. rewrite <- count_true_0. reflexivity.
  Qed.

  Lemma od_mem_mem_str {A} k (l : list (str * A)) : od_mem k l = mem_str k (map fst l).
  Proof.
    induction l as [|[k' v] l IH]; [reflexivity|]. cbn [od_mem mem_str map fst]. rewrite IH. reflexivity.
  Qed.

  Lemma find_additional_spec kws inst : find_additional kws inst = additional_members rx_search kws inst.
  Proof.
    unfold find_additional, additional_members.
    unfold Schema.K_properties, Schema.K_patternProperties.
    apply filter_ext. intros [mk x]. cbn [fst].
    f_equal. f_equal. destruct (assoc (Str "properties") kws) as [[| | | | | |p]|]; try reflexivity.
    apply od_mem_mem_str.
  Qed.
End Equiv.

(* ------------------------------------------------------------------ leaf keywords *)
From MF Require Import Proofs.C09.

Lemma is_nil_if_here {A} (c : bool) (l : list A) : l <> [] -> is_nil (if c then l else []) = negb c.
Proof. destruct c, l; cbn; congruence. Qed.

Lemma is_nil_if_else (c : bool) kw : is_nil (if c then [] else here kw) = c.
Proof. destruct c; reflexivity. Qed.

Lemma is_type_has_type t j : is_type t j = has_type t j.
Proof.
  unfold is_type.
  destruct (str_eqb t (Str "array")) eqn:E1; [apply str_eqb_eq in E1; subst; destruct j; reflexivity|].
  destruct (str_eqb t (Str "boolean")) eqn:E2; [apply str_eqb_eq in E2; subst; destruct j; reflexivity|].
  destruct (str_eqb t (Str "integer")) eqn:E3; [apply str_eqb_eq in E3; subst; destruct j; reflexivity|].
  destruct (str_eqb t (Str "null")) eqn:E4; [apply str_eqb_eq in E4; subst; destruct j; reflexivity|].
  destruct (str_eqb t (Str "number")) eqn:E5; [apply str_eqb_eq in E5; subst; destruct j; reflexivity|].
  destruct (str_eqb t (Str "object")) eqn:E6; [apply str_eqb_eq in E6; subst; destruct j; reflexivity|].
  destruct (str_eqb t (Str "string")) eqn:E7; [apply str_eqb_eq in E7; subst; destruct j; reflexivity|].
  destruct j; cbn [has_type]; rewrite ?E1, ?E2, ?E3, ?E4, ?E5, ?E6, ?E7; reflexivity.
Qed.

Lemma type_list_exists l j :
  existsb (fun t => is_type t j) (flat_map (fun x => match x with JStr t => [t] | _ => [] end) l)
  = existsb (fun t => match t with JStr t => has_type t j | _ => false end) l.
Proof.
  induction l as [|x l IH]; [reflexivity|]. cbn [flat_map existsb]. rewrite existsb_app, IH.
  destruct x; cbn [existsb orb]; try reflexivity. rewrite is_type_has_type, orb_false_r. reflexivity.
Qed.

Lemma neqb_dle a b : neqb a b = dle a b && dle b a.
Proof.
  unfold neqb, dle, ncmp. rewrite (Z.min_comm (snd b) (snd a)).
  set (x := fst a * 10 ^ (snd a - Z.min (snd a) (snd b))).
  set (y := fst b * 10 ^ (snd b - Z.min (snd a) (snd b))).
  destruct (Z.compare_spec x y) as [H|H|H]; symmetry.
  - rewrite andb_true_iff, !Z.leb_le. lia.
  - rewrite andb_false_iff, !Z.leb_gt. lia.
  - rewrite andb_false_iff, !Z.leb_gt. lia.
Qed.

Lemma jequal_same m j : jequal m j = same_scalar m j.
Proof.
  destruct m, j; try reflexivity; cbn [jequal same_scalar json_dnum jnum]; apply neqb_dle.
Qed.

Lemma existsb_ext' {A} (f g : A -> bool) l : (forall x, f x = g x) -> existsb f l = existsb g l.
Proof. intros H. induction l as [|x l IH]; [reflexivity|]. cbn [existsb]. rewrite H, IH. reflexivity. Qed.

Lemma forallb_ext' {A} (f g : A -> bool) l : (forall x, f x = g x) -> forallb f l = forallb g l.
Proof. intros H. induction l as [|x l IH]; [reflexivity|]. cbn [forallb]. rewrite H, IH. reflexivity. Qed.

Lemma member_od_mem k (l : list (str * json)) : od_mem k l = member k l.
Proof. unfold member. apply od_mem_assoc. Qed.

(* evaluate the comparisons between two literal keyword names *)
Ltac ev_goal :=
  repeat match goal with
         | |- context [str_eqb ?a ?b] =>
             let r := eval vm_compute in (str_eqb a b) in
             lazymatch r with
             | true => change (str_eqb a b) with true
             | false => change (str_eqb a b) with false
             end
         end.
Ltac ev_in H :=
  repeat match type of H with
         | context [str_eqb ?a ?b] =>
             let r := eval vm_compute in (str_eqb a b) in
             lazymatch r with
             | true => change (str_eqb a b) with true in H
             | false => change (str_eqb a b) with false in H
             end
         end.

Ltac unfold_keys :=
  unfold Schema.K_type, K_enum, K_items, K_minimum, K_maximum, K_exclusiveMinimum, K_exclusiveMaximum,
    K_minItems, K_maxItems, K_minLength, K_maxLength, K_pattern, Schema.K_properties, K_patternProperties,
    K_additionalProperties, K_required, K_oneOf, K_anyOf, K_allOf, K_not in *.

Section Dispatch.
  Notation E := ierr.
  Notation C := (conforms rx_search).

  Lemma kw_equiv k v kws j :
    kw_wf wf_schema k v kws = true ->
    (forall sub, (jsize sub <= jsize v)%nat -> agrees sub) ->
    is_nil (kw_errs E k v kws j) = kw_holds rx_search C k v kws j.
  Proof.
    intros Hwf IH.
    assert (IHv : wf_schema v = true -> forall x, is_nil (E v x) = C v x) by (apply IH; lia).
    assert (IHo : forall l p sub, v = JObj l -> In (p, sub) l -> agrees sub).
    { intros l p sub -> Hin. apply IH. apply Nat.lt_le_incl. eapply jsize_obj_in; exact Hin. }
    assert (IHa : forall l sub, v = JArr l -> In sub l -> agrees sub).
    { intros l sub -> Hin. apply IH. apply Nat.lt_le_incl. eapply jsize_arr_in; exact Hin. }
    unfold kw_errs, kw_holds, kw_wf, leaf_errs, leaf_wf in *. unfold_keys.
    destruct (str_eqb k (Str "properties")) eqn:K1.
    { apply str_eqb_eq in K1. subst k. ev_goal. cbn [orb].
      destruct v as [| | | | | |props]; try discriminate. destruct j as [| | | | | |inst]; try reflexivity.
      apply L_props; [exact Hwf|]. intros p sub Hin. exact (IHo props p sub eq_refl Hin). }
    destruct (str_eqb k (Str "patternProperties")) eqn:K2.
    { apply str_eqb_eq in K2. subst k. ev_goal.
      destruct v as [| | | | | |pps]; try discriminate. destruct j as [| | | | | |inst]; try reflexivity.
      apply L_pprops; [exact Hwf|]. intros p sub Hin. exact (IHo pps p sub eq_refl Hin). }
    destruct (str_eqb k (Str "additionalProperties")) eqn:K3.
    { apply str_eqb_eq in K3. subst k. ev_goal.
      destruct v as [|b| | | | |sch]; try discriminate.
      - destruct j as [| | | | | |inst]; try reflexivity.
        destruct b; [reflexivity|].
        rewrite is_nil_if_else, find_additional_spec.
        destruct (additional_members rx_search kws inst); reflexivity.
      - destruct j as [| | | | | |inst]; try reflexivity.
        cbv beta. rewrite find_additional_spec. apply L_addl. exact (IHv Hwf). }
    destruct (str_eqb k (Str "items")) eqn:K4.
    { apply str_eqb_eq in K4. subst k. ev_goal.
      destruct v as [| | | | |subs|sch]; try discriminate.
      - destruct j as [| | | | |xs|]; try reflexivity.
        apply L_tuple_from; [exact Hwf|]. intros sub Hin. exact (IHa subs sub eq_refl Hin).
      - destruct j as [| | | | |xs|]; try reflexivity.
        apply L_items_from. exact (IHv Hwf). }
    destruct (str_eqb k (Str "allOf")) eqn:K5.
    { apply str_eqb_eq in K5. subst k. ev_goal. cbn [orb] in Hwf.
      destruct v as [| | | | |subs|]; try discriminate.
      apply L_allof; [exact Hwf|]. intros sub Hin. exact (IHa subs sub eq_refl Hin). }
    destruct (str_eqb k (Str "anyOf")) eqn:K6.
    { apply str_eqb_eq in K6. subst k. ev_goal. cbn [orb] in Hwf.
      destruct v as [| | | | |subs|]; try discriminate.
      rewrite is_nil_if_else. apply L_any; [exact Hwf|]. intros sub Hin. exact (IHa subs sub eq_refl Hin). }
    destruct (str_eqb k (Str "oneOf")) eqn:K7.
    { apply str_eqb_eq in K7. subst k. ev_goal. cbn [orb] in Hwf.
      destruct v as [| | | | |subs|]; try discriminate.
      rewrite is_nil_if_else, oneof_count. f_equal. f_equal.
      apply L_flags; [exact Hwf|]. intros sub Hin. exact (IHa subs sub eq_refl Hin). }
    cbn [orb] in Hwf.
    destruct (str_eqb k (Str "not")) eqn:K8.
    { apply str_eqb_eq in K8. subst k. ev_goal.
      rewrite (IHv Hwf j). destruct (C v j); reflexivity. }
    destruct (str_eqb k (Str "type")) eqn:K9.
    { apply str_eqb_eq in K9. subst k. ev_goal. rewrite is_nil_if_else.
      destruct v as [| | | |t|l|]; try discriminate.
      - cbn [type_list existsb]. rewrite is_type_has_type, orb_false_r. reflexivity.
      - cbn [type_list]. apply type_list_exists. }
    destruct (str_eqb k (Str "enum")) eqn:K10.
    { apply str_eqb_eq in K10. subst k. ev_goal.
      destruct v as [| | | | |ms|]; try discriminate.
      rewrite is_nil_if_else. apply existsb_ext'. intros m. apply jequal_same. }
    destruct (str_eqb k (Str "minimum")) eqn:K11.
    { apply str_eqb_eq in K11. subst k. ev_goal.
      change (json_dnum j) with (jnum j). change (json_dnum v) with (jnum v). rewrite andb_true_iff in Hwf. destruct Hwf as [_ Hx].
      destruct (jnum j) as [x|]; [|reflexivity]. destruct (jnum v) as [m|]; [|reflexivity].
      destruct (assoc (Str "exclusiveMinimum") kws) as [e|]; cbn [is_true].
      - destruct e as [|b| | | | |]; try discriminate. cbn [truthy]. destruct b.
        + rewrite is_nil_if_here by discriminate. rewrite nleb_dle. reflexivity.
        + rewrite is_nil_if_here by discriminate. rewrite nltb_nleb, negb_involutive, nleb_dle. reflexivity.
      - rewrite is_nil_if_here by discriminate. rewrite nltb_nleb, negb_involutive, nleb_dle. reflexivity. }
    destruct (str_eqb k (Str "maximum")) eqn:K12.
    { apply str_eqb_eq in K12. subst k. ev_goal.
      change (json_dnum j) with (jnum j). change (json_dnum v) with (jnum v). rewrite andb_true_iff in Hwf. destruct Hwf as [_ Hx].
      destruct (jnum j) as [x|]; [|reflexivity]. destruct (jnum v) as [m|]; [|reflexivity].
      destruct (assoc (Str "exclusiveMaximum") kws) as [e|]; cbn [is_true].
      - destruct e as [|b| | | | |]; try discriminate. cbn [truthy]. destruct b.
        + rewrite is_nil_if_here by discriminate. rewrite nleb_dle. reflexivity.
        + rewrite is_nil_if_here by discriminate. rewrite nltb_nleb, negb_involutive, nleb_dle. reflexivity.
      - rewrite is_nil_if_here by discriminate. rewrite nltb_nleb, negb_involutive, nleb_dle. reflexivity. }
    destruct (str_eqb k (Str "minItems")) eqn:K13.
    { apply str_eqb_eq in K13. subst k. ev_goal.
      destruct j as [| | | | |xs|]; try reflexivity. destruct v as [| |n| | | |]; try reflexivity.
      rewrite is_nil_if_here by discriminate. symmetry. apply Z.leb_antisym. }
    destruct (str_eqb k (Str "maxItems")) eqn:K14.
    { apply str_eqb_eq in K14. subst k. ev_goal.
      destruct j as [| | | | |xs|]; try reflexivity. destruct v as [| |n| | | |]; try reflexivity.
      rewrite is_nil_if_here by discriminate. symmetry. apply Z.leb_antisym. }
    destruct (str_eqb k (Str "minLength")) eqn:K15.
    { apply str_eqb_eq in K15. subst k. ev_goal.
      destruct j as [| | | |cs| |]; try reflexivity. destruct v as [| |n| | | |]; try reflexivity.
      rewrite is_nil_if_here by discriminate. symmetry. apply Z.leb_antisym. }
    destruct (str_eqb k (Str "maxLength")) eqn:K16.
    { apply str_eqb_eq in K16. subst k. ev_goal.
      destruct j as [| | | |cs| |]; try reflexivity. destruct v as [| |n| | | |]; try reflexivity.
      rewrite is_nil_if_here by discriminate. symmetry. apply Z.leb_antisym. }
    destruct (str_eqb k (Str "pattern")) eqn:K17.
    { apply str_eqb_eq in K17. subst k. ev_goal.
      destruct j as [| | | |cs| |]; try reflexivity. destruct v as [| | | |p| |]; try reflexivity.
      apply is_nil_if_else. }
    destruct (str_eqb k (Str "required")) eqn:K18.
    { apply str_eqb_eq in K18. subst k. ev_goal.
      destruct j as [| | | | | |obj]; try reflexivity. destruct v as [| | | | |names|]; try reflexivity.
      rewrite is_nil_flat_map. apply forallb_ext'. intros r. destruct r; try reflexivity.
      rewrite is_nil_if_else. apply member_od_mem. }
    reflexivity.
  Qed.
End Dispatch.

(* ------------------------------------------------------------------ iter_errors_complete *)
Lemma forallb_ext_in {A} (f g : A -> bool) l : (forall x, In x l -> f x = g x) -> forallb f l = forallb g l.
Proof.
  induction l as [|x l IH]; intros H; [reflexivity|]. cbn [forallb].
  rewrite (H x (or_introl eq_refl)), (IH (fun y Hy => H y (or_intror Hy))). reflexivity.
Qed.

Lemma ierr_conforms_size n : forall s, (jsize s < n)%nat -> agrees s.
Proof.
  induction n as [|n IH]; intros s Hs; [lia|].
  intros Hwf j. destruct s as [| | | | | |kws]; try discriminate Hwf.
  rewrite ierr_unfold, is_nil_flat_map, conforms_unfold.
  rewrite wf_unfold in Hwf. rewrite forallb_forall in Hwf.
  apply forallb_ext_in. intros [k v] Hin. cbn [fst snd].
  apply kw_equiv; [exact (Hwf _ Hin)|].
  intros sub Hle. apply IH. pose proof (jsize_obj_in k v kws Hin). lia.
Qed.

Lemma ierr_conforms s j : wf_schema s = true -> is_nil (ierr s j) = conforms rx_search s j.
Proof. intros H. exact (ierr_conforms_size (S (jsize s)) s (Nat.lt_succ_diag_r _) H j). Qed.

Lemma is_nil_true {A} (l : list A) : is_nil l = true <-> l = [].
Proof. destruct l; cbn; split; congruence. Qed.

Theorem iter_errors_complete_lemma s j :
  wf_schema s = true -> (ierr s j = [] <-> conforms rx_search s j = true).
Proof. intros H. rewrite <- (ierr_conforms s j H). symmetry. apply is_nil_true. Qed.

(* the model's view through the jsonref proxies is the specification's inlining *)
Lemma expand_inline n st : forall j, expand_n n st j = inline n st j.
Proof.
  induction n as [|n IHn]; [reflexivity|].
  intros j. induction j as [| | | | |l IH|l IH] using json_ind'; try reflexivity.
  - cbn [expand_n inline]. f_equal.
    induction IH as [|x l Hx _ IHl]; [reflexivity|]. cbn [map]. f_equal; [exact Hx|exact IHl].
  - cbn [expand_n inline]. unfold ref_target, jget, ref_key.
    destruct (assoc (Str "$ref") l) as [r|] eqn:Er.
    + destruct r as [| | | |f| |]; try (f_equal; induction IH as [|[k x] l' Hx _ IHl]; [reflexivity|]; cbn [map fst snd] in *; f_equal; [f_equal; exact Hx|exact IHl]).
      destruct (assoc f st) as [t|]; [apply IHn|reflexivity].
    + f_equal. induction IH as [|[k x] l' Hx _ IHl]; [reflexivity|]. cbn [map fst snd] in *. f_equal; [f_equal; exact Hx|exact IHl].
Qed.

Theorem iter_errors_store_lemma st root j errs :
  iter_errors st root j = Ok errs ->
  (errs = [] <-> conforms rx_search (inline (S (length st)) st root) j = true).
Proof.
  unfold iter_errors, expand. rewrite expand_inline.
  destruct (wf_schema (inline (S (length st)) st root)) eqn:Hwf; [|discriminate].
  intros [= <-]. apply iter_errors_complete_lemma. exact Hwf.
Qed.

(* ------------------------------------------------------------------ verdict of validate *)
Lemma get_error_messages_nil d errs : get_error_messages d errs = Ok [] <-> errs = [].
Proof.
  split; [|intros ->; reflexivity].
  destruct errs as [|e errs]; [reflexivity|]. cbn [get_error_messages].
  destruct (create_message d e); cbn [bind]; [|discriminate].
  destruct (get_error_messages d errs); cbn [bind]; discriminate.
Qed.

Definition not_list (d : value) : Prop := match d with VList _ => False | _ => True end.

Theorem validate_verdict_lemma tree d :
  wf_schema tree = true -> not_list d ->
  (run_validator tree d = Ok [] <-> conforms rx_search tree (to_json (convert_lowercase d)) = true).
Proof.
  intros Hwf Hd. unfold run_validator. rewrite Hwf.
  rewrite <- (iter_errors_complete_lemma tree _ Hwf).
  destruct d; try (destruct Hd); apply get_error_messages_nil.
Qed.

(* ------------------------------------------------------------------ a list is validated pointwise *)
Fixpoint res_concat {A} (l : list (res (list A))) : res (list A) :=
  match l with
  | [] => Ok []
  | r :: l' => do m <- r; do rest <- res_concat l'; Ok (m ++ rest)
  end.

Theorem list_is_pointwise_lemma tree ds :
  wf_schema tree = true ->
  run_validator tree (VList ds) = res_concat (map (_get_errors tree) ds).
Proof.
  intros Hwf. unfold run_validator. rewrite Hwf.
  induction ds as [|d ds IH]; [reflexivity|]. cbn [get_errors_list map res_concat]. rewrite IH. reflexivity.
Qed.
