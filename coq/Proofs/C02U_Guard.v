(* C02, universal part 3: every tree the parser returns satisfies the tree guard
   [TG] of Proofs/C02U_Rel.v, given only the LEXICAL guard [lexg] (a boolean
   function of the parse tree that reads the spelling of three kinds of key
   tokens).  Everything structural comes from the grammar-conformance theorems
   of Proofs/LRTyping.v and from C08U_Named.parse_tree_TKb:
     - the children of every node have shapes the tables allow (parse_tree_shaped),
     - key-bearing nodes start with their key token (TKb),
     - a composite node with a single child wraps a key-value block (new rule
       check [rule_comp_ok], below),
     - the root is a start node or a SYMBOLSET node with exactly one child.
   Every computation on the generated grammar is its own small Lemma. *)
From MF Require Import Lib.Base Lib.PyDict Lib.Regex Model.GrammarTypes Model.Lexer Model.LR
  Model.Case Model.Transformer Model.Api Gen.Tokens Gen.Grammar
  Proofs.LexFacts Proofs.ParseFacts Proofs.GrammarFacts Proofs.LRFacts Proofs.LRTyping Proofs.C13U Proofs.C08U
  Proofs.C08U_Named Proofs.C02U_Spec Proofs.C02U_Rel.
Open Scope N_scope.

Notation TC := (snd the_shapes).

(* ================================================================ the shape facts, one computation each *)
Lemma S_int : shapes_in [] true (get TC CB_int) = true. Proof. vm_compute. reflexivity. Qed.
Lemma S_float : shapes_in [] true (get TC CB_float) = true. Proof. vm_compute. reflexivity. Qed.
Lemma S_hexcolor : shapes_in [] true (get TC CB_hexcolor) = true. Proof. vm_compute. reflexivity. Qed.
Lemma S_string : shapes_in [] true (get TC CB_string) = true. Proof. vm_compute. reflexivity. Qed.
Lemma S_path : shapes_in [] true (get TC CB_path) = true. Proof. vm_compute. reflexivity. Qed.
Lemma S_regexp : shapes_in [] true (get TC CB_regexp) = true. Proof. vm_compute. reflexivity. Qed.
Lemma S_runtime_var : shapes_in [] true (get TC CB_runtime_var) = true. Proof. vm_compute. reflexivity. Qed.
Lemma S_compare_op : shapes_in [] true (get TC CB_compare_op) = true. Proof. vm_compute. reflexivity. Qed.
Lemma S_true : shapes_in [STok TM_TRUE] false (get TC CB_true) = true. Proof. vm_compute. reflexivity. Qed.
Lemma S_false : shapes_in [STok TM_FALSE] false (get TC CB_false) = true. Proof. vm_compute. reflexivity. Qed.
Lemma S_num_pair : shapes_in [SNode CB_int; SNode CB_float] false (get TC CB_num_pair) = true.
Proof. vm_compute. reflexivity. Qed.
Lemma S_string_pair : shapes_in [SNode CB_string] true (get TC CB_string_pair) = true.
Proof. vm_compute. reflexivity. Qed.
Lemma S_points : shapes_in [SNode CB_num_pair] true (get TC CB_points) = true. Proof. vm_compute. reflexivity. Qed.
Lemma S_pattern : shapes_in [SNode CB_num_pair] true (get TC CB_pattern) = true. Proof. vm_compute. reflexivity. Qed.
Lemma S_projection : shapes_in [SNode CB_string] true (get TC CB_projection) = true. Proof. vm_compute. reflexivity. Qed.
Lemma S_config : shapes_in [SNode CB_string] true (get TC CB_config) = true. Proof. vm_compute. reflexivity. Qed.
Lemma S_values : shapes_in [SNode CB_string_pair] true (get TC CB_values) = true. Proof. vm_compute. reflexivity. Qed.
Lemma S_metadata : shapes_in [SNode CB_string_pair] true (get TC CB_metadata) = true. Proof. vm_compute. reflexivity. Qed.
Lemma S_validation : shapes_in [SNode CB_string_pair] true (get TC CB_validation) = true.
Proof. vm_compute. reflexivity. Qed.
Lemma S_connectionoptions : shapes_in [SNode CB_string_pair] true (get TC CB_connectionoptions) = true.
Proof. vm_compute. reflexivity. Qed.
Lemma S_func_call : shapes_in [SNode CB_func_params] true (get TC CB_func_call) = true.
Proof. vm_compute. reflexivity. Qed.
Lemma S_composite_type : shapes_in [] true (get TC CB_composite_type) = true. Proof. vm_compute. reflexivity. Qed.
Lemma S_composite :
  shapes_in [SNode CB_values; SNode CB_metadata; SNode CB_validation; SNode CB_connectionoptions;
             SNode CB_composite_type; SNode CB_composite_body] false (get TC CB_composite) = true.
Proof. vm_compute. reflexivity. Qed.
Lemma S_start : shapes_in [SNode CB_composite] false (get TC CB_start) = true. Proof. vm_compute. reflexivity. Qed.
Lemma S_body :
  shapes_in [SNode CB_config; SNode CB_values; SNode CB_pattern; SNode CB_projection; SNode CB_points;
             SNode CB_attr; SNode CB_composite] false (get TC CB_composite_body) = true.
Proof. vm_compute. reflexivity. Qed.
Lemma S_symbolset : shapes_in [SNode CB_composite_body] false (get TC CB_symbolset) = true.
Proof. vm_compute. reflexivity. Qed.
Lemma S_comp_has_ctype : mem_shape (SNode CB_composite_type) (get TC CB_composite) = true.
Proof. vm_compute. reflexivity. Qed.
Lemma S_comp_has_body : mem_shape (SNode CB_composite_body) (get TC CB_composite) = true.
Proof. vm_compute. reflexivity. Qed.

(* the root symbol yields a start node or a symbolset node *)
Lemma S_root :
  forallb (fun s => shape_eqb s (SNode CB_start) || shape_eqb s (SNode CB_symbolset))
          (get (fst the_shapes) (acc the_grammar (g_end the_grammar))) = true.
Proof. vm_compute. reflexivity. Qed.

Lemma S_symbolset_arity : fixed_arity the_grammar CB_symbolset 1 = true.
Proof. vm_compute. reflexivity. Qed.

(* the statement of C02U_Rel for the generated grammar *)
Theorem transform_contract_grammar toks synth ip ic t x :
  TG toks TC t ->
  (exists d cs m, t = Node d cs m /\ (d = CB_start \/ (d = CB_symbolset /\ synth = true /\ cs <> []))) ->
  transform ip ic t = Ok x -> contract_from toks synth (tvv x).
Proof.
  apply (transform_contract toks synth TC S_int S_float S_hexcolor S_string S_path S_regexp S_runtime_var
           S_compare_op S_true S_false S_num_pair S_string_pair S_points S_pattern S_projection S_config
           S_values S_metadata S_validation S_connectionoptions S_func_call S_composite_type S_composite
           S_start S_body S_symbolset).
  - exact (proj1 (mem_shape_In (SNode CB_composite_type) (get TC CB_composite)) S_comp_has_ctype).
  - exact (proj1 (mem_shape_In (SNode CB_composite_body) (get TC CB_composite)) S_comp_has_body).
Qed.

(* ================================================================ a composite node with one child wraps a key-value block *)
Definition kv_node_shape (s : shape) : bool := match s with SNode d => is_kv d | STok _ => false end.

Definition rule_comp_ok (A : tbl) (r : rule_info) : bool :=
  negb (r_name r =? CB_composite) ||
  match r_filter r with
  | None => match r_expansion r with
            | [x] => forallb kv_node_shape (get A x)
            | l => negb (Nat.eqb (length l) 1)
            end
  | Some inc => no_inline inc && negb (Nat.eqb (length inc) 1)
  end.

Definition comp_node_ok (d : N) (cs : list tree) : bool :=
  negb (d =? CB_composite) || negb (Nat.eqb (length cs) 1) ||
  match cs with Node d' _ _ :: _ => is_kv d' | _ => false end.

Fixpoint cpb (t : tree) : bool :=
  match t with
  | Tok _ => true
  | Node d cs _ => comp_node_ok d cs && forallb cpb cs
  end.

Section Comp.
  Variable g : grammar.
  Variables A C : tbl.
  Hypothesis Hclosed : closed g A C = true.
  Hypothesis Hrules : forallb (rule_comp_ok A) (g_rules g) = true.

  Lemma node_comp_ok r vals cs :
    In r (g_rules g) -> Forall2 (has_sym g) (r_expansion r) vals -> filtered r vals = Ok cs ->
    comp_node_ok (r_name r) cs = true.
  Proof.
    intros Hin HF Hf. rewrite forallb_forall in Hrules. specialize (Hrules r Hin).
    unfold rule_comp_ok in Hrules. unfold comp_node_ok. destruct (r_name r =? CB_composite); [|reflexivity].
    cbn [negb orb] in *. unfold filtered in Hf. destruct (r_filter r) as [inc|].
    - apply andb_true_iff in Hrules. destruct Hrules as [Hn Hl].
      rewrite (apply_filter_length vals inc cs Hn Hf). rewrite Hl. reflexivity.
    - injection Hf as <-. destruct HF as [|x v l l' Hxv HF]; [reflexivity|].
      destruct HF as [|x2 v2 l l' Hxv2 HF].
      + destruct (has_sym_shaped g A C Hclosed x v Hxv) as [Hsh _].
        rewrite forallb_forall in Hrules. specialize (Hrules _ Hsh).
        destruct v as [tk|d' cs' m']; [discriminate Hrules|]. cbn [length Nat.eqb negb orb]. exact Hrules.
      + reflexivity.
  Qed.

  Theorem conforms_cpb : forall t, conforms g t -> cpb t = true.
  Proof.
    fix IH 1. intros t Hc. destruct t as [tk|d cs m]; [reflexivity|].
    inversion Hc as [|r vals cs' m' Hin HF Hf Hcs]; subst.
    cbn [cpb]. apply andb_true_iff. split; [eapply node_comp_ok; eassumption|].
    clear Hf Hc. induction cs as [|c cs IHcs]; [reflexivity|].
    cbn [forallb]. apply andb_true_iff. split.
    - apply IH. exact (Forall_inv Hcs).
    - apply IHcs. exact (Forall_inv_tail Hcs).
  Qed.
End Comp.

Lemma the_grammar_rules_comp_ok : forallb (rule_comp_ok (fst the_shapes)) (g_rules the_grammar) = true.
Proof. vm_compute. reflexivity. Qed.

Lemma comp_node_ok_strip d cs : comp_node_ok d (map LRTyping.strip cs) = comp_node_ok d cs.
Proof.
  unfold comp_node_ok. rewrite map_length. destruct cs as [|[tk|d' cs' m'] cs]; reflexivity.
Qed.

Lemma cpb_strip : forall t, cpb (LRTyping.strip t) = cpb t.
Proof.
  induction t as [tk|d cs m IH] using tree_ind'; [reflexivity|].
  cbn [LRTyping.strip cpb]. rewrite comp_node_ok_strip. f_equal. apply forallb_map_ext. exact IH.
Qed.

Theorem parse_tree_cpb ic text t : parse_tree ic text = Ok t -> cpb t = true.
Proof.
  intros H. destruct (parse_tree_conforms ic text t H) as (t0 & _ & Hc & Hst & _).
  rewrite <- cpb_strip, Hst, cpb_strip.
  eapply (conforms_cpb the_grammar (fst the_shapes) (snd the_shapes));
    [exact the_grammar_shapes_closed|exact the_grammar_rules_comp_ok|exact Hc].
Qed.

(* ================================================================ the root *)
Theorem parse_tree_root ic text t :
  parse_tree ic text = Ok t ->
  exists d cs m, t = Node d cs m /\ (d = CB_start \/ (d = CB_symbolset /\ cs <> [])).
Proof.
  intros H. destruct (parse_tree_conforms ic text t H) as (t0 & Hs & Hc & Hst & _).
  destruct (has_sym_shaped the_grammar _ _ the_grammar_shapes_closed _ _ Hs) as [Hin _].
  pose proof S_root as Hr. rewrite forallb_forall in Hr. specialize (Hr _ Hin).
  assert (Hshape : shape_of t = shape_of t0) by (rewrite <- (shape_of_strip t), Hst; apply shape_of_strip).
  rewrite <- Hshape in Hr.
  destruct t as [tk|d cs m]; [cbn in Hr; discriminate Hr|]. exists d, cs, m. split; [reflexivity|].
  cbn [shape_of] in Hr. apply orb_true_iff in Hr. destruct Hr as [Hr|Hr]; apply shape_eqb_eq in Hr; injection Hr as ->.
  - left. reflexivity.
  - right. split; [reflexivity|].
    destruct t0 as [tk0|d0 cs0 m0]; [discriminate Hst|]. cbn [LRTyping.strip] in Hst. injection Hst as Hd Hcs.
    subst d0. pose proof (conforms_arity the_grammar CB_symbolset 1 cs0 m0 S_symbolset_arity Hc) as Hlen.
    intros ->. cbn [map] in Hcs. destruct cs0; [discriminate Hlen|discriminate Hcs].
Qed.

(* ================================================================ the lexical guard *)
Definition AKb (k : str) : bool := match family k with FAttr | FRep => true | _ => false end.

Definition lex_node_ok (d : N) (cs : list tree) : bool :=
  (if d =? CB_composite_type
   then forallb (fun c => match c with Tok tk => mem_str (lower (tval tk)) CTYPES | Node _ _ _ => true end) cs
   else true)
  && (if d =? CB_attr then match cs with Tok tk :: _ => AKb (lower (tval tk)) | _ => true end else true)
  && (if d =? CB_config then match cs with Tok tk :: _ => str_eqb (lower (tval tk)) s_config | _ => true end else true).

(* the spelling of: block keywords (one of the 19 composite_type keywords), the
   attribute names (not spelled like a key composite() files blocks, CONFIG,
   POINTS, PATTERN, PROJECTION or __type__ under), the CONFIG keyword *)
Fixpoint lexg (t : tree) : bool :=
  match t with
  | Tok _ => true
  | Node d cs _ => lex_node_ok d cs && forallb lexg cs
  end.

Lemma lex_node_ok_strip d cs : lex_node_ok d (map LRTyping.strip cs) = lex_node_ok d cs.
Proof.
  unfold lex_node_ok. f_equal; [f_equal|].
  - destruct (d =? CB_composite_type); [|reflexivity]. apply forallb_map_ext.
    apply Forall_forall. intros c _. destruct c; reflexivity.
  - destruct (d =? CB_attr); [|reflexivity]. destruct cs as [|[tk|? ? ?] cs]; reflexivity.
  - destruct (d =? CB_config); [|reflexivity]. destruct cs as [|[tk|? ? ?] cs]; reflexivity.
Qed.

Lemma lexg_strip : forall t, lexg (LRTyping.strip t) = lexg t.
Proof.
  induction t as [tk|d cs m IH] using tree_ind'; [reflexivity|].
  cbn [LRTyping.strip lexg]. rewrite lex_node_ok_strip. f_equal. apply forallb_map_ext. exact IH.
Qed.

Lemma parse_tree_lexg ic text po t :
  parse_text the_grammar the_hook ic text = Ok po -> parse_tree ic text = Ok t -> lexg t = lexg (po_tree po).
Proof.
  intros H1 H2. unfold parse_tree in H2. rewrite H1 in H2. cbn [bind] in H2. injection H2 as <-.
  destruct ic; [|reflexivity]. rewrite <- lexg_strip, assign_comments_strip, lexg_strip. reflexivity.
Qed.

(* ================================================================ the tree guard, from the boolean checks *)
Lemma key_bearing_attr : key_bearing CB_attr = true. Proof. reflexivity. Qed.
Lemma key_bearing_config : key_bearing CB_config = true. Proof. reflexivity. Qed.

Lemma AKb_family k : AKb k = true -> family k = FAttr \/ family k = FRep.
Proof. unfold AKb. destruct (family k); try discriminate; auto. Qed.

Theorem TG_of_checks toks : forall t,
  incl (leaves t) toks -> shaped TC t = true -> TKb t = true -> cpb t = true -> lexg t = true -> TG toks TC t.
Proof.
  induction t as [tk|d cs m IH] using tree_ind'; intros Hl Hs Hk Hc Hx.
  - cbn [TG]. apply Hl. left. reflexivity.
  - cbn [shaped] in Hs. apply andb_true_iff in Hs. destruct Hs as [Hs1 Hs2].
    cbn [TKb] in Hk. apply andb_true_iff in Hk. destruct Hk as [Hk1 Hk2].
    cbn [cpb] in Hc. apply andb_true_iff in Hc. destruct Hc as [Hc1 Hc2].
    cbn [lexg] in Hx. apply andb_true_iff in Hx. destruct Hx as [Hx1 Hx2].
    apply TG_node. split; [|split].
    + rewrite Forall_forall in IH. apply Forall_forall. intros c Hin.
      rewrite forallb_forall in Hs2, Hk2, Hc2, Hx2. apply IH; auto.
      intros tk Htk. apply Hl. cbn [leaves]. apply in_flat_map. exists c. auto.
    + apply Forall_forall. intros c Hin. rewrite forallb_forall in Hs1. apply mem_shape_In. apply Hs1. exact Hin.
    + unfold lex_node_ok in Hx1. apply andb_true_iff in Hx1. destruct Hx1 as [Hx1 Hx3].
      apply andb_true_iff in Hx1. destruct Hx1 as [Hx1 Hx2'].
      split; [|split].
      * intros ->. rewrite N.eqb_refl in Hx1. rewrite forallb_forall in Hx1. apply Forall_forall.
        intros c Hin. specialize (Hx1 c Hin). destruct c; [exact Hx1|exact I].
      * intros Hd.
        assert (Hkb : key_bearing d = true) by (destruct Hd as [-> | ->]; reflexivity).
        rewrite Hkb in Hk1. cbn [negb orb] in Hk1. apply orb_true_iff in Hk1.
        destruct Hk1 as [Hk1|Hk1]; [left; apply Nat.eqb_eq; exact Hk1|right].
        destruct cs as [|c cs]; [exact I|]. destruct c as [tk|d1 cs1 m1]; cbn [thdform key_first] in *.
        -- split.
           ++ intros ->. rewrite N.eqb_refl in Hx2'. apply AKb_family. exact Hx2'.
           ++ intros ->. rewrite N.eqb_refl in Hx3. apply str_eqb_eq. exact Hx3.
        -- destruct cs1 as [|[tk|? ? ?] cs1]; try discriminate Hk1. apply N.eqb_eq. exact Hk1.
      * intros -> Hlen. unfold comp_node_ok in Hc1. rewrite N.eqb_refl, Hlen in Hc1. cbn [Nat.eqb negb orb] in Hc1.
        destruct cs as [|c [|c2 cs]]; try discriminate Hlen.
        destruct c as [tk|d' cs' m']; [discriminate Hc1|]. eexists _, _, _. split; [reflexivity|exact Hc1].
Qed.

Theorem parse_tree_TG ic text po t :
  parse_text the_grammar the_hook ic text = Ok po -> parse_tree ic text = Ok t ->
  lexg (po_tree po) = true -> TG (leaves (po_tree po)) TC t.
Proof.
  intros Hp Ht Hx. destruct (parse_tree_of_parse_text ic text po t Hp Ht) as [Hl _].
  apply TG_of_checks.
  - rewrite Hl. apply incl_refl.
  - eapply parse_tree_shaped. exact Ht.
  - eapply parse_tree_TKb. exact Ht.
  - eapply parse_tree_cpb. exact Ht.
  - rewrite (parse_tree_lexg ic text po t Hp Ht). exact Hx.
Qed.
