(* C02, universal part 2: the LOGICAL PREDICATE.

   [PV] (on transformer values) says: tokens carry values derived from source
   tokens ([pl]), attribute dicts hold one keyword with a value of the form its
   family prescribes, block dicts / key-value blocks have images in final data
   satisfying Proofs/C02U_Spec.v.  It is preserved by all 48 callbacks of
   Model/Transformer.v, for every include_position / include_comments, given
   the kinds of the arguments ([AKd]: what the shape tables of
   Proofs/LRTyping.v allow as children of a node named d, [NK]: what a node
   named d' returns) and three local guards on key tokens ([KA] attribute names
   are ordinary, [KC] the CONFIG keyword is spelled config, [KB] block keywords
   are block type names).  Then lifted to tr_main, the comments pass and
   transform ([PG] on trees).

   Generic in the shape table C: the facts about C that are used are section
   hypotheses (H_...), each discharged in Proofs/C02U_Guard.v by one
   vm_compute on the generated grammar. *)
From MF Require Import Lib.Base Lib.PyDict Lib.PyNum Lib.Regex Model.GrammarTypes Model.Lexer Model.LR
  Model.Case Model.Transformer Model.Api Gen.Tokens Gen.Grammar
  Proofs.CaseFacts Proofs.LexFacts Proofs.ParseFacts Proofs.GrammarFacts Proofs.C11 Proofs.C13U Proofs.C08U
  Proofs.LRTyping Proofs.C02U_Spec.
Open Scope N_scope.

(* ================================================================ generic lemmas *)
Definition tvi (items : titems) : list (str * value) := map (fun kv => (fst kv, tvv (snd kv))) items.

Lemma keys_tvi items : keys (tvi items) = keys items.
Proof. unfold keys, tvi. rewrite map_map. reflexivity. Qed.

Lemma assoc_tvi k items : assoc k (tvi items) = option_map tvv (assoc k items).
Proof. apply (assoc_map_snd tvv). Qed.

Lemma tvi_app a b : tvi (a ++ b) = tvi a ++ tvi b.
Proof. apply map_app. Qed.

Lemma od_mem_tvi k items : od_mem k (tvi items) = od_mem k items.
Proof. rewrite !od_mem_assoc, assoc_tvi. destruct (assoc k items); reflexivity. Qed.

Lemma tvi_od_replace k y items : tvi (od_replace k y items) = od_replace k (tvv y) (tvi items).
Proof.
  induction items as [|[k' y'] items IH]; [reflexivity|]. cbn [od_replace tvi map fst snd].
  destruct (str_eqb k k'); cbn [map fst snd]; [reflexivity|]. f_equal. exact IH.
Qed.

Lemma tvi_od_set k y items : tvi (od_set k y items) = od_set k (tvv y) (tvi items).
Proof.
  unfold od_set. rewrite od_mem_tvi. destruct (od_mem k items); [apply tvi_od_replace|].
  rewrite tvi_app. reflexivity.
Qed.

Lemma scalar_nodict v : scalar v -> nodict v = true.
Proof. destruct v; cbn; try reflexivity; intros []. Qed.

Lemma Forall_scalar_nodict l : Forall scalar l -> forallb nodict l = true.
Proof. induction 1 as [|v l Hv _ IH]; [reflexivity|]. cbn [forallb]. rewrite (scalar_nodict v Hv), IH. reflexivity. Qed.

Lemma hd_od_set {A} k (v : A) k0 v0 rest :
  exists v1 rest1, od_set k v ((k0, v0) :: rest) = (k0, v1) :: rest1 /\ (k <> k0 -> v1 = v0).
Proof.
  unfold od_set. destruct (od_mem k ((k0, v0) :: rest)).
  - cbn [od_replace]. destruct (str_eqb_spec k k0) as [->|Hne].
    + eexists _, _. split; [reflexivity|]. intros H. contradiction H. reflexivity.
    + eexists _, _. split; [reflexivity|]. reflexivity.
  - eexists _, _. cbn [app]. split; [reflexivity|reflexivity].
Qed.

Lemma mapM_length {A B} (f : A -> res B) l : forall l', mapM f l = Ok l' -> length l' = length l.
Proof.
  induction l as [|x l IH]; intros l' H; cbn [mapM] in H.
  - injection H as <-. reflexivity.
  - destruct (f x); cbn [bind] in H; [|discriminate]. destruct (mapM f l) as [ys|]; cbn [bind] in H; [|discriminate].
    injection H as <-. cbn [length]. f_equal. apply IH. reflexivity.
Qed.

Lemma mapM_Forall2 {A B} (f : A -> res B) l : forall l', mapM f l = Ok l' -> Forall2 (fun x y => f x = Ok y) l l'.
Proof.
  induction l as [|x l IH]; intros l' H; cbn [mapM] in H.
  - injection H as <-. constructor.
  - destruct (f x) as [y|] eqn:E; cbn [bind] in H; [|discriminate].
    destruct (mapM f l) as [ys|]; cbn [bind] in H; [|discriminate].
    injection H as <-. constructor; [exact E|apply IH; reflexivity].
Qed.

(* the body mapping of check_composite_tokens *)
Definition cctf (t : tv) : res tv :=
  match t with
  | TDict _ items => match assoc s_tokens items with Some x => Ok x | None => vfail end
  | _ => Ok t
  end.

Definition notdict (x : tv) : Prop := match x with TDict _ _ => False | _ => True end.

Lemma mapM_cctf_id l : forall l', Forall notdict l -> mapM cctf l = Ok l' -> l' = l.
Proof.
  induction l as [|x l IH]; intros l' HF H; cbn [mapM] in H.
  - injection H as <-. reflexivity.
  - destruct (cctf x) as [y|] eqn:E; cbn [bind] in H; [|discriminate].
    destruct (mapM cctf l) as [ys|] eqn:E2; cbn [bind] in H; [|discriminate].
    injection H as <-. rewrite (IH ys (Forall_inv_tail HF) eq_refl).
    pose proof (Forall_inv HF) as Hx. destruct x; try (injection E as <-; reflexivity). contradiction.
Qed.

Lemma cct_inv name tokens key body :
  check_composite_tokens name tokens = Ok (key, body) ->
  exists rest, tokens = TTok key :: rest /\ key_name key = Ok name /\ rest <> [] /\
               mapM cctf (removelast rest) = Ok body.
Proof.
  unfold check_composite_tokens. intros H.
  destruct tokens as [|k [|r rest]]; try discriminate.
  destruct (tok_of k) as [key0|e] eqn:Ek; cbn [bind] in H; [|discriminate].
  destruct (tok_str key0) as [ks|e] eqn:Es; cbn [bind] in H; [|discriminate].
  destruct (last_opt (r :: rest)) as [la|]; cbn [bind] in H; [|discriminate].
  destruct (tok_of la) as [lastt|e]; cbn [bind] in H; [|discriminate].
  destruct (tok_str lastt) as [ls|e]; cbn [bind] in H; [|discriminate].
  destruct (str_eqb_spec (lower ks) name) as [Hn|]; cbn [andb] in H; [|discriminate].
  destruct (str_eqb (lower ls) s_end); [|discriminate].
  match type of H with bind ?r _ = _ => destruct r as [bt|e] eqn:Eb end; cbn [bind] in H; [|discriminate].
  injection H as <- <-. destruct k; try discriminate. injection Ek as ->.
  exists (r :: rest). split; [reflexivity|]. split; [|split; [discriminate|exact Eb]].
  unfold key_name. rewrite Es. cbn [bind]. rewrite Hn. reflexivity.
Qed.

(* depth of nested number lists, whatever the fuel *)
Lemma depth_number f a d : number a -> depth_fuel f a = Ok d -> d = 0%Z.
Proof.
  intros Hn H. destruct f as [|f]; [discriminate H|].
  destruct a; try contradiction; cbn in H; injection H as <-; reflexivity.
Qed.

(* ================================================================ the predicate *)
Section Rel.
  Variable toks : list token.
  Variable synth : bool.
  Variable C : tbl.

  Notation LF := (leaf toks synth).
  Notation PL := (pl toks synth).
  Notation NV := (numv toks).
  Notation CV := (cleanv toks).
  Notation KV := (kvkey toks).

  Definition entry_p : str -> value -> Prop := entry_ok LF PL NV CV KV.
  Definition blockp : list (str * value) -> Prop := blockv LF PL NV CV KV.
  Definition kvblockp : list (str * value) -> Prop := kvblockv CV KV.
  Definition gattrp : value -> Prop := gattrv LF PL.
  Definition pairsp : value -> Prop := pairsv NV.
  Definition pairp : value -> Prop := pairv NV.

  (* ---------------------------------------------------------------- tokens *)
  Definition ORIG (t : ptok) : Prop := orig_text toks synth (pk_orig t).
  Definition TOK (t : ptok) : Prop := ORIG t /\ PL (pk_val t).

  Definition REAL (t : ptok) : Prop := exists tk, In tk toks /\ t = ptok_of tk.
  (* a token of the tree, or the synthetic "symbolset" token Canonize creates *)
  Definition RAWS (t : ptok) : Prop := REAL t \/ (synth = true /\ t = synth_tok).

  Lemma REAL_TOK t : REAL t -> TOK t.
  Proof.
    intros (tk & Hin & ->). split; [left; exists tk; split; [exact Hin|reflexivity]|].
    left. cbn. apply P_raw. exact Hin.
  Qed.

  Lemma RAWS_TOK t : RAWS t -> TOK t.
  Proof.
    intros [H|(Hs & ->)]; [apply REAL_TOK; exact H|].
    split; [right; split; [exact Hs|reflexivity]|left; cbn; apply P_synth; exact Hs].
  Qed.

  Lemma TOK_set t v : TOK t -> PL v -> TOK (set_val t v).
  Proof. intros [H1 _] Hv. split; [exact H1|exact Hv]. Qed.

  (* ---------------------------------------------------------------- dicts *)
  Definition cfg1 (V : value) : Prop :=
    exists ka vb, V = VDict DPlain [(ka, vb)] /\ KV (lower ka) /\ CV vb.

  (* the value an attribute dict holds under its keyword *)
  Definition akind (kn : str) (V : value) : Prop :=
    match family kn with
    | FConfig => cfg1 V
    | FPoints => pairsp V
    | FRep => gattrp V
    | FAttr | FPattern | FProjection => entry_p kn V
    | _ => False
    end.

  Definition attrd (items : titems) : Prop :=
    NoDup (keys items) /\ assoc s_type items = None /\
    exists kn V, lower kn = kn /\ akind kn V /\ assoc kn items = Some (TVal V) /\
      (forall k, In k (keys items) -> k = kn \/ bk k = true).

  Definition cfgform (items : titems) : Prop :=
    forall y, assoc s_config items = Some y -> exists ci, y = TDict (DCI true) ci.

  (* the transformer-level form of the entries of a finished dict *)
  Definition fin1 (z : tv) : Prop :=
    match z with TVal _ => True | TDict c _ => c = DCI true | _ => False end.
  Definition fin (y : tv) : Prop :=
    match y with
    | TVal _ => True
    | TDict c _ => c = DCI true
    | TSeq l => Forall fin1 l
    | TTok _ => False
    end.
  Definition finF (items : titems) : Prop := Forall (fun kv => skipk (fst kv) = true \/ fin (snd kv)) items.

  Definition tdict_ok (c : dcls) (items : titems) : Prop :=
    (c = DPlain /\ attrd items) \/
    (c = DCI true /\ finF items /\ ((blockp (tvi items) /\ cfgform items) \/ kvblockp (tvi items))).

  Fixpoint PV (x : tv) : Prop :=
    match x with
    | TVal v => nodict v = true
    | TTok t => TOK t
    | TSeq l => (fix go (l : list tv) : Prop := match l with [] => True | y :: l' => PV y /\ go l' end) l
    | TDict c items =>
        (fix go (l : list (str * tv)) : Prop :=
           match l with
           | [] => True
           | (k, y) :: l' => (skipk k = true \/ PV y) /\ go l'
           end) items
        /\ tdict_ok c items
    end.

  Definition kidsV (items : titems) : Prop := Forall (fun kv => skipk (fst kv) = true \/ PV (snd kv)) items.

  Lemma PV_seq l : PV (TSeq l) <-> Forall PV l.
  Proof.
    cbn [PV]. induction l as [|y l IH]; [split; [constructor|exact (fun _ => I)]|].
    rewrite IH. split; [intros [H1 H2]; constructor; assumption|intros H; inversion H; subst; tauto].
  Qed.

  Lemma PV_dict c items : PV (TDict c items) <-> kidsV items /\ tdict_ok c items.
  Proof.
    cbn [PV]. unfold kidsV.
    assert (H : (fix go (l : list (str * tv)) : Prop :=
                   match l with
                   | [] => True
                   | (k, y) :: l' => (skipk k = true \/ PV y) /\ go l'
                   end) items <-> Forall (fun kv => skipk (fst kv) = true \/ PV (snd kv)) items).
    { induction items as [|[k y] l IH]; [split; [constructor|exact (fun _ => I)]|].
      rewrite IH. split; [intros [H1 H2]; constructor; assumption|intros H; inversion H; subst; tauto]. }
    rewrite H. tauto.
  Qed.

  Lemma PV_set a v : PV (TTok a) -> PL v -> PV (TTok (set_val a v)).
  Proof. intros H Hv. apply TOK_set; assumption. Qed.

  Lemma kidsV_set k v items : skipk k = true \/ PV v -> kidsV items -> kidsV (od_set k v items).
  Proof. intros Hv HF. apply Forall_od_set; assumption. Qed.

  Lemma finF_set k v items : skipk k = true \/ fin v -> finF items -> finF (od_set k v items).
  Proof. intros Hv HF. apply Forall_od_set; assumption. Qed.

  Lemma kidsV_get k v items : kidsV items -> assoc k items = Some v -> skipk k = true \/ PV v.
  Proof. intros HF Ha. exact (assoc_Forall' (fun k v => skipk k = true \/ PV v) k v items HF Ha). Qed.

  (* ---------------------------------------------------------------- kinds of callback results *)
  Definition KA (t : ptok) : Prop := forall kn, key_name t = Ok kn -> family kn = FAttr \/ family kn = FRep.
  Definition KC (t : ptok) : Prop := forall kn, key_name t = Ok kn -> kn = s_config.
  Definition KB (t : ptok) : Prop := forall kn, key_name t = Ok kn -> mem_str kn CTYPES = true.

  Definition realtok (x : tv) : Prop := exists t, x = TTok t /\ REAL t.
  Definition numtok (x : tv) : Prop := exists t, x = TTok t /\ ORIG t /\ NV (pk_val t).
  Definition ctok (x : tv) : Prop := exists t, x = TTok t /\ RAWS t /\ KB t.
  Definition isblk (x : tv) : Prop := exists items, x = TDict (DCI true) items.
  Definition isdict (x : tv) : Prop := exists c items, x = TDict c items.

  Definition is_kv (d : N) : bool :=
    (d =? CB_values) || (d =? CB_metadata) || (d =? CB_validation) || (d =? CB_connectionoptions).
  Definition is_first (d : N) : bool :=
    (d =? CB_string) || (d =? CB_path) || (d =? CB_regexp) || (d =? CB_runtime_var) || (d =? CB_compare_op).
  Definition is_attrlike (d : N) : bool :=
    (d =? CB_attr) || (d =? CB_config) || (d =? CB_points) || (d =? CB_pattern) || (d =? CB_projection).

  (* what a node named d returns *)
  Definition NK (d : N) (x : tv) : Prop :=
    if (d =? CB_int) || (d =? CB_float) then numtok x
    else if is_first d then realtok x
    else if d =? CB_num_pair then exists a b, x = TSeq [a; b] /\ numtok a /\ numtok b
    else if d =? CB_string_pair then exists a b, x = TSeq [a; b] /\ realtok a /\ realtok b
    else if d =? CB_composite_type then exists l, x = TSeq l /\ Forall ctok l
    else if d =? CB_composite_body then exists l, x = TSeq l /\ Forall isdict l
    else if d =? CB_func_params then exists s, x = TVal (VStr s) /\ eparams toks synth s
    else if is_kv d || (d =? CB_composite) then isblk x
    else if is_attrlike d then isdict x
    else if d =? CB_start then isblk x \/ exists l, x = TSeq l /\ Forall isblk l
    else True.

  (* what may be handed to the callback of a node named d *)
  Definition rawarg (d : N) (t : ptok) : Prop :=
    (exists tk, In tk toks /\ t = ptok_of tk /\ In (STok (ttype tk)) (get C d)) \/
    (synth = true /\ t = synth_tok /\ d = CB_composite_type).
  Definition AKd (d : N) (y : tv) : Prop :=
    (exists t, y = TTok t /\ rawarg d t) \/ (exists d', In (SNode d') (get C d) /\ NK d' y).

  (* every shape of l is a token (when anytok) or one of [allowed] *)
  Definition shapes_in (allowed : list shape) (anytok : bool) (l : list shape) : bool :=
    forallb (fun s => (match s with STok _ => anytok | SNode _ => false end) || mem_shape s allowed) l.

  Lemma shapes_in_In allowed anytok l s :
    shapes_in allowed anytok l = true -> In s l ->
    (anytok = true /\ exists ty, s = STok ty) \/ In s allowed.
  Proof.
    unfold shapes_in. rewrite forallb_forall. intros H Hin. specialize (H s Hin).
    apply orb_true_iff in H. destruct H as [H|H]; [left|right; apply mem_shape_In; exact H].
    destruct s as [ty|d]; [|discriminate]. split; [exact H|exists ty; reflexivity].
  Qed.

  Lemma AKd_cases d allowed anytok y :
    d <> CB_composite_type -> shapes_in allowed anytok (get C d) = true -> AKd d y ->
    (anytok = true /\ exists tk, In tk toks /\ y = TTok (ptok_of tk) /\ In (STok (ttype tk)) (get C d)) \/
    (exists tk, In tk toks /\ y = TTok (ptok_of tk) /\ In (STok (ttype tk)) allowed) \/
    (exists d', In (SNode d') allowed /\ NK d' y).
  Proof.
    intros Hd Hs [(t & -> & [(tk & Htk & -> & Hin)|(_ & _ & Hc)])|(d' & Hin & Hn)]; [| contradiction |].
    - destruct (shapes_in_In _ _ _ _ Hs Hin) as [[Ha _]|Ha].
      + left. split; [exact Ha|]. exists tk. auto.
      + right; left. exists tk. auto.
    - destruct (shapes_in_In _ _ _ _ Hs Hin) as [[_ (ty & Hty)]|Ha]; [discriminate Hty|].
      right; right. exists d'. auto.
  Qed.

  (* ================================================================ token callbacks *)
  Notation ES := (estr toks synth).

  Lemma tok_of_PV x t : PV x -> tok_of x = Ok t -> TOK t.
  Proof. destruct x; try discriminate. intros H [= <-]. exact H. Qed.

  Lemma tv_dot_value_PV x v : PV x -> tv_dot_value x = Ok v -> PL v.
  Proof. destruct x; try discriminate. intros H [= <-]. exact (proj2 H). Qed.

  Lemma tok_pystr_PV x s : PV x -> tok_pystr x = Ok s -> ES s.
  Proof.
    unfold tok_pystr. intros Hp H. destruct (tv_dot_value x) as [v|e] eqn:Ev; cbn [bind] in H; [|discriminate].
    destruct (py_str v) as [s'|e] eqn:Es; [|discriminate]. injection H as <-.
    eapply pl_pystr; [eapply tv_dot_value_PV; eassumption|exact Es].
  Qed.

  Lemma mapM_tok_pystr_PV t : forall parts, Forall PV t -> mapM tok_pystr t = Ok parts -> Forall ES parts.
  Proof.
    induction t as [|x t IH]; intros parts HF H; cbn [mapM] in H.
    - injection H as <-. constructor.
    - destruct (tok_pystr x) as [s|e] eqn:Es; cbn [bind] in H; [|discriminate].
      destruct (mapM tok_pystr t) as [ps|e]; cbn [bind] in H; [|discriminate]. injection H as <-.
      constructor; [eapply tok_pystr_PV; [exact (Forall_inv HF)|exact Es]|apply IH; [exact (Forall_inv_tail HF)|reflexivity]].
  Qed.

  Lemma PL_estr s : ES s -> PL (VStr s).
  Proof. intros H. right. exists s. split; [reflexivity|exact H]. Qed.

  Lemma set_first_PV t s x : Forall PV t -> ES s -> set_first t s = Ok x -> PV x.
  Proof.
    intros HF Hs H. destruct t as [|[| | |] ?]; try discriminate. injection H as <-.
    apply PV_set; [exact (Forall_inv HF)|apply PL_estr; exact Hs].
  Qed.

  Lemma cb_binary_PV t pre mid post x :
    In (pre, mid, post) (binops) -> Forall PV t -> cb_binary t pre mid post = Ok x -> PV x.
  Proof.
    unfold cb_binary. intros Hin HF H. destruct t as [|a [|b [|c r]]]; try discriminate.
    destruct (tok_pystr a) as [sa|e] eqn:Ea; cbn [bind] in H; [|discriminate].
    destruct (tok_pystr b) as [sb|e] eqn:Eb; cbn [bind] in H; [|discriminate].
    eapply set_first_PV; [exact HF| |exact H].
    apply E_bin; [exact Hin| |].
    - eapply tok_pystr_PV; [exact (Forall_inv HF)|exact Ea].
    - eapply tok_pystr_PV; [exact (Forall_inv (Forall_inv_tail HF))|exact Eb].
  Qed.

  Lemma cb_comparison_PV t x : Forall PV t -> cb_comparison t = Ok x -> PV x.
  Proof.
    unfold cb_comparison. intros HF H. destruct t as [|a [|b [|c [|d r]]]]; try discriminate.
    destruct (tok_pystr a) as [sa|e] eqn:Ea; cbn [bind] in H; [|discriminate].
    destruct (tok_pystr b) as [sb|e] eqn:Eb; cbn [bind] in H; [|discriminate].
    destruct (tok_pystr c) as [sc|e] eqn:Ec; cbn [bind] in H; [|discriminate].
    eapply set_first_PV; [exact HF| |exact H].
    inversion HF as [|? ? Pa HF1]; subst. inversion HF1 as [|? ? Pb HF2]; subst. inversion HF2 as [|? ? Pc _]; subst.
    apply E_cmp; [eapply tok_pystr_PV; [exact Pa|exact Ea]|eapply tok_pystr_PV; [exact Pb|exact Eb]
                 |eapply tok_pystr_PV; [exact Pc|exact Ec]].
  Qed.

  Lemma cb_prefix_PV t pre b x :
    (pre = Str "NOT " \/ pre = [45]) -> Forall PV t -> cb_prefix t pre b = Ok x -> PV x.
  Proof.
    unfold cb_prefix. intros Hpre HF H. destruct t as [|a rest]; [discriminate|].
    destruct (b && negb _); [discriminate|].
    destruct (tok_pystr a) as [sa|e] eqn:Ea; cbn [bind] in H; [|discriminate].
    eapply set_first_PV; [exact HF| |exact H].
    apply E_pre; [exact Hpre|eapply tok_pystr_PV; [exact (Forall_inv HF)|exact Ea]].
  Qed.

  Lemma cb_expression_PV t x : Forall PV t -> cb_expression t = Ok x -> PV x.
  Proof.
    unfold cb_expression. intros HF H.
    destruct (mapM tok_pystr t) as [parts|e] eqn:Em; cbn [bind] in H; [|discriminate].
    destruct t as [|[| a | |] r]; try discriminate.
    destruct (in_parenthesis _); injection H as <-; [exact (Forall_inv HF)|].
    apply PV_set; [exact (Forall_inv HF)|]. apply PL_estr.
    apply (E_par toks synth parts). eapply mapM_tok_pystr_PV; eassumption.
  Qed.

  Lemma cb_func_call_PV t x :
    Forall PV t -> (forall f s, t = [f; TVal (VStr s)] -> eparams toks synth s) ->
    cb_func_call t = Ok x -> PV x.
  Proof.
    unfold cb_func_call. intros HF Hp H.
    destruct t as [|[| f | |] [|p r]]; try discriminate.
    destruct p as [[| | | |params| |]| | |]; destruct r; try discriminate.
    destruct (py_str (pk_val f)) as [fs|e] eqn:Ef; [|discriminate]. injection H as <-.
    destruct (Hp _ _ eq_refl) as (ps & Hps & ->).
    apply PV_set; [exact (Forall_inv HF)|]. apply PL_estr.
    apply E_call; [|exact Hps]. eapply pl_pystr; [|exact Ef]. exact (proj2 (Forall_inv HF)).
  Qed.

  Lemma cb_func_params_PV t x :
    Forall PV t -> cb_func_params t = Ok x -> PV x /\ exists s, x = TVal (VStr s) /\ eparams toks synth s.
  Proof.
    unfold cb_func_params. intros HF H.
    destruct (mapM tok_pystr t) as [parts|e] eqn:Em; cbn [bind] in H; [|discriminate]. injection H as <-.
    split; [reflexivity|]. eexists. split; [reflexivity|]. exists parts. split; [|reflexivity].
    eapply mapM_tok_pystr_PV; eassumption.
  Qed.

  Lemma cb_attr_bind_PV t x : Forall PV t -> cb_attr_bind t = Ok x -> PV x.
  Proof.
    unfold cb_attr_bind. intros HF H. destruct t as [|[| a | |] [|? ?]]; try discriminate.
    destruct (py_str (pk_val a)) as [s|e] eqn:Es; [|discriminate]. cbn [bind] in H. injection H as <-.
    apply PV_set; [exact (Forall_inv HF)|]. apply PL_estr. apply E_bind.
    eapply pl_pystr; [|exact Es]. exact (proj2 (Forall_inv HF)).
  Qed.

  Lemma cb_list_PV t x : Forall PV t -> cb_list t = Ok x -> PV x.
  Proof.
    unfold cb_list. intros HF H. destruct t as [|[| v | |] r]; try discriminate.
    match type of H with bind ?m _ = _ => destruct m as [parts|e] eqn:Em end; cbn [bind] in H; [|discriminate].
    injection H as <-. apply PV_set; [exact (Forall_inv HF)|]. apply PL_estr. apply E_list.
    revert parts Em. generalize (TTok v :: r) HF. clear.
    induction l as [|y l IH]; intros HF parts Em; cbn [mapM] in Em.
    - injection Em as <-. constructor.
    - destruct y as [| a | |]; try discriminate. cbn [bind] in Em.
      match type of Em with bind ?m _ = _ => destruct m as [ps|e] eqn:Em2 end; cbn [bind] in Em; [|discriminate].
      injection Em as <-. constructor; [exact (proj1 (Forall_inv HF))|].
      apply IH; [exact (Forall_inv_tail HF)|reflexivity].
  Qed.

  Lemma cb_first_PV t x : Forall PV t -> cb_first t = Ok x -> PV x.
  Proof. unfold cb_first. intros HF H. destruct t; [discriminate|]. injection H as <-. exact (Forall_inv HF). Qed.

  Lemma cb_len_PV n t x : Forall PV t -> cb_len n t = Ok x -> PV x /\ x = TSeq t /\ length t = n.
  Proof.
    unfold cb_len. intros HF H. destruct (Nat.eqb_spec (length t) n) as [Hl|]; [|discriminate].
    injection H as <-. split; [apply PV_seq; exact HF|]. split; [reflexivity|exact Hl].
  Qed.

  Lemma cb_start_PV t x : Forall PV t -> cb_start t = Ok x -> PV x.
  Proof.
    unfold cb_start. intros HF H. destruct t as [|a [|b r]]; injection H as <-; try (apply PV_seq; exact HF).
    exact (Forall_inv HF).
  Qed.

  (* the leaf conversions: the argument is a token of the tree *)
  Definition hd_real (t : list tv) : Prop :=
    match t with x :: _ => exists tk, In tk toks /\ x = TTok (ptok_of tk) | [] => True end.

  Lemma cb_int_PV t x : hd_real t -> cb_int t = Ok x -> PV x /\ numtok x.
  Proof.
    unfold cb_int. intros Hr H. destruct t as [|y r]; [discriminate|]. destruct Hr as (tk & Hin & ->).
    cbn [first_tok bind tok_str ptok_of pk_val] in H.
    destruct (parse_int (tval tk)) as [z|] eqn:Ep; [|discriminate]. injection H as <-.
    assert (Ho : ORIG (ptok_of tk)) by (left; exists tk; split; [exact Hin|reflexivity]).
    split.
    - split; [exact Ho|]. left. eapply P_int; eassumption.
    - eexists. split; [reflexivity|]. split; [exact Ho|]. left. exists tk, z. auto.
  Qed.

  Lemma cb_float_PV t x : hd_real t -> cb_float t = Ok x -> PV x /\ numtok x.
  Proof.
    unfold cb_float. intros Hr H. destruct t as [|y r]; [discriminate|]. destruct Hr as (tk & Hin & ->).
    cbn [first_tok bind tok_str ptok_of pk_val] in H.
    destruct (parse_float (tval tk)) as [[m e]|] eqn:Ep; [|discriminate]. injection H as <-.
    assert (Ho : ORIG (ptok_of tk)) by (left; exists tk; split; [exact Hin|reflexivity]).
    split.
    - split; [exact Ho|]. left. eapply P_float; eassumption.
    - eexists. split; [reflexivity|]. split; [exact Ho|]. right. exists tk, m, e. auto.
  Qed.

  Lemma cb_bool_PV (b : bool) t x :
    (match t with x :: _ => exists tk, In tk toks /\ x = TTok (ptok_of tk) /\
                                       ttype tk = (if b then TM_TRUE else TM_FALSE) | [] => True end) ->
    cb_bool b t = Ok x -> PV x.
  Proof.
    unfold cb_bool. intros Hr H. destruct t as [|y r]; [discriminate|]. destruct Hr as (tk & Hin & -> & Hty).
    cbn [first_tok bind] in H. injection H as <-.
    split; [left; exists tk; split; [exact Hin|reflexivity]|]. left. eapply P_bool; eassumption.
  Qed.

  Lemma cb_hexcolor_PV t x : hd_real t -> cb_hexcolor t = Ok x -> PV x.
  Proof.
    unfold cb_hexcolor. intros Hr H. destruct t as [|y r]; [discriminate|]. destruct Hr as (tk & Hin & ->).
    cbn [first_tok bind tok_str ptok_of pk_val] in H. injection H as <-.
    split; [left; exists tk; split; [exact Hin|reflexivity]|]. left. apply P_hex. exact Hin.
  Qed.

  (* ================================================================ attribute dicts *)
  Lemma PL_scalar_nodict v : PL v -> nodict v = true.
  Proof. intros H. apply scalar_nodict. eapply pl_scalar. exact H. Qed.

  Lemma LF_nodict v : LF v -> nodict v = true.
  Proof. intros H. apply scalar_nodict. eapply leaf_scalar. exact H. Qed.

  Lemma gattrp_nodict V : gattrp V -> nodict V = true.
  Proof.
    intros [H|(l & -> & Hl & _)]; [apply LF_nodict; exact H|]. cbn [nodict].
    apply Forall_scalar_nodict. eapply Forall_impl; [|exact Hl]. intros v Hv. eapply pl_scalar. exact Hv.
  Qed.

  Lemma pairp_nodict v : pairp v -> nodict v = true.
  Proof.
    intros (a & b & -> & Ha & Hb). cbn [nodict forallb].
    rewrite (scalar_nodict a), (scalar_nodict b); [reflexivity| |].
    - apply numv_number in Hb. destruct b; try contradiction; exact I.
    - apply numv_number in Ha. destruct a; try contradiction; exact I.
  Qed.

  Lemma pairsp_nodict V : pairsp V -> nodict V = true.
  Proof.
    intros (l & -> & Hl). cbn [nodict]. induction Hl as [|v l Hv _ IH]; [reflexivity|].
    cbn [forallb]. rewrite (pairp_nodict v Hv), IH. reflexivity.
  Qed.

  Lemma strsp_nodict V : strsv CV V -> nodict V = true.
  Proof.
    intros (l & -> & Hl). cbn [nodict]. apply Forall_scalar_nodict. eapply Forall_impl; [|exact Hl].
    intros v (tk & _ & ->). exact I.
  Qed.

  Lemma akind_family kn V :
    akind kn V -> family kn <> FType /\ family kn <> FBook /\ family kn <> FSingle /\ family kn <> FPlural.
  Proof. unfold akind. destruct (family kn); intros H; try contradiction; repeat split; discriminate. Qed.

  Lemma akind_nodict kn V : akind kn V -> family kn <> FConfig -> nodict V = true.
  Proof.
    unfold akind, entry_p, entry_ok. destruct (family kn); intros H Hn; try contradiction.
    - apply pairsp_nodict. exact H.
    - apply gattrp_nodict. exact H.
    - apply pairsp_nodict. exact H.
    - apply strsp_nodict. exact H.
    - apply gattrp_nodict. exact H.
  Qed.

  Lemma akind_generic kn V : family kn = FAttr \/ family kn = FRep -> gattrp V -> akind kn V.
  Proof. unfold akind, entry_p, entry_ok. intros [-> | ->] H; exact H. Qed.

  Lemma akind_entry kn V :
    akind kn V -> family kn <> FConfig -> family kn <> FPoints -> family kn <> FRep -> entry_p kn V.
  Proof. unfold akind. destruct (family kn); intros H H1 H2 H3; try contradiction; try congruence; exact H. Qed.

  Lemma family_skipk k : skipk k = true -> family k = FBook \/ family k = FConfig.
  Proof.
    unfold skipk. intros H. apply orb_true_iff in H. destruct H as [H|H].
    - left. apply family_bk. exact H.
    - right. apply family_config. apply str_eqb_eq. exact H.
  Qed.

  Lemma family_bk_false k : family k <> FBook -> bk k = false.
  Proof. intros H. destruct (bk k) eqn:E; [|reflexivity]. exfalso. apply H. apply family_bk. exact E. Qed.

  Lemma skipk_false k : family k <> FBook -> family k <> FConfig -> skipk k = false.
  Proof.
    intros H1 H2. destruct (skipk k) eqn:E; [|reflexivity]. destruct (family_skipk k E); contradiction.
  Qed.

  Lemma bk_reserved k : bk k = true <-> reserved k.
  Proof.
    unfold bk, reserved. rewrite !orb_true_iff, !str_eqb_eq. tauto.
  Qed.

  Inductive attr_val (kn : str) (vts : list tv) (V : value) : Prop :=
  | av_single t : vts = [TTok t] -> V = clean_top (pk_val t) -> attr_val kn vts V
  | av_config ta tb ka : kn = s_config -> vts = [TTok ta; TTok tb] -> pk_val ta = VStr ka ->
                         V = VDict DPlain [(ka, pk_val tb)] -> attr_val kn vts V
  | av_multi vals : kn <> s_config -> (2 <= length vts)%nat -> mapM tv_dot_value vts = Ok vals ->
                    V = VList vals -> attr_val kn vts V.

  Definition attr_base (base : titems) : Prop :=
    exists pd, base = [(s_position, TVal pd)] \/ exists X, base = [(s_position, TVal pd); (s_tokens, X)].

  Lemma attr_body_inv key kn vts x :
    attr_body key kn vts = Ok x ->
    exists V base, x = TDict DPlain (od_set kn (TVal V) base) /\ attr_base base /\ attr_val kn vts V.
  Proof.
    unfold attr_body. intros H.
    destruct (create_position_dict key (Some vts)) as [pd|e]; cbn [bind] in H; [|discriminate].
    destruct vts as [|a [|b rest]]; [discriminate| |].
    - destruct (tok_of a) as [t|e] eqn:Et; cbn [bind] in H; [|discriminate]. injection H as <-.
      destruct a; try discriminate. injection Et as ->.
      eexists _, _. split; [reflexivity|]. split; [exists pd; right; eexists; reflexivity|].
      eapply av_single; reflexivity.
    - destruct (str_eqb_spec kn s_config) as [->|Hnc].
      + destruct rest; [|discriminate].
        destruct (tok_of a) as [ta|e] eqn:Ea; cbn [bind] in H; [|discriminate].
        destruct (tok_of b) as [tb|e] eqn:Eb; cbn [bind] in H; [|discriminate].
        destruct (pk_val ta) as [| | | |ka| |] eqn:Ev; try discriminate. cbn [bind] in H. injection H as <-.
        destruct a; try discriminate. injection Ea as ->. destruct b; try discriminate. injection Eb as ->.
        eexists _, _. split; [reflexivity|]. split; [exists pd; left; reflexivity|].
        eapply av_config; try reflexivity. exact Ev.
      + destruct (mapM tv_dot_value (a :: b :: rest)) as [vals|e] eqn:Em; cbn [bind] in H; [|discriminate].
        injection H as <-.
        eexists _, _. split; [reflexivity|]. split; [exists pd; right; eexists; reflexivity|].
        eapply av_multi; [exact Hnc| |exact Em|reflexivity]. cbn [length]. lia.
  Qed.

  Lemma attr_base_facts base :
    attr_base base ->
    NoDup (keys base) /\ assoc s_type base = None /\
    (forall k, In k (keys base) -> bk k = true) /\
    Forall (fun kv => skipk (fst kv) = true \/ PV (snd kv)) base.
  Proof.
    intros (pd & [-> | (X & ->)]).
    - split; [cbn [keys map fst]; constructor; [intros []|constructor]|]. split; [reflexivity|].
      split; [cbn [keys map fst In]; intros k [<-|[]]; reflexivity|].
      constructor; [left; reflexivity|constructor].
    - split; [apply NoDup_base_keys|]. split; [reflexivity|].
      split; [cbn [keys map fst In]; intros k [<-|[<-|[]]]; reflexivity|].
      constructor; [left; reflexivity|]. constructor; [left; reflexivity|constructor].
  Qed.

  Lemma attr_dict_PV kn V base :
    lower kn = kn -> akind kn V -> attr_base base -> PV (TDict DPlain (od_set kn (TVal V) base)).
  Proof.
    intros Hlow Hak Hb. destruct (attr_base_facts base Hb) as (Hnd & Hty & Hbk & Hk).
    destruct (akind_family kn V Hak) as (F1 & F2 & _ & _).
    assert (Hnt : kn <> s_type) by (intros ->; apply F1; apply family_type; reflexivity).
    apply PV_dict. split.
    - apply kidsV_set; [|exact Hk]. destruct (fam_eqb (family kn) FConfig) eqn:Ef.
      + left. apply fam_eqb_eq in Ef. apply family_is_config in Ef. subst kn. reflexivity.
      + right. cbn [PV]. eapply akind_nodict; [exact Hak|]. intros Hc. rewrite Hc in Ef. discriminate Ef.
    - left. split; [reflexivity|]. split; [apply NoDup_set; exact Hnd|].
      split; [rewrite get_set_other by (intros E; apply Hnt; symmetry; exact E); exact Hty|].
      exists kn, V. split; [exact Hlow|]. split; [exact Hak|]. split; [apply get_set_same|].
      intros k Hin. rewrite keys_set in Hin. destruct (od_mem kn base).
      + right. apply Hbk. exact Hin.
      + apply in_app_or in Hin. destruct Hin as [Hin|[<-|[]]]; [right; apply Hbk; exact Hin|left; reflexivity].
  Qed.

  Lemma cb_attr_inv k0 vt0 x :
    cb_attr (k0 :: vt0) = Ok x ->
    exists key kn vts V base,
      attr_key k0 = Ok key /\ key_name key = Ok kn /\ attr_vtoks vt0 = Ok vts /\
      x = TDict DPlain (od_set kn (TVal V) base) /\ attr_base base /\ attr_val kn vts V.
  Proof.
    rewrite cb_attr_stages. intros H.
    destruct (attr_key k0) as [key|e] eqn:Ek; cbn [bind] in H; [|discriminate].
    destruct (key_name key) as [kn|e] eqn:En; cbn [bind] in H; [|discriminate].
    destruct (attr_vtoks vt0) as [vts|e] eqn:Ev; cbn [bind] in H; [|discriminate].
    destruct (attr_body_inv _ _ _ _ H) as (V & base & -> & Hb & Hv).
    exists key, kn, vts, V, base. repeat split; try reflexivity; assumption.
  Qed.

  Lemma attr_vtoks_PV vt0 vts : Forall PV vt0 -> attr_vtoks vt0 = Ok vts -> Forall PV vts.
  Proof.
    unfold attr_vtoks. intros HF H. destruct vt0 as [|a r]; [discriminate|].
    destruct a as [v|t|l|c items]; try (injection H as <-; exact HF).
    destruct r; [|discriminate]. injection H as <-. apply PV_seq. exact (Forall_inv HF).
  Qed.

  Lemma mapM_dot_value_PV l : forall vals, Forall PV l -> mapM tv_dot_value l = Ok vals -> Forall PL vals.
  Proof.
    induction l as [|x l IH]; intros vals HF H; cbn [mapM] in H.
    - injection H as <-. constructor.
    - destruct (tv_dot_value x) as [v|e] eqn:Ev; cbn [bind] in H; [|discriminate].
      destruct (mapM tv_dot_value l) as [vs|e]; cbn [bind] in H; [|discriminate].
      injection H as <-. constructor; [eapply tv_dot_value_PV; [exact (Forall_inv HF)|exact Ev]|].
      apply IH; [exact (Forall_inv_tail HF)|reflexivity].
  Qed.

  Definition keyA (x : tv) : Prop := match x with TTok t => KA t | _ => True end.
  Definition keyC (x : tv) : Prop := match x with TTok t => KC t | _ => True end.
  Definition hdP (P : tv -> Prop) (t : list tv) : Prop := match t with x :: _ => P x | [] => True end.

  Lemma cb_attr_PV tokens x : Forall PV tokens -> hdP keyA tokens -> cb_attr tokens = Ok x -> PV x /\ isdict x.
  Proof.
    intros HF Hk H. destruct tokens as [|k0 vt0]; [discriminate|].
    destruct (cb_attr_inv _ _ _ H) as (key & kn & vts & V & base & Ek & En & Ev & -> & Hb & Hv).
    split; [|eexists _, _; reflexivity].
    cbn [hdP] in Hk.
    assert (Hfam : family kn = FAttr \/ family kn = FRep).
    { destruct k0 as [v|t|l|c items]; try discriminate.
      - injection Ek as ->. apply Hk. exact En.
      - destruct l as [|[|t| |] l]; try discriminate. cbn [attr_key] in Ek.
        destruct (key_name t) as [kn'|e] eqn:En'; cbn [bind] in Ek; [|discriminate].
        destruct (str_eqb_spec kn' s_style) as [->|]; cbn [orb] in Ek.
        + injection Ek as <-. rewrite En' in En. injection En as <-. left. apply style_symbol_family.
        + destruct (str_eqb_spec kn' s_symbol) as [->|]; [|discriminate].
          injection Ek as <-. rewrite En' in En. injection En as <-. left. apply style_symbol_family. }
    pose proof (attr_vtoks_PV _ _ (Forall_inv_tail HF) Ev) as Hvts.
    apply attr_dict_PV; [eapply key_name_lower; exact En| |exact Hb].
    apply akind_generic; [exact Hfam|].
    destruct Hv as [t -> ->|ta tb ka -> _ _ _|vals Hnc Hlen Em ->].
    - left. exists (pk_val t). split; [exact (proj2 (Forall_inv Hvts))|reflexivity].
    - exfalso. destruct Hfam as [Hf|Hf]; rewrite (family_config s_config eq_refl) in Hf; discriminate Hf.
    - right. exists vals. split; [reflexivity|]. split; [eapply mapM_dot_value_PV; eassumption|].
      rewrite (mapM_length _ _ _ Em). exact Hlen.
  Qed.

  (* an attr() call whose single value token carries an already built value *)
  Lemma cb_attr_built key kn v1 V x :
    key_name key = Ok kn -> akind kn V -> clean_top V = V ->
    cb_attr [TTok key; TTok (set_val v1 V)] = Ok x -> PV x /\ isdict x.
  Proof.
    intros En Hak Hc H.
    destruct (cb_attr_inv _ _ _ H) as (key' & kn' & vts & V' & base & Ek & En' & Ev & -> & Hb & Hv).
    split; [|eexists _, _; reflexivity].
    cbn [attr_key] in Ek. injection Ek as <-. rewrite En in En'. injection En' as <-.
    cbn [attr_vtoks] in Ev. injection Ev as <-.
    apply attr_dict_PV; [eapply key_name_lower; exact En| |exact Hb].
    destruct Hv as [t Ht ->|ta tb ka _ Ht _ _|vals _ Hlen _ _].
    - injection Ht as <-. cbn [set_val pk_val]. rewrite Hc. exact Hak.
    - discriminate Ht.
    - cbn [length] in Hlen. lia.
  Qed.

  (* ================================================================ NK at the concrete names *)
  Lemma NK_int x : NK CB_int x = numtok x. Proof. reflexivity. Qed.
  Lemma NK_float x : NK CB_float x = numtok x. Proof. reflexivity. Qed.
  Lemma NK_string x : NK CB_string x = realtok x. Proof. reflexivity. Qed.
  Lemma NK_path x : NK CB_path x = realtok x. Proof. reflexivity. Qed.
  Lemma NK_regexp x : NK CB_regexp x = realtok x. Proof. reflexivity. Qed.
  Lemma NK_runtime_var x : NK CB_runtime_var x = realtok x. Proof. reflexivity. Qed.
  Lemma NK_compare_op x : NK CB_compare_op x = realtok x. Proof. reflexivity. Qed.
  Lemma NK_num_pair x : NK CB_num_pair x = exists a b, x = TSeq [a; b] /\ numtok a /\ numtok b. Proof. reflexivity. Qed.
  Lemma NK_string_pair x : NK CB_string_pair x = exists a b, x = TSeq [a; b] /\ realtok a /\ realtok b. Proof. reflexivity. Qed.
  Lemma NK_composite_type x : NK CB_composite_type x = exists l, x = TSeq l /\ Forall ctok l. Proof. reflexivity. Qed.
  Lemma NK_composite_body x : NK CB_composite_body x = exists l, x = TSeq l /\ Forall isdict l. Proof. reflexivity. Qed.
  Lemma NK_func_params x : NK CB_func_params x = exists s, x = TVal (VStr s) /\ eparams toks synth s. Proof. reflexivity. Qed.
  Lemma NK_values x : NK CB_values x = isblk x. Proof. reflexivity. Qed.
  Lemma NK_metadata x : NK CB_metadata x = isblk x. Proof. reflexivity. Qed.
  Lemma NK_validation x : NK CB_validation x = isblk x. Proof. reflexivity. Qed.
  Lemma NK_connectionoptions x : NK CB_connectionoptions x = isblk x. Proof. reflexivity. Qed.
  Lemma NK_composite x : NK CB_composite x = isblk x. Proof. reflexivity. Qed.
  Lemma NK_attr x : NK CB_attr x = isdict x. Proof. reflexivity. Qed.
  Lemma NK_config x : NK CB_config x = isdict x. Proof. reflexivity. Qed.
  Lemma NK_points x : NK CB_points x = isdict x. Proof. reflexivity. Qed.
  Lemma NK_pattern x : NK CB_pattern x = isdict x. Proof. reflexivity. Qed.
  Lemma NK_projection x : NK CB_projection x = isdict x. Proof. reflexivity. Qed.
  Lemma NK_start x : NK CB_start x = (isblk x \/ exists l, x = TSeq l /\ Forall isblk l). Proof. reflexivity. Qed.

  Lemma isblk_isdict x : isblk x -> isdict x.
  Proof. intros (items & ->). eexists _, _. reflexivity. Qed.

  (* ---------------------------------------------------------------- arguments, from the shapes *)
  Lemma args_real d t :
    d <> CB_composite_type -> shapes_in [SNode CB_string] true (get C d) = true ->
    Forall (AKd d) t -> Forall realtok t.
  Proof.
    intros Hd Hs HF. eapply Forall_impl; [|exact HF]. intros y Hy.
    destruct (AKd_cases d _ _ y Hd Hs Hy) as [(_ & tk & Hin & -> & _)|[(tk & _ & _ & Hin)|(d' & Hin & Hn)]].
    - eexists. split; [reflexivity|]. exists tk. auto.
    - cbn [In] in Hin. destruct Hin as [Hin|[]]. discriminate Hin.
    - cbn [In] in Hin. destruct Hin as [Hin|[]]. injection Hin as <-. rewrite NK_string in Hn. exact Hn.
  Qed.

  Lemma args_alltok d t :
    d <> CB_composite_type -> shapes_in [] true (get C d) = true ->
    Forall (AKd d) t -> Forall realtok t.
  Proof.
    intros Hd Hs HF. eapply Forall_impl; [|exact HF]. intros y Hy.
    destruct (AKd_cases d _ _ y Hd Hs Hy) as [(_ & tk & Hin & -> & _)|[(tk & _ & _ & Hin)|(d' & Hin & Hn)]];
      try contradiction.
    eexists. split; [reflexivity|]. exists tk. auto.
  Qed.

  Lemma args_typed d ty t :
    d <> CB_composite_type -> shapes_in [STok ty] false (get C d) = true ->
    Forall (AKd d) t -> Forall (fun y => exists tk, In tk toks /\ y = TTok (ptok_of tk) /\ ttype tk = ty) t.
  Proof.
    intros Hd Hs HF. eapply Forall_impl; [|exact HF]. intros y Hy.
    destruct (AKd_cases d _ _ y Hd Hs Hy) as [(Hf & _)|[(tk & Htk & -> & Hin)|(d' & Hin & Hn)]].
    - discriminate Hf.
    - cbn [In] in Hin. destruct Hin as [Hin|[]]. injection Hin as Hty. exists tk. auto.
    - cbn [In] in Hin. destruct Hin as [Hin|[]]. discriminate Hin.
  Qed.

  Lemma realtok_hd t : Forall realtok t -> hd_real t.
  Proof.
    intros HF. destruct t as [|y r]; [exact I|]. cbn [hd_real].
    destruct (Forall_inv HF) as (t0 & -> & (tk & Hin & ->)). exists tk. auto.
  Qed.

  Lemma realtok_PV y : realtok y -> PV y.
  Proof. intros (t & -> & Hr). apply REAL_TOK. exact Hr. Qed.

  Lemma realtok_notdict y : realtok y -> notdict y.
  Proof. intros (t & -> & _). exact I. Qed.

  (* ---------------------------------------------------------------- akind at the fixed names *)
  Lemma akind_projection V : strsv CV V -> akind s_projection V.
  Proof.
    intros H. unfold akind, entry_p, entry_ok.
    destruct family_consts as (_ & _ & _ & _ & E & _). rewrite E. exact H.
  Qed.
  Lemma akind_points V : pairsp V -> akind s_points V.
  Proof.
    intros H. unfold akind. destruct family_consts as (_ & _ & E & _). rewrite E. exact H.
  Qed.
  Lemma akind_pattern V : pairsp V -> akind s_pattern V.
  Proof.
    intros H. unfold akind, entry_p, entry_ok. destruct family_consts as (_ & _ & _ & E & _). rewrite E. exact H.
  Qed.
  Lemma akind_config V : cfg1 V -> akind s_config V.
  Proof.
    intros H. unfold akind. destruct family_consts as (_ & E & _). rewrite E. exact H.
  Qed.

  (* ---------------------------------------------------------------- projection *)
  Lemma cb_projection_PV t x : Forall realtok t -> cb_projection t = Ok x -> PV x /\ isdict x.
  Proof.
    unfold cb_projection. intros HF H.
    destruct (check_composite_tokens _ t) as [[k0 body]|e] eqn:Ec; cbn [bind] in H; [|discriminate].
    destruct (cct_inv _ _ _ _ Ec) as (rest & -> & En & Hne & Eb).
    assert (Hrest : Forall realtok rest) by exact (Forall_inv_tail HF).
    assert (Hbody : body = removelast rest).
    { eapply mapM_cctf_id; [|exact Eb]. apply Forall_removelast.
      eapply Forall_impl; [|exact Hrest]. exact realtok_notdict. }
    match type of H with bind ?r _ = _ => destruct r as [strs|e] eqn:Es end; cbn [bind] in H; [|discriminate].
    assert (Hs : Forall CV strs).
    { assert (Hb : Forall realtok body) by (rewrite Hbody; apply Forall_removelast; exact Hrest).
      clear -Es Hb. revert strs Es. induction body as [|b body IH]; intros strs Es; cbn [mapM] in Es.
      - injection Es as <-. constructor.
      - destruct (Forall_inv Hb) as (t0 & -> & (tk & Hin & ->)). cbn [tv_dot_value bind ptok_of pk_val clean_string] in Es.
        match type of Es with bind ?r _ = _ => destruct r as [ss|e] eqn:Ess end; cbn [bind] in Es; [|discriminate].
        injection Es as <-. constructor; [exists tk; auto|]. apply IH; [exact (Forall_inv_tail Hb)|reflexivity]. }
    destruct rest as [|v1 r]; [contradiction Hne; reflexivity|].
    destruct (tok_of v1) as [vt|e] eqn:Ev; cbn [bind] in H; [|discriminate].
    apply (cb_attr_built k0 _ vt (VList strs) x En); [|reflexivity|exact H].
    apply akind_projection. exists strs. split; [reflexivity|exact Hs].
  Qed.

  (* ---------------------------------------------------------------- POINTS / PATTERN *)
  Definition numpair (y : tv) : Prop := exists a b, y = TSeq [a; b] /\ numtok a /\ numtok b.

  Lemma process_pair_lists_PV name t x :
    (name = s_points \/ name = s_pattern) ->
    Forall (fun y => realtok y \/ numpair y) t -> process_pair_lists name t = Ok x -> PV x /\ isdict x.
  Proof.
    unfold process_pair_lists. intros Hname HF H.
    destruct (check_composite_tokens _ t) as [[k0 body]|e] eqn:Ec; cbn [bind] in H; [|discriminate].
    destruct (cct_inv _ _ _ _ Ec) as (rest & -> & En & Hne & Eb).
    assert (Hrest : Forall (fun y => realtok y \/ numpair y) rest) by exact (Forall_inv_tail HF).
    assert (Hbody : body = removelast rest).
    { eapply mapM_cctf_id; [|exact Eb]. apply Forall_removelast.
      eapply Forall_impl; [|exact Hrest]. intros y [Hy|(a & b & -> & _)]; [apply realtok_notdict; exact Hy|exact I]. }
    match type of H with bind ?r _ = _ => destruct r as [pairs|e] eqn:Es end; cbn [bind] in H; [|discriminate].
    assert (Hs : Forall pairp pairs).
    { assert (Hb : Forall (fun y => realtok y \/ numpair y) body) by (rewrite Hbody; apply Forall_removelast; exact Hrest).
      clear -Es Hb. revert pairs Es. induction body as [|b body IH]; intros pairs Es; cbn [mapM] in Es.
      - injection Es as <-. constructor.
      - destruct (Forall_inv Hb) as [(t0 & -> & _)|(a & b0 & -> & (ta & -> & _ & Ha) & (tb & -> & _ & Hb0))];
          [discriminate Es|].
        cbn in Es.
        match type of Es with bind ?r _ = _ => destruct r as [ss|e] eqn:Ess end; cbn [bind] in Es; [|discriminate].
        injection Es as <-. constructor; [exists (pk_val ta), (pk_val tb); auto|].
        apply IH; [exact (Forall_inv_tail Hb)|reflexivity]. }
    destruct rest as [|v1 r]; [contradiction Hne; reflexivity|].
    destruct v1 as [v|tk|[|[v|vt|l2|c2 i2] l]|c items]; try discriminate.
    assert (Hak : akind name (VList pairs)).
    { destruct Hname as [-> | ->]; [apply akind_points|apply akind_pattern]; exists pairs; auto. }
    apply (cb_attr_built k0 _ vt (VList pairs) x En Hak); [reflexivity|exact H].
  Qed.

  (* ---------------------------------------------------------------- CONFIG *)
  Lemma cb_config_PV t x : Forall realtok t -> hdP keyC t -> cb_config t = Ok x -> PV x /\ isdict x.
  Proof.
    unfold cb_config. intros HF Hk H. destruct t as [|k [|a [|b [|c r]]]]; try discriminate.
    inversion HF as [|? ? Pk HF1]; subst. inversion HF1 as [|? ? Pa HF2]; subst. inversion HF2 as [|? ? Pb _]; subst.
    destruct Pk as (kt & -> & _). destruct Pa as (ta & -> & (tka & Hina & ->)). destruct Pb as (tb & -> & (tkb & Hinb & ->)).
    cbn [tok_of bind tok_str ptok_of pk_val] in H. cbn [hdP keyC] in Hk.
    destruct (cb_attr_inv _ _ _ H) as (key & kn & vts & V & base & Ek & En & Ev & -> & Hb & Hv).
    cbn [attr_key] in Ek. injection Ek as <-. cbn [attr_vtoks] in Ev. injection Ev as <-.
    pose proof (Hk kn En) as Hkn. subst kn. split; [|eexists _, _; reflexivity].
    apply attr_dict_PV; [apply bk_consts_lower| |exact Hb]. apply akind_config.
    destruct Hv as [t Ht _|ta tb ka _ Ht Hka ->|vals Hnc _ _ _].
    - discriminate Ht.
    - injection Ht as <- <-. cbn [set_val pk_val] in Hka |- *. injection Hka as <-.
      eexists _, _. split; [reflexivity|]. split.
      + exists tka. split; [exact Hina|right; reflexivity].
      + exists tkb. split; [exact Hinb|reflexivity].
    - contradiction Hnc. reflexivity.
  Qed.

  (* ---------------------------------------------------------------- key-value blocks *)
  Definition strpair (y : tv) : Prop := exists a b, y = TSeq [a; b] /\ realtok a /\ realtok b.

  Definition kvE (kv : str * tv) : Prop :=
    lower_key (fst kv) /\ exists v, snd kv = TVal v /\
      ((fst kv = s_type /\ exists s, v = VStr s) \/ bk (fst kv) = true \/ (KV (fst kv) /\ CV v)).

  Definition kvF (d : titems) : Prop := NoDup (keys d) /\ Forall kvE d.

  Lemma kvF_set k v d : kvE (k, TVal v) -> kvF d -> kvF (od_set k (TVal v) d).
  Proof. intros He [H1 H2]. split; [apply NoDup_set; exact H1|apply Forall_od_set; assumption]. Qed.

  Lemma pvp_fold_kv body : forall acc d,
    Forall (fun y => realtok y \/ strpair y) body -> kvF acc ->
    fold_left pvp_step body (Ok acc) = Ok d -> kvF d.
  Proof.
    induction body as [|t body IH]; intros acc d HF Hacc H; cbn [fold_left] in H.
    - injection H as <-. exact Hacc.
    - destruct (pvp_step (Ok acc) t) as [acc'|e] eqn:Es; [|rewrite pvp_fold_err in H; discriminate].
      eapply IH; [exact (Forall_inv_tail HF)| |exact H].
      destruct (Forall_inv HF) as [(t0 & -> & _)|(a & b & -> & (ta & -> & (tka & Hina & ->)) & (tb & -> & (tkb & Hinb & ->)))];
        [discriminate Es|].
      cbn in Es. injection Es as <-. unfold ci_set. apply kvF_set; [|exact Hacc].
      split; [apply lower_idem|]. eexists. split; [reflexivity|]. right; right. split.
      + exists tka. split; [exact Hina|left]. cbn [fst]. rewrite lower_idem. reflexivity.
      + exists tkb. split; [exact Hinb|reflexivity].
  Qed.

  Lemma kv_dict_PV items kn :
    kvF items -> assoc s_type items = Some (TVal (VStr kn)) -> In kn KVTYPES -> PV (TDict (DCI true) items).
  Proof.
    intros [Hnd HF] Hty Hkn. apply PV_dict. split.
    - eapply Forall_impl; [|exact HF]. intros [k y] (_ & v & Hy & Hc). cbn [fst snd] in *. subst y.
      destruct Hc as [(_ & s & ->)|[Hb|(_ & (tk & _ & ->))]]; [right; reflexivity| |right; reflexivity].
      left. unfold skipk. rewrite Hb. reflexivity.
    - right. split; [reflexivity|]. split.
      + eapply Forall_impl; [|exact HF]. intros [k y] (_ & v & Hy & _). cbn [fst snd] in *. subst y. right. exact I.
      + right. split; [|split].
        * exists kn. split; [|exact Hkn]. rewrite assoc_tvi, Hty. reflexivity.
        * rewrite keys_tvi. exact Hnd.
        * unfold tvi. apply Forall_forall. intros kv Hin. apply in_map_iff in Hin.
          destruct Hin as ([k y] & <- & Hin). rewrite Forall_forall in HF.
          destruct (HF _ Hin) as (Hl & v & Hy & Hc). cbn [fst snd] in *. subst y. split; [exact Hl|].
          destruct Hc as [(Hk & _)|[Hb|Hkv]]; [left; exact Hk|right; left; exact Hb|right; right; exact Hkv].
  Qed.

  Lemma process_value_pairs_PV ip t ty x :
    In ty KVTYPES -> Forall (fun y => realtok y \/ strpair y) t ->
    process_value_pairs ip t ty = Ok x -> PV x /\ isblk x.
  Proof.
    rewrite process_value_pairs_stages. intros Hty HF H.
    destruct (check_composite_tokens ty t) as [[key body]|e] eqn:Ec; cbn [bind fst snd] in H; [|discriminate].
    destruct (cct_inv _ _ _ _ Ec) as (rest & -> & En & Hne & Eb).
    assert (Hrest : Forall (fun y => realtok y \/ strpair y) rest) by exact (Forall_inv_tail HF).
    assert (Hbody : body = removelast rest).
    { eapply mapM_cctf_id; [|exact Eb]. apply Forall_removelast.
      eapply Forall_impl; [|exact Hrest]. intros y [Hy|(a & b & -> & _)]; [apply realtok_notdict; exact Hy|exact I]. }
    rewrite En in H. cbn [bind] in H.
    destruct (fold_left pvp_step body (Ok [])) as [d|e] eqn:Ef; cbn [bind] in H; [|discriminate].
    assert (Hd : kvF d).
    { apply (pvp_fold_kv body [] d); [|split; [apply NoDup_nil|apply Forall_nil]|exact Ef].
      rewrite Hbody. apply Forall_removelast. exact Hrest. }
    destruct (pvp_pos ip key body d) as [d1|e] eqn:Ep; cbn [bind] in H; [|discriminate]. injection H as <-.
    assert (Hd1 : kvF d1).
    { unfold pvp_pos in Ep. destruct ip; [|injection Ep as <-; exact Hd].
      destruct (create_position_dict key (Some body)) as [pd|e]; cbn [bind] in Ep; [|discriminate].
      injection Ep as <-. unfold ci_set. apply kvF_set; [|exact Hd].
      split; [apply lower_idem|]. eexists. split; [reflexivity|]. right; left.
      destruct bk_consts_lower as (E & _). rewrite E. reflexivity. }
    split; [|eexists; reflexivity].
    unfold ci_set. destruct bk_consts_lower as (_ & _ & _ & E & _). rewrite E.
    eapply kv_dict_PV; [| |exact Hty].
    - apply kvF_set; [|exact Hd1]. split; [exact E|]. eexists. split; [reflexivity|]. left. split; [reflexivity|eexists; reflexivity].
    - apply get_set_same.
  Qed.

  (* ================================================================ composite: the fold over the body *)
  Definition entI (kv : str * tv) : Prop :=
    lower_key (fst kv) /\ bk (fst kv) = false /\ entry_p (fst kv) (tvv (snd kv)).
  Definition dictI (d : titems) : Prop :=
    kidsV d /\ finF d /\ cfgform d /\ NoDup (keys d) /\ Forall entI d.

  Lemma dictI_set k y d :
    dictI d -> lower k = k -> bk k = false -> (skipk k = true \/ PV y) -> (skipk k = true \/ fin y) ->
    entry_p k (tvv y) -> (k = s_config -> exists ci, y = TDict (DCI true) ci) -> dictI (od_set k y d).
  Proof.
    intros (H1 & H2 & H3 & H4 & H5) Hl Hb Hp Hf He Hc.
    split; [apply kidsV_set; assumption|]. split; [apply finF_set; assumption|].
    split; [|split; [apply NoDup_set; exact H4|apply Forall_od_set; [split; [exact Hl|split; [exact Hb|exact He]]|exact H5]]].
    intros y0 Hy0. destruct (str_dec s_config k) as [<-|Hne].
    - rewrite get_set_same in Hy0. injection Hy0 as <-. apply Hc. reflexivity.
    - rewrite get_set_other in Hy0 by exact Hne. apply H3. exact Hy0.
  Qed.

  Lemma dictI_get k y d :
    dictI d -> assoc k d = Some y -> (skipk k = true \/ PV y) /\ (skipk k = true \/ fin y) /\ entI (k, y).
  Proof.
    intros (H1 & H2 & _ & _ & H5) Ha. split; [|split].
    - exact (assoc_Forall' (fun k v => skipk k = true \/ PV v) k y d H1 Ha).
    - exact (assoc_Forall' (fun k v => skipk k = true \/ fin v) k y d H2 Ha).
    - exact (assoc_Forall' (fun k v => entI (k, v)) k y d H5 Ha).
  Qed.

  Lemma map_tvv_TVal l : map tvv (map TVal l) = l.
  Proof. induction l as [|v l IH]; [reflexivity|]. cbn [map tvv]. rewrite IH. reflexivity. Qed.

  Lemma tv_list_append_img cur e r :
    tv_list_append cur e = Ok r -> exists l, tvv cur = VList l /\ tvv r = VList (l ++ [tvv e]).
  Proof.
    destruct cur as [v|t|l|c items]; try discriminate.
    - destruct v as [| | | | |l|]; try discriminate. cbn [tv_list_append].
      destruct e as [w|t|l2|c2 i2]; intros [= <-]; exists l; (split; [reflexivity|]); cbn [tvv];
        try reflexivity; rewrite map_app, map_tvv_TVal; reflexivity.
    - intros [= <-]. exists (map tvv l). split; [reflexivity|]. cbn [tvv]. rewrite map_app. reflexivity.
  Qed.

  Lemma tv_list_append_PVfin cur e r :
    PV cur -> PV e -> fin cur -> fin1 e -> tv_list_append cur e = Ok r -> PV r /\ fin r.
  Proof.
    intros Hc He Fc Fe H. destruct cur as [v|t|l|c items]; try discriminate.
    - destruct v as [| | | | |l|]; try discriminate. cbn [PV nodict] in Hc.
      assert (Hl : Forall PV (map TVal l)).
      { apply Forall_forall. intros y Hy. apply in_map_iff in Hy. destruct Hy as (w & <- & Hw).
        cbn [PV]. rewrite forallb_forall in Hc. apply Hc. exact Hw. }
      assert (Hf : Forall fin1 (map TVal l)).
      { apply Forall_forall. intros y Hy. apply in_map_iff in Hy. destruct Hy as (w & <- & Hw). exact I. }
      destruct e as [w|t|l2|c2 i2]; cbn [tv_list_append] in H; injection H as <-.
      + split; [|exact I]. cbn [PV nodict]. apply forallb_app_true; [exact Hc|]. cbn [forallb]. cbn [PV] in He. rewrite He. reflexivity.
      + contradiction.
      + contradiction.
      + split; [apply PV_seq|cbn [fin]]; (apply Forall_app; split; [assumption|constructor; [assumption|constructor]]).
    - injection H as <-. cbn [fin] in Fc. apply PV_seq in Hc.
      split; [apply PV_seq|cbn [fin]]; (apply Forall_app; split; [assumption|constructor; [assumption|constructor]]).
  Qed.

  Lemma NoDup_In_assoc {A} k (v : A) l : NoDup (keys l) -> In (k, v) l -> assoc k l = Some v.
  Proof.
    induction l as [|[k' v'] l IH]; cbn [keys map fst In assoc]; [tauto|]. intros Hnd Hin.
    inversion Hnd as [|? ? Hn Hd]; subst.
    destruct Hin as [E|Hin].
    - injection E as -> ->. rewrite str_eqb_refl. reflexivity.
    - destruct (str_eqb_spec k k') as [->|Hne]; [|apply IH; assumption].
      exfalso. apply Hn. eapply In_keys. exact Hin.
  Qed.

  Lemma typed_block c items k :
    PV (TDict c items) -> assoc s_type items = Some (TVal (VStr k)) ->
    c = DCI true /\ mem_str k BTYPES = true /\ isblock k (tvv (TDict c items)).
  Proof.
    intros Hp Ht. apply PV_dict in Hp.
    destruct Hp as [_ [(_ & (_ & Hn & _))|(-> & _ & Hb)]]; [rewrite Ht in Hn; discriminate|].
    split; [reflexivity|].
    assert (Ha : assoc s_type (tvi items) = Some (VStr k)) by (rewrite assoc_tvi, Ht; reflexivity).
    split; [|exists (tvi items); split; [reflexivity|exact Ha]].
    destruct Hb as [(((ty & rest & E) & _ & HF) & _)|((ty & Hty & Hin) & _)].
    - rewrite E in Ha, HF. cbn [assoc] in Ha. rewrite str_eqb_refl in Ha. injection Ha as ->.
      pose proof (Forall_inv HF) as [_ He]. cbn [fst snd] in He. unfold entry_ok in He.
      destruct family_consts as (E1 & _). rewrite E1 in He. destruct He as (ty' & [= <-] & Hb). exact Hb.
    - rewrite Hty in Ha. injection Ha as ->. apply kvtype_btype. exact Hin.
  Qed.

  Lemma untyped_attr c items : PV (TDict c items) -> assoc s_type items = None -> attrd items.
  Proof.
    intros Hp Ht. apply PV_dict in Hp. destruct Hp as [_ [(_ & Ha)|(_ & _ & Hb)]]; [exact Ha|exfalso].
    assert (Ha : assoc s_type (tvi items) = None) by (rewrite assoc_tvi, Ht; reflexivity).
    destruct Hb as [(((ty & rest & E) & _) & _)|((ty & Hty & _) & _)].
    - rewrite E in Ha. cbn [assoc] in Ha. rewrite str_eqb_refl in Ha. discriminate Ha.
    - rewrite Hty in Ha. discriminate Ha.
  Qed.

  Lemma attrd_items2 items kn' v :
    attrd items -> items2_of items = [(kn', v)] -> exists V, v = TVal V /\ lower kn' = kn' /\ akind kn' V.
  Proof.
    intros (Hnd & _ & kn & V & Hl & Hak & Ha & Hk) H2.
    destruct (items2_single items kn' v Hnd H2) as [Hin Hnr].
    assert (E : kn' = kn).
    { destruct (Hk kn' (In_keys _ _ _ Hin)) as [E|E]; [exact E|]. exfalso. apply Hnr. apply bk_reserved. exact E. }
    subst kn'. exists V. split; [|split; assumption].
    pose proof (NoDup_In_assoc _ _ _ Hnd Hin) as Ha'. rewrite Ha in Ha'. injection Ha' as <-. reflexivity.
  Qed.

  (* ---------------------------------------------------------------- calculate_depth on point lists *)
  Lemma fold_max_const ds k : forall a, (a <= k)%Z -> ds <> [] -> Forall (fun d => d = k) ds -> fold_left Z.max ds a = k.
  Proof.
    induction ds as [|d ds IH]; intros a Ha Hne HF; [contradiction Hne; reflexivity|].
    cbn [fold_left]. pose proof (Forall_inv HF) as Hd. cbn beta in Hd. subst d.
    destruct ds as [|d2 ds]; [cbn [fold_left]; lia|].
    apply IH; [lia|discriminate|exact (Forall_inv_tail HF)].
  Qed.

  Lemma mapM_all_eq {A} (g : A -> res Z) l k : forall ds,
    (forall x dx, In x l -> g x = Ok dx -> dx = k) -> mapM g l = Ok ds -> Forall (fun d => d = k) ds.
  Proof.
    induction l as [|x l IH]; intros ds Hall H; cbn [mapM] in H.
    - injection H as <-. constructor.
    - destruct (g x) as [dx|e] eqn:Ex; cbn [bind] in H; [|discriminate].
      destruct (mapM g l) as [ds'|e]; cbn [bind] in H; [|discriminate]. injection H as <-.
      constructor; [eapply Hall; [left; reflexivity|exact Ex]|].
      apply IH; [|reflexivity]. intros y dy Hy. apply Hall. right. exact Hy.
  Qed.

  Lemma depth_list f l d k :
    (0 <= k)%Z -> (forall x dx, In x l -> depth_fuel f x = Ok dx -> dx = k) ->
    depth_fuel (S f) (VList l) = Ok d -> d = (k + 1)%Z.
  Proof.
    intros Hk Hall H. cbn [depth_fuel] in H. destruct l as [|x l]; [discriminate|].
    destruct (mapM (depth_fuel f) (x :: l)) as [ds|e] eqn:Em; cbn [bind] in H; [|discriminate].
    injection H as <-. f_equal. apply fold_max_const; [exact Hk| |].
    - intros ->. apply mapM_length in Em. discriminate Em.
    - eapply mapM_all_eq; [exact Hall|exact Em].
  Qed.

  Lemma depth_pair f p d : pairp p -> depth_fuel f p = Ok d -> d = 1%Z.
  Proof.
    intros (a & b & -> & Ha & Hb) H. destruct f as [|f]; [discriminate H|].
    apply (depth_list f [a; b] d 0%Z); [lia| |exact H].
    intros x dx [<-|[<-|[]]] Hx; eapply depth_number; try exact Hx; apply numv_number with (toks := toks); assumption.
  Qed.

  Lemma depth_pairs f v d : pairsp v -> depth_fuel f v = Ok d -> d = 2%Z.
  Proof.
    intros (l & -> & Hl) H. destruct f as [|f]; [discriminate H|].
    apply (depth_list f l d 1%Z); [lia| |exact H].
    intros x dx Hx Hd. rewrite Forall_forall in Hl. eapply depth_pair; [apply Hl; exact Hx|exact Hd].
  Qed.

  Lemma depth_pairss f ll d : Forall pairsp ll -> depth_fuel f (VList ll) = Ok d -> d = 3%Z.
  Proof.
    intros Hl H. destruct f as [|f]; [discriminate H|].
    apply (depth_list f ll d 2%Z); [lia| |exact H].
    intros x dx Hx Hd. rewrite Forall_forall in Hl. eapply depth_pairs; [apply Hl; exact Hx|exact Hd].
  Qed.

  Lemma entry_points v : entry_p s_points v = ptsv NV v.
  Proof. unfold entry_p, entry_ok. destruct family_consts as (_ & _ & E & _). rewrite E. reflexivity. Qed.

  Lemma entry_config v : entry_p s_config v = cfgv CV KV v.
  Proof. unfold entry_p, entry_ok. destruct family_consts as (_ & E & _). rewrite E. reflexivity. Qed.

  Lemma bk_false_consts : bk s_type = false /\ bk s_config = false /\ bk s_points = false.
  Proof. vm_compute. repeat split; reflexivity. Qed.

  Lemma points_new_I d newv r : dictI d -> pairsp newv -> points_new d newv = Ok r -> dictI r.
  Proof.
    unfold points_new, ci_get, ci_set. destruct bk_consts_lower as (_ & _ & _ & _ & _ & Elow & _). rewrite Elow.
    destruct bk_false_consts as (_ & _ & Ebk).
    intros HI Hn H.
    assert (Hset : forall v, nodict v = true -> ptsv NV v -> dictI (od_set s_points (TVal v) d)).
    { intros v Hnd Hv. apply dictI_set; [exact HI|exact Elow|exact Ebk| | | |].
      - right. exact Hnd.
      - right. exact I.
      - rewrite entry_points. exact Hv.
      - intros E. discriminate E. }
    destruct (assoc s_points d) as [[ex| | |]|] eqn:Eg; try discriminate.
    - destruct (dictI_get _ _ _ HI Eg) as (Hp & _ & (_ & _ & He)). cbn [fst snd tvv] in He. rewrite entry_points in He.
      destruct Hp as [Hp|Hp]; [discriminate Hp|]. cbn [PV] in Hp.
      destruct (calculate_depth ex) as [dep|e] eqn:Ed; cbn [bind] in H; [|discriminate].
      unfold calculate_depth in Ed.
      destruct He as [He|(ll & -> & Hll)].
      + rewrite (depth_pairs _ _ _ He Ed) in H. cbn in H. injection H as <-. apply Hset.
        * cbn [nodict forallb]. rewrite Hp, (pairsp_nodict _ Hn). reflexivity.
        * right. eexists. split; [reflexivity|]. constructor; [exact He|constructor; [exact Hn|constructor]].
      + rewrite (depth_pairss _ _ _ Hll Ed) in H. cbn in H. injection H as <-. apply Hset.
        * cbn [nodict] in Hp |- *. apply forallb_app_true; [exact Hp|]. cbn [forallb]. rewrite (pairsp_nodict _ Hn). reflexivity.
        * right. eexists. split; [reflexivity|]. apply Forall_app. split; [exact Hll|constructor; [exact Hn|constructor]].
    - injection H as <-. apply Hset; [apply pairsp_nodict; exact Hn|left; exact Hn].
  Qed.

  Lemma process_config_I st a pos s V :
    dictI (cs_dict st) -> cfg1 V -> assoc s_config a = Some (TVal V) ->
    process_config st a pos = Ok s -> dictI (cs_dict s).
  Proof.
    intros HI (ka & vb & -> & Hka & Hvb) Ha H.
    destruct (process_config_inv _ _ _ _ H) as (c & cfg & Ha' & -> & _).
    rewrite Ha in Ha'. injection Ha' as <- <-.
    cbn [cfg_fold fold_left fst snd]. unfold ci_set at 1. destruct bk_consts_lower as (_ & _ & _ & _ & Elow & _). rewrite Elow.
    destruct bk_false_consts as (_ & Ebk & _).
    apply dictI_set; try assumption.
    - left. reflexivity.
    - left. reflexivity.
    - rewrite entry_config. cbn [tvv]. eexists. split; [reflexivity|].
      unfold ci_set. change (tvi (od_set (lower ka) (TVal vb) ?d)) with (tvi (od_set (lower ka) (TVal vb) d)).
      rewrite tvi_od_set. cbn [tvv]. apply Forall_od_set; [split; assumption|].
      unfold cfg_cur. destruct (ci_get s_config (cs_dict st)) as [[| | |c0 items0]|] eqn:Eg; try constructor.
      unfold ci_get in Eg. rewrite Elow in Eg.
      destruct (dictI_get _ _ _ HI Eg) as (_ & _ & (_ & _ & He)). cbn [fst snd tvv] in He. rewrite entry_config in He.
      destruct He as (items' & [= _ <-] & Hi). exact Hi.
    - intros _. eexists. reflexivity.
  Qed.

  Lemma family_rep_intro k :
    k <> s_type -> bk k = false -> str_eqb k s_config = false -> str_eqb k s_points = false ->
    mem_str k REPEATED_KEYS = true -> family k = FRep.
  Proof.
    intros H1 H2 H3 H4 H5. unfold family. destruct (str_eqb_spec k s_type); [contradiction|].
    rewrite H2, H3, H4, H5. reflexivity.
  Qed.

  Lemma entry_rep k v : family k = FRep -> entry_p k v = (exists l, v = VList l /\ l <> [] /\ Forall gattrp l).
  Proof. intros E. unfold entry_p, entry_ok. rewrite E. reflexivity. Qed.

  Lemma snoc_not_nil {A} (l : list A) x : l ++ [x] <> [].
  Proof. destruct l; discriminate. Qed.

  Lemma ci_untyped_I ic st pos cm kn V s :
    dictI (cs_dict st) -> lower kn = kn -> akind kn V ->
    ci_untyped ic st pos cm [(kn, TVal V)] = Ok s -> dictI (cs_dict s).
  Proof.
    intros HI Hl Hak H. unfold ci_untyped in H.
    destruct (akind_family kn V Hak) as (F1 & F2 & F3 & F4).
    assert (Hnt : kn <> s_type) by (intros ->; apply F1; apply family_type; reflexivity).
    pose proof (family_bk_false kn F2) as Hbk.
    destruct (str_eqb_spec kn s_config) as [->|Hnc].
    { apply (process_config_I st [(s_config, TVal V)] pos s V HI); [|reflexivity|exact H].
      unfold akind in Hak. destruct family_consts as (_ & E & _). rewrite E in Hak. exact Hak. }
    destruct (str_eqb_spec kn s_points) as [->|Hnp].
    { apply process_points_inv in H. destruct H as (nv & Ha & Hn & _).
      cbn [assoc] in Ha. rewrite str_eqb_refl in Ha. injection Ha as <-.
      eapply points_new_I; [exact HI| |exact Hn].
      unfold akind in Hak. destruct family_consts as (_ & _ & E & _). rewrite E in Hak. exact Hak. }
    assert (Ec : str_eqb kn s_config = false) by (apply str_eqb_neq; exact Hnc).
    assert (Ep : str_eqb kn s_points = false) by (apply str_eqb_neq; exact Hnp).
    destruct (mem_str kn REPEATED_KEYS) eqn:Er.
    - cbv zeta in H.
      pose proof (family_rep_intro kn Hnt Hbk Ec Ep Er) as Ef.
      assert (Hg : gattrp V) by (unfold akind in Hak; rewrite Ef in Hak; exact Hak).
      assert (Hsk : skipk kn = false) by (apply skipk_false; [exact F2|rewrite Ef; discriminate]).
      destruct (tv_list_append _ (TVal V)) as [c1|e] eqn:A1; cbn [bind] in H; [|discriminate].
      injection H as <-. cbn [cs_dict]. unfold ci_set. rewrite Hl.
      unfold ci_get in A1. rewrite Hl in A1.
      destruct (tv_list_append_img _ _ _ A1) as (l & El & Er').
      assert (Hcur : PV (match assoc kn (cs_dict st) with Some x => x | None => TSeq [] end) /\
                     fin (match assoc kn (cs_dict st) with Some x => x | None => TSeq [] end) /\
                     Forall gattrp l).
      { destruct (assoc kn (cs_dict st)) as [cur|] eqn:Eg.
        - destruct (dictI_get _ _ _ HI Eg) as (Hp & Hf & (_ & _ & He)). cbn [fst snd] in He.
          rewrite (entry_rep kn _ Ef) in He. destruct He as (l' & El' & _ & Hl').
          rewrite El in El'. injection El' as <-.
          destruct Hp as [Hp|Hp]; [rewrite Hsk in Hp; discriminate Hp|].
          destruct Hf as [Hf|Hf]; [rewrite Hsk in Hf; discriminate Hf|]. auto.
        - cbn [tvv map] in El. injection El as <-. split; [exact I|]. split; [constructor|constructor]. }
      destruct Hcur as (Pc & Fc & Hlg).
      assert (HV : PV (TVal V)) by (cbn [PV]; apply gattrp_nodict; exact Hg).
      destruct (tv_list_append_PVfin _ _ _ Pc HV Fc I A1) as [Pr Fr].
      apply dictI_set; try assumption.
      + right. exact Pr.
      + right. exact Fr.
      + rewrite (entry_rep kn _ Ef). rewrite Er'. eexists. split; [reflexivity|]. split; [apply snoc_not_nil|].
        apply Forall_app. split; [exact Hlg|constructor; [exact Hg|constructor]].
      + intros E. contradiction.
    - cbv zeta in H. injection H as <-. cbn [cs_dict]. unfold ci_set. rewrite Hl.
      destruct (family_plain kn Ec Ep Er) as (G1 & G2 & G3).
      apply dictI_set; try assumption.
      + right. cbn [PV]. eapply akind_nodict; eassumption.
      + right. exact I.
      + cbn [tvv]. apply akind_entry; assumption.
      + intros E. contradiction.
  Qed.

  Lemma entry_single k v : family k = FSingle -> entry_p k v = isblock k v.
  Proof. intros E. unfold entry_p, entry_ok. rewrite E. reflexivity. Qed.

  Lemma entry_plural k v :
    family k = FPlural ->
    entry_p k v = (exists l, v = VList l /\ l <> [] /\
                     Forall (fun d => exists ty, isblock ty d /\ plural ty = k /\
                                                 mem_str ty SINGLETON_COMPOSITE_NAMES = false) l).
  Proof. intros E. unfold entry_p, entry_ok. rewrite E. reflexivity. Qed.

  Lemma ci_typed_I st c items k s :
    dictI (cs_dict st) -> PV (TDict c items) -> assoc s_type items = Some (TVal (VStr k)) ->
    ci_typed st (TDict c items) (TVal (VStr k)) = Ok s -> dictI (cs_dict s).
  Proof.
    intros HI Hp Ht H. unfold ci_typed in H. cbn [bind] in H.
    destruct (typed_block c items k Hp Ht) as (-> & Hb & Hblk).
    pose proof (btype_lower k Hb) as Hlow.
    destruct (mem_str k SINGLETON_COMPOSITE_NAMES) eqn:Es.
    - injection H as <-. cbn [cs_dict]. unfold ci_set. rewrite Hlow.
      pose proof (btype_single k Hb Es) as Ef.
      apply dictI_set; try assumption.
      + apply family_bk_false. rewrite Ef. discriminate.
      + right. exact Hp.
      + right. reflexivity.
      + rewrite (entry_single k _ Ef). exact Hblk.
      + intros ->. rewrite (family_config s_config eq_refl) in Ef. discriminate Ef.
    - cbv zeta in H. destruct (btype_plural k Hb Es) as [Ef Hpl].
      assert (Hsk : skipk (plural k) = false) by (apply skipk_false; rewrite Ef; discriminate).
      destruct (tv_list_append _ (TDict (DCI true) items)) as [c1|e] eqn:A1; cbn [bind] in H; [|discriminate].
      injection H as <-. cbn [cs_dict]. unfold ci_set. rewrite Hpl.
      unfold ci_get in A1. rewrite Hpl in A1.
      destruct (tv_list_append_img _ _ _ A1) as (l & El & Er').
      set (Q := fun d => exists ty, isblock ty d /\ plural ty = plural k /\
                                    mem_str ty SINGLETON_COMPOSITE_NAMES = false) in *.
      assert (Hcur : PV (match assoc (plural k) (cs_dict st) with Some x => x | None => TSeq [] end) /\
                     fin (match assoc (plural k) (cs_dict st) with Some x => x | None => TSeq [] end) /\
                     Forall Q l).
      { destruct (assoc (plural k) (cs_dict st)) as [cur|] eqn:Eg.
        - destruct (dictI_get _ _ _ HI Eg) as (Hp' & Hf & (_ & _ & He)). cbn [fst snd] in He.
          rewrite (entry_plural _ _ Ef) in He. destruct He as (l' & El' & _ & Hl').
          rewrite El in El'. injection El' as <-.
          destruct Hp' as [Hp'|Hp']; [rewrite Hsk in Hp'; discriminate Hp'|].
          destruct Hf as [Hf|Hf]; [rewrite Hsk in Hf; discriminate Hf|]. auto.
        - cbn [tvv map] in El. injection El as <-. split; [exact I|]. split; [constructor|constructor]. }
      destruct Hcur as (Pc & Fc & Hlg).
      destruct (tv_list_append_PVfin _ _ _ Pc Hp Fc eq_refl A1) as [Pr Fr].
      apply dictI_set; try assumption.
      + apply family_bk_false. rewrite Ef. discriminate.
      + right. exact Pr.
      + right. exact Fr.
      + rewrite (entry_plural _ _ Ef). rewrite Er'. eexists. split; [reflexivity|]. split; [apply snoc_not_nil|].
        apply Forall_app. split; [exact Hlg|constructor; [|constructor]].
        exists k. split; [exact Hblk|]. split; [reflexivity|exact Es].
      + intros E. rewrite (family_config _ E) in Ef. discriminate Ef.
  Qed.

  Lemma composite_item_I ic st d s :
    dictI (cs_dict st) -> PV d -> composite_item ic st d = Ok s -> dictI (cs_dict s).
  Proof.
    intros HI Hd H. rewrite composite_item_stages in H.
    destruct d as [| | |c items]; try discriminate.
    destruct (assoc s_type items) as [ty|] eqn:Et.
    - destruct ty as [[| | | |k| |]| | |]; try discriminate. eapply ci_typed_I; eassumption.
    - destruct (assoc s_position items) as [[p| | |]|] eqn:Ep; try discriminate. cbn [bind] in H.
      pose proof (untyped_attr c items Hd Et) as Ha.
      destruct (items2_of items) as [|[kn v] [|? ?]] eqn:E2; try discriminate.
      destruct (attrd_items2 items kn v Ha E2) as (V & -> & Hl & Hak).
      eapply ci_untyped_I; eassumption.
  Qed.

  Lemma comp_fold_I ic l : forall st s,
    Forall PV l -> dictI (cs_dict st) -> comp_fold ic l (Ok st) = Ok s -> dictI (cs_dict s).
  Proof.
    induction l as [|d l IH]; intros st s HF HI H; cbn [comp_fold fold_left] in H.
    - injection H as <-. exact HI.
    - unfold comp_step at 2 in H. cbn [bind] in H.
      destruct (composite_item ic st d) as [st1|e] eqn:E1.
      + eapply IH; [exact (Forall_inv_tail HF)| |exact H].
        eapply composite_item_I; [exact HI|exact (Forall_inv HF)|exact E1].
      + fold (comp_fold ic l (Err e)) in H. rewrite comp_fold_err in H. discriminate.
  Qed.

  (* ---------------------------------------------------------------- composite: the finished dict *)
  Lemma bk_skipk k : bk k = true -> skipk k = true.
  Proof. intros H. unfold skipk. rewrite H. reflexivity. Qed.

  Lemma bk_lower k : bk k = true -> lower k = k.
  Proof.
    intros H. apply bk_reserved in H. destruct bk_consts_lower as (E1 & E2 & E3 & _).
    destruct H as [-> | [-> | ->]]; assumption.
  Qed.

  Lemma NoDup_mid {A} (a : A) l1 l2 :
    NoDup (a :: l2) -> NoDup l1 -> (forall x, In x l1 -> x <> a /\ ~ In x l2) -> NoDup (a :: l1 ++ l2).
  Proof.
    intros H2 H1 Hd. inversion H2 as [|? ? Ha Hl2]; subst. constructor.
    - intros Hin. apply in_app_or in Hin. destruct Hin as [Hin|Hin]; [|contradiction].
      destruct (Hd a Hin) as [Hne _]. contradiction Hne. reflexivity.
    - induction H1 as [|x l1 Hx Hl1 IH]; [exact Hl2|]. cbn [app]. constructor.
      + intros Hin. apply in_app_or in Hin. destruct Hin as [Hin|Hin]; [contradiction|].
        destruct (Hd x (or_introl eq_refl)) as [_ Hn]. contradiction.
      + apply IH. intros y Hy. apply Hd. right. exact Hy.
  Qed.

  Lemma finish_PV v1 r1 mid :
    dictI ((s_type, v1) :: r1) ->
    Forall (fun kv => bk (fst kv) = true /\ exists v, snd kv = TVal v) mid -> NoDup (keys mid) ->
    PV (TDict (DCI true) ((s_type, v1) :: mid ++ r1)).
  Proof.
    intros (H1 & H2 & H3 & H4 & H5) Hmid Hnd.
    inversion H1 as [|? ? K1 Kr]; subst. inversion H2 as [|? ? F1 Fr]; subst. inversion H5 as [|? ? E1 Er]; subst.
    apply PV_dict. split.
    - constructor; [exact K1|]. apply Forall_app. split; [|exact Kr].
      eapply Forall_impl; [|exact Hmid]. intros kv [Hb _]. left. apply bk_skipk. exact Hb.
    - right. split; [reflexivity|]. split.
      { constructor; [exact F1|]. apply Forall_app. split; [|exact Fr].
        eapply Forall_impl; [|exact Hmid]. intros kv [Hb _]. left. apply bk_skipk. exact Hb. }
      left. split.
      + split; [|split].
        * destruct E1 as (_ & _ & He). cbn [fst snd] in He. unfold entry_p, entry_ok in He.
          destruct family_consts as (Ef & _). rewrite Ef in He. destruct He as (ty & Hty & _).
          exists ty, (tvi (mid ++ r1)). cbn [tvi map fst snd]. rewrite Hty. reflexivity.
        * rewrite keys_tvi. unfold keys. cbn [map fst]. rewrite map_app. apply NoDup_mid.
          -- exact H4.
          -- exact Hnd.
          -- intros k Hk. apply in_map_iff in Hk. destruct Hk as (kv & <- & Hkv).
             rewrite Forall_forall in Hmid. destruct (Hmid kv Hkv) as [Hb _]. split.
             ++ intros E. rewrite E in Hb. destruct bk_false_consts as (Eb & _). rewrite Eb in Hb. discriminate Hb.
             ++ intros Hin. apply in_map_iff in Hin. destruct Hin as (kv2 & E2 & Hin2).
                rewrite Forall_forall in Er. destruct (Er kv2 Hin2) as (_ & Hb2 & _). rewrite E2, Hb in Hb2. discriminate Hb2.
        * unfold tvi. apply Forall_forall. intros kv Hin. apply in_map_iff in Hin. destruct Hin as ([k y] & <- & Hin).
          cbn [fst snd]. destruct Hin as [E|Hin].
          -- injection E as <- <-. destruct E1 as (L1 & _ & He). split; [exact L1|exact He].
          -- apply in_app_or in Hin. destruct Hin as [Hin|Hin].
             ++ rewrite Forall_forall in Hmid. destruct (Hmid _ Hin) as [Hb _]. cbn [fst] in Hb.
                split; [apply bk_lower; exact Hb|]. unfold entry_ok. rewrite (family_bk k Hb). exact I.
             ++ rewrite Forall_forall in Er. destruct (Er _ Hin) as (L & _ & He). split; [exact L|exact He].
      + intros y Hy. apply H3. cbn [assoc] in Hy |- *.
        destruct (str_eqb s_config s_type) eqn:Est; [exact Hy|].
        rewrite assoc_app_notin in Hy; [exact Hy|].
        apply assoc_None_notin. intros Hin. apply in_map_iff in Hin. destruct Hin as (kv & E & Hkv).
        rewrite Forall_forall in Hmid. destruct (Hmid kv Hkv) as [Hb _]. rewrite E in Hb.
        destruct bk_false_consts as (_ & Eb & _). rewrite Eb in Hb. discriminate Hb.
  Qed.

  Lemma comp_finish_PV ic st x :
    dictI (cs_dict st) -> hk (cs_dict st) = Some s_type -> comp_finish ic st = Ok x -> PV x /\ isblk x.
  Proof.
    unfold comp_finish. cbv zeta. intros HI Hk H.
    destruct (cs_dict st) as [|[k1 v1] r1]; [discriminate|]. cbn [hk] in Hk. injection Hk as ->.
    injection H as <-. split; [|eexists; reflexivity]. rewrite app_assoc.
    apply finish_PV; [exact HI| |].
    - destruct (cs_pos st), ic; cbn [app]; repeat constructor; cbn [fst snd]; eexists; reflexivity.
    - destruct (cs_pos st), ic; cbn [app keys map fst]; repeat constructor; cbn [In]; try tauto.
      intros [E|[]]. discriminate E.
  Qed.

  Lemma attrs_of_PV x : PV x -> Forall PV (attrs_of x).
  Proof. intros H. unfold attrs_of. destruct x; try (constructor; [exact H|constructor]). apply PV_seq. exact H. Qed.

  Lemma comp_init_I kn pd : mem_str kn BTYPES = true -> dictI (cs_dict (comp_init kn pd)).
  Proof.
    intros Hb. cbn [comp_init cs_dict]. unfold ci_set. destruct bk_consts_lower as (_ & _ & _ & E & _). rewrite E.
    cbn [od_set od_mem app]. split; [|split; [|split; [|split]]].
    - constructor; [right; reflexivity|constructor].
    - constructor; [right; exact I|constructor].
    - intros y Hy. discriminate Hy.
    - cbn [keys map fst]. constructor; [intros []|constructor].
    - constructor; [|constructor]. split; [exact E|]. split; [apply bk_false_consts|].
      cbn [fst snd tvv]. unfold entry_p, entry_ok. destruct family_consts as (Ef & _). rewrite Ef.
      exists kn. split; [reflexivity|exact Hb].
  Qed.

  Lemma cb_composite_PV ip ic t x :
    Forall PV t -> (length t = 1%nat -> exists y, t = [y] /\ isblk y) ->
    (forall key r rest, t = TSeq (TTok key :: r) :: rest -> KB key) ->
    cb_composite ip ic t = Ok x -> PV x /\ isblk x.
  Proof.
    rewrite cb_composite_stages. intros HF H1 HK H.
    destruct t as [|a [|b r]]; [discriminate| |].
    - injection H as <-. destruct (H1 eq_refl) as (y & [= <-] & Hy). split; [exact (Forall_inv HF)|exact Hy].
    - destruct a as [| |[|[|key| |] l]|]; try discriminate.
      pose proof (HK key l (b :: r) eq_refl) as HKB.
      unfold comp_main in H.
      destruct (key_name key) as [kn|e] eqn:En; cbn [bind] in H; [|discriminate].
      destruct (comp_pd ip key) as [pd|e]; cbn [bind] in H; [|discriminate].
      destruct (comp_fold ic _ _) as [st|e] eqn:F1; cbn [bind] in H; [|discriminate].
      eapply comp_finish_PV; [| |exact H].
      + eapply comp_fold_I; [| |exact F1].
        * apply attrs_of_PV. exact (Forall_inv (Forall_inv_tail HF)).
        * apply comp_init_I. apply ctype_btype. apply HKB. exact En.
      + eapply comp_fold_hk; [exact F1|apply comp_init_hk].
  Qed.

  (* ================================================================ facts about the shape table
     (each discharged in Proofs/C02U_Guard.v by one vm_compute on the generated grammar) *)
  Hypothesis H_int : shapes_in [] true (get C CB_int) = true.
  Hypothesis H_float : shapes_in [] true (get C CB_float) = true.
  Hypothesis H_hexcolor : shapes_in [] true (get C CB_hexcolor) = true.
  Hypothesis H_string : shapes_in [] true (get C CB_string) = true.
  Hypothesis H_path : shapes_in [] true (get C CB_path) = true.
  Hypothesis H_regexp : shapes_in [] true (get C CB_regexp) = true.
  Hypothesis H_runtime_var : shapes_in [] true (get C CB_runtime_var) = true.
  Hypothesis H_compare_op : shapes_in [] true (get C CB_compare_op) = true.
  Hypothesis H_true : shapes_in [STok TM_TRUE] false (get C CB_true) = true.
  Hypothesis H_false : shapes_in [STok TM_FALSE] false (get C CB_false) = true.
  Hypothesis H_num_pair : shapes_in [SNode CB_int; SNode CB_float] false (get C CB_num_pair) = true.
  Hypothesis H_string_pair : shapes_in [SNode CB_string] true (get C CB_string_pair) = true.
  Hypothesis H_points : shapes_in [SNode CB_num_pair] true (get C CB_points) = true.
  Hypothesis H_pattern : shapes_in [SNode CB_num_pair] true (get C CB_pattern) = true.
  Hypothesis H_projection : shapes_in [SNode CB_string] true (get C CB_projection) = true.
  Hypothesis H_config : shapes_in [SNode CB_string] true (get C CB_config) = true.
  Hypothesis H_values : shapes_in [SNode CB_string_pair] true (get C CB_values) = true.
  Hypothesis H_metadata : shapes_in [SNode CB_string_pair] true (get C CB_metadata) = true.
  Hypothesis H_validation : shapes_in [SNode CB_string_pair] true (get C CB_validation) = true.
  Hypothesis H_connectionoptions : shapes_in [SNode CB_string_pair] true (get C CB_connectionoptions) = true.
  Hypothesis H_func_call : shapes_in [SNode CB_func_params] true (get C CB_func_call) = true.
  Hypothesis H_composite_type : shapes_in [] true (get C CB_composite_type) = true.
  Hypothesis H_composite :
    shapes_in [SNode CB_values; SNode CB_metadata; SNode CB_validation; SNode CB_connectionoptions;
               SNode CB_composite_type; SNode CB_composite_body] false (get C CB_composite) = true.
  Hypothesis H_start : shapes_in [SNode CB_composite] false (get C CB_start) = true.
  Hypothesis H_body :
    shapes_in [SNode CB_config; SNode CB_values; SNode CB_pattern; SNode CB_projection; SNode CB_points;
               SNode CB_attr; SNode CB_composite] false (get C CB_composite_body) = true.

  (* the local guards on key tokens, on the arguments of a callback *)
  Definition keyB (x : tv) : Prop := match x with TTok t => KB t | _ => True end.
  Definition LG (d : N) (t : list tv) : Prop :=
    (d = CB_composite_type -> Forall keyB t) /\
    (d = CB_attr -> length t = 1%nat \/ hdP keyA t) /\
    (d = CB_config -> length t = 1%nat \/ hdP keyC t) /\
    (d = CB_composite -> length t = 1%nat -> exists y, t = [y] /\ isblk y).

  Lemma args_pairs d t :
    d <> CB_composite_type -> shapes_in [SNode CB_num_pair] true (get C d) = true ->
    Forall (AKd d) t -> Forall (fun y => realtok y \/ numpair y) t.
  Proof.
    intros Hd Hs HF. eapply Forall_impl; [|exact HF]. intros y Hy.
    destruct (AKd_cases d _ _ y Hd Hs Hy) as [(_ & tk & Hin & -> & _)|[(tk & _ & _ & Hin)|(d' & Hin & Hn)]].
    - left. eexists. split; [reflexivity|]. exists tk. auto.
    - cbn [In] in Hin. destruct Hin as [Hin|[]]. discriminate Hin.
    - cbn [In] in Hin. destruct Hin as [Hin|[]]. injection Hin as <-. rewrite NK_num_pair in Hn. right. exact Hn.
  Qed.

  Lemma args_strpairs d t :
    d <> CB_composite_type -> shapes_in [SNode CB_string_pair] true (get C d) = true ->
    Forall (AKd d) t -> Forall (fun y => realtok y \/ strpair y) t.
  Proof.
    intros Hd Hs HF. eapply Forall_impl; [|exact HF]. intros y Hy.
    destruct (AKd_cases d _ _ y Hd Hs Hy) as [(_ & tk & Hin & -> & _)|[(tk & _ & _ & Hin)|(d' & Hin & Hn)]].
    - left. eexists. split; [reflexivity|]. exists tk. auto.
    - cbn [In] in Hin. destruct Hin as [Hin|[]]. discriminate Hin.
    - cbn [In] in Hin. destruct Hin as [Hin|[]]. injection Hin as <-. rewrite NK_string_pair in Hn. right. exact Hn.
  Qed.

  Lemma cb_first_real t x : Forall realtok t -> cb_first t = Ok x -> PV x /\ realtok x.
  Proof.
    unfold cb_first. intros HF H. destruct t; [discriminate|]. injection H as <-.
    split; [apply realtok_PV|]; exact (Forall_inv HF).
  Qed.

  Lemma In_binops_and : In (Str "( ", Str " AND ", Str " )") binops. Proof. cbn. tauto. Qed.
  Lemma In_binops_or : In (Str "( ", Str " OR ", Str " )") binops. Proof. cbn. tauto. Qed.
  Lemma In_binops_add : In ([], Str " + ", []) binops. Proof. cbn. tauto. Qed.
  Lemma In_binops_sub : In ([], Str " - ", []) binops. Proof. cbn. tauto. Qed.
  Lemma In_binops_div : In ([], Str " / ", []) binops. Proof. cbn. tauto. Qed.
  Lemma In_binops_mul : In ([], Str " * ", []) binops. Proof. cbn. tauto. Qed.
  Lemma In_binops_pow : In ([], Str " ^ ", []) binops. Proof. cbn. tauto. Qed.

  Lemma neq_ctype_consts :
    CB_int <> CB_composite_type /\ CB_float <> CB_composite_type /\ CB_hexcolor <> CB_composite_type /\
    CB_string <> CB_composite_type /\ CB_path <> CB_composite_type /\ CB_regexp <> CB_composite_type /\
    CB_runtime_var <> CB_composite_type /\ CB_compare_op <> CB_composite_type /\
    CB_true <> CB_composite_type /\ CB_false <> CB_composite_type /\ CB_num_pair <> CB_composite_type /\
    CB_string_pair <> CB_composite_type /\ CB_points <> CB_composite_type /\ CB_pattern <> CB_composite_type /\
    CB_projection <> CB_composite_type /\ CB_config <> CB_composite_type /\ CB_values <> CB_composite_type /\
    CB_metadata <> CB_composite_type /\ CB_validation <> CB_composite_type /\
    CB_connectionoptions <> CB_composite_type /\ CB_func_call <> CB_composite_type /\
    CB_composite <> CB_composite_type /\ CB_start <> CB_composite_type /\ CB_composite_body <> CB_composite_type.
  Proof. repeat split; discriminate. Qed.

  (* ================================================================ every callback *)
  Lemma len_PV n t x : Forall PV t -> cb_len n t = Ok x -> PV x.
  Proof. intros HF H. destruct (cb_len_PV _ _ _ HF H) as (Hp & _ & _). exact Hp. Qed.

  Lemma args_nums t : Forall (AKd CB_num_pair) t -> Forall numtok t.
  Proof.
    destruct neq_ctype_consts as (_ & _ & _ & _ & _ & _ & _ & _ & _ & _ & Nnp & _).
    intros HA. eapply Forall_impl; [|exact HA]. intros y Hy.
    destruct (AKd_cases _ _ _ y Nnp H_num_pair Hy) as [(Hf & _)|[(tk & _ & _ & Hin)|(d' & Hin & Hn)]].
    - discriminate Hf.
    - cbn [In] in Hin. destruct Hin as [Hin|[Hin|[]]]; discriminate Hin.
    - cbn [In] in Hin. destruct Hin as [Hin|[Hin|[]]]; injection Hin as <-.
      + rewrite NK_int in Hn. exact Hn.
      + rewrite NK_float in Hn. exact Hn.
  Qed.

  Lemma args_blocks t : Forall (AKd CB_start) t -> Forall isblk t.
  Proof.
    destruct neq_ctype_consts as (_ & _ & _ & _ & _ & _ & _ & _ & _ & _ & _ & _ & _ & _ & _ & _ & _ & _ & _ & _ & _ & _ & Nstart & _).
    intros HA. eapply Forall_impl; [|exact HA]. intros y Hy.
    destruct (AKd_cases _ _ _ y Nstart H_start Hy) as [(Hf & _)|[(tk & _ & _ & Hin)|(d' & Hin & Hn)]].
    - discriminate Hf.
    - cbn [In] in Hin. destruct Hin as [Hin|[]]; discriminate Hin.
    - cbn [In] in Hin. destruct Hin as [Hin|[]]; injection Hin as <-. rewrite NK_composite in Hn. exact Hn.
  Qed.

  Lemma args_dicts t : Forall (AKd CB_composite_body) t -> Forall isdict t.
  Proof.
    destruct neq_ctype_consts as (_ & _ & _ & _ & _ & _ & _ & _ & _ & _ & _ & _ & _ & _ & _ & _ & _ & _ & _ & _ & _ & _ & _ & Nbody).
    intros HA. eapply Forall_impl; [|exact HA]. intros y Hy.
    destruct (AKd_cases _ _ _ y Nbody H_body Hy) as [(Hf & _)|[(tk & _ & _ & Hin)|(d' & Hin & Hn)]].
    - discriminate Hf.
    - cbn [In] in Hin. repeat (destruct Hin as [Hin|Hin]; [discriminate Hin|]). contradiction.
    - cbn [In] in Hin. destruct Hin as [Hin|[Hin|[Hin|[Hin|[Hin|[Hin|[Hin|[]]]]]]]]; injection Hin as <-.
      + rewrite NK_config in Hn. exact Hn.
      + rewrite NK_values in Hn. apply isblk_isdict. exact Hn.
      + rewrite NK_pattern in Hn. exact Hn.
      + rewrite NK_projection in Hn. exact Hn.
      + rewrite NK_points in Hn. exact Hn.
      + rewrite NK_attr in Hn. exact Hn.
      + rewrite NK_composite in Hn. apply isblk_isdict. exact Hn.
  Qed.

  Lemma args_ctoks t : Forall (AKd CB_composite_type) t -> Forall keyB t -> Forall ctok t.
  Proof.
    intros HA HB. induction HA as [|y t Hy _ IH]; [constructor|].
    inversion HB as [|? ? Ky Kt]; subst. constructor; [|apply IH; exact Kt].
    destruct Hy as [(t0 & -> & Hr)|(d' & Hin & _)].
    - exists t0. split; [reflexivity|]. split; [|exact Ky].
      destruct Hr as [(tk & Hin & -> & _)|(Hs & -> & _)]; [left; exists tk; auto|right; auto].
    - destruct (shapes_in_In _ _ _ _ H_composite_type Hin) as [[_ (ty & E)]|[]]. discriminate E.
  Qed.

  Lemma composite_first_KB t key r rest :
    Forall (AKd CB_composite) t -> t = TSeq (TTok key :: r) :: rest -> KB key.
  Proof.
    destruct neq_ctype_consts as (_ & _ & _ & _ & _ & _ & _ & _ & _ & _ & _ & _ & _ & _ & _ & _ & _ & _ & _ & _ & _ & Ncomp & _).
    intros HA ->. pose proof (Forall_inv HA) as Hy.
    destruct (AKd_cases _ _ _ _ Ncomp H_composite Hy) as [(Hf & _)|[(tk & _ & E & _)|(d' & Hin & Hn)]];
      [discriminate Hf|discriminate E|].
    cbn [In] in Hin. destruct Hin as [Hin|[Hin|[Hin|[Hin|[Hin|[Hin|[]]]]]]]; injection Hin as <-.
    - rewrite NK_values in Hn. destruct Hn as (items & E). discriminate E.
    - rewrite NK_metadata in Hn. destruct Hn as (items & E). discriminate E.
    - rewrite NK_validation in Hn. destruct Hn as (items & E). discriminate E.
    - rewrite NK_connectionoptions in Hn. destruct Hn as (items & E). discriminate E.
    - rewrite NK_composite_type in Hn. destruct Hn as (l & [= <-] & Hl).
      destruct (Forall_inv Hl) as (t0 & [= <-] & _ & HKB). exact HKB.
    - rewrite NK_composite_body in Hn. destruct Hn as (l & [= <-] & Hl).
      destruct (Forall_inv Hl) as (c & items & E). discriminate E.
  Qed.

  Lemma func_call_params t f s :
    Forall (AKd CB_func_call) t -> t = [f; TVal (VStr s)] -> eparams toks synth s.
  Proof.
    destruct neq_ctype_consts as (_ & _ & _ & _ & _ & _ & _ & _ & _ & _ & _ & _ & _ & _ & _ & _ & _ & _ & _ & _ & Nfc & _).
    intros HA ->. pose proof (Forall_inv (Forall_inv_tail HA)) as Hy.
    destruct (AKd_cases _ _ _ _ Nfc H_func_call Hy) as [(_ & tk & _ & E & _)|[(tk & _ & E & _)|(d' & Hin & Hn)]];
      [discriminate E|discriminate E|].
    cbn [In] in Hin. destruct Hin as [Hin|[]]. injection Hin as <-.
    rewrite NK_func_params in Hn. destruct Hn as (s' & [= <-] & Hp). exact Hp.
  Qed.

  Lemma callback_PV ip ic d t x :
    Forall PV t -> Forall (AKd d) t -> LG d t -> callback ip ic d t = Ok x -> PV x /\ NK d x.
  Proof.
    intros HF HA (LB & LA & LC & LCo) H. unfold callback in H.
    destruct neq_ctype_consts as (Nint & Nfloat & Nhex & Nstring & Npath & Nregexp & Nrv & Ncop & Ntrue & Nfalse &
      Nnp & Nsp & Npoints & Npattern & Nproj & Nconfig & Nvalues & Nmeta & Nvalid & Nconn & Nfc & Ncomp & Nstart & Nbody).
    repeat match type of H with
           | (if ?c then _ else _) = _ => destruct c eqn:?
           end.
    all: try discriminate.
    all: repeat match goal with E : (_ =? _) = false |- _ => clear E end.
    all: match goal with E : (?n =? _) = true |- _ => apply N.eqb_eq in E; subst n end.
    - (* start *)
      split; [eapply cb_start_PV; eassumption|]. rewrite NK_start.
      pose proof (args_blocks t HA) as Hb.
      unfold cb_start in H. destruct t as [|a [|b r]]; injection H as <-.
      + right. exists []. split; [reflexivity|constructor].
      + left. exact (Forall_inv Hb).
      + right. eexists. split; [reflexivity|exact Hb].
    - (* composite *)
      rewrite NK_composite. eapply cb_composite_PV; [exact HF|exact (LCo eq_refl)| |exact H].
      intros key r rest E. eapply composite_first_KB; eassumption.
    - (* composite_body *)
      injection H as <-. split; [apply PV_seq; exact HF|]. rewrite NK_composite_body.
      eexists. split; [reflexivity|apply args_dicts; exact HA].
    - (* composite_type *)
      injection H as <-. split; [apply PV_seq; exact HF|]. rewrite NK_composite_type.
      eexists. split; [reflexivity|apply args_ctoks; [exact HA|exact (LB eq_refl)]].
    - (* attr *)
      rewrite NK_attr. destruct (LA eq_refl) as [Hlen|Hk].
      + destruct t as [|k0 [|? ?]]; try discriminate Hlen. exfalso. eapply cb_attr_single; exact H.
      + eapply cb_attr_PV; eassumption.
    - (* projection *)
      rewrite NK_projection. eapply cb_projection_PV; [|exact H]. eapply args_real; [exact Nproj|exact H_projection|exact HA].
    - (* config *)
      rewrite NK_config. destruct (LC eq_refl) as [Hlen|Hk].
      + destruct t as [|k0 [|? ?]]; try discriminate Hlen. discriminate H.
      + eapply cb_config_PV; [eapply args_real; [exact Nconfig|exact H_config|exact HA]|exact Hk|exact H].
    - (* points *)
      rewrite NK_points. eapply process_pair_lists_PV; [left; reflexivity| |exact H].
      eapply args_pairs; [exact Npoints|exact H_points|exact HA].
    - (* pattern *)
      rewrite NK_pattern. eapply process_pair_lists_PV; [right; reflexivity| |exact H].
      eapply args_pairs; [exact Npattern|exact H_pattern|exact HA].
    - (* values *)
      rewrite NK_values. eapply process_value_pairs_PV; [left; reflexivity| |exact H].
      eapply args_strpairs; [exact Nvalues|exact H_values|exact HA].
    - (* metadata *)
      rewrite NK_metadata. eapply process_value_pairs_PV; [right; left; reflexivity| |exact H].
      eapply args_strpairs; [exact Nmeta|exact H_metadata|exact HA].
    - (* validation *)
      rewrite NK_validation. eapply process_value_pairs_PV; [right; right; left; reflexivity| |exact H].
      eapply args_strpairs; [exact Nvalid|exact H_validation|exact HA].
    - (* connectionoptions *)
      rewrite NK_connectionoptions. eapply process_value_pairs_PV; [right; right; right; left; reflexivity| |exact H].
      eapply args_strpairs; [exact Nconn|exact H_connectionoptions|exact HA].
    - (* comparison *) split; [eapply cb_comparison_PV; eassumption|exact I].
    - (* and_test *) split; [eapply cb_binary_PV; [exact In_binops_and|exact HF|exact H]|exact I].
    - (* or_test *) split; [eapply cb_binary_PV; [exact In_binops_or|exact HF|exact H]|exact I].
    - (* compare_op *)
      rewrite NK_compare_op. eapply cb_first_real; [|exact H]. eapply args_alltok; [exact Ncop|exact H_compare_op|exact HA].
    - (* not_expression *) split; [eapply cb_prefix_PV; [left; reflexivity|exact HF|exact H]|exact I].
    - (* expression *) split; [eapply cb_expression_PV; eassumption|exact I].
    - (* add *) split; [eapply cb_binary_PV; [exact In_binops_add|exact HF|exact H]|exact I].
    - (* sub *) split; [eapply cb_binary_PV; [exact In_binops_sub|exact HF|exact H]|exact I].
    - (* div *) split; [eapply cb_binary_PV; [exact In_binops_div|exact HF|exact H]|exact I].
    - (* mul *) split; [eapply cb_binary_PV; [exact In_binops_mul|exact HF|exact H]|exact I].
    - (* power *) split; [eapply cb_binary_PV; [exact In_binops_pow|exact HF|exact H]|exact I].
    - (* neg *) split; [eapply cb_prefix_PV; [right; reflexivity|exact HF|exact H]|exact I].
    - (* runtime_var *)
      rewrite NK_runtime_var. eapply cb_first_real; [|exact H]. eapply args_alltok; [exact Nrv|exact H_runtime_var|exact HA].
    - (* regexp *)
      rewrite NK_regexp. eapply cb_first_real; [|exact H]. eapply args_alltok; [exact Nregexp|exact H_regexp|exact HA].
    - (* func_call *)
      split; [|exact I]. eapply cb_func_call_PV; [exact HF| |exact H].
      intros f s E. eapply func_call_params; eassumption.
    - (* func_params *) rewrite NK_func_params. eapply cb_func_params_PV; eassumption.
    - (* attr_bind *) split; [eapply cb_attr_bind_PV; eassumption|exact I].
    - (* extent *) split; [eapply len_PV; eassumption|exact I].
    - (* true *)
      split; [|exact I]. eapply cb_bool_PV; [|exact H].
      pose proof (args_typed _ _ _ Ntrue H_true HA) as Ht. destruct t as [|y r]; [exact I|].
      destruct (Forall_inv Ht) as (tk & Hin & -> & Hty). exists tk. auto.
    - (* false *)
      split; [|exact I]. eapply cb_bool_PV; [|exact H].
      pose proof (args_typed _ _ _ Nfalse H_false HA) as Ht. destruct t as [|y r]; [exact I|].
      destruct (Forall_inv Ht) as (tk & Hin & -> & Hty). exists tk. auto.
    - (* int *)
      rewrite NK_int. eapply cb_int_PV; [|exact H]. apply realtok_hd. eapply args_alltok; [exact Nint|exact H_int|exact HA].
    - (* float *)
      rewrite NK_float. eapply cb_float_PV; [|exact H]. apply realtok_hd. eapply args_alltok; [exact Nfloat|exact H_float|exact HA].
    - (* string *)
      rewrite NK_string. eapply cb_first_real; [|exact H]. eapply args_alltok; [exact Nstring|exact H_string|exact HA].
    - (* path *)
      rewrite NK_path. eapply cb_first_real; [|exact H]. eapply args_alltok; [exact Npath|exact H_path|exact HA].
    - (* string_pair *)
      rewrite NK_string_pair. destruct (cb_len_PV _ _ _ HF H) as (Hp & -> & Hlen). split; [exact Hp|].
      pose proof (args_real _ _ Nsp H_string_pair HA) as Hr.
      destruct t as [|a [|b [|c r]]]; try discriminate Hlen. exists a, b. split; [reflexivity|].
      split; [exact (Forall_inv Hr)|exact (Forall_inv (Forall_inv_tail Hr))].
    - (* rgb *) split; [eapply len_PV; eassumption|exact I].
    - (* attr_bind_pair *) split; [eapply len_PV; eassumption|exact I].
    - (* attr_mixed_pair *) split; [eapply len_PV; eassumption|exact I].
    - (* colorrange *) split; [eapply len_PV; eassumption|exact I].
    - (* hexcolorrange *) split; [eapply len_PV; eassumption|exact I].
    - (* hexcolor *)
      split; [|exact I]. eapply cb_hexcolor_PV; [|exact H]. apply realtok_hd.
      eapply args_alltok; [exact Nhex|exact H_hexcolor|exact HA].
    - (* num_pair *)
      rewrite NK_num_pair. destruct (cb_len_PV _ _ _ HF H) as (Hp & -> & Hlen). split; [exact Hp|].
      pose proof (args_nums _ HA) as Hr.
      destruct t as [|a [|b [|c r]]]; try discriminate Hlen. exists a, b. split; [reflexivity|].
      split; [exact (Forall_inv Hr)|exact (Forall_inv (Forall_inv_tail Hr))].
    - (* list *) split; [eapply cb_list_PV; eassumption|exact I].
  Qed.

  (* ================================================================ trees *)
  Definition gkind (d' : N) (c : gtree) : Prop :=
    match c with GNode d'' _ _ => d'' = d' | GVal x => NK d' x | GTok _ => False end.

  Definition child_ok (d : N) (c : gtree) : Prop :=
    match c with
    | GTok t => rawarg d t
    | _ => exists d', In (SNode d') (get C d) /\ gkind d' c
    end.

  Definition gkeyB (c : gtree) : Prop := match c with GTok t => KB t | _ => True end.

  Definition hdform (d : N) (c : gtree) : Prop :=
    match c with
    | GTok t => (d = CB_attr -> KA t) /\ (d = CB_config -> KC t)
    | GNode d1 _ _ => d1 = CB_composite_type
    | GVal x => match x with TTok _ => False | _ => True end
    end.

  Definition LGg (d : N) (cs : list gtree) : Prop :=
    (d = CB_composite_type -> Forall gkeyB cs) /\
    ((d = CB_attr \/ d = CB_config) -> length cs = 1%nat \/ match cs with c :: _ => hdform d c | [] => True end) /\
    (d = CB_composite -> length cs = 1%nat -> exists c d', cs = [c] /\ is_kv d' = true /\ gkind d' c).

  Fixpoint PG (g : gtree) : Prop :=
    match g with
    | GTok t => RAWS t
    | GVal x => PV x
    | GNode d cs m =>
        (fix go (l : list gtree) : Prop := match l with [] => True | c :: l' => PG c /\ go l' end) cs
        /\ Forall (child_ok d) cs /\ LGg d cs
    end.

  Lemma PG_node d cs m : PG (GNode d cs m) <-> Forall PG cs /\ Forall (child_ok d) cs /\ LGg d cs.
  Proof.
    cbn [PG].
    assert (H : (fix go (l : list gtree) : Prop := match l with [] => True | c :: l' => PG c /\ go l' end) cs
                <-> Forall PG cs).
    { induction cs as [|c l IH]; [split; [constructor|exact (fun _ => I)]|].
      rewrite IH. split; [intros [H1 H2]; constructor; assumption|intros H; inversion H; subst; tauto]. }
    rewrite H. tauto.
  Qed.

  (* what a child yields *)
  Definition res_of (c : gtree) (x : tv) : Prop :=
    match c with GTok t => x = TTok t | GVal v => x = v | GNode d' _ _ => NK d' x end.

  Lemma NK_kv d x : is_kv d = true -> NK d x = isblk x.
  Proof.
    unfold is_kv. intros H. apply orb_true_iff in H. destruct H as [H|H]; [|apply N.eqb_eq in H; subst d; reflexivity].
    apply orb_true_iff in H. destruct H as [H|H]; [|apply N.eqb_eq in H; subst d; reflexivity].
    apply orb_true_iff in H. destruct H as [H|H]; apply N.eqb_eq in H; subst d; reflexivity.
  Qed.

  Lemma args_from_children d cs xs :
    Forall (child_ok d) cs -> Forall2 (fun c x => PV x /\ res_of c x) cs xs ->
    Forall PV xs /\ Forall (AKd d) xs.
  Proof.
    intros HC H2. induction H2 as [|c x cs xs [Hp Hr] _ IH]; [split; constructor|].
    destruct (IH (Forall_inv_tail HC)) as [I1 I2]. split; [constructor; assumption|constructor; [|exact I2]].
    pose proof (Forall_inv HC) as Hc. destruct c as [t|d' cs' m'|v]; cbn [child_ok res_of] in *.
    - subst x. left. exists t. auto.
    - destruct Hc as (d'' & Hin & <-). right. exists d'. auto.
    - subst x. destruct Hc as (d'' & Hin & Hk). right. exists d''. auto.
  Qed.

  Lemma LG_from_LGg d cs xs :
    LGg d cs -> Forall (child_ok d) cs -> Forall2 (fun c x => PV x /\ res_of c x) cs xs -> LG d xs.
  Proof.
    intros (G1 & G2 & G3) HC H2. pose proof (Forall2_length' _ _ _ H2) as Hlen. split; [|split; [|split]].
    - intros ->. specialize (G1 eq_refl). clear G2 G3 Hlen.
      induction H2 as [|c x cs xs [Hp Hr] _ IH]; [constructor|].
      constructor; [|apply IH; [exact (Forall_inv_tail HC)|exact (Forall_inv_tail G1)]].
      pose proof (Forall_inv G1) as Hc. pose proof (Forall_inv HC) as Hk.
      destruct c as [t|d' cs' m'|v]; cbn [gkeyB res_of child_ok] in *.
      + subst x. exact Hc.
      + destruct Hk as (d'' & Hin & _). destruct (shapes_in_In _ _ _ _ H_composite_type Hin) as [[_ (ty & E)]|[]]. discriminate E.
      + destruct Hk as (d'' & Hin & _). destruct (shapes_in_In _ _ _ _ H_composite_type Hin) as [[_ (ty & E)]|[]]. discriminate E.
    - intros ->. destruct (G2 (or_introl eq_refl)) as [Hl|Hh]; [left; rewrite <- Hlen; exact Hl|right].
      destruct H2 as [|c x cs xs [Hp Hr] _]; [exact I|]. cbn [hdP].
      destruct c as [t|d' cs' m'|v]; cbn [hdform res_of] in *.
      + subst x. apply Hh. reflexivity.
      + subst d'. rewrite NK_composite_type in Hr. destruct Hr as (l & -> & _). exact I.
      + subst x. destruct v; try exact I. contradiction.
    - intros ->. destruct (G2 (or_intror eq_refl)) as [Hl|Hh]; [left; rewrite <- Hlen; exact Hl|right].
      destruct H2 as [|c x cs xs [Hp Hr] _]; [exact I|]. cbn [hdP].
      destruct c as [t|d' cs' m'|v]; cbn [hdform res_of] in *.
      + subst x. apply Hh. reflexivity.
      + subst d'. rewrite NK_composite_type in Hr. destruct Hr as (l & -> & _). exact I.
      + subst x. destruct v; try exact I. contradiction.
    - intros -> Hl. rewrite <- Hlen in Hl. destruct (G3 eq_refl Hl) as (c & d' & -> & Hkv & Hk).
      inversion H2 as [|? x ? xs' [Hp Hr] H2']; subst. inversion H2'; subst.
      exists x. split; [reflexivity|].
      destruct c as [t|d'' cs' m'|v]; cbn [gkind res_of] in *.
      + contradiction.
      + subst d''. rewrite (NK_kv d' x Hkv) in Hr. exact Hr.
      + subst x. rewrite (NK_kv d' v Hkv) in Hk. exact Hk.
  Qed.

  Theorem tr_main_PV ip ic : forall g x, PG g -> tr_main ip ic g = Ok x -> PV x /\ res_of g x.
  Proof.
    fix IH 1. intros g x HG H. destruct g as [t|d cs m|v].
    - cbn in H. injection H as <-. split; [apply RAWS_TOK; exact HG|reflexivity].
    - rewrite tr_main_node in H. apply PG_node in HG. destruct HG as (HC & HK & HL).
      destruct (tr_list ip ic cs) as [xs|e] eqn:L; cbn [bind] in H; [|discriminate].
      assert (H2 : Forall2 (fun c x => PV x /\ res_of c x) cs xs).
      { clear H HK HL. revert xs L.
        induction cs as [|c cs IHcs]; intros xs L.
        - cbn in L. injection L as <-. constructor.
        - cbn [tr_list] in L.
          destruct (tr_main ip ic c) as [x1|e] eqn:T1; cbn [bind] in L; [|discriminate].
          fold (tr_list ip ic cs) in L.
          destruct (tr_list ip ic cs) as [xs1|e] eqn:L1; cbn [bind] in L; [|discriminate].
          injection L as <-. constructor.
          + exact (IH c x1 (Forall_inv HC) T1).
          + apply IHcs; [exact (Forall_inv_tail HC)|reflexivity]. }
      destruct (args_from_children d cs xs HK H2) as [A1 A2].
      cbn [res_of]. eapply callback_PV; [exact A1|exact A2| |exact H].
      eapply LG_from_LGg; eassumption.
    - cbn in H. injection H as <-. split; [exact HG|reflexivity].
  Qed.

  (* ---------------------------------------------------------------- the comments pass *)
  Lemma PV_set_comments c items v : PV (TDict c items) -> PV (TDict c (od_set s_comments (TVal v) items)).
  Proof.
    intros H. apply PV_dict in H. destruct H as (Hk & Hd).
    destruct bk_consts_lower as (_ & Elc & _). destruct family_consts as (_ & _ & _ & _ & _ & _ & Efc & _).
    apply PV_dict. split; [apply kidsV_set; [left; reflexivity|exact Hk]|].
    destruct Hd as [(-> & (Hnd & Hty & kn & V & Hl & Hak & Ha & Hkeys))|(-> & Hf & Hb)].
    - left. split; [reflexivity|]. split; [apply NoDup_set; exact Hnd|].
      split; [rewrite get_set_other by discriminate; exact Hty|].
      assert (Hne : kn <> s_comments).
      { intros ->. destruct (akind_family _ _ Hak) as (_ & F2 & _). apply F2. exact Efc. }
      exists kn, V. split; [exact Hl|]. split; [exact Hak|]. split; [rewrite get_set_other by exact Hne; exact Ha|].
      intros k Hin. rewrite keys_set in Hin. destruct (od_mem s_comments items); [apply Hkeys; exact Hin|].
      apply in_app_or in Hin. destruct Hin as [Hin|[<-|[]]]; [apply Hkeys; exact Hin|right; reflexivity].
    - right. split; [reflexivity|]. split; [apply finF_set; [left; reflexivity|exact Hf]|].
      rewrite tvi_od_set. cbn [tvv].
      destruct Hb as [(((ty & rest & E) & Hnd & HF) & Hc)|((ty & Hty & Hin) & Hnd & HF)].
      + left. split.
        * split; [|split].
          -- rewrite E. destruct (hd_od_set s_comments v s_type (VStr ty) rest) as (v1 & rest1 & E1 & E2).
             rewrite E1. rewrite E2 by discriminate. eexists _, _. reflexivity.
          -- apply NoDup_set. exact Hnd.
          -- apply Forall_od_set; [|exact HF]. cbn [fst snd]. split; [exact Elc|].
             unfold entry_ok. rewrite Efc. exact I.
        * intros y Hy. rewrite get_set_other in Hy by discriminate. apply Hc. exact Hy.
      + right. split; [|split].
        * exists ty. split; [|exact Hin]. rewrite get_set_other by discriminate. exact Hty.
        * apply NoDup_set. exact Hnd.
        * apply Forall_od_set; [|exact HF]. cbn [fst snd]. split; [exact Elc|]. right; left. reflexivity.
  Qed.

  (* one step of the comments pass on a child: tokens and values are kept, a
     node keeps its name or (attr / projection / composite) becomes its value *)
  Definition stepR (c c2 : gtree) : Prop :=
    match c with
    | GTok t => c2 = GTok t
    | GVal x => c2 = GVal x
    | GNode d1 _ _ =>
        (exists cs2 m2, c2 = GNode d1 cs2 m2) \/
        (exists x, c2 = GVal x /\ NK d1 x /\ (d1 = CB_attr \/ d1 = CB_projection \/ d1 = CB_composite))
    end.

  Lemma comments_callback_PG ip g h : PG g -> comments_callback ip g = Ok h -> PG h /\ stepR g h.
  Proof.
    intros HG H. rewrite comments_callback_stages in H.
    destruct g as [t|d cs m|v]; try (injection H as <-; split; [exact HG|reflexivity]).
    destruct (N.eqb_spec d CB_attr) as [->|Hna].
    { destruct (tr_main ip true _) as [r|e] eqn:T1; cbn [bind] in H; [|discriminate].
      destruct (tr_main_PV ip true _ _ HG T1) as [Hr Hk]. cbn [res_of] in Hk.
      destruct r as [| | |c items]; try discriminate. injection H as <-. split.
      - cbn [PG]. apply PV_set_comments. exact Hr.
      - right. eexists. split; [reflexivity|]. split; [|left; reflexivity].
        rewrite NK_attr. eexists _, _. reflexivity. }
    destruct (N.eqb_spec d CB_projection) as [->|Hnp].
    { destruct (tr_main ip true _) as [r|e] eqn:T1; cbn [bind] in H; [|discriminate].
      destruct (tr_main_PV ip true _ _ HG T1) as [Hr Hk]. cbn [res_of] in Hk.
      destruct r as [| | |c items]; try discriminate. cbn [cc_projection] in H.
      destruct (has_comments m); injection H as <-; (split; [cbn [PG]; try apply PV_set_comments; exact Hr|]);
        right; eexists; (split; [reflexivity|]); (split; [|right; left; reflexivity]); [|exact Hk].
      rewrite NK_projection. eexists _, _. reflexivity. }
    destruct (N.eqb_spec d CB_composite) as [->|Hnc].
    { destruct (tr_main ip true _) as [r|e] eqn:T1; cbn [bind] in H; [|discriminate].
      destruct (tr_main_PV ip true _ _ HG T1) as [Hr Hk]. cbn [res_of] in Hk. rewrite NK_composite in Hk.
      destruct Hk as (items & ->). cbn [cc_composite] in H.
      destruct (cc_dictlike _).
      - unfold cc_dict in H. cbv zeta in H.
        destruct (cc_cm2 _ _ _) as [cm2|e]; cbn [bind] in H; [|discriminate].
        injection H as <-. unfold ci_set. rewrite lower_comments. split; [cbn [PG]; apply PV_set_comments; exact Hr|].
        right. eexists. split; [reflexivity|]. split; [|right; right; reflexivity].
        rewrite NK_composite. eexists. reflexivity.
      - apply cc_nondict_inv in H. subst h. split; [exact Hr|].
        right. eexists. split; [reflexivity|]. split; [|right; right; reflexivity].
        rewrite NK_composite. eexists. reflexivity. }
    injection H as <-. split; [exact HG|]. left. eexists _, _. reflexivity.
  Qed.

  Lemma stepR_gkind d' c c2 : stepR c c2 -> gkind d' c -> gkind d' c2.
  Proof.
    destruct c as [t|d1 cs1 m1|v]; cbn [stepR gkind].
    - intros _ [].
    - intros [(cs2 & m2 & ->)|(x & -> & Hn & _)] <-; [reflexivity|exact Hn].
    - intros -> H. exact H.
  Qed.

  Lemma stepR_child_ok d c c2 : stepR c c2 -> child_ok d c -> child_ok d c2.
  Proof.
    intros Hs Hc. destruct c as [t|d1 cs1 m1|v]; cbn [stepR] in Hs.
    - subst c2. exact Hc.
    - cbn [child_ok] in Hc. destruct Hc as (d' & Hin & Hk).
      assert (Hk2 : gkind d' c2) by (exact (stepR_gkind d' (GNode d1 cs1 m1) c2 Hs Hk)).
      destruct Hs as [(cs2 & m2 & ->)|(x & -> & _)]; exists d'; auto.
    - subst c2. exact Hc.
  Qed.

  Lemma stepR_gkeyB c c2 : stepR c c2 -> gkeyB c -> gkeyB c2.
  Proof.
    destruct c as [t|d1 cs1 m1|v]; cbn [stepR].
    - intros -> H. exact H.
    - intros [(cs2 & m2 & ->)|(x & -> & _)] _; exact I.
    - intros -> H. exact H.
  Qed.

  Lemma stepR_hdform d c c2 : stepR c c2 -> hdform d c -> hdform d c2.
  Proof.
    destruct c as [t|d1 cs1 m1|v]; cbn [stepR hdform].
    - intros -> H. exact H.
    - intros [(cs2 & m2 & ->)|(x & -> & _ & Hd)] ->; [reflexivity|].
      destruct Hd as [Hd|[Hd|Hd]]; discriminate Hd.
    - intros -> H. exact H.
  Qed.

  Lemma LGg_step d cs cs' : Forall2 stepR cs cs' -> LGg d cs -> LGg d cs'.
  Proof.
    intros H2 (G1 & G2 & G3). pose proof (Forall2_length' _ _ _ H2) as Hlen. split; [|split].
    - intros Hd. specialize (G1 Hd). clear -H2 G1. induction H2 as [|c c2 cs cs' Hs _ IH]; [constructor|].
      constructor; [eapply stepR_gkeyB; [exact Hs|exact (Forall_inv G1)]|apply IH; exact (Forall_inv_tail G1)].
    - intros Hd. destruct (G2 Hd) as [Hl|Hh]; [left; rewrite <- Hlen; exact Hl|right].
      destruct H2 as [|c c2 cs cs' Hs _]; [exact I|]. eapply stepR_hdform; eassumption.
    - intros Hd Hl. rewrite <- Hlen in Hl. destruct (G3 Hd Hl) as (c & d' & -> & Hkv & Hk).
      inversion H2 as [|? c2 ? cs2 Hs H2']; subst. inversion H2'; subst.
      exists c2, d'. split; [reflexivity|]. split; [exact Hkv|eapply stepR_gkind; eassumption].
  Qed.

  (* ctr keeps the root: same name, children stepped *)
  Theorem ctr_PG ip : forall g h, PG g -> ctr ip g = Ok h ->
    PG h /\ match g with GNode d _ _ => exists cs' m', h = GNode d cs' m' | _ => h = g end.
  Proof.
    fix IH 1. intros g h HG H.
    destruct g as [t|d cs m|v]; try (cbn in H; injection H as <-; split; [exact HG|reflexivity]).
    rewrite ctr_node in H. apply PG_node in HG. destruct HG as (HC & HK & HL).
    destruct (ctr_list ip cs) as [xs|e] eqn:L; cbn [bind] in H; [|discriminate].
    injection H as <-. split; [|eexists _, _; reflexivity].
    assert (H2 : Forall PG xs /\ Forall2 stepR cs xs).
    { clear HK HL. revert xs L. induction cs as [|c cs IHcs]; intros xs L.
      - cbn in L. injection L as <-. split; constructor.
      - cbn [ctr_list] in L.
        destruct (ctr ip c) as [c1|e] eqn:T1; cbn [bind] in L; [|discriminate].
        destruct (comments_callback ip c1) as [c2|e] eqn:K1; cbn [bind] in L; [|discriminate].
        fold (ctr_list ip cs) in L.
        destruct (ctr_list ip cs) as [xs1|e] eqn:L1; cbn [bind] in L; [|discriminate].
        injection L as <-.
        destruct (IH c c1 (Forall_inv HC) T1) as [P1 R1].
        destruct (comments_callback_PG ip c1 c2 P1 K1) as [P2 R2].
        destruct (IHcs (Forall_inv_tail HC) xs1 eq_refl) as [I1 I2].
        split; [constructor; assumption|constructor; [|exact I2]].
        destruct c as [t|d1 cs1 m1|v].
        + subst c1. exact R2.
        + destruct R1 as (cs1' & m1' & ->). exact R2.
        + subst c1. exact R2. }
    destruct H2 as [P2 R2]. apply PG_node. split; [exact P2|]. split; [|eapply LGg_step; eassumption].
    clear -HK R2. induction R2 as [|c c2 cs cs' Hs _ IH]; [constructor|].
    constructor; [eapply stepR_child_ok; [exact Hs|exact (Forall_inv HK)]|apply IH; exact (Forall_inv_tail HK)].
  Qed.

  Theorem transform_PV ip ic t x :
    PG (canonize (gtree_of t)) ->
    (exists d cs m, canonize (gtree_of t) = GNode d cs m /\ (d = CB_start \/ d = CB_composite)) ->
    transform ip ic t = Ok x -> PV x /\ (NK CB_start x \/ NK CB_composite x).
  Proof.
    intros HG (d & cs & m & Eg & Hd) H. unfold transform in H. rewrite Eg in *.
    assert (Hfin : forall g2 y, PG g2 -> stepR (GNode d cs m) g2 \/ (exists cs2 m2, g2 = GNode d cs2 m2) ->
                                tr_main ip ic g2 = Ok y -> PV y /\ (NK CB_start y \/ NK CB_composite y)).
    { intros g2 y P2 R2 T. destruct (tr_main_PV ip ic g2 y P2 T) as [Py Ry]. split; [exact Py|].
      assert (Hn : NK d y).
      { destruct R2 as [[(cs2 & m2 & ->)|(x0 & -> & Hn & _)]|(cs2 & m2 & ->)]; cbn [res_of] in Ry; [exact Ry|subst y; exact Hn|exact Ry]. }
      destruct Hd as [-> | ->]; [left|right]; exact Hn. }
    destruct ic.
    - destruct (ctr ip _) as [g1|e] eqn:C1; cbn [bind] in H; [|discriminate].
      destruct (comments_callback ip g1) as [g2|e] eqn:K1; cbn [bind] in H; [|discriminate].
      destruct (ctr_PG ip _ _ HG C1) as [P1 (cs1 & m1 & ->)].
      destruct (comments_callback_PG ip _ _ P1 K1) as [P2 R2].
      eapply Hfin; [exact P2| |exact H]. left. cbn [stepR] in R2 |- *. exact R2.
    - eapply Hfin; [exact HG| |exact H]. right. eexists _, _. reflexivity.
  Qed.

  (* ================================================================ final data *)
  Notation CSp := (CS LF PL NV CV KV).

  Lemma nodict_CS : forall v, nodict v = true -> CSp v.
  Proof.
    induction v as [| | | | |l IH|c items IH] using value_ind'; try (intros; exact I); [|discriminate].
    cbn [nodict]. intros H. apply CS_list. rewrite forallb_forall in H. rewrite Forall_forall in *.
    intros y Hy. apply IH; [exact Hy|apply H; exact Hy].
  Qed.

  Lemma fin1_fin y : fin1 y -> fin y.
  Proof. destruct y; cbn; intros H; try exact H; contradiction. Qed.

  Theorem PV_CS : forall x, PV x -> fin x -> CSp (tvv x).
  Proof.
    induction x as [v|t|l IH|c items IH] using tv_ind'.
    - intros H _. cbn [tvv]. apply nodict_CS. exact H.
    - intros _ [].
    - intros H Hf. apply PV_seq in H. cbn [fin] in Hf. cbn [tvv]. apply CS_list.
      rewrite Forall_forall in *. intros y Hy. apply in_map_iff in Hy. destruct Hy as (w & <- & Hw).
      apply IH; [exact Hw|apply H; exact Hw|apply fin1_fin; apply Hf; exact Hw].
    - intros H Hf. cbn [fin] in Hf. subst c. apply PV_dict in H. destruct H as (Hk & Hd). cbn [tvv].
      destruct Hd as [(E & _)|(_ & Hfin & Hb)]; [discriminate E|].
      apply CS_dict. split.
      + unfold kidsV, finF in *. rewrite Forall_forall in *. intros kv Hkv.
        apply in_map_iff in Hkv. destruct Hkv as (w & <- & Hw). cbn [fst snd].
        destruct (Hk w Hw) as [Hs|Hp]; [left; exact Hs|].
        destruct (Hfin w Hw) as [Hs|Hf']; [left; exact Hs|right]. apply IH; assumption.
      + split; [reflexivity|]. destruct Hb as [(Hb & _)|Hb]; [left; exact Hb|right; exact Hb].
  Qed.

  Theorem top_contract x : PV x -> NK CB_start x \/ NK CB_composite x -> contract_from toks synth (tvv x).
  Proof.
    intros Hp Hn.
    assert (Ht : isblk x \/ exists l, x = TSeq l /\ Forall isblk l).
    { destruct Hn as [Hn|Hn]; [rewrite NK_start in Hn; exact Hn|rewrite NK_composite in Hn; left; exact Hn]. }
    split.
    - apply PV_CS; [exact Hp|]. destruct Ht as [(items & ->)|(l & -> & Hl)]; [reflexivity|].
      cbn [fin]. eapply Forall_impl; [|exact Hl]. intros y (items & ->). reflexivity.
    - destruct Ht as [(items & ->)|(l & -> & Hl)]; [left; eexists; reflexivity|right].
      cbn [tvv]. eexists. split; [reflexivity|]. apply Forall_forall. intros v Hv. apply in_map_iff in Hv.
      destruct Hv as (y & <- & Hy). rewrite Forall_forall in Hl. destruct (Hl y Hy) as (items & ->). eexists. reflexivity.
  Qed.

  (* ================================================================ parse trees *)
  Definition tkeyB (c : tree) : Prop :=
    match c with Tok tk => mem_str (lower (tval tk)) CTYPES = true | _ => True end.

  Definition thdform (d : N) (c : tree) : Prop :=
    match c with
    | Tok tk => (d = CB_attr -> family (lower (tval tk)) = FAttr \/ family (lower (tval tk)) = FRep) /\
                (d = CB_config -> lower (tval tk) = s_config)
    | Node d1 _ _ => d1 = CB_composite_type
    end.

  Definition LGt (d : N) (cs : list tree) : Prop :=
    (d = CB_composite_type -> Forall tkeyB cs) /\
    ((d = CB_attr \/ d = CB_config) -> length cs = 1%nat \/ match cs with c :: _ => thdform d c | [] => True end) /\
    (d = CB_composite -> length cs = 1%nat -> exists d' cs' m', cs = [Node d' cs' m'] /\ is_kv d' = true).

  Fixpoint TG (t : tree) : Prop :=
    match t with
    | Tok tk => In tk toks
    | Node d cs m =>
        (fix go (l : list tree) : Prop := match l with [] => True | c :: l' => TG c /\ go l' end) cs
        /\ Forall (fun c => In (shape_of c) (get C d)) cs /\ LGt d cs
    end.

  Lemma TG_node d cs m :
    TG (Node d cs m) <-> Forall TG cs /\ Forall (fun c => In (shape_of c) (get C d)) cs /\ LGt d cs.
  Proof.
    cbn [TG].
    assert (H : (fix go (l : list tree) : Prop := match l with [] => True | c :: l' => TG c /\ go l' end) cs
                <-> Forall TG cs).
    { induction cs as [|c l IH]; [split; [constructor|exact (fun _ => I)]|].
      rewrite IH. split; [intros [H1 H2]; constructor; assumption|intros H; inversion H; subst; tauto]. }
    rewrite H. tauto.
  Qed.

  Lemma key_name_raw tk : key_name (ptok_of tk) = Ok (lower (tval tk)).
  Proof. reflexivity. Qed.

  Lemma PG_gtree_of : forall t, TG t -> PG (gtree_of t).
  Proof.
    fix IH 1. intros t Ht. destruct t as [tk|d cs m].
    - cbn [gtree_of PG]. left. exists tk. split; [exact Ht|reflexivity].
    - apply TG_node in Ht. destruct Ht as (HC & HS & (G1 & G2 & G3)). cbn [gtree_of]. apply PG_node. split; [|split].
      + clear HS G1 G2 G3. induction cs as [|c cs IHcs]; [constructor|]. cbn [map].
        constructor; [apply IH; exact (Forall_inv HC)|apply IHcs; exact (Forall_inv_tail HC)].
      + clear G1 G2 G3. induction cs as [|c cs IHcs]; [constructor|]. cbn [map].
        constructor; [|apply IHcs; [exact (Forall_inv_tail HC)|exact (Forall_inv_tail HS)]].
        pose proof (Forall_inv HC) as Hc. pose proof (Forall_inv HS) as Hs.
        destruct c as [tk|d' cs' m']; cbn [gtree_of child_ok shape_of] in *.
        * left. exists tk. auto.
        * exists d'. split; [exact Hs|reflexivity].
      + split; [|split].
        * intros Hd. specialize (G1 Hd). clear -G1. induction cs as [|c cs IHcs]; [constructor|]. cbn [map].
          constructor; [|apply IHcs; exact (Forall_inv_tail G1)].
          pose proof (Forall_inv G1) as Hc. destruct c as [tk|? ? ?]; [|exact I].
          cbn [gtree_of gkeyB tkeyB] in *. intros kn Hkn. rewrite key_name_raw in Hkn. injection Hkn as <-. exact Hc.
        * intros Hd. destruct (G2 Hd) as [Hl|Hh]; [left; rewrite map_length; exact Hl|right].
          destruct cs as [|c cs]; [exact I|]. cbn [map].
          destruct c as [tk|d1 cs1 m1]; cbn [gtree_of hdform thdform] in *; [|exact Hh].
          destruct Hh as [Ha Hc]. split.
          -- intros E kn Hkn. rewrite key_name_raw in Hkn. injection Hkn as <-. apply Ha. exact E.
          -- intros E kn Hkn. rewrite key_name_raw in Hkn. injection Hkn as <-. apply Hc. exact E.
        * intros Hd Hl. rewrite map_length in Hl. destruct (G3 Hd Hl) as (d' & cs' & m' & -> & Hkv).
          cbn [map gtree_of]. eexists _, d'. split; [reflexivity|]. split; [exact Hkv|reflexivity].
  Qed.

  Hypothesis H_symbolset : shapes_in [SNode CB_composite_body] false (get C CB_symbolset) = true.
  Hypothesis H_comp_has_ctype : In (SNode CB_composite_type) (get C CB_composite).
  Hypothesis H_comp_has_body : In (SNode CB_composite_body) (get C CB_composite).

  Lemma KB_synth : KB synth_tok.
  Proof. intros kn H. cbn in H. injection H as <-. vm_compute. reflexivity. Qed.

  Lemma PG_canonize d cs m :
    PG (GNode d cs m) -> ((d =? CB_symbolset) = true -> synth = true /\ cs <> []) -> PG (canonize (GNode d cs m)).
  Proof.
    intros HG Hs. cbn [canonize]. destruct (d =? CB_symbolset) eqn:Ed; [|exact HG].
    apply N.eqb_eq in Ed. subst d. destruct (Hs eq_refl) as [Hsy Hne].
    apply PG_node in HG. destruct HG as (HC & HK & _). apply PG_node. split; [|split].
    - constructor; [|exact HC]. apply PG_node. split; [|split].
      + constructor; [right; split; [exact Hsy|reflexivity]|constructor].
      + constructor; [|constructor]. right. split; [exact Hsy|split; reflexivity].
      + split; [|split].
        * intros _. constructor; [exact KB_synth|constructor].
        * intros [E|E]; discriminate E.
        * intros E. discriminate E.
    - constructor.
      + exists CB_composite_type. split; [exact H_comp_has_ctype|reflexivity].
      + eapply Forall_impl; [|exact HK]. intros c Hc.
        assert (Hsh : forall d', In (SNode d') (get C CB_symbolset) -> d' = CB_composite_body).
        { intros d' Hin. destruct (shapes_in_In _ _ _ _ H_symbolset Hin) as [[Hf _]|[E|[]]]; [discriminate Hf|].
          injection E as <-. reflexivity. }
        destruct c as [t|d' cs' m'|v]; cbn [child_ok] in *.
        * destruct Hc as [(tk & _ & _ & Hin)|(_ & _ & E)]; [|discriminate E].
          destruct (shapes_in_In _ _ _ _ H_symbolset Hin) as [[Hf _]|[E|[]]]; [discriminate Hf|discriminate E].
        * destruct Hc as (d'' & Hin & Hk). rewrite (Hsh d'' Hin) in Hk. exists CB_composite_body. auto.
        * destruct Hc as (d'' & Hin & Hk). rewrite (Hsh d'' Hin) in Hk. exists CB_composite_body. auto.
    - split; [|split].
      + intros E. discriminate E.
      + intros [E|E]; discriminate E.
      + intros _ Hl. cbn [length] in Hl. destruct cs; [contradiction Hne; reflexivity|discriminate Hl].
  Qed.

  (* the statement for transform: any tree satisfying the tree guard whose root is
     a start node, or (synth set) a SYMBOLSET node with at least one child *)
  Theorem transform_contract ip ic t x :
    TG t ->
    (exists d cs m, t = Node d cs m /\ (d = CB_start \/ (d = CB_symbolset /\ synth = true /\ cs <> []))) ->
    transform ip ic t = Ok x -> contract_from toks synth (tvv x).
  Proof.
    intros Ht (d & cs & m & -> & Hd) H.
    pose proof (PG_gtree_of _ Ht) as HG. cbn [gtree_of] in HG.
    assert (HGc : PG (canonize (gtree_of (Node d cs m)))).
    { cbn [gtree_of]. apply PG_canonize; [exact HG|]. intros Ed. apply N.eqb_eq in Ed.
      destruct Hd as [-> |(_ & Hs & Hne)]; [discriminate Ed|]. split; [exact Hs|].
      intros E. apply Hne. destruct cs; [reflexivity|discriminate E]. }
    destruct (transform_PV ip ic _ x HGc) as [Hp Hn]; [|exact H|apply top_contract; assumption].
    cbn [gtree_of canonize]. destruct Hd as [-> |(-> & _)].
    - eexists _, _, _. split; [reflexivity|left; reflexivity].
    - eexists _, _, _. split; [reflexivity|right; reflexivity].
  Qed.
End Rel.
