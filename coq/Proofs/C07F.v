(* C07: reflection over the generated schema files and concrete witnesses. *)
From MF Require Import Lib.Base Lib.Json Lib.PyDict Gen.Schemas Model.SchemaStore Model.Schema
  Model.Validator Spec.Versioned Spec.Draft4 Proofs.C09 Proofs.C07 Proofs.C07Paths.
Open Scope Z_scope.

(* ------------------------------------------------------------------ [F] the shipped schemas are well-formed for the model *)
(* every schema file, fully expanded, uses only keyword shapes the model gives
   a meaning to (all patterns known, no unresolved $ref, no unsupported keyword) *)
Lemma shipped_wf :
  forallb (fun kv => wf_schema (expand schema_files (snd kv))) schema_files = true.
Proof. vm_compute. reflexivity. Qed.

Lemma map_tree_wf : wf_schema (expand schema_files schema_map) = true.
Proof. vm_compute. reflexivity. Qed.

(* ------------------------------------------------------------------ [F] hidden keys are admitted wherever unknown keys are rejected *)
Definition admits_hidden (n : json) : bool :=
  match n with
  | JObj kws =>
      match assoc K_additionalProperties kws with
      | Some (JBool false) =>
          match assoc Schema.K_type kws with
          | Some (JStr t) => negb (str_eqb t (Str "object"))
          | _ => false
          end
          || match assoc K_patternProperties kws with
             | Some (JObj pps) =>
                 existsb (fun kv => str_eqb (fst kv) hidden_pat && json_eqb (snd kv) (JObj [])) pps
             | _ => false
             end
      | _ => true
      end
  | _ => true
  end.

Lemma hidden_everywhere : forallb (fun kv => jall admits_hidden (snd kv)) schema_files = true.
Proof. vm_compute. reflexivity. Qed.

Lemma hidden_names :
  forallb (fun k => rx_search hidden_pat k) [Str "__type__"; Str "__position__"; Str "__comments__"] = true /\
  existsb (fun k => rx_search hidden_pat k) [Str "type"; Str "__Type__"; Str "__x"; Str "____"; Str "__a_b__"] = false.
Proof. split; vm_compute; reflexivity. Qed.

(* ------------------------------------------------------------------ the former counterexample *)
(* mappyfile.loads("MAP SIZE 10.5 20 END"): before commit 4abf0be validate raised
   TypeError on it; now the error inside the list-valued keyword is reported
   under the keyword that holds the list *)
Definition size_doc : value :=
  VDict (DCI true) [(Str "__type__", VStr (Str "map")); (Str "size", VList [VFloat 105 (-1); VInt 20])].

Lemma size_doc_message :
  match fst (validate schema_files size_doc (Str "map") None init_state) with
  | Ok msgs => map (fun m => (msg_field m (Str "path"), msg_field m (Str "message"))) msgs
  | Err _ => []
  end
  = [(Some (VList [VStr (Str "size"); VInt 0]), Some (VStr (Str "ERROR: Invalid value in SIZE")))].
Proof. vm_compute. reflexivity. Qed.

Lemma size_doc_target :
  target size_doc (mk_verr [PKey (Str "size"); PIdx 0%N] (Str "type")) = Ok (size_doc, Some (Str "size")).
Proof. vm_compute. reflexivity. Qed.

(* faults at depth:
   MAP LAYER TYPE bad CLASS STYLE WIDTH "x" END END END END - both messages *)
Definition deep_style : value :=
  VDict (DCI true) [(Str "__type__", VStr (Str "style")); (Str "width", VBool true); (Str "nosuch", VInt 1)].
Definition deep_class : value :=
  VDict (DCI true) [(Str "__type__", VStr (Str "class")); (Str "styles", VList [deep_style])].
Definition deep_layer : value :=
  VDict (DCI true) [(Str "__type__", VStr (Str "layer")); (Str "type", VStr (Str "BAD"));
                    (Str "classes", VList [deep_class])].
Definition deep_fault_doc : value :=
  VDict (DCI true) [(Str "__type__", VStr (Str "map")); (Str "layers", VList [deep_layer])].

Lemma deep_fault_messages :
  match fst (validate schema_files deep_fault_doc (Str "map") None init_state) with
  | Ok msgs => map (fun m => msg_field m (Str "message")) msgs
  | Err _ => []
  end
  = [Some (VStr (Str "ERROR: Invalid value in STYLE"));
     Some (VStr (Str "ERROR: Invalid value in WIDTH"));
     Some (VStr (Str "ERROR: Invalid value in TYPE"))].
Proof. vm_compute. reflexivity. Qed.

Lemma example_docs_root_ok : root_ok size_doc = true /\ root_ok deep_fault_doc = true.
Proof. split; vm_compute; reflexivity. Qed.
