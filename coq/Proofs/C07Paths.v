(* C07: error paths.  (A) every error path produced by the model of
   iter_errors leads to a node of the instance; (B) for a dictionary of the
   shape loads / create produce, the same path can be followed in the ORIGINAL
   dictionary and leads to the corresponding value; (C) hence create_message
   finds what it looks up and validate returns. *)
From MF Require Import Lib.Base Lib.Json Lib.PyDict Gen.Tokens Model.Case Model.OrderedDict
  Model.SchemaStore Model.Schema Model.Validator Proofs.CaseFacts Proofs.C17 Proofs.C09 Proofs.C07.
Open Scope Z_scope.

(* ------------------------------------------------------------------ (A) navigation in the instance *)
Definition jstep (j : json) (p : pelem) : option json :=
  match j, p with
  | JObj l, PKey k => assoc k l
  | JArr l, PIdx i => nth_error l (N.to_nat i)
  | _, _ => None
  end.

Fixpoint jfind (j : json) (p : list pelem) : option json :=
  match p with
  | [] => Some j
  | x :: p' => match jstep j x with Some j' => jfind j' p' | None => None end
  end.

Definition valid (j : json) (e : verr) : Prop := exists n, jfind j (epath e) = Some n.

Fixpoint nodupb (l : list str) : bool :=
  match l with [] => true | x :: l' => negb (mem_str x l') && nodupb l' end.

Lemma nodupb_NoDup l : nodupb l = true -> NoDup l.
Proof.
  induction l as [|x l IH]; intros H; [constructor|]. cbn [nodupb] in H.
  rewrite andb_true_iff, negb_true_iff in H. destruct H as [H1 H2]. constructor; [|auto].
  intros Hin. apply mem_str_In in Hin. congruence.
Qed.

Definition obj_nodup (n : json) : bool := match n with JObj l => nodupb (keys l) | _ => true end.
Definition jnodup (j : json) : bool := jall obj_nodup j.

Lemma assoc_in_nodup {A} k (x : A) l : NoDup (keys l) -> In (k, x) l -> assoc k l = Some x.
Proof.
  induction l as [|[k' y] l IH]; intros Hn Hin; [destruct Hin|].
  cbn [keys map fst] in Hn. inversion Hn as [|? ? Hnot Hn']; subst. cbn [assoc].
  destruct Hin as [[= -> ->]|Hin]; [rewrite str_eqb_refl; reflexivity|].
  destruct (str_eqb_spec k k') as [->|Hne]; [|apply IH; assumption].
  exfalso. apply Hnot. change (In k' (keys l)). unfold keys. apply in_map_iff. exists (k', x). auto.
Qed.

Lemma jnodup_member k x l : jnodup (JObj l) = true -> In (k, x) l -> assoc k l = Some x /\ jnodup x = true.
Proof.
  unfold jnodup. rewrite jall_obj, andb_true_iff. intros [Hn Hall] Hin. split.
  - apply assoc_in_nodup; [apply nodupb_NoDup; exact Hn|exact Hin].
  - rewrite forallb_forall in Hall. exact (Hall _ Hin).
Qed.

Lemma jnodup_assoc k x l : jnodup (JObj l) = true -> assoc k l = Some x -> jnodup x = true.
Proof.
  unfold jnodup. rewrite jall_obj, andb_true_iff. intros [_ Hall] Ha.
  rewrite forallb_forall in Hall. exact (Hall _ (assoc_Some_in _ _ _ Ha)).
Qed.

Lemma jnodup_nth l i x : jnodup (JArr l) = true -> nth_error l i = Some x -> jnodup x = true.
Proof.
  unfold jnodup. rewrite jall_arr. cbn [obj_nodup andb]. intros Hall Hn.
  rewrite forallb_forall in Hall. exact (Hall _ (nth_error_In _ _ Hn)).
Qed.

Lemma valid_here j kw : valid j (mk_verr [] kw).
Proof. exists j. reflexivity. Qed.

Lemma valid_push j p x e : jstep j p = Some x -> valid x e -> valid j (push p e).
Proof. intros Hs (n & Hn). exists n. cbn [push epath jfind]. rewrite Hs. exact Hn. Qed.

(* membership in the per-keyword error lists *)
Section Inversion.
  Variable rec : json -> json -> list verr.

  Lemma in_props_inv props inst e :
    In e (props_errs rec props inst) ->
    exists pk sub x e', In (pk, sub) props /\ assoc pk inst = Some x /\ In e' (rec sub x) /\ e = push (PKey pk) e'.
  Proof.
    induction props as [|[pk sub] props IH]; intros H; [destruct H|].
    cbn [props_errs] in H. apply in_app_or in H. destruct H as [H|H].
    - destruct (assoc pk inst) as [x|] eqn:Ea; [|destruct H].
      apply in_map_iff in H. destruct H as (e' & <- & He'). exists pk, sub, x, e'. split; [left; reflexivity|auto].
    - destruct (IH H) as (pk' & sub' & x & e' & A & B & C & D). exists pk', sub', x, e'. split; [right; exact A|auto].
  Qed.

  Lemma in_members_inv pat sub inst e :
    In e ((fix mloop (ms : list (str * json)) : list verr :=
             match ms with
             | [] => []
             | (mk, x) :: ms' =>
                 (if rx_search pat mk then map (push (PKey mk)) (rec sub x) else []) ++ mloop ms'
             end) inst) ->
    exists mk x e', In (mk, x) inst /\ In e' (rec sub x) /\ e = push (PKey mk) e'.
  Proof.
    induction inst as [|[mk x] inst IH]; intros H; [destruct H|].
    apply in_app_or in H. destruct H as [H|H].
    - destruct (rx_search pat mk); [|destruct H].
      apply in_map_iff in H. destruct H as (e' & <- & He'). exists mk, x, e'. split; [left; reflexivity|auto].
    - destruct (IH H) as (mk' & x' & e' & A & B & C). exists mk', x', e'. split; [right; exact A|auto].
  Qed.

  Lemma in_pprops_inv pps inst e :
    In e (pprops_errs rec pps inst) ->
    exists sub mk x e', In sub (map snd pps) /\ In (mk, x) inst /\ In e' (rec sub x) /\ e = push (PKey mk) e'.
  Proof.
    induction pps as [|[pat sub] pps IH]; intros H; [destruct H|].
    cbn [pprops_errs] in H. apply in_app_or in H. destruct H as [H|H].
    - destruct (in_members_inv pat sub inst e H) as (mk & x & e' & A & B & C).
      exists sub, mk, x, e'. cbn [map snd]. split; [left; reflexivity|auto].
    - destruct (IH H) as (sub' & mk & x & e' & A & B & C & D). exists sub', mk, x, e'. cbn [map snd]. split; [right; exact A|auto].
  Qed.

  Lemma in_addl_inv v extras e :
    In e (addl_errs rec v extras) ->
    exists mk x e', In (mk, x) extras /\ In e' (rec v x) /\ e = push (PKey mk) e'.
  Proof.
    induction extras as [|[mk x] extras IH]; intros H; [destruct H|].
    cbn [addl_errs] in H. apply in_app_or in H. destruct H as [H|H].
    - apply in_map_iff in H. destruct H as (e' & <- & He'). exists mk, x, e'. split; [left; reflexivity|auto].
    - destruct (IH H) as (mk' & x' & e' & A & B & C). exists mk', x', e'. split; [right; exact A|auto].
  Qed.

  Lemma in_items_inv v xs i0 e :
    In e ((fix iloop (xs : list json) (i : N) : list verr :=
             match xs with
             | [] => []
             | x :: xs' => map (push (PIdx i)) (rec v x) ++ iloop xs' (N.succ i)
             end) xs i0) ->
    exists i x e', nth_error xs i = Some x /\ In e' (rec v x) /\ e = push (PIdx (i0 + N.of_nat i)) e'.
  Proof.
    revert i0. induction xs as [|x xs IH]; intros i0 H; [destruct H|].
    apply in_app_or in H. destruct H as [H|H].
    - apply in_map_iff in H. destruct H as (e' & <- & He'). exists O, x, e'.
      replace (i0 + N.of_nat 0)%N with i0 by lia. auto.
    - destruct (IH _ H) as (i & x' & e' & A & B & C). exists (S i), x', e'.
      replace (i0 + N.of_nat (S i))%N with (N.succ i0 + N.of_nat i)%N by lia. auto.
  Qed.

  Lemma in_tuple_inv subs xs i0 e :
    In e ((fix zloop (subs : list json) (xs : list json) (i : N) : list verr :=
             match subs, xs with
             | sub :: subs', x :: xs' => map (push (PIdx i)) (rec sub x) ++ zloop subs' xs' (N.succ i)
             | _, _ => []
             end) subs xs i0) ->
    exists sub i x e', In sub subs /\ nth_error xs i = Some x /\ In e' (rec sub x) /\ e = push (PIdx (i0 + N.of_nat i)) e'.
  Proof.
    revert xs i0. induction subs as [|sub subs IH]; intros xs i0 H; [destruct H|].
    destruct xs as [|x xs]; [destruct H|].
    apply in_app_or in H. destruct H as [H|H].
    - apply in_map_iff in H. destruct H as (e' & <- & He'). exists sub, O, x, e'.
      replace (i0 + N.of_nat 0)%N with i0 by lia. cbn [nth_error]. split; [left; reflexivity|auto].
    - destruct (IH _ _ H) as (sub' & i & x' & e' & A & B & C & D). exists sub', (S i), x', e'.
      replace (i0 + N.of_nat (S i))%N with (N.succ i0 + N.of_nat i)%N by lia. cbn [nth_error]. split; [right; exact A|auto].
  Qed.

  Lemma in_allof_inv subs j e :
    In e (allof_errs rec subs j) -> exists sub, In sub subs /\ In e (rec sub j).
  Proof.
    induction subs as [|sub subs IH]; intros H; [destruct H|].
    cbn [allof_errs] in H. apply in_app_or in H. destruct H as [H|H].
    - exists sub. split; [left; reflexivity|exact H].
    - destruct (IH H) as (sub' & A & B). exists sub'. split; [right; exact A|exact B].
  Qed.
End Inversion.

Lemma in_if_here (c : bool) kw e j : In e (if c then [] else here kw) -> valid j e.
Proof. destruct c; [intros []|]. intros [<-|[]]. apply valid_here. Qed.

Lemma in_if_here' (c : bool) kw e j : In e (if c then here kw else []) -> valid j e.
Proof. destruct c; [|intros []]. intros [<-|[]]. apply valid_here. Qed.

Lemma find_additional_sub kws inst kx : In kx (find_additional kws inst) -> In kx inst.
Proof. unfold find_additional. intros H. apply filter_In in H. tauto. Qed.

Lemma N_nat_of i0 : N.to_nat (0 + N.of_nat i0) = i0.
Proof. lia. Qed.

(* one keyword *)
Lemma kw_valid k v kws j e :
  jnodup j = true ->
  (forall sub, (jsize sub <= jsize v)%nat -> forall x, jnodup x = true -> forall e', In e' (ierr sub x) -> valid x e') ->
  In e (kw_errs ierr k v kws j) -> valid j e.
Proof.
  intros Hj IH H.
  assert (Hleaf : In e (leaf_errs k v kws j) -> valid j e).
  { intros Hl. pose proof (leaf_errs_here k v kws j) as Hh. rewrite Forall_forall in Hh.
    exists j. rewrite (Hh e Hl). reflexivity. }
  assert (IHo : forall l p sub, v = JObj l -> In (p, sub) l ->
                forall x, jnodup x = true -> forall e', In e' (ierr sub x) -> valid x e').
  { intros l p sub -> Hin. apply IH. apply Nat.lt_le_incl. eapply jsize_obj_in; exact Hin. }
  assert (IHa : forall l sub, v = JArr l -> In sub l ->
                forall x, jnodup x = true -> forall e', In e' (ierr sub x) -> valid x e').
  { intros l sub -> Hin. apply IH. apply Nat.lt_le_incl. eapply jsize_arr_in; exact Hin. }
  unfold kw_errs in H.
  destruct (str_eqb k Schema.K_properties).
  { destruct v as [| | | | | |props]; try destruct H. destruct j as [| | | | | |inst]; try destruct H.
    destruct (in_props_inv _ _ _ _ H) as (pk & sub & x & e' & A & B & C & ->).
    apply (valid_push _ _ x); [exact B|]. apply (IHo props pk sub eq_refl A x); [|exact C].
    eapply jnodup_assoc; eassumption. }
  destruct (str_eqb k K_patternProperties).
  { destruct v as [| | | | | |pps]; try destruct H. destruct j as [| | | | | |inst]; try destruct H.
    destruct (in_pprops_inv _ _ _ _ H) as (sub & mk & x & e' & A & B & C & ->).
    destruct (jnodup_member mk x inst Hj B) as [Ha Hx].
    apply (valid_push _ _ x); [exact Ha|].
    apply in_map_iff in A. destruct A as ([pat sub'] & E & A). cbn [snd] in E. subst sub'.
    exact (IHo pps pat sub eq_refl A x Hx e' C). }
  destruct (str_eqb k K_additionalProperties).
  { destruct v as [| | | | | |sch]; try (apply Hleaf; exact H).
    destruct j as [| | | | | |inst]; try (apply Hleaf; exact H).
    cbv beta in H. destruct (in_addl_inv _ _ _ _ H) as (mk & x & e' & A & C & ->).
    apply find_additional_sub in A. destruct (jnodup_member mk x inst Hj A) as [Ha Hx].
    apply (valid_push _ _ x); [exact Ha|]. apply (IH (JObj sch)); [lia|exact Hx|exact C]. }
  destruct (str_eqb k K_items).
  { destruct v as [| | | | |subs|sch]; try destruct H.
    - destruct j as [| | | | |xs|]; try destruct H.
      unfold tuple_errs in H. destruct (in_tuple_inv _ _ _ _ _ H) as (sub & i & x & e' & A & B & C & ->).
      apply (valid_push _ _ x); [cbn [jstep]; rewrite N_nat_of; exact B|].
      apply (IHa subs sub eq_refl A x); [|exact C]. eapply jnodup_nth; eassumption.
    - destruct j as [| | | | |xs|]; try destruct H.
      unfold items_errs in H. destruct (in_items_inv _ _ _ _ _ H) as (i & x & e' & B & C & ->).
      apply (valid_push _ _ x); [cbn [jstep]; rewrite N_nat_of; exact B|].
      apply (IH (JObj sch)); [lia| |exact C]. eapply jnodup_nth; eassumption. }
  destruct (str_eqb k K_allOf).
  { destruct v as [| | | | |subs|]; try destruct H.
    destruct (in_allof_inv _ _ _ _ H) as (sub & A & B). exact (IHa subs sub eq_refl A j Hj e B). }
  destruct (str_eqb k K_anyOf).
  { destruct v as [| | | | |subs|]; try destruct H. eapply in_if_here; exact H. }
  destruct (str_eqb k K_oneOf).
  { destruct v as [| | | | |subs|]; try destruct H. eapply in_if_here; exact H. }
  destruct (str_eqb k K_not).
  { eapply in_if_here'; exact H. }
  apply Hleaf. exact H.
Qed.

Lemma ierr_valid_size n :
  forall s, (jsize s < n)%nat -> forall j, jnodup j = true -> forall e, In e (ierr s j) -> valid j e.
Proof.
  induction n as [|n IH]; intros s Hs j Hj e He; [lia|].
  destruct s as [| | | | | |kws]; try destruct He.
  rewrite ierr_unfold in He. apply in_flat_map in He. destruct He as ([k v] & Hin & He). cbn [fst snd] in He.
  apply (kw_valid k v kws j e Hj); [|exact He].
  intros sub Hle. apply IH. pose proof (jsize_obj_in k v kws Hin). lia.
Qed.

(* (A) every error path leads to a node of the instance *)
Theorem ierr_paths_valid s j e : jnodup j = true -> In e (ierr s j) -> valid j e.
Proof. intros Hj He. exact (ierr_valid_size (S (jsize s)) s (Nat.lt_succ_diag_r _) j Hj e He). Qed.

(* ------------------------------------------------------------------ (B) the shape of loads / create dictionaries *)
(* keys stored lower-case and once (CaseInsensitiveOrderedDict; the schema
   keys create copies), no position record (include_position=False), dict
   members of lists are blocks carrying a string __type__ *)
Definition typed (x : value) : bool :=
  match x with
  | VDict _ its => match assoc K_dtype its with Some (VStr _) => true | _ => false end
  | _ => true
  end.

Fixpoint shaped (d : value) : bool :=
  match d with
  | VDict _ items =>
      forallb (fun k => str_eqb (lower k) k) (keys items) && nodupb (keys items)
      && negb (od_mem K_dposition items)
      && (fix go (l : list (str * value)) : bool :=
            match l with [] => true | (_, v) :: l' => shaped v && go l' end) items
  | VList l => (fix go (l : list value) : bool :=
                  match l with [] => true | x :: l' => shaped x && typed x && go l' end) l
  | _ => true
  end.

Lemma shaped_dict c items :
  shaped (VDict c items) =
  forallb (fun k => str_eqb (lower k) k) (keys items) && nodupb (keys items)
  && negb (od_mem K_dposition items) && forallb (fun kv => shaped (snd kv)) items.
Proof.
  cbn [shaped]. f_equal. induction items as [|[k v] items IH]; [reflexivity|]. cbn [forallb snd]. rewrite IH. reflexivity.
Qed.

Lemma shaped_list l : shaped (VList l) = forallb (fun x => shaped x && typed x) l.
Proof. cbn [shaped]. induction l as [|x l IH]; [reflexivity|]. cbn [forallb]. rewrite IH. reflexivity. Qed.

Definition jsn_of (d : value) : json := to_json (convert_lowercase d).

Lemma to_json_dict c items : to_json (VDict c items) = JObj (map (fun kv => (fst kv, to_json (snd kv))) items).
Proof.
  cbn [to_json]. f_equal. induction items as [|[k v] items IH]; [reflexivity|]. cbn [map fst snd]. rewrite IH. reflexivity.
Qed.

Lemma keys_map_snd {A B} (f : A -> B) (l : list (str * A)) : keys (map (fun kv => (fst kv, f (snd kv))) l) = keys l.
Proof. unfold keys. rewrite map_map. reflexivity. Qed.

Lemma cl_shaped c items :
  forallb (fun k => str_eqb (lower k) k) (keys items) = true -> nodupb (keys items) = true ->
  convert_lowercase (VDict c items) = VDict DPlain (map (fun kv => (fst kv, convert_lowercase (snd kv))) items).
Proof.
  intros Hl Hn. rewrite convert_lowercase_dict, lc_items_setall. f_equal.
  assert (E : map (fun kv => (lower (fst kv), convert_lowercase (snd kv))) items
              = map (fun kv => (fst kv, convert_lowercase (snd kv))) items).
  { apply map_ext_in. intros [k v] Hin. cbn [fst snd]. f_equal.
    rewrite forallb_forall in Hl. apply str_eqb_eq. apply Hl. unfold keys. apply in_map_iff. exists (k, v). auto. }
  rewrite E. apply setall_self. rewrite keys_map_snd. apply nodupb_NoDup. exact Hn.
Qed.

Lemma jsn_of_dict c items :
  forallb (fun k => str_eqb (lower k) k) (keys items) = true -> nodupb (keys items) = true ->
  jsn_of (VDict c items) = JObj (map (fun kv => (fst kv, jsn_of (snd kv))) items).
Proof.
  intros Hl Hn. unfold jsn_of. rewrite (cl_shaped c items Hl Hn), to_json_dict, map_map. reflexivity.
Qed.

Lemma jsn_of_list l : jsn_of (VList l) = JArr (map jsn_of l).
Proof. unfold jsn_of. cbn [convert_lowercase to_json]. rewrite map_map. reflexivity. Qed.

Lemma assoc_map_snd {A B} (f : A -> B) k (l : list (str * A)) :
  assoc k (map (fun kv => (fst kv, f (snd kv))) l) = option_map f (assoc k l).
Proof.
  induction l as [|[k' v] l IH]; [reflexivity|]. cbn [map assoc fst snd]. destruct (str_eqb k k'); [reflexivity|exact IH].
Qed.

Lemma jsn_obj_is_dict d l : jsn_of d = JObj l -> is_dict d = true.
Proof. destruct d; unfold jsn_of; cbn; try discriminate. reflexivity. Qed.

Lemma lower_dposition : lower K_dposition = K_dposition.
Proof. vm_compute. reflexivity. Qed.

Lemma lower_dtype : lower K_dtype = K_dtype.
Proof. vm_compute. reflexivity. Qed.

(* d[k] for a key that is stored *)
Lemma getitem_present_key c items k v :
  forallb (fun k => str_eqb (lower k) k) (keys items) = true -> assoc k items = Some v ->
  getitem (VDict c items) (PKey k) = Ok v.
Proof.
  intros Hl Ha.
  assert (Hk : lower k = k).
  { rewrite forallb_forall in Hl. apply str_eqb_eq. apply Hl. unfold keys. apply in_map_iff.
    exists (k, v). split; [reflexivity|]. apply assoc_Some_in. exact Ha. }
  destruct c as [|f|f]; cbn [getitem]; try (rewrite Ha; reflexivity).
  rewrite (getitem_present lower OBJECT_LIST_KEYS lower_idem f k items v); [reflexivity|].
  rewrite Hk. exact Ha.
Qed.

Lemma contains_no_position c items : od_mem K_dposition items = false -> contains (VDict c items) K_dposition = Ok false.
Proof. intros H. destruct c as [|f|f]; cbn [contains]; rewrite ?lower_dposition, H; reflexivity. Qed.

Lemma step_corr d p node :
  shaped d = true -> jstep (jsn_of d) p = Some node ->
  exists d', getitem d p = Ok d' /\ jsn_of d' = node /\ shaped d' = true /\
             match p with PIdx _ => typed d' = true | PKey _ => True end.
Proof.
  intros Hs Hj. destruct d as [| | | | |l|c items]; try (unfold jsn_of in Hj; cbn in Hj; destruct p; discriminate).
  - rewrite jsn_of_list in Hj. destruct p as [k|i]; [discriminate|]. cbn [jstep] in Hj.
    rewrite nth_error_map in Hj. destruct (nth_error l (N.to_nat i)) as [x|] eqn:En; [|discriminate].
    injection Hj as <-. rewrite shaped_list, forallb_forall in Hs.
    specialize (Hs x (nth_error_In _ _ En)). rewrite andb_true_iff in Hs. destruct Hs as [H1 H2].
    exists x. cbn [getitem]. rewrite En. auto.
  - rewrite shaped_dict, !andb_true_iff in Hs. destruct Hs as [[[Hl Hn] Hp] Hv].
    rewrite (jsn_of_dict c items Hl Hn) in Hj. destruct p as [k|i]; [|discriminate]. cbn [jstep] in Hj.
    rewrite assoc_map_snd in Hj. destruct (assoc k items) as [v|] eqn:Ea; [|discriminate].
    injection Hj as <-. exists v. split; [apply getitem_present_key; assumption|].
    rewrite forallb_forall in Hv. specialize (Hv _ (assoc_Some_in _ _ _ Ea)). auto.
Qed.

Lemma find_corr p : forall d node,
  shaped d = true -> jfind (jsn_of d) p = Some node ->
  exists d', findkey d p = Ok d' /\ jsn_of d' = node /\ shaped d' = true.
Proof.
  induction p as [|x p IH]; intros d node Hs Hj.
  - injection Hj as <-. exists d. auto.
  - cbn [jfind] in Hj. destruct (jstep (jsn_of d) x) as [n1|] eqn:E1; [|discriminate].
    destruct (step_corr d x n1 Hs E1) as (d1 & G1 & J1 & S1 & _).
    rewrite <- J1 in Hj. destruct (IH d1 node S1 Hj) as (d' & G & J & S).
    exists d'. cbn [findkey]. rewrite G1. cbn [bind]. auto.
Qed.

Lemma jfind_app j a b : jfind j (a ++ b) = match jfind j a with Some n => jfind n b | None => None end.
Proof.
  revert j. induction a as [|x a IH]; intros j; [reflexivity|]. cbn [app jfind].
  destruct (jstep j x); [apply IH|reflexivity].
Qed.

Lemma findkey_app d a b : findkey d (a ++ b) = do o <- findkey d a; findkey o b.
Proof.
  revert d. induction a as [|x a IH]; intros d; [reflexivity|]. cbn [app findkey].
  destruct (getitem d x); cbn [bind]; [apply IH|reflexivity].
Qed.

Lemma last_key_split p pre k : last_key p = Some (pre, k) -> exists rest, p = pre ++ PKey k :: rest.
Proof.
  revert pre k. induction p as [|x p IH]; intros pre k H; [discriminate|]. cbn [last_key] in H.
  destruct (last_key p) as [[pre' k']|].
  - injection H as <- <-. destruct (IH pre' k' eq_refl) as (rest & ->). exists rest. reflexivity.
  - destruct x as [k0|i]; [|discriminate]. injection H as <- <-. exists p. reflexivity.
Qed.

Lemma last_key_first k p : last_key (PKey k :: p) <> None.
Proof. cbn [last_key]. destruct (last_key p) as [[pre k']|]; discriminate. Qed.

(* ------------------------------------------------------------------ (C) create_message finds what it looks up *)
Lemma dict_guard_parts c items :
  shaped (VDict c items) = true ->
  contains (VDict c items) K_dposition = Ok false /\
  (typed (VDict c items) = true -> exists key, getitem (VDict c items) (PKey K_dtype) = Ok (VStr key)).
Proof.
  intros Hs. rewrite shaped_dict, !andb_true_iff in Hs. destruct Hs as [[[Hl Hn] Hp] Hv].
  rewrite negb_true_iff in Hp. split; [apply contains_no_position; exact Hp|].
  cbn [typed]. intros Ht. destruct (assoc K_dtype items) as [tv|] eqn:Ea; [|discriminate].
  destruct tv; try discriminate. eexists. apply getitem_present_key; eassumption.
Qed.

Lemma shaped_guard d e :
  shaped d = true -> typed d = true -> is_dict d = true -> valid (jsn_of d) e -> guard d e.
Proof.
  intros Hs Ht Hd (node & Hv). unfold guard, target.
  destruct (epath e) as [|p0 ps] eqn:Ep.
  - destruct d as [| | | | | |c items]; try discriminate.
    destruct (dict_guard_parts c items Hs) as [G1 G2]. exists c, items, None. auto.
  - assert (Hne : p0 :: ps <> []) by discriminate.
    destruct (exists_last Hne) as (pre & x & Epath). rewrite Epath in *.
    rewrite last_last, removelast_last.
    rewrite jfind_app in Hv. destruct (jfind (jsn_of d) pre) as [nP|] eqn:EP; [|discriminate].
    destruct (find_corr pre d nP Hs EP) as (dP & GP & JP & SP).
    cbn [jfind] in Hv. destruct (jstep nP x) as [nX|] eqn:EX; [|discriminate].
    destruct x as [k|i].
    + (* the path ends in a key: the enclosing node is an object *)
      rewrite GP. cbn [bind].
      assert (HdP : is_dict dP = true).
      { destruct nP; try discriminate. eapply jsn_obj_is_dict; exact JP. }
      destruct dP as [| | | | | |c items]; try discriminate.
      destruct (dict_guard_parts c items SP) as [G1 _]. exists c, items, (Some k). split; [reflexivity|]. split; [exact G1|discriminate].
    + (* the path ends in a list index *)
      rewrite findkey_app, GP. cbn [bind findkey].
      rewrite <- JP in EX. destruct (step_corr dP (PIdx i) nX SP EX) as (o & GO & JO & SO & TO).
      rewrite GO. cbn [bind].
      destruct (is_dict o) eqn:Eo.
      * destruct o as [| | | | | |c items]; try discriminate.
        destruct (dict_guard_parts c items SO) as [G1 G2]. exists c, items, None. auto.
      * (* an item of a list-valued keyword: the last key of the path and its dictionary *)
        destruct (last_key (pre ++ [PIdx i])) as [[kpre k]|] eqn:Elk.
        -- destruct (last_key_split _ _ _ Elk) as (rest & Esplit).
           assert (Hvk : exists nK nk, jfind (jsn_of d) kpre = Some nK /\ jstep nK (PKey k) = Some nk).
           { assert (Hfull : jfind (jsn_of d) (pre ++ [PIdx i]) = Some nX).
             { rewrite jfind_app, EP. cbn [jfind]. rewrite <- JP, EX. reflexivity. }
             rewrite Esplit, jfind_app in Hfull.
             destruct (jfind (jsn_of d) kpre) as [nK|]; [|discriminate].
             cbn [jfind] in Hfull. destruct (jstep nK (PKey k)) as [nk|] eqn:Ek; [|discriminate].
             exists nK, nk. auto. }
           destruct Hvk as (nK & nk & EK & Ek).
           destruct (find_corr kpre d nK Hs EK) as (dK & GK & JK & SK).
           rewrite GK. cbn [bind].
           assert (HdK : is_dict dK = true).
           { destruct nK; try discriminate. eapply jsn_obj_is_dict; exact JK. }
           destruct dK as [| | | | | |c items]; try discriminate.
           destruct (dict_guard_parts c items SK) as [G1 _]. exists c, items, (Some k).
           split; [reflexivity|]. split; [exact G1|discriminate].
        -- (* impossible: the root is an object, so the path starts with a key *)
           exfalso. rewrite <- Epath in Elk.
           destruct d as [| | | | | |c items]; try discriminate.
           assert (Hfull : jfind (jsn_of (VDict c items)) (p0 :: ps) <> None).
           { rewrite Epath, jfind_app, EP. cbn [jfind]. rewrite <- JP, EX. discriminate. }
           rewrite shaped_dict, !andb_true_iff in Hs. destruct Hs as [[[Hl Hn] _] _].
           rewrite (jsn_of_dict c items Hl Hn) in Hfull.
           destruct p0 as [k0|i0]; [exact (last_key_first k0 ps Elk)|].
           apply Hfull. reflexivity.
Qed.

Lemma jnodup_jsn d : shaped d = true -> jnodup (jsn_of d) = true.
Proof.
  induction d as [| | | | |l IH|c items IH] using value_ind'; intros Hs; try reflexivity.
  - rewrite jsn_of_list. unfold jnodup. rewrite jall_arr. cbn [obj_nodup andb].
    rewrite shaped_list in Hs. rewrite forallb_forall in *. intros n Hn.
    apply in_map_iff in Hn. destruct Hn as (x & <- & Hx).
    rewrite Forall_forall in IH. apply IH; [exact Hx|].
    specialize (Hs x Hx). rewrite andb_true_iff in Hs. tauto.
  - rewrite shaped_dict, !andb_true_iff in Hs. destruct Hs as [[[Hl Hn] Hp] Hv].
    rewrite (jsn_of_dict c items Hl Hn). unfold jnodup. rewrite jall_obj. cbn [obj_nodup].
    rewrite keys_map_snd, Hn. cbn [andb]. rewrite forallb_forall in *. intros kv Hkv.
    apply in_map_iff in Hkv. destruct Hkv as ([k v] & <- & Hin). cbn [fst snd].
    rewrite Forall_forall in IH. apply (IH (k, v) Hin). exact (Hv _ Hin).
Qed.

(* a root dictionary of loads / create *)
Definition root_ok (d : value) : bool := shaped d && typed d && is_dict d.

Theorem validate_never_raises_lemma tree d :
  wf_schema tree = true -> root_ok d = true -> exists msgs, run_validator tree d = Ok msgs.
Proof.
  intros Hwf Hr. unfold root_ok in Hr. rewrite !andb_true_iff in Hr. destruct Hr as [[Hs Ht] Hd].
  apply validate_never_raises_guarded_lemma; [exact Hwf|destruct d; try discriminate; exact I|].
  intros e He. apply shaped_guard; try assumption.
  apply (ierr_paths_valid tree); [apply jnodup_jsn; exact Hs|exact He].
Qed.

Lemma res_concat_ok {A} (l : list (res (list A))) :
  Forall (fun r => exists m, r = Ok m) l -> exists ms, res_concat l = Ok ms.
Proof.
  induction 1 as [|r l (m & ->) _ (ms & IH)]; [exists []; reflexivity|].
  exists (m ++ ms). cbn [res_concat bind]. rewrite IH. reflexivity.
Qed.

Theorem validate_list_never_raises_lemma tree ds :
  wf_schema tree = true -> forallb root_ok ds = true -> exists msgs, run_validator tree (VList ds) = Ok msgs.
Proof.
  intros Hwf Hr. rewrite (list_is_pointwise_lemma tree ds Hwf). apply res_concat_ok.
  apply Forall_forall. intros r Hin. apply in_map_iff in Hin. destruct Hin as (d & <- & Hd).
  rewrite forallb_forall in Hr. specialize (Hr d Hd).
  destruct (validate_never_raises_lemma tree d Hwf Hr) as (m & Hm). exists m.
  unfold root_ok in Hr. rewrite !andb_true_iff in Hr. destruct Hr as [_ Hdict].
  rewrite run_validator_single in Hm by (destruct d; try discriminate; exact I).
  rewrite Hwf in Hm. exact Hm.
Qed.
