(* C13 (comments part): the converse acceptance alignment, plain run => comments
   run, under a guard.
   - tr_main_alignC_rev: the MapfileTransformer pass, plain => commented tree;
   - comments_alignment_{transform,loads}_off_to_on_partial: the converse with the
     CommentsTransformer pass assumed to raise nothing;
   - ctr_total / pass_total: that pass raises nothing on trees satisfying the
     syntactic predicate Q (key clause + shape clauses);
   - comments_alignment_loads_off_to_on_guarded: the converse under GUARD (= Q
     on the parse tree);
   - Q_tree / GUARD_of_KEYGUARD: the shape clauses of Q follow from the grammar
     typing (LRTyping, C08U_Named, C02U_Guard) and the success of the plain run;
   - comments_alignment_loads_off_to_on_keyguarded: the converse under KEYGUARD
     alone: no key of a VALUES / METADATA / VALIDATION / CONNECTIONOPTIONS pair
     is spelled __comments__ (unquoted, case-insensitively). *)
From MF Require Import Proofs.LRTyping Proofs.C08U Proofs.C08U_Named Proofs.C02U_Guard.
From MF Require Import Proofs.CaseFacts Proofs.C07U.
From MF Require Import Lib.Base Lib.PyDict Lib.PyNum Model.GrammarTypes Model.Lexer Model.LR
  Model.Case Model.Transformer Model.Api Gen.Tokens Gen.Grammar Proofs.C11 Proofs.C13U Proofs.C13U_Comments
  Proofs.C13C_Parse Proofs.C13C_Erase Proofs.C13C Model.SlotDoc Model.SlotCheck Proofs.C13C_Align.
Open Scope N_scope.

(* ================================================================ tr_main, the other direction *)
(* the plain pass succeeds => the comments-mode pass succeeds (on the tree whose
   commented nodes may already have been replaced by their values) *)
Theorem tr_main_alignC_rev ip : forall h g y,
  Ga ip h g -> gV g = true -> tr_main ip false g = Ok y -> exists x, tr_main ip true h = Ok x.
Proof.
  fix IH 1. intros h g y HA HG H. destruct h as [t|d cs m|v].
  - eexists; reflexivity.
  - destruct (Ga_node_inv ip d cs m g HA) as (cs' & m' & -> & HL). clear HA.
    rewrite tr_main_node in *. cbn [gV] in HG.
    destruct (tr_list ip false cs') as [ys|e] eqn:L2; cbn [bind] in H; [|discriminate].
    assert (HLs : exists xs, tr_list ip true cs = Ok xs).
    { clear H. revert cs' ys HL HG L2.
      induction cs as [|c cs IHcs]; intros [|c' cs'] ys HL HG L2; try contradiction; [eexists; reflexivity|].
      destruct HL as [Hc HL]. cbn [forallb] in HG. apply andb_true_iff in HG. destruct HG as [Gc' HG].
      cbn [tr_list] in *.
      destruct (tr_main ip false c') as [y1|e] eqn:T2; cbn [bind] in L2; [|discriminate].
      destruct (IH c c' y1 Hc Gc' T2) as [x1 ->]. cbn [bind].
      fold (tr_list ip false cs') in L2. fold (tr_list ip true cs).
      destruct (tr_list ip false cs') as [ys1|e] eqn:L2'; cbn [bind] in L2; [|discriminate].
      destruct (IHcs cs' ys1 HL HG L2') as [xs1 ->]. cbn [bind]. eexists; reflexivity. }
    destruct HLs as [xs L1]. rewrite L1. cbn [bind].
    eapply callback_alignC; [| | |exact H].
    + apply Forall2_C_sym. exact (tr_list_C ip cs cs' xs ys (Ga_list_Gc ip cs cs' HL) L1 L2).
    + exact (tr_list_V ip false cs' ys HG L2).
    + exact (tr_list_V ip true cs xs (Ga_list_gV ip cs cs' HL) L1).
  - eexists; reflexivity.
Qed.

(* ================================================================ converse, with the comments pass assumed to go through *)
(* PARTIAL: the only thing assumed is that the CommentsTransformer pass (ctr
   and the root comments_callback) raises nothing; the final MapfileTransformer
   pass over the commented tree then succeeds because the plain one did. *)
Theorem comments_alignment_transform_off_to_on_partial :
  forall ip t' t y g1 g2, same_shape t' t ->
  transform ip false t = Ok y ->
  ctr ip (canonize (gtree_of t')) = Ok g1 -> comments_callback ip g1 = Ok g2 ->
  exists x, transform ip true t' = Ok x.
Proof.
  intros ip t' t y g1 g2 HS H C1 K1. unfold transform in *. rewrite C1. cbn [bind]. rewrite K1. cbn [bind].
  pose proof (Ga_start ip t' t HS) as HA.
  assert (HG : gV (canonize (gtree_of t)) = true) by (apply gV_canonize, gV_gtree_of).
  eapply tr_main_alignC_rev; [|exact HG|exact H].
  eapply comments_callback_Ga; [|exact HG|exact K1]. eapply ctr_Ga; eassumption.
Qed.

Print Assumptions comments_alignment_transform_off_to_on_partial.

Definition comments_pass_ok (ip : bool) (text : str) : bool :=
  match parse_tree true text with
  | Ok t' =>
      match ctr ip (canonize (gtree_of t')) with
      | Ok g1 => match comments_callback ip g1 with Ok _ => true | Err _ => false end
      | Err _ => false
      end
  | Err _ => true
  end.

Theorem comments_alignment_loads_off_to_on_partial :
  forall ip text w, loads ip false text = Ok w -> comments_pass_ok ip text = true ->
  exists v, loads ip true text = Ok v.
Proof.
  intros ip text w H HP. unfold loads, comments_pass_ok in *.
  pose proof (parse_tree_comments_shape text) as HS.
  destruct (parse_tree false text) as [t|e]; cbn [bind] in H; [|discriminate].
  destruct (parse_tree true text) as [t'|e]; cbn [res_shape] in HS; [|contradiction]. cbn [bind].
  destruct (transform ip false t) as [y|e] eqn:T1; cbn [bind] in H; [|discriminate].
  destruct (ctr ip _) as [g1|e] eqn:C1; [|discriminate].
  destruct (comments_callback ip g1) as [g2|e] eqn:K1; [|discriminate].
  destruct (comments_alignment_transform_off_to_on_partial ip t' t y g1 g2 HS T1 C1 K1) as [x ->]. cbn [bind].
  apply tv_to_value_total.
Qed.

Print Assumptions comments_alignment_loads_off_to_on_partial.

(* ================================================================ subtrees the comments pass leaves alone *)
Definition commented (d : N) : bool := (d =? CB_attr) || (d =? CB_projection) || (d =? CB_composite).

Fixpoint cfree (g : gtree) : bool :=
  match g with
  | GTok _ => true
  | GVal _ => false
  | GNode d cs _ => negb (commented d) && forallb cfree cs
  end.

Lemma cc_cfree ip g : cfree g = true -> comments_callback ip g = Ok g.
Proof.
  intros H. rewrite comments_callback_stages. destruct g as [t|d cs m|v]; try reflexivity.
  cbn [cfree] in H. apply andb_true_iff in H. destruct H as [H _]. apply negb_true_iff in H.
  unfold commented in H. apply orb_false_iff in H. destruct H as [H H3]. apply orb_false_iff in H. destruct H as [H1 H2].
  rewrite H1, H2, H3. reflexivity.
Qed.

Theorem ctr_cfree ip : forall g, cfree g = true -> ctr ip g = Ok g.
Proof.
  fix IH 1. intros g H. destruct g as [t|d cs m|v]; try reflexivity.
  rewrite ctr_node. cbn [cfree] in H. apply andb_true_iff in H. destruct H as [_ H].
  assert (L : ctr_list ip cs = Ok cs).
  { induction cs as [|c cs IHcs]; [reflexivity|]. cbn [forallb] in H. apply andb_true_iff in H. destruct H as [Hc H].
    cbn [ctr_list]. rewrite (IH c Hc). cbn [bind]. rewrite (cc_cfree ip c Hc). cbn [bind].
    fold (ctr_list ip cs). rewrite (IHcs H). reflexivity. }
  rewrite L. reflexivity.
Qed.

(* ================================================================ attr / projection return dicts *)
Definition is_tdict (x : tv) : bool := match x with TDict _ _ => true | _ => false end.

Lemma attr_body_dict key kn vts x : attr_body key kn vts = Ok x -> is_tdict x = true.
Proof.
  unfold attr_body. intros H.
  destruct (create_position_dict key (Some vts)) as [pd|e]; cbn [bind] in H; [|discriminate].
  destruct vts as [|a [|b rest]]; [discriminate| |].
  - destruct (tok_of a) as [t|e]; cbn [bind] in H; [|discriminate]. injection H as <-. reflexivity.
  - destruct (str_eqb kn s_config).
    + destruct rest; [|discriminate].
      destruct (tok_of a) as [ta|e]; cbn [bind] in H; [|discriminate].
      destruct (tok_of b) as [tb|e]; cbn [bind] in H; [|discriminate].
      destruct (pk_val ta) as [| | | |ka| |]; try discriminate. cbn [bind] in H. injection H as <-. reflexivity.
    + destruct (mapM tv_dot_value (a :: b :: rest)) as [vals|e]; cbn [bind] in H; [|discriminate].
      injection H as <-. reflexivity.
Qed.

Lemma cb_attr_dict tokens x : cb_attr tokens = Ok x -> is_tdict x = true.
Proof.
  rewrite cb_attr_stages. intros H. destruct tokens as [|k0 vt0]; [discriminate|].
  destruct (attr_key k0) as [key|e]; cbn [bind] in H; [|discriminate].
  destruct (key_name key) as [kn|e]; cbn [bind] in H; [|discriminate].
  destruct (attr_vtoks vt0) as [vts|e]; cbn [bind] in H; [|discriminate].
  eapply attr_body_dict; exact H.
Qed.

Lemma cb_projection_dict t x : cb_projection t = Ok x -> is_tdict x = true.
Proof.
  unfold cb_projection. intros H.
  destruct (check_composite_tokens _ t) as [[k0 body]|e]; cbn [bind] in H; [|discriminate].
  destruct (mapM _ body) as [strs|e]; cbn [bind] in H; [|discriminate].
  destruct t as [|k [|v1 r]]; try discriminate.
  destruct (tok_of v1) as [vt|e]; cbn [bind] in H; [|discriminate].
  eapply cb_attr_dict; exact H.
Qed.

(* ================================================================ blocks with a type token: MAP ... END *)
Lemma assoc_cm_finish (v1 X : tv) (wp : option (list (str * value))) (r1 : titems) :
  assoc s_comments ((s_type, v1) :: match wp with Some p => [(s_position, TVal (VDict DPlain p))] | None => [] end
                      ++ (s_comments, X) :: r1) = Some X.
Proof. destruct wp; reflexivity. Qed.

Lemma comp_main_cc ip key second r m dt tk mt rest :
  PA second -> comp_main ip true key second = Ok r -> (length tk < 3)%nat ->
  exists h, cc_composite (GNode dt tk mt :: rest) m r = Ok h.
Proof.
  intros HP H HL. unfold comp_main in H.
  destruct (key_name key) as [kn|e]; cbn [bind] in H; [|discriminate].
  destruct (comp_pd ip key) as [pd|e]; cbn [bind] in H; [|discriminate].
  destruct (comp_fold true _ _) as [st|e] eqn:F1; cbn [bind] in H; [|discriminate].
  assert (HS : stS st).
  { eapply comp_fold_S; [| |exact F1]; [apply attrs_of_PA; exact HP|apply comp_init_S]. }
  assert (Hk : hk (cs_dict st) = Some s_type) by (eapply comp_fold_hk; [exact F1|apply comp_init_hk]).
  destruct (comp_finish_PA true st r HS Hk H) as [_ Hstd].
  unfold comp_finish in H. cbv zeta in H.
  destruct (cs_dict st) as [|[k1 v1] r1]; [discriminate|]. cbn [hk] in Hk. injection Hk as ->.
  injection H as <-. cbn [std] in Hstd. destruct Hstd as [tyv Hty].
  cbn [cc_composite]. unfold cc_existing, ci_get. rewrite lower_comments'. rewrite assoc_cm_finish. cbn [cc_dictlike].
  unfold cc_dict. cbv zeta. unfold cc_cm2. rewrite Hty.
  destruct (str_eqb tyv s_metadata); [|cbn [bind]; eexists; reflexivity].
  destruct tk as [|a [|b [|c l]]]; cbn [add_metadata_comments bind]; try (eexists; reflexivity).
  cbn [length] in HL. lia.
Qed.

Lemma cc_general ip dt tk mt x2 rest m r :
  GA (GNode CB_composite (GNode dt tk mt :: x2 :: rest) m) ->
  tr_main ip true (GNode CB_composite (GNode dt tk mt :: x2 :: rest) m) = Ok r -> (length tk < 3)%nat ->
  exists h, cc_composite (GNode dt tk mt :: x2 :: rest) m r = Ok h.
Proof.
  intros HG H HL. apply GA_node in HG. rewrite tr_main_node in H. cbn [tr_list] in H.
  destruct (tr_main ip true (GNode dt tk mt)) as [v1|e] eqn:T1; cbn [bind] in H; [|discriminate].
  destruct (tr_main ip true x2) as [v2|e] eqn:T2; cbn [bind] in H; [|discriminate].
  fold (tr_list ip true rest) in H.
  destruct (tr_list ip true rest) as [vs|e]; cbn [bind] in H; [|discriminate].
  change (callback ip true CB_composite (v1 :: v2 :: vs)) with (cb_composite ip true (v1 :: v2 :: vs)) in H.
  rewrite cb_composite_stages in H.
  destruct v1 as [| |[|[|key| |] l]|]; try discriminate.
  eapply comp_main_cc; [|exact H|exact HL].
  eapply tr_main_PA; [|exact T2]. exact (Forall_inv (Forall_inv_tail HG)).
Qed.

(* ================================================================ key-value blocks: METADATA / VALIDATION / CONNECTIONOPTIONS *)
Definition tok_key (t : ptok) : option str :=
  match pk_val t with VStr s => Some (lower (clean_string_s s)) | _ => None end.

(* the key of a pair node, read off the tree: the text of its first string
   token, unquoted and lower-cased *)
Definition pair_key (sp : gtree) : option str :=
  match sp with
  | GNode d (a :: _) _ =>
      if d =? CB_string_pair then
        match a with
        | GTok t => if pk_type t =? T_UNQUOTED_STRING then tok_key t else None
        | GNode da (GTok t :: _) _ => if da =? CB_string then tok_key t else None
        | _ => None
        end
      else None
  | _ => None
  end.

Definition tvkey (x : tv) : option str :=
  match x with TSeq (TTok t :: _) => tok_key t | _ => None end.

Lemma pair_key_mck sp key : pair_key sp = Some key -> exists m, metadata_comment_key sp = Ok (key, m).
Proof.
  unfold pair_key, tok_key. intros H.
  destruct sp as [|d [|a l] m|]; try discriminate.
  destruct (d =? CB_string_pair); [|discriminate].
  destruct a as [t|da [|[t| |] l2] ma|]; try discriminate.
  - destruct (pk_type t =? T_UNQUOTED_STRING) eqn:Et; [|discriminate].
    destruct (pk_val t) eqn:Ev; try discriminate. injection H as <-.
    exists m. unfold metadata_comment_key. rewrite Et. unfold tok_str. rewrite Ev. reflexivity.
  - destruct (da =? CB_string); [|discriminate].
    destruct (pk_val t) eqn:Ev; try discriminate. injection H as <-.
    exists m. unfold metadata_comment_key. unfold tok_str. rewrite Ev. reflexivity.
Qed.

Lemma pair_key_tr ip ic sp key x : pair_key sp = Some key -> tr_main ip ic sp = Ok x -> tvkey x = Some key.
Proof.
  unfold pair_key. intros H T.
  destruct sp as [|d [|a l] m|]; try discriminate.
  destruct (d =? CB_string_pair) eqn:Ed; [|discriminate]. apply N.eqb_eq in Ed. subst d.
  rewrite tr_main_node in T. cbn [tr_list] in T.
  destruct (tr_main ip ic a) as [xa|e] eqn:Ta; cbn [bind] in T; [|discriminate].
  fold (tr_list ip ic l) in T. destruct (tr_list ip ic l) as [xl|e]; cbn [bind] in T; [|discriminate].
  change (callback ip ic CB_string_pair (xa :: xl)) with (cb_len 2 (xa :: xl)) in T.
  unfold cb_len in T. destruct (Nat.eqb _ _); [|discriminate]. injection T as <-.
  assert (Hx : exists t, xa = TTok t /\ tok_key t = Some key).
  { destruct a as [t|da [|[t| |] l2] ma|]; try discriminate.
    - destruct (pk_type t =? T_UNQUOTED_STRING); [|discriminate]. cbn in Ta. injection Ta as <-. eauto.
    - destruct (da =? CB_string) eqn:Eda; [|discriminate]. apply N.eqb_eq in Eda. subst da.
      rewrite tr_main_node in Ta. cbn [tr_list tr_main bind] in Ta.
      fold (tr_list ip ic l2) in Ta. destruct (tr_list ip ic l2) as [x2|e]; cbn [bind] in Ta; [|discriminate].
      change (callback ip ic CB_string (TTok t :: x2)) with (cb_first (TTok t :: x2)) in Ta.
      cbn in Ta. injection Ta as <-. eauto. }
  destruct Hx as (t & -> & Hk). exact Hk.
Qed.

Lemma pvp_step_key d x key d' : tvkey x = Some key -> pvp_step (Ok d) x = Ok d' -> exists v, d' = od_set key v d.
Proof.
  unfold tvkey, tok_key. intros Hk H.
  destruct x as [| |[|[|t| |] l]|]; try discriminate.
  destruct (pk_val t) eqn:Ev; try discriminate. injection Hk as <-.
  unfold pvp_step in H. cbn [bind] in H.
  change (seq_item_value (TSeq (TTok t :: l)) 0) with (Ok (pk_val t)) in H.
  rewrite Ev in H. cbn [bind] in H.
  destruct (seq_item_value _ 1) as [vv|e]; cbn [bind] in H; [|discriminate].
  cbn [clean_top value_as_str bind] in H. injection H as <-.
  eexists. unfold ci_set. rewrite lower_idem. reflexivity.
Qed.

Lemma pvp_fold_err' l e : fold_left pvp_step l (Err e) = Err e.
Proof. induction l as [|x l IH]; [reflexivity|exact IH]. Qed.

Lemma assoc_od_set_iff {A} k key (v : A) d : assoc k (od_set key v d) <> None <-> (k = key \/ assoc k d <> None).
Proof.
  destruct (str_eqb_spec k key) as [->|Hn].
  - rewrite get_set_same. split; [left; reflexivity|discriminate].
  - rewrite get_set_other by exact Hn. split; [right; assumption|intros [E|E]; [contradiction|exact E]].
Qed.

Lemma pvp_fold_assoc body : forall d0 d, Forall (fun x => tvkey x <> None) body ->
  fold_left pvp_step body (Ok d0) = Ok d ->
  forall k, assoc k d <> None <-> (assoc k d0 <> None \/ Exists (fun x => tvkey x = Some k) body).
Proof.
  induction body as [|x body IH]; intros d0 d HF H k.
  - cbn in H. injection H as <-. split; [left; assumption|intros [E|E]; [exact E|inversion E]].
  - inversion HF as [|? ? Hx HF']; subst. cbn [fold_left] in H.
    destruct (tvkey x) as [key|] eqn:Ek; [|contradiction].
    destruct (pvp_step (Ok d0) x) as [d1|e] eqn:S1; [|rewrite pvp_fold_err' in H; discriminate].
    destruct (pvp_step_key d0 x key d1 Ek S1) as [v ->].
    rewrite (IH _ _ HF' H k), assoc_od_set_iff, Exists_cons, Ek.
    split.
    + intros [[E|E]|E]; [right; left; subst; reflexivity|left; exact E|right; right; exact E].
    + intros [E|[E|E]]; [left; right; exact E|left; left; injection E as ->; reflexivity|right; exact E].
Qed.

Lemma tr_list_Forall2 ip ic cs : forall xs, tr_list ip ic cs = Ok xs -> Forall2 (fun c x => tr_main ip ic c = Ok x) cs xs.
Proof.
  induction cs as [|c cs IH]; intros xs L.
  - cbn in L. injection L as <-. constructor.
  - cbn [tr_list] in L. destruct (tr_main ip ic c) as [x1|e] eqn:T1; cbn [bind] in L; [|discriminate].
    fold (tr_list ip ic cs) in L. destruct (tr_list ip ic cs) as [xs1|e]; cbn [bind] in L; [|discriminate].
    injection L as <-. constructor; [exact T1|apply IH; reflexivity].
Qed.

Lemma Forall2_removelast {A B} (R : A -> B -> Prop) l : forall l', Forall2 R l l' -> Forall2 R (removelast l) (removelast l').
Proof.
  induction l as [|a l IH]; intros l' H; inversion H as [|? b ? l2 Hab H2]; subst; [constructor|].
  destruct l as [|a2 l]; inversion H2 as [|? b2 ? l3 Hab2 H3]; subst; [constructor|].
  change (Forall2 R (a :: removelast (a2 :: l)) (b :: removelast (b2 :: l3))). constructor; [exact Hab|].
  apply IH. exact H2.
Qed.

Definition pair_ok (sp : gtree) : bool :=
  match pair_key sp with Some k => negb (str_eqb k s_comments) | None => false end.

Lemma K_facts ip l : forall l', Forall2 (fun c x => tr_main ip true c = Ok x) l l' -> forallb pair_ok l = true ->
  Forall (fun x => tvkey x <> None) l' /\ ~ Exists (fun x => tvkey x = Some s_comments) l' /\
  Forall (fun sp => exists key m', metadata_comment_key sp = Ok (key, m') /\ Exists (fun x => tvkey x = Some key) l') l.
Proof.
  induction 1 as [|c x l l' Hcx _ IH]; intros HP.
  - split; [constructor|split; [intros E; inversion E|constructor]].
  - cbn [forallb] in HP. apply andb_true_iff in HP. destruct HP as [Hc HP].
    destruct (IH HP) as (A1 & A2 & A3). unfold pair_ok in Hc.
    destruct (pair_key c) as [k|] eqn:Ek; [|discriminate]. apply negb_true_iff in Hc.
    pose proof (pair_key_tr ip true c k x Ek Hcx) as Hx.
    destruct (pair_key_mck c k Ek) as [m' Hm].
    split; [constructor; [rewrite Hx; discriminate|exact A1]|]. split.
    + intros E. apply Exists_cons in E. destruct E as [E|E]; [|exact (A2 E)].
      rewrite Hx in E. injection E as ->. rewrite str_eqb_refl in Hc. discriminate.
    + constructor.
      * exists k, m'. split; [exact Hm|]. apply Exists_cons. left. exact Hx.
      * eapply Forall_impl; [|exact A3]. intros sp (key & m2 & B1 & B2). exists key, m2. split; [exact B1|].
        apply Exists_cons. right. exact B2.
Qed.

Lemma mapM_id (f : tv -> res tv) l :
  (forall x, tvkey x <> None -> f x = Ok x) -> Forall (fun x => tvkey x <> None) l -> mapM f l = Ok l.
Proof.
  intros Hf. induction 1 as [|x l Hx _ IH]; [reflexivity|].
  cbn [mapM]. rewrite (Hf x Hx). cbn [bind]. rewrite IH. reflexivity.
Qed.

Lemma amc_fold_ok items l :
  Forall (fun sp => exists key m', metadata_comment_key sp = Ok (key, m') /\ assoc key items <> None) l ->
  forall cm, exists r, fold_left (amc_step items) l (Ok cm) = Ok r.
Proof.
  induction 1 as [|sp l (key & m' & Hk & Ha) _ IH]; intros cm; [eexists; reflexivity|].
  cbn [fold_left]. unfold amc_step at 2. cbn [bind]. rewrite Hk. cbn [bind].
  destruct (assoc key items); [|contradiction]. apply IH.
Qed.

Lemma amc_ok items cm g0 rest :
  Forall (fun sp => exists key m', metadata_comment_key sp = Ok (key, m') /\ assoc key items <> None) (removelast rest) ->
  exists r, add_metadata_comments items cm (g0 :: rest) = Ok r.
Proof.
  intros H. rewrite add_metadata_comments_stages.
  destruct rest as [|b [|c l]]; try (eexists; reflexivity). apply amc_fold_ok. exact H.
Qed.

Lemma cm_ne_type : s_comments <> s_type.
Proof. intros E. vm_compute in E. discriminate E. Qed.
Lemma cm_ne_position : s_comments <> s_position.
Proof. intros E. vm_compute in E. discriminate E. Qed.

Lemma kv_cc ip name t0 rest yrest r dk mk m :
  forallb pair_ok (removelast rest) = true ->
  tr_list ip true rest = Ok yrest ->
  process_value_pairs ip (TTok t0 :: yrest) name = Ok r ->
  exists h, cc_composite [GNode dk (GTok t0 :: rest) mk] m r = Ok h.
Proof.
  intros HP L H. rewrite process_value_pairs_stages in H.
  destruct (check_composite_tokens name _) as [[key body]|e] eqn:CT; cbn [bind fst snd] in H; [|discriminate].
  destruct (key_name key) as [kn|e]; cbn [bind] in H; [|discriminate].
  destruct (fold_left pvp_step body (Ok [])) as [d|e] eqn:F; cbn [bind] in H; [|discriminate].
  destruct (pvp_pos ip key body d) as [d1|e] eqn:PP; cbn [bind] in H; [|discriminate].
  injection H as <-.
  pose proof (Forall2_removelast _ _ _ (tr_list_Forall2 ip true rest yrest L)) as FR.
  destruct (K_facts ip _ _ FR HP) as (A1 & A2 & A3).
  assert (HB : body = removelast yrest).
  { unfold check_composite_tokens in CT. destruct yrest as [|y1 yr]; [discriminate|].
    cbn [tok_of bind] in CT.
    destruct (tok_str t0) as [ks|e]; cbn [bind] in CT; [|discriminate].
    destruct (match last_opt (y1 :: yr) with Some x => tok_of x | None => vfail end) as [lastt|e]; cbn [bind] in CT; [|discriminate].
    destruct (tok_str lastt) as [ls|e]; cbn [bind] in CT; [|discriminate].
    destruct (_ && _); [|discriminate].
    rewrite mapM_id in CT; [cbn [bind] in CT; injection CT as _ <-; reflexivity| |exact A1].
    intros x Hx. destruct x as [| | |c items]; try reflexivity. exfalso. apply Hx. reflexivity. }
  subst body.
  pose proof (pvp_fold_assoc _ _ _ A1 F) as HA.
  assert (HM : forall k, assoc k d <> None -> assoc k (ci_set s_type (TVal (VStr kn)) d1) <> None).
  { intros k Hk. unfold ci_set. apply assoc_od_set_iff. right.
    unfold pvp_pos in PP. destruct ip.
    - destruct (create_position_dict key _) as [pd|e]; cbn [bind] in PP; [|discriminate]. injection PP as <-.
      unfold ci_set. apply assoc_od_set_iff. right. exact Hk.
    - injection PP as <-. exact Hk. }
  assert (HN : assoc s_comments (ci_set s_type (TVal (VStr kn)) d1) = None).
  { unfold ci_set. rewrite lower_type, get_set_other by exact cm_ne_type.
    assert (Hd : assoc s_comments d = None).
    { destruct (assoc s_comments d) eqn:E; [|reflexivity]. exfalso.
      assert (Hne : assoc s_comments d <> None) by (rewrite E; discriminate).
      apply HA in Hne. destruct Hne as [Hne|Hne]; [apply Hne; reflexivity|exact (A2 Hne)]. }
    unfold pvp_pos in PP. destruct ip.
    - destruct (create_position_dict key _) as [pd|e]; cbn [bind] in PP; [|discriminate]. injection PP as <-.
      unfold ci_set. rewrite lower_position, get_set_other by exact cm_ne_position. exact Hd.
    - injection PP as <-. exact Hd. }
  cbn [cc_composite]. unfold cc_existing, ci_get. rewrite lower_comments', HN. cbn [cc_dictlike].
  unfold cc_dict. cbv zeta. unfold cc_cm2.
  assert (HT : assoc s_type (ci_set s_type (TVal (VStr kn)) d1) = Some (TVal (VStr kn))).
  { unfold ci_set. rewrite lower_type. apply get_set_same. }
  rewrite HT. destruct (str_eqb kn s_metadata); [|cbn [bind]; eexists; reflexivity].
  match goal with |- context [add_metadata_comments ?it ?cm _] => destruct (amc_ok it cm (GTok t0) rest) as [r2 Hr2] end.
  { eapply Forall_impl; [|exact A3]. intros sp (key2 & m2 & B1 & B2). exists key2, m2. split; [exact B1|].
    apply HM. apply HA. right. exact B2. }
  rewrite Hr2. cbn [bind]. eexists; reflexivity.
Qed.

Definition is_kvblock (d : N) : bool :=
  (d =? CB_values) || (d =? CB_metadata) || (d =? CB_validation) || (d =? CB_connectionoptions).

(* the children of a key-value block: its keyword token, pairs with a readable
   key that is not spelled __comments__, the END token *)
Definition kids_ok (kids : list gtree) : bool :=
  match kids with
  | GTok _ :: rest => forallb pair_ok (removelast rest) && forallb cfree kids
  | _ => false
  end.

Lemma cc_kv ip dk kids mk m r :
  is_kvblock dk = true -> kids_ok kids = true ->
  tr_main ip true (GNode CB_composite [GNode dk kids mk] m) = Ok r ->
  exists h, cc_composite [GNode dk kids mk] m r = Ok h.
Proof.
  intros Hd Hk H. rewrite tr_main_node in H. cbn [tr_list] in H.
  destruct (tr_main ip true (GNode dk kids mk)) as [x|e] eqn:T; cbn [bind] in H; [|discriminate].
  change (callback ip true CB_composite [x]) with (cb_composite ip true [x]) in H.
  rewrite cb_composite_stages in H. injection H as <-.
  unfold kids_ok in Hk. destruct kids as [|[t0| |] rest]; try discriminate.
  apply andb_true_iff in Hk. destruct Hk as [Hk _].
  rewrite tr_main_node in T. cbn [tr_list tr_main bind] in T. fold (tr_list ip true rest) in T.
  destruct (tr_list ip true rest) as [yrest|e] eqn:L; cbn [bind] in T; [|discriminate].
  unfold is_kvblock in Hd. repeat (apply orb_true_iff in Hd; destruct Hd as [Hd|Hd]).
  all: apply N.eqb_eq in Hd; subst dk.
  all: eapply kv_cc; [exact Hk|exact L|exact T].
Qed.

Lemma kvblock_cfree dk kids mk : is_kvblock dk = true -> kids_ok kids = true -> cfree (GNode dk kids mk) = true.
Proof.
  intros Hd Hk. cbn [cfree]. apply andb_true_iff. split.
  - unfold is_kvblock in Hd. repeat (apply orb_true_iff in Hd; destruct Hd as [Hd|Hd]).
    all: apply N.eqb_eq in Hd; subst dk; reflexivity.
  - unfold kids_ok in Hk. destruct kids as [|[t0| |] rest]; try discriminate.
    apply andb_true_iff in Hk. apply Hk.
Qed.

(* ================================================================ the guard, on the tree *)
Definition comp_ok (cs : list gtree) : bool :=
  match cs with
  | [GNode dk kids _] => is_kvblock dk && kids_ok kids
  | GNode dt tk mt :: _ :: _ => cfree (GNode dt tk mt) && (length tk <? 3)%nat
  | _ => false
  end.

Fixpoint Q (g : gtree) : bool :=
  match g with
  | GNode d cs _ => (if d =? CB_composite then comp_ok cs else true) && forallb Q cs
  | _ => true
  end.

(* the comments callback of a node whose children have been processed *)
Lemma cbt ip d cs0 m xs g y :
  Q (GNode d cs0 m) = true -> GA (GNode d cs0 m) ->
  Ga ip (GNode d cs0 m) g -> gV g = true -> tr_main ip false g = Ok y ->
  ctr_list ip cs0 = Ok xs ->
  exists h2, comments_callback ip (GNode d xs m) = Ok h2.
Proof.
  intros HQ HGA HA HG HT L.
  assert (C1 : ctr ip (GNode d cs0 m) = Ok (GNode d xs m)) by (rewrite ctr_node, L; reflexivity).
  pose proof (ctr_Ga ip _ g _ HA HG C1) as HA1.
  destruct (tr_main_alignC_rev ip _ g y HA1 HG HT) as [r Hr].
  pose proof (ctr_GA ip _ _ HGA C1) as HGA1.
  rewrite comments_callback_stages.
  destruct (d =? CB_attr) eqn:E1.
  { rewrite Hr. cbn [bind]. apply N.eqb_eq in E1. subst d. rewrite tr_main_node in Hr.
    destruct (tr_list ip true xs) as [vs|e]; cbn [bind] in Hr; [|discriminate].
    change (callback ip true CB_attr vs) with (cb_attr vs) in Hr. apply cb_attr_dict in Hr.
    destruct r; try discriminate. eexists; reflexivity. }
  destruct (d =? CB_projection) eqn:E2.
  { rewrite Hr. cbn [bind]. apply N.eqb_eq in E2. subst d. rewrite tr_main_node in Hr.
    destruct (tr_list ip true xs) as [vs|e]; cbn [bind] in Hr; [|discriminate].
    change (callback ip true CB_projection vs) with (cb_projection vs) in Hr. apply cb_projection_dict in Hr.
    destruct r; try discriminate. cbn [cc_projection]. destruct (has_comments m); eexists; reflexivity. }
  destruct (d =? CB_composite) eqn:E3; [|eexists; reflexivity].
  rewrite Hr. cbn [bind]. apply N.eqb_eq in E3. subst d.
  cbn [Q] in HQ. rewrite N.eqb_refl in HQ. apply andb_true_iff in HQ. destruct HQ as [HQ1 _].
  unfold comp_ok in HQ1. destruct cs0 as [|[|dk kids mk|] [|c2 rest]]; try discriminate.
  - apply andb_true_iff in HQ1. destruct HQ1 as [Hkv Hkids].
    pose proof (kvblock_cfree dk kids mk Hkv Hkids) as Hcf.
    cbn [ctr_list] in L. rewrite (ctr_cfree ip _ Hcf) in L. cbn [bind] in L. rewrite (cc_cfree ip _ Hcf) in L.
    cbn [bind] in L. injection L as <-. eapply cc_kv; eassumption.
  - apply andb_true_iff in HQ1. destruct HQ1 as [Hcf Hlen].
    destruct (ctr_list_cons ip _ _ xs L) as (c1 & c1' & r' & T1 & K1 & L' & ->).
    rewrite (ctr_cfree ip _ Hcf) in T1. injection T1 as <-.
    rewrite (cc_cfree ip _ Hcf) in K1. injection K1 as <-.
    destruct (ctr_list_cons ip _ _ r' L') as (c3 & c3' & r'' & _ & _ & _ & ->).
    eapply cc_general; [exact HGA1|exact Hr|]. apply Nat.ltb_lt. exact Hlen.
Qed.

Theorem ctr_total ip : forall h0 g y,
  Q h0 = true -> GA h0 -> Ga ip h0 g -> gV g = true -> tr_main ip false g = Ok y -> exists h, ctr ip h0 = Ok h.
Proof.
  fix IH 1. intros h0 g y HQ HGA HA HG HT. destruct h0 as [t|d cs m|v]; try (eexists; reflexivity).
  destruct (Ga_node_inv ip d cs m g HA) as (cs' & m' & -> & HL).
  rewrite ctr_node. cbn [Q] in HQ. apply andb_true_iff in HQ. destruct HQ as [_ HQ].
  apply GA_node in HGA. cbn [gV] in HG. rewrite tr_main_node in HT.
  destruct (tr_list ip false cs') as [ys|e] eqn:L2; cbn [bind] in HT; [|discriminate]. clear HT HA.
  assert (HLs : exists xs, ctr_list ip cs = Ok xs).
  { revert cs' ys HL HG L2 HQ HGA.
    induction cs as [|c cs IHcs]; intros [|c' cs'] ys HL HG L2 HQ HGA; try contradiction; [eexists; reflexivity|].
    destruct HL as [Hc HL]. cbn [forallb] in HG, HQ. apply andb_true_iff in HG, HQ.
    destruct HG as [Gc' HG], HQ as [Qc HQ].
    cbn [tr_list] in L2. destruct (tr_main ip false c') as [y1|e] eqn:T2; cbn [bind] in L2; [|discriminate].
    fold (tr_list ip false cs') in L2.
    destruct (tr_list ip false cs') as [ys1|e] eqn:L2'; cbn [bind] in L2; [|discriminate].
    destruct (IH c c' y1 Qc (Forall_inv HGA) Hc Gc' T2) as [c1 T1].
    assert (HK : exists c2, comments_callback ip c1 = Ok c2).
    { destruct c as [t|d2 cs2 m2|v].
      - cbn in T1. injection T1 as <-. eexists; reflexivity.
      - rewrite ctr_node in T1. destruct (ctr_list ip cs2) as [xs2|e] eqn:L3; cbn [bind] in T1; [|discriminate].
        injection T1 as <-.
        eapply cbt; [exact Qc|exact (Forall_inv HGA)|exact Hc|exact Gc'|exact T2|exact L3].
      - cbn in T1. injection T1 as <-. eexists; reflexivity. }
    destruct HK as [c2 K1].
    destruct (IHcs cs' ys1 HL HG L2' HQ (Forall_inv_tail HGA)) as [xs1 L1].
    cbn [ctr_list]. rewrite T1. cbn [bind]. rewrite K1. cbn [bind]. fold (ctr_list ip cs). rewrite L1. cbn [bind].
    eexists; reflexivity. }
  destruct HLs as [xs ->]. eexists; reflexivity.
Qed.

Lemma pass_total ip h0 g y :
  Q h0 = true -> GA h0 -> Ga ip h0 g -> gV g = true -> tr_main ip false g = Ok y ->
  exists g1 g2, ctr ip h0 = Ok g1 /\ comments_callback ip g1 = Ok g2.
Proof.
  intros HQ HGA HA HG HT. destruct (ctr_total ip h0 g y HQ HGA HA HG HT) as [g1 C1].
  exists g1. destruct h0 as [t|d cs m|v].
  - cbn in C1. injection C1 as <-. eexists; split; reflexivity.
  - pose proof C1 as C1'. rewrite ctr_node in C1. destruct (ctr_list ip cs) as [xs|e] eqn:L; cbn [bind] in C1; [|discriminate].
    injection C1 as <-. destruct (cbt ip d cs m xs g y HQ HGA HA HG HT L) as [g2 K]. exists g2. split; [exact C1'|exact K].
  - cbn in C1. injection C1 as <-. eexists; split; reflexivity.
Qed.

(* ================================================================ the guarded converse *)
Theorem comments_alignment_transform_off_to_on_guarded :
  forall ip t' t y, same_shape t' t -> Q (canonize (gtree_of t')) = true ->
  transform ip false t = Ok y -> exists x, transform ip true t' = Ok x.
Proof.
  intros ip t' t y HS HQ H.
  pose proof (Ga_start ip t' t HS) as HA.
  assert (HG : gV (canonize (gtree_of t)) = true) by (apply gV_canonize, gV_gtree_of).
  pose proof (GA_canonize _ (GA_gtree_of t')) as HGA.
  pose proof H as H0. unfold transform in H0.
  destruct (pass_total ip _ _ y HQ HGA HA HG H0) as (g1 & g2 & C1 & K1).
  eapply comments_alignment_transform_off_to_on_partial; eassumption.
Qed.

Print Assumptions comments_alignment_transform_off_to_on_guarded.

(* GUARD: computed from the text alone (parse, then a syntactic check of the
   tree): every key of a METADATA / VALIDATION / CONNECTIONOPTIONS pair is a
   plain string token whose unquoted lower-cased text is not __comments__; the
   remaining clauses describe the shape the grammar gives these nodes. *)
Definition GUARD (text : str) : bool :=
  match parse_tree true text with
  | Ok t' => Q (canonize (gtree_of t'))
  | Err _ => true
  end.

Theorem comments_alignment_loads_off_to_on_guarded :
  forall ip text w, loads ip false text = Ok w -> GUARD text = true -> exists v, loads ip true text = Ok v.
Proof.
  intros ip text w H HP. unfold loads, GUARD in *.
  pose proof (parse_tree_comments_shape text) as HS.
  destruct (parse_tree false text) as [t|e]; cbn [bind] in H; [|discriminate].
  destruct (parse_tree true text) as [t'|e]; cbn [res_shape] in HS; [|contradiction]. cbn [bind].
  destruct (transform ip false t) as [y|e] eqn:T1; cbn [bind] in H; [|discriminate].
  destruct (comments_alignment_transform_off_to_on_guarded ip t' t y HS HP T1) as [x ->]. cbn [bind].
  apply tv_to_value_total.
Qed.

Print Assumptions comments_alignment_loads_off_to_on_guarded.

(* ================================================================ the guard is not vacuous, and it rejects the witness *)
Definition commented_sample : str := Str "MAP # the map
  NAME 'x' # its name
  METADATA # block
    'a' 'b' # first pair
    ""wms_title"" ""d""
  END
  LAYER # a layer
    TYPE POINT
    VALIDATION 'k' '^x$' END
    METADATA END
  END
END".

Definition is_ok {A} (r : res A) : bool := match r with Ok _ => true | Err _ => false end.

Example guard_holds_on_a_commented_text :
  GUARD commented_sample = true /\
  is_ok (loads false false commented_sample) = true /\ is_ok (loads false true commented_sample) = true /\
  is_ok (loads true false commented_sample) = true /\ is_ok (loads true true commented_sample) = true.
Proof. vm_compute. repeat split; reflexivity. Qed.

(* the sample really carries comments into the result *)
Example commented_sample_differs :
  match loads false true commented_sample, loads false false commented_sample with
  | Ok v, Ok w => negb (value_eqb v w)
  | _, _ => false
  end = true.
Proof. vm_compute. reflexivity. Qed.

Example guard_rejects_the_witness : GUARD cex_comments_text = false.
Proof. vm_compute. reflexivity. Qed.

(* upper case and the other quote are caught as well *)
Example guard_rejects_case_variants :
  GUARD (Str "MAP METADATA '__COMMENTS__' 'x' 'a' 'b' END END") = false /\
  GUARD (Str "MAP LAYER VALIDATION __Comments__ 'x' END END END") = false.
Proof. vm_compute. split; reflexivity. Qed.

(* ================================================================ the shape clauses of the guard follow from the grammar and the plain run *)
Definition is_vstr (v : value) : bool := match v with VStr _ => true | _ => false end.

Definition strnode_ok (a : gtree) : bool :=
  match a with
  | GTok t => (pk_type t =? T_UNQUOTED_STRING) && is_vstr (pk_val t)
  | GNode da l _ => (da =? CB_string) && forallb (fun c => match c with GTok t => is_vstr (pk_val t) | _ => false end) l
  | GVal _ => false
  end.

Definition kid_ok (c : gtree) : bool :=
  match c with
  | GTok _ => true
  | GNode d l _ => (d =? CB_string_pair) && forallb strnode_ok l
  | GVal _ => false
  end.

Definition pair_nocm (sp : gtree) : bool :=
  match pair_key sp with Some k => negb (str_eqb k s_comments) | None => true end.

Lemma strnode_cfree a : strnode_ok a = true -> cfree a = true.
Proof.
  destruct a as [t|da l m|v]; [reflexivity| |discriminate]. cbn [strnode_ok cfree]. intros H.
  apply andb_true_iff in H. destruct H as [Hd Hl]. apply N.eqb_eq in Hd. subst da.
  apply andb_true_iff. split; [reflexivity|].
  induction l as [|c l IH]; [reflexivity|]. cbn [forallb] in *. apply andb_true_iff in Hl. destruct Hl as [Hc Hl].
  rewrite (IH Hl), andb_true_r. destruct c; [reflexivity|discriminate|discriminate].
Qed.

Lemma kid_cfree c : kid_ok c = true -> cfree c = true.
Proof.
  destruct c as [t|d l m|v]; [reflexivity| |discriminate]. cbn [kid_ok cfree]. intros H.
  apply andb_true_iff in H. destruct H as [Hd Hl]. apply N.eqb_eq in Hd. subst d.
  apply andb_true_iff. split; [reflexivity|].
  induction l as [|c l IH]; [reflexivity|]. cbn [forallb] in *. apply andb_true_iff in Hl. destruct Hl as [Hc Hl].
  rewrite (strnode_cfree c Hc), (IH Hl). reflexivity.
Qed.

Lemma pair_key_some ip ic d l m y : kid_ok (GNode d l m) = true -> tr_main ip ic (GNode d l m) = Ok y ->
  exists k, pair_key (GNode d l m) = Some k.
Proof.
  cbn [kid_ok]. intros H T. apply andb_true_iff in H. destruct H as [Hd Hl]. apply N.eqb_eq in Hd. subst d.
  rewrite tr_main_node in T. destruct l as [|a l'].
  { cbn [tr_list bind] in T. vm_compute in T. discriminate. }
  cbn [forallb] in Hl. apply andb_true_iff in Hl. destruct Hl as [Ha _].
  cbn [tr_list] in T. destruct (tr_main ip ic a) as [xa|e] eqn:Ta; cbn [bind] in T; [|discriminate].
  unfold pair_key. rewrite N.eqb_refl. unfold tok_key.
  destruct a as [t|da l3 ma|v]; [| |discriminate].
  - cbn [strnode_ok] in Ha. apply andb_true_iff in Ha. destruct Ha as [H1 H2]. rewrite H1.
    destruct (pk_val t); try discriminate. eexists; reflexivity.
  - cbn [strnode_ok] in Ha. apply andb_true_iff in Ha. destruct Ha as [H1 H2]. apply N.eqb_eq in H1. subst da.
    destruct l3 as [|c3 l3].
    { rewrite tr_main_node in Ta. cbn [tr_list bind] in Ta. vm_compute in Ta. discriminate. }
    cbn [forallb] in H2. apply andb_true_iff in H2. destruct H2 as [H2 _].
    destruct c3 as [t| |]; try discriminate. rewrite N.eqb_refl.
    destruct (pk_val t); try discriminate. eexists; reflexivity.
Qed.

Definition not_tok (y : tv) : Prop := match y with TTok _ => False | _ => True end.

Lemma no_tok_mid (f : tv -> res tv) : (forall t, f (TTok t) = Ok (TTok t)) -> forall l body d0 d,
  mapM f l = Ok body -> fold_left pvp_step body (Ok d0) = Ok d -> Forall not_tok l.
Proof.
  intros Hf. induction l as [|y l IH]; intros body d0 d M F; [constructor|].
  cbn [mapM] in M. destruct (f y) as [b|e] eqn:Ey; cbn [bind] in M; [|discriminate].
  destruct (mapM f l) as [bs|e] eqn:El; cbn [bind] in M; [|discriminate]. injection M as <-.
  cbn [fold_left] in F. destruct (pvp_step (Ok d0) b) as [d1|e] eqn:S1; [|rewrite pvp_fold_err' in F; discriminate].
  constructor; [|eapply IH; [reflexivity|exact F]].
  destruct y as [|t| |]; cbn [not_tok]; auto. rewrite Hf in Ey. injection Ey as <-. cbn in S1. discriminate.
Qed.

Lemma mids_ok ip l : forall l', Forall2 (fun c y => tr_main ip true c = Ok y) l l' -> Forall not_tok l' ->
  forallb kid_ok l = true -> forallb pair_nocm l = true -> forallb pair_ok l = true.
Proof.
  induction 1 as [|c y l l' Hcy _ IH]; intros NT K N; [reflexivity|].
  inversion NT as [|? ? NT1 NT2]; subst. cbn [forallb] in *.
  apply andb_true_iff in K, N. destruct K as [K1 K2], N as [N1 N2].
  rewrite (IH NT2 K2 N2), andb_true_r.
  destruct c as [t|d l0 m|v]; [|  |discriminate].
  - cbn in Hcy. injection Hcy as <-. contradiction.
  - destruct (pair_key_some ip true d l0 m y K1 Hcy) as [k Ek]. unfold pair_ok. unfold pair_nocm in N1.
    rewrite Ek in *. exact N1.
Qed.

Lemma kids_ok_derive ip name kids ys x :
  forallb kid_ok kids = true -> forallb pair_nocm kids = true ->
  tr_list ip true kids = Ok ys -> process_value_pairs ip ys name = Ok x -> kids_ok kids = true.
Proof.
  intros HK HN L H. rewrite process_value_pairs_stages in H.
  destruct (check_composite_tokens name ys) as [[key body]|e] eqn:CT; cbn [bind fst snd] in H; [|discriminate].
  destruct (key_name key) as [kn|e]; cbn [bind] in H; [|discriminate].
  destruct (fold_left pvp_step body (Ok [])) as [d|e] eqn:F; cbn [bind] in H; [|discriminate]. clear H.
  unfold check_composite_tokens in CT. destruct ys as [|y0 [|y1 yr]]; try discriminate.
  destruct (tok_of y0) as [k0|e] eqn:E0; cbn [bind] in CT; [|discriminate].
  destruct (tok_str k0) as [ks|e]; cbn [bind] in CT; [|discriminate].
  destruct (match last_opt (y1 :: yr) with Some x => tok_of x | None => vfail end) as [lastt|e]; cbn [bind] in CT; [|discriminate].
  destruct (tok_str lastt) as [ls|e]; cbn [bind] in CT; [|discriminate].
  destruct (_ && _); [|discriminate].
  destruct (mapM _ (removelast (y1 :: yr))) as [bt|e] eqn:MM; cbn [bind] in CT; [|discriminate]. injection CT as _ <-.
  pose proof (no_tok_mid _ (fun t => eq_refl) _ _ _ _ MM F) as NT.
  destruct kids as [|c0 rest]; [cbn in L; discriminate|].
  pose proof (tr_list_Forall2 ip true _ _ L) as FA. inversion FA as [|? ? ? ? T0 FR]; subst.
  cbn [forallb] in HK, HN. apply andb_true_iff in HK, HN. destruct HK as [K0 HKr], HN as [_ HNr].
  destruct c0 as [t0|d0' l0 m0|v0]; [| |discriminate K0].
  2:{ exfalso. cbn [kid_ok] in K0. apply andb_true_iff in K0. destruct K0 as [Hd _]. apply N.eqb_eq in Hd. subst d0'.
      rewrite tr_main_node in T0. destruct (tr_list ip true l0) as [xl|e]; cbn [bind] in T0; [|discriminate].
      change (callback ip true CB_string_pair xl) with (cb_len 2 xl) in T0. unfold cb_len in T0.
      destruct (Nat.eqb _ _); [|discriminate]. injection T0 as <-. cbn in E0. discriminate. }
  unfold kids_ok. apply andb_true_iff. split.
  - eapply mids_ok; [exact (Forall2_removelast _ _ _ FR)|exact NT| |]; apply forallb_removelast; assumption.
  - cbn [forallb cfree]. clear -HKr. induction rest as [|c rest IH]; [reflexivity|].
    cbn [forallb] in *. apply andb_true_iff in HKr. destruct HKr as [H1 H2]. rewrite (kid_cfree c H1), (IH H2). reflexivity.
Qed.

(* ---------------------------------------------------------------- table facts of the generated grammar *)
Definition P_kv (s : shape) : bool := match s with STok _ => true | SNode d' => d' =? CB_string_pair end.
Definition P_sp (s : shape) : bool := match s with STok ty => ty =? T_UNQUOTED_STRING | SNode d' => d' =? CB_string end.
Definition P_tok (s : shape) : bool := match s with STok _ => true | SNode _ => false end.
Definition P_node (s : shape) : bool := match s with STok _ => false | SNode _ => true end.

Lemma T_kv d : is_kvblock d = true -> forallb P_kv (LRTyping.get (snd the_shapes) d) = true.
Proof.
  unfold is_kvblock. intros H. repeat (apply orb_true_iff in H; destruct H as [H|H]).
  all: apply N.eqb_eq in H; subst d; vm_compute; reflexivity.
Qed.
Lemma T_sp : forallb P_sp (LRTyping.get (snd the_shapes) CB_string_pair) = true. Proof. vm_compute. reflexivity. Qed.
Lemma T_str : forallb P_tok (LRTyping.get (snd the_shapes) CB_string) = true. Proof. vm_compute. reflexivity. Qed.
Lemma T_comp : forallb P_node (LRTyping.get (snd the_shapes) CB_composite) = true. Proof. vm_compute. reflexivity. Qed.

Lemma shaped_kids (P : shape -> bool) d cs m :
  forallb P (LRTyping.get (snd the_shapes) d) = true -> LRTyping.shaped (snd the_shapes) (Node d cs m) = true ->
  forallb (fun c => P (shape_of c)) cs = true /\ forallb (LRTyping.shaped (snd the_shapes)) cs = true.
Proof.
  intros HP H. cbn [LRTyping.shaped] in H. apply andb_true_iff in H. destruct H as [H1 H2]. split; [|exact H2].
  rewrite forallb_forall in *. intros c Hc. apply HP. apply mem_shape_In. apply H1. exact Hc.
Qed.

Lemma strnode_ok_tree a :
  P_sp (shape_of a) = true -> LRTyping.shaped (snd the_shapes) a = true -> strnode_ok (gtree_of a) = true.
Proof.
  destruct a as [tk|da l m]; cbn [shape_of P_sp gtree_of strnode_ok]; intros H HS.
  - cbn [ptok_of pk_type pk_val is_vstr]. rewrite H. reflexivity.
  - rewrite H. cbn [andb]. apply N.eqb_eq in H. subst da.
    destruct (shaped_kids P_tok _ _ _ T_str HS) as [H1 _]. clear HS.
    induction l as [|c l IH]; [reflexivity|]. cbn [map forallb] in *. apply andb_true_iff in H1. destruct H1 as [Hc H1].
    rewrite (IH H1), andb_true_r. destruct c as [tk|]; [reflexivity|discriminate].
Qed.

Lemma kid_ok_tree c :
  P_kv (shape_of c) = true -> LRTyping.shaped (snd the_shapes) c = true -> kid_ok (gtree_of c) = true.
Proof.
  destruct c as [tk|d l m]; cbn [shape_of P_kv gtree_of kid_ok]; intros H HS; [reflexivity|].
  rewrite H. cbn [andb]. apply N.eqb_eq in H. subst d.
  destruct (shaped_kids P_sp _ _ _ T_sp HS) as [H1 H2]. clear HS.
  induction l as [|a l IH]; [reflexivity|]. cbn [map forallb] in *. apply andb_true_iff in H1, H2.
  destruct H1 as [Ha H1], H2 as [Sa H2]. rewrite (strnode_ok_tree a Ha Sa), (IH H1 H2). reflexivity.
Qed.

Lemma kids_ok_tree d kids m :
  is_kvblock d = true -> LRTyping.shaped (snd the_shapes) (Node d kids m) = true ->
  forallb kid_ok (map gtree_of kids) = true.
Proof.
  intros Hd HS. destruct (shaped_kids P_kv _ _ _ (T_kv d Hd) HS) as [H1 H2]. clear HS.
  induction kids as [|c l IH]; [reflexivity|]. cbn [map forallb] in *. apply andb_true_iff in H1, H2.
  destruct H1 as [Ha H1], H2 as [Sa H2]. rewrite (kid_ok_tree c Ha Sa), (IH H1 H2). reflexivity.
Qed.

(* composite_type nodes have one child *)
Fixpoint ar1 (t : tree) : bool :=
  match t with
  | Tok _ => true
  | Node d cs _ => (negb (d =? CB_composite_type) || (length cs =? 1)%nat) && forallb ar1 cs
  end.

Theorem conforms_ar1 : forall t, conforms the_grammar t -> ar1 t = true.
Proof.
  fix IH 1. intros t Hc. destruct t as [tk|d cs m]; [reflexivity|].
  cbn [ar1]. apply andb_true_iff. split.
  - destruct (d =? CB_composite_type) eqn:E; [|reflexivity]. apply N.eqb_eq in E. subst d. cbn [negb orb].
    apply Nat.eqb_eq. eapply conforms_arity; [exact the_grammar_composite_type_arity|exact Hc].
  - pose proof (conforms_children _ _ _ _ Hc) as Hcs. clear Hc.
    induction cs as [|c cs IHcs]; [reflexivity|]. cbn [forallb]. apply andb_true_iff. split.
    + apply IH. exact (Forall_inv Hcs).
    + apply IHcs. exact (Forall_inv_tail Hcs).
Qed.

Lemma ar1_strip : forall t, ar1 (LRTyping.strip t) = ar1 t.
Proof.
  induction t as [tk|d cs m IH] using tree_ind'; [reflexivity|].
  cbn [LRTyping.strip ar1]. rewrite map_length. f_equal. apply forallb_map_ext. exact IH.
Qed.

Theorem parse_tree_ar1 ic text t : parse_tree ic text = Ok t -> ar1 t = true.
Proof.
  intros H. destruct (parse_tree_conforms ic text t H) as (t0 & _ & Hc & Hst & _).
  rewrite <- ar1_strip, Hst, ar1_strip. apply conforms_ar1. exact Hc.
Qed.

(* ---------------------------------------------------------------- the key clause alone *)
Fixpoint keyg (g : gtree) : bool :=
  match g with
  | GNode d cs _ => (if is_kvblock d then forallb pair_nocm cs else true) && forallb keyg cs
  | _ => true
  end.

Notation TSH := (LRTyping.shaped (snd the_shapes)).

Lemma comp_ok_derive ip cs m x :
  TSH (Node CB_composite cs m) = true -> TKb (Node CB_composite cs m) = true ->
  cpb (Node CB_composite cs m) = true -> ar1 (Node CB_composite cs m) = true ->
  keyg (GNode CB_composite (map gtree_of cs) m) = true ->
  tr_main ip true (GNode CB_composite (map gtree_of cs) m) = Ok x ->
  comp_ok (map gtree_of cs) = true.
Proof.
  intros H1 H2 H3 H4 HK HT.
  destruct cs as [|c [|c2 rest]].
  - rewrite tr_main_node in HT. cbn [map tr_list bind] in HT. vm_compute in HT. discriminate HT.
  - cbn [cpb] in H3. apply andb_true_iff in H3. destruct H3 as [H3 _]. unfold comp_node_ok in H3.
    rewrite N.eqb_refl in H3. cbn [length Nat.eqb negb orb] in H3.
    destruct c as [tk|d' kids m']; [discriminate H3|].
    match type of H3 with ?f d' = true => change (f d') with (is_kvblock d') in H3 end.
    cbn [map gtree_of]. unfold comp_ok. rewrite H3. cbn [andb].
    cbn [map gtree_of keyg forallb] in HK. rewrite H3 in HK.
    apply andb_true_iff in HK. destruct HK as [_ HK]. apply andb_true_iff in HK. destruct HK as [HK _].
    apply andb_true_iff in HK. destruct HK as [HK _].
    destruct (shaped_kids P_node _ _ _ T_comp H1) as [_ S1]. cbn [forallb] in S1. apply andb_true_iff in S1. destruct S1 as [S1 _].
    pose proof (kids_ok_tree d' kids m' H3 S1) as HKO.
    rewrite tr_main_node in HT. cbn [map tr_list gtree_of] in HT.
    destruct (tr_main ip true (GNode d' (map gtree_of kids) m')) as [x'|e] eqn:T; cbn [bind] in HT; [|discriminate HT].
    rewrite tr_main_node in T. destruct (tr_list ip true (map gtree_of kids)) as [ys|e] eqn:L; cbn [bind] in T; [|discriminate T].
    unfold is_kvblock in H3. repeat (apply orb_true_iff in H3; destruct H3 as [H3|H3]).
    all: apply N.eqb_eq in H3; subst d'.
    all: eapply kids_ok_derive; [exact HKO|exact HK|exact L|exact T].
  - cbn [TKb] in H2. apply andb_true_iff in H2. destruct H2 as [H2 _].
    change (key_bearing CB_composite) with true in H2. cbn [negb orb length Nat.eqb] in H2.
    destruct (shaped_kids P_node _ _ _ T_comp H1) as [S0 _]. cbn [forallb] in S0. apply andb_true_iff in S0. destruct S0 as [S0 _].
    destruct c as [tk|d1 cs1' m1].
    { cbn [shape_of P_node andb] in S0. discriminate S0. }
    destruct cs1' as [|[tk1|] cs1]; [discriminate H2| |discriminate H2].
    cbn [key_first] in H2. apply N.eqb_eq in H2. subst d1.
    cbn [ar1 forallb] in H4. apply andb_true_iff in H4. destruct H4 as [_ H4]. apply andb_true_iff in H4. destruct H4 as [H4 _].
    apply andb_true_iff in H4. destruct H4 as [H4 _]. rewrite N.eqb_refl in H4. cbn [negb orb length] in H4.
    destruct cs1; [|discriminate H4]. reflexivity.
Qed.

Theorem Q_tree ip : forall t x,
  TSH t = true -> TKb t = true -> cpb t = true -> ar1 t = true -> keyg (gtree_of t) = true ->
  tr_main ip true (gtree_of t) = Ok x -> Q (gtree_of t) = true.
Proof.
  fix IH 1. intros t x H1 H2 H3 H4 HK HT. destruct t as [tk|d cs m]; [reflexivity|].
  cbn [gtree_of] in HK, HT. cbn [gtree_of Q]. apply andb_true_iff. split.
  - destruct (d =? CB_composite) eqn:E; [|reflexivity]. apply N.eqb_eq in E. subst d. exact (comp_ok_derive ip cs m x H1 H2 H3 H4 HK HT).
  - rewrite tr_main_node in HT. destruct (tr_list ip true (map gtree_of cs)) as [xs|e] eqn:L; cbn [bind] in HT; [|discriminate HT].
    clear HT. cbn [LRTyping.shaped TKb cpb ar1 keyg] in H1, H2, H3, H4, HK.
    apply andb_true_iff in H1, H2, H3, H4, HK.
    destruct H1 as [_ H1], H2 as [_ H2], H3 as [_ H3], H4 as [_ H4], HK as [_ HK].
    revert xs L. induction cs as [|c cs IHcs]; intros xs L; [reflexivity|].
    cbn [map forallb] in *. apply andb_true_iff in H1, H2, H3, H4, HK.
    destruct H1 as [A1 H1], H2 as [A2 H2], H3 as [A3 H3], H4 as [A4 H4], HK as [AK HK].
    cbn [tr_list] in L. destruct (tr_main ip true (gtree_of c)) as [x1|e] eqn:T1; cbn [bind] in L; [|discriminate L].
    fold (tr_list ip true (map gtree_of cs)) in L.
    destruct (tr_list ip true (map gtree_of cs)) as [xs1|e] eqn:L1; cbn [bind] in L; [|discriminate L].
    rewrite (IH c x1 A1 A2 A3 A4 AK T1). cbn [andb]. exact (IHcs H1 H2 H3 H4 HK xs1 eq_refl).
Qed.

Lemma Q_list ip cs : forall xs,
  forallb TSH cs = true -> forallb TKb cs = true -> forallb cpb cs = true -> forallb ar1 cs = true ->
  forallb keyg (map gtree_of cs) = true -> tr_list ip true (map gtree_of cs) = Ok xs ->
  forallb Q (map gtree_of cs) = true.
Proof.
  induction cs as [|c cs IHcs]; intros xs H1 H2 H3 H4 HK L; [reflexivity|].
  cbn [map forallb] in *. apply andb_true_iff in H1, H2, H3, H4, HK.
  destruct H1 as [A1 H1], H2 as [A2 H2], H3 as [A3 H3], H4 as [A4 H4], HK as [AK HK].
  cbn [tr_list] in L. destruct (tr_main ip true (gtree_of c)) as [x1|e] eqn:T1; cbn [bind] in L; [|discriminate L].
  fold (tr_list ip true (map gtree_of cs)) in L.
  destruct (tr_list ip true (map gtree_of cs)) as [xs1|e] eqn:L1; cbn [bind] in L; [|discriminate L].
  rewrite (Q_tree ip c x1 A1 A2 A3 A4 AK T1). cbn [andb]. exact (IHcs xs1 H1 H2 H3 H4 HK eq_refl).
Qed.

(* ================================================================ the guard reduced to its key clause *)
(* KEYGUARD: in the parse tree of the text, no pair of a VALUES / METADATA /
   VALIDATION / CONNECTIONOPTIONS block has a key (first string token, unquoted,
   lower-cased) spelled __comments__.  Nothing else is asked. *)
Definition KEYGUARD (text : str) : bool :=
  match parse_tree true text with
  | Ok t' => keyg (gtree_of t')
  | Err _ => true
  end.

Theorem GUARD_of_KEYGUARD ip text w : loads ip false text = Ok w -> KEYGUARD text = true -> GUARD text = true.
Proof.
  intros H HK. unfold loads, KEYGUARD, GUARD in *.
  pose proof (parse_tree_comments_shape text) as HS.
  destruct (parse_tree true text) as [t'|e] eqn:P'; [|reflexivity].
  destruct (parse_tree false text) as [t|e]; cbn [res_shape] in HS; [|contradiction]. cbn [bind] in H.
  destruct (transform ip false t) as [y|e] eqn:T1; cbn [bind] in H; [|discriminate H]. clear H.
  unfold transform in T1.
  pose proof (Ga_start ip t' t HS) as HA.
  assert (HG : gV (canonize (gtree_of t)) = true) by (apply gV_canonize, gV_gtree_of).
  destruct (tr_main_alignC_rev ip _ _ y HA HG T1) as [x HX]. clear HA HG T1 HS.
  pose proof (parse_tree_shaped true text t' P') as S1.
  pose proof (parse_tree_TKb true text t' P') as S2.
  pose proof (parse_tree_cpb true text t' P') as S3.
  pose proof (parse_tree_ar1 true text t' P') as S4.
  destruct (parse_tree_root true text t' P') as (d & cs & m & -> & [->|[-> Hne]]).
  - change (canonize (gtree_of (Node CB_start cs m))) with (gtree_of (Node CB_start cs m)) in *.
    exact (Q_tree ip _ x S1 S2 S3 S4 HK HX).
  - cbn [gtree_of canonize] in HX |- *. rewrite N.eqb_refl in HX |- *.
    cbn [gtree_of keyg] in HK. apply andb_true_iff in HK. destruct HK as [_ HK].
    cbn [LRTyping.shaped] in S1. apply andb_true_iff in S1. destruct S1 as [_ S1].
    cbn [TKb] in S2. apply andb_true_iff in S2. destruct S2 as [_ S2].
    cbn [cpb] in S3. apply andb_true_iff in S3. destruct S3 as [_ S3].
    cbn [ar1] in S4. apply andb_true_iff in S4. destruct S4 as [_ S4].
    destruct cs as [|c0 cs0]; [exfalso; apply Hne; reflexivity|].
    assert (HR : exists c1 r1, map gtree_of (c0 :: cs0) = c1 :: r1) by (cbn [map]; eauto).
    set (rest := c0 :: cs0) in *. clearbody rest.
    rewrite tr_main_node in HX. cbn [tr_list] in HX.
    match type of HX with context [tr_main ip true ?ct] => destruct (tr_main ip true ct) as [v1|e1] end;
      cbn [bind] in HX; [|discriminate HX].
    fold (tr_list ip true (map gtree_of rest)) in HX.
    destruct (tr_list ip true (map gtree_of rest)) as [xs|e1] eqn:L; cbn [bind] in HX; [|discriminate HX].
    pose proof (Q_list ip rest xs S1 S2 S3 S4 HK L) as HQ.
    cbn [Q]. rewrite N.eqb_refl. destruct HR as (c1 & r1 & E). rewrite E in *.
    apply andb_true_iff. split; [reflexivity|]. cbn [forallb]. apply andb_true_iff. split; [reflexivity|exact HQ].
Qed.

Print Assumptions GUARD_of_KEYGUARD.

(* the guarded converse, with the key clause as the only guard *)
Theorem comments_alignment_loads_off_to_on_keyguarded :
  forall ip text w, loads ip false text = Ok w -> KEYGUARD text = true -> exists v, loads ip true text = Ok v.
Proof.
  intros ip text w H HK. eapply comments_alignment_loads_off_to_on_guarded; [exact H|].
  eapply GUARD_of_KEYGUARD; [exact H|exact HK].
Qed.

Print Assumptions comments_alignment_loads_off_to_on_keyguarded.

(* with the guard, the two runs accept exactly the same texts *)
Corollary comments_alignment_loads_iff_keyguarded :
  forall ip text, KEYGUARD text = true ->
  ((exists v, loads ip true text = Ok v) <-> (exists w, loads ip false text = Ok w)).
Proof.
  intros ip text HK. split; intros [v H].
  - eapply comments_alignment_loads_on_to_off; exact H.
  - eapply comments_alignment_loads_off_to_on_keyguarded; [exact H|exact HK].
Qed.

Example keyguard_holds_on_a_commented_text : KEYGUARD commented_sample = true.
Proof. vm_compute. reflexivity. Qed.

Example keyguard_rejects_the_witness : KEYGUARD cex_comments_text = false.
Proof. vm_compute. reflexivity. Qed.

Example keyguard_rejects_case_variants :
  KEYGUARD (Str "MAP METADATA '__COMMENTS__' 'x' 'a' 'b' END END") = false /\
  KEYGUARD (Str "MAP LAYER VALIDATION __Comments__ 'x' END END END") = false.
Proof. vm_compute. split; reflexivity. Qed.

(* the guard is sufficient, not necessary: an uncommented VALIDATION block may
   carry the key (nothing is ever stored into it) *)
Example keyguard_not_necessary :
  let text := Str "MAP LAYER VALIDATION ""__comments__"" ""x"" END END END" in
  KEYGUARD text = false /\ is_ok (loads false false text) = true /\ is_ok (loads false true text) = true.
Proof. vm_compute. repeat split; reflexivity. Qed.
