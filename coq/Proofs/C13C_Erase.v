(* C13 (comments part): the erasure of __comments__ entries and the relation
   "equal once the __comments__ entries are erased", with the facts about it
   that do not depend on which hidden key is erased (the same development as for
   __position__ in Proofs/C13U.v, whose key-independent definitions - stages of
   cb_attr, of composite_item, rrel - are reused). *)
From MF Require Import Lib.Base Lib.PyDict Lib.PyNum Model.GrammarTypes Model.Lexer Model.LR
  Model.Case Model.Transformer Model.Api Gen.Tokens Gen.Grammar Proofs.C11 Proofs.C13U.
Open Scope N_scope.

(* ================================================================ erasure *)
Definition is_cm (k : str) : bool := str_eqb k s_comments.

(* drop every entry keyed __comments__, apply f to the remaining values *)
Definition strip_cmw {A} (f : A -> A) : list (str * A) -> list (str * A) :=
  fix go (l : list (str * A)) : list (str * A) :=
    match l with
    | [] => []
    | (k, y) :: l' => if is_cm k then go l' else (k, f y) :: go l'
    end.

(* On transformer values: every TDict, at every depth, loses its __comments__
   entries; plain data (TVal) and tokens are left alone. *)
Fixpoint strip_cm_tv (x : tv) : tv :=
  match x with
  | TVal v => TVal v
  | TTok t => TTok t
  | TSeq l => TSeq (map strip_cm_tv l)
  | TDict c items => TDict c (strip_cmw strip_cm_tv items)
  end.

(* On final Python data: every dict, at every depth, loses its __comments__ entries. *)
Fixpoint strip_cm (v : value) : value :=
  match v with
  | VList l => VList (map strip_cm l)
  | VDict c items => VDict c (strip_cmw strip_cm items)
  | _ => v
  end.

Notation SC := (strip_cmw strip_cm_tv).

Definition C (x y : tv) : Prop := strip_cm_tv x = strip_cm_tv y.

Lemma C_refl x : C x x.
Proof. reflexivity. Qed.
Lemma C_sym x y : C x y -> C y x.
Proof. unfold C; congruence. Qed.
Lemma C_trans x y z : C x y -> C y z -> C x z.
Proof. unfold C; congruence. Qed.

(* ---------------------------------------------------------------- inversion of C *)
Lemma C_val_l v y : C (TVal v) y -> y = TVal v.
Proof. unfold C. destruct y; cbn [strip_cm_tv]; congruence. Qed.
Lemma C_tok_l t y : C (TTok t) y -> y = TTok t.
Proof. unfold C. destruct y; cbn [strip_cm_tv]; congruence. Qed.

Lemma map_stripc_Forall2 l l' : map strip_cm_tv l = map strip_cm_tv l' -> Forall2 C l l'.
Proof.
  revert l'; induction l as [|a l IH]; intros [|b l'] H; cbn [map] in H; try discriminate; [constructor|].
  injection H as H1 H2. constructor; [exact H1|apply IH; exact H2].
Qed.

Lemma Forall2_map_stripc l l' : Forall2 C l l' -> map strip_cm_tv l = map strip_cm_tv l'.
Proof. induction 1 as [|a b l l' H1 _ IH]; cbn [map]; [reflexivity|]. rewrite H1, IH. reflexivity. Qed.

Lemma C_seq_l l y : C (TSeq l) y -> exists l', y = TSeq l' /\ Forall2 C l l'.
Proof.
  unfold C. destruct y as [| |l'|]; cbn [strip_cm_tv]; try discriminate.
  intros [= H]. exists l'. split; [reflexivity|apply map_stripc_Forall2; exact H].
Qed.

Lemma C_dict_l c items y : C (TDict c items) y -> exists items', y = TDict c items' /\ SC items = SC items'.
Proof.
  unfold C. destruct y as [| | |c' items']; cbn [strip_cm_tv]; try discriminate.
  intros [= -> H]. exists items'. split; [reflexivity|exact H].
Qed.

Lemma C_seq l l' : Forall2 C l l' -> C (TSeq l) (TSeq l').
Proof. intros H. unfold C. cbn [strip_cm_tv]. f_equal. apply Forall2_map_stripc. exact H. Qed.

Lemma C_dict c items items' : SC items = SC items' -> C (TDict c items) (TDict c items').
Proof. intros H. unfold C. cbn [strip_cm_tv]. f_equal. exact H. Qed.

Lemma Forall2_C_refl l : Forall2 C l l.
Proof. induction l; constructor; [reflexivity|assumption]. Qed.

Lemma Forall2_C_sym l l' : Forall2 C l l' -> Forall2 C l' l.
Proof. induction 1; constructor; [apply C_sym|]; assumption. Qed.

(* invert every hypothesis C (constructor ..) y / C x (constructor ..) in the context *)
Ltac cinv1 :=
  match goal with
  | H : C (TVal _) ?y |- _ => apply C_val_l in H; try subst y
  | H : C (TTok _) ?y |- _ => apply C_tok_l in H; try subst y
  | H : C (TSeq _) ?y |- _ =>
      let l' := fresh "l'" in let H1 := fresh "Heq" in let H2 := fresh "HF" in
      apply C_seq_l in H; destruct H as (l' & H1 & H2); try subst y
  | H : C (TDict _ _) ?y |- _ =>
      let i' := fresh "items'" in let H1 := fresh "Heq" in let H2 := fresh "HS" in
      apply C_dict_l in H; destruct H as (i' & H1 & H2); try subst y
  | H : Forall2 C [] ?l |- _ => inversion H; clear H; try subst l
  | H : Forall2 C (_ :: _) ?l |- _ =>
      let b := fresh "b" in let l' := fresh "l'" in let H1 := fresh "HE" in let H2 := fresh "HF" in
      inversion H as [|? b ? l' H1 H2]; clear H; try subst
  end.
Ltac cinv := repeat cinv1.

(* ---------------------------------------------------------------- strip_cmw and the ordered-dict operations *)
Lemma is_cm_eq k : is_cm k = true -> k = s_comments.
Proof. unfold is_cm. apply str_eqb_eq. Qed.

Lemma SC_app (a b : titems) : SC (a ++ b) = SC a ++ SC b.
Proof.
  induction a as [|[k v] a IH]; cbn [app strip_cmw]; [reflexivity|].
  destruct (is_cm k); [exact IH|]. cbn [app]. rewrite IH. reflexivity.
Qed.

Lemma SC_cons_cm k v (l : titems) : is_cm k = true -> SC ((k, v) :: l) = SC l.
Proof. intros H. cbn [strip_cmw]. rewrite H. reflexivity. Qed.

Lemma SC_cons_noncm k v (l : titems) : is_cm k = false -> SC ((k, v) :: l) = (k, strip_cm_tv v) :: SC l.
Proof. intros H. cbn [strip_cmw]. rewrite H. reflexivity. Qed.

Lemma is_cm_neq k k' : is_cm k = false -> is_cm k' = true -> str_eqb k k' = false.
Proof.
  intros H1 H2. apply is_cm_eq in H2. subst k'. exact H1.
Qed.

Lemma SC_assoc k (l : titems) :
  is_cm k = false -> assoc k (SC l) = option_map strip_cm_tv (assoc k l).
Proof.
  intros Hk. induction l as [|[k' v] l IH]; cbn [strip_cmw assoc]; [reflexivity|].
  destruct (is_cm k') eqn:Ep.
  - rewrite (is_cm_neq _ _ Hk Ep). exact IH.
  - cbn [assoc]. destruct (str_eqb k k'); [reflexivity|exact IH].
Qed.

Lemma SC_od_mem k (l : titems) : is_cm k = false -> od_mem k (SC l) = od_mem k l.
Proof.
  intros Hk. rewrite !od_mem_assoc, SC_assoc by assumption. destruct (assoc k l); reflexivity.
Qed.

Lemma SC_od_replace k v (l : titems) :
  is_cm k = false -> SC (od_replace k v l) = od_replace k (strip_cm_tv v) (SC l).
Proof.
  intros Hk. induction l as [|[k' v'] l IH]; cbn [od_replace strip_cmw]; [reflexivity|].
  destruct (str_eqb k k') eqn:Ek.
  - apply str_eqb_eq in Ek. subst k'. cbn [strip_cmw]. rewrite Hk. cbn [od_replace].
    rewrite str_eqb_refl. reflexivity.
  - cbn [strip_cmw]. destruct (is_cm k'); [exact IH|]. cbn [od_replace]. rewrite Ek, IH. reflexivity.
Qed.

Lemma SC_od_replace_cm k v (l : titems) : is_cm k = true -> SC (od_replace k v l) = SC l.
Proof.
  intros Hk. induction l as [|[k' v'] l IH]; cbn [od_replace strip_cmw]; [reflexivity|].
  destruct (str_eqb k k') eqn:Ek.
  - apply str_eqb_eq in Ek. subst k'. cbn [strip_cmw]. rewrite Hk. reflexivity.
  - cbn [strip_cmw]. destruct (is_cm k'); [exact IH|]. rewrite IH. reflexivity.
Qed.

Lemma SC_od_set k v (l : titems) :
  is_cm k = false -> SC (od_set k v l) = od_set k (strip_cm_tv v) (SC l).
Proof.
  intros Hk. unfold od_set. rewrite SC_od_mem by assumption. destruct (od_mem k l).
  - apply SC_od_replace; assumption.
  - rewrite SC_app. cbn [strip_cmw]. rewrite Hk. reflexivity.
Qed.

Lemma SC_od_set_cm k v (l : titems) : is_cm k = true -> SC (od_set k v l) = SC l.
Proof.
  intros Hk. unfold od_set. destruct (od_mem k l).
  - apply SC_od_replace_cm; assumption.
  - rewrite SC_app. cbn [strip_cmw]. rewrite Hk. apply app_nil_r.
Qed.

(* setting the same key to related values keeps dicts related *)
Lemma SC_od_set_C k v v' (l l' : titems) :
  SC l = SC l' -> C v v' -> SC (od_set k v l) = SC (od_set k v' l').
Proof.
  intros Hl Hv. destruct (is_cm k) eqn:Ek.
  - rewrite !SC_od_set_cm by assumption. exact Hl.
  - rewrite !SC_od_set by assumption. rewrite Hl, Hv. reflexivity.
Qed.

(* ... and on a position key the values need not be related at all *)
Lemma SC_od_set_cmC k v v' (l l' : titems) :
  is_cm k = true -> SC l = SC l' -> SC (od_set k v l) = SC (od_set k v' l').
Proof. intros Hk Hl. rewrite !SC_od_set_cm by assumption. exact Hl. Qed.

Lemma SC_od_del k (l : titems) : is_cm k = false -> SC (od_del k l) = od_del k (SC l).
Proof.
  intros Hk. induction l as [|[k' v'] l IH]; cbn [od_del strip_cmw]; [reflexivity|].
  destruct (str_eqb k k') eqn:Ek.
  - apply str_eqb_eq in Ek. subst k'. rewrite Hk. cbn [od_del]. rewrite str_eqb_refl. reflexivity.
  - cbn [strip_cmw]. destruct (is_cm k'); [exact IH|]. cbn [od_del]. rewrite Ek, IH. reflexivity.
Qed.

Lemma SC_od_del_cm k (l : titems) : is_cm k = true -> SC (od_del k l) = SC l.
Proof.
  intros Hk. induction l as [|[k' v'] l IH]; cbn [od_del strip_cmw]; [reflexivity|].
  destruct (str_eqb k k') eqn:Ek.
  - apply str_eqb_eq in Ek. subst k'. rewrite Hk. reflexivity.
  - cbn [strip_cmw]. destruct (is_cm k'); [exact IH|]. rewrite IH. reflexivity.
Qed.

(* lookups of a non-position key in related dicts *)
Definition optC (a b : option tv) : Prop :=
  match a, b with
  | Some x, Some y => C x y
  | None, None => True
  | _, _ => False
  end.

Lemma SC_assoc_C k (l l' : titems) : is_cm k = false -> SC l = SC l' -> optC (assoc k l) (assoc k l').
Proof.
  intros Hk Hl. pose proof (SC_assoc k l Hk) as H1. pose proof (SC_assoc k l' Hk) as H2.
  rewrite Hl, H2 in H1. unfold optC. destruct (assoc k l), (assoc k l'); cbn [option_map] in H1; try discriminate; auto.
  injection H1 as H1. unfold C. congruence.
Qed.

Lemma mapM_eqC {B} (f : tv -> res B) l l' :
  Forall2 C l l' -> (forall a a', C a a' -> f a' = f a) -> mapM f l' = mapM f l.
Proof.
  intros Hl Hf. induction Hl as [|a a' l l' Ha _ IH]; cbn [mapM]; [reflexivity|].
  rewrite (Hf _ _ Ha), IH. reflexivity.
Qed.

Definition CR : res tv -> res tv -> Prop := rrel C.

Lemma CR_refl r : CR r r.
Proof. destruct r; cbn; auto. reflexivity. Qed.

Lemma CR_vfail : CR vfail vfail.
Proof. reflexivity. Qed.

Lemma CR_of_eq r r' : r' = r -> CR r r'.
Proof. intros ->. apply CR_refl. Qed.

(* ---------------------------------------------------------------- token-level helpers *)
Lemma tok_of_C x y : C x y -> tok_of y = tok_of x.
Proof. intros H. destruct x; cinv; reflexivity. Qed.

Lemma tv_dot_value_C x y : C x y -> tv_dot_value y = tv_dot_value x.
Proof. intros H. destruct x; cinv; reflexivity. Qed.

Lemma tok_pystr_C x y : C x y -> tok_pystr y = tok_pystr x.
Proof. intros H. unfold tok_pystr. rewrite (tv_dot_value_C _ _ H). reflexivity. Qed.

Lemma pos_pair_C x y : C x y -> pos_pair y = pos_pair x.
Proof. intros H. destruct x; cinv; reflexivity. Qed.

Lemma nth_error_C l l' n : Forall2 C l l' -> optC (nth_error l n) (nth_error l' n).
Proof.
  intros H. revert n. induction H as [|a b l l' Hab _ IH]; intros [|n]; cbn [nth_error optC]; auto.
Qed.

Lemma seq_item_value_C x y i : C x y -> seq_item_value y i = seq_item_value x i.
Proof.
  intros H. destruct x as [v|t|l|c items]; cinv; try reflexivity.
  cbn [seq_item_value]. unfold nth_tv.
  pose proof (nth_error_C l l' i HF) as Hn.
  destruct (nth_error l i), (nth_error l' i); cbn [optC] in Hn; try tauto; cbn [bind].
  apply tv_dot_value_C. exact Hn.
Qed.

Lemma first_tok_C xs ys : Forall2 C xs ys -> first_tok ys = first_tok xs.
Proof. intros H. destruct H as [|x y xs ys Hxy H]; [reflexivity|]. destruct x; cinv; reflexivity. Qed.

Lemma set_first_C xs ys s : Forall2 C xs ys -> set_first ys s = set_first xs s.
Proof. intros H. destruct H as [|x y xs ys Hxy H]; [reflexivity|]. destruct x; cinv; reflexivity. Qed.

Lemma last_opt_C l l' : Forall2 C l l' -> optC (last_opt l) (last_opt l').
Proof.
  induction 1 as [|a b l l' Hab Hl IH]; [exact I|].
  destruct Hl as [|a2 b2 l l' H2 Hl]; [exact Hab|]. exact IH.
Qed.

Lemma removelast_C l l' : Forall2 C l l' -> Forall2 C (removelast l) (removelast l').
Proof.
  induction 1 as [|a b l l' Hab Hl IH]; [constructor|].
  destruct Hl as [|a2 b2 l l' H2 Hl]; [constructor|]. 
  change (Forall2 C (a :: removelast (a2 :: l)) (b :: removelast (b2 :: l'))). constructor; assumption.
Qed.

Lemma Forall2_app_C l1 l1' l2 l2' : Forall2 C l1 l1' -> Forall2 C l2 l2' -> Forall2 C (l1 ++ l2) (l1' ++ l2').
Proof. intros H1 H2. apply Forall2_app; assumption. Qed.


(* flatten: tokens kept, sequences spliced, dicts through __tokens__ *)
Lemma is_cm_tokens : is_cm s_tokens = false.
Proof. reflexivity. Qed.
Lemma is_cm_type : is_cm s_type = false.
Proof. reflexivity. Qed.
Lemma is_cm_config : is_cm s_config = false.
Proof. reflexivity. Qed.
Lemma is_cm_points : is_cm s_points = false.
Proof. reflexivity. Qed.

Lemma flatten_C vs vs' : Forall2 C vs vs' -> rrel (Forall2 C) (flatten vs) (flatten vs').
Proof.
  induction 1 as [|v v' vs vs' Hv _ IH]; cbn [flatten]; [constructor|].
  eapply rrel_bind; [exact IH|]. intros rest rest' Hrest.
  destruct v as [x|t|l|c items]; cinv; cbn [rrel]; try apply rrel_vfail.
  - constructor; [reflexivity|assumption].
  - apply Forall2_app_C; assumption.
  - pose proof (SC_assoc_C s_tokens items items' is_cm_tokens HS) as Ha.
    destruct (assoc s_tokens items) as [a|], (assoc s_tokens items') as [a'|]; cbn [optC] in Ha; try tauto;
      [|apply rrel_vfail].
    destruct a; cinv; cbn [rrel]; try apply rrel_vfail. apply Forall2_app_C; assumption.
Qed.

Lemma create_position_dict_C key vs vs' :
  Forall2 C vs vs' -> create_position_dict key (Some vs') = create_position_dict key (Some vs).
Proof.
  intros H. unfold create_position_dict.
  destruct H as [|v v' vs vs' Hv H]; [reflexivity|].
  assert (HH : Forall2 C (v :: vs) (v' :: vs')) by (constructor; assumption).
  pose proof (flatten_C _ _ HH) as Hf.
  destruct (flatten (v :: vs)) as [fl|e], (flatten (v' :: vs')) as [fl'|e']; cbn [rrel] in Hf; try tauto; cbn [bind].
  - rewrite (mapM_eqC pos_pair fl fl' Hf pos_pair_C). reflexivity.
  - congruence.
Qed.

Lemma attr_key_C x y : C x y -> attr_key y = attr_key x.
Proof.
  intros H. destruct x as [v|t|l|c items]; cinv; try reflexivity.
  destruct l as [|a l]; cinv; [reflexivity|]. destruct a; cinv; reflexivity.
Qed.

Lemma attr_vtoks_C xs ys : Forall2 C xs ys -> rrel (Forall2 C) (attr_vtoks xs) (attr_vtoks ys).
Proof.
  intros H. destruct H as [|x y xs ys Hxy H]; [reflexivity|].
  destruct x as [v|t|l|c items]; cinv; cbn [attr_vtoks rrel];
    try (constructor; [first [reflexivity|apply C_dict; assumption]|assumption]).
  destruct H; [assumption|reflexivity].
Qed.

Lemma C_dict_set2 c k1 v1 v1' k2 v2 v2' (d d' : titems) :
  SC d = SC d' -> C v1 v1' -> C v2 v2' ->
  C (TDict c (od_set k2 v2 (od_set k1 v1 d))) (TDict c (od_set k2 v2' (od_set k1 v1' d'))).
Proof. intros Hd H1 H2. apply C_dict. apply SC_od_set_C; [apply SC_od_set_C|]; assumption. Qed.

Lemma attr_body_C key kn vts vts' : Forall2 C vts vts' -> CR (attr_body key kn vts) (attr_body key kn vts').
Proof.
  intros H. unfold attr_body. rewrite (create_position_dict_C key vts vts' H).
  destruct (create_position_dict key (Some vts)) as [pd|e]; cbn [bind]; [|reflexivity].
  destruct H as [|a a' vts vts' Ha H]; [reflexivity|].
  destruct H as [|b b' vts vts' Hb H].
  - rewrite (tok_of_C _ _ Ha). destruct (tok_of a) as [t|e]; cbn [bind]; [|reflexivity].
    cbn [CR rrel]. apply C_dict_set2; [reflexivity| |reflexivity].
    apply C_seq. constructor; [reflexivity|]. constructor; [assumption|constructor].
  - destruct (str_eqb kn s_config).
    + destruct H; [|reflexivity].
      rewrite (tok_of_C _ _ Ha), (tok_of_C _ _ Hb). apply CR_refl.
    + assert (HH : Forall2 C (a :: b :: vts) (a' :: b' :: vts')) by (repeat constructor; assumption).
      rewrite (mapM_eqC tv_dot_value _ _ HH tv_dot_value_C).
      destruct (mapM tv_dot_value (a :: b :: vts)) as [vals|e]; cbn [bind]; [|reflexivity].
      cbn [CR rrel]. apply C_dict_set2; [reflexivity| |reflexivity].
      apply C_seq. constructor; [reflexivity|exact HH].
Qed.

Lemma cb_attr_C xs ys : Forall2 C xs ys -> CR (cb_attr xs) (cb_attr ys).
Proof.
  intros H. rewrite !cb_attr_stages. destruct H as [|x y xs ys Hxy H]; [reflexivity|].
  rewrite (attr_key_C _ _ Hxy). destruct (attr_key x) as [key|e]; cbn [bind]; [|reflexivity].
  destruct (key_name key) as [kn|e]; cbn [bind]; [|reflexivity].
  eapply rrel_bind; [apply attr_vtoks_C; exact H|]. intros vts vts' Hv. apply attr_body_C. exact Hv.
Qed.


(* check_composite_tokens *)
Definition cct_relC (a b : ptok * list tv) : Prop := fst a = fst b /\ Forall2 C (snd a) (snd b).

Lemma cct_body_C l l' :
  Forall2 C l l' ->
  rrel (Forall2 C)
    (mapM (fun t => match t with
                    | TDict _ items => match assoc s_tokens items with Some x => Ok x | None => vfail end
                    | _ => Ok t
                    end) l)
    (mapM (fun t => match t with
                    | TDict _ items => match assoc s_tokens items with Some x => Ok x | None => vfail end
                    | _ => Ok t
                    end) l').
Proof.
  intros H. eapply rrel_mapM; [exact H|]. intros a a' Ha.
  destruct a as [v|t|l0|c items]; cinv; cbn [rrel]; try reflexivity.
  - apply C_seq. assumption.
  - pose proof (SC_assoc_C s_tokens items items' is_cm_tokens HS) as Hx.
    destruct (assoc s_tokens items), (assoc s_tokens items'); cbn [optC] in Hx; try tauto. reflexivity.
Qed.

Lemma check_composite_tokens_C name xs ys :
  Forall2 C xs ys -> rrel cct_relC (check_composite_tokens name xs) (check_composite_tokens name ys).
Proof.
  intros H. unfold check_composite_tokens.
  destruct H as [|k k' xs ys Hk H]; [reflexivity|].
  destruct H as [|r r' xs ys Hr H]; [reflexivity|].
  assert (HH : Forall2 C (r :: xs) (r' :: ys)) by (constructor; assumption).
  rewrite (tok_of_C _ _ Hk). destruct (tok_of k) as [key|e]; cbn [bind]; [|reflexivity].
  destruct (tok_str key) as [ks|e]; cbn [bind]; [|reflexivity].
  pose proof (last_opt_C _ _ HH) as Hl.
  destruct (last_opt (r :: xs)) as [la|], (last_opt (r' :: ys)) as [la'|]; cbn [optC] in Hl; try tauto;
    [|reflexivity].
  rewrite (tok_of_C _ _ Hl). destruct (tok_of la) as [lastt|e]; cbn [bind]; [|reflexivity].
  destruct (tok_str lastt) as [ls|e]; cbn [bind]; [|reflexivity].
  destruct (_ && _); [|reflexivity].
  eapply rrel_bind; [apply cct_body_C; apply removelast_C; exact HH|].
  intros b b' Hb. cbn [rrel]. split; [reflexivity|exact Hb].
Qed.

Lemma cb_config_C xs ys : Forall2 C xs ys -> CR (cb_config xs) (cb_config ys).
Proof.
  intros H. unfold cb_config.
  destruct H as [|k k' xs ys Hk H]; [reflexivity|].
  destruct H as [|a a' xs ys Ha H]; [reflexivity|].
  destruct H as [|b b' xs ys Hb H]; [reflexivity|].
  destruct H as [|c c' xs ys Hc H]; [|reflexivity].
  rewrite (tok_of_C _ _ Ha), (tok_of_C _ _ Hb).
  destruct (tok_of a) as [ta|e]; cbn [bind]; [|reflexivity].
  destruct (tok_of b) as [tb|e]; cbn [bind]; [|reflexivity].
  destruct (tok_str ta) as [ks|e]; cbn [bind]; [|reflexivity].
  apply cb_attr_C. constructor; [exact Hk|]. apply Forall2_C_refl.
Qed.

Lemma cb_projection_C xs ys : Forall2 C xs ys -> CR (cb_projection xs) (cb_projection ys).
Proof.
  intros H. unfold cb_projection.
  eapply rrel_bind; [apply check_composite_tokens_C; exact H|].
  intros [k1 b1] [k2 b2] [Hk Hb]. cbn [fst snd] in Hk, Hb.
  rewrite (mapM_eqC (fun v => do x <- tv_dot_value v; Ok (clean_string x)) b1 b2 Hb).
  2:{ intros a a' Ha. rewrite (tv_dot_value_C _ _ Ha). reflexivity. }
  destruct (mapM _ b1) as [strs|e]; cbn [bind]; [|reflexivity].
  destruct H as [|k k' xs ys Hk0 H]; [reflexivity|].
  destruct H as [|v1 v1' xs ys Hv1 H]; [reflexivity|].
  rewrite (tok_of_C _ _ Hv1). destruct (tok_of v1) as [vt|e]; cbn [bind]; [|reflexivity].
  apply cb_attr_C. constructor; [exact Hk0|]. apply Forall2_C_refl.
Qed.

Lemma process_pair_lists_C name xs ys : Forall2 C xs ys -> CR (process_pair_lists name xs) (process_pair_lists name ys).
Proof.
  intros H. unfold process_pair_lists.
  eapply rrel_bind; [apply check_composite_tokens_C; exact H|].
  intros [k1 b1] [k2 b2] [Hk Hb]. cbn [fst snd] in Hk, Hb.
  rewrite (mapM_eqC (fun v => do a <- seq_item_value v 0; do b <- seq_item_value v 1; Ok (VList [a; b])) b1 b2 Hb).
  2:{ intros a a' Ha. rewrite !(seq_item_value_C _ _ _ Ha). reflexivity. }
  destruct (mapM _ b1) as [pairs|e]; cbn [bind]; [|reflexivity].
  destruct H as [|k k' xs ys Hk0 H]; [reflexivity|].
  destruct H as [|v1 v1' xs ys Hv1 H]; [reflexivity|].
  destruct v1 as [v|t|l|c items]; cinv; try reflexivity.
  destruct l as [|a l]; cinv; [reflexivity|]. destruct a; cinv; try reflexivity.
  apply cb_attr_C. constructor; [exact Hk0|]. apply Forall2_C_refl.
Qed.

(* expressions: equal results *)
Lemma cb_binary_C xs ys a b c : Forall2 C xs ys -> cb_binary ys a b c = cb_binary xs a b c.
Proof.
  intros H. unfold cb_binary.
  pose proof (fun s => set_first_C xs ys s H) as Hs.
  destruct H as [|x x' xs ys Hx H]; [reflexivity|].
  destruct H as [|y y' xs ys Hy H]; [reflexivity|].
  destruct H as [|z z' xs ys Hz H]; [|reflexivity].
  rewrite (tok_pystr_C _ _ Hx), (tok_pystr_C _ _ Hy).
  destruct (tok_pystr x); cbn [bind]; [|reflexivity].
  destruct (tok_pystr y); cbn [bind]; [|reflexivity]. apply Hs.
Qed.

Lemma cb_comparison_C xs ys : Forall2 C xs ys -> cb_comparison ys = cb_comparison xs.
Proof.
  intros H. unfold cb_comparison.
  pose proof (fun s => set_first_C xs ys s H) as Hs.
  destruct H as [|x x' xs ys Hx H]; [reflexivity|].
  destruct H as [|y y' xs ys Hy H]; [reflexivity|].
  destruct H as [|z z' xs ys Hz H]; [reflexivity|].
  destruct H as [|w w' xs ys Hw H]; [|reflexivity].
  rewrite (tok_pystr_C _ _ Hx), (tok_pystr_C _ _ Hy), (tok_pystr_C _ _ Hz).
  destruct (tok_pystr x); cbn [bind]; [|reflexivity].
  destruct (tok_pystr y); cbn [bind]; [|reflexivity].
  destruct (tok_pystr z); cbn [bind]; [|reflexivity]. apply Hs.
Qed.

Lemma cb_expression_C xs ys : Forall2 C xs ys -> cb_expression ys = cb_expression xs.
Proof.
  intros H. unfold cb_expression. rewrite (mapM_eqC tok_pystr xs ys H tok_pystr_C).
  destruct (mapM tok_pystr xs) as [parts|e]; cbn [bind]; [|reflexivity].
  destruct H as [|x x' xs ys Hx H]; [reflexivity|]. destruct x; cinv; reflexivity.
Qed.

Lemma cb_prefix_C xs ys p b : Forall2 C xs ys -> cb_prefix ys p b = cb_prefix xs p b.
Proof.
  intros H. unfold cb_prefix.
  pose proof (fun s => set_first_C xs ys s H) as Hs.
  destruct H as [|x x' xs ys Hx H]; [reflexivity|].
  rewrite (tok_pystr_C _ _ Hx).
  destruct H; (destruct (_ && _); [reflexivity|]); (destruct (tok_pystr x); cbn [bind]; [apply Hs|reflexivity]).
Qed.

Lemma cb_func_call_C xs ys : Forall2 C xs ys -> cb_func_call ys = cb_func_call xs.
Proof.
  intros H. unfold cb_func_call.
  destruct H as [|x x' xs ys Hx H]; [reflexivity|].
  destruct H as [|y y' xs ys Hy H]; [destruct x; cinv; reflexivity|].
  destruct H as [|z z' xs ys Hz H].
  - destruct x; cinv; try reflexivity. destruct y; cinv; reflexivity.
  - destruct x; cinv; try reflexivity. destruct y as [[]| | |]; cinv; reflexivity.
Qed.

Lemma cb_func_params_C xs ys : Forall2 C xs ys -> cb_func_params ys = cb_func_params xs.
Proof. intros H. unfold cb_func_params. rewrite (mapM_eqC tok_pystr xs ys H tok_pystr_C). reflexivity. Qed.

Lemma cb_attr_bind_C xs ys : Forall2 C xs ys -> cb_attr_bind ys = cb_attr_bind xs.
Proof.
  intros H. unfold cb_attr_bind.
  destruct H as [|x x' xs ys Hx H]; [reflexivity|].
  destruct H as [|y y' xs ys Hy H]; destruct x; cinv; reflexivity.
Qed.

Lemma cb_list_C xs ys : Forall2 C xs ys -> cb_list ys = cb_list xs.
Proof.
  intros H. unfold cb_list.
  pose proof (mapM_eqC (fun x => match x with TTok a => Ok (pk_orig a) | _ => vfail end) xs ys H) as Hm.
  rewrite Hm. 2:{ intros a a' Ha. destruct a; cinv; reflexivity. }
  destruct H as [|x x' xs ys Hx H]; [reflexivity|]. destruct x; cinv; reflexivity.
Qed.

Lemma cb_first_C xs ys : Forall2 C xs ys -> CR (cb_first xs) (cb_first ys).
Proof. intros H. destruct H; [reflexivity|]. cbn. assumption. Qed.

Lemma cb_int_C xs ys : Forall2 C xs ys -> cb_int ys = cb_int xs.
Proof. intros H. unfold cb_int. rewrite (first_tok_C _ _ H). reflexivity. Qed.
Lemma cb_float_C xs ys : Forall2 C xs ys -> cb_float ys = cb_float xs.
Proof. intros H. unfold cb_float. rewrite (first_tok_C _ _ H). reflexivity. Qed.
Lemma cb_bool_C b xs ys : Forall2 C xs ys -> cb_bool b ys = cb_bool b xs.
Proof. intros H. unfold cb_bool. rewrite (first_tok_C _ _ H). reflexivity. Qed.
Lemma cb_hexcolor_C xs ys : Forall2 C xs ys -> cb_hexcolor ys = cb_hexcolor xs.
Proof. intros H. unfold cb_hexcolor. rewrite (first_tok_C _ _ H). reflexivity. Qed.

Lemma Forall2_length_C xs ys : Forall2 C xs ys -> length ys = length xs.
Proof. induction 1; cbn [length]; congruence. Qed.

Lemma cb_len_C n xs ys : Forall2 C xs ys -> CR (cb_len n xs) (cb_len n ys).
Proof.
  intros H. unfold cb_len. rewrite (Forall2_length_C _ _ H).
  destruct (Nat.eqb _ _); [|reflexivity]. cbn. apply C_seq. exact H.
Qed.

Lemma cb_start_C xs ys : Forall2 C xs ys -> CR (cb_start xs) (cb_start ys).
Proof.
  intros H. unfold cb_start.
  assert (HS : C (TSeq xs) (TSeq ys)) by (apply C_seq; exact H).
  destruct H as [|x x' xs ys Hx H]; [exact HS|]. destruct H; [exact Hx|exact HS].
Qed.

Lemma tv_list_append_C x x' e e' : C x x' -> C e e' -> CR (tv_list_append x e) (tv_list_append x' e').
Proof.
  intros Hx He. destruct x as [v|t|l|c items]; cinv; try reflexivity.
  - destruct v; try reflexivity. destruct e; cinv; cbn [tv_list_append CR rrel].
    + reflexivity.
    + apply C_seq. apply Forall2_app_C; [apply Forall2_C_refl|]. repeat constructor.
    + apply C_seq. apply Forall2_app_C; [apply Forall2_C_refl|]. constructor; [apply C_seq; assumption|constructor].
    + apply C_seq. apply Forall2_app_C; [apply Forall2_C_refl|]. constructor; [apply C_dict; assumption|constructor].
  - cbn [tv_list_append CR rrel]. apply C_seq. apply Forall2_app_C; [assumption|]. constructor; [assumption|constructor].
Qed.

Lemma cfg_cur_C d d' : SC d = SC d' -> SC (cfg_cur d) = SC (cfg_cur d').
Proof.
  intros H. unfold cfg_cur, ci_get. rewrite lower_config.
  pose proof (SC_assoc_C s_config d d' is_cm_config H) as Ha.
  destruct (assoc s_config d) as [x|], (assoc s_config d') as [x'|]; cbn [optC] in Ha; try contradiction; [|reflexivity].
  destruct x; cinv; try reflexivity. assumption.
Qed.

Lemma cfg_fold_C cfg : forall cur cur', SC cur = SC cur' -> SC (cfg_fold cfg cur) = SC (cfg_fold cfg cur').
Proof.
  induction cfg as [|kv cfg IH]; intros cur cur' H; cbn [cfg_fold fold_left]; [exact H|].
  apply IH. unfold ci_set. apply SC_od_set_C; [exact H|reflexivity].
Qed.

Lemma points_new_C d d' newv r r' :
  SC d = SC d' -> points_new d newv = Ok r -> points_new d' newv = Ok r' -> SC r = SC r'.
Proof.
  intros H H1 H2. unfold points_new, ci_get in H1, H2. rewrite lower_points in H1, H2.
  pose proof (SC_assoc_C s_points d d' is_cm_points H) as Ha.
  destruct (assoc s_points d) as [x|], (assoc s_points d') as [x'|]; cbn [optC] in Ha; try contradiction.
  - destruct x as [ex| | |]; try discriminate. cinv.
    destruct (calculate_depth ex) as [dep|e]; cbn [bind] in H1, H2; [|discriminate].
    destruct (if (dep =? 2)%Z then VList [ex] else ex); try discriminate.
    injection H1 as <-. injection H2 as <-. unfold ci_set. apply SC_od_set_C; [exact H|reflexivity].
  - injection H1 as <-. injection H2 as <-. unfold ci_set. apply SC_od_set_C; [exact H|reflexivity].
Qed.
