(* Fuel adequacy: the explicit fuel of the model (the scanner's skip loop, the
   parse loop, the bound on consecutive reductions, the repeat loop of the
   matcher) never runs out, for EVERY text.

   1. lexer progress: a pattern that is not [nullable] (Proofs/SepFacts.v)
      consumes at least one character; all terminal patterns of all scanners of
      the generated grammar are non-nullable (boolean check), hence every token
      is non-empty, the silent [LEof] of [next_token] at fuel 0 and the
      [Err OutOfFuel] of [parse_loop] at fuel 0 are unreachable from
      [parse_text];
   2. reduce fuel: a boolean validator of the LALR table ([reduce_fuel_ok])
      under which [feed g pp (reduce_fuel g ss) ...] never answers
      [FErr OutOfFuel];
   3. [parse_text] never answers [Err OutOfFuel] (any grammar passing the two
      validators; then the generated grammar), and C11 without the fuel
      disjunct ([loads_errors_total]);
   1b. the matcher's own fuel: the answer of [rmatch r fuel s k] does not depend
      on [fuel] once [fuel >= length (snd s)]; consequently [next_token],
      [ctx_next], [parse_loop] give the same answer for every fuel above the
      remaining length, and [feed] for every fuel above [reduce_fuel];
   4. the silent fuel defaults of the transformer stage (calculate_depth,
      assign_comments, the float and int conversions) are never taken by the
      model's own calls.

   Every obligation on the generated grammar is a separate vm_compute lemma;
   everything else is proved for an arbitrary grammar passing the validators. *)
From MF Require Import Lib.Base Lib.Regex Model.GrammarTypes Model.Lexer Model.LR
  Proofs.RegexFacts Proofs.SepFacts Proofs.LRFacts.
Open Scope N_scope.

(* ================================================================ 1. lexer progress *)

(* s' is reached from s by consuming something / something non-empty *)
Definition reach (s s' : inp) : Prop := exists lex, consumed s s' lex.
Definition adv (s s' : inp) : Prop := exists lex, consumed s s' lex /\ lex <> [].

Lemma reach_refl s : reach s s.
Proof. exists []. apply consumed_refl. Qed.

Lemma reach_trans s1 s2 s3 : reach s1 s2 -> reach s2 s3 -> reach s1 s3.
Proof. intros (a & Ha) (b & Hb). exists (a ++ b). eapply consumed_trans; eassumption. Qed.

Lemma adv_reach s1 s2 s3 : adv s1 s2 -> reach s2 s3 -> adv s1 s3.
Proof.
  intros (a & Ha & Na) (b & Hb). exists (a ++ b). split; [eapply consumed_trans; eassumption|].
  destruct a; [congruence|discriminate].
Qed.

Lemma reach_adv s1 s2 s3 : reach s1 s2 -> adv s2 s3 -> adv s1 s3.
Proof.
  intros (a & Ha) (b & Hb & Nb). exists (a ++ b). split; [eapply consumed_trans; eassumption|].
  destruct a; [exact Nb|discriminate].
Qed.

Lemma adv_is_reach s s' : adv s s' -> reach s s'.
Proof. intros (l & H & _). exists l. exact H. Qed.

Lemma reach_length s s' : reach s s' -> (length (snd s') <= length (snd s))%nat.
Proof. intros (l & H & _). rewrite H, app_length. lia. Qed.

Lemma adv_length s s' : adv s s' -> (length (snd s') < length (snd s))%nat.
Proof.
  intros (l & [H _] & Hn). rewrite H, app_length. destruct l; [congruence|cbn [length]; lia].
Qed.

Lemma adv_offset s s' : adv s s' -> fst s < fst s'.
Proof.
  intros (l & [_ H] & Hn). rewrite H. destruct l; [congruence|cbn [length]; lia].
Qed.

(* a reached state at the same offset is the same state *)
Lemma reach_same_offset s s' : reach s s' -> fst s' = fst s -> s' = s.
Proof.
  intros (l & H1 & H2) E. destruct l as [|c l].
  - cbn [app] in H1. destruct s, s'; cbn [fst snd] in *. congruence.
  - cbn [length] in H2. lia.
Qed.

Lemma reach_moved s s' : reach s s' -> fst s' <> fst s -> adv s s'.
Proof.
  intros (l & H) E. exists l. split; [exact H|]. intros ->. destruct H as [_ H]. cbn [length] in H. lia.
Qed.

Definition all_true (_ : N) : bool := true.

Lemma good_reach s s' : good all_true s s' <-> reach s s'.
Proof.
  split.
  - intros (l & H & _). exists l. exact H.
  - intros (l & H). exists l. split; [exact H|]. clear H. induction l as [|c l IH]; [reflexivity|exact IH].
Qed.

(* whatever the matcher hands to its continuation is reached from the start *)
Lemma rmatch_reach r A fuel s (k : inp -> option A) a :
  rmatch r fuel s k = Some a -> exists s', reach s s' /\ k s' = Some a.
Proof.
  intros H. apply (rmatch_sound all_true r (only_P_true r) A fuel s k a) in H.
  destruct H as (s' & G & K). exists s'. split; [apply good_reach; exact G|exact K].
Qed.

Lemma rep_loop_reach {A} r fuel0 greedy mn mx fuel cnt s (k : inp -> option A) a :
  rep_loop (fun s0 k0 => rmatch r fuel0 s0 k0) greedy mn mx fuel cnt s k = Some a ->
  exists s', reach s s' /\ k s' = Some a.
Proof.
  intros H. eapply (rep_loop_sound all_true) in H.
  - destruct H as (s' & G & K). exists s'. split; [apply good_reach; exact G|exact K].
  - intros s0 k0 a0 H0. apply (rmatch_sound all_true r (only_P_true r) A fuel0 s0 k0 a0) in H0. exact H0.
Qed.

(* one unfolding of the repeat loop *)
Lemma rep_loop_unfold {A} m greedy mn mx fuel cnt s (k : inp -> option A) :
  rep_loop m greedy mn mx (S fuel) cnt s k =
  let more :=
    if match mx with Some x => Nat.ltb cnt x | None => true end
    then m s (fun s' => if (fst s' =? fst s) && Nat.leb mn cnt then None
                        else rep_loop m greedy mn mx fuel (S cnt) s' k)
    else None in
  if Nat.ltb cnt mn then more
  else if greedy then match more with Some a => Some a | None => k s end
       else match k s with Some a => Some a | None => more end.
Proof. reflexivity. Qed.

(* [nullable] is sound: a non-nullable pattern consumes at least one character *)
Lemma nonnull_adv r :
  nullable r = false ->
  forall A fuel s (k : inp -> option A) a,
    rmatch r fuel s k = Some a -> exists s', adv s s' /\ k s' = Some a.
Proof.
  induction r as [|neg rg|a IHa b IHb|a IHa b IHb|g mn mx r1 IH|r1 IH| |];
    cbn [nullable]; intros Hn A fuel s k x H; try discriminate; cbn [rmatch] in H.
  - destruct s as [pos [|c rest]]; cbn [snd fst] in H; [discriminate|].
    destruct (xorb neg (in_ranges c rg)); [|discriminate].
    exists (pos + 1, rest). split; [|exact H].
    exists [c]. split; [|discriminate]. split; cbn; [reflexivity|lia].
  - destruct (nullable a) eqn:Na.
    + cbn [andb] in Hn. apply rmatch_reach in H. destruct H as (s1 & R1 & H1).
      apply (IHb Hn) in H1. destruct H1 as (s2 & A2 & H2).
      exists s2. split; [eapply reach_adv; eassumption|exact H2].
    + apply (IHa eq_refl) in H. destruct H as (s1 & A1 & H1).
      apply rmatch_reach in H1. destruct H1 as (s2 & R2 & H2).
      exists s2. split; [eapply adv_reach; eassumption|exact H2].
  - apply orb_false_iff in Hn. destruct Hn as [Na Nb].
    destruct (rmatch a fuel s k) as [y|] eqn:E.
    + injection H as <-. apply (IHa Na) in E. exact E.
    + apply (IHb Nb) in H. exact H.
  - destruct mn as [|mn]; [discriminate|].
    rewrite rep_loop_unfold in H. cbv zeta in H.
    change (Nat.ltb 0 (S mn)) with true in H. cbv iota in H.
    destruct (match mx with Some x0 => Nat.ltb 0 x0 | None => true end); [|discriminate].
    apply (IH Hn) in H. destruct H as (s1 & A1 & H1).
    destruct ((fst s1 =? fst s) && Nat.leb (S mn) 0); [discriminate|].
    apply rep_loop_reach in H1. destruct H1 as (s2 & R2 & H2).
    exists s2. split; [eapply adv_reach; eassumption|exact H2].
Qed.

Theorem nonnull_consumes r fuel s s' :
  nullable r = false -> rx_match r fuel s = Some s' ->
  fst s' > fst s /\ (length (snd s') < length (snd s))%nat.
Proof.
  intros Hn H. unfold rx_match in H. apply (nonnull_adv r Hn) in H.
  destruct H as (s1 & A1 & [= ->]). split; [apply N.lt_gt, adv_offset; exact A1|apply adv_length; exact A1].
Qed.

(* ---------------------------------------------------------------- scanners *)
Definition lexer_nonnull (lx : lexer_info) : bool :=
  forallb (fun p => negb (nullable (snd p))) (lx_terms lx).

Definition lexers_nonnull (g : grammar) : bool :=
  forallb lexer_nonnull (g_lexers g) && lexer_nonnull (g_root_lexer g).

Lemma scan_adv terms fuel s ty s' :
  forallb (fun p => negb (nullable (snd p))) terms = true ->
  scan terms fuel s = Some (ty, s') -> adv s s'.
Proof.
  induction terms as [|[ty0 r0] terms IH]; cbn [scan forallb snd]; [discriminate|].
  intros Hall. apply andb_true_iff in Hall. destruct Hall as [H0 Hall].
  destruct (rx_match r0 fuel s) as [s1|] eqn:E.
  - intros [= <- <-]. unfold rx_match in E.
    apply (nonnull_adv r0) in E; [|destruct (nullable r0); [discriminate|reflexivity]].
    destruct E as (s2 & A2 & [= ->]). exact A2.
  - apply IH. exact Hall.
Qed.

(* every call of next_token with fuel above the remaining length: a token
   strictly shortens the rest, end of input is genuine, an error leaves the
   state somewhere in the remaining text *)
Theorem next_token_progress g wc lx :
  lexer_nonnull lx = true ->
  forall fuel st,
    (length (ls_rest st) < fuel)%nat ->
    match next_token g wc lx fuel st with
    | LTok _ st' => (length (ls_rest st') < length (ls_rest st))%nat
    | LEof st' => ls_rest st' = []
    | LBad st' => (length (ls_rest st') <= length (ls_rest st))%nat
    end.
Proof.
  intros Hok. unfold lexer_nonnull in Hok.
  induction fuel as [|fuel IH]; intros st Hlt; [lia|]. cbn [next_token].
  destruct (ls_rest st) as [|c0 rest0] eqn:Hrest; [exact Hrest|].
  rewrite <- Hrest in *.
  destruct (scan (lx_terms lx) (S fuel) (lc_pos (ls_lc st), ls_rest st)) as [[ty [endpos rest']]|] eqn:Hs;
    [|lia].
  apply (scan_adv _ _ _ _ _ Hok) in Hs. apply adv_length in Hs. cbn [snd] in Hs.
  destruct (memN ty (lx_ignore lx)).
  - match goal with
    | |- match next_token _ _ _ _ ?S with _ => _ end =>
        specialize (IH S); cbn [ls_rest] in IH;
        destruct (next_token g wc lx fuel S) as [t st'|st'|st']
    end.
    + assert (Hf : (length rest' < fuel)%nat) by lia. specialize (IH Hf). lia.
    + apply IH. lia.
    + assert (Hf : (length rest' < fuel)%nat) by lia. specialize (IH Hf). lia.
  - cbn [ls_rest]. exact Hs.
Qed.

(* the silent fuel-0 answer is never what an LEof of a sufficiently fuelled call means *)
Corollary next_token_eof_genuine g wc lx fuel st st' :
  lexer_nonnull lx = true -> (length (ls_rest st) < fuel)%nat ->
  next_token g wc lx fuel st = LEof st' -> ls_rest st' = [].
Proof.
  intros Hok Hlt H. pose proof (next_token_progress g wc lx Hok fuel st Hlt) as P.
  rewrite H in P. exact P.
Qed.

Theorem ctx_next_progress g wc state fuel st :
  lexers_nonnull g = true -> (length (ls_rest st) < fuel)%nat ->
  match ctx_next g wc state fuel st with
  | CTok _ st' => (length (ls_rest st') < length (ls_rest st))%nat
  | CEof st' => ls_rest st' = []
  | _ => True
  end.
Proof.
  intros Hok Hlt. unfold lexers_nonnull in Hok. apply andb_true_iff in Hok. destruct Hok as [Hall _].
  rewrite forallb_forall in Hall. unfold ctx_next.
  destruct (nth_N (g_lexer_of_state g) state) as [li|]; [|exact I].
  destruct (nth_N (g_lexers g) li) as [lx|] eqn:Elx; [|exact I].
  pose proof (next_token_progress g wc lx (Hall lx (nth_N_In' _ _ _ Elx)) fuel st Hlt) as P.
  destruct (next_token g wc lx fuel st) as [t st'|st'|stb]; [exact P|exact P|].
  destruct (next_token g wc (g_root_lexer g) fuel stb); exact I.
Qed.

(* ================================================================ 1b. the matcher's own fuel *)
(* a matcher only looks at its continuation on states reached from its start *)
Definition kext {A} (m : inp -> (inp -> option A) -> option A) : Prop :=
  forall s k k', (forall s', reach s s' -> k s' = k' s') -> m s k = m s k'.

Lemma rep_loop_ext {A} (m : inp -> (inp -> option A) -> option A) greedy mn mx :
  kext m -> forall fuel cnt, kext (fun s k => rep_loop m greedy mn mx fuel cnt s k).
Proof.
  intros Hm. induction fuel as [|fuel IH]; intros cnt s k k' Hk; [reflexivity|].
  rewrite !rep_loop_unfold. cbv zeta. rewrite (Hk s (reach_refl s)).
  match goal with |- (if _ then ?M1 else _) = (if _ then ?M2 else _) => assert (E : M1 = M2) end.
  { destruct (match mx with Some x => Nat.ltb cnt x | None => true end); [|reflexivity].
    apply Hm. intros s' Hr. cbv beta. destruct ((fst s' =? fst s) && Nat.leb mn cnt); [reflexivity|].
    apply IH. intros s2 Hr2. apply Hk. eapply reach_trans; eassumption. }
  rewrite E. reflexivity.
Qed.

Lemma rmatch_ext r : forall A fuel, kext (fun s (k : inp -> option A) => rmatch r fuel s k).
Proof.
  induction r as [|neg rg|a IHa b IHb|a IHa b IHb|g mn mx r1 IH|r1 IH| |];
    intros A fuel s k k' Hk; cbn [rmatch].
  - apply Hk, reach_refl.
  - destruct s as [pos [|c rest]]; cbn [snd fst]; [reflexivity|].
    destruct (xorb neg (in_ranges c rg)); [|reflexivity].
    apply Hk. exists [c]. split; cbn; [reflexivity|lia].
  - apply IHa. intros s1 R1. apply IHb. intros s2 R2. apply Hk. eapply reach_trans; eassumption.
  - rewrite (IHa A fuel s k k' Hk), (IHb A fuel s k k' Hk). reflexivity.
  - apply (rep_loop_ext (fun s0 k0 => rmatch r1 fuel s0 k0) g mn mx (IH A fuel)). exact Hk.
  - rewrite (Hk s (reach_refl s)). reflexivity.
  - rewrite (Hk s (reach_refl s)). reflexivity.
  - rewrite (Hk s (reach_refl s)). reflexivity.
Qed.

(* two repeat loops over matchers that agree on short enough inputs agree as
   soon as both have fuel for the forced iterations, one iteration per remaining
   character and the final hand-over *)
Lemma rep_loop_fuel {A} (m1 m2 : inp -> (inp -> option A) -> option A) greedy mn mx (bound : nat) :
  kext m2 ->
  (forall (s' : inp) k, (length (snd s') <= bound)%nat -> m1 s' k = m2 s' k) ->
  forall F1 F2 cnt (s : inp) k,
    (length (snd s) <= bound)%nat ->
    ((mn - cnt) + length (snd s) + 1 <= F1)%nat ->
    ((mn - cnt) + length (snd s) + 1 <= F2)%nat ->
    rep_loop m1 greedy mn mx F1 cnt s k = rep_loop m2 greedy mn mx F2 cnt s k.
Proof.
  intros Hext H12.
  induction F1 as [|F1 IH]; intros F2 cnt s k Hb H1 H2; [lia|].
  destruct F2 as [|F2]; [lia|].
  rewrite !rep_loop_unfold. cbv zeta.
  match goal with |- (if _ then ?M1 else _) = (if _ then ?M2 else _) => assert (E : M1 = M2) end.
  { destruct (match mx with Some x => Nat.ltb cnt x | None => true end); [|reflexivity].
    rewrite (H12 s _ Hb). apply Hext. intros s' Hr. cbv beta.
    destruct ((fst s' =? fst s) && Nat.leb mn cnt) eqn:Ec; [reflexivity|].
    pose proof (reach_length _ _ Hr) as Hl.
    apply andb_false_iff in Ec. destruct Ec as [Ec|Ec].
    - apply N.eqb_neq in Ec. pose proof (adv_length _ _ (reach_moved _ _ Hr Ec)) as Hl2.
      apply IH; lia.
    - apply Nat.leb_gt in Ec. apply IH; lia. }
  rewrite E. reflexivity.
Qed.

(* the answer of the matcher does not depend on the fuel once the fuel covers
   the remaining input: the [O => None] branch of [rep_loop] is never the reason
   for a failure *)
Theorem rmatch_fuel_stable r :
  forall A f1 f2 (s : inp) (k : inp -> option A),
    (length (snd s) <= f1)%nat -> (length (snd s) <= f2)%nat ->
    rmatch r f1 s k = rmatch r f2 s k.
Proof.
  induction r as [|neg rg|a IHa b IHb|a IHa b IHb|g mn mx r1 IH|r1 IH| |];
    intros A f1 f2 s k H1 H2; cbn [rmatch]; try reflexivity.
  - rewrite (IHa A f1 f2 s _ H1 H2). apply rmatch_ext. intros s1 R1.
    pose proof (reach_length _ _ R1). apply IHb; lia.
  - rewrite (IHa A f1 f2 s k H1 H2), (IHb A f1 f2 s k H1 H2). reflexivity.
  - apply (rep_loop_fuel _ _ g mn mx (length (snd s))).
    + apply rmatch_ext.
    + intros s1 k1 Hl. apply IH; lia.
    + lia.
    + lia.
    + lia.
  - rewrite (IH unit f1 f2 s _ H1 H2). reflexivity.
Qed.

Corollary rx_match_fuel_stable r f1 f2 (s : inp) :
  (length (snd s) <= f1)%nat -> (length (snd s) <= f2)%nat ->
  rx_match r f1 s = rx_match r f2 s.
Proof. intros H1 H2. unfold rx_match. apply rmatch_fuel_stable; assumption. Qed.

Lemma scan_fuel_stable terms f1 f2 (s : inp) :
  (length (snd s) <= f1)%nat -> (length (snd s) <= f2)%nat ->
  scan terms f1 s = scan terms f2 s.
Proof.
  intros H1 H2. induction terms as [|[ty r] terms IH]; cbn [scan]; [reflexivity|].
  rewrite (rx_match_fuel_stable r f1 f2 s H1 H2), IH. reflexivity.
Qed.

(* ================================================================ 2. reduce fuel *)

(* Weights.  [hs] gives every grammar symbol a height (for a symbol X: the
   length of the longest chain of unit rules A -> X, B -> A, ... above it) and
   [us] gives every state the height of its accessing symbol.  The proof below
   does not depend on how the two lists were computed: the validator checks
   exactly what it needs of them. *)
Definition nthd (l : list nat) (n : N) : nat := nth (N.to_nat n) l O.

Definition n_symbols (g : grammar) : nat := (length (g_term_names g) + length (g_nonterm_names g))%nat.

Definition unit_step (g : grammar) (h : list nat) : list nat :=
  map (fun i =>
         let x := N.of_nat i in
         fold_left (fun acc r =>
                      match r_expansion r with
                      | [y] => if y =? x then Nat.max acc (S (nthd h (r_origin r))) else acc
                      | _ => acc
                      end) (g_rules g) O)
      (seq 0 (n_symbols g)).

Definition unit_heights (g : grammar) : list nat :=
  Nat.iter (S (length (g_nonterm_names g))) (unit_step g) [].

Fixpoint find_acc_row (s : N) (row : list (N * action)) : option N :=
  match row with
  | [] => None
  | (x, Shift t) :: row' => if t =? s then Some x else find_acc_row s row'
  | _ :: row' => find_acc_row s row'
  end.

Fixpoint find_acc (s : N) (tab : list (list (N * action))) : option N :=
  match tab with
  | [] => None
  | row :: tab' => match find_acc_row s row with Some x => Some x | None => find_acc s tab' end
  end.

Definition state_heights (g : grammar) (hs : list nat) : list nat :=
  map (fun s => match find_acc s (g_table g) with Some x => nthd hs x | None => O end) (n_states g).

(* one table entry of state s *)
Definition entry_ok (g : grammar) (hs us : list nat) (s : N) (e : N * action) : bool :=
  match snd e with
  | Shift ns => Nat.leb (nthd us ns) (nthd hs (fst e))
  | Reduce ri =>
      match nth_N (g_rules g) ri with
      | None => true
      | Some r =>
          match r_expansion r with
          | [] =>
              (* after the reduction by an empty rule the driver does not reduce
                 again on the same look-ahead *)
              match lookup_action g s (r_origin r) with
              | Some (Shift ns) =>
                  match lookup_action g ns (fst e) with Some (Reduce _) => false | _ => true end
              | _ => true
              end
          | [_] => Nat.ltb (nthd hs (r_origin r)) (nthd us s)
          | _ :: _ :: _ => true
          end
      end
  end.

Definition weights_ok (g : grammar) (hs us : list nat) : bool :=
  forallb (fun s => match nth_N (g_table g) s with
                    | Some row => forallb (entry_ok g hs us s) row
                    | None => true
                    end) (n_states g)
  && Nat.leb (2 * S (list_max us)) (S (S (length (g_rules g))))
  && Nat.leb 1 (length (g_rules g)).

Definition reduce_fuel_ok (g : grammar) : bool :=
  let hs := unit_heights g in
  let us := state_heights g hs in
  weights_ok g hs us.

Section ReduceFuel.
  Variable g : grammar.
  Variables hs us : list nat.
  Hypothesis Hok : weights_ok g hs us = true.

  Let C : nat := S (list_max us).
  Definition wt (s : N) : nat := (S (list_max us) + nthd us s)%nat.
  Definition phi (ss : list N) : nat := fold_right (fun s a => (wt s + a)%nat) O ss.

  Lemma nthd_le s : (nthd us s <= list_max us)%nat.
  Proof.
    unfold nthd. destruct (nth_in_or_default (N.to_nat s) us O) as [Hin | Hd]; [|rewrite Hd; lia].
    pose proof (proj1 (list_max_le us (list_max us)) (Nat.le_refl _)) as HF.
    rewrite Forall_forall in HF. apply HF. exact Hin.
  Qed.

  Lemma wt_lo s : (C <= wt s)%nat.
  Proof. unfold wt, C. lia. Qed.

  Lemma wt_hi s : (wt s < 2 * C)%nat.
  Proof. unfold wt, C. pose proof (nthd_le s). lia. Qed.

  Lemma phi_app a b : phi (a ++ b) = (phi a + phi b)%nat.
  Proof. induction a as [|x a IH]; cbn [phi fold_right app]; [reflexivity|]. fold (phi (a ++ b)). fold (phi a). lia. Qed.

  Lemma phi_lo ss : (C * length ss <= phi ss)%nat.
  Proof.
    induction ss as [|x ss IH]; cbn [phi fold_right length]; [lia|]. fold (phi ss).
    pose proof (wt_lo x). lia.
  Qed.

  Lemma phi_hi ss : (phi ss <= (2 * C - 1) * length ss)%nat.
  Proof.
    induction ss as [|x ss IH]; cbn [phi fold_right length]; [lia|]. fold (phi ss).
    pose proof (wt_hi x). nia.
  Qed.

  Lemma pop_n_app {A} n : forall (l p r : list A), pop_n n l = Some (p, r) -> l = p ++ r /\ length p = n.
  Proof.
    induction n as [|n IH]; intros l p r H; cbn [pop_n] in H.
    - injection H as <- <-. split; reflexivity.
    - destruct l as [|x l]; [discriminate|].
      destruct (pop_n n l) as [[p0 r0]|] eqn:E; [|discriminate]. injection H as <- <-.
      destruct (IH _ _ _ E) as [-> <-]. split; reflexivity.
  Qed.

  Lemma entry_checked s a act :
    lookup_action g s a = Some act -> entry_ok g hs us s (a, act) = true.
  Proof.
    unfold lookup_action. intros H.
    destruct (nth_N (g_table g) s) as [row|] eqn:Er; [|discriminate].
    unfold weights_ok in Hok. apply andb_true_iff in Hok. destruct Hok as [Hok1 _].
    apply andb_true_iff in Hok1. destruct Hok1 as [Hall _].
    rewrite forallb_forall in Hall.
    specialize (Hall s (in_n_states g s (nth_N_lt _ _ _ Er))). rewrite Er in Hall.
    rewrite forallb_forall in Hall. apply Hall. apply assocN_In. exact H.
  Qed.

  Lemma rules_bound : (2 * C <= S (S (length (g_rules g))))%nat /\ (1 <= length (g_rules g))%nat.
  Proof.
    unfold weights_ok in Hok. apply andb_true_iff in Hok. destruct Hok as [Hok1 H2].
    apply andb_true_iff in Hok1. destruct Hok1 as [_ H1].
    apply Nat.leb_le in H1. apply Nat.leb_le in H2. unfold C. split; assumption.
  Qed.

  Lemma apply_filter_not_fuel inc cs e : apply_filter inc cs = Err e -> e <> OutOfFuel.
  Proof.
    revert e; induction inc as [|[i ex] inc IH]; intros e H; cbn [apply_filter] in H; [discriminate|].
    destruct (nth_error cs i) as [c|]; [|injection H as <-; discriminate].
    destruct (apply_filter inc cs) as [rest|e0]; cbn [bind] in H; [|injection H as <-; apply IH; reflexivity].
    destruct ex; [|discriminate]. destruct c; [|discriminate]. injection H as <-. discriminate.
  Qed.

  Lemma build_not_fuel pp r cs e : build pp r cs = Err e -> e <> OutOfFuel.
  Proof.
    unfold build. intros H.
    destruct (r_filter r) as [inc|].
    - destruct (apply_filter inc cs) as [f|e0] eqn:E; cbn [bind] in H; [discriminate|].
      injection H as <-. eapply apply_filter_not_fuel. exact E.
    - discriminate.
  Qed.

  (* a state whose action on the look-ahead is not a reduction needs one unit of fuel *)
  Lemma feed_no_reduce pp tok is_end fuel s ss vs :
    match lookup_action g s (ttype tok) with Some (Reduce _) => False | _ => True end ->
    feed g pp (S fuel) tok is_end (s :: ss) vs <> FErr OutOfFuel.
  Proof.
    intros H. cbn [feed].
    destruct (lookup_action g s (ttype tok)) as [[ns|ri]|]; [|contradiction|discriminate].
    destruct is_end; discriminate.
  Qed.

  Theorem feed_fuel_enough pp tok is_end :
    forall fuel ss vs,
      (phi ss + 2 <= fuel)%nat ->
      feed g pp fuel tok is_end ss vs <> FErr OutOfFuel.
  Proof.
    induction fuel as [|fuel IH]; intros ss vs Hf; [lia|]. cbn [feed].
    destruct ss as [|state ss']; [discriminate|].
    destruct (lookup_action g state (ttype tok)) as [[ns|ri]|] eqn:Eact; [|  |discriminate].
    { destruct is_end; discriminate. }
    destruct (nth_N (g_rules g) ri) as [r|] eqn:Er; [|discriminate].
    destruct (pop_n (length (r_expansion r)) (state :: ss')) as [[p1 ss1]|] eqn:Ep; [|discriminate].
    destruct (pop_n (length (r_expansion r)) vs) as [[popped vs1]|]; [|discriminate].
    destruct (build pp r (rev popped)) as [value|e0] eqn:Eb.
    2:{ intros [= ->]. eapply build_not_fuel; [exact Eb|reflexivity]. }
    destruct ss1 as [|top ss1']; [discriminate|].
    destruct (lookup_action g top (r_origin r)) as [[ns|?]|] eqn:Egoto; try discriminate.
    destruct (is_end && (ns =? g_end g)); [discriminate|].
    pose proof (entry_checked _ _ _ Eact) as Hred. unfold entry_ok in Hred. cbn [snd fst] in Hred.
    rewrite Er in Hred.
    pose proof (entry_checked _ _ _ Egoto) as Hgo. unfold entry_ok in Hgo. cbn [snd fst] in Hgo.
    apply Nat.leb_le in Hgo.
    destruct (pop_n_app _ _ _ _ Ep) as [Happ Hlen].
    destruct (r_expansion r) as [|x1 [|x2 rest]].
    - (* empty rule: the goto state does not reduce on this look-ahead *)
      cbn [length] in Hlen. destruct p1; [|discriminate]. cbn [app] in Happ.
      injection Happ as <- <-. rewrite Egoto in Hred.
      destruct fuel as [|fuel]; [lia|]. apply feed_no_reduce.
      destruct (lookup_action g ns (ttype tok)) as [[?|?]|]; [exact I|discriminate|exact I].
    - (* unit rule: the new top is strictly lighter than the popped one *)
      cbn [length] in Hlen. destruct p1 as [|q [|q2 p1]]; try discriminate. cbn [app] in Happ.
      injection Happ as <- <-. apply Nat.ltb_lt in Hred.
      apply IH. cbn [phi fold_right] in *. fold (phi ss1') in *. unfold wt in *. lia.
    - (* two or more symbols: at least two weights leave, one arrives *)
      apply IH. rewrite Happ in Hf. rewrite phi_app in Hf.
      pose proof (phi_lo p1) as Hp. rewrite Hlen in Hp. cbn [length] in Hp.
      pose proof (wt_hi ns) as Hns.
      change (phi (ns :: top :: ss1')) with (wt ns + phi (top :: ss1'))%nat. nia.
  Qed.

  (* the model's own bound is enough *)
  Theorem reduce_fuel_enough pp tok is_end ss vs :
    feed g pp (reduce_fuel g ss) tok is_end ss vs <> FErr OutOfFuel.
  Proof.
    apply feed_fuel_enough. unfold reduce_fuel.
    pose proof (phi_hi ss) as Hh. destruct rules_bound as [B1 B2]. nia.
  Qed.
End ReduceFuel.

Theorem reduce_fuel_adequate g pp tok is_end ss vs :
  reduce_fuel_ok g = true ->
  feed g pp (reduce_fuel g ss) tok is_end ss vs <> FErr OutOfFuel.
Proof.
  intros H. unfold reduce_fuel_ok in H. cbv zeta in H.
  exact (reduce_fuel_enough g _ _ H pp tok is_end ss vs).
Qed.

(* ================================================================ 3. the parse loop *)
From MF Require Import Lib.PyNum Model.Case Model.Transformer Model.Api Proofs.C11 Proofs.GrammarFacts Gen.Grammar.

(* each iteration consumes at least one character or is the last one *)
Theorem parse_loop_fuel g h wc :
  lexers_nonnull g = true -> reduce_fuel_ok g = true ->
  forall fuel st ss vs acc,
    (length (ls_rest st) < fuel)%nat ->
    snd (parse_loop g h wc fuel st ss vs acc) <> Err OutOfFuel.
Proof.
  intros Hlex Hred.
  induction fuel as [|fuel IH]; intros st ss vs acc Hlt H; [lia|]. cbn [parse_loop] in H.
  destruct ss as [|state ss']; [discriminate|].
  pose proof (ctx_next_progress g wc state (S fuel) st Hlex Hlt) as P.
  destruct (ctx_next g wc state (S fuel) st) as [t st'|st'|l c|t].
  - destruct (hook_total h t vs) as [t' Eh]. rewrite Eh in H.
    destruct (feed g wc (reduce_fuel g (state :: ss')) t' false (state :: ss') vs) as [ss2 vs2|v|e0] eqn:Ef.
    + eapply IH; [|exact H]. lia.
    + discriminate.
    + cbn [snd] in H. injection H as ->.
      eapply reduce_fuel_adequate; [exact Hred|exact Ef].
  - match type of H with context [feed g wc ?F ?T true ?SS vs] =>
      destruct (feed g wc F T true SS vs) as [ss2 vs2|v|e0] eqn:Ef end.
    + discriminate.
    + discriminate.
    + cbn [snd] in H. injection H as ->.
      eapply reduce_fuel_adequate; [exact Hred|exact Ef].
  - discriminate.
  - discriminate.
Qed.

Theorem parse_text_fuel g h wc text :
  lexers_nonnull g = true -> reduce_fuel_ok g = true ->
  parse_text g h wc text <> Err OutOfFuel.
Proof.
  intros Hlex Hred. unfold parse_text, parse_text_tr.
  apply parse_loop_fuel; [exact Hlex|exact Hred|]. cbn [ls0 ls_rest]. lia.
Qed.

(* ---------------------------------------------------------------- the fuel is irrelevant *)
(* more reduce fuel never changes an answer other than OutOfFuel *)
Lemma feed_fuel_mono g pp tok is_end :
  forall f1 f2 ss vs,
    (f1 <= f2)%nat -> feed g pp f1 tok is_end ss vs <> FErr OutOfFuel ->
    feed g pp f2 tok is_end ss vs = feed g pp f1 tok is_end ss vs.
Proof.
  induction f1 as [|f1 IH]; intros f2 ss vs Hle Hne; [cbn [feed] in Hne; congruence|].
  destruct f2 as [|f2]; [lia|]. cbn [feed] in *.
  destruct ss as [|state ss']; [reflexivity|].
  destruct (lookup_action g state (ttype tok)) as [[ns|ri]|]; try reflexivity.
  destruct (nth_N (g_rules g) ri) as [r|]; [|reflexivity].
  destruct (pop_n (length (r_expansion r)) (state :: ss')) as [[p1 ss1]|]; [|reflexivity].
  destruct (pop_n (length (r_expansion r)) vs) as [[popped vs1]|]; [|reflexivity].
  destruct (build pp r (rev popped)) as [value|e0]; [|reflexivity].
  destruct ss1 as [|top ss1']; [reflexivity|].
  destruct (lookup_action g top (r_origin r)) as [[ns|?]|]; try reflexivity.
  destruct (is_end && (ns =? g_end g)); [reflexivity|].
  apply IH; [lia|exact Hne].
Qed.

Theorem feed_fuel_irrelevant g pp tok is_end ss vs fuel :
  reduce_fuel_ok g = true -> (reduce_fuel g ss <= fuel)%nat ->
  feed g pp fuel tok is_end ss vs = feed g pp (reduce_fuel g ss) tok is_end ss vs.
Proof.
  intros Hok Hle. apply feed_fuel_mono; [exact Hle|]. apply reduce_fuel_adequate. exact Hok.
Qed.

(* any fuel above the remaining length gives the same answer: the fuel-0
   branch of [next_token] is never taken from such a call *)
Theorem next_token_fuel_stable g wc lx :
  lexer_nonnull lx = true ->
  forall f1 f2 st,
    (length (ls_rest st) < f1)%nat -> (length (ls_rest st) < f2)%nat ->
    next_token g wc lx f1 st = next_token g wc lx f2 st.
Proof.
  intros Hok. unfold lexer_nonnull in Hok.
  induction f1 as [|f1 IH]; intros f2 st H1 H2; [lia|]. destruct f2 as [|f2]; [lia|].
  cbn [next_token].
  destruct (ls_rest st) as [|c0 rest0] eqn:Hrest; [reflexivity|]. rewrite <- Hrest in *.
  rewrite (scan_fuel_stable (lx_terms lx) (S f1) (S f2) (lc_pos (ls_lc st), ls_rest st))
    by (cbn [snd]; lia).
  destruct (scan (lx_terms lx) (S f2) (lc_pos (ls_lc st), ls_rest st)) as [[ty [endpos rest']]|] eqn:Hs;
    [|reflexivity].
  apply (scan_adv _ _ _ _ _ Hok) in Hs. apply adv_length in Hs. cbn [snd] in Hs.
  destruct (memN ty (lx_ignore lx)); [|reflexivity].
  apply IH; cbn [ls_rest]; lia.
Qed.

Theorem ctx_next_fuel_stable g wc state f1 f2 st :
  lexers_nonnull g = true ->
  (length (ls_rest st) < f1)%nat -> (length (ls_rest st) < f2)%nat ->
  ctx_next g wc state f1 st = ctx_next g wc state f2 st.
Proof.
  intros Hok H1 H2. unfold lexers_nonnull in Hok. apply andb_true_iff in Hok. destruct Hok as [Hall Hroot].
  rewrite forallb_forall in Hall. unfold ctx_next.
  destruct (nth_N (g_lexer_of_state g) state) as [li|]; [|reflexivity].
  destruct (nth_N (g_lexers g) li) as [lx|] eqn:Elx; [|reflexivity].
  pose proof (Hall lx (nth_N_In' _ _ _ Elx)) as Hlx.
  rewrite (next_token_fuel_stable g wc lx Hlx f1 f2 st H1 H2).
  pose proof (next_token_progress g wc lx Hlx f2 st H2) as P.
  destruct (next_token g wc lx f2 st) as [t st'|st'|stb]; [reflexivity|reflexivity|].
  rewrite (next_token_fuel_stable g wc (g_root_lexer g) Hroot f1 f2 stb) by lia. reflexivity.
Qed.

Theorem parse_loop_fuel_stable g h wc :
  lexers_nonnull g = true ->
  forall f1 f2 st ss vs acc,
    (length (ls_rest st) < f1)%nat -> (length (ls_rest st) < f2)%nat ->
    parse_loop g h wc f1 st ss vs acc = parse_loop g h wc f2 st ss vs acc.
Proof.
  intros Hlex.
  induction f1 as [|f1 IH]; intros f2 st ss vs acc H1 H2; [lia|]. destruct f2 as [|f2]; [lia|].
  cbn [parse_loop].
  destruct ss as [|state ss']; [reflexivity|].
  rewrite (ctx_next_fuel_stable g wc state (S f1) (S f2) st Hlex H1 H2).
  pose proof (ctx_next_progress g wc state (S f2) st Hlex H2) as P.
  destruct (ctx_next g wc state (S f2) st) as [t st'|st'|l c|t]; try reflexivity.
  destruct (hook h t vs) as [t'|e]; [|reflexivity].
  destruct (feed g wc (reduce_fuel g (state :: ss')) t' false (state :: ss') vs); try reflexivity.
  apply IH; lia.
Qed.

(* parse_text computes what the loop computes with ANY larger fuel *)
Corollary parse_text_fuel_irrelevant g h wc text fuel :
  lexers_nonnull g = true -> (length text < fuel)%nat ->
  parse_loop g h wc fuel (ls0 text) [g_start g] [] [] = parse_text_tr g h wc text.
Proof.
  intros Hlex Hf. unfold parse_text_tr. apply parse_loop_fuel_stable; [exact Hlex| |]; cbn [ls0 ls_rest]; lia.
Qed.

(* ---------------------------------------------------------------- the generated grammar *)
(* every terminal pattern of every scanner (contextual and root) is non-nullable *)
Lemma the_grammar_lexers_nonnull : lexers_nonnull the_grammar = true.
Proof. vm_compute. reflexivity. Qed.

(* the LALR table passes the reduce-chain validator *)
Lemma the_grammar_reduce_fuel_ok : reduce_fuel_ok the_grammar = true.
Proof. vm_compute. reflexivity. Qed.

Theorem parse_text_never_out_of_fuel :
  forall wc text, parse_text the_grammar the_hook wc text <> Err OutOfFuel.
Proof.
  intros wc text.
  exact (parse_text_fuel the_grammar the_hook wc text the_grammar_lexers_nonnull the_grammar_reduce_fuel_ok).
Qed.

(* C11 without the fuel disjunct *)
Theorem loads_errors_total :
  forall ip ic text e,
    loads ip ic text = Err e -> e = LarkVisitError \/ lark_syntax_error e.
Proof.
  intros ip ic text e H.
  destruct (loads_errors_strong ip ic text e H) as [Hv|[Hs|Hf]]; [left; exact Hv|right; exact Hs|].
  exfalso. subst e. unfold loads, parse_tree in H.
  destruct (parse_text the_grammar the_hook ic text) as [po|e0] eqn:Ep; cbn [bind] in H.
  - destruct (transform ip ic _) as [r|e1] eqn:Et; cbn [bind] in H.
    + destruct (tv_to_value_total r) as [v Ev]. rewrite Ev in H. discriminate.
    + injection H as ->. apply ov_transform in Et. discriminate.
  - injection H as ->. exact (parse_text_never_out_of_fuel ic text Ep).
Qed.

(* ================================================================ 4. fuel of the transformer stage *)
(* None of these can produce OutOfFuel (Proofs/C11.v: every failure of the
   transformer is a VisitError); what is shown here is that the default taken
   at fuel 0 is never what the model's own call computes: each function gives
   the same answer for every fuel above a size measure, and the model calls it
   with a fuel above that measure. *)

(* ---- calculate_depth *)
Lemma mapM_ext {A B} (f f' : A -> res B) l : (forall x, In x l -> f x = f' x) -> mapM f l = mapM f' l.
Proof.
  induction l as [|x l IH]; intros H; cbn [mapM]; [reflexivity|].
  rewrite (H x (or_introl eq_refl)), IH; [reflexivity|]. intros y Hy. apply H. right. exact Hy.
Qed.

Lemma fold_add_shift {A} (sz : A -> nat) l a :
  fold_left (fun a x => (a + sz x)%nat) l a = (a + fold_left (fun a x => (a + sz x)%nat) l O)%nat.
Proof.
  revert a; induction l as [|x l IH]; intros a; cbn [fold_left]; [lia|].
  rewrite (IH (a + sz x)%nat), (IH (0 + sz x)%nat). lia.
Qed.

Lemma fold_add_In {A} (sz : A -> nat) l x :
  In x l -> (sz x <= fold_left (fun a x => (a + sz x)%nat) l O)%nat.
Proof.
  induction l as [|y l IH]; intros H; [destruct H|]. cbn [fold_left]. rewrite fold_add_shift.
  destruct H as [->|H]; [lia|]. specialize (IH H). lia.
Qed.

Theorem depth_fuel_stable :
  forall f1 f2 v, (value_size v <= f1)%nat -> (value_size v <= f2)%nat -> depth_fuel f1 v = depth_fuel f2 v.
Proof.
  induction f1 as [|f1 IH]; intros f2 v H1 H2.
  - destruct v; cbn [value_size] in H1; lia.
  - destruct f2 as [|f2]; [destruct v; cbn [value_size] in H2; lia|].
    cbn [depth_fuel]. destruct v as [| | | | |l|]; try reflexivity.
    destruct l as [|x l]; [reflexivity|].
    rewrite (mapM_ext (depth_fuel f1) (depth_fuel f2) (x :: l)); [reflexivity|].
    intros y Hy. cbn [value_size] in H1, H2.
    pose proof (fold_add_In value_size (x :: l) y Hy). apply IH; lia.
Qed.

(* calculate_depth never fails for lack of fuel: it is depth_fuel at any larger fuel *)
Corollary calculate_depth_fuel_irrelevant v fuel :
  (value_size v <= fuel)%nat -> depth_fuel fuel v = calculate_depth v.
Proof. intros H. unfold calculate_depth. apply depth_fuel_stable; lia. Qed.

(* ---- assign_comments *)
Definition forest_size (cs : list tree) : nat := fold_left (fun a c => (a + tree_size c)%nat) cs O.

Lemma forest_size_cons c cs : forest_size (c :: cs) = (tree_size c + forest_size cs)%nat.
Proof. unfold forest_size. cbn [fold_left]. rewrite fold_add_shift. lia. Qed.

Lemma tree_size_pos t : (1 <= tree_size t)%nat.
Proof. destruct t; cbn [tree_size]; lia. Qed.

Theorem assign_children_stable :
  forall f1 f2 cd cs,
    (forest_size cs < f1)%nat -> (forest_size cs < f2)%nat ->
    assign_children f1 cd cs = assign_children f2 cd cs.
Proof.
  induction f1 as [|f1 IH]; intros f2 cd cs H1 H2; [lia|]. destruct f2 as [|f2]; [lia|].
  cbn [assign_children]. destruct cs as [|c cs']; [reflexivity|].
  rewrite forest_size_cons in H1, H2. pose proof (tree_size_pos c) as Hc.
  destruct c as [t|d kids m].
  - rewrite (IH f2 cd cs') by lia. reflexivity.
  - change (tree_size (Node d kids m)) with (S (forest_size kids)) in H1, H2.
    destruct (m_line m) as [line0|].
    + match goal with |- (let '(cd1, m1) := ?X in _) = _ => destruct X as [cd1 m1] end.
      rewrite (IH f2 cd1 kids) by lia.
      destruct (assign_children f2 cd1 kids) as [cd2 kids'].
      rewrite (IH f2 cd2 cs') by lia. reflexivity.
    + rewrite (IH f2 cd cs') by lia. reflexivity.
Qed.

Corollary assign_comments_fuel_irrelevant comments d cs m fuel :
  (forest_size cs < fuel)%nat ->
  Node d (snd (assign_children fuel (comments_dict comments) cs)) m = assign_comments comments (Node d cs m).
Proof.
  intros H. unfold assign_comments. rewrite (assign_children_stable fuel (S (tree_size (Node d cs m)))); [reflexivity|exact H|].
  change (tree_size (Node d cs m)) with (S (forest_size cs)). lia.
Qed.

(* ---- float(text): stripping the trailing zeros of the mantissa *)
Lemma strip_stable_nz :
  forall f1 f2 m e,
    (m <> 0)%Z -> (Z.abs m < 10 ^ Z.of_nat f1)%Z -> (Z.abs m < 10 ^ Z.of_nat f2)%Z ->
    strip_trailing_zeros_fuel f1 m e = strip_trailing_zeros_fuel f2 m e.
Proof.
  induction f1 as [|f1 IH]; intros f2 m e Hm H1 H2.
  - cbn in H1. lia.
  - destruct f2 as [|f2]; [cbn in H2; lia|].
    cbn [strip_trailing_zeros_fuel].
    destruct (m =? 0)%Z; [reflexivity|].
    destruct (m mod 10 =? 0)%Z eqn:Emod; [|reflexivity].
    apply Z.eqb_eq in Emod.
    pose proof (Z_div_mod_eq_full m 10) as Hdiv. rewrite Emod in Hdiv.
    rewrite Nat2Z.inj_succ, Z.pow_succ_r in H1, H2 by lia.
    apply IH; lia.
Qed.

Theorem strip_trailing_zeros_stable f1 f2 m e :
  (Z.abs m < 10 ^ Z.of_nat (S f1))%Z -> (Z.abs m < 10 ^ Z.of_nat (S f2))%Z ->
  strip_trailing_zeros_fuel (S f1) m e = strip_trailing_zeros_fuel (S f2) m e.
Proof.
  intros H1 H2. destruct (Z.eq_dec m 0) as [->|Hm]; [reflexivity|].
  apply strip_stable_nz; assumption.
Qed.

Lemma digits_val_bound s : forall acc v,
  digits_val s acc = Some v -> v < (acc + 1) * 10 ^ N.of_nat (length s).
Proof.
  induction s as [|c s IH]; intros acc v H; cbn [digits_val length] in *.
  - injection H as <-. cbn. lia.
  - destruct ((48 <=? c) && (c <=? 57)) eqn:Ed; [|discriminate].
    apply andb_true_iff in Ed. destruct Ed as [E1 E2]. apply N.leb_le in E1, E2.
    apply IH in H. rewrite Nat2N.inj_succ, N.pow_succ_r'.
    assert (Hc : acc * 10 + (c - 48) + 1 <= (acc + 1) * 10) by lia.
    eapply N.lt_le_trans; [exact H|].
    replace ((acc + 1) * (10 * 10 ^ N.of_nat (length s))) with ((acc + 1) * 10 * 10 ^ N.of_nat (length s)) by lia.
    apply N.mul_le_mono_r. exact Hc.
Qed.

(* the call made by parse_float: the mantissa of a digit string [ds] has at most
   [length ds] trailing zeros, any larger fuel gives the same canonical form *)
Corollary parse_float_strip_fuel_irrelevant ds mant (neg : bool) e fuel :
  digits_val ds 0 = Some mant -> (length ds < fuel)%nat ->
  let m := (if neg then - Z.of_N mant else Z.of_N mant)%Z in
  strip_trailing_zeros_fuel fuel m e = strip_trailing_zeros_fuel (S (length ds)) m e.
Proof.
  intros Hd Hf m. destruct fuel as [|fuel]; [lia|].
  apply digits_val_bound in Hd. rewrite N.add_0_l, N.mul_1_l in Hd.
  assert (Hm : (Z.abs m < 10 ^ Z.of_nat (length ds))%Z).
  { assert (E : Z.abs m = Z.of_N mant) by (unfold m; destruct neg; lia). rewrite E.
    apply N2Z.inj_lt in Hd. rewrite N2Z.inj_pow, nat_N_Z in Hd. exact Hd. }
  apply strip_trailing_zeros_stable.
  - eapply Z.lt_le_trans; [exact Hm|]. apply Z.pow_le_mono_r; lia.
  - eapply Z.lt_le_trans; [exact Hm|]. apply Z.pow_le_mono_r; lia.
Qed.

(* ---- str(int): decimal digits *)
Theorem digits_fuel_stable :
  forall f1 f2 n acc,
    n < 2 ^ N.of_nat f1 -> n < 2 ^ N.of_nat f2 ->
    digits_fuel (S f1) n acc = digits_fuel (S f2) n acc.
Proof.
  induction f1 as [|f1 IH]; intros f2 n acc H1 H2.
  - cbn in H1. assert (n = 0) by lia. subst n. reflexivity.
  - destruct f2 as [|f2].
    + cbn in H2. assert (n = 0) by lia. subst n. reflexivity.
    + remember (S f1) as g1. remember (S f2) as g2. cbn [digits_fuel].
      destruct (n / 10 =? 0); [reflexivity|]. subst g1 g2.
      rewrite Nat2N.inj_succ, N.pow_succ_r' in H1, H2.
      apply IH; apply N.div_lt_upper_bound; lia.
Qed.

Lemma size_nat_gt n : n < 2 ^ N.of_nat (N.size_nat n).
Proof.
  destruct n as [|p]; [cbn; lia|]. cbn [N.size_nat].
  induction p as [p IH|p IH|]; cbn [Pos.size_nat].
  - rewrite Nat2N.inj_succ, N.pow_succ_r'. lia.
  - rewrite Nat2N.inj_succ, N.pow_succ_r'. lia.
  - cbn. lia.
Qed.

Corollary digits_of_N_fuel_irrelevant n fuel :
  (N.size_nat n <= fuel)%nat -> digits_fuel (S fuel) n [] = digits_of_N n.
Proof.
  intros H. unfold digits_of_N. apply digits_fuel_stable; [|apply size_nat_gt].
  eapply N.lt_le_trans; [apply size_nat_gt|]. apply N.pow_le_mono_r; lia.
Qed.

(* ---- re.fullmatch of the keyword tables (UnlessCallback) runs the matcher with
   fuel = length of the lexeme: that is enough *)
Corollary rx_fullmatch_fuel_irrelevant r (s : str) fuel :
  (length s <= fuel)%nat ->
  match rmatch r fuel (0, s) (fun s' => match snd s' with [] => Some tt | _ => None end) with
  | Some _ => true
  | None => false
  end = rx_fullmatch r s.
Proof.
  intros H. unfold rx_fullmatch.
  rewrite (rmatch_fuel_stable r unit fuel (length s) (0, s)); [reflexivity|exact H|cbn [snd]; lia].
Qed.

(* ================================================================ the validators are not vacuous *)
(* a table with an empty rule whose goto state reduces it again: the validator
   rejects it and the driver does exhaust its reduce fuel *)
Definition looping_grammar : grammar :=
  mk_grammar [[]] [[]] [] [] [] (mk_lexer [] [] [] []) []
             [mk_rule 1 [] 0 false None]
             [[(0, Reduce 0); (1, Shift 0)]] 0 1 0.

Example reduce_fuel_validator_rejects_loop :
  reduce_fuel_ok looping_grammar = false /\
  feed looping_grammar false (reduce_fuel looping_grammar [0]) (mk_token 0 [] 0 1 1 1 1 0) false [0] []
  = FErr OutOfFuel.
Proof. vm_compute. split; reflexivity. Qed.

(* a scanner with an ignored nullable terminal: the validator rejects it and
   next_token does stop silently at fuel 0 in the middle of the text *)
Definition stuck_lexer : lexer_info := mk_lexer [(0, REps)] [] [0] [].

Example lexer_validator_rejects_nullable :
  lexer_nonnull stuck_lexer = false /\
  match next_token looping_grammar false stuck_lexer 5 (ls0 [97]) with
  | LEof st' => ls_rest st'
  | _ => []
  end = [97].
Proof. vm_compute. split; reflexivity. Qed.

Print Assumptions parse_text_never_out_of_fuel.
Print Assumptions loads_errors_total.
